import Pcore.Model.FormatX
import Pcore.Proofs.FormatContainer
/-! The extended model (`Model/FormatX.lean`): every value kind, format maps over any key system.
    Letter sets, the side condition on the regenerated table `formatLettersX`, no Go fault, unsupported ⇔ letter outside the set. -/
namespace Pcore.Format

/-! ### letter sets -/

/-- the letters the model's function of a kind formats (`none`: the kind ignores the letter) -/
def modelLettersX : XKind → Option (List Char)
  | .int => modelLetters .int | .float => modelLetters .float | .str => modelLetters .str | .bool => modelLetters .bool
  | .bin => modelLetters .bin | .dflt => modelLetters .dflt | .arr => modelLetters .arr | .hash => modelLetters .hash
  | .undef => none | .regexp => none
  | .semver => some ['s', 'p']
  | .semverRange => some ['p', 's']
  | .uri => some ['s', 'p']
  | .tspan => none | .tstamp => none | .sensitive => none
  | .typ => some ['s', 'p']
  | .obj => some ['a', 'h', 's', 'p']
  | .talias => none
  | .otype => some ['s', 'p']

def acceptsX (k : XKind) (c : Char) : Bool :=
  match modelLettersX k with
  | some ls => ls.contains c
  | none => true

theorem acceptsX_old (k : Kind) (c : Char) : acceptsX k.x c = accepts k c := by
  cases k <;> rfl

/-- the letters under which the model's function of a kind applies the string flags (`ApplyStringFlags`: width, precision,
    `-`); for the kinds without a switch: `none` = never, `some []` is not used -/
def modelFlagged : XKind → List Char
  | .int => ['c', 's'] | .float => ['p', 's'] | .str => ['s', 'p', 'c', 'C', 'u', 'd', 't']
  | .bool => ['t', 'T', 'y', 'Y', 's', 'p'] | .bin => ['s', 'p', 'b', 'B', 'u', 't', 'T'] | .dflt => ['d', 's', 'p', 'D']
  | .semver => ['s', 'p'] | .uri => ['s', 'p'] | .semverRange => ['p', 's'] | .typ => ['s', 'p'] | .otype => ['s', 'p']
  | _ => []

/-- kinds whose function applies the string flags whatever the letter -/
def modelFlagsAlways : XKind → Bool
  | .undef | .regexp => true
  | _ => false

/-- does the model apply width / precision / `-` to the rendering of kind `k` under letter `c` through `ApplyStringFlags`? -/
def honoursFlags (k : XKind) (c : Char) : Bool := modelFlagsAlways k || (modelFlagged k).contains c

theorem fmtSemVer_reported (f : Fmt) (t : Str) (c : Code) (h : fmtSemVer f t = .reported c) :
    c = .unsupported ∧ acceptsX .semver f.letter = false := by
  unfold fmtSemVer at h
  by_cases h1 : f.letter = 's'
  · rw [if_pos h1] at h; cases h
  · rw [if_neg h1] at h
    by_cases h2 : f.letter = 'p'
    · rw [if_pos h2] at h; cases h
    · rw [if_neg h2] at h
      cases h
      exact ⟨rfl, by simp [acceptsX, modelLettersX, h1, h2]⟩

theorem fmtSemVer_of_not_accepts (f : Fmt) (t : Str) (h : acceptsX .semver f.letter = false) :
    fmtSemVer f t = .reported .unsupported := by
  simp [acceptsX, modelLettersX] at h
  unfold fmtSemVer
  rw [if_neg h.1, if_neg h.2]

theorem fmtUri_reported (f : Fmt) (t : Str) (c : Code) (h : fmtUri f t = .reported c) :
    c = .unsupported ∧ acceptsX .uri f.letter = false := by
  unfold fmtUri at h
  by_cases h1 : f.letter = 's'
  · rw [if_pos h1] at h; cases h
  · rw [if_neg h1] at h
    by_cases h2 : f.letter = 'p'
    · rw [if_pos h2] at h; cases h
    · rw [if_neg h2] at h
      cases h
      exact ⟨rfl, by simp [acceptsX, modelLettersX, h1, h2]⟩

theorem fmtUri_of_not_accepts (f : Fmt) (t : Str) (h : acceptsX .uri f.letter = false) :
    fmtUri f t = .reported .unsupported := by
  simp [acceptsX, modelLettersX] at h
  unfold fmtUri
  rw [if_neg h.1, if_neg h.2]

theorem fmtSemVerRange_reported (f : Fmt) (t n : Str) (c : Code) (h : fmtSemVerRange f t n = .reported c) :
    c = .unsupported ∧ acceptsX .semverRange f.letter = false := by
  unfold fmtSemVerRange at h
  by_cases h1 : f.letter = 'p'
  · rw [if_pos h1] at h; cases h
  · rw [if_neg h1] at h
    by_cases h2 : f.letter = 's'
    · rw [if_pos h2] at h; cases h
    · rw [if_neg h2] at h
      cases h
      exact ⟨rfl, by simp [acceptsX, modelLettersX, h1, h2]⟩

theorem fmtSemVerRange_of_not_accepts (f : Fmt) (t n : Str) (h : acceptsX .semverRange f.letter = false) :
    fmtSemVerRange f t n = .reported .unsupported := by
  simp [acceptsX, modelLettersX] at h
  unfold fmtSemVerRange
  rw [if_neg h.1, if_neg h.2]

/-! ### the side condition on the regenerated table, every kind -/

def allXKinds : List XKind := [.int, .float, .str, .bool, .undef, .dflt, .bin, .regexp, .arr, .hash,
  .semver, .semverRange, .uri, .tspan, .tstamp, .sensitive, .typ, .obj, .talias, .otype]

theorem allXKinds_complete (k : XKind) : k ∈ allXKinds := by cases k <;> simp [allXKinds]

def rowOfX (tbl : List XLetterRow) (k : XKind) : Option XLetterRow := tbl.find? (fun r => r.kind == k)

/-- a row agrees with the model: the letters whose arm formats are exactly the documented literal and exactly the letters the
    model formats; the letters under which ApplyStringFlags is called are exactly those under which the model applies it -/
def rowCoreOKXb (r : XLetterRow) (k : XKind) : Bool :=
  (match modelLettersX k with
   | none => r.noSwitch && r.documented.isEmpty && r.handled.isEmpty && (r.flagsAll == modelFlagsAlways k) && r.flagged.isEmpty
   | some ls => !r.noSwitch && sameLetters r.handled r.documented && sameLetters r.documented ls &&
       !modelFlagsAlways k && sameLetters (if r.flagsAll then r.handled else r.flagged) (modelFlagged k))

def rowOKXb (tbl : List XLetterRow) (k : XKind) : Bool :=
  match rowOfX tbl k with
  | none => false
  | some r =>
    rowCoreOKXb r k && r.unknown.isEmpty &&
    (match rowOfX tbl .float with
     | some fr => r.toFloat.all fr.handled.contains
     | none => r.toFloat.isEmpty) &&
    (match rowOfX tbl .int with
     | some ir => r.toInt.all ir.handled.contains
     | none => r.toInt.isEmpty)

def lettersOKXb (tbl : List XLetterRow) : Bool := allXKinds.all (rowOKXb tbl)

/-- `XLettersOK`: for every value kind, handled = documented = what the model formats, string flags where the model applies them -/
def XLettersOK (tbl : List XLetterRow) : Prop := ∀ k : XKind, rowOKXb tbl k = true

theorem lettersOKXb_sound (tbl : List XLetterRow) (h : lettersOKXb tbl = true) : XLettersOK tbl := by
  intro k
  exact List.all_eq_true.mp h k (allXKinds_complete k)

/-- the documented set of a kind according to the table (every letter for a kind without a switch) -/
def documentedInX (tbl : List XLetterRow) (k : XKind) (c : Char) : Bool :=
  match rowOfX tbl k with
  | some r => r.noSwitch || r.documented.contains c
  | none => false

/-- the letters under which the code calls ApplyStringFlags, according to the table -/
def flaggedInX (tbl : List XLetterRow) (k : XKind) (c : Char) : Bool :=
  match rowOfX tbl k with
  | some r => if r.noSwitch then r.flagsAll else (if r.flagsAll then r.handled.contains c else r.flagged.contains c)
  | none => false

theorem documentedInX_eq_acceptsX (tbl : List XLetterRow) (h : XLettersOK tbl) (k : XKind) (c : Char) :
    documentedInX tbl k c = acceptsX k c := by
  have hk := h k
  unfold rowOKXb at hk
  unfold documentedInX acceptsX
  cases hr : rowOfX tbl k with
  | none => simp [hr] at hk
  | some r =>
    simp only [hr, Bool.and_eq_true] at hk ⊢
    have hcore := hk.1.1.1
    unfold rowCoreOKXb at hcore
    cases hm : modelLettersX k with
    | none => simp [hm] at hcore ⊢; simp [hcore.1.1.1.1]
    | some ls =>
      simp only [hm, Bool.and_eq_true] at hcore ⊢
      have hs := sameLetters_contains hcore.1.1.2 c
      have hn : r.noSwitch = false := by simpa using hcore.1.1.1.1
      rw [hn, hs]; simp

theorem flaggedInX_eq_honours (tbl : List XLetterRow) (h : XLettersOK tbl) (k : XKind) (c : Char)
    (hacc : acceptsX k c = true) : flaggedInX tbl k c = honoursFlags k c := by
  have hk := h k
  unfold rowOKXb at hk
  unfold flaggedInX honoursFlags
  cases hr : rowOfX tbl k with
  | none => simp [hr] at hk
  | some r =>
    simp only [hr, Bool.and_eq_true] at hk ⊢
    have hcore := hk.1.1.1
    unfold rowCoreOKXb at hcore
    cases hm : modelLettersX k with
    | none =>
      simp [hm] at hcore
      have hfl : modelFlagged k = [] := by
        cases k <;> simp [modelLettersX, modelLetters] at hm <;> rfl
      simp [hcore.1.1.1.1, hcore.1.2, hfl]
    | some ls =>
      simp only [hm, Bool.and_eq_true] at hcore
      have hn : r.noSwitch = false := by simpa using hcore.1.1.1.1
      have hna : modelFlagsAlways k = false := by simpa using hcore.1.2
      have hs := sameLetters_contains hcore.2 c
      rw [hn, hna]
      simp only [Bool.false_eq_true, if_false, Bool.false_or]
      rw [← hs]
      cases r.flagsAll <;> simp

/-! ### formats reachable from a map over any key system -/

mutual
inductive InTreeG {κ : Type} : Fmt → GTree κ → Prop
  | here (f : Fmt) (cf : Option (GMap κ)) : InTreeG f (.mk f cf)
  | deeper (g f : Fmt) (m : GMap κ) : InMapG g m → InTreeG g (.mk f (some m))
inductive InMapG {κ : Type} : Fmt → GMap κ → Prop
  | mk (g : Fmt) (k : κ) (t : GTree κ) (m : GMap κ) : (k, t) ∈ m → InTreeG g t → InMapG g m
end

/-- every format of the map, at any depth, is one fmt understands -/
def AllGoOKG {κ : Type} (m : GMap κ) : Prop := ∀ g, InMapG g m → GoOK g

theorem allGoOKG_defaultCF {κ : Type} (d : Key → κ) : AllGoOKG (defaultCFG d) := by
  intro g hg
  cases hg
  rename_i k t ht hmem
  simp [defaultCFG] at hmem
  rcases hmem with h | h | h | h | h | h | h | h <;> obtain ⟨rfl, rfl⟩ := h <;>
    (cases ht; decide)

theorem getG_goOK {κ : Type} (ks : KeySys κ) (m : GMap κ) (h : AllGoOKG m) (v : XVal) : GoOK (getG ks m v).f := by
  unfold getG
  cases hf : m.find? (fun e => ks.acc e.1 v) with
  | none => simp only [defaultTreeG, GTree.f]; decide
  | some e =>
    simp only
    have hmem := List.mem_of_find?_eq_some hf
    apply h
    refine InMapG.mk _ e.1 e.2 m hmem ?_
    cases e.2 with
    | mk f cf => exact InTreeG.here f cf

theorem cfOfG_goOK {κ : Type} (ks : KeySys κ) (m : GMap κ) (h : AllGoOKG m) (v : XVal) : AllGoOKG (cfOfG ks (getG ks m v)) := by
  unfold cfOfG getG
  cases hf : m.find? (fun e => ks.acc e.1 v) with
  | none => simp only [defaultTreeG, GTree.cf, Option.getD]; exact allGoOKG_defaultCF _
  | some e =>
    simp only
    have hmem := List.mem_of_find?_eq_some hf
    cases he : e.2 with
    | mk f cf =>
      cases cf with
      | none => simp only [GTree.cf, Option.getD]; exact allGoOKG_defaultCF _
      | some m' =>
        simp only [GTree.cf, Option.getD]
        intro g hg
        apply h
        refine InMapG.mk _ e.1 e.2 m hmem ?_
        rw [he]
        exact InTreeG.deeper g f m' hg

/-! ### no Go fault -/

theorem fmtSemVer_no_fault (f : Fmt) (t : Str) (k : FaultKind) : fmtSemVer f t ≠ .fault k := by
  unfold fmtSemVer
  by_cases h1 : f.letter = 's'
  · rw [if_pos h1]; exact fun h => Res.noConfusion h
  · rw [if_neg h1]
    by_cases h2 : f.letter = 'p'
    · rw [if_pos h2]; exact fun h => Res.noConfusion h
    · rw [if_neg h2]; exact fun h => Res.noConfusion h

theorem fmtUri_no_fault (f : Fmt) (t : Str) (k : FaultKind) : fmtUri f t ≠ .fault k := by
  unfold fmtUri
  by_cases h1 : f.letter = 's'
  · rw [if_pos h1]; exact fun h => Res.noConfusion h
  · rw [if_neg h1]
    by_cases h2 : f.letter = 'p'
    · rw [if_pos h2]; exact fun h => Res.noConfusion h
    · rw [if_neg h2]; exact fun h => Res.noConfusion h

theorem fmtSemVerRange_no_fault (f : Fmt) (t n : Str) (k : FaultKind) : fmtSemVerRange f t n ≠ .fault k := by
  unfold fmtSemVerRange
  by_cases h1 : f.letter = 'p'
  · rw [if_pos h1]; exact fun h => Res.noConfusion h
  · rw [if_neg h1]
    by_cases h2 : f.letter = 's'
    · rw [if_pos h2]; exact fun h => Res.noConfusion h
    · rw [if_neg h2]; exact fun h => Res.noConfusion h

theorem typeFinish_no_fault (f : Fmt) (name : Str) (r : Res) (h : ∀ k, r ≠ .fault k) (k : FaultKind) :
    typeFinish f name r ≠ .fault k := by
  unfold typeFinish
  cases r with
  | text s => simp only [Res.bind]; split <;> simp
  | reported c => simp [Res.bind]
  | fault e => exact absurd rfl (h e)

theorem arrayOf_no_fault (f : Fmt) (ind : Ind) (r : ResL (Str × Bool)) (h : NoFaultL r) (k : FaultKind) :
    arrayOf f ind r ≠ .fault k := by
  unfold arrayOf
  cases r with
  | ok parts => simp
  | err e => exact h e rfl k

theorem hashOf_no_fault (f : Fmt) (ind : Ind) (p : Bool) (r : ResL (Str × Str)) (h : NoFaultL r) (k : FaultKind) :
    hashOf f ind p r ≠ .fault k := by
  unfold hashOf
  cases r with
  | ok parts => simp
  | err e => exact h e rfl k

theorem bind_text_no_fault (r : Res) (g : Str → Str) (h : ∀ k, r ≠ .fault k) (k : FaultKind) :
    r.bind (fun s => .text (g s)) ≠ .fault k := by
  cases r with
  | text s => simp [Res.bind]
  | reported c => simp [Res.bind]
  | fault e => exact absurd rfl (h e)

theorem bind_no_fault (r : Res) (g : Str → Res) (h1 : ∀ k, r ≠ .fault k) (h2 : ∀ s k, g s ≠ .fault k) (k : FaultKind) :
    r.bind g ≠ .fault k := by
  cases r with
  | text s => simpa [Res.bind] using h2 s k
  | reported c => simp [Res.bind]
  | fault e => exact absurd rfl (h1 e)

mutual
theorem noFaultX {κ : Type} (ks : KeySys κ) (io : FloatIO) :
    ∀ (v : XVal) (m : GMap κ) (ind : Ind), AllGoOKG m → ∀ k, fmtX ks io m ind v ≠ .fault k
  | .undef, m, ind, _, k => by simp [fmtX, fmtUndef]
  | .dflt, m, ind, _, k => by simp only [fmtX]; exact fmtDefault_no_fault _ k
  | .bool b, m, ind, h, k => by simp only [fmtX]; exact fmtBool_no_fault io _ b (getG_goOK ks m h _) k
  | .int i, m, ind, h, k => by simp only [fmtX]; exact fmtInt_no_fault io _ i (getG_goOK ks m h _) k
  | .float bits, m, ind, h, k => by simp only [fmtX]; exact fmtFloat_no_fault io _ bits (getG_goOK ks m h _) k
  | .str s, m, ind, _, k => by simp only [fmtX]; exact fmtStr_no_fault _ s k
  | .regexp src, m, ind, _, k => by simp [fmtX, fmtRegexp]
  | .binary bs u, m, ind, _, k => by simp only [fmtX]; exact fmtBinary_no_fault _ bs u k
  | .semver t, m, ind, _, k => by simp only [fmtX]; exact fmtSemVer_no_fault _ t k
  | .semverRange t n, m, ind, _, k => by simp only [fmtX]; exact fmtSemVerRange_no_fault _ t n k
  | .uri t, m, ind, _, k => by simp only [fmtX]; exact fmtUri_no_fault _ t k
  | .tspan ns, m, ind, _, k => by simp [fmtX, fmtTspan]
  | .tstamp t, m, ind, _, k => by simp [fmtX, fmtTstamp]
  | .sensitive v, m, ind, _, k => by simp [fmtX, fmtSensitive]
  | .typ name [], m, ind, h, k => by
    simp only [fmtX]
    split
    · simp
    · exact typeFinish_no_fault _ _ _ (by simp) k
  | .typ name (p :: ps), m, ind, h, k => by
    simp only [fmtX]
    split
    · simp
    · apply typeFinish_no_fault
      intro k'
      split
      · simp
      · exact arrayOf_no_fault _ _ _ (noFaultX_elems ks io (p :: ps) m _ _ h (cfOfG_goOK ks m h _)) k'
  | .talias name r, m, ind, h, k => by
    simp only [fmtX]
    split
    · simp
    · split
      · simp
      · exact bind_text_no_fault _ _ (noFaultX ks io r m ind h) k
  | .otype name ih, m, ind, h, k => by
    simp only [fmtX]
    split
    · simp
    · apply typeFinish_no_fault
      intro k'
      split
      · simp
      · exact bind_text_no_fault _ _ (noFaultX_otypeEntries ks io ih m _ _ _ _ _ h (cfOfG_goOK ks m h _)) k'
  | .otypeX d ih, m, ind, h, k => by
    simp only [fmtX]
    split
    · simp
    · apply typeFinish_no_fault
      intro k'
      split
      · simp
      · exact bind_text_no_fault _ _ (noFaultX_otypeEntries ks io ih m _ _ _ _ _ h (cfOfG_goOK ks m h _)) k'
  | .obj name es, m, ind, h, k => by
    simp only [fmtX]
    apply bind_text_no_fault
    intro k'
    split
    · split
      · split
        · simp
        · exact arrayOf_no_fault _ _ _ (noFaultX_entryArrs ks io es _ _ (cfOfG_goOK ks m h _)) k'
      · split
        · simp
        · exact hashOf_no_fault _ _ _ _ (noFaultX_pairs ks io es m _ _ h (cfOfG_goOK ks m h _)) k'
    · split
      · split
        · simp
        · exact arrayOf_no_fault _ _ _ (noFaultX_entryArrs ks io es _ _ (cfOfG_goOK ks m h _)) k'
      · split
        · simp
        · exact hashOf_no_fault _ _ _ _ (noFaultX_pairs ks io es m _ _ h (cfOfG_goOK ks m h _)) k'
  | .array vs, m, ind, h, k => by
    simp only [fmtX]
    split
    · simp
    · exact arrayOf_no_fault _ _ _ (noFaultX_elems ks io vs m _ _ h (cfOfG_goOK ks m h _)) k
  | .hash es, m, ind, h, k => by
    simp only [fmtX]
    split
    · split
      · simp
      · exact arrayOf_no_fault _ _ _ (noFaultX_entryArrs ks io es _ _ (cfOfG_goOK ks m h _)) k
    · split
      · simp
      · exact hashOf_no_fault _ _ _ _ (noFaultX_pairs ks io es m _ _ h (cfOfG_goOK ks m h _)) k

theorem noFaultX_otypeEntries {κ : Type} (ks : KeySys κ) (io : FloatIO) :
    ∀ (es : List OEntry) (m cf : GMap κ) (f : Fmt) (i2 i3 : Ind) (first : Bool), AllGoOKG m → AllGoOKG cf →
      ∀ k, otypeEntries ks io m cf f i2 i3 first es ≠ .fault k
  | [], m, cf, f, i2, i3, first, _, _, k => by simp [otypeEntries]
  | .plain key v :: rest, m, cf, f, i2, i3, first, hm, hcf, k => by
    simp only [otypeEntries]
    have hrest := noFaultX_otypeEntries ks io rest m cf f i2 i3 false hm hcf
    refine bind_no_fault _ _ ?_ ?_ k
    · intro k'
      by_cases hc : v.isContainer = true
      · simp only [hc, if_true]; exact noFaultX ks io v m i2 hm k'
      · simp only [hc]; exact noFaultX ks io v cf i2 hcf k'
    · intro sv k'
      refine bind_no_fault _ _ hrest ?_ k'
      intro sr k''
      simp
  | .members key ms :: rest, m, cf, f, i2, i3, first, hm, hcf, k => by
    simp only [otypeEntries]
    have hrest := noFaultX_otypeEntries ks io rest m cf f i2 i3 false hm hcf
    refine bind_no_fault _ _ (noFaultX_otypeMembers ks io ms m f i3 true hm) ?_ k
    intro sv k'
    refine bind_no_fault _ _ hrest ?_ k'
    intro sr k''
    simp

theorem noFaultX_otypeMembers {κ : Type} (ks : KeySys κ) (io : FloatIO) :
    ∀ (es : List XEntry) (m : GMap κ) (f : Fmt) (i3 : Ind) (first : Bool), AllGoOKG m →
      ∀ k, otypeMembers ks io m f i3 first es ≠ .fault k
  | [], m, f, i3, first, _, k => by simp [otypeMembers]
  | .mk kk v :: rest, m, f, i3, first, hm, k => by
    simp only [otypeMembers]
    have hrest := noFaultX_otypeMembers ks io rest m f i3 false hm
    refine bind_no_fault _ _ (noFaultX ks io v m i3 hm) ?_ k
    intro sv k'
    refine bind_no_fault _ _ hrest ?_ k'
    intro sr k''
    simp

theorem noFaultX_elems {κ : Type} (ks : KeySys κ) (io : FloatIO) :
    ∀ (vs : List XVal) (m cf : GMap κ) (ci : Ind), AllGoOKG m → AllGoOKG cf → NoFaultL (fmtElemsX ks io m cf ci vs)
  | [], m, cf, ci, _, _ => by intro e he; simp [fmtElemsX] at he
  | v :: vs, m, cf, ci, hm, hcf => by
    simp only [fmtElemsX]
    apply noFaultL_cons
    · intro k
      by_cases hc : v.isContainer = true
      · simp only [hc, if_true]; exact noFaultX ks io v m ci hm k
      · simp only [hc]; exact noFaultX ks io v cf ci hcf k
    · exact noFaultX_elems ks io vs m cf ci hm hcf

theorem noFaultX_pairs {κ : Type} (ks : KeySys κ) (io : FloatIO) :
    ∀ (es : List XEntry) (m cf : GMap κ) (ci : Ind), AllGoOKG m → AllGoOKG cf → NoFaultL (fmtPairsX ks io m cf ci es)
  | [], m, cf, ci, _, _ => by intro e he; simp [fmtPairsX] at he
  | .mk kk v :: es, m, cf, ci, hm, hcf => by
    simp only [fmtPairsX]
    have hk : ∀ k, fmtX ks io (if kk.isContainer = true then m else cf) ci kk ≠ .fault k := by
      intro k
      by_cases hc : kk.isContainer = true
      · simp only [hc, if_true]; exact noFaultX ks io kk m ci hm k
      · simp only [hc]; exact noFaultX ks io kk cf ci hcf k
    split
    · apply noFaultL_cons
      · intro k
        by_cases hc : v.isContainer = true
        · simp only [hc, if_true]; exact noFaultX ks io v m ci hm k
        · simp only [hc]; exact noFaultX ks io v cf ci hcf k
      · exact noFaultX_pairs ks io es m cf ci hm hcf
    · rename_i e hne
      intro e' he' k
      cases he'
      exact hk k

theorem noFaultX_entryArrs {κ : Type} (ks : KeySys κ) (io : FloatIO) :
    ∀ (es : List XEntry) (m : GMap κ) (ind : Ind), AllGoOKG m → NoFaultL (fmtEntryArrsX ks io m ind es)
  | [], m, ind, _ => by intro e he; simp [fmtEntryArrsX] at he
  | .mk kk v :: es, m, ind, hm => by
    simp only [fmtEntryArrsX]
    apply noFaultL_cons
    · intro k
      have hcf := cfOfG_goOK ks m hm (.array [kk, v])
      have hk : ∀ k, fmtX ks io (if kk.isContainer = true then m else cfOfG ks (getG ks m (.array [kk, v])))
          (arrayChildInd (getG ks m (.array [kk, v])).f ind) kk ≠ .fault k := by
        intro k
        by_cases hc : kk.isContainer = true
        · simp only [hc, if_true]; exact noFaultX ks io kk m _ hm k
        · simp only [hc]; exact noFaultX ks io kk _ _ hcf k
      have hv : ∀ k, fmtX ks io (if v.isContainer = true then m else cfOfG ks (getG ks m (.array [kk, v])))
          (arrayChildInd (getG ks m (.array [kk, v])).f ind) v ≠ .fault k := by
        intro k
        by_cases hc : v.isContainer = true
        · simp only [hc, if_true]; exact noFaultX ks io v m _ hm k
        · simp only [hc]; exact noFaultX ks io v _ _ hcf k
      split
      · simp
      · split
        · split
          · simp
          · rename_i e hne; exact hv k
        · rename_i e hne; exact hk k
    · exact noFaultX_entryArrs ks io es m ind hm
end

end Pcore.Format
