import Pcore.Proofs.ReflectN
/-! Helper lemmas for `C18_struct`: flat structs through the derived object type (declared defaults, trimmed trailing
    defaults restored by `setValues`). -/
namespace Pcore.ReflectN

theorem mapOpt_map2 {α β γ : Type} (f : α → Option β) (p : γ → α) (q : γ → β) :
    ∀ l : List γ, (∀ x ∈ l, f (p x) = some (q x)) → mapOpt f (l.map p) = some (l.map q)
  | [], _ => rfl
  | x :: l, h => by
      have h1 := h x (by simp)
      have h2 := mapOpt_map2 f p q l (fun y hy => h y (by simp [hy]))
      simp [mapOpt, h1, h2]

/-! ### defaults -/

theorem fEq_exact {a b : Nat} (hx : a % 2 ^ 63 ≠ 0) (h : fEq a b = true) : a = b := by
  simp only [fEq, Bool.or_eq_true, Bool.and_eq_true, beq_iff_eq] at h
  rcases h with h | h
  · exact h
  · exact absurd h.1 hx

/-- an exact literal `Equals` only its own value -/
theorem litEq_eq : ∀ (d : Lit) (v : Val), d.exact = true → litEq d v = true → d.toVal = v := by
  intro d
  induction d with
  | int a => intro v _ h; cases v <;> simp_all [litEq, Lit.toVal]
  | flt a =>
      intro v hx h
      cases v <;> simp [litEq] at h
      simp only [Lit.exact, bne_iff_ne, ne_eq] at hx
      simp [Lit.toVal, fEq_exact hx h]
  | str a => intro v _ h; cases v <;> simp_all [litEq, Lit.toVal]
  | bool a => intro v _ h; cases v <;> simp_all [litEq, Lit.toVal]
  | undef => intro v _ h; cases v <;> simp_all [litEq, Lit.toVal]
  | anil =>
      intro v _ h
      cases v with
      | arr es => cases es <;> simp_all [litEq, Lit.toVal]
      | _ => simp [litEq] at h
  | acons hd tl ihh iht =>
      intro v hx h
      simp only [Lit.exact, Bool.and_eq_true] at hx
      cases v with
      | arr es =>
        cases es with
        | nil => simp [litEq] at h
        | cons x xs =>
          simp only [litEq, Bool.and_eq_true] at h
          simp [Lit.toVal, ihh x hx.1 h.1, iht (.arr xs) hx.2 h.2]
      | _ => simp [litEq] at h
  | hnil =>
      intro v _ h
      cases v with
      | hsh es => cases es <;> simp_all [litEq, Lit.toVal]
      | _ => simp [litEq] at h
  | hcons k w tl _ ihw _ =>
      intro v hx h
      cases tl <;> simp [Lit.exact] at hx
      cases k with
      | str s =>
        simp at hx
        cases v with
        | hsh es =>
          simp only [litEq, Lit.len, Nat.zero_add, Bool.and_eq_true, beq_iff_eq, hashIn, Bool.and_true] at h
          obtain ⟨hlen, hl⟩ := h
          match es, hlen with
          | [(kk, ww)], _ =>
            cases kk with
            | str s' =>
              simp only [lookupAttr] at hl
              by_cases hs : s' = s
              · subst hs
                simp at hl
                simp [Lit.toVal, ihw ww hx hl]
              · simp [hs] at hl
            | _ => simp [lookupAttr] at hl
        | _ => simp [litEq] at h
      | _ => simp at hx

theorem dlit_exact {f : Field} {d : Lit} (hx : f.exactDflt = true) (hd : f.dlit = some d) : d.exact = true := by
  unfold Field.dlit at hd
  unfold Field.exactDflt at hx
  cases hf : f.dflt with
  | some d' => simp only [hf, Option.some.injEq, Bool.and_eq_true] at hd hx; subst hd; exact hx.1
  | none =>
    simp only [hf] at hd
    split at hd
    · simp only [Option.some.injEq] at hd; subst hd; rfl
    · cases hd

/-- `attr.Default(v)` only holds for the attribute's own value — when the declared default is an exact literal -/
theorem isDefault_eq {f : Field} {v : Val} (hx : f.exactDflt = true) (h : f.isDefault v = true) :
    f.default.getD .undef = v := by
  unfold Field.isDefault at h
  unfold Field.default
  cases hd : f.dlit with
  | none => simp [hd] at h
  | some d =>
    simp only [hd] at h
    simpa using litEq_eq d v (dlit_exact hx hd) h

theorem isDefault_of_req {f : Field} (h : f.isOpt = false) (v : Val) : f.isDefault v = false := by
  unfold Field.isOpt Field.default at h
  unfold Field.isDefault
  cases hd : f.dlit with
  | none => rfl
  | some d => simp [hd] at h

/-- what the struct theorems need of a (field, value) pair: when the value is one the init hash omits (it counts as the
    default, or the attribute is given_or_derived and the value undef) it IS what `setValues` puts back -/
def DefaultExact (f : Field) (v : Val) : Prop := f.omitted v = true → f.default.getD .undef = v

theorem isDefault_omitted {f : Field} {v : Val} (h : f.isDefault v = true) : f.omitted v = true := by
  simp [Field.omitted, h]

theorem defaultExact_of_exact {f : Field} (hx : f.exactDflt = true) (v : Val) : DefaultExact f v := by
  intro h
  simp only [Field.omitted, Bool.or_eq_true, Bool.and_eq_true, beq_iff_eq] at h
  rcases h with h | ⟨hk, hu⟩
  · exact isDefault_eq hx h
  · cases v <;> simp [isUndef] at hu
    unfold Field.exactDflt at hx
    unfold Field.default Field.dlit
    cases hf : f.dflt with
    | some d => simp [hf, hk] at hx
    | none => cases f.aty <;> simp [Lit.toVal]

/-- cutting the trailing defaults and letting `setValues` put the declared defaults back is the identity -/
theorem restore_trim : ∀ (attrs : List Field) (vals : List Val), vals.length = attrs.length →
    (∀ av ∈ zipFV attrs vals, DefaultExact av.1 av.2) →
    restore attrs (trimDefaults attrs vals) = vals
  | [], [], _, _ => rfl
  | [], _ :: _, h, _ => by simp at h
  | _ :: _, [], h, _ => by simp at h
  | a :: as, v :: vs, h, hx => by
      have ih := restore_trim as vs (by simpa using h) (fun av hav => hx av (by simp [zipFV, hav]))
      simp only [trimDefaults]
      by_cases hc : ((trimDefaults as vs).isEmpty && a.isDefault v) = true
      · rw [if_pos hc]
        simp only [Bool.and_eq_true, List.isEmpty_iff] at hc
        rw [hc.1] at ih
        simp [restore, ih, hx (a, v) (by simp [zipFV]) (isDefault_omitted hc.2)]
      · rw [if_neg hc]
        simp [restore, ih]

theorem zipFV_mem_fst : ∀ (attrs : List Field) (vals : List Val), ∀ av ∈ zipFV attrs vals, av.1 ∈ attrs
  | [], _, _, h => by simp [zipFV] at h
  | _ :: _, [], _, h => by simp [zipFV] at h
  | a :: as, v :: vs, av, h => by
      simp only [zipFV, List.mem_cons] at h
      rcases h with rfl | h
      · simp
      · exact List.mem_cons_of_mem _ (zipFV_mem_fst as vs av h)

theorem restore_full : ∀ (attrs : List Field) (vals : List Val), vals.length = attrs.length → restore attrs vals = vals
  | [], [], _ => rfl
  | [], _ :: _, h => by simp at h
  | _ :: _, [], h => by simp at h
  | a :: as, v :: vs, h => by simp [restore, restore_full as vs (by simpa using h)]

theorem trim_length_le : ∀ (attrs : List Field) (vals : List Val), (trimDefaults attrs vals).length ≤ vals.length
  | [], _ => by simp [trimDefaults]
  | _ :: _, [] => by simp [trimDefaults]
  | a :: as, v :: vs => by
      have ih := trim_length_le as vs
      simp only [trimDefaults]
      split <;> simp <;> omega

/-- the required attributes are never cut -/
theorem trim_req : ∀ (req rest : List Field) (vals : List Val), (∀ f ∈ req, f.isOpt = false) →
    req.length ≤ vals.length → req.length ≤ (trimDefaults (req ++ rest) vals).length
  | [], _, _, _, _ => by simp
  | _ :: _, _, [], _, h => by simp at h
  | a :: r, rest, v :: vs, hq, h => by
      have ih := trim_req r rest vs (fun f hf => hq f (by simp [hf])) (by simpa using h)
      simp only [List.cons_append, trimDefaults, isDefault_of_req (hq a (by simp)) v, Bool.and_false]
      simp; omega

theorem allZip_trim {p : Field → Val → Bool} : ∀ (attrs : List Field) (vals : List Val),
    allZip p attrs vals = true → allZip p attrs (trimDefaults attrs vals) = true
  | [], _, _ => by simp [trimDefaults, allZip]
  | _ :: _, [], _ => by simp [trimDefaults, allZip]
  | a :: as, v :: vs, h => by
      simp only [allZip, Bool.and_eq_true] at h
      simp only [trimDefaults]
      split
      · simp [allZip]
      · simp [allZip, h.1, allZip_trim as vs h.2]

theorem allZip_map {α : Type} (p : Field → Val → Bool) (f : α → Field) (g : α → Val) : ∀ l : List α,
    allZip p (l.map f) (l.map g) = l.all fun x => p (f x) (g x)
  | [] => rfl
  | x :: l => by simp [allZip, allZip_map p f g l]

theorem zipFV_map {α : Type} (f : α → Field) (g : α → Val) : ∀ l : List α,
    zipFV (l.map f) (l.map g) = l.map fun x => (f x, g x)
  | [] => rfl
  | x :: l => by simp [zipFV, zipFV_map f g l]

/-! ### attribute order -/

theorem attrOrder_perm {α : Type} (p : α → Field) (l : List α) : (attrOrder p l).Perm l := by
  unfold attrOrder
  have := List.filter_append_perm (fun x : α => (p x).isOpt) l
  exact (List.perm_append_comm).trans this

theorem attrOrder_map {α : Type} (p : α → Field) (l : List α) : (attrOrder p l).map p = attrOrder id (l.map p) := by
  simp [attrOrder, List.filter_map, Function.comp_def]

theorem attrOrder_req (fs : List Field) :
    ((attrOrder id fs).filter fun f => !f.isOpt) = fs.filter fun f => !f.isOpt := by
  simp [attrOrder, List.filter_filter]

/-! ### looking attributes up by name -/

theorem lookup_absent (ent : Field × GoVal → Option (Val × Val))
    (hent : ∀ fv e, ent fv = some e → e.1 = .str fv.1.name) (n : String) :
    ∀ l : List (Field × GoVal), n ∉ l.map (·.1.name) → lookupAttr n (l.filterMap ent) = none
  | [], _ => rfl
  | x :: r, h => by
      simp only [List.map_cons, List.mem_cons, not_or] at h
      have ih := lookup_absent ent hent n r h.2
      simp only [List.filterMap_cons]
      cases hx : ent x with
      | none => simpa using ih
      | some e =>
        obtain ⟨k, w⟩ := e
        have hk : k = .str x.1.name := hent x _ hx
        subst hk
        simp only [lookupAttr]
        rw [if_neg (fun h' => h.1 h'.symm)]
        exact ih

theorem lookup_present (ent : Field × GoVal → Option (Val × Val))
    (hent : ∀ fv e, ent fv = some e → e.1 = .str fv.1.name) :
    ∀ (l : List (Field × GoVal)), (l.map (·.1.name)).Nodup → ∀ fv ∈ l,
    lookupAttr fv.1.name (l.filterMap ent) = (ent fv).map (·.2)
  | [], _, _, h => by cases h
  | x :: r, hn, fv, hm => by
      simp only [List.map_cons, List.nodup_cons] at hn
      simp only [List.filterMap_cons]
      by_cases hx : fv = x
      · subst hx
        cases he : ent fv with
        | none => simpa using lookup_absent ent hent _ r hn.1
        | some e =>
          obtain ⟨k, w⟩ := e
          have hk : k = .str fv.1.name := hent fv _ he
          subst hk
          simp [lookupAttr]
      · have hmr : fv ∈ r := by
          rcases List.mem_cons.mp hm with h | h
          · exact absurd h hx
          · exact h
        have hne : x.1.name ≠ fv.1.name := by
          intro h
          exact hn.1 (h ▸ List.mem_map.mpr ⟨fv, hmr, rfl⟩)
        have ih := lookup_present ent hent r hn.2 fv hmr
        cases he : ent x with
        | none => simpa using ih
        | some e =>
          obtain ⟨k, w⟩ := e
          have hk : k = .str x.1.name := hent x _ he
          subst hk
          simp only [lookupAttr]
          rw [if_neg hne]
          exact ih

theorem lookupField_present : ∀ (l : List (Field × GoVal)), (l.map (·.1.name)).Nodup → ∀ fv ∈ l,
    lookupField fv.1.name (l.map fun x => (x.1.name, x.2)) = some fv.2
  | [], _, _, h => by cases h
  | x :: r, hn, fv, hm => by
      simp only [List.map_cons, List.nodup_cons] at hn
      by_cases hx : fv = x
      · subst hx; simp [lookupField]
      · have hmr : fv ∈ r := by
          rcases List.mem_cons.mp hm with h | h
          · exact absurd h hx
          · exact h
        have hne : x.1.name ≠ fv.1.name := by
          intro h
          exact hn.1 (h ▸ List.mem_map.mpr ⟨fv, hmr, rfl⟩)
        simp only [List.map_cons, lookupField]
        rw [if_neg hne]
        exact lookupField_present r hn.2 fv hmr

/-- the entry the init hash holds for a field: none when the attribute is at its default -/
def entryOf (fv : Field × GoVal) : Option (Val × Val) :=
  if fv.1.omitted (fieldVal fv) then none else some (.str fv.1.name, fieldVal fv)

def entryFull (fv : Field × GoVal) : Option (Val × Val) := some (.str fv.1.name, fieldVal fv)

theorem entryOf_key : ∀ fv e, entryOf fv = some e → e.1 = .str fv.1.name := by
  intro fv e h
  simp only [entryOf] at h
  split at h
  · cases h
  · cases h; rfl

theorem entryFull_key : ∀ fv e, entryFull fv = some e → e.1 = .str fv.1.name := by
  intro fv e h; cases h; rfl

theorem initHash_eq (fvs : List (Field × GoVal)) : initHash fvs = (attrOrder (·.1) fvs).filterMap entryOf := rfl

theorem fullHash_eq (fvs : List (Field × GoVal)) : fullHash fvs = (attrOrder (·.1) fvs).filterMap entryFull := by
  unfold fullHash
  generalize attrOrder (·.1) fvs = l
  induction l with
  | nil => rfl
  | cons x r ih => simp [entryFull, List.filterMap_cons, ih]

/-- a hash built from the attributes of the wrapped struct: every entry is `name => wrapped field`, an entry may only be
    missing when the attribute is at its default -/
structure HashOf (fvs : List (Field × GoVal)) (h : List (Val × Val)) : Prop where
  lookup : ∀ fv ∈ fvs, lookupAttr fv.1.name h = some (fieldVal fv) ∨
                       (lookupAttr fv.1.name h = none ∧ fv.1.omitted (fieldVal fv) = true)
  keys : ∀ kv ∈ h, ∃ fv ∈ fvs, kv.1 = .str fv.1.name

theorem hashOf_init (fvs : List (Field × GoVal)) (hn : (fvs.map (·.1.name)).Nodup) : HashOf fvs (initHash fvs) := by
  have hp := attrOrder_perm (·.1) fvs
  constructor
  · intro fv hm
    rw [initHash_eq, lookup_present entryOf entryOf_key _ ((hp.map _).nodup_iff.mpr hn) fv (hp.mem_iff.mpr hm)]
    simp only [entryOf]
    by_cases hc : fv.1.omitted (fieldVal fv) = true
    · right; simp [hc]
    · left; simp [hc]
  · intro kv hkv
    rw [initHash_eq] at hkv
    obtain ⟨fv, hfv, he⟩ := List.mem_filterMap.mp hkv
    exact ⟨fv, hp.mem_iff.mp hfv, entryOf_key fv kv he⟩

theorem hashOf_full (fvs : List (Field × GoVal)) (hn : (fvs.map (·.1.name)).Nodup) : HashOf fvs (fullHash fvs) := by
  have hp := attrOrder_perm (·.1) fvs
  constructor
  · intro fv hm
    left
    rw [fullHash_eq, lookup_present entryFull entryFull_key _ ((hp.map _).nodup_iff.mpr hn) fv (hp.mem_iff.mpr hm)]
    rfl
  · intro kv hkv
    rw [fullHash_eq] at hkv
    obtain ⟨fv, hfv, he⟩ := List.mem_filterMap.mp hkv
    exact ⟨fv, hp.mem_iff.mp hfv, entryFull_key fv kv he⟩

/-! ### struct types as terms: promotion of the embedded parent's fields -/

theorem nodupS_nodup : ∀ l : List String, nodupS l = true → l.Nodup
  | [], _ => List.nodup_nil
  | a :: r, h => by
      simp only [nodupS, Bool.and_eq_true, Bool.not_eq_true', List.contains_eq_mem, decide_eq_false_iff_not] at h
      exact List.nodup_cons.mpr ⟨h.1, nodupS_nodup r h.2⟩

theorem zipFG_append : ∀ (a₁ : List Field) (v₁ : List GoVal) (a₂ : List Field) (v₂ : List GoVal), a₁.length = v₁.length →
    zipFG (a₁ ++ a₂) (v₁ ++ v₂) = zipFG a₁ v₁ ++ zipFG a₂ v₂
  | [], [], _, _, _ => rfl
  | [], _ :: _, _, _, h => by simp at h
  | _ :: _, [], _, _, h => by simp at h
  | a :: as, v :: vs, a₂, v₂, h => by
      simp only [List.cons_append, zipFG, zipFG_append as vs a₂ v₂ (by simpa using h)]

theorem zipFG_fst : ∀ (a : List Field) (v : List GoVal), a.length = v.length → (zipFG a v).map (·.1) = a
  | [], [], _ => rfl
  | [], _ :: _, h => by simp at h
  | _ :: _, [], h => by simp at h
  | a :: as, v :: vs, h => by simp [zipFG, zipFG_fst as vs (by simpa using h)]

theorem zipFG_snd : ∀ (a : List Field) (v : List GoVal), a.length = v.length → (zipFG a v).map (·.2) = v
  | [], [], _ => rfl
  | [], _ :: _, h => by simp at h
  | _ :: _, [], h => by simp at h
  | a :: as, v :: vs, h => by simp [zipFG, zipFG_snd as vs (by simpa using h)]

theorem hasType_scons (n : String) (tg : FTag) (ft rest : GoTy) (x : GoVal) (xs : List GoVal) :
    hasType (.scons n tg ft rest) (.st (x :: xs)) = (fieldHasType ft x && hasType rest (.st xs)) := by
  cases ft <;> simp [hasType, fieldHasType]

theorem fieldHasType_ne_iface {ft : GoTy} (h : ft ≠ .iface) (v : GoVal) : fieldHasType ft v = hasType ft v := by
  cases ft <;> simp [fieldHasType] at h ⊢

theorem fieldHasType_struct {ft : GoTy} (h : isStruct ft = true) (v : GoVal) : fieldHasType ft v = hasType ft v :=
  fieldHasType_ne_iface (by rintro rfl; simp [isStruct] at h) v

/-- a well-typed struct value has one value per declared STORED field, each of the field's type -/
theorem decl_typed : ∀ (S : GoTy) (vs : List GoVal), hasType S (.st vs) = true →
    (declFields S).length = (declVals S vs).length ∧
    ∀ fv ∈ zipFG (declFields S) (declVals S vs), fieldHasType fv.1.ty fv.2 = true := by
  intro S
  induction S with
  | snil => intro vs h; cases vs <;> simp [hasType] at h; simp [declFields, declVals, zipFG]
  | scons n tg ft rest _ ihr =>
      intro vs h
      cases vs with
      | nil => simp [hasType] at h
      | cons x xs =>
        simp only [hasType_scons, Bool.and_eq_true] at h
        obtain ⟨h1, h2⟩ := ihr xs h.2
        by_cases hst : (fieldOfDecl n tg ft).stored = true
        · simp only [declFields, declVals, hst, if_true]
          refine ⟨by simp [h1], ?_⟩
          intro fv hfv
          simp only [zipFG, List.mem_cons] at hfv
          rcases hfv with rfl | hfv
          · simpa [fieldOfDecl] using h.1
          · exact h2 fv hfv
        · simp only [declFields, declVals, hst]
          exact ⟨h1, h2⟩
  | _ => intro vs h; simp [hasType, scalarHasType] at h

/-- the promoted view: one value per attribute (the parent's first), each of the attribute's Go type -/
theorem obj_typed : ∀ (S : GoTy) (v : GoVal), hasType S v = true →
    (attrsOf S).length = (flatVals S v).length ∧ ∀ fv ∈ objFVs S v, fieldHasType fv.1.ty fv.2 = true := by
  intro S
  induction S with
  | scons n tg ft rest ihf _ =>
      intro v h
      cases v with
      | st vs =>
        cases vs with
        | nil => simp [hasType] at h
        | cons x xs =>
          have h0 := h
          simp only [hasType_scons, Bool.and_eq_true] at h
          by_cases hc : (tg.anon && isStruct ft) = true
          · have hs : isStruct ft = true := by simp only [Bool.and_eq_true] at hc; exact hc.2
            obtain ⟨d1, d2⟩ := decl_typed rest xs h.2
            obtain ⟨p1, p2⟩ := ihf x (by rw [← fieldHasType_struct hs]; exact h.1)
            simp only [objFVs, attrsOf, flatVals, hc, if_true]
            refine ⟨by simp [p1, d1], ?_⟩
            intro fv hfv
            rw [zipFG_append _ _ _ _ p1] at hfv
            rcases List.mem_append.mp hfv with hfv | hfv
            · exact p2 fv hfv
            · exact d2 fv hfv
          · simp only [objFVs, attrsOf, flatVals, hc]
            exact decl_typed (.scons n tg ft rest) (x :: xs) h0
      | _ => simp [hasType] at h
  | _ => intro v _; simp [objFVs, attrsOf, flatVals, zipFG]

/-- every constant / derived field holds the Go zero value (`setValues` never touches such a field) -/
def TailZero : GoTy → List GoVal → Prop
  | .scons n tg ft rest, v :: vs => ((fieldOfDecl n tg ft).stored = true ∨ v = zeroOf ft) ∧ TailZero rest vs
  | _, _ => True

/-- … also in the embedded parents -/
def UnstoredZero : GoTy → GoVal → Prop
  | .scons n tg ft rest, .st (v :: vs) =>
      if tg.anon && isStruct ft then UnstoredZero ft v ∧ TailZero rest vs else TailZero (.scons n tg ft rest) (v :: vs)
  | _, _ => True

/-- no constant / derived field along the chain of embedded parents: a decidable sufficient condition for `UnstoredZero` -/
def tailStored : GoTy → Bool
  | .scons n tg ft rest => (fieldOfDecl n tg ft).stored && tailStored rest
  | _ => true

def allStored : GoTy → Bool
  | .scons n tg ft rest => if tg.anon && isStruct ft then allStored ft && tailStored rest else tailStored (.scons n tg ft rest)
  | _ => true

theorem tailZero_of_stored : ∀ (S : GoTy) (vs : List GoVal), tailStored S = true → TailZero S vs := by
  intro S
  induction S with
  | scons n tg ft rest _ ihr =>
      intro vs h
      simp only [tailStored, Bool.and_eq_true] at h
      cases vs with
      | nil => simp [TailZero]
      | cons x xs => exact ⟨Or.inl h.1, ihr xs h.2⟩
  | _ => intro vs _; simp [TailZero]

theorem unstoredZero_of_allStored : ∀ (S : GoTy) (v : GoVal), allStored S = true → UnstoredZero S v := by
  intro S
  induction S with
  | scons n tg ft rest ihf _ =>
      intro v h
      cases v with
      | st vs =>
        cases vs with
        | nil => simp [UnstoredZero]
        | cons x xs =>
          by_cases hc : (tg.anon && isStruct ft) = true
          · simp only [allStored, hc, if_true, Bool.and_eq_true] at h
            simp only [UnstoredZero, hc, if_true]
            exact ⟨ihf x h.1, tailZero_of_stored rest xs h.2⟩
          · have hc' : (tg.anon && isStruct ft) = false := by simpa using hc
            simp only [allStored, hc', Bool.false_eq_true, if_false] at h
            simp only [UnstoredZero, hc', Bool.false_eq_true, if_false]
            exact tailZero_of_stored _ _ h
      | _ => simp [UnstoredZero]
  | _ => intro v _; simp [UnstoredZero]

theorem declBuild_vals : ∀ (S : GoTy) (vs : List GoVal), hasType S (.st vs) = true → TailZero S vs →
    declBuild S (declVals S vs) = vs := by
  intro S
  induction S with
  | snil => intro vs h _; cases vs <;> simp [hasType] at h; rfl
  | scons n tg ft rest _ ihr =>
      intro vs h hz
      cases vs with
      | nil => simp [hasType] at h
      | cons x xs =>
        simp only [hasType_scons, Bool.and_eq_true] at h
        simp only [TailZero] at hz
        have ih := ihr xs h.2 hz.2
        by_cases hst : (fieldOfDecl n tg ft).stored = true
        · simp [declBuild, declVals, hst, ih]
        · rcases hz.1 with h1 | h1
          · exact absurd h1 hst
          · simp [declBuild, declVals, hst, ih, h1]
  | _ => intro vs h _; simp [hasType, scalarHasType] at h

/-- putting the attribute values back — the embedded parent's into the embedded parent, zero values into the constant /
    derived fields — gives the struct -/
theorem rebuild_flat : ∀ (S : GoTy) (v : GoVal), isStruct S = true → hasType S v = true → UnstoredZero S v →
    rebuild S (flatVals S v) = v := by
  intro S
  induction S with
  | snil =>
      intro v _ h _
      cases v with
      | st fs => cases fs <;> simp [hasType] at h; rfl
      | _ => simp [hasType] at h
  | scons n tg ft rest ihf _ =>
      intro v _ h hz
      cases v with
      | st vs =>
        cases vs with
        | nil => simp [hasType] at h
        | cons x xs =>
          have h0 := h
          simp only [hasType_scons, Bool.and_eq_true] at h
          by_cases hc : (tg.anon && isStruct ft) = true
          · have hs : isStruct ft = true := by simp only [Bool.and_eq_true] at hc; exact hc.2
            have hx : hasType ft x = true := by rw [← fieldHasType_struct hs]; exact h.1
            have hl := (obj_typed ft x hx).1
            simp only [UnstoredZero, hc, if_true] at hz
            simp only [rebuild, flatVals, hc, if_true, hl, List.take_left', List.drop_left', ihf x hs hx hz.1,
              declBuild_vals rest xs h.2 hz.2]
          · simp only [UnstoredZero, hc] at hz
            have hc' : (tg.anon && isStruct ft) = false := by simpa using hc
            simp only [rebuild, flatVals, hc', Bool.false_eq_true, if_false]
            rw [declBuild_vals (.scons n tg ft rest) (x :: xs) h0 hz]
      | _ => simp [hasType] at h
  | _ => intro v hs _ _; simp [isStruct] at hs

/-! ### the constructors -/

/-- what a field must satisfy: flat, well typed, inside both halves of the bridge property (as a field it goes
    through `wrapReflected`: `via = false`), and — when its value counts as the declared default (`Equals`) — it IS the
    default (`DefaultExact`; automatic unless the default contains a float zero or a hash of several entries) -/
def FieldOK (fv : Field × GoVal) : Prop :=
  flatField fv.1 = true ∧ fieldHasType fv.1.ty fv.2 = true ∧ RtOK false fv.1.ty fv.2 = true ∧
  inst fv.1.aty (fieldVal fv) = true ∧ DefaultExact fv.1 (fieldVal fv)

/-- the attribute type accepts the wrapped field: by the type-acceptance half of the bridge (`TaOK`) whenever the
    attribute type is the one derived from the Go type (no `type=>` in the tag) -/
theorem accepts_of_TaOK {fv : Field × GoVal} (ha : fv.1.aty = typeOf fv.1.ty) (hm : Modelled fv.1.ty = true)
    (hv : fieldHasType fv.1.ty fv.2 = true) (ht : TaOK false fv.1.ty fv.2 = true) : inst fv.1.aty (fieldVal fv) = true := by
  rw [ha]
  by_cases hi : fv.1.ty = .iface
  · simp [hi, typeOf, inst]
  · exact ta_main fv.1.ty false fv.2 hm (by rw [← fieldHasType_ne_iface hi]; exact hv) ht

theorem field_ta {fv : Field × GoVal} (h : FieldOK fv) : inst fv.1.aty (fieldVal fv) = true := h.2.2.2.1

/-- a decidable sufficient condition for the value-dependent part of `FieldOK` (for closed examples) -/
def fieldChk (fv : Field × GoVal) : Bool :=
  RtOK false fv.1.ty fv.2 && inst fv.1.aty (fieldVal fv) && (fv.1.exactDflt || !fv.1.omitted (fieldVal fv))

theorem fieldChk_ok {fv : Field × GoVal} (h : fieldChk fv = true) :
    RtOK false fv.1.ty fv.2 = true ∧ inst fv.1.aty (fieldVal fv) = true ∧ DefaultExact fv.1 (fieldVal fv) := by
  simp only [fieldChk, Bool.and_eq_true, Bool.or_eq_true, Bool.not_eq_true'] at h
  refine ⟨h.1.1, h.1.2, ?_⟩
  rcases h.2 with hx | hx
  · exact defaultExact_of_exact hx _
  · intro ho; rw [hx] at ho; cases ho

theorem omitted_isOpt {f : Field} {v : Val} (h : f.omitted v = true) : f.isOpt = true := by
  simp only [Field.omitted, Bool.or_eq_true, Bool.and_eq_true, beq_iff_eq] at h
  simp only [Field.isOpt, Bool.or_eq_true, beq_iff_eq]
  rcases h with h | h
  · left
    unfold Field.isDefault at h
    unfold Field.default
    cases hd : f.dlit with
    | none => simp [hd] at h
    | some d => rfl
  · exact Or.inr h.1

section
variable (r32 : Nat → Nat) (hr : ∀ b, f32exact b = true → r32 b = b)
include hr

theorem field_rt {fv : Field × GoVal} (h : FieldOK fv) : reflectTo r32 fv.1.ty (fieldVal fv) = some fv.2 := by
  obtain ⟨h1, h2, h3, _⟩ := h
  simp only [flatField, Bool.and_eq_true] at h1
  by_cases hi : fv.1.ty = .iface
  · -- a field that is itself an interface{}: a Runtime value holds what it held
    rw [hi] at h2
    simp only [fieldVal, hi]
    cases hv : fv.2 <;> simp [hv, fieldHasType, ifaceField] at h2 <;> simp [wrap, reflectTo]
  · exact rt_main r32 hr fv.1.ty false fv.2 h1.1 (by rw [← fieldHasType_ne_iface hi]; exact h2) h3

/-- `setValues` + reading the struct back: whenever the value slice, once the defaults are put back, is the list of the
    wrapped fields in attribute order, the struct that comes back has the original fields -/
theorem build_ok (fvs : List (Field × GoVal)) (hn : (fvs.map (·.1.name)).Nodup) (hf : ∀ fv ∈ fvs, FieldOK fv)
    (args : List Val)
    (hargs : restore (attrOrder id (fvs.map (·.1))) args = (attrOrder (·.1) fvs).map fieldVal) :
    (setValues r32 (attrOrder id (fvs.map (·.1))) args).bind (structOf (fvs.map (·.1))) = some (fvs.map (·.2)) := by
  have hp := attrOrder_perm (·.1) fvs
  unfold setValues
  rw [hargs, ← attrOrder_map, zipFV_map]
  have h1 := mapOpt_map2 (fun av : Field × Val => (reflectTo r32 av.1.ty av.2).map fun g => (av.1.name, g))
      (fun fv : Field × GoVal => (fv.1, fieldVal fv)) (fun fv => (fv.1.name, fv.2)) (attrOrder (·.1) fvs)
      (fun fv hfv => by simp [field_rt r32 hr (hf fv (hp.mem_iff.mp hfv))])
  rw [h1]
  simp only [Option.bind_some, structOf]
  exact mapOpt_map2 (fun f : Field => lookupField f.name ((attrOrder (·.1) fvs).map fun fv => (fv.1.name, fv.2)))
    (·.1) (·.2) fvs (fun fv hfv =>
    lookupField_present _ ((hp.map _).nodup_iff.mpr hn) fv (hp.mem_iff.mpr hfv))

omit hr in
theorem vals_length (fvs : List (Field × GoVal)) :
    ((attrOrder (·.1) fvs).map fieldVal).length = (attrOrder id (fvs.map (·.1))).length := by
  rw [← attrOrder_map]; simp

omit hr in
theorem zip_exact (fvs : List (Field × GoVal)) (hf : ∀ fv ∈ fvs, FieldOK fv) :
    ∀ av ∈ zipFV (attrOrder id (fvs.map (·.1))) ((attrOrder (·.1) fvs).map fieldVal), DefaultExact av.1 av.2 := by
  intro av hav
  rw [← attrOrder_map, zipFV_map] at hav
  obtain ⟨fv, hfv, rfl⟩ := List.mem_map.mp hav
  exact (hf fv ((attrOrder_perm (·.1) fvs).mem_iff.mp hfv)).2.2.2.2

/-- named-argument construction from any hash of the struct's attributes (the init hash, the full hash) -/
theorem newNamed_ok (fvs : List (Field × GoVal)) (hn : (fvs.map (·.1.name)).Nodup) (hf : ∀ fv ∈ fvs, FieldOK fv)
    (h : List (Val × Val)) (hh : HashOf fvs h) :
    newNamed r32 (fvs.map (·.1)) h = some (fvs.map (·.2)) := by
  have hp := attrOrder_perm (·.1) fvs
  unfold newNamed
  have hchk : namedCheck (fvs.map (·.1)) h = true := by
    simp only [namedCheck, Bool.and_eq_true, List.all_eq_true, List.mem_map]
    constructor
    · rintro f ⟨fv, hfv, rfl⟩
      simp only [attrCheck]
      rcases hh.lookup fv hfv with hl | ⟨hl, hd⟩
      · rw [hl]; exact field_ta (hf fv hfv)
      · rw [hl]
        exact omitted_isOpt hd
    · intro kv hkv
      obtain ⟨fv, hfv, hk⟩ := hh.keys kv hkv
      rw [hk]
      simp only [knownKey, List.any_eq_true, List.mem_map]
      exact ⟨fv.1, ⟨fv, hfv, rfl⟩, by simp⟩
  simp only [hchk, if_true]
  refine build_ok r32 hr fvs hn hf _ ?_
  have hfill : fillFromHash (attrOrder id (fvs.map (·.1))) h = (attrOrder (·.1) fvs).map fieldVal := by
    rw [← attrOrder_map]
    simp only [fillFromHash, List.map_map]
    apply List.map_congr_left
    intro fv hfv
    simp only [Function.comp]
    rcases hh.lookup fv (hp.mem_iff.mp hfv) with hl | ⟨hl, hd⟩
    · simp [hl]
    · simp [hl, (hf fv (hp.mem_iff.mp hfv)).2.2.2.2 hd]
  rw [hfill]
  exact restore_trim _ _ (vals_length fvs) (zip_exact fvs hf)

/-- positional construction: all attribute values, or the values without the trailing defaults -/
theorem newPos_ok (fvs : List (Field × GoVal)) (hn : (fvs.map (·.1.name)).Nodup) (hf : ∀ fv ∈ fvs, FieldOK fv) :
    newPos r32 (fvs.map (·.1)) ((attrOrder (·.1) fvs).map fieldVal) = some (fvs.map (·.2)) ∧
    newPos r32 (fvs.map (·.1)) (trimDefaults (attrOrder id (fvs.map (·.1))) ((attrOrder (·.1) fvs).map fieldVal)) =
      some (fvs.map (·.2)) := by
  have hp := attrOrder_perm (·.1) fvs
  have hlen := vals_length fvs
  have hz : allZip (fun f w => inst f.aty w) (attrOrder id (fvs.map (·.1))) ((attrOrder (·.1) fvs).map fieldVal) = true := by
    rw [← attrOrder_map, allZip_map]
    simp only [List.all_eq_true]
    exact fun fv hfv => field_ta (hf fv (hp.mem_iff.mp hfv))
  have hreq : ((attrOrder id (fvs.map (·.1))).filter fun f => !f.isOpt).length ≤ (attrOrder id (fvs.map (·.1))).length :=
    List.length_filter_le _ _
  constructor
  · unfold newPos
    have hchk : posCheck (attrOrder id (fvs.map (·.1))) ((attrOrder (·.1) fvs).map fieldVal) = true := by
      simp only [posCheck, Bool.and_eq_true, decide_eq_true_eq]
      exact ⟨⟨by omega, by omega⟩, hz⟩
    simp only [hchk, if_true]
    exact build_ok r32 hr fvs hn hf _ (restore_full _ _ hlen)
  · unfold newPos
    have hchk : posCheck (attrOrder id (fvs.map (·.1)))
        (trimDefaults (attrOrder id (fvs.map (·.1))) ((attrOrder (·.1) fvs).map fieldVal)) = true := by
      simp only [posCheck, Bool.and_eq_true, decide_eq_true_eq]
      refine ⟨⟨?_, ?_⟩, allZip_trim _ _ hz⟩
      · rw [attrOrder_req]
        have := trim_req ((fvs.map (·.1)).filter fun f => !f.isOpt) ((fvs.map (·.1)).filter fun f => f.isOpt)
          ((attrOrder (·.1) fvs).map fieldVal) (by intro f hf'; simpa using (List.mem_filter.mp hf').2)
          (by rw [hlen]; simp [attrOrder])
        simpa [attrOrder] using this
      · have := trim_length_le (attrOrder id (fvs.map (·.1))) ((attrOrder (·.1) fvs).map fieldVal)
        omega
    simp only [hchk, if_true]
    exact build_ok r32 hr fvs hn hf _ (restore_trim _ _ hlen (zip_exact fvs hf))

end
end Pcore.ReflectN
