import Pcore.Proofs.ObjectInitHash
import Pcore.Proofs.ObjectAsg
/-! C17: inheritance coheres attribute by attribute along the WHOLE chain — every attribute of an ancestor is an attribute
    of the subtype (possibly overridden), and the subtype's declaration admits only values the ancestor's admits. -/
namespace Pcore.Object

/-- the chain invariant `define` establishes level by level: distinct attribute names, and every own attribute that
    overrides an inherited one admits only values the inherited declaration admits -/
def ChainOK : OType → Prop
  | [] => True
  | l :: p => TypeOK (l :: p) ∧
      (∀ b ∈ l.attrs, ∀ x, findAttr p b.name = some x → ∀ v, inst b.ty v = true → inst x.ty v = true) ∧ ChainOK p

theorem chainOK_typeOK : ∀ {t : OType}, ChainOK t → TypeOK t
  | [], _ => typeOK_nil
  | _ :: _, h => h.1

/-- with distinct names, the attribute of a given name in `eachAttribute` is the one `findAttr` answers -/
theorem findAttr_of_mem {p : OType} (hok : TypeOK p) {x : Attr} (hx : x ∈ eachAttribute p) : findAttr p x.name = some x := by
  cases hf : findAttr p x.name with
  | none => exact absurd rfl (findAttr_none hf x hx)
  | some y =>
    obtain ⟨hy, hyn⟩ := findAttr_some hf
    rw [nodup_map_inj hok.nodup hy hx hyn]

/-- the attributes of the parent are attributes of the child, by name: the inherited one or the one overriding it -/
theorem each_inherits (l : Level) (p : OType) {x : Attr} (hx : x ∈ eachAttribute p) :
    repl l.attrs x ∈ eachAttribute (l :: p) ∧ (repl l.attrs x).name = x.name := by
  refine ⟨?_, repl_name l.attrs x⟩
  rw [eachAttribute_cons, List.mem_append]
  exact Or.inl (List.mem_map_of_mem hx)

/-- one level: the child's attribute named like a parent's attribute admits only what the parent's admits -/
theorem step_sound {l : Level} {p : OType} (h : ChainOK (l :: p)) {x a' : Attr} (hx : x ∈ eachAttribute p)
    (ha' : a' ∈ eachAttribute (l :: p)) (hn : a'.name = x.name) {v : Val} (hv : inst a'.ty v = true) :
    inst x.ty v = true := by
  obtain ⟨hok, hov, hp⟩ := h
  -- the child's attribute of that name is `repl l.attrs x`
  have hrep := each_inherits l p hx
  have heq : a' = repl l.attrs x := nodup_map_inj hok.nodup ha' hrep.1 (hn.trans hrep.2.symm)
  subst heq
  unfold repl at hv
  cases hf : l.attrs.find? (fun b => b.name == x.name) with
  | none => simpa [hf] using hv
  | some b =>
    simp only [hf, Option.getD_some] at hv
    obtain ⟨hb, hbn⟩ := find_some_mem hf
    have hfa : findAttr p b.name = some x := by rw [hbn]; exact findAttr_of_mem (chainOK_typeOK hp) hx
    exact hov b hb x hfa v hv

/-- the WHOLE chain: for every ancestor `p` of `t` (a suffix of its level list), every attribute of `p` is — by name — an
    attribute of `t`, and whatever `t`'s declaration of it admits, `p`'s declaration admits -/
theorem chain_sound : ∀ (pre : List Level) {p : OType}, ChainOK (pre ++ p) → ∀ a ∈ eachAttribute p,
    ∃ a' ∈ eachAttribute (pre ++ p), a'.name = a.name ∧ ∀ v, inst a'.ty v = true → inst a.ty v = true
  | [], _, _, a, ha => ⟨a, ha, rfl, fun _ h => h⟩
  | l :: pre, p, h, a, ha => by
    have hrest : ChainOK (pre ++ p) := h.2.2
    obtain ⟨x, hx, hxn, hxs⟩ := chain_sound pre hrest a ha
    have hrep := each_inherits l (pre ++ p) hx
    refine ⟨repl l.attrs x, hrep.1, hrep.2.trans hxn, ?_⟩
    intro v hv
    exact hxs v (step_sound (l := l) (p := pre ++ p) h hx hrep.1 hrep.2 hv)

/-- `define` extends the invariant -/
theorem define_chainOK {env : List OType} {d : Def} {t : OType} (henv : ∀ t' ∈ env, ChainOK t')
    (hnd : (d.attrs.map (·.name)).Nodup) (hcn : (d.constants.map (·.1)).Nodup) (h : define env d = .ok t) :
    ChainOK t := by
  obtain ⟨-, -, attrs, hattrs, -, -, -, -, ht⟩ := define_parts h
  have hparent : ChainOK (parentOf env d) := by
    unfold parentOf
    cases hp : d.parent with
    | none => trivial
    | some j =>
      simp only
      cases hj : env[j]? with
      | none => simp; trivial
      | some t' => simp; exact henv t' (List.mem_of_getElem? hj)
  have hok := (define_wf (fun t' ht' => chainOK_typeOK (henv t' ht')) hnd hcn h).1
  subst ht
  refine ⟨hok, ?_, hparent⟩
  intro b hb x hf v hv
  obtain ⟨dd, -, -, ho⟩ := forall₂_right_mem (defineAttrs_iff.mp hattrs) b hb
  have hsh := assertOverride_noShadow ho
  unfold assertOverride at ho
  simp only [hsh, Bool.false_eq_true, if_false, hf] at ho
  split at ho
  · cases ho
  · split at ho
    · cases ho
    · split at ho
      · cases ho
      · rename_i hn
        exact asg_sound (by simpa using hn) hv

end Pcore.Object
