import Pcore.Proofs.LatTransGAll
import Pcore.Proofs.LatTransDAux
set_option linter.unusedSimpArgs false
set_option linter.unusedVariables false
/-! C03, transitivity WITH Callable: the stage-3 induction (summed weight of the three terms; LatTransG / LatTransIter / LatTransGMain /
    LatTransGAll, copied with the fragment renamed `…K`) over the fragment `Ty.TGK` = `Ty.TG` plus Callable types every one of which is the
    default Callable or says something about its PARAMETERS.  The excluded shape — parameters absent but a return type or a block present,
    which only the Go constructor makes — is exactly the left type of the known finding C03-trans-callable-top.  The summed weight carries
    the contravariant positions (parameters, block: the recursive call has its arguments swapped); the lexicographic induction of stage 4
    (aliases) does not, so Data / RichData stay outside this fragment. -/
namespace Pcore.Lat

/-! copied from Pcore/Proofs/LatTransG.lean -/

variable (cfg : Cfg) (sfh : Bool)

/-- Fragment of transitivity, stage 3: hereditarily none of Unit, Iterable, Data / RichData; a Struct only with the Struct-from-Hash rule
    off, its member names pairwise different (what `Ty.WF` states; kept inside the fragment so that the induction carries it for the
    left-hand type too). -/
def Ty.TGK (cfg : Cfg) (sfh : Bool) (t : Ty) : Prop :=
  match t with
  | .unit | .data | .richData => False
  | .callable p r k =>
      -- a Callable is the default one or says something about its parameters (the excluded shape is the left type of the known finding
      -- C03-trans-callable-top); the parts lie in the fragment and are well-formed (they change sides in the reversed tests)
      (p.isSome = true ∨ (r = none ∧ k = none)) ∧
      (match p with | none => True | some t' => Ty.TGK cfg sfh t' ∧ Ty.WF cfg t') ∧
      (match r with | none => True | some t' => Ty.TGK cfg sfh t' ∧ Ty.WF cfg t') ∧
      (match k with | none => True | some t' => Ty.TGK cfg sfh t' ∧ Ty.WF cfg t')
  | .struct ms => sfh = false ∧ NamesNodup ms ∧ ∀ m, ∀ (_ : m ∈ ms), Ty.TGK cfg sfh m.2.2
  | .tuple ts _ => ∀ t', ∀ (_ : t' ∈ ts), Ty.TGK cfg sfh t'
  | .array e _ => Ty.TGK cfg sfh e
  | .hash k v _ => Ty.TGK cfg sfh k ∧ Ty.TGK cfg sfh v
  | .variant ts => ∀ t', ∀ (_ : t' ∈ ts), Ty.TGK cfg sfh t'
  | .optional t' | .notUndef t' | .sensitive t' | .iterator t' | .typ t' | .iterable t' => Ty.TGK cfg sfh t'
  | _ => True
termination_by t.w
decreasing_by
  all_goals simp_wf
  all_goals (try simp only [Ty.w, Ty.wl, Ty.wm, Ty.wo] at *)
  all_goals first
    | omega
    | (have := Ty.w_lt_wl ‹_ ∈ _›; omega)
    | (have := Ty.w_lt_wm ‹_ ∈ _›; omega)

theorem Ty.TGK.noAliasRK : ∀ (n : Nat) (t : Ty), t.w ≤ n → t.TGK cfg sfh → t.NoAliasR := by
  intro n
  induction n with
  | zero => intro t h; have := Ty.w_pos t; omega
  | succ n ih =>
    intro t hw h
    cases t <;> unfold Ty.NoAliasR <;> (try trivial)
    · unfold Ty.TGK at h; exact h
    · unfold Ty.TGK at h; exact h
    · rename_i ts
      unfold Ty.TGK at h; simp only [Ty.w] at hw
      exact fun t' hm => ih t' (by have := Ty.w_lt_wl hm; omega) (h t' hm)
    · unfold Ty.TGK at h; simp only [Ty.w] at hw; exact ih _ (by omega) h
    · unfold Ty.TGK at h; simp only [Ty.w] at hw; exact ih _ (by omega) h

/-- the stage-2 fragment lies inside -/
theorem Ty.TF.tgK : ∀ (n : Nat) (t : Ty), t.w ≤ n → t.TF → t.TGK cfg sfh := by
  intro n
  induction n with
  | zero => intro t h; have := Ty.w_pos t; omega
  | succ n ih =>
    intro t hw h
    cases t <;> unfold Ty.TGK <;> (try trivial) <;> unfold Ty.TF at h <;> simp only [Ty.w] at hw <;> (try exact absurd h id)
    · exact ih _ (by omega) h
    · exact ⟨ih _ (by omega) h.1, ih _ (by omega) h.2⟩
    · exact fun t' hm => ih t' (by have := Ty.w_lt_wl hm; omega) (h t' hm)
    · exact fun t' hm => ih t' (by have := Ty.w_lt_wl hm; omega) (h t' hm)
    · exact ih _ (by omega) h
    · exact ih _ (by omega) h
    · exact ih _ (by omega) h
    · exact ih _ (by omega) h
    · exact ih _ (by omega) h

structure GHypK (a b c : Ty) : Prop where
  fa : a.TGK cfg sfh
  fb : b.TGK cfg sfh
  fc : c.TGK cfg sfh
  wb : Ty.WF cfg b
  wc : Ty.WF cfg c

def TransGK (n : Nat) : Prop :=
  ∀ a b c, a.w + b.w + c.w ≤ n → GHypK cfg sfh a b c → asg cfg sfh a b = true → asg cfg sfh b c = true → asg cfg sfh a c = true

theorem tg_leafK (t : Ty) (h : match t with
    | .undef | .dflt | .numeric | .str | .bin | .int _ | .float _ _ | .bool _ | .tspan _ | .tstamp _ | .strSz _ | .strVal _ | .enum _ _
    | .pattern _ | .regexp _ | .runtime _ _ _ | .object _ | .scalar | .scalarData | .any | .coll _ => True
    | _ => False) : t.TGK cfg sfh := by
  cases t <;> simp only [] at h <;> (first | contradiction | (unfold Ty.TGK; trivial))

theorem trG_scalarK (n : Nat) (ih : TransGK cfg sfh n) (b c : Ty) (hw : Ty.scalar.w + b.w + c.w ≤ n + 1)
    (H : GHypK cfg sfh .scalar b c) (hc : c.plainR = true)
    (h1 : asgRecv cfg sfh .scalar b = true) (h2 : asg cfg sfh b c = true) : asg cfg sfh .scalar c = true := by
  simp only [Ty.w] at hw
  apply recv_to_asg cfg sfh _ c hc
  have key : (asg cfg sfh .str b || asg cfg sfh .numeric b || asg cfg sfh (.bool none) b || asg cfg sfh (.regexp "") b ||
      asg cfg sfh (.tspan Rng.all) b || asg cfg sfh (.tstamp tstampAll) b) = true → asgRecv cfg sfh .scalar c = true := by
    intro h
    simp only [Bool.or_eq_true] at h
    have fin : (asg cfg sfh .str c || asg cfg sfh .numeric c || asg cfg sfh (.bool none) c || asg cfg sfh (.regexp "") c ||
        asg cfg sfh (.tspan Rng.all) c || asg cfg sfh (.tstamp tstampAll) c) = true → asgRecv cfg sfh .scalar c = true := by
      intro h'; unfold asgRecv; cases c <;> simp_all
    apply fin
    simp only [Bool.or_eq_true]
    rcases h with ((((h | h) | h) | h) | h) | h
    · left; left; left; left; left
      exact ih .str b c (by simp [Ty.w]; omega) ⟨tg_leafK cfg sfh _ trivial, H.fb, H.fc, H.wb, H.wc⟩ h h2
    · left; left; left; left; right
      exact ih .numeric b c (by simp [Ty.w]; omega) ⟨tg_leafK cfg sfh _ trivial, H.fb, H.fc, H.wb, H.wc⟩ h h2
    · left; left; left; right
      exact ih (.bool none) b c (by simp [Ty.w]; omega) ⟨tg_leafK cfg sfh _ trivial, H.fb, H.fc, H.wb, H.wc⟩ h h2
    · left; left; right
      exact ih (.regexp "") b c (by simp [Ty.w]; omega) ⟨tg_leafK cfg sfh _ trivial, H.fb, H.fc, H.wb, H.wc⟩ h h2
    · left; right
      exact ih (.tspan Rng.all) b c (by simp [Ty.w]; omega) ⟨tg_leafK cfg sfh _ trivial, H.fb, H.fc, H.wb, H.wc⟩ h h2
    · right
      exact ih (.tstamp tstampAll) b c (by simp [Ty.w]; omega) ⟨tg_leafK cfg sfh _ trivial, H.fb, H.fc, H.wb, H.wc⟩ h h2
  unfold asgRecv at h1
  cases b with
  | scalar =>
    -- Scalar ⊒ c as given
    rw [asg_plain_r cfg sfh _ c hc] at h2
    simp only [Bool.or_eq_true, Ty.isAny, Bool.false_eq_true, false_or] at h2
    rcases h2 with h2 | h2
    · have := sameNullary_eq h2; subst this; unfold asgRecv; rfl
    · exact h2
  | scalarData =>
    rw [asg_plain_r cfg sfh _ c hc] at h2
    simp only [Bool.or_eq_true, Ty.isAny, Bool.false_eq_true, false_or] at h2
    rcases h2 with h2 | h2
    · have := sameNullary_eq h2; subst this; unfold asgRecv; rfl
    · -- ScalarData's rule on c
      unfold asgRecv at h2
      have : (asg cfg sfh .str c || asg cfg sfh .numeric c || asg cfg sfh (.bool none) c || asg cfg sfh (.regexp "") c ||
          asg cfg sfh (.tspan Rng.all) c || asg cfg sfh (.tstamp tstampAll) c) = true ∨ c = .scalarData := by
        cases c with
        | scalarData => right; rfl
        | _ =>
          left
          simp only [Bool.or_eq_true] at h2 ⊢
          rcases h2 with ((h2 | h2) | h2) | h2
          · left; left; left; left; left; exact h2
          · left; left; left; left; right
            exact ih .numeric (.int Rng.all) _ (by simp [Ty.w] at hw ⊢; omega) ⟨tg_leafK cfg sfh _ trivial, tg_leafK cfg sfh _ trivial, H.fc, wf_leaf cfg _ trivial, H.wc⟩
              (by rw [asg_plain_r cfg sfh _ _ rfl]; simp [asgRecv]) h2
          · left; left; left; right; exact h2
          · left; left; left; left; right
            exact ih .numeric floatAll _ (by simp [Ty.w, floatAll] at hw ⊢; omega) ⟨tg_leafK cfg sfh _ trivial, by unfold floatAll; exact tg_leafK cfg sfh _ trivial, H.fc, by unfold floatAll; exact wf_leaf cfg _ trivial, H.wc⟩
              (by rw [asg_plain_r cfg sfh _ _ rfl]; simp [asgRecv, floatAll]) h2
      rcases this with h | h
      · unfold asgRecv; cases c <;> simp_all
      · subst h; unfold asgRecv; rfl
  | _ => exact key h1

theorem trG_scalarDataK (n : Nat) (ih : TransGK cfg sfh n) (b c : Ty) (hw : Ty.scalarData.w + b.w + c.w ≤ n + 1)
    (H : GHypK cfg sfh .scalarData b c) (hc : c.plainR = true)
    (h1 : asgRecv cfg sfh .scalarData b = true) (h2 : asg cfg sfh b c = true) : asg cfg sfh .scalarData c = true := by
  simp only [Ty.w] at hw
  apply recv_to_asg cfg sfh _ c hc
  have key : (asg cfg sfh .str b || asg cfg sfh (.int Rng.all) b || asg cfg sfh (.bool none) b || asg cfg sfh floatAll b) = true →
      asgRecv cfg sfh .scalarData c = true := by
    intro h
    simp only [Bool.or_eq_true] at h
    have fin : (asg cfg sfh .str c || asg cfg sfh (.int Rng.all) c || asg cfg sfh (.bool none) c || asg cfg sfh floatAll c) = true →
        asgRecv cfg sfh .scalarData c = true := by
      intro h'; unfold asgRecv; cases c <;> simp_all
    apply fin
    simp only [Bool.or_eq_true]
    rcases h with ((h | h) | h) | h
    · left; left; left
      exact ih .str b c (by simp [Ty.w]; omega) ⟨tg_leafK cfg sfh _ trivial, H.fb, H.fc, H.wb, H.wc⟩ h h2
    · left; left; right
      exact ih (.int Rng.all) b c (by simp [Ty.w]; omega) ⟨tg_leafK cfg sfh _ trivial, H.fb, H.fc, H.wb, H.wc⟩ h h2
    · left; right
      exact ih (.bool none) b c (by simp [Ty.w]; omega) ⟨tg_leafK cfg sfh _ trivial, H.fb, H.fc, H.wb, H.wc⟩ h h2
    · right
      exact ih floatAll b c (by simp [Ty.w, floatAll]; omega) ⟨by unfold floatAll; exact tg_leafK cfg sfh _ trivial, H.fb, H.fc, H.wb, H.wc⟩ h h2
  unfold asgRecv at h1
  cases b with
  | scalarData =>
    rw [asg_plain_r cfg sfh _ c hc] at h2
    simp only [Bool.or_eq_true, Ty.isAny, Bool.false_eq_true, false_or] at h2
    rcases h2 with h2 | h2
    · have := sameNullary_eq h2; subst this; unfold asgRecv; rfl
    · exact h2
  | _ => exact key h1

theorem posG_elemK (x : Ty) (hx : x.isPos = true) (t : Ty) (ht : t ∈ posTypes x) :
    t.w < x.w ∧ (x.TGK cfg sfh → t.TGK cfg sfh) ∧ (Ty.WF cfg x → Ty.WF cfg t) := by
  cases x <;> simp [Ty.isPos] at hx
  · rename_i e r
    simp only [posTypes, List.mem_singleton] at ht; subst ht
    refine ⟨by simp [Ty.w], fun h => by unfold Ty.TGK at h; exact h, fun h => by unfold Ty.WF at h; exact h⟩
  · rename_i ts g
    simp only [posTypes] at ht
    by_cases hts : ts.isEmpty = true
    · simp only [hts, if_true, List.mem_singleton] at ht; subst ht
      refine ⟨by simp only [Ty.w]; omega, fun _ => by unfold Ty.TGK; trivial, fun _ => by unfold Ty.WF; trivial⟩
    · have ht' : t ∈ ts := by simpa [hts] using ht
      refine ⟨by have := Ty.w_lt_wl ht'; simp only [Ty.w]; omega, fun h => by unfold Ty.TGK at h; exact h t ht',
        fun h => by unfold Ty.WF at h; exact h t ht'⟩

/-- transitivity among the positional types, elements by the induction hypothesis -/
theorem trG_posK (n : Nat) (ih : TransGK cfg sfh n) (a b c : Ty) (pa : a.isPos = true) (pb : b.isPos = true) (pc : c.isPos = true)
    (hw : a.w + b.w + c.w ≤ n + 1) (H : GHypK cfg sfh a b c)
    (h1 : asgRecv cfg sfh a b = true) (h2 : asgRecv cfg sfh b c = true) : asgRecv cfg sfh a c = true := by
  rw [recv_pos cfg sfh a b pa pb, Bool.and_eq_true] at h1
  rw [recv_pos cfg sfh b c pb pc, Bool.and_eq_true] at h2
  rw [recv_pos cfg sfh a c pa pc, Bool.and_eq_true]
  refine ⟨Rng.sub_trans h1.1 h2.1, ?_⟩
  have hk : (posSize c).hi ≤ (posSize b).hi := by
    have := h2.1; simp [Rng.sub] at this; omega
  apply tupZip_trans cfg sfh _ _ _ _ _ hk (posTypes_ne a pa) (posTypes_ne b pb) (posTypes_ne c pc) ?_ h1.2 h2.2
  intro a' ha' b' hb' c' hc'
  obtain ⟨wa', fa', _⟩ := posG_elemK cfg sfh a pa a' ha'
  obtain ⟨wb', fb', wfb'⟩ := posG_elemK cfg sfh b pb b' hb'
  obtain ⟨wc', fc', wfc'⟩ := posG_elemK cfg sfh c pc c' hc'
  exact ih a' b' c' (by omega) ⟨fa' H.fa, fb' H.fb, fc' H.fc, wfb' H.wb, wfc' H.wc⟩

theorem trG_collK (r : Rng) (b c : Ty) (fb : b.TGK cfg sfh) (fc : c.TGK cfg sfh)
    (h1 : asgRecv cfg sfh (.coll r) b = true) (h2 : asgRecv cfg sfh b c = true) : asgRecv cfg sfh (.coll r) c = true := by
  unfold asgRecv at h1
  cases b <;> simp only [] at h1 <;> (first | contradiction | skip)
  · unfold asgRecv at h2 ⊢; cases c <;> simp only [] at h2 ⊢ <;> (first | contradiction | skip)
    all_goals exact Rng.sub_trans h1 h2
  · unfold asgRecv at h2 ⊢; cases c <;> simp only [] at h2 ⊢ <;> (first | contradiction | skip)
    · simp only [Bool.and_eq_true] at h2; exact Rng.sub_trans h1 h2.1
    · simp only [Bool.and_eq_true] at h2; exact Rng.sub_trans h1 h2.1
  · unfold asgRecv at h2 ⊢; cases c <;> simp only [] at h2 ⊢ <;> (first | contradiction | skip)
    · rw [Bool.and_eq_true] at h2; exact Rng.sub_trans h1 h2.1
    · rw [Bool.and_eq_true] at h2; exact Rng.sub_trans h1 h2.1
  · unfold asgRecv at h2 ⊢; cases c <;> simp only [] at h2 ⊢ <;> (first | contradiction | skip)
    · simp only [Bool.and_eq_true] at h2; exact Rng.sub_trans h1 h2.1
    · simp only [Bool.and_eq_true] at h2; exact Rng.sub_trans h1 h2.1
  · -- the middle type is a Struct: it accepts Structs only (the rule is off), and its size includes theirs
    rename_i ms'
    unfold Ty.TGK at fb
    have h2s := h2
    unfold asgRecv at h2; cases c <;> simp only [] at h2 <;> (first | contradiction | skip)
    · simp [fb.1] at h2
    · rename_i ms''
      unfold Ty.TGK at fc
      have := struct_sub_size cfg sfh ms' ms'' fb.2.1 fc.2.1 h2s
      unfold asgRecv; exact Rng.sub_trans h1 this

/-- what a Struct accepts with the rule off (without decomposition) is a Struct -/
theorem struct_closedK (ms : List Member) (c : Ty) (hs : sfh = false) (h : asgRecv cfg sfh (.struct ms) c = true) :
    ∃ ms', c = .struct ms' := by
  unfold asgRecv at h; cases c <;> simp only [] at h <;> (first | contradiction | skip)
  · simp [hs] at h
  · exact ⟨_, rfl⟩

theorem struct_size_hi_posK {ms : List Member} {m : Member} (hm : m ∈ ms) : ¬ (structSize ms).hi ≤ 0 := by
  simp only [structSize]
  have := List.length_pos_of_mem hm
  omega

theorem trG_arrayK (n : Nat) (ih : TransGK cfg sfh n) (e : Ty) (r : Rng) (b c : Ty) (hw : (Ty.array e r).w + b.w + c.w ≤ n + 1)
    (H : GHypK cfg sfh (.array e r) b c)
    (h1 : asgRecv cfg sfh (.array e r) b = true) (h2 : asgRecv cfg sfh b c = true) : asgRecv cfg sfh (.array e r) c = true := by
  have pb : b.isPos = true := pos_closed cfg sfh _ b rfl h1
  exact trG_posK cfg sfh n ih _ b c rfl pb (pos_closed cfg sfh b c pb h2) hw H h1 h2

theorem trG_tupleK (n : Nat) (ih : TransGK cfg sfh n) (ts : List Ty) (g : Option Rng) (b c : Ty) (hw : (Ty.tuple ts g).w + b.w + c.w ≤ n + 1)
    (H : GHypK cfg sfh (.tuple ts g) b c)
    (h1 : asgRecv cfg sfh (.tuple ts g) b = true) (h2 : asgRecv cfg sfh b c = true) : asgRecv cfg sfh (.tuple ts g) c = true := by
  have pb : b.isPos = true := pos_closed cfg sfh _ b rfl h1
  exact trG_posK cfg sfh n ih _ b c rfl pb (pos_closed cfg sfh b c pb h2) hw H h1 h2

theorem trG_hashK (n : Nat) (ih : TransGK cfg sfh n) (k v : Ty) (r : Rng) (b c : Ty) (hw : (Ty.hash k v r).w + b.w + c.w ≤ n + 1)
    (H : GHypK cfg sfh (.hash k v r) b c)
    (h1 : asgRecv cfg sfh (.hash k v r) b = true) (h2 : asgRecv cfg sfh b c = true) : asgRecv cfg sfh (.hash k v r) c = true := by
  have fa := H.fa; unfold Ty.TGK at fa
  unfold asgRecv at h1
  cases b <;> simp only [] at h1 <;> (first | contradiction | skip)
  · rename_i k' v' r'
    have fb := H.fb; unfold Ty.TGK at fb
    have wb := H.wb; unfold Ty.WF at wb
    unfold asgRecv at h2 ⊢; cases c <;> simp only [] at h2 ⊢ <;> (first | contradiction | skip)
    · rename_i k'' v'' r''
      have fc := H.fc; unfold Ty.TGK at fc
      have wc := H.wc; unfold Ty.WF at wc
      simp only [Ty.w] at hw
      rw [Bool.and_eq_true] at h1 h2 ⊢
      refine ⟨Rng.sub_trans h1.1 h2.1, ?_⟩
      by_cases hz : r''.hi ≤ 0
      · simp [hz]
      · have hz' : ¬ r'.hi ≤ 0 := by
          have := h2.1; simp [Rng.sub] at this; omega
        have h12 := h1.2; have h22 := h2.2
        simp only [Bool.or_eq_true, decide_eq_true_eq, Bool.and_eq_true] at h12 h22 ⊢
        right
        have hA := h12.resolve_left hz'
        have hB := h22.resolve_left hz
        exact ⟨ih k k' k'' (by omega) ⟨fa.1, fb.1, fc.1, wb.1, wc.1⟩ hA.1 hB.1,
          ih v v' v'' (by omega) ⟨fa.2, fb.2, fc.2, wb.2, wc.2⟩ hA.2 hB.2⟩
    · -- Hash ⊒ Hash ⊒ Struct: the member loop of the middle Hash, through key and value types
      rename_i ms''
      have fc := H.fc; unfold Ty.TGK at fc
      have wc := H.wc; unfold Ty.WF at wc
      simp only [Ty.w] at hw
      rw [Bool.and_eq_true] at h1 h2 ⊢
      refine ⟨Rng.sub_trans h1.1 h2.1, ?_⟩
      rw [asgMembers_iff]
      intro m'' hm''
      have hz : ¬ (structSize ms'').hi ≤ 0 := struct_size_hi_posK hm''
      have hz' : ¬ r'.hi ≤ 0 := by
        have := h2.1; simp [Rng.sub] at this; omega
      have h12 := h1.2
      simp only [Bool.or_eq_true, decide_eq_true_eq, Bool.and_eq_true] at h12
      have hA := h12.resolve_left hz'
      have hB := (asgMembers_iff cfg sfh k' v' ms'').1 h2.2 m'' hm''
      have := Ty.w_lt_wm hm''
      exact ⟨ih k k' (.strVal m''.1) (by simp only [Ty.w]; omega) ⟨fa.1, fb.1, tg_leafK cfg sfh _ trivial, wb.1, wf_leaf cfg _ trivial⟩ hA.1 hB.1,
        ih v v' m''.2.2 (by omega) ⟨fa.2, fb.2, fc.2.2 m'' hm'', wb.2, wc.2 m'' hm''⟩ hA.2 hB.2⟩
  · -- Hash ⊒ Struct ⊒ c: c is a Struct
    rename_i ms'
    have fb := H.fb; unfold Ty.TGK at fb
    have wb := H.wb; unfold Ty.WF at wb
    obtain ⟨ms'', rfl⟩ := struct_closedK cfg sfh ms' c fb.1 h2
    have fc := H.fc; unfold Ty.TGK at fc
    have wc := H.wc; unfold Ty.WF at wc
    simp only [Ty.w] at hw
    rw [Bool.and_eq_true] at h1
    unfold asgRecv
    rw [Bool.and_eq_true]
    refine ⟨Rng.sub_trans h1.1 (struct_sub_size cfg sfh ms' ms'' fb.2.1 fc.2.1 h2), ?_⟩
    apply members_trans cfg sfh k v ms' ms'' fb.2.1 fc.2.1 ?_ h1.2 h2
    intro m' hm' m'' hm''
    have := Ty.w_lt_wm hm'; have := Ty.w_lt_wm hm''
    exact ih v m'.2.2 m''.2.2 (by omega) ⟨fa.2, fb.2.2 m' hm', fc.2.2 m'' hm'', wb.2 m' hm', wc.2 m'' hm''⟩

/-- Struct ⊒ Struct ⊒ Struct (rule off): the member relation composes, value types by the induction hypothesis -/
theorem trG_structK (n : Nat) (ih : TransGK cfg sfh n) (ms : List Member) (b c : Ty) (hw : (Ty.struct ms).w + b.w + c.w ≤ n + 1)
    (H : GHypK cfg sfh (.struct ms) b c)
    (h1 : asgRecv cfg sfh (.struct ms) b = true) (h2 : asgRecv cfg sfh b c = true) : asgRecv cfg sfh (.struct ms) c = true := by
  have fa := H.fa; unfold Ty.TGK at fa
  obtain ⟨ms', rfl⟩ := struct_closedK cfg sfh ms b fa.1 h1
  have fb := H.fb; unfold Ty.TGK at fb
  have wb := H.wb; unfold Ty.WF at wb
  obtain ⟨ms'', rfl⟩ := struct_closedK cfg sfh ms' c fb.1 h2
  have fc := H.fc; unfold Ty.TGK at fc
  have wc := H.wc; unfold Ty.WF at wc
  simp only [Ty.w] at hw
  apply struct_trans cfg sfh ms ms' ms'' fa.2.1 fb.2.1 fc.2.1 ?_ h1 h2
  intro m hm m' hm' m'' hm''
  have := Ty.w_lt_wm hm; have := Ty.w_lt_wm hm'; have := Ty.w_lt_wm hm''
  exact ih m.2.2 m'.2.2 m''.2.2 (by omega) ⟨fa.2.2 m hm, fb.2.2 m' hm', fc.2.2 m'' hm'', wb.2 m' hm', wc.2 m'' hm''⟩

theorem trG_typK (n : Nat) (ih : TransGK cfg sfh n) (x : Ty) (b c : Ty) (hw : (Ty.typ x).w + b.w + c.w ≤ n + 1)
    (H : GHypK cfg sfh (.typ x) b c)
    (h1 : asgRecv cfg sfh (.typ x) b = true) (h2 : asgRecv cfg sfh b c = true) : asgRecv cfg sfh (.typ x) c = true := by
  have fa := H.fa; unfold Ty.TGK at fa
  unfold asgRecv at h1
  cases b <;> simp only [] at h1 <;> (first | contradiction | skip)
  rename_i y
  have fb := H.fb; unfold Ty.TGK at fb
  have wb := H.wb; unfold Ty.WF at wb
  unfold asgRecv at h2 ⊢; cases c <;> simp only [] at h2 ⊢ <;> (first | contradiction | skip)
  rename_i z
  have fc := H.fc; unfold Ty.TGK at fc
  have wc := H.wc; unfold Ty.WF at wc
  simp only [Ty.w] at hw
  exact ih x y z (by omega) ⟨fa, fb, fc, wb, wc⟩ h1 h2

theorem trG_sensitiveK (n : Nat) (ih : TransGK cfg sfh n) (x : Ty) (b c : Ty) (hw : (Ty.sensitive x).w + b.w + c.w ≤ n + 1)
    (H : GHypK cfg sfh (.sensitive x) b c)
    (h1 : asgRecv cfg sfh (.sensitive x) b = true) (h2 : asgRecv cfg sfh b c = true) : asgRecv cfg sfh (.sensitive x) c = true := by
  have fa := H.fa; unfold Ty.TGK at fa
  unfold asgRecv at h1
  cases b <;> simp only [] at h1 <;> (first | contradiction | skip)
  rename_i y
  have fb := H.fb; unfold Ty.TGK at fb
  have wb := H.wb; unfold Ty.WF at wb
  unfold asgRecv at h2 ⊢; cases c <;> simp only [] at h2 ⊢ <;> (first | contradiction | skip)
  rename_i z
  have fc := H.fc; unfold Ty.TGK at fc
  have wc := H.wc; unfold Ty.WF at wc
  simp only [Ty.w] at hw
  exact ih x y z (by omega) ⟨fa, fb, fc, wb, wc⟩ h1 h2

theorem trG_iteratorK (n : Nat) (ih : TransGK cfg sfh n) (x : Ty) (b c : Ty) (hw : (Ty.iterator x).w + b.w + c.w ≤ n + 1)
    (H : GHypK cfg sfh (.iterator x) b c)
    (h1 : asgRecv cfg sfh (.iterator x) b = true) (h2 : asgRecv cfg sfh b c = true) : asgRecv cfg sfh (.iterator x) c = true := by
  have fa := H.fa; unfold Ty.TGK at fa
  unfold asgRecv at h1
  cases b <;> simp only [] at h1 <;> (first | contradiction | skip)
  rename_i y
  have fb := H.fb; unfold Ty.TGK at fb
  have wb := H.wb; unfold Ty.WF at wb
  unfold asgRecv at h2 ⊢; cases c <;> simp only [] at h2 ⊢ <;> (first | contradiction | skip)
  rename_i z
  have fc := H.fc; unfold Ty.TGK at fc
  have wc := H.wc; unfold Ty.WF at wc
  simp only [Ty.w] at hw
  exact ih x y z (by omega) ⟨fa, fb, fc, wb, wc⟩ h1 h2


/-! copied from Pcore/Proofs/LatTransIter.lean -/

variable (cfg : Cfg) (sfh : Bool)

theorem iterMembers_iffK (x : Ty) (ms : List Member) :
    iterMembers cfg sfh x ms = true ↔ ∀ m ∈ ms, asg cfg sfh x (.tuple [.strVal m.1, m.2.2] none) = true := by
  induction ms with
  | nil => unfold iterMembers; simp
  | cons m ms ih => obtain ⟨n, o, t⟩ := m; unfold iterMembers; simp [ih]

theorem Ty.wm_geK {m : Member} {ms : List Member} (h : m ∈ ms) : 8 + m.2.2.w ≤ Ty.wm ms := by
  induction ms with
  | nil => cases h
  | cons a as ih =>
    obtain ⟨n, o, t⟩ := a
    simp only [Ty.wm]
    cases h with
    | head => simp
    | tail _ h' => have := ih h'; omega

/-- entry tuples: `Tuple[k, v] ⊒ Tuple[k', v']` is `k ⊒ k'` and `v ⊒ v'` -/
theorem entry_asgK (k v k' v' : Ty) :
    asg cfg sfh (.tuple [k, v] none) (.tuple [k', v'] none) = (asg cfg sfh k k' && asg cfg sfh v v') := by
  rw [asg_plain_r cfg sfh _ _ rfl]
  simp only [Ty.isAny, sameNullary, Bool.false_or]
  unfold asgRecv
  simp only [tupleSize, Rng.exact, Rng.sub, List.isEmpty_cons, List.length_cons, List.length_nil, Bool.false_or]
  unfold tupZip
  simp only []
  unfold tupZip
  simp

theorem tg_entryK {k v : Ty} (hk : k.TGK cfg sfh) (hv : v.TGK cfg sfh) : (Ty.tuple [k, v] none).TGK cfg sfh := by
  unfold Ty.TGK
  intro t ht
  simp only [List.mem_cons, List.mem_singleton, List.not_mem_nil, or_false] at ht
  rcases ht with rfl | rfl <;> assumption

theorem wf_entryK {k v : Ty} (hk : Ty.WF cfg k) (hv : Ty.WF cfg v) : Ty.WF cfg (.tuple [k, v] none) := by
  unfold Ty.WF
  intro t ht
  simp only [List.mem_cons, List.mem_singleton, List.not_mem_nil, or_false] at ht
  rcases ht with rfl | rfl <;> assumption

theorem w_entryK (k v : Ty) : (Ty.tuple [k, v] none).w = 6 + k.w + v.w := by simp only [Ty.w, Ty.wl]; omega

/-- Iterable's rule on a positional type: the position loop, no size test -/
theorem recv_iter_posK (x c : Ty) (pc : c.isPos = true) :
    asgRecv cfg sfh (.iterable x) c = tupZip cfg sfh [x] (posTypes c) (posSize c).hi := by
  cases c <;> simp [Ty.isPos] at pc
  · rename_i e r
    unfold asgRecv; simp only [posSize, posTypes, tupZip_single]
  · rename_i ts g
    unfold asgRecv; simp only [posSize, posTypes]
    by_cases hz : (tupleSize ts g).hi ≤ 0
    · simp [hz, tupZip_nonpos]
    · by_cases hts : ts.isEmpty = true
      · simp [hz, hts, tupZip_single]
      · simp [hz, hts]

/-- Iterable's rule on a member of the String family -/
theorem recv_iter_familyK (x c : Ty) (hc : isStringFamily c = true) :
    asgRecv cfg sfh (.iterable x) c = asg cfg sfh x (.strSz ⟨1, 1⟩) := by
  cases c <;> simp [isStringFamily] at hc <;> (unfold asgRecv; rfl)

theorem family_not_othersK {b : Ty} (hb : isStringFamily b = true) : b.isPos = false := by
  cases b <;> simp [isStringFamily] at hb <;> rfl

/-- `Iterable[x] ⊒ b ⊒ c` for plain `b`, `c` -/
theorem trG_iterableK (n : Nat) (ih : TransGK cfg sfh n) (x : Ty) (b c : Ty) (hw : (Ty.iterable x).w + b.w + c.w ≤ n + 1)
    (H : GHypK cfg sfh (.iterable x) b c)
    (h1 : asgRecv cfg sfh (.iterable x) b = true) (h2 : asgRecv cfg sfh b c = true) : asgRecv cfg sfh (.iterable x) c = true := by
  have fa := H.fa; unfold Ty.TGK at fa
  simp only [Ty.w] at hw
  by_cases pb : b.isPos = true
  · -- positional middle type: the loop `[x]` against b's types, then b's against c's
    have pc := pos_closed cfg sfh b c pb h2
    rw [recv_iter_posK cfg sfh x b pb] at h1
    rw [recv_pos cfg sfh b c pb pc, Bool.and_eq_true] at h2
    rw [recv_iter_posK cfg sfh x c pc]
    have hk : (posSize c).hi ≤ (posSize b).hi := by
      have := h2.1; simp [Rng.sub] at this; omega
    apply tupZip_trans cfg sfh _ _ _ _ _ hk (by simp) (posTypes_ne b pb) (posTypes_ne c pc) ?_ h1 h2.2
    intro a' ha' b' hb' c' hc'
    simp only [List.mem_singleton] at ha'; subst ha'
    obtain ⟨wb', fb', wfb'⟩ := posG_elemK cfg sfh b pb b' hb'
    obtain ⟨wc', fc', wfc'⟩ := posG_elemK cfg sfh c pc c' hc'
    exact ih a' b' c' (by omega) ⟨fa, fb' H.fb, fc' H.fc, wfb' H.wb, wfc' H.wc⟩
  by_cases sb : isStringFamily b = true
  · have sc := family_closed cfg sfh sb h2
    rw [recv_iter_familyK cfg sfh x b sb] at h1
    rw [recv_iter_familyK cfg sfh x c sc]; exact h1
  cases b with
  | array _ _ => simp [Ty.isPos] at pb
  | tuple _ _ => simp [Ty.isPos] at pb
  | str => simp [isStringFamily] at sb
  | strSz _ => simp [isStringFamily] at sb
  | strVal _ => simp [isStringFamily] at sb
  | enum _ _ => simp [isStringFamily] at sb
  | pattern _ => simp [isStringFamily] at sb
  | bin =>
    unfold asgRecv at h2; cases c <;> simp only [] at h2 <;> (first | contradiction | skip)
    exact h1
  | hash k' v' r' =>
    have fb := H.fb; unfold Ty.TGK at fb
    have wb := H.wb; unfold Ty.WF at wb
    unfold asgRecv at h1
    simp only [Bool.or_eq_true, decide_eq_true_eq] at h1
    unfold asgRecv at h2; cases c <;> simp only [] at h2 <;> (first | contradiction | skip)
    · rename_i k'' v'' r''
      have fc := H.fc; unfold Ty.TGK at fc
      have wc := H.wc; unfold Ty.WF at wc
      simp only [Ty.w] at hw
      rw [Bool.and_eq_true] at h2
      unfold asgRecv
      simp only [Bool.or_eq_true, decide_eq_true_eq]
      by_cases hz : r''.hi ≤ 0
      · left; exact hz
      · right
        have hz' : ¬ r'.hi ≤ 0 := by
          have := h2.1; simp [Rng.sub] at this; omega
        have hB := h2.2
        simp only [Bool.or_eq_true, decide_eq_true_eq] at hB
        have hB' := hB.resolve_left hz
        have hA := h1.resolve_left hz'
        apply ih x (.tuple [k', v'] none) (.tuple [k'', v''] none) (by rw [w_entryK, w_entryK]; omega)
          ⟨fa, tg_entryK cfg sfh fb.1 fb.2, tg_entryK cfg sfh fc.1 fc.2, wf_entryK cfg wb.1 wb.2, wf_entryK cfg wc.1 wc.2⟩ hA
        rw [entry_asgK]; exact hB'
    · rename_i ms''
      have fc := H.fc; unfold Ty.TGK at fc
      have wc := H.wc; unfold Ty.WF at wc
      simp only [Ty.w] at hw
      rw [Bool.and_eq_true] at h2
      unfold asgRecv
      rw [iterMembers_iffK]
      intro m'' hm''
      have hz : ¬ (structSize ms'').hi ≤ 0 := struct_size_hi_posK hm''
      have hz' : ¬ r'.hi ≤ 0 := by
        have := h2.1; simp [Rng.sub] at this; omega
      have hA := h1.resolve_left hz'
      have hB := (asgMembers_iff cfg sfh k' v' ms'').1 h2.2 m'' hm''
      have := Ty.wm_geK hm''
      apply ih x (.tuple [k', v'] none) (.tuple [.strVal m''.1, m''.2.2] none) (by rw [w_entryK, w_entryK]; simp only [Ty.w]; omega)
        ⟨fa, tg_entryK cfg sfh fb.1 fb.2, tg_entryK cfg sfh (tg_leafK cfg sfh _ trivial) (fc.2.2 m'' hm''), wf_entryK cfg wb.1 wb.2,
         wf_entryK cfg (wf_leaf cfg _ trivial) (wc.2 m'' hm'')⟩ hA
      rw [entry_asgK, hB.1, hB.2]; rfl
  | struct ms' =>
    have fb := H.fb; unfold Ty.TGK at fb
    have wb := H.wb; unfold Ty.WF at wb
    obtain ⟨ms'', rfl⟩ := struct_closedK cfg sfh ms' c fb.1 h2
    have fc := H.fc; unfold Ty.TGK at fc
    have wc := H.wc; unfold Ty.WF at wc
    simp only [Ty.w] at hw
    obtain ⟨b1, b2⟩ := (struct_recv_iff cfg sfh ms' ms'' fb.2.1 fc.2.1).1 h2
    unfold asgRecv at h1 ⊢
    rw [iterMembers_iffK] at h1 ⊢
    intro m'' hm''
    obtain ⟨m', hm', hk'⟩ := b2 m'' hm''
    have hB := (b1 m' hm').1 m'' hm'' hk'.symm
    have := Ty.wm_geK hm'; have := Ty.wm_geK hm''
    apply ih x (.tuple [.strVal m'.1, m'.2.2] none) (.tuple [.strVal m''.1, m''.2.2] none)
      (by rw [w_entryK, w_entryK]; simp only [Ty.w]; omega)
      ⟨fa, tg_entryK cfg sfh (tg_leafK cfg sfh _ trivial) (fb.2.2 m' hm'), tg_entryK cfg sfh (tg_leafK cfg sfh _ trivial) (fc.2.2 m'' hm''),
       wf_entryK cfg (wf_leaf cfg _ trivial) (wb.2 m' hm'), wf_entryK cfg (wf_leaf cfg _ trivial) (wc.2 m'' hm'')⟩ (h1 m' hm')
    rw [entry_asgK, hB.2, hk']
    rw [asg_plain_r cfg sfh _ _ rfl]; simp [asgRecv]
  | iterable y =>
    have fb := H.fb; unfold Ty.TGK at fb
    have wb := H.wb; unfold Ty.WF at wb
    have hxy : asg cfg sfh x y = true := by unfold asgRecv at h1; exact h1
    simp only [Ty.w] at hw
    by_cases pc : c.isPos = true
    · rw [recv_iter_posK cfg sfh y c pc, tupZipL_iff cfg sfh y _ _ (posTypes_ne c pc)] at h2
      rw [recv_iter_posK cfg sfh x c pc, tupZipL_iff cfg sfh x _ _ (posTypes_ne c pc)]
      intro j t hj ht
      obtain ⟨wc', fc', wfc'⟩ := posG_elemK cfg sfh c pc t (List.mem_of_getElem? ht)
      exact ih x y t (by omega) ⟨fa, fb, fc' H.fc, wb, wfc' H.wc⟩ hxy (h2 j t hj ht)
    by_cases sc : isStringFamily c = true
    · rw [recv_iter_familyK cfg sfh y c sc] at h2
      rw [recv_iter_familyK cfg sfh x c sc]
      exact ih x y _ (by simp only [Ty.w]; omega) ⟨fa, fb, tg_leafK cfg sfh _ trivial, wb, wf_leaf cfg _ trivial⟩ hxy h2
    cases c with
    | array _ _ => simp [Ty.isPos] at pc
    | tuple _ _ => simp [Ty.isPos] at pc
    | str => simp [isStringFamily] at sc
    | strSz _ => simp [isStringFamily] at sc
    | strVal _ => simp [isStringFamily] at sc
    | enum _ _ => simp [isStringFamily] at sc
    | pattern _ => simp [isStringFamily] at sc
    | bin =>
      unfold asgRecv at h2 ⊢
      exact ih x y _ (by simp only [Ty.w]; omega) ⟨fa, fb, tg_leafK cfg sfh _ trivial, wb, wf_leaf cfg _ trivial⟩ hxy h2
    | hash k'' v'' r'' =>
      have fc := H.fc; unfold Ty.TGK at fc
      have wc := H.wc; unfold Ty.WF at wc
      simp only [Ty.w] at hw
      unfold asgRecv at h2 ⊢
      simp only [Bool.or_eq_true, decide_eq_true_eq] at h2 ⊢
      rcases h2 with h2 | h2
      · left; exact h2
      · right
        exact ih x y _ (by rw [w_entryK]; omega) ⟨fa, fb, tg_entryK cfg sfh fc.1 fc.2, wb, wf_entryK cfg wc.1 wc.2⟩ hxy h2
    | struct ms'' =>
      have fc := H.fc; unfold Ty.TGK at fc
      have wc := H.wc; unfold Ty.WF at wc
      simp only [Ty.w] at hw
      unfold asgRecv at h2 ⊢
      rw [iterMembers_iffK] at h2 ⊢
      intro m'' hm''
      have := Ty.wm_geK hm''
      exact ih x y _ (by rw [w_entryK]; simp only [Ty.w]; omega)
        ⟨fa, fb, tg_entryK cfg sfh (tg_leafK cfg sfh _ trivial) (fc.2.2 m'' hm''), wb, wf_entryK cfg (wf_leaf cfg _ trivial) (wc.2 m'' hm'')⟩
        hxy (h2 m'' hm'')
    | iterable z =>
      have fc := H.fc; unfold Ty.TGK at fc
      have wc := H.wc; unfold Ty.WF at wc
      simp only [Ty.w] at hw
      unfold asgRecv at h2 ⊢
      exact ih x y z (by omega) ⟨fa, fb, fc, wb, wc⟩ hxy h2
    | _ => unfold asgRecv at h2; simp only [] at h2; contradiction
  | _ => unfold asgRecv at h1; simp only [] at h1; contradiction


/-! copied from Pcore/Proofs/LatTransGMain.lean -/

variable (cfg : Cfg) (sfh : Bool)

theorem narGK (t : Ty) (h : t.TGK cfg sfh) : t.NoAliasR := Ty.TGK.noAliasRK cfg sfh t.w t (Nat.le_refl _) h

/-- whatever accepts Any accepts everything -/
theorem acceptsG_anyK : ∀ (n : Nat) (a : Ty), a.w ≤ n → a.TGK cfg sfh → asg cfg sfh a .any = true →
    ∀ c, c.NoAliasR → asg cfg sfh a c = true := by
  intro n
  induction n with
  | zero => intro a h; have := Ty.w_pos a; omega
  | succ n ih =>
    intro a hw fa h c hc
    rw [asg_plain_r cfg sfh a .any rfl] at h
    simp only [Bool.or_eq_true] at h
    rcases h with (h | h) | h
    · exact asg_of_isAny cfg sfh h c
    · have := sameNullary_eq h; subst this; exact asg_any_l cfg sfh c
    · cases a with
      | any => exact asg_any_l cfg sfh c
      | unit => unfold Ty.TGK at fa; exact absurd fa id
      | data => unfold Ty.TGK at fa; exact absurd fa id
      | richData => unfold Ty.TGK at fa; exact absurd fa id
                  | variant as =>
        unfold Ty.TGK at fa; simp only [Ty.w] at hw
        unfold asgRecv at h; rw [asgAnyL_iff] at h
        obtain ⟨m, hm, h⟩ := h
        exact weaken_variant cfg sfh m as hm c hc (ih m (by have := Ty.w_lt_wl hm; omega) (fa m hm) h c hc)
      | optional x =>
        unfold Ty.TGK at fa; simp only [Ty.w] at hw
        unfold asgRecv at h
        simp only [Bool.or_eq_true] at h
        rcases h with h | h
        · rw [asg_plain_r cfg sfh .undef .any rfl] at h; simp [Ty.isAny, sameNullary, asgRecv] at h
        · exact weaken_optional cfg sfh x c hc (ih x (by omega) fa h c hc)
      | notUndef x =>
        unfold asgRecv at h
        simp [asg_any_l] at h
      | scalar =>
        exfalso; unfold asgRecv at h
        simp only [Bool.or_eq_true] at h
        rcases h with ((((h | h) | h) | h) | h) | h <;>
          (rw [asg_plain_r cfg sfh _ .any rfl] at h; simp [Ty.isAny, sameNullary, asgRecv, isStringFamily] at h)
      | scalarData =>
        exfalso; unfold asgRecv at h
        simp only [Bool.or_eq_true] at h
        rcases h with ((h | h) | h) | h <;>
          (rw [asg_plain_r cfg sfh _ .any rfl] at h; simp [Ty.isAny, sameNullary, asgRecv, isStringFamily, floatAll] at h)
      | enum vs ci => exfalso; unfold asgRecv at h; split at h <;> simp [isStringFamily] at h
      | _ => exfalso; unfold asgRecv at h; simp [isStringFamily] at h


/-- `Callable ⊒ Callable ⊒ Callable` on the fragment: the return types compose (an absent return type of the middle stands for Any: what
    accepts Any accepts everything), the parameter and block tests IN REVERSE compose the other way round; the left type is the default
    Callable or has parameters, so the middle and the right type have parameters too -/
theorem trK_callable (n : Nat) (ih : TransGK cfg sfh n) (p r k : Option Ty) (b c : Ty)
    (hw : (Ty.callable p r k).w + b.w + c.w ≤ n + 1) (H : GHypK cfg sfh (.callable p r k) b c)
    (h1 : asgRecv cfg sfh (.callable p r k) b = true) (h2 : asgRecv cfg sfh b c = true) :
    asgRecv cfg sfh (.callable p r k) c = true := by
  cases b <;> (try (rw [recv_callable_other cfg sfh p r k _ trivial] at h1; cases h1))
  rename_i p' r' k'
  cases c <;> (try (rw [recv_callable_other cfg sfh p' r' k' _ trivial] at h2; cases h2))
  rename_i p'' r'' k''
  have fa := H.fa; unfold Ty.TGK at fa
  have fb := H.fb; unfold Ty.TGK at fb
  have fc := H.fc; unfold Ty.TGK at fc
  simp only [Ty.w] at hw
  rw [recv_callable_eq] at h1 h2 ⊢
  unfold callAcc at h1 h2 ⊢
  -- the default Callable on the left accepts everything
  by_cases hd : (p.isNone && r.isNone && k.isNone) = true
  · simp [hd]
  simp only [hd, Bool.false_eq_true, if_false, Bool.and_eq_true] at h1 ⊢
  -- the left type is not the default, hence has parameters
  have hp : ∃ x, p = some x := by
    rcases fa.1 with h | ⟨hr, hk⟩
    · cases p with
      | none => simp at h
      | some x => exact ⟨x, rfl⟩
    · subst hr; subst hk
      cases p with
      | none => simp at hd
      | some x => exact ⟨x, rfl⟩
  obtain ⟨x, rfl⟩ := hp
  obtain ⟨⟨hr1, hp1⟩, hk1⟩ := h1
  -- so has the middle type
  have hp' : ∃ y, p' = some y ∧ asg cfg sfh y x = true := by
    cases p' with
    | none => simp at hp1
    | some y => exact ⟨y, rfl, by simpa using hp1⟩
  obtain ⟨y, rfl, hyx⟩ := hp'
  have hd' : (Option.isNone (some y) && r'.isNone && k'.isNone) = false := by simp
  simp only [hd', Bool.false_eq_true, if_false, Bool.and_eq_true] at h2
  obtain ⟨⟨hr2, hp2⟩, hk2⟩ := h2
  simp only [Ty.wo] at hw
  refine ⟨⟨?_, ?_⟩, ?_⟩
  · -- return types
    cases r with
    | none => trivial
    | some a0 =>
      simp only [] at hr1 ⊢
      simp only [Ty.wo] at hw
      have fa0 := fa.2.2.1
      cases r' with
      | none =>
        -- the middle says nothing about its return type: the left one accepts Any, hence everything
        simp only [] at hr1
        have hall := acceptsG_anyK cfg sfh a0.w a0 (Nat.le_refl _) fa0.1 hr1
        cases r'' with
        | none => exact hr1
        | some c0 => exact hall c0 (Ty.TGK.noAliasRK cfg sfh c0.w c0 (Nat.le_refl _) fc.2.2.1.1)
      | some b0 =>
        simp only [] at hr1 hr2
        simp only [Ty.wo] at hw
        cases r'' with
        | none =>
          simp only [] at hr2 ⊢
          exact ih a0 b0 .any (by simp [Ty.w]; omega) ⟨fa0.1, fb.2.2.1.1, by unfold Ty.TGK; trivial, fb.2.2.1.2, by unfold Ty.WF; trivial⟩ hr1 hr2
        | some c0 =>
          simp only [] at hr2 ⊢
          simp only [Ty.wo] at hw
          exact ih a0 b0 c0 (by omega) ⟨fa0.1, fb.2.2.1.1, fc.2.2.1.1, fb.2.2.1.2, fc.2.2.1.2⟩ hr1 hr2
  · -- parameters, in reverse: the right type's accept the middle's accept the left's
    cases p'' with
    | none => simp at hp2
    | some z =>
      simp only [] at hp2 ⊢
      simp only [Ty.wo] at hw
      exact ih z y x (by omega) ⟨fc.2.1.1, fb.2.1.1, fa.2.1.1, fb.2.1.2, fa.2.1.2⟩ hp2 hyx
  · -- block, in reverse
    cases k with
    | none =>
      simp only [] at hk1 ⊢
      cases k' with
      | none => simpa using hk2
      | some _ => simp at hk1
    | some a0 =>
      simp only [] at hk1 ⊢
      simp only [Ty.wo] at hw
      cases k' with
      | none => simp at hk1
      | some b0 =>
        simp only [] at hk1 hk2
        simp only [Ty.wo] at hw
        cases k'' with
        | none => simp at hk2
        | some c0 =>
          simp only [] at hk2 ⊢
          simp only [Ty.wo] at hw
          exact ih c0 b0 a0 (by omega) ⟨fc.2.2.2.1, fb.2.2.2.1, fa.2.2.2.1, fb.2.2.2.2, fa.2.2.2.2⟩ hk2 hk1

/-- receiver `a`'s rule accepts plain `b`, and `b` accepts plain `c` -/
theorem trG_recvK (hl : ∀ s, (cfg.lower s).length = s.length) (n : Nat) (ih : TransGK cfg sfh n) (a b c : Ty)
    (hw : a.w + b.w + c.w ≤ n + 1) (H : GHypK cfg sfh a b c) (hb : b.plainR = true) (hc : c.plainR = true)
    (h1 : asgRecv cfg sfh a b = true) (h2 : asg cfg sfh b c = true) : asg cfg sfh a c = true := by
  -- b's own rule on c (or b and c are the same shared singleton, or b is Any)
  have h2' : asgRecv cfg sfh b c = true ∨ b = c := by
    rw [asg_plain_r cfg sfh b c hc] at h2
    simp only [Bool.or_eq_true] at h2
    rcases h2 with (h | h) | h
    · left; cases b <;> simp [Ty.isAny] at h; unfold asgRecv; rfl
    · right; exact sameNullary_eq h
    · left; exact h
  rcases h2' with h2' | rfl
  case inr => exact recv_to_asg cfg sfh a b hb h1
  cases a with
  | any => exact asg_any_l cfg sfh c
  | unit => have := H.fa; unfold Ty.TGK at this; exact absurd this id
  | callable p r k => exact recv_to_asg cfg sfh _ c hc (trK_callable cfg sfh n ih p r k b c hw H h1 h2')
  | data => have := H.fa; unfold Ty.TGK at this; exact absurd this id
  | richData => have := H.fa; unfold Ty.TGK at this; exact absurd this id
  | tuple ts g => exact recv_to_asg cfg sfh _ c hc (trG_tupleK cfg sfh n ih ts g b c hw H h1 h2')
  | struct ms => exact recv_to_asg cfg sfh _ c hc (trG_structK cfg sfh n ih ms b c hw H h1 h2')
  | iterable x => exact recv_to_asg cfg sfh _ c hc (trG_iterableK cfg sfh n ih x b c hw H h1 h2')
  | scalar => exact trG_scalarK cfg sfh n ih b c hw H hc h1 h2
  | scalarData => exact trG_scalarDataK cfg sfh n ih b c hw H hc h1 h2
  | coll r => exact recv_to_asg cfg sfh _ c hc (trG_collK cfg sfh r b c H.fb H.fc h1 h2')
  | array e r => exact recv_to_asg cfg sfh _ c hc (trG_arrayK cfg sfh n ih e r b c hw H h1 h2')
  | hash k v r => exact recv_to_asg cfg sfh _ c hc (trG_hashK cfg sfh n ih k v r b c hw H h1 h2')
  | typ x => exact recv_to_asg cfg sfh _ c hc (trG_typK cfg sfh n ih x b c hw H h1 h2')
  | sensitive x => exact recv_to_asg cfg sfh _ c hc (trG_sensitiveK cfg sfh n ih x b c hw H h1 h2')
  | iterator x => exact recv_to_asg cfg sfh _ c hc (trG_iteratorK cfg sfh n ih x b c hw H h1 h2')
  | variant as =>
    have fa := H.fa; unfold Ty.TGK at fa
    simp only [Ty.w] at hw
    unfold asgRecv at h1
    rw [asgAnyL_iff] at h1
    obtain ⟨m, hm, hmb⟩ := h1
    have := ih m b c (by have := Ty.w_lt_wl hm; omega) ⟨fa m hm, H.fb, H.fc, H.wb, H.wc⟩ hmb h2
    exact weaken_variant cfg sfh m as hm c (narGK cfg sfh c H.fc) this
  | optional x =>
    have fa := H.fa; unfold Ty.TGK at fa
    simp only [Ty.w] at hw
    unfold asgRecv at h1
    simp only [Bool.or_eq_true] at h1
    rcases h1 with h1 | h1
    · -- b is Undef (plain and accepted by Undef), so c is Undef
      have hbu : b = .undef := by
        rw [asg_plain_r cfg sfh _ b hb] at h1
        simp only [Bool.or_eq_true, Ty.isAny, Bool.false_eq_true, false_or] at h1
        rcases h1 with h1 | h1
        · exact (sameNullary_eq h1).symm
        · unfold asgRecv at h1; cases b <;> simp at h1; rfl
      subst hbu
      unfold asgRecv at h2'; cases c <;> simp at h2'
      exact asg_optional_undef cfg sfh x
    · have := ih x b c (by omega) ⟨fa, H.fb, H.fc, H.wb, H.wc⟩ h1 h2
      exact weaken_optional cfg sfh x c (narGK cfg sfh c H.fc) this
  | notUndef x =>
    have fa := H.fa; unfold Ty.TGK at fa
    simp only [Ty.w] at hw
    unfold asgRecv at h1
    have h1' : asg cfg sfh b .undef = false ∧ asg cfg sfh x b = true := by
      cases b <;> simp [Ty.plainR] at hb <;> simpa using h1
    have hxc := ih x b c (by omega) ⟨fa, H.fb, H.fc, H.wb, H.wc⟩ h1'.2 h2
    have hcu : asg cfg sfh c .undef = false := by
      cases hh : asg cfg sfh c .undef with
      | false => rfl
      | true =>
        have := ih b c .undef (by simp [Ty.w]; omega) ⟨H.fb, H.fc, by unfold Ty.TGK; trivial, H.wc, by unfold Ty.WF; trivial⟩ h2 hh
        rw [this] at h1'; exact absurd h1'.1 (by simp)
    exact nu_accepts cfg sfh x c.w c (Nat.le_refl _) hcu hxc
  | _ =>
    apply recv_to_asg cfg sfh _ c hc
    exact tr_leaf cfg sfh hl _ b c hc H.wb trivial h1 h2'

/-- which receivers answer true for a NotUndef right-hand side whose content accepts Undef -/
theorem recvNUG_casesK (a nb : Ty) (fa : a.TGK cfg sfh) (hnb : asg cfg sfh nb .undef = true)
    (h : asgRecv cfg sfh a (.notUndef nb) = true) :
    a = .any ∨ (∃ as m, a = .variant as ∧ m ∈ as ∧ asg cfg sfh m (.notUndef nb) = true) ∨
    (∃ x, a = .optional x ∧ asg cfg sfh x (.notUndef nb) = true) ∨
    (∃ x, a = .notUndef x ∧ (asg cfg sfh x nb = true ∨ asg cfg sfh x (.notUndef nb) = true)) := by
  have leafF : ∀ t : Ty, t.isAny = false → asgRecv cfg sfh t (.notUndef nb) = false → asg cfg sfh t (.notUndef nb) = false := by
    intro t h1 h2; rw [asg_notUndef_r, hnb]; simp [h1, h2]
  cases a with
  | any => left; rfl
  | unit => unfold Ty.TGK at fa; exact absurd fa id
  | data => unfold Ty.TGK at fa; exact absurd fa id
  | richData => unfold Ty.TGK at fa; exact absurd fa id
  | variant as =>
    right; left
    unfold asgRecv at h; rw [asgAnyL_iff] at h
    obtain ⟨m, hm, h⟩ := h
    exact ⟨as, m, rfl, hm, h⟩
  | optional x =>
    right; right; left
    unfold asgRecv at h
    simp only [Bool.or_eq_true] at h
    rcases h with h | h
    · rw [leafF .undef rfl (by unfold asgRecv; rfl)] at h; cases h
    · exact ⟨x, rfl, h⟩
  | notUndef x =>
    right; right; right
    unfold asgRecv at h
    simp only [Bool.or_eq_true] at h
    exact ⟨x, rfl, h⟩
  | scalar =>
    exfalso
    unfold asgRecv at h
    simp only [Bool.or_eq_true] at h
    rcases h with ((((h | h) | h) | h) | h) | h
    · rw [leafF .str rfl (by unfold asgRecv; rfl)] at h; cases h
    · rw [leafF .numeric rfl (by unfold asgRecv; rfl)] at h; cases h
    · rw [leafF (.bool none) rfl (by unfold asgRecv; rfl)] at h; cases h
    · rw [leafF (.regexp "") rfl (by unfold asgRecv; rfl)] at h; cases h
    · rw [leafF (.tspan Rng.all) rfl (by unfold asgRecv; rfl)] at h; cases h
    · rw [leafF (.tstamp tstampAll) rfl (by unfold asgRecv; rfl)] at h; cases h
  | scalarData =>
    exfalso
    unfold asgRecv at h
    simp only [Bool.or_eq_true] at h
    rcases h with ((h | h) | h) | h
    · rw [leafF .str rfl (by unfold asgRecv; rfl)] at h; cases h
    · rw [leafF (.int Rng.all) rfl (by unfold asgRecv; rfl)] at h; cases h
    · rw [leafF (.bool none) rfl (by unfold asgRecv; rfl)] at h; cases h
    · rw [leafF floatAll rfl (by unfold floatAll asgRecv; rfl)] at h; cases h
  | enum vs ci => exfalso; unfold asgRecv at h; split at h <;> simp [isStringFamily] at h
  | _ => exfalso; unfold asgRecv at h; simp [isStringFamily] at h

/-! copied from Pcore/Proofs/LatTransGAll.lean -/

variable (cfg : Cfg) (sfh : Bool)

theorem tg_undefK : Ty.TGK cfg sfh .undef := by unfold Ty.TGK; trivial
theorem tg_anyK : Ty.TGK cfg sfh .any := by unfold Ty.TGK; trivial
/-- middle type decomposed, right-hand side plain -/
theorem trG_bK (hl : ∀ s, (cfg.lower s).length = s.length) (n : Nat) (ih : TransGK cfg sfh n) (a b c : Ty)
    (hw : a.w + b.w + c.w ≤ n + 1) (H : GHypK cfg sfh a b c) (hA : a.isAny = false) (hc : c.plainR = true)
    (h1 : asg cfg sfh a b = true) (h2 : asg cfg sfh b c = true) : asg cfg sfh a c = true := by
  have ncr := narGK cfg sfh c H.fc
  cases b with
  | unit => have := H.fb; unfold Ty.TGK at this; exact absurd this id
  | data => have := H.fb; unfold Ty.TGK at this; exact absurd this id
  | richData => have := H.fb; unfold Ty.TGK at this; exact absurd this id
  | optional ob =>
    have fb := H.fb; unfold Ty.TGK at fb
    have wb := H.wb; unfold Ty.WF at wb
    simp only [Ty.w] at hw
    obtain ⟨hau, hao⟩ := asg_optional_parts cfg sfh h1
    rw [asg_plain_r cfg sfh _ c hc] at h2
    simp only [Bool.or_eq_true, Ty.isAny, Bool.false_eq_true, false_or] at h2
    rcases h2 with h2 | h2
    · cases c <;> simp [sameNullary] at h2
    · unfold asgRecv at h2
      simp only [Bool.or_eq_true] at h2
      rcases h2 with h2 | h2
      · exact ih a .undef c (by simp [Ty.w]; omega) ⟨H.fa, tg_undefK cfg sfh, H.fc, wf_undef cfg, H.wc⟩ hau h2
      · exact ih a ob c (by omega) ⟨H.fa, fb, H.fc, wb, H.wc⟩ hao h2
  | variant bs =>
    have fb := H.fb; unfold Ty.TGK at fb
    have wb := H.wb; unfold Ty.WF at wb
    simp only [Ty.w] at hw
    have hall := asg_variant_parts cfg sfh h1
    rw [asg_plain_r cfg sfh _ c hc] at h2
    simp only [Bool.or_eq_true, Ty.isAny, Bool.false_eq_true, false_or] at h2
    rcases h2 with h2 | h2
    · cases c <;> simp [sameNullary] at h2
    · unfold asgRecv at h2
      rw [asgAnyL_iff] at h2
      obtain ⟨m, hm, hmc⟩ := h2
      exact ih a m c (by have := Ty.w_lt_wl hm; omega) ⟨H.fa, fb m hm, H.fc, wb m hm, H.wc⟩ (hall m hm) hmc
  | notUndef nb =>
    have fb := H.fb; unfold Ty.TGK at fb
    have wb := H.wb; unfold Ty.WF at wb
    simp only [Ty.w] at hw
    -- NotUndef[nb]'s rule on the plain c
    have h2' : asg cfg sfh c .undef = false ∧ asg cfg sfh nb c = true := by
      rw [asg_plain_r cfg sfh _ c hc] at h2
      simp only [Bool.or_eq_true, Ty.isAny, Bool.false_eq_true, false_or] at h2
      rcases h2 with h2 | h2
      · cases c <;> simp [sameNullary] at h2
      · unfold asgRecv at h2
        cases c <;> simp [Ty.plainR] at hc <;> simpa using h2
    by_cases hnb : asg cfg sfh nb .undef = true
    · have hr := asg_nu_fall cfg sfh hA hnb h1
      rcases recvNUG_casesK cfg sfh a nb H.fa hnb hr with h | ⟨as, m, rfl, hm, hmb⟩ | ⟨x, rfl, hx⟩ | ⟨x, rfl, hx⟩
      · subst h; simp [Ty.isAny] at hA
      · have fa := H.fa; unfold Ty.TGK at fa
        simp only [Ty.w] at hw
        have := ih m (.notUndef nb) c (by have := Ty.w_lt_wl hm; simp [Ty.w]; omega) ⟨fa m hm, H.fb, H.fc, H.wb, H.wc⟩ hmb h2
        exact weaken_variant cfg sfh m as hm c ncr this
      · have fa := H.fa; unfold Ty.TGK at fa
        simp only [Ty.w] at hw
        have := ih x (.notUndef nb) c (by simp [Ty.w]; omega) ⟨fa, H.fb, H.fc, H.wb, H.wc⟩ hx h2
        exact weaken_optional cfg sfh x c ncr this
      · have fa := H.fa; unfold Ty.TGK at fa
        simp only [Ty.w] at hw
        have hxc : asg cfg sfh x c = true := by
          rcases hx with hx | hx
          · exact ih x nb c (by omega) ⟨fa, fb, H.fc, wb, H.wc⟩ hx h2'.2
          · exact ih x (.notUndef nb) c (by simp [Ty.w]; omega) ⟨fa, H.fb, H.fc, H.wb, H.wc⟩ hx h2
        exact nu_accepts cfg sfh x c.w c (Nat.le_refl _) h2'.1 hxc
    · have hnb' := bool_false_of_ne_true hnb
      have := asg_nu_strict cfg sfh hnb' h1
      exact ih a nb c (by omega) ⟨H.fa, fb, H.fc, wb, H.wc⟩ this h2'.2
  | _ =>
    -- plain middle type
    rw [asg_plain_r cfg sfh a _ rfl] at h1
    simp only [Bool.or_eq_true, hA, Bool.false_eq_true, false_or] at h1
    rcases h1 with h1 | h1
    · have := sameNullary_eq h1; subst this; exact h2
    · exact trG_recvK cfg sfh hl n ih a _ c hw H rfl hc h1 h2

/-- right-hand side is `NotUndef[nc]` with `nc` accepting Undef (the receiver's own NotUndef arm decides) -/
theorem trG_c_nuK (n : Nat) (ih : TransGK cfg sfh n) (a b nc : Ty)
    (hw : a.w + b.w + (Ty.notUndef nc).w ≤ n + 1) (H : GHypK cfg sfh a b (.notUndef nc)) (hA : a.isAny = false)
    (hnc : asg cfg sfh nc .undef = true)
    (h1 : asg cfg sfh a b = true) (h2 : asg cfg sfh b (.notUndef nc) = true) : asg cfg sfh a (.notUndef nc) = true := by
  have ncr := narGK cfg sfh _ H.fc
  have fc := H.fc; unfold Ty.TGK at fc
  have wc := H.wc; unfold Ty.WF at wc
  simp only [Ty.w] at hw
  by_cases hB : b.isAny = true
  · cases b <;> simp [Ty.isAny] at hB
    exact acceptsG_anyK cfg sfh a.w a (Nat.le_refl _) H.fa h1 _ ncr
  have hB' := bool_false_of_ne_true hB
  have hr := asg_nu_fall cfg sfh hB' hnc h2
  rcases recvNUG_casesK cfg sfh b nc H.fb hnc hr with h | ⟨bs, m, rfl, hm, hmc⟩ | ⟨ob, rfl, hoc⟩ | ⟨nb, rfl, hnbc⟩
  · subst h; simp [Ty.isAny] at hB
  · have fb := H.fb; unfold Ty.TGK at fb
    have wb := H.wb; unfold Ty.WF at wb
    simp only [Ty.w] at hw
    exact ih a m _ (by have := Ty.w_lt_wl hm; simp [Ty.w]; omega) ⟨H.fa, fb m hm, H.fc, wb m hm, H.wc⟩
      (asg_variant_parts cfg sfh h1 m hm) hmc
  · have fb := H.fb; unfold Ty.TGK at fb
    have wb := H.wb; unfold Ty.WF at wb
    simp only [Ty.w] at hw
    exact ih a ob _ (by simp [Ty.w]; omega) ⟨H.fa, fb, H.fc, wb, H.wc⟩ (asg_optional_parts cfg sfh h1).2 hoc
  · have fb := H.fb; unfold Ty.TGK at fb
    have wb := H.wb; unfold Ty.WF at wb
    simp only [Ty.w] at hw
    by_cases hnb : asg cfg sfh nb .undef = true
    · have hra := asg_nu_fall cfg sfh hA hnb h1
      rcases recvNUG_casesK cfg sfh a nb H.fa hnb hra with h | ⟨as, m, rfl, hm, hmb⟩ | ⟨x, rfl, hx⟩ | ⟨x, rfl, hx⟩
      · subst h; simp [Ty.isAny] at hA
      · have fa := H.fa; unfold Ty.TGK at fa
        simp only [Ty.w] at hw
        have := ih m (.notUndef nb) (.notUndef nc) (by have := Ty.w_lt_wl hm; simp [Ty.w]; omega)
          ⟨fa m hm, H.fb, H.fc, H.wb, H.wc⟩ hmb h2
        exact weaken_variant cfg sfh m as hm _ ncr this
      · have fa := H.fa; unfold Ty.TGK at fa
        simp only [Ty.w] at hw
        have := ih x (.notUndef nb) (.notUndef nc) (by simp [Ty.w]; omega) ⟨fa, H.fb, H.fc, H.wb, H.wc⟩ hx h2
        exact weaken_optional cfg sfh x _ ncr this
      · have fa := H.fa; unfold Ty.TGK at fa
        simp only [Ty.w] at hw
        rw [asg_notUndef_r]
        simp only [hnc, Bool.not_true, Bool.false_eq_true, if_false, Bool.or_eq_true]; right
        unfold asgRecv
        simp only [Bool.or_eq_true]
        rcases hx with hx | hx
        · rcases hnbc with h | h
          · left; exact ih x nb nc (by omega) ⟨fa, fb, fc, wb, wc⟩ hx h
          · right; exact ih x nb (.notUndef nc) (by simp [Ty.w]; omega) ⟨fa, fb, H.fc, wb, H.wc⟩ hx h
        · right; exact ih x (.notUndef nb) (.notUndef nc) (by simp [Ty.w]; omega) ⟨fa, H.fb, H.fc, H.wb, H.wc⟩ hx h2
    · have hnb' := bool_false_of_ne_true hnb
      have hanb := asg_nu_strict cfg sfh hnb' h1
      rcases hnbc with h | h
      · exfalso
        have := ih nb nc .undef (by simp [Ty.w]; omega) ⟨fb, fc, tg_undefK cfg sfh, wc, wf_undef cfg⟩ h hnc
        rw [this] at hnb'; cases hnb'
      · exact ih a nb (.notUndef nc) (by simp [Ty.w]; omega) ⟨H.fa, fb, H.fc, wb, H.wc⟩ hanb h

theorem transG_allK (hl : ∀ s, (cfg.lower s).length = s.length) : ∀ n, TransGK cfg sfh n := by
  intro n
  induction n with
  | zero => intro a b c hw; have := Ty.w_pos a; omega
  | succ n ih =>
    intro a b c hw H h1 h2
    by_cases hA : a.isAny = true
    · exact asg_of_isAny cfg sfh hA c
    have hA' := bool_false_of_ne_true hA
    cases c with
    | unit => have := H.fc; unfold Ty.TGK at this; exact absurd this id
    | data => have := H.fc; unfold Ty.TGK at this; exact absurd this id
    | richData => have := H.fc; unfold Ty.TGK at this; exact absurd this id
    | optional oc =>
      have fc := H.fc; unfold Ty.TGK at fc
      have wc := H.wc; unfold Ty.WF at wc
      simp only [Ty.w] at hw
      obtain ⟨hbu, hbo⟩ := asg_optional_parts cfg sfh h2
      rw [asg_optional_r]
      simp only [Bool.or_eq_true, Bool.and_eq_true]; right
      exact ⟨ih a b .undef (by simp [Ty.w]; omega) ⟨H.fa, H.fb, tg_undefK cfg sfh, H.wb, wf_undef cfg⟩ h1 hbu,
             ih a b oc (by omega) ⟨H.fa, H.fb, fc, H.wb, wc⟩ h1 hbo⟩
    | variant cs =>
      have fc := H.fc; unfold Ty.TGK at fc
      have wc := H.wc; unfold Ty.WF at wc
      simp only [Ty.w] at hw
      have hall := asg_variant_parts cfg sfh h2
      rw [asg_variant_r]
      simp only [Bool.or_eq_true]; right
      rw [asgAllR_iff]
      intro t hm
      exact ih a b t (by have := Ty.w_lt_wl hm; omega) ⟨H.fa, H.fb, fc t hm, H.wb, wc t hm⟩ h1 (hall t hm)
    | notUndef nc =>
      by_cases hnc : asg cfg sfh nc .undef = true
      · exact trG_c_nuK cfg sfh n ih a b nc hw H hA' hnc h1 h2
      · have hnc' := bool_false_of_ne_true hnc
        have fc := H.fc; unfold Ty.TGK at fc
        have wc := H.wc; unfold Ty.WF at wc
        simp only [Ty.w] at hw
        have := ih a b nc (by omega) ⟨H.fa, H.fb, fc, H.wb, wc⟩ h1 (asg_nu_strict cfg sfh hnc' h2)
        exact asg_nu_of_strict cfg sfh hnc' this
    | _ => exact trG_bK cfg sfh hl n ih a b _ hw H hA' rfl h1 h2

/-- The fragment of `C03_trans_struct_partial`, shape only: hereditarily none of Unit, Data / RichData; Struct (members of any
    nesting) only with the Struct-from-Hash rule off.  `Ty.TSK true` is `Ty.TF` plus Iterable. -/
def Ty.TSK (cfg : Cfg) (sfh : Bool) (t : Ty) : Prop :=
  match t with
  | .unit | .data | .richData => False
  | .callable p r k =>
      (p.isSome = true ∨ (r = none ∧ k = none)) ∧
      (match p with | none => True | some t' => Ty.TSK cfg sfh t') ∧ (match r with | none => True | some t' => Ty.TSK cfg sfh t') ∧
      (match k with | none => True | some t' => Ty.TSK cfg sfh t')
  | .struct ms => sfh = false ∧ ∀ m, ∀ (_ : m ∈ ms), Ty.TSK cfg sfh m.2.2
  | .tuple ts _ => ∀ t', ∀ (_ : t' ∈ ts), Ty.TSK cfg sfh t'
  | .array e _ => Ty.TSK cfg sfh e
  | .hash k v _ => Ty.TSK cfg sfh k ∧ Ty.TSK cfg sfh v
  | .variant ts => ∀ t', ∀ (_ : t' ∈ ts), Ty.TSK cfg sfh t'
  | .optional t' | .notUndef t' | .sensitive t' | .iterator t' | .typ t' | .iterable t' => Ty.TSK cfg sfh t'
  | _ => True
termination_by t.w
decreasing_by
  all_goals simp_wf
  all_goals (try simp only [Ty.w, Ty.wl, Ty.wm, Ty.wo] at *)
  all_goals first
    | omega
    | (have := Ty.w_lt_wl ‹_ ∈ _›; omega)
    | (have := Ty.w_lt_wm ‹_ ∈ _›; omega)

/-- a well-formed term of the shape fragment lies in the fragment of the induction -/
theorem Ty.TSK.tgK : ∀ (n : Nat) (t : Ty), t.w ≤ n → t.TSK cfg sfh → Ty.WF cfg t → t.TGK cfg sfh := by
  intro n
  induction n with
  | zero => intro t h; have := Ty.w_pos t; omega
  | succ n ih =>
    intro t hw h wf
    cases t <;> unfold Ty.TGK <;> (try trivial) <;> unfold Ty.TSK at h <;> simp only [Ty.w] at hw <;> (try exact absurd h id) <;>
      unfold Ty.WF at wf
    · exact ih _ (by omega) h wf
    · exact ⟨ih _ (by omega) h.1 wf.1, ih _ (by omega) h.2 wf.2⟩
    · exact fun t' hm => ih t' (by have := Ty.w_lt_wl hm; omega) (h t' hm) (wf t' hm)
    · exact ⟨h.1, wf.1, fun m hm => ih m.2.2 (by have := Ty.w_lt_wm hm; omega) (h.2 m hm) (wf.2 m hm)⟩
    · exact fun t' hm => ih t' (by have := Ty.w_lt_wl hm; omega) (h t' hm) (wf t' hm)
    · exact ih _ (by omega) h wf
    · exact ih _ (by omega) h wf
    · exact ih _ (by omega) h wf
    · exact ih _ (by omega) h wf
    · exact ih _ (by omega) h wf
    · -- callable: the parts
      rename_i p r k
      refine ⟨h.1, ?_, ?_, ?_⟩
      · cases p with
        | none => trivial
        | some t' => simp only [Ty.wo] at hw; exact ⟨ih t' (by omega) h.2.1 wf.1, wf.1⟩
      · cases r with
        | none => trivial
        | some t' => simp only [Ty.wo] at hw; exact ⟨ih t' (by omega) h.2.2.1 wf.2.1, wf.2.1⟩
      · cases k with
        | none => trivial
        | some t' => simp only [Ty.wo] at hw; exact ⟨ih t' (by omega) h.2.2.2 wf.2.2, wf.2.2⟩
    · exact ih _ (by omega) h wf

theorem transGK (hl : ∀ s, (cfg.lower s).length = s.length) (a b c : Ty)
    (fa : a.TSK cfg sfh) (fb : b.TSK cfg sfh) (fc : c.TSK cfg sfh) (wa : Ty.WF cfg a) (wb : Ty.WF cfg b) (wc : Ty.WF cfg c)
    (h1 : asg cfg sfh a b = true) (h2 : asg cfg sfh b c = true) : asg cfg sfh a c = true :=
  transG_allK cfg sfh hl (a.w + b.w + c.w) a b c (Nat.le_refl _)
    ⟨Ty.TSK.tgK cfg sfh a.w a (Nat.le_refl _) fa wa, Ty.TSK.tgK cfg sfh b.w b (Nat.le_refl _) fb wb,
     Ty.TSK.tgK cfg sfh c.w c (Nat.le_refl _) fc wc, wb, wc⟩ h1 h2


end Pcore.Lat
