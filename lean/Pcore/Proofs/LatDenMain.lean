import Pcore.Proofs.LatDen
set_option linter.unusedSimpArgs false
set_option linter.unusedVariables false
/-! C02 main lemma: `inst t v ↔ Den t v` on the reference fragment, by induction on the weight of the type. -/
namespace Pcore.Lat
variable (cfg : Cfg) (sfh : Bool)

theorem inst_iff_den : ∀ (n : Nat) (t : Ty) (v : Val), t.w ≤ n → Ty.WF cfg t → Ty.Ref t → Val.OK v →
    (inst cfg sfh t v = true ↔ Den cfg sfh t v) := by
  intro n
  induction n with
  | zero => intro t v h; have := Ty.w_pos t; omega
  | succ n ih =>
    intro t v hw hwf href hv
    cases t with
    | any => unfold inst Den; simp
    | unit => unfold inst Den; simp
    | callable p r k => unfold inst Den; simp
    | undef => unfold inst Den; cases v <;> simp
    | dflt => unfold inst Den; cases v <;> simp
    | scalar => unfold inst Den; exact isScalarVal_iff v
    | scalarData => unfold inst Den; cases v <;> simp
    | numeric => unfold inst Den; cases v <;> simp
    | data => unfold inst Den; exact instData_iff _ v (Nat.le_refl _)
    | richData => unfold inst Den; exact instRich_iff _ v (Nat.le_refl _)
    | str => unfold inst Den; cases v <;> simp
    | bin => unfold inst Den; cases v <;> simp
    | int r => unfold inst Den; cases v <;> simp [Rng.contains_iff]
    | float lo hi => unfold inst Den; cases v <;> simp
    | bool b => unfold inst Den; cases b <;> cases v <;> simp <;> exact eq_comm
    | tspan r => unfold inst Den; cases v <;> simp [Rng.contains_iff]
    | tstamp r => unfold inst Den; cases v <;> simp [Rng.contains_iff]
    | strSz r => unfold inst Den; cases v <;> simp [Rng.contains_iff]
    | strVal s => unfold inst Den; cases v <;> simp <;> exact eq_comm
    | enum vs ci =>
      unfold Ty.WF at hwf
      unfold inst Den
      cases v <;> simp
      exact enumInst_iff cfg vs ci _ hwf
    | pattern rs => unfold inst Den; cases v <;> simp [rxAny_iff, List.isEmpty_iff]
    | regexp src => unfold inst Den; cases v <;> simp
    | runtime rt nm pt => unfold inst Den; simp
    | coll r => unfold inst Den; cases v <;> simp [Rng.contains_iff]
    | array e r =>
      unfold Ty.WF at hwf; unfold Ty.Ref at href
      simp only [Ty.w] at hw
      unfold inst Den
      cases v with
      | array vs =>
        have hall : (e.isAny || instAll cfg sfh e vs) = true ↔
            ∀ x ∈ vs, Den cfg sfh e x := by
          rw [Bool.or_eq_true, instAll_iff]
          constructor
          · rintro (h | h) x hx
            · cases e <;> simp [Ty.isAny] at h
              unfold Den; trivial
            · exact (ih e x (by omega) hwf href (hv.elems x hx)).1 (h x hx)
          · intro h; right; exact fun x hx => (ih e x (by omega) hwf href (hv.elems x hx)).2 (h x hx)
        simp [Rng.contains_iff, hall]
      | _ => simp
    | hash k x r =>
      unfold Ty.WF at hwf; unfold Ty.Ref at href
      simp only [Ty.w] at hw
      unfold inst Den
      cases v with
      | hash es =>
        simp only [Bool.and_eq_true, Rng.contains_iff, instEntries_iff]
        constructor
        · rintro ⟨h1, h2⟩
          refine ⟨es, rfl, h1, fun e he => ⟨?_, ?_⟩⟩
          · exact (ih k e.1 (by omega) hwf.1 href.1 (hv.keys e he)).1 (h2 e he).1
          · exact (ih x e.2 (by omega) hwf.2 href.2 (hv.vals e he)).1 (h2 e he).2
        · rintro ⟨es', h0, h1, h2⟩
          cases h0
          refine ⟨h1, fun e he => ⟨?_, ?_⟩⟩
          · exact (ih k e.1 (by omega) hwf.1 href.1 (hv.keys e he)).2 (h2 e he).1
          · exact (ih x e.2 (by omega) hwf.2 href.2 (hv.vals e he)).2 (h2 e he).2
      | _ => simp
    | tuple ts g =>
      unfold Ty.WF at hwf; unfold Ty.Ref at href
      simp only [Ty.w] at hw
      unfold inst Den
      cases v with
      | array vs =>
        simp only [Bool.and_eq_true, Rng.contains_iff]
        have hpos : (ts.isEmpty || instZip cfg sfh ts vs) = true ↔
            ∀ (i : Nat) (t' : Ty) (x : Val), ts[min i (ts.length - 1)]? = some t' → vs[i]? = some x → Den cfg sfh t' x := by
          cases hts : ts with
          | nil => simp
          | cons t0 ts0 =>
            rw [← hts]
            have hne : ts ≠ [] := by rw [hts]; simp
            have : ts.isEmpty = false := by rw [hts]; rfl
            rw [this, Bool.false_or, instZip_iff cfg sfh ts vs hne]
            constructor
            · intro h i t' x ht hx
              have hm : t' ∈ ts := List.mem_of_getElem? ht
              have hxm : x ∈ vs := List.mem_of_getElem? hx
              exact (ih t' x (by have := Ty.w_lt_wl hm; omega) (hwf t' hm) (href t' hm) (hv.elems x hxm)).1 (h i t' x ht hx)
            · intro h i t' x ht hx
              have hm : t' ∈ ts := List.mem_of_getElem? ht
              have hxm : x ∈ vs := List.mem_of_getElem? hx
              exact (ih t' x (by have := Ty.w_lt_wl hm; omega) (hwf t' hm) (href t' hm) (hv.elems x hxm)).2 (h i t' x ht hx)
        rw [hpos]
        constructor
        · rintro ⟨h1, h2⟩; exact ⟨vs, rfl, h1, h2⟩
        · rintro ⟨vs', h0, h1, h2⟩; cases h0; exact ⟨h1, h2⟩
      | _ => simp
    | struct ms =>
      unfold Ty.WF at hwf; unfold Ty.Ref at href
      simp only [Ty.w] at hw
      unfold inst Den
      cases v with
      | hash es =>
        simp only [beq_iff_eq]
        rw [instStruct_den cfg sfh ms es hv.nodup hwf.1]
        constructor
        · rintro ⟨h1, h2⟩
          refine ⟨es, rfl, fun e he => ?_, h2⟩
          obtain ⟨m, hm, hk, hi⟩ := h1 e he
          exact ⟨m, hm, hk, (ih m.2.2 e.2 (by have := Ty.w_lt_wm hm; omega) (hwf.2 m hm) (href m hm) (hv.vals e he)).1 hi⟩
        · rintro ⟨es', h0, h1, h2⟩
          cases h0
          refine ⟨fun e he => ?_, h2⟩
          obtain ⟨m, hm, hk, hi⟩ := h1 e he
          exact ⟨m, hm, hk, (ih m.2.2 e.2 (by have := Ty.w_lt_wm hm; omega) (hwf.2 m hm) (href m hm) (hv.vals e he)).2 hi⟩
      | _ => simp
    | variant ts =>
      unfold Ty.WF at hwf; unfold Ty.Ref at href
      simp only [Ty.w] at hw
      unfold inst Den
      rw [instAny_iff]
      constructor
      · rintro ⟨t', hm, hi⟩
        exact ⟨t', hm, (ih t' v (by have := Ty.w_lt_wl hm; omega) (hwf t' hm) (href t' hm) hv).1 hi⟩
      · rintro ⟨t', hm, hi⟩
        exact ⟨t', hm, (ih t' v (by have := Ty.w_lt_wl hm; omega) (hwf t' hm) (href t' hm) hv).2 hi⟩
    | optional t' =>
      unfold Ty.WF at hwf; unfold Ty.Ref at href
      simp only [Ty.w] at hw
      unfold inst Den
      rw [Bool.or_eq_true, ih t' v (by omega) hwf href hv]
      cases v <;> simp
    | notUndef t' =>
      unfold Ty.WF at hwf; unfold Ty.Ref at href
      simp only [Ty.w] at hw
      unfold inst Den
      rw [Bool.and_eq_true, ih t' v (by omega) hwf href hv]
      cases v <;> simp
    | typ t' => unfold inst Den; cases v <;> simp
    | sensitive t' =>
      unfold Ty.WF at hwf; unfold Ty.Ref at href
      simp only [Ty.w] at hw
      unfold inst Den
      cases v with
      | sensitive x =>
        simp only []
        rw [ih t' x (by omega) hwf href hv.inner]
        constructor
        · intro h; exact ⟨x, rfl, h⟩
        · rintro ⟨x', h0, h⟩; cases h0; exact h
      | _ => simp
    | iterator t' => unfold inst Den; simp
    | iterable t' => unfold Ty.Ref at href; exact absurd href id
    | object p =>
      unfold inst Den
      cases p with
      | none => cases v <;> simp
      | some pp => cases v <;> simp

end Pcore.Lat
