import Pcore.Proofs.DispatchCtors
import Pcore.Model.CtorInit
/-!
`v` is an instance of `Init[T, ia]` iff the call `Init[T, ia].new(v)` makes is accepted by a signature of T's constructor.
Core Lean only.
-/
namespace Pcore.Dispatch.Alpha

theorem initCall_eq (c : Ctor) (ia args : List Val) : initCall c ia args = ctorCall c (createArgs c ia args) := by
  unfold initCall createArgs
  split
  · rfl
  · split
    · rfl
    · match args with
      | [] => rfl
      | [.arr vs] => rfl
      | [.int _] | [.str _] | [.bool _] | [.float _] | [.binary _] | [.timespan _] | [.undef] | [.default] | [.hash _] => rfl
      | a :: _ :: _ => cases a <;> rfl

/-- the instance test is the signature test of the call `create` makes -/
theorem initInstance_iff (c : Ctor) (ia : List Val) (v : Val) :
    initInstTest c ia v = anyCallable c (createArgs c ia [v]) := by
  rw [Bool.eq_iff_iff]
  unfold initInstTest createArgs
  by_cases hia : ia.isEmpty = true
  · simp only [hia, Bool.not_true, Bool.false_eq_true, if_false]
    by_cases h1 : anyCallable c [v] = true
    · simp [h1]
    · simp only [h1, Bool.false_or]
      cases v <;> simp [h1]
  · simp [hia]

theorem anyCallable_false (c : Ctor) (hb : ∃ bs, buildAll c.creators = .ok bs) (args : List Val)
    (h : anyCallable c args = false) : ctorCall c args = .reported "ILLEGAL_ARGUMENTS" := by
  unfold anyCallable at h
  unfold ctorCall
  cases hr : run inst binst c.creators args (none : Option Blk) with
  | builderRejected p =>
    obtain ⟨bs, hbs⟩ := hb
    simp only [run, hbs] at hr
    split at hr <;> cases hr
  | resolveFailed e => exact absurd hr (run_no_fault inst binst _ args none e)
  | called o =>
    cases o with
    | reported => rfl
    | ran i => simp [hr] at h

theorem anyCallable_true (c : Ctor) (args : List Val) (h : anyCallable c args = true) :
    ∃ i cr, c.creators[i]? = some cr ∧ CreatorAccepts inst binst cr args (none : Option Blk) ∧ ctorCall c args = c.body i args := by
  unfold anyCallable at h
  cases hr : run inst binst c.creators args (none : Option Blk) with
  | builderRejected p => simp [hr] at h
  | resolveFailed e => simp [hr] at h
  | called o =>
    cases o with
    | reported => simp [hr] at h
    | ran i =>
      obtain ⟨cr, hcr, hacc, _⟩ := run_first inst binst _ args none i hr
      exact ⟨i, cr, hcr, hacc, by simp [ctorCall, hr]⟩

theorem string_no_fault (args : List Val) : ctorCall stringCtor args ≠ .fault := by
  rcases ctorCall_cases stringCtor args ⟨_, rfl⟩ with h | ⟨i, cr, hcr, hacc, hcall⟩
  · rw [h]; simp
  · rw [hcall]
    obtain ⟨⟨hreq, _, _⟩, _⟩ := hacc
    match i, hcr with
    | 0, hcr =>
      simp [stringCtor] at hcr; subst hcr
      simp only [paramsOf, List.filterMap, BOp.param?] at hreq
      have h0 := hreq 0 (.req, .any) (by simp) rfl
      match args, h0 with
      | [v], _ => simp only [stringCtor]; split <;> simp
      | _ :: _ :: _, _ => simp [stringCtor]
    | n + 1, hcr => simp [stringCtor] at hcr

end Pcore.Dispatch.Alpha
