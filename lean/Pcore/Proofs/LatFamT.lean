import Pcore.Proofs.LatFam
import Pcore.Proofs.LatCommonAll
set_option linter.unusedSimpArgs false
set_option linter.unusedVariables false
set_option maxHeartbeats 1000000
/-! C04, first law for values that HOLD TYPE VALUES: the family of inferred types with `Type[T]` for every well-formed `T` of the stage-4
    fragment of transitivity (`Ty.TA sfh`: every type of the model but Unit; Struct only with the rule off), and `commonType` on it.
    `PType()` of a type value `T` is `Type[T]`; `commonType(Type[x], Type[y]) = Type[commonType(x, y)]` recurses into ARBITRARY types, where
    it is an upper bound by `common_all` (LatCommonAll: the Tuple / Variant merges need transitivity, C03 stage 4); the fold invariant of
    `privateReducedType` then needs C01 for `Type[..]` receivers with such contents — the lifted `Ty.Frag` (LatFrag). -/
namespace Pcore.Lat
variable (cfg : Cfg) (sfh : Bool)

/-- `Ty.Fam` (the types `PType()` produces for values without type values, closed under `commonType`) plus `Type[T]` for every well-formed
    `T` without Unit (`CG` = `Ty.WF ∧ Ty.TA sfh`) -/
def Ty.FamT (t : Ty) : Prop :=
  match t with
  | .any | .undef | .dflt | .scalar | .scalarData | .numeric | .data | .richData | .bin | .str => True
  | .int _ | .float _ _ | .bool _ | .tspan _ | .tstamp _ | .strVal _ | .regexp _ | .object _ => True
  | .enum _ ci => ci = false
  | .array e r => ((match e with | .unit => True | _ => False) ∧ r.hi ≤ 0) ∨ Ty.FamT e
  | .hash k v r => ((match k with | .unit => True | _ => False) ∧ (match v with | .unit => True | _ => False) ∧ r.hi ≤ 0) ∨
      (Ty.FamT k ∧ Ty.FamT v)
  | .sensitive t' => Ty.FamT t'
  | .typ t' => CG cfg sfh t'
  | _ => False
termination_by t.w
decreasing_by
  all_goals simp_wf
  all_goals (try simp only [Ty.w, Ty.wl, Ty.wm] at *)
  all_goals omega

/-- no Unit anywhere, hence `UnitSafe` -/
theorem Ty.TA.us : ∀ (n : Nat) (t : Ty), t.w ≤ n → t.TA sfh → t.US := by
  intro n
  induction n with
  | zero => intro t h; have := Ty.w_pos t; omega
  | succ n ih =>
    intro t hw h
    cases t <;> unfold Ty.US <;> (try trivial) <;> unfold Ty.TA at h <;> (try exact absurd h id) <;> simp only [Ty.w] at hw
    · right; exact ih _ (by omega) h
    · right; exact ⟨ih _ (by omega) h.1, ih _ (by omega) h.2⟩
    · rename_i ts g; right; exact fun t' hm => ih t' (by have := Ty.w_lt_wl hm; omega) (h.2 t' hm)
    · rename_i ms; exact fun m hm => ih m.2.2 (by have := Ty.w_lt_wm hm; omega) (h.2 m hm)
    · rename_i ts; exact fun t' hm => ih t' (by have := Ty.w_lt_wl hm; omega) (h t' hm)
    · exact ih _ (by omega) h
    · exact ih _ (by omega) h
    · exact ih _ (by omega) h
    · exact ih _ (by omega) h
    · exact ih _ (by omega) h
    · exact ih _ (by omega) h

theorem famT_good : ∀ (n : Nat) (t : Ty), t.w ≤ n → t.FamT cfg sfh → Ty.Good cfg sfh t := by
  intro n
  induction n with
  | zero => intro t h; have := Ty.w_pos t; omega
  | succ n ih =>
    intro t hw h
    cases t <;> unfold Ty.FamT at h <;> (try exact absurd h id)
    all_goals (try (refine ⟨?_, ?_, ?_⟩ <;> simp [Ty.Frag, Ty.WF, Ty.US]; done))
    · -- enum
      subst h; refine ⟨?_, ?_, ?_⟩ <;> simp [Ty.Frag, Ty.WF, Ty.US]
    · -- array
      rename_i e r
      simp only [Ty.w] at hw
      rcases h with ⟨he, hr⟩ | h
      · cases e <;> simp only [] at he
        refine ⟨?_, ?_, ?_⟩ <;> simp [Ty.Frag, Ty.WF, Ty.US, hr]
      · obtain ⟨g1, g2, g3⟩ := ih e (by omega) h
        refine ⟨by unfold Ty.Frag; exact g1, by unfold Ty.WF; exact g2, by unfold Ty.US; exact Or.inr g3⟩
    · -- hash
      rename_i k v r
      simp only [Ty.w] at hw
      rcases h with ⟨hk, hv, hr⟩ | h
      · cases k <;> simp only [] at hk
        cases v <;> simp only [] at hv
        refine ⟨?_, ?_, ?_⟩ <;> simp [Ty.Frag, Ty.WF, Ty.US, hr]
      · obtain ⟨a1, a2, a3⟩ := ih k (by omega) h.1
        obtain ⟨b1, b2, b3⟩ := ih v (by omega) h.2
        refine ⟨by unfold Ty.Frag; exact ⟨a1, b1⟩, by unfold Ty.WF; exact ⟨a2, b2⟩, by unfold Ty.US; exact Or.inr ⟨a3, b3⟩⟩
    · -- typ
      rename_i x
      exact ⟨by unfold Ty.Frag; exact h.2, by unfold Ty.WF; exact h.1, by unfold Ty.US; exact Ty.TA.us sfh x.w x (Nat.le_refl _) h.2⟩
    · -- sensitive
      simp only [Ty.w] at hw
      obtain ⟨g1, g2, g3⟩ := ih _ (by omega) h
      exact ⟨by unfold Ty.Frag; exact g1, by unfold Ty.WF; exact g2, by unfold Ty.US; exact g3⟩

theorem famT_refl (n : Nat) (t : Ty) (hw : t.w ≤ n) (h : t.FamT cfg sfh) : asg cfg sfh t t = true :=
  asg_refl_all cfg sfh t.w t (Nat.le_refl _) (famT_good cfg sfh t.w t (Nat.le_refl _) h).2.1

theorem tail_famT (a b : Ty) : (commonTail cfg sfh a b).FamT cfg sfh := by
  unfold commonTail
  split <;> (try (unfold Ty.FamT; trivial))
  split <;> (try (unfold Ty.FamT; trivial))
  split <;> (try (unfold Ty.FamT; trivial))
  split <;> (try (unfold Ty.FamT; trivial))
  split <;> (unfold Ty.FamT; trivial)

theorem tail_allT (a b : Ty) :
    (commonTail cfg sfh a b).FamT cfg sfh ∧ asg cfg sfh (commonTail cfg sfh a b) a = true ∧ asg cfg sfh (commonTail cfg sfh a b) b = true :=
  ⟨tail_famT cfg sfh a b, (tail_ub cfg sfh a b).1, (tail_ub cfg sfh a b).2⟩

theorem famT_not_unit {t : Ty} (h : t.FamT cfg sfh) : t.isUnit = false := by
  cases t <;> simp [Ty.isUnit]; unfold Ty.FamT at h; exact h


/-- element types of inferred Arrays: Unit (when the maximal size is 0) or a member of the family -/
def ExtFamT (x : Ty) (r : Rng) : Prop := ((match x with | .unit => True | _ => False) ∧ r.hi ≤ 0) ∨ x.FamT cfg sfh

theorem ext_commonT (n : Nat)
    (ih : ∀ (a b : Ty), a.FamT cfg sfh → b.FamT cfg sfh → (commonF cfg sfh n a b).FamT cfg sfh ∧ asg cfg sfh (commonF cfg sfh n a b) a = true ∧
      asg cfg sfh (commonF cfg sfh n a b) b = true)
    (x y : Ty) (rx ry : Rng) (hx : ExtFamT cfg sfh x rx) (hy : ExtFamT cfg sfh y ry) :
    ExtFamT cfg sfh (commonF cfg sfh n x y) (rx.hull ry) ∧
    (rx.hi ≤ 0 ∨ asg cfg sfh (commonF cfg sfh n x y) x = true) ∧ (ry.hi ≤ 0 ∨ asg cfg sfh (commonF cfg sfh n x y) y = true) := by
  rcases hx with ⟨hxu, hxr⟩ | hx
  · cases x <;> simp only [] at hxu
    rcases hy with ⟨hyu, hyr⟩ | hy
    · cases y <;> simp only [] at hyu
      refine ⟨?_, Or.inl hxr, Or.inl hyr⟩
      cases n with
      | zero => right; unfold commonF; unfold Ty.FamT; trivial
      | succ k => left; unfold commonF; simp [Ty.isUnit]; exact hull_hi rx ry hxr hyr
    · cases n with
      | zero => unfold commonF; exact ⟨Or.inr (by unfold Ty.FamT; trivial), Or.inl hxr, Or.inr (asg_any_l cfg sfh y)⟩
      | succ k =>
        unfold commonF; simp only [Ty.isUnit, if_true]
        exact ⟨Or.inr hy, Or.inl hxr, Or.inr (famT_refl cfg sfh y.w y (Nat.le_refl _) hy)⟩
  · rcases hy with ⟨hyu, hyr⟩ | hy
    · cases y <;> simp only [] at hyu
      cases n with
      | zero => unfold commonF; exact ⟨Or.inr (by unfold Ty.FamT; trivial), Or.inr (asg_any_l cfg sfh x), Or.inl hyr⟩
      | succ k =>
        have ux : x.isUnit = false := by cases x <;> simp [Ty.isUnit]; unfold Ty.FamT at hx; exact hx
        unfold commonF; rw [ux]; simp only [Ty.isUnit, Bool.false_eq_true, if_false, if_true]
        exact ⟨Or.inr hx, Or.inr (famT_refl cfg sfh x.w x (Nat.le_refl _) hx), Or.inl hyr⟩
    · obtain ⟨h1, h2, h3⟩ := ih x y hx hy
      exact ⟨Or.inr h1, Or.inr h2, Or.inr h3⟩

/-- the statement about one `commonF` result -/
def CFT (a b c : Ty) : Prop := c.FamT cfg sfh ∧ asg cfg sfh c a = true ∧ asg cfg sfh c b = true

theorem common_famT (hl : ∀ s, (cfg.lower s).length = s.length) (hidem : ∀ s, cfg.lower (cfg.lower s) = cfg.lower s) :
    ∀ (n : Nat) (a b : Ty), a.FamT cfg sfh → b.FamT cfg sfh → CFT cfg sfh a b (commonF cfg sfh n a b) := by
  intro n
  induction n with
  | zero => intro a b _ _; unfold commonF; exact ⟨by unfold Ty.FamT; trivial, asg_any_l cfg sfh a, asg_any_l cfg sfh b⟩
  | succ n ih =>
    intro a b ha hb
    have ua := famT_not_unit cfg sfh ha
    have ub := famT_not_unit cfg sfh hb
    have ra := famT_refl cfg sfh a.w a (Nat.le_refl _) ha
    have rb := famT_refl cfg sfh b.w b (Nat.le_refl _) hb
    by_cases h1 : asg cfg sfh a b = true
    · unfold commonF; simp only [ua, ub, h1, Bool.false_eq_true, if_false, if_true]; exact ⟨ha, ra, h1⟩
    have h1' : asg cfg sfh a b = false := by cases h : asg cfg sfh a b <;> simp_all
    by_cases h2 : asg cfg sfh b a = true
    · unfold commonF; simp only [ua, ub, h1', h2, Bool.false_eq_true, if_false, if_true]; exact ⟨hb, h2, rb⟩
    have h2' : asg cfg sfh b a = false := by cases h : asg cfg sfh b a <;> simp_all
    have tl : CFT cfg sfh a b (commonTail cfg sfh a b) := tail_allT cfg sfh a b
    unfold commonF
    simp only [ua, ub, h1', h2', Bool.false_eq_true, if_false]
    cases a <;> (unfold Ty.FamT at ha) <;> (try exact absurd ha id) <;> simp only [] <;> (try exact tl)
    · -- int
      rename_i r
      cases b <;> (unfold Ty.FamT at hb) <;> (try exact absurd hb id) <;> simp only [] <;> (try exact tl)
      rename_i r'
      refine ⟨by unfold Ty.FamT; trivial, ?_, ?_⟩
      · exact viaRecv' cfg sfh rfl (by unfold asgRecv; exact hull_sub_l r r')
      · exact viaRecv' cfg sfh rfl (by unfold asgRecv; exact hull_sub_r r r')
    · -- float
      rename_i l h
      cases b <;> (unfold Ty.FamT at hb) <;> (try exact absurd hb id) <;> simp only [] <;> (try exact tl)
      rename_i l' h'
      refine ⟨by unfold Ty.FamT; trivial, ?_, ?_⟩
      · exact viaRecv' cfg sfh rfl (by
          unfold asgRecv; simp only [Bool.and_eq_true, decide_eq_true_eq]
          exact ⟨Fl.effLo_mono (Int.min_le_left _ _), Fl.effHi_mono (Int.le_max_left _ _)⟩)
      · exact viaRecv' cfg sfh rfl (by
          unfold asgRecv; simp only [Bool.and_eq_true, decide_eq_true_eq]
          exact ⟨Fl.effLo_mono (Int.min_le_right _ _), Fl.effHi_mono (Int.le_max_right _ _)⟩)
    · -- strVal
      rename_i s
      cases b <;> (unfold Ty.FamT at hb) <;> (try exact absurd hb id) <;> simp only [] <;> (try exact tl)
      · -- str: String accepts a, so this branch is not reached
        exfalso; rw [viaRecv' cfg sfh rfl (by unfold asgRecv; rfl)] at h2'; cases h2'
      · -- strVal
        rename_i s'
        refine ⟨by unfold Ty.FamT; rfl, enum_has cfg sfh _ s (by simp), enum_has cfg sfh _ s' (by simp)⟩
      · -- enum
        rename_i vs' ci'
        subst hb
        obtain ⟨f, l, r⟩ := ih (.enum vs' false) (.strVal s) (by unfold Ty.FamT; rfl) (by unfold Ty.FamT; trivial)
        exact ⟨f, r, l⟩
    · -- enum
      rename_i vs ci
      subst ha
      -- the default Enum accepts every string type, so in the string sub-cases the value list is not empty
      have hvs : ∀ b', isStringFamily b' = true → b'.plainR = true → asg cfg sfh (.enum vs false) b' = false → vs ≠ [] := by
        intro b' hf hp hn hv; subst hv
        rw [viaRecv' cfg sfh hp (by unfold asgRecv; simp [hf])] at hn; cases hn
      cases b <;> (unfold Ty.FamT at hb) <;> (try exact absurd hb id) <;> simp only [] <;> (try exact tl)
      · -- str
        exfalso; rw [viaRecv' cfg sfh rfl (by unfold asgRecv; rfl)] at h2'; cases h2'
      · -- strVal
        rename_i s
        have hm : mkEnum cfg (vs ++ [s]).eraseDups false = .enum (vs ++ [s]).eraseDups false := by
          unfold mkEnum
          have : (vs ++ [s]).eraseDups.isEmpty = false := by
            cases h : (vs ++ [s]).eraseDups with
            | nil => have : s ∈ (vs ++ [s]).eraseDups := List.mem_eraseDups.2 (by simp); rw [h] at this; cases this
            | cons _ _ => rfl
          simp [this]
        rw [hm]
        refine ⟨by unfold Ty.FamT; rfl, ?_, ?_⟩
        · exact enum_sub cfg sfh _ vs (hvs _ rfl rfl h1') (fun x hx => List.mem_eraseDups.2 (by simp [hx]))
        · exact enum_has cfg sfh _ s (List.mem_eraseDups.2 (by simp))
      · -- enum
        rename_i vs' ci'
        subst hb
        have hv := hvs _ rfl rfl h1'
        have hv' : vs' ≠ [] := by
          intro hv'; subst hv'
          rw [viaRecv' cfg sfh rfl (by unfold asgRecv; simp [isStringFamily])] at h2'; cases h2'
        have hm : mkEnum cfg (vs ++ vs').eraseDups (false || false) = .enum (vs ++ vs').eraseDups false := by
          unfold mkEnum
          have : (vs ++ vs').eraseDups.isEmpty = false := by
            cases h : (vs ++ vs').eraseDups with
            | nil =>
              cases vs with
              | nil => exact absurd rfl hv
              | cons x xs => have : x ∈ ((x :: xs) ++ vs').eraseDups := List.mem_eraseDups.2 (by simp); rw [h] at this; cases this
            | cons _ _ => rfl
          simp [this]
        rw [hm]
        refine ⟨by unfold Ty.FamT; rfl, ?_, ?_⟩
        · exact enum_sub cfg sfh _ vs hv (fun x hx => List.mem_eraseDups.2 (by simp [hx]))
        · exact enum_sub cfg sfh _ vs' hv' (fun x hx => List.mem_eraseDups.2 (by simp [hx]))
    · -- array
      rename_i e r
      cases b <;> (unfold Ty.FamT at hb) <;> (try exact absurd hb id) <;> simp only [] <;> (try exact tl)
      rename_i e' r'
      obtain ⟨hc1, hc2, hc3⟩ := ext_commonT cfg sfh n ih e e' r r' ha hb
      refine ⟨by unfold Ty.FamT; exact hc1, ?_, ?_⟩
      · apply viaRecv' cfg sfh rfl
        unfold asgRecv
        simp only [hull_sub_l, Bool.true_and, Bool.or_eq_true, decide_eq_true_eq]
        exact hc2
      · apply viaRecv' cfg sfh rfl
        unfold asgRecv
        simp only [hull_sub_r, Bool.true_and, Bool.or_eq_true, decide_eq_true_eq]
        exact hc3
    · -- typ: `commonType(Type[x], Type[y]) = Type[commonType(x, y)]`, an upper bound on all of `Ty.TA` (`common_all`, C03 stage 4)
      rename_i x
      cases b <;> (unfold Ty.FamT at hb) <;> (try exact absurd hb id) <;> simp only [] <;> (try exact tl)
      rename_i y
      obtain ⟨g, u1, u2⟩ := common_all cfg sfh hl hidem n x y ha hb
      exact ⟨by unfold Ty.FamT; exact g, mono_typ cfg sfh _ _ u1, mono_typ cfg sfh _ _ u2⟩


/-- the family with type values satisfies the obligations of the fold invariant; `TV` = the well-formed types without Unit -/
theorem famT_inferFam (hl : ∀ s, (cfg.lower s).length = s.length) (hidem : ∀ s, cfg.lower (cfg.lower s) = cfg.lower s) :
    InferFam cfg sfh (Ty.FamT cfg sfh) (CG cfg sfh) where
  good := fun t h => famT_good cfg sfh t.w t (Nat.le_refl _) h
  closed := fun a b ha hb => (common_famT cfg sfh hl hidem _ a b ha hb).1
  left := fun a b ha hb => (common_famT cfg sfh hl hidem _ a b ha hb).2.1
  right := fun a b ha hb => (common_famT cfg sfh hl hidem _ a b ha hb).2.2
  leaf := by
    refine ⟨?_, ?_, ?_, ?_, ?_, ?_, ?_, ?_, ?_, ?_, ?_⟩ <;> (try intro _) <;> (unfold Ty.FamT; trivial)
  typv := fun t h => ⟨by unfold Ty.FamT; exact h, cg_refl cfg sfh h⟩
  sens := fun t h => by unfold Ty.FamT; exact h
  arr0 := by unfold Ty.FamT; left; exact ⟨trivial, by simp⟩
  arr := fun e r h => by unfold Ty.FamT; right; exact h
  hash0 := by unfold Ty.FamT; left; exact ⟨trivial, trivial, by simp⟩
  hash := fun k v r hk hv => by unfold Ty.FamT; right; exact ⟨hk, hv⟩

/-- the side condition of C01 on values already says that every type value is a well-formed type without Unit -/
theorem Val.TyOKS.allTyp : ∀ (n : Nat) (v : Val), v.w ≤ n → Val.TyOKS cfg sfh v → Val.AllTyp (CG cfg sfh) v := by
  intro n
  induction n with
  | zero => intro v h; have : 0 < v.w := by cases v <;> simp [Val.w] <;> omega
            omega
  | succ n ih =>
    intro v hw tv
    cases tv with
    | typ t h1 h2 => exact Val.AllTyp.typ t ⟨h2, h1⟩
    | sensitive x h => simp only [Val.w] at hw; exact Val.AllTyp.sensitive x (ih x (by omega) h)
    | array vs _ h =>
      simp only [Val.w] at hw
      exact Val.AllTyp.array vs (fun x hx => ih x (by have := Val.w_lt_wl hx; omega) (h x hx))
    | hash es _ h1 h2 =>
      simp only [Val.w] at hw
      exact Val.AllTyp.hash es (fun e he => ih e.1 (by have := Val.w_lt_we he; omega) (h1 e he))
        (fun e he => ih e.2 (by have := Val.w_lt_we he; omega) (h2 e he))
    | _ => constructor

/-- FIRST LAW of C04 for every value, type values included (any well-formed type without Unit; Struct only with the rule off) -/
theorem ptype_famT (hl : ∀ s, (cfg.lower s).length = s.length) (hidem : ∀ s, cfg.lower (cfg.lower s) = cfg.lower s)
    (v : Val) (ok : v.OK) (tv : Val.TyOKS cfg sfh v) :
    inst cfg sfh (ptype cfg sfh v) v = true ∧ (ptype cfg sfh v).FamT cfg sfh :=
  ptype_inst cfg sfh hl (Ty.FamT cfg sfh) (CG cfg sfh) (famT_inferFam cfg sfh hl hidem) v.w v (Nat.le_refl _) ok tv
    (Val.TyOKS.allTyp cfg sfh v.w v (Nat.le_refl _) tv)

/-- SECOND LAW of C04 for every value (type values included) without a hash of the empty-string-key shape -/
theorem dtype_famT (hl : ∀ s, (cfg.lower s).length = s.length) (hidem : ∀ s, cfg.lower (cfg.lower s) = cfg.lower s) : ∀ (n : Nat) (v : Val), v.w ≤ n → v.OK → Val.TyOKS cfg sfh v →
    Val.NoEmptyKey v → Val.Structy cfg sfh v := by
  intro n
  induction n with
  | zero => intro v h; have : 0 < v.w := by cases v <;> simp [Val.w] <;> omega
            omega
  | succ n ih =>
    intro v hw ok tv ne
    have viaP : dtype cfg sfh v = ptype cfg sfh v → Val.Structy cfg sfh v := fun he =>
      Val.Structy.known v (by rw [he]; exact (ptype_famT cfg sfh hl hidem v ok tv).1)
    cases ne with
    | leaf _ hlf =>
      apply viaP
      apply dtype_eq_ptype_leaf
      cases v <;> simp only [] at hlf ⊢
    | sensitive x => exact viaP (by unfold dtype; rfl)
    | array vs hall =>
      simp only [Val.w] at hw
      exact Val.Structy.array vs (fun x hx =>
        ih x (by have := Val.w_lt_wl hx; omega) (ok.elems x hx) (tv.elems x hx) (hall x hx))
    | hashAny es hany =>
      apply viaP
      cases es with
      | nil => simp at hany
      | cons e0 es0 => obtain ⟨k0, v0⟩ := e0; unfold dtype; simp [hany]
    | hashStr es hkeys hvals =>
      simp only [Val.w] at hw
      exact Val.Structy.hash es ok.nodup hkeys (fun e he =>
        ih e.2 (by have := Val.w_lt_we he; omega) (ok.vals e he) (tv.vals e he) (hvals e he))

end Pcore.Lat

namespace Pcore.Lat
variable (cfg : Cfg)

/-- the detailed type of such a value meets the side conditions of C01 (rule off: it may hold Structs) -/
theorem dtype_goodT (hl : ∀ s, (cfg.lower s).length = s.length) (hidem : ∀ s, cfg.lower (cfg.lower s) = cfg.lower s) : ∀ (n : Nat) (v : Val), v.w ≤ n → v.OK → Val.TyOKS cfg false v →
    Val.NoEmptyKey v → Ty.Good cfg false (dtype cfg false v) := by
  intro n
  induction n with
  | zero => intro v h; have : 0 < v.w := by cases v <;> simp [Val.w] <;> omega
            omega
  | succ n ih =>
    intro v hw ok tv ne
    have viaP : dtype cfg false v = ptype cfg false v → Ty.Good cfg false (dtype cfg false v) := fun he => by
      rw [he]
      exact famT_good cfg false _ _ (Nat.le_refl _) (ptype_famT cfg false hl hidem v ok tv).2
    cases ne with
    | leaf _ hlf =>
      apply viaP
      apply dtype_eq_ptype_leaf
      cases v <;> simp only [] at hlf ⊢
    | sensitive x => exact viaP (by unfold dtype; rfl)
    | array vs hall =>
      simp only [Val.w] at hw
      cases vs with
      | nil => unfold dtype; refine ⟨?_, ?_, ?_⟩ <;> simp [Ty.Frag, Ty.WF, Ty.US]
      | cons x xs =>
        have hd : dtype cfg false (.array (x :: xs)) = .tuple (dtypeL cfg false (x :: xs)) none := by
          conv => lhs; unfold dtype
          conv => rhs; unfold dtypeL
        rw [hd]
        have hmem : ∀ t ∈ dtypeL cfg false (x :: xs), Ty.Good cfg false t := by
          intro t ht
          obtain ⟨i, hi, hget⟩ := List.getElem_of_mem ht
          obtain ⟨y, hy, hty⟩ := dtypeL_get cfg false (x :: xs) i t (by rw [List.getElem?_eq_getElem hi, hget])
          have hym := List.mem_of_getElem? hy
          rw [hty]
          exact ih y (by have := Val.w_lt_wl hym; omega) (ok.elems y hym) (tv.elems y hym) (hall y hym)
        refine ⟨?_, ?_, ?_⟩
        · unfold Ty.Frag; exact fun t ht => (hmem t ht).1
        · unfold Ty.WF; exact fun t ht => (hmem t ht).2.1
        · unfold Ty.US; right; exact fun t ht => (hmem t ht).2.2
    | hashAny es hany =>
      apply viaP
      cases es with
      | nil => simp at hany
      | cons e0 es0 => obtain ⟨k0, v0⟩ := e0; unfold dtype; simp [hany]
    | hashStr es hkeys hvals =>
      simp only [Val.w] at hw
      cases es with
      | nil => unfold dtype; refine ⟨?_, ?_, ?_⟩ <;> simp [Ty.Frag, Ty.WF, Ty.US]
      | cons e0 es0 =>
        obtain ⟨k0, v0⟩ := e0
        have hallstr : ((k0, v0) :: es0).all (fun e => isStrKey e.1) = true := by
          simp only [List.all_eq_true]
          intro e he; obtain ⟨s, hs, _⟩ := hkeys e he; rw [hs]; rfl
        have hnoempty : ((k0, v0) :: es0).any (fun e => isEmptyStrKey e.1) = false := by
          cases hh : ((k0, v0) :: es0).any (fun e => isEmptyStrKey e.1) with
          | false => rfl
          | true =>
            exfalso
            simp only [List.any_eq_true] at hh
            obtain ⟨e, he, hk⟩ := hh
            obtain ⟨s, hs, hne⟩ := hkeys e he
            rw [hs] at hk; simp [isEmptyStrKey] at hk; exact hne hk
        have hd : dtype cfg false (.hash ((k0, v0) :: es0)) = .struct (dtypeM cfg false ((k0, v0) :: es0)) := by
          conv => lhs; unfold dtype
          simp only [hallstr, hnoempty, Bool.not_true, Bool.false_eq_true, if_false]
        rw [hd]
        have hmem : ∀ m ∈ dtypeM cfg false ((k0, v0) :: es0), Ty.Good cfg false m.2.2 := by
          intro m hm
          obtain ⟨e, he, _, h2⟩ := dtypeM_mem cfg false _ m hm
          rw [h2]
          exact ih e.2 (by have := Val.w_lt_we he; omega) (ok.vals e he) (tv.vals e he) (hvals e he)
        have hnames : ((dtypeM cfg false ((k0, v0) :: es0)).map (·.1)).Nodup := by
          rw [dtypeM_names]; exact names_nodup _ ok.nodup hkeys
        refine ⟨?_, ?_, ?_⟩
        · unfold Ty.Frag; exact ⟨rfl, fun m hm => (hmem m hm).1⟩
        · unfold Ty.WF; exact ⟨hnames, fun m hm => (hmem m hm).2.1⟩
        · unfold Ty.US; exact fun m hm => (hmem m hm).2.2

end Pcore.Lat
