import Pcore.Model.ReflectN
import Mathlib.Data.String.Basic
/-! Helper lemmas for C18 (property theorems are in `Pcore/Props/C18.lean`). -/
namespace Pcore.ReflectN

/-! ### integer width lemmas — the arithmetic core -/

theorem okWidth_cases {w : Nat} (h : okWidth w = true) : w = 0 ∨ w = 8 ∨ w = 16 ∨ w = 32 ∨ w = 64 := by
  simp [okWidth] at h; omega

/-- `SetInt` / `intN(x)` is the identity on values of the width's range -/
theorem truncS_of_range {w : Nat} (hw : okWidth w = true) {i : Int}
    (lo : -(2 ^ (bitsOf w - 1) : Int) ≤ i) (hi : i < 2 ^ (bitsOf w - 1)) : truncS (bitsOf w) i = i := by
  rcases okWidth_cases hw with rfl | rfl | rfl | rfl | rfl <;>
    simp [bitsOf, truncS] at lo hi ⊢ <;> omega

/-- `uintN(int64(x))` gives `x` back for every unsigned value of the width, including those ≥ 2^63 that wrapped around -/
theorem truncU_u2i {w : Nat} (hw : okWidth w = true) {i : Int} (lo : 0 ≤ i) (hi : i < 2 ^ bitsOf w) :
    truncU (bitsOf w) (u2i i) = i := by
  rcases okWidth_cases hw with rfl | rfl | rfl | rfl | rfl <;>
    simp [bitsOf, truncU, u2i] at hi ⊢ <;> split <;> omega

/-! ### lists -/

theorem mapOpt_map {α β : Type} (f : α → Option β) (g : β → α) :
    ∀ l : List β, (∀ x ∈ l, f (g x) = some x) → mapOpt f (l.map g) = some l
  | [], _ => rfl
  | x :: l, h => by
      have h1 := h x (by simp)
      have h2 := mapOpt_map f g l (fun y hy => h y (by simp [hy]))
      simp [mapOpt, h1, h2]

theorem mapOpt_perm {α β : Type} (f : α → Option β) {l l' : List α} (hp : l.Perm l') :
    ∀ r', mapOpt f l' = some r' → ∃ r, mapOpt f l = some r ∧ r.Perm r' := by
  induction hp with
  | nil => intro r' h; exact ⟨r', h, List.Perm.refl _⟩
  | @cons x l₁ l₂ _ ih =>
      intro r' h
      simp only [mapOpt] at h ⊢
      cases hx : f x with
      | none => simp [hx] at h
      | some b =>
        cases hl : mapOpt f l₂ with
        | none => simp [hx, hl] at h
        | some bs =>
          simp [hx, hl] at h
          obtain ⟨r, hr, hp⟩ := ih bs hl
          exact ⟨b :: r, by simp [hr], by rw [← h]; exact hp.cons b⟩
  | swap x y l =>
      intro r' h
      simp only [mapOpt] at h ⊢
      cases hx : f x <;> cases hy : f y <;> cases hl : mapOpt f l <;> simp [hx, hy, hl] at h ⊢
      rw [← h]; exact List.Perm.swap _ _ _
  | trans _ _ ih₁ ih₂ =>
      intro r' h
      obtain ⟨r₂, h₂, p₂⟩ := ih₂ r' h
      obtain ⟨r₁, h₁, p₁⟩ := ih₁ r₂ h₂
      exact ⟨r₁, h₁, p₁.trans p₂⟩

theorem insertEntry_perm (e : Val × Val) : ∀ l, (insertEntry e l).Perm (e :: l)
  | [] => List.Perm.refl _
  | x :: r => by
      simp only [insertEntry]
      split
      · exact List.Perm.refl _
      · exact ((insertEntry_perm e r).cons x).trans (List.Perm.swap _ _ _)

theorem sortEntries_perm : ∀ l, (sortEntries l).Perm l
  | [] => List.Perm.refl _
  | e :: r => (insertEntry_perm e _).trans ((sortEntries_perm r).cons e)

/-! ### the canonical key order -/

theorem strLt_iff {a b : String} : strLt a b = true ↔ a < b := decide_eq_true_iff

theorem strLt_false_iff {a b : String} : strLt a b = false ↔ ¬ a < b := by
  rw [← strLt_iff]; cases strLt a b <;> simp

theorem keyLt_irrefl (a : GoVal) : keyLt a a = false := by
  cases a <;> simp [keyLt]
  exact strLt_false_iff.mpr (lt_irrefl _)

theorem keyLt_asymm {a b : GoVal} (h : keyLt a b = true) : keyLt b a = false := by
  cases a <;> cases b <;> simp [keyLt] at h ⊢
  · omega
  · exact strLt_false_iff.mpr (lt_asymm (strLt_iff.mp h))
  · rcases h with ⟨rfl, rfl⟩; simp

theorem keyLt_trans {a b c : GoVal} (h₁ : keyLt a b = true) (h₂ : keyLt b c = true) : keyLt a c = true := by
  cases a <;> cases b <;> simp [keyLt] at h₁ <;> cases c <;> simp [keyLt] at h₂ ⊢
  · omega
  · exact strLt_iff.mpr (lt_trans (strLt_iff.mp h₁) (strLt_iff.mp h₂))
  · simp_all

/-! ### Go maps as canonical entry lists: `mapOf` of any permutation of a canonical list is that list -/

/-- strictly ascending keys -/
def KR (x y : GoVal × GoVal) : Prop := keyLt x.1 y.1 = true
/-- comparable, distinct keys -/
def KC (x y : GoVal × GoVal) : Prop := KR x y ∨ KR y x

theorem KC_symm {x y : GoVal × GoVal} (h : KC x y) : KC y x := h.symm

theorem sortedKeys_pairwise : ∀ l, sortedKeys l = true → l.Pairwise KR
  | [], _ => List.Pairwise.nil
  | [a], _ => by simp
  | a :: b :: r, h => by
      simp only [sortedKeys, Bool.and_eq_true] at h
      have ih := sortedKeys_pairwise (b :: r) h.2
      refine List.Pairwise.cons ?_ ih
      intro y hy
      rcases List.mem_cons.mp hy with rfl | hy'
      · exact h.1
      · exact keyLt_trans h.1 ((List.pairwise_cons.mp ih).1 y hy')

theorem mapSet_spec (k v : GoVal) : ∀ m : List (GoVal × GoVal), m.Pairwise KR → (∀ x ∈ m, KC (k, v) x) →
    (mapSet k v m).Pairwise KR ∧ (mapSet k v m).Perm ((k, v) :: m)
  | [], _, _ => ⟨by simp [mapSet], List.Perm.refl _⟩
  | x :: r, hm, hc => by
      have hx := hc x (by simp)
      obtain ⟨hxr, hr⟩ := List.pairwise_cons.mp hm
      simp only [mapSet]
      by_cases h1 : keyLt k x.1 = true
      · simp only [h1, if_true]
        refine ⟨List.Pairwise.cons ?_ hm, List.Perm.refl _⟩
        intro y hy
        rcases List.mem_cons.mp hy with rfl | hy'
        · exact h1
        · exact keyLt_trans h1 (hxr y hy')
      · have h2 : keyLt x.1 k = true := by
          rcases hx with h | h
          · exact absurd h h1
          · exact h
        simp only [h1, h2, if_true]
        obtain ⟨ih1, ih2⟩ := mapSet_spec k v r hr (fun y hy => hc y (by simp [hy]))
        refine ⟨List.Pairwise.cons ?_ ih1, (ih2.cons x).trans (List.Perm.swap _ _ _)⟩
        intro y hy
        rcases List.mem_cons.mp (ih2.subset hy) with rfl | hy'
        · exact h2
        · exact hxr y hy'

theorem foldl_mapSet : ∀ (l m : List (GoVal × GoVal)), m.Pairwise KR → l.Pairwise KC →
    (∀ x ∈ m, ∀ y ∈ l, KC y x) →
    (l.foldl (fun m e => mapSet e.1 e.2 m) m).Pairwise KR ∧ (l.foldl (fun m e => mapSet e.1 e.2 m) m).Perm (m ++ l)
  | [], m, hm, _, _ => by simpa using hm
  | e :: l, m, hm, hl, hc => by
      obtain ⟨hel, hl'⟩ := List.pairwise_cons.mp hl
      obtain ⟨s1, s2⟩ := mapSet_spec e.1 e.2 m hm (fun x hx => hc x hx e (by simp))
      have hc' : ∀ x ∈ mapSet e.1 e.2 m, ∀ y ∈ l, KC y x := by
        intro x hx y hy
        rcases List.mem_cons.mp (s2.subset hx) with rfl | hx'
        · exact KC_symm (hel y hy)
        · exact hc x hx' y (by simp [hy])
      obtain ⟨r1, r2⟩ := foldl_mapSet l (mapSet e.1 e.2 m) s1 hl' hc'
      refine ⟨r1, r2.trans ?_⟩
      exact ((s2.append_right l).trans (by simp)).trans List.perm_middle.symm

/-- building a Go map from the entries of a canonical list, in any order, gives the canonical list -/
theorem mapOf_perm_sorted {l₁ l : List (GoVal × GoVal)} (hp : l₁.Perm l) (hs : sortedKeys l = true) : mapOf l₁ = l := by
  have hR := sortedKeys_pairwise l hs
  have hC : l₁.Pairwise KC := (List.Perm.pairwise_iff (fun h => KC_symm h) hp).mpr (hR.imp Or.inl)
  obtain ⟨r1, r2⟩ := foldl_mapSet l₁ [] List.Pairwise.nil hC (by simp)
  refine List.Perm.eq_of_pairwise (le := KR) ?_ (by simpa [mapOf] using r1) hR ((by simpa [mapOf] using r2 : (mapOf l₁).Perm l₁).trans hp)
  intro a b _ _ hab hba
  have := keyLt_asymm hab
  simp [KR] at hba; simp [hba] at this

/-! ### the round trip -/

section
variable (r32 : Nat → Nat) (hr : ∀ b, f32exact b = true → r32 b = b)
include hr

theorem scalar_rt {t : GoTy} {v : GoVal} (ht : scalarTy t = true) (hv : scalarHasType t v = true) :
    reflectTo r32 t (wrapScalar t v) = some v := by
  cases t <;> simp [scalarTy] at ht <;> cases v <;> simp [scalarHasType] at hv <;> simp [wrapScalar, reflectTo]
  · exact truncS_of_range ht hv.1 hv.2
  · exact truncU_u2i ht hv.1 hv.2
  · rcases ht with rfl | rfl
    · simp at hv; simp [hr _ hv]
    · simp

omit hr in
theorem all_int_of_uint8 : ∀ es : List GoVal, es.all (hasType (.uint 8)) = true → (es.map intOf).map GoVal.int = es
  | [], _ => rfl
  | x :: r, h => by
      simp only [List.all_cons, Bool.and_eq_true] at h
      have := all_int_of_uint8 r h.2
      cases x <;> simp [hasType, scalarHasType] at h
      simp [intOf, this]

omit hr in
/-- a pointee that is not nil never wraps to undef or to a Binary -/
theorem wrap_false_shape {e : GoTy} {x : GoVal} (hm : Modelled (.ptr e) = true) (hv : hasType e x = true)
    (hx : x ≠ .nil) (hs : isStruct e = false) :
    wrap false e x ≠ .undef ∧ (∀ a b, wrap false e x ≠ .bin a b) ∧ (∀ S p g, wrap false e x ≠ .obj S p g) ∧
    ∀ t g, wrap false e x ≠ .rt t g := by
  cases e <;> cases x <;> simp [hasType, scalarHasType, Modelled, isStruct] at hv hm hx hs ⊢ <;> simp [wrap, wrapScalar]

omit hr in
theorem wrap_ptr_struct {e : GoTy} (via : Bool) (x : GoVal) (hs : isStruct e = true) :
    wrap via (.ptr e) (.ptr x) = .obj e true x := by
  simp [wrap, hs]

omit hr in
theorem wrap_ptr_plain {e : GoTy} (via : Bool) (x : GoVal) (hs : isStruct e = false) :
    wrap via (.ptr e) (.ptr x) = wrap false e x := by
  simp [wrap, hs]

omit hr in
theorem struct_hasType_ne_nil {e : GoTy} {x : GoVal} (hs : isStruct e = true) (hv : hasType e x = true) : x ≠ .nil := by
  rintro rfl
  cases e <;> simp [isStruct, hasType] at hs hv

omit hr in
theorem reflectTo_ptr {e : GoTy} {w : Val} (hm : Modelled (.ptr e) = true) (h1 : w ≠ .undef)
    (h2 : ∀ a b, w ≠ .bin a b) (h3 : ∀ S p g, w ≠ .obj S p g) (h4 : ∀ t g, w ≠ .rt t g) (hs : isStruct e = false) :
    reflectTo r32 (.ptr e) w = (reflectTo r32 e w).map .ptr := by
  cases w <;> simp at h1 h2 h3 h4 <;> cases e <;> simp [Modelled, isStruct] at hm hs <;> simp [reflectTo]

omit hr in
theorem keyTy_RtOK {k : GoTy} (hk : keyTy k = true) (via : Bool) (a : GoVal) : RtOK via k a = true := by
  cases k <;> simp [keyTy] at hk <;> simp [RtOK]

theorem rt_main : ∀ (ty : GoTy) (via : Bool) (v : GoVal), Modelled ty = true → hasType ty v = true →
    RtOK via ty v = true → reflectTo r32 ty (wrap via ty v) = some v := by
  intro ty
  induction ty with
  | int w => intro via v hm hv _; simpa [wrap] using scalar_rt r32 hr (t := .int w) (by simpa [Modelled, scalarTy] using hm) (by simpa [hasType] using hv)
  | uint w => intro via v hm hv _; simpa [wrap] using scalar_rt r32 hr (t := .uint w) (by simpa [Modelled, scalarTy] using hm) (by simpa [hasType] using hv)
  | float w => intro via v hm hv _; simpa [wrap] using scalar_rt r32 hr (t := .float w) (by simpa [Modelled, scalarTy] using hm) (by simpa [hasType] using hv)
  | string => intro via v _ hv _; simpa [wrap] using scalar_rt r32 hr (t := .string) rfl (by simpa [hasType] using hv)
  | bool => intro via v _ hv _; simpa [wrap] using scalar_rt r32 hr (t := .bool) rfl (by simpa [hasType] using hv)
  | iface =>
      intro via v _ hv ho
      cases v <;> simp [hasType] at hv
      · simp [wrap, reflectTo]
      · rename_i t x
        cases via
        · simp [wrap, reflectTo]
        · simp [RtOK] at ho
          rcases ho with ((rfl | rfl) | rfl) | rfl <;> cases x <;> simp [scalarHasType] at hv <;> simp [wrap, wrapScalar, reflectTo]
  | slice e ih =>
      intro via v hm hv ho
      cases v <;> simp [hasType] at hv
      · -- nil
        simp [RtOK] at ho
        by_cases h8 : e = .uint 8
        · subst h8; cases via <;> simp [wrap, reflectTo]
        · cases via <;> simp_all [wrap, reflectTo]
      · rename_i es
        simp [RtOK] at ho
        by_cases h8 : via = true ∧ e = .uint 8
        · obtain ⟨rfl, rfl⟩ := h8
          simp [wrap, reflectTo]
          simpa using all_int_of_uint8 es (by simpa using hv)
        · have hw : wrap via (.slice e) (.slice es) = .arr (es.map (wrap true e)) := by
            cases via <;> simp_all [wrap]
          rw [hw]
          simp only [reflectTo]
          rw [mapOpt_map (reflectTo r32 e) (wrap true e) es (fun x hx => ih true x (by simpa [Modelled] using hm) (hv x hx) (ho x hx))]
          rfl
  | array n e ih =>
      intro via v hm hv ho
      cases v <;> simp [hasType] at hv
      rename_i es
      simp [RtOK] at ho
      simp only [wrap, reflectTo, List.length_map, hv.1, if_true]
      rw [mapOpt_map (reflectTo r32 e) (wrap true e) es (fun x hx => ih true x (by simpa [Modelled] using hm) (hv.2 x hx) (ho x hx))]
      rfl
  | map k v ihk ihv =>
      intro via x hm hv ho
      simp [Modelled] at hm
      cases x <;> simp [hasType] at hv
      · simp [RtOK] at ho
        cases via <;> simp_all [wrap, reflectTo]
      · rename_i es
        simp [RtOK] at ho
        simp only [wrap, reflectTo]
        have hk : Modelled k = true := by cases k <;> simp_all [keyTy, Modelled]
        have hpt : ∀ e ∈ es, pairOpt (reflectTo r32 k (wrap true k e.1)) (reflectTo r32 v (wrap true v e.2)) = some e := by
          intro e he
          rw [ihk true e.1 hk (hv.1 e.1 e.2 he).1 (keyTy_RtOK hm.1 _ _), ihv true e.2 hm.2 (hv.1 e.1 e.2 he).2 (ho e.1 e.2 he)]
          rfl
        have h0 := mapOpt_map (fun kv : Val × Val => pairOpt (reflectTo r32 k kv.1) (reflectTo r32 v kv.2))
                              (fun kv : GoVal × GoVal => (wrap true k kv.1, wrap true v kv.2)) es hpt
        obtain ⟨l₁, h1, p1⟩ := mapOpt_perm _ (sortEntries_perm (es.map fun kv => (wrap true k kv.1, wrap true v kv.2))) es h0
        rw [h1]
        simp [mapOf_perm_sorted p1 hv.2]
  | ptr e ih =>
      intro via v hm hv ho
      cases v <;> simp [hasType] at hv
      · simp [wrap, reflectTo]
      · rename_i x
        by_cases hs : isStruct e = true
        · rw [wrap_ptr_struct via x hs]
          simp [reflectTo]
        · have hs' : isStruct e = false := by simpa using hs
          have hx : x ≠ .nil := by rintro rfl; simp [RtOK] at ho
          have ho' : RtOK false e x = true := by cases x <;> simp_all [RtOK]
          have hme : Modelled e = true := by simp [Modelled] at hm; exact hm.2
          obtain ⟨s1, s2, s3, s4⟩ := wrap_false_shape hm hv hx hs'
          rw [wrap_ptr_plain via x hs', reflectTo_ptr r32 hm s1 s2 s3 s4 hs', ih false x hme hv ho']
          rfl
  | snil => intro via v _ _ _; simp [wrap, reflectTo]
  | scons n tg ft rest _ _ => intro via v _ _ _; simp [wrap, reflectTo]

end

/-! ### the derived type accepts the wrapped value -/

theorem mem_sortEntries {l : List (Val × Val)} {x : Val × Val} : x ∈ sortEntries l ↔ x ∈ l :=
  (sortEntries_perm l).mem_iff

theorem inst_opt {t : Ty} {w : Val} (h : inst t w = true) : inst (.opt t) w = true := by
  cases w <;> simp_all [inst]

/-- a finite float32 value is within [-MaxFloat32, MaxFloat32] -/
theorem f32_in_range {b : Nat} (h : f32exact b = true) (hf : finite b = true) : b % 2 ^ 63 ≤ maxF32 := by
  simp only [f32exact, finite, fExp, fMan, maxF32, Bool.and_eq_true, decide_eq_true_eq, bne_iff_ne, ne_eq] at h hf ⊢
  obtain ⟨hb, h⟩ := h
  simp only [Nat.reducePow] at h hf hb ⊢
  by_cases c1 : b / 4503599627370496 % 2048 = 0 ∨ b / 4503599627370496 % 2048 = 2047
  · rcases c1 with c1 | c1
    · simp [c1] at h; omega
    · exact absurd c1 hf
  · have c1' := not_or.mp c1
    by_cases c2 : 897 ≤ b / 4503599627370496 % 2048 ∧ b / 4503599627370496 % 2048 ≤ 1150
    · simp [c1'.1, c1'.2, c2.1, c2.2] at h; omega
    · by_cases c3 : 874 ≤ b / 4503599627370496 % 2048 ∧ b / 4503599627370496 % 2048 ≤ 896
      · omega
      · simp [c1'.1, c1'.2] at h
        split at h
        · rename_i hc; exact absurd ⟨of_decide_eq_true hc.1, of_decide_eq_true hc.2⟩ c2
        · exact absurd ⟨of_decide_eq_true h.1.1, of_decide_eq_true h.1.2⟩ c3

theorem scalar_ta {t : GoTy} {v : GoVal} (ht : scalarTy t = true) (hv : scalarHasType t v = true)
    (ho : TaOK true t v = true) : inst (typeOf t) (wrapScalar t v) = true := by
  cases t <;> simp [scalarTy] at ht <;> cases v <;> simp [scalarHasType] at hv <;> simp [wrapScalar, typeOf]
  · rcases okWidth_cases ht with rfl | rfl | rfl | rfl | rfl <;> simp [bitsOf, minI64, maxI64, inst] at hv ⊢ <;> omega
  · simp [TaOK] at ho
    rcases okWidth_cases ht with rfl | rfl | rfl | rfl | rfl <;> simp [bitsOf, maxI64, u2i, inst] at hv ⊢ <;> split <;> omega
  · simp [TaOK] at ho
    rcases ht with rfl | rfl
    · simp at hv; simpa [inst] using f32_in_range hv ho
    · simpa [inst] using ho
  · simp [inst]
  · simp [inst]

theorem TaOK_scalar_via {t : GoTy} (ht : scalarTy t = true) (via : Bool) (v : GoVal) : TaOK via t v = TaOK true t v := by
  cases t <;> simp [scalarTy] at ht <;> cases v <;> simp [TaOK]

theorem ta_main : ∀ (ty : GoTy) (via : Bool) (v : GoVal), Modelled ty = true → hasType ty v = true →
    TaOK via ty v = true → inst (typeOf ty) (wrap via ty v) = true := by
  intro ty
  induction ty with
  | int w => intro via v hm hv ho; simpa [wrap] using scalar_ta (t := .int w) (by simpa [Modelled, scalarTy] using hm) (by simpa [hasType] using hv) (by rwa [← TaOK_scalar_via (by simpa [Modelled, scalarTy] using hm)])
  | uint w => intro via v hm hv ho; simpa [wrap] using scalar_ta (t := .uint w) (by simpa [Modelled, scalarTy] using hm) (by simpa [hasType] using hv) (by rwa [← TaOK_scalar_via (by simpa [Modelled, scalarTy] using hm)])
  | float w => intro via v hm hv ho; simpa [wrap] using scalar_ta (t := .float w) (by simpa [Modelled, scalarTy] using hm) (by simpa [hasType] using hv) (by rwa [← TaOK_scalar_via (by simpa [Modelled, scalarTy] using hm)])
  | string => intro via v _ hv _; simpa [wrap] using scalar_ta (t := .string) rfl (by simpa [hasType] using hv) (by cases v <;> simp [TaOK])
  | bool => intro via v _ hv _; simpa [wrap] using scalar_ta (t := .bool) rfl (by simpa [hasType] using hv) (by cases v <;> simp [TaOK])
  | iface => intro via v _ _ _; simp [typeOf, inst]
  | slice e ih =>
      intro via v hm hv ho
      cases v <;> simp [hasType] at hv
      · simp [TaOK] at ho
        obtain ⟨rfl, hn⟩ := ho
        have h8 : e ≠ .uint 8 := by rintro rfl; simp [nilToEmptySlice] at hn
        simp [wrap, h8, hn, typeOf, inst]
      · rename_i es
        simp [TaOK] at ho
        have hw : wrap via (.slice e) (.slice es) = .arr (es.map (wrap true e)) := by
          cases via <;> simp_all [wrap]
        rw [hw]
        simp only [typeOf, inst, List.all_map, List.all_eq_true, Function.comp]
        intro x hx
        exact ih true x (by simpa [Modelled] using hm) (hv x hx) (ho.2 x hx)
  | array n e ih =>
      intro via v hm hv ho
      cases v <;> simp [hasType] at hv
      rename_i es
      simp [TaOK] at ho
      simp only [wrap, typeOf, inst, List.all_map, List.all_eq_true, Function.comp]
      intro x hx
      exact ih true x (by simpa [Modelled] using hm) (hv.2 x hx) (ho x hx)
  | map k v ihk ihv =>
      intro via x hm hv ho
      simp [Modelled] at hm
      have hk : Modelled k = true := by cases k <;> simp_all [keyTy, Modelled]
      cases x <;> simp [hasType] at hv
      · simp [TaOK] at ho
        simp [wrap, ho.1, ho.2, typeOf, inst]
      · rename_i es
        simp [TaOK] at ho
        simp only [wrap, typeOf, inst, List.all_eq_true]
        intro y hy
        obtain ⟨e, he, rfl⟩ := List.mem_map.mp (mem_sortEntries.mp hy)
        simp only [Bool.and_eq_true]
        exact ⟨ihk true e.1 hk (hv.1 e.1 e.2 he).1 (ho e.1 e.2 he).1, ihv true e.2 hm.2 (hv.1 e.1 e.2 he).2 (ho e.1 e.2 he).2⟩
  | ptr e ih =>
      intro via v hm hv ho
      cases v <;> simp [hasType] at hv
      · simp [wrap, typeOf, inst]
      · rename_i x
        have hme : Modelled e = true := by simp [Modelled] at hm; exact hm.2
        by_cases hs : isStruct e = true
        · rw [wrap_ptr_struct via x hs]
          cases e <;> simp [isStruct] at hs <;> simp [typeOf, inst]
        · have hs' : isStruct e = false := by simpa using hs
          rw [wrap_ptr_plain via x hs']
          simp only [typeOf]
          by_cases hx : x = .nil
          · subst hx
            cases e <;> simp [hasType, scalarHasType, Modelled, isStruct] at hv hm hs' <;> simp [wrap, inst]
          · have ho' : TaOK false e x = true := by cases x <;> simp_all [TaOK]
            exact inst_opt (ih false x hme hv ho')
  | snil => intro via v _ _ _; simp [wrap, typeOf, inst]
  | scons n tg ft rest _ _ => intro via v _ _ _; simp [wrap, typeOf, inst]

/-! ### exactness: the exclusions are necessary (converses) -/

theorem mapOpt_map_inv {α β : Type} (f : α → Option β) (g : β → α) :
    ∀ l : List β, mapOpt f (l.map g) = some l → ∀ x ∈ l, f (g x) = some x
  | [], _ => by simp
  | x :: l, h => by
      simp only [List.map_cons, mapOpt] at h
      cases h1 : f (g x) with
      | none => simp [h1] at h
      | some b =>
        cases h2 : mapOpt f (l.map g) with
        | none => simp [h1, h2] at h
        | some bs =>
          simp [h1, h2] at h
          obtain ⟨rfl, rfl⟩ := h
          intro y hy
          rcases List.mem_cons.mp hy with rfl | hy'
          · exact h1
          · exact mapOpt_map_inv f g _ h2 y hy'

theorem scalar_RtOK {t : GoTy} (ht : scalarTy t = true) (via : Bool) (v : GoVal) : RtOK via t v = true := by
  cases t <;> simp [scalarTy] at ht <;> cases v <;> simp [RtOK]

theorem sortedKeys_congr : ∀ (l l' : List (GoVal × GoVal)), l.map (·.1) = l'.map (·.1) → sortedKeys l = sortedKeys l'
  | [], [], _ => rfl
  | [], _ :: _, h => by simp at h
  | _ :: _, [], h => by simp at h
  | [a], [b], _ => rfl
  | [a], _ :: _ :: _, h => by simp at h
  | _ :: _ :: _, [b], h => by simp at h
  | a :: b :: r, a' :: b' :: r', h => by
      simp only [List.map_cons, List.cons.injEq] at h
      have ih := sortedKeys_congr (b :: r) (b' :: r') (by simp [h.2.1, h.2.2])
      simp only [sortedKeys, h.1, h.2.1, ih]

section
variable (r32 : Nat → Nat) (hr : ∀ b, f32exact b = true → r32 b = b)
include hr

/-- keys always come back (their types are scalars), so the entry list rebuilt from `es.map W` has the keys of `es` -/
theorem entries_keys (k v : GoTy) (hk : keyTy k = true) : ∀ (es l₂ : List (GoVal × GoVal)),
    (∀ e ∈ es, hasType k e.1 = true) →
    mapOpt (fun kv : Val × Val => pairOpt (reflectTo r32 k kv.1) (reflectTo r32 v kv.2))
      (es.map fun kv => (wrap true k kv.1, wrap true v kv.2)) = some l₂ →
    l₂.map (·.1) = es.map (·.1)
  | [], l₂, _, h => by simp [mapOpt] at h; subst h; rfl
  | e :: es, l₂, ht, h => by
      simp only [List.map_cons, mapOpt] at h
      have hkm : Modelled k = true := by cases k <;> simp_all [keyTy, Modelled]
      have hkey := rt_main r32 hr k true e.1 hkm (ht e (by simp)) (keyTy_RtOK hk _ _)
      rw [hkey] at h
      cases h2 : reflectTo r32 v (wrap true v e.2) with
      | none => rw [h2] at h; simp [pairOpt] at h
      | some b =>
        rw [h2] at h
        cases h3 : mapOpt (fun kv : Val × Val => pairOpt (reflectTo r32 k kv.1) (reflectTo r32 v kv.2))
            (es.map fun kv => (wrap true k kv.1, wrap true v kv.2)) with
        | none => rw [h3] at h; simp [pairOpt] at h
        | some bs =>
          rw [h3] at h
          simp [pairOpt] at h
          subst h
          have ih := entries_keys k v hk es bs (fun e' he' => ht e' (by simp [he'])) h3
          simp [ih]

theorem rt_conv : ∀ (ty : GoTy) (via : Bool) (v : GoVal), Modelled ty = true → hasType ty v = true →
    reflectTo r32 ty (wrap via ty v) = some v → RtOK via ty v = true := by
  intro ty
  induction ty with
  | int w => intro via v hm _ _; exact scalar_RtOK (by simpa [Modelled, scalarTy] using hm) _ _
  | uint w => intro via v hm _ _; exact scalar_RtOK (by simpa [Modelled, scalarTy] using hm) _ _
  | float w => intro via v hm _ _; exact scalar_RtOK (by simpa [Modelled, scalarTy] using hm) _ _
  | string => intro via v _ _ _; exact scalar_RtOK rfl _ _
  | bool => intro via v _ _ _; exact scalar_RtOK rfl _ _
  | iface =>
      intro via v _ hv h
      cases v <;> simp [hasType] at hv
      · simp [RtOK]
      · rename_i t x
        cases via
        · simp [RtOK]
        · cases t <;> simp [scalarTy] at hv <;> cases x <;> simp [scalarHasType] at hv <;>
            simp [wrap, wrapScalar, reflectTo] at h <;> simp [RtOK, h]
  | slice e ih =>
      intro via v hm hv h
      cases v <;> simp [hasType] at hv
      · by_cases hs : via = true ∧ nilToEmptySlice e = true
        · obtain ⟨rfl, hn⟩ := hs
          have h8 : e ≠ .uint 8 := by rintro rfl; simp [nilToEmptySlice] at hn
          simp [wrap, h8, hn, reflectTo, mapOpt] at h
        · cases via <;> simp_all [RtOK]
      · rename_i es
        simp only [RtOK, List.all_eq_true]
        by_cases h8 : via = true ∧ e = .uint 8
        · obtain ⟨rfl, rfl⟩ := h8
          intro x _; exact scalar_RtOK rfl _ _
        · have hw : wrap via (.slice e) (.slice es) = .arr (es.map (wrap true e)) := by
            cases via <;> simp_all [wrap]
          rw [hw] at h
          simp only [reflectTo] at h
          cases hmo : mapOpt (reflectTo r32 e) (es.map (wrap true e)) with
          | none => simp [hmo] at h
          | some l =>
            simp [hmo] at h
            subst h
            intro x hx
            exact ih true x (by simpa [Modelled] using hm) (hv x hx) (mapOpt_map_inv _ _ _ hmo x hx)
  | array n e ih =>
      intro via v hm hv h
      cases v <;> simp [hasType] at hv
      rename_i es
      simp only [RtOK, List.all_eq_true]
      simp only [wrap, reflectTo, List.length_map, hv.1, if_true] at h
      cases hmo : mapOpt (reflectTo r32 e) (es.map (wrap true e)) with
      | none => simp [hmo] at h
      | some l =>
        simp [hmo] at h
        subst h
        intro x hx
        exact ih true x (by simpa [Modelled] using hm) (hv.2 x hx) (mapOpt_map_inv _ _ _ hmo x hx)
  | map k v ihk ihv =>
      intro via x hm hv h
      simp [Modelled] at hm
      cases x <;> simp [hasType] at hv
      · by_cases hs : via = true ∧ nilToEmptyMap k v = true
        · obtain ⟨rfl, hn⟩ := hs
          simp [wrap, hn, reflectTo, mapOpt] at h
        · cases via <;> simp_all [RtOK]
      · rename_i es
        simp only [RtOK, List.all_eq_true]
        simp only [wrap, reflectTo] at h
        cases hS : mapOpt (fun kv : Val × Val => pairOpt (reflectTo r32 k kv.1) (reflectTo r32 v kv.2))
            (sortEntries (es.map fun kv => (wrap true k kv.1, wrap true v kv.2))) with
        | none => simp [hS] at h
        | some l₁ =>
          simp [hS] at h
          -- the same entries in the original order
          obtain ⟨l₂, h2, p2⟩ := mapOpt_perm _ (sortEntries_perm (es.map fun kv => (wrap true k kv.1, wrap true v kv.2))).symm l₁ hS
          have hkeys := entries_keys r32 hr k v hm.1 es l₂ (fun e he => (hv.1 e.1 e.2 he).1) h2
          have hsort : sortedKeys l₂ = true := by rw [sortedKeys_congr l₂ es hkeys]; exact hv.2
          have : mapOf l₁ = l₂ := mapOf_perm_sorted p2.symm hsort
          rw [this] at h
          subst h
          intro e he
          have hpt := mapOpt_map_inv _ _ _ h2 e he
          simp only at hpt
          cases hb : reflectTo r32 v (wrap true v e.2) with
          | none => simp [hb, pairOpt] at hpt
          | some b =>
            cases h1 : reflectTo r32 k (wrap true k e.1) with
            | none => simp [h1, pairOpt] at hpt
            | some a =>
              simp [h1, hb, pairOpt] at hpt
              have : b = e.2 := by rw [← hpt]
              exact ihv true e.2 hm.2 (hv.1 e.1 e.2 he).2 (by rw [hb, this])
  | ptr e ih =>
      intro via v hm hv h
      cases v <;> simp [hasType] at hv
      · simp [RtOK]
      · rename_i x
        have hme : Modelled e = true := by simp [Modelled] at hm; exact hm.2
        by_cases hs : isStruct e = true
        · have hx := struct_hasType_ne_nil hs hv
          cases e <;> simp [isStruct] at hs <;> cases x <;> simp_all [RtOK]
        · have hs' : isStruct e = false := by simpa using hs
          rw [wrap_ptr_plain via x hs'] at h
          by_cases hx : x = .nil
          · subst hx
            cases e <;> simp [hasType, scalarHasType, Modelled, isStruct] at hv hm hs' <;> simp [wrap, reflectTo] at h
          · obtain ⟨s1, s2, s3, s4⟩ := wrap_false_shape hm hv hx hs'
            rw [reflectTo_ptr r32 hm s1 s2 s3 s4 hs'] at h
            cases hb : reflectTo r32 e (wrap false e x) with
            | none => simp [hb] at h
            | some b =>
              simp [hb] at h
              subst h
              have := ih false b hme hv hb
              cases b <;> simp_all [RtOK]
  | snil => intro via v _ _ _; cases v <;> simp [RtOK]
  | scons n tg ft rest _ _ => intro via v _ _ _; cases v <;> simp [RtOK]
end

theorem inst_opt_of_ne {t : Ty} {w : Val} (h : w ≠ .undef) : inst (.opt t) w = inst t w := by
  cases w <;> simp_all [inst]

theorem scalar_ta_conv {t : GoTy} {v : GoVal} (ht : scalarTy t = true) (hv : scalarHasType t v = true) (via : Bool)
    (h : inst (typeOf t) (wrapScalar t v) = true) : TaOK via t v = true := by
  cases t <;> simp [scalarTy] at ht <;> cases v <;> simp [scalarHasType] at hv <;> simp [TaOK]
  · -- uint
    rcases okWidth_cases ht with rfl | rfl | rfl | rfl | rfl <;>
      simp [bitsOf, maxI64, u2i, inst, wrapScalar, typeOf] at hv h ⊢ <;> (try split at h) <;> omega
  · -- float
    rcases ht with rfl | rfl
    · simp [wrapScalar, typeOf, inst, maxF32] at h
      simp only [if_true, finite, fExp, bne_iff_ne, ne_eq]
      simp only [Nat.reducePow] at h ⊢
      have h' := of_decide_eq_true h
      omega
    · simp only [show (64 : Nat) ≠ 32 by decide, if_false] at hv ⊢
      exact hv.2

theorem ta_conv : ∀ (ty : GoTy) (via : Bool) (v : GoVal), Modelled ty = true → hasType ty v = true →
    inst (typeOf ty) (wrap via ty v) = true → TaOK via ty v = true := by
  intro ty
  induction ty with
  | int w => intro via v hm hv h; exact scalar_ta_conv (t := .int w) (by simpa [Modelled, scalarTy] using hm) (by simpa [hasType] using hv) via (by simpa [wrap] using h)
  | uint w => intro via v hm hv h; exact scalar_ta_conv (t := .uint w) (by simpa [Modelled, scalarTy] using hm) (by simpa [hasType] using hv) via (by simpa [wrap] using h)
  | float w => intro via v hm hv h; exact scalar_ta_conv (t := .float w) (by simpa [Modelled, scalarTy] using hm) (by simpa [hasType] using hv) via (by simpa [wrap] using h)
  | string => intro via v _ hv h; exact scalar_ta_conv (t := .string) rfl (by simpa [hasType] using hv) via (by simpa [wrap] using h)
  | bool => intro via v _ hv h; exact scalar_ta_conv (t := .bool) rfl (by simpa [hasType] using hv) via (by simpa [wrap] using h)
  | iface => intro via v _ _ _; cases v <;> simp [TaOK]
  | slice e ih =>
      intro via v hm hv h
      cases v <;> simp [hasType] at hv
      · by_cases h8 : via = true ∧ e = .uint 8
        · obtain ⟨rfl, rfl⟩ := h8; simp [wrap, typeOf, inst] at h
        · by_cases hs : via = true ∧ nilToEmptySlice e = true
          · simp [TaOK, hs.1, hs.2]
          · have : wrap via (.slice e) .nil = .undef := by cases via <;> simp_all [wrap]
            rw [this] at h; simp [typeOf, inst] at h
      · rename_i es
        by_cases h8 : via = true ∧ e = .uint 8
        · obtain ⟨rfl, rfl⟩ := h8; simp [wrap, typeOf, inst] at h
        · have hw : wrap via (.slice e) (.slice es) = .arr (es.map (wrap true e)) := by
            cases via <;> simp_all [wrap]
          rw [hw] at h
          simp only [typeOf, inst, List.all_map, List.all_eq_true, Function.comp] at h
          have h8' : (via && decide (e = .uint 8)) = false := by cases via <;> simp_all
          simp only [TaOK, h8', Bool.not_false, Bool.true_and, List.all_eq_true]
          intro x hx
          exact ih true x (by simpa [Modelled] using hm) (hv x hx) (h x hx)
  | array n e ih =>
      intro via v hm hv h
      cases v <;> simp [hasType] at hv
      rename_i es
      simp only [wrap, typeOf, inst, List.all_map, List.all_eq_true, Function.comp] at h
      simp only [TaOK, List.all_eq_true]
      intro x hx
      exact ih true x (by simpa [Modelled] using hm) (hv.2 x hx) (h x hx)
  | map k v ihk ihv =>
      intro via x hm hv h
      simp [Modelled] at hm
      have hk : Modelled k = true := by cases k <;> simp_all [keyTy, Modelled]
      cases x <;> simp [hasType] at hv
      · by_cases hs : via = true ∧ nilToEmptyMap k v = true
        · simp [TaOK, hs.1, hs.2]
        · have : wrap via (.map k v) .nil = .undef := by cases via <;> simp_all [wrap]
          rw [this] at h; simp [typeOf, inst] at h
      · rename_i es
        simp only [wrap, typeOf, inst, List.all_eq_true] at h
        simp only [TaOK, List.all_eq_true, Bool.and_eq_true]
        intro e he
        have := h (wrap true k e.1, wrap true v e.2) (mem_sortEntries.mpr (List.mem_map.mpr ⟨e, he, rfl⟩))
        simp only [Bool.and_eq_true] at this
        exact ⟨ihk true e.1 hk (hv.1 e.1 e.2 he).1 this.1, ihv true e.2 hm.2 (hv.1 e.1 e.2 he).2 this.2⟩
  | ptr e ih =>
      intro via v hm hv h
      cases v <;> simp [hasType] at hv
      · simp [TaOK]
      · rename_i x
        have hme : Modelled e = true := by simp [Modelled] at hm; exact hm.2
        by_cases hs : isStruct e = true
        · have hx := struct_hasType_ne_nil hs hv
          cases e <;> simp [isStruct] at hs <;> cases x <;> simp_all [TaOK]
        · have hs' : isStruct e = false := by simpa using hs
          rw [wrap_ptr_plain via x hs'] at h
          by_cases hx : x = .nil
          · subst hx; simp [TaOK]
          · obtain ⟨s1, _⟩ := wrap_false_shape hm hv hx hs'
            simp only [typeOf] at h
            rw [inst_opt_of_ne s1] at h
            have := ih false x hme hv h
            cases x <;> simp_all [TaOK]
  | snil => intro via v _ _ _; cases v <;> simp [TaOK]
  | scons n tg ft rest _ _ => intro via v _ _ _; cases v <;> simp [TaOK]

end Pcore.ReflectN
