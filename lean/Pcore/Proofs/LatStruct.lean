import Pcore.Proofs.LatAsgEq
set_option linter.unusedSimpArgs false
set_option linter.unusedVariables false
/-! The counting argument of `StructType.IsAssignable(Struct)`. -/
namespace Pcore.Lat
variable (cfg : Cfg) (sfh : Bool)

def nameIs (n : String) (m : Member) : Bool := n == m.1

theorem nameIs_iff (n : String) (m : Member) : nameIs n m = true ↔ m.1 = n := by
  unfold nameIs
  constructor
  · intro h; exact (beq_iff_eq.1 h).symm
  · intro h; exact beq_iff_eq.2 h.symm

/-- names pairwise different -/
def NamesNodup (ms : List Member) : Prop := (ms.map (·.1)).Nodup

theorem NamesNodup.count_le {ms : List Member} (h : NamesNodup ms) (n : String) : ms.countP (nameIs n) ≤ 1 := by
  induction ms with
  | nil => simp
  | cons m ms ih =>
    simp only [NamesNodup, List.map_cons, List.nodup_cons] at h
    rw [List.countP_cons]
    have := ih h.2
    cases hm : nameIs n m with
    | false => simp; exact this
    | true =>
      have h0 : ms.countP (nameIs n) = 0 := by
        apply List.countP_eq_zero.2
        intro m' hm' hc
        rw [nameIs_iff] at hm hc
        exact h.1 (by rw [hm, ← hc]; exact List.mem_map_of_mem hm')
      simp [h0]

theorem structMember_none (n : String) (o : Bool) (t : Ty) (ms' : List Member) :
    structMember cfg sfh n o t ms' = none ↔ ms'.countP (nameIs n) = 0 := by
  induction ms' with
  | nil => unfold structMember; simp
  | cons m ms ih =>
    obtain ⟨n', o', t'⟩ := m
    unfold structMember
    rw [List.countP_cons]
    have hk : (n == n') = nameIs n (n', o', t') := rfl
    cases hs : structMember cfg sfh n o t ms with
    | some r =>
      have : ms.countP (nameIs n) ≠ 0 := fun hc => by rw [ih.2 hc] at hs; cases hs
      constructor
      · intro h; cases h
      · intro h; omega
    | none =>
      rw [ih.1 hs, hk]
      cases hh : nameIs n (n', o', t') <;> simp

theorem structMember_mem (n : String) (o : Bool) (t : Ty) (ms' : List Member) (hn : NamesNodup ms')
    (m' : Member) (hm : m' ∈ ms') (hk : m'.1 = n) :
    structMember cfg sfh n o t ms' = some ((o || !m'.2.1) && asg cfg sfh t m'.2.2) := by
  induction ms' with
  | nil => cases hm
  | cons m ms ih =>
    obtain ⟨n', o', t'⟩ := m
    have hn' : NamesNodup ms := by simp only [NamesNodup, List.map_cons, List.nodup_cons] at hn; exact hn.2
    unfold structMember
    have hc := hn.count_le n
    rw [List.countP_cons] at hc
    cases hm with
    | head =>
      have h1 : nameIs n (n', o', t') = true := (nameIs_iff _ _).2 hk
      have h0 : ms.countP (nameIs n) = 0 := by simp only [h1, if_true] at hc; omega
      rw [(structMember_none cfg sfh n o t ms).2 h0]
      have : (n == n') = true := h1
      simp [this]
    | tail _ hm' =>
      rw [ih hn' hm']

theorem structMember_some (n : String) (o : Bool) (t : Ty) (ms' : List Member) (b : Bool)
    (h : structMember cfg sfh n o t ms' = some b) :
    ∃ m' ∈ ms', m'.1 = n ∧ b = ((o || !m'.2.1) && asg cfg sfh t m'.2.2) := by
  induction ms' with
  | nil => unfold structMember at h; cases h
  | cons m ms ih =>
    obtain ⟨n', o', t'⟩ := m
    unfold structMember at h
    cases hs : structMember cfg sfh n o t ms with
    | some r =>
      rw [hs] at h; simp at h; subst h
      obtain ⟨m', hm', h1, h2⟩ := ih hs
      exact ⟨m', by simp [hm'], h1, h2⟩
    | none =>
      rw [hs] at h
      simp only [] at h
      by_cases hnn : (n == n') = true
      · simp [hnn] at h
        exact ⟨(n', o', t'), by simp, (beq_iff_eq.1 hnn).symm, h.symm⟩
      · simp [hnn] at h

def sFound (ms ms' : List Member) : Nat :=
  match ms with
  | [] => 0
  | m :: ms => ms'.countP (nameIs m.1) + sFound ms ms'

def SMemberOK (ms' : List Member) (m : Member) : Prop :=
  match structMember cfg sfh m.1 m.2.1 m.2.2 ms' with
  | none => m.2.1 = true
  | some b => b = true

theorem structAll_iff (ms ms' : List Member) (hn : NamesNodup ms') (k : Nat) :
    structAll cfg sfh ms ms' = some k ↔ (∀ m ∈ ms, SMemberOK cfg sfh ms' m) ∧ k = sFound ms ms' := by
  induction ms generalizing k with
  | nil => unfold structAll; simp [sFound]; exact eq_comm
  | cons m ms ih =>
    obtain ⟨n, o, t⟩ := m
    unfold structAll
    rw [List.forall_mem_cons]
    simp only [sFound]
    cases hg : structMember cfg sfh n o t ms' with
    | none =>
      have h0 := (structMember_none cfg sfh n o t ms').1 hg
      have hm : SMemberOK cfg sfh ms' (n, o, t) ↔ o = true := by simp [SMemberOK, hg]
      rw [hm]
      simp only [h0, Nat.zero_add]
      cases o with
      | true => simp [ih]
      | false => simp
    | some b =>
      obtain ⟨m', hm', hk, _⟩ := structMember_some cfg sfh n o t ms' b hg
      have h1 : ms'.countP (nameIs n) = 1 := by
        have := hn.count_le n
        have hpos : 0 < ms'.countP (nameIs n) := List.countP_pos_iff.2 ⟨m', hm', (nameIs_iff n m').2 hk⟩
        omega
      have hm : SMemberOK cfg sfh ms' (n, o, t) ↔ b = true := by simp [SMemberOK, hg]
      rw [hm]
      simp only [h1]
      cases b with
      | false => simp
      | true =>
        simp only [Option.map_eq_some_iff, true_and]
        constructor
        · rintro ⟨k', hk', rfl⟩
          obtain ⟨h2, h3⟩ := (ih k').1 hk'
          exact ⟨h2, by omega⟩
        · rintro ⟨h2, h3⟩
          refine ⟨sFound ms ms', (ih _).2 ⟨h2, rfl⟩, by omega⟩

def nameIn (ms : List Member) (m' : Member) : Bool := ms.any (fun m => nameIs m.1 m')

theorem sFound_eq (ms ms' : List Member) (hnd : NamesNodup ms) :
    sFound ms ms' = ms'.countP (nameIn ms) := by
  induction ms with
  | nil =>
    show 0 = _
    symm; apply List.countP_eq_zero.2; intro e _; simp [nameIn]
  | cons m ms ih =>
    simp only [NamesNodup, List.map_cons, List.nodup_cons] at hnd
    rw [sFound, ih hnd.2]
    clear ih
    induction ms' with
    | nil => simp
    | cons e es ihe =>
      simp only [List.countP_cons]
      have hdis : nameIs m.1 e = true → nameIn ms e = false := by
        intro h1
        cases h2 : nameIn ms e with
        | false => rfl
        | true =>
          exfalso
          simp only [nameIn, List.any_eq_true] at h2
          obtain ⟨m', hm', hk'⟩ := h2
          rw [nameIs_iff] at h1 hk'
          exact hnd.1 (by rw [← h1, hk']; exact List.mem_map_of_mem hm')
      have hor : nameIn (m :: ms) e = (nameIs m.1 e || nameIn ms e) := by simp [nameIn]
      rw [hor]
      cases h1 : nameIs m.1 e with
      | true => simp [hdis h1]; omega
      | false => simp; omega

theorem distinctCount_nodup (l : List String) (h : l.Nodup) : distinctCount l = l.length := by
  induction l with
  | nil => rfl
  | cons a as ih =>
    simp only [List.nodup_cons] at h
    simp [distinctCount, h.1, ih h.2]; omega

end Pcore.Lat
