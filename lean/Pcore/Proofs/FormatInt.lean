import Pcore.Proofs.FormatDigits
import Mathlib.Tactic.Tauto
/-! Integer rendering: Go's fmt integer verbs (as modelled by `goInteger`) against an independently written printf
    reference `cRef`; reading a radix rendering back. -/
namespace Pcore.Format

/-! ### digit characters -/

theorem digitChar_zero_iff (u : Bool) : ∀ d, d < 16 → (digitChar u d = '0' ↔ d = 0) := by
  cases u <;> decide

theorem natStr_length_pos (b : Nat) (u : Bool) (n : Nat) : 0 < (natStr b u n).length := by
  have := toDigits_ne_nil b n
  simp [natStr]
  exact List.length_pos_iff.mpr this

theorem natStr_ne_nil (b : Nat) (u : Bool) (n : Nat) : natStr b u n ≠ [] := by
  have := natStr_length_pos b u n
  intro h; rw [h] at this; simp at this

theorem natStr_zero (b : Nat) (hb : 2 ≤ b) (u : Bool) : natStr b u 0 = ['0'] := by
  simp [natStr, toDigits_zero b hb, digitChar]

/-- a positive number has no leading '0' -/
theorem natStr_head (b : Nat) (hb : 2 ≤ b) (hb16 : b ≤ 16) (u : Bool) (n : Nat) (hn : 0 < n) :
    (natStr b u n).head? ≠ some '0' := by
  have h1 := toDigits_head b hb n hn
  have h2 := toDigits_lt b hb n
  unfold natStr
  cases hd : toDigits b n with
  | nil => simp
  | cons x xs =>
    rw [hd] at h1 h2
    simp at h1 ⊢
    have hx : x < 16 := by have := h2 x (by simp); omega
    intro h; exact h1 ((digitChar_zero_iff u x hx).mp h)

/-! ### the reference -/

def cBase (c : Char) : Nat := if c = 'x' ∨ c = 'X' then 16 else if c = 'o' then 8 else if c = 'b' ∨ c = 'B' then 2 else 10

/-- The printf reference for `d x X o` (and `b B`, C23), written from C99 7.19.6.1 with one convention: all four conversions are
    signed (sign and magnitude, as Ruby/Puppet print with an explicit sign).  The directive is given as the record
    of its flags, width, precision and letter. -/
def cRef (g : GoSpec) (i : Int) : Str :=
  let mag := i.natAbs
  -- "The result of converting a zero value with a precision of zero is no characters."
  let digits : Str := if mag = 0 ∧ g.prec = some 0 then [] else natStr (cBase g.verb) (g.verb = 'X') mag
  -- "The precision specifies the minimum number of digits to appear"
  let digits := match g.prec with
    | some p => zeros (p - digits.length) ++ digits
    | none => digits
  -- "#: for x (or X) conversion, a nonzero result has 0x (or 0X) prefixed to it" (likewise 0b, 0B: C23)
  let pfx : Str := if g.sharp ∧ (g.verb = 'x' ∨ g.verb = 'X' ∨ g.verb = 'b' ∨ g.verb = 'B') ∧ mag ≠ 0 then ['0', g.verb] else []
  -- "#: for o conversion, it increases the precision, if and only if necessary, to force the first digit of the
  --  result to be a zero (if the value and precision are both 0, a single 0 is printed)"
  let digits := if g.sharp ∧ g.verb = 'o' ∧ digits.head? ≠ some '0' then '0' :: digits else digits
  -- "+: always begins with a plus or minus sign; space: … if the space and + flags both appear, the space flag is ignored"
  let sign : Str := if i < 0 then ['-'] else if g.plus then ['+'] else if g.space then [' '] else []
  let n := sign.length + pfx.length + digits.length
  match g.wid with
  | none => sign ++ pfx ++ digits
  | some w =>
    if w ≤ n then sign ++ pfx ++ digits
    -- "-: left-justified within the field; if the 0 and - flags both appear, the 0 flag is ignored"
    else if g.minus then sign ++ pfx ++ digits ++ spaces (w - n)
    -- "0: leading zeros (following any indication of sign or base) are used to pad to the field width;
    --  if a precision is specified, the 0 flag is ignored"
    else if g.zero ∧ g.prec = none then sign ++ pfx ++ zeros (w - n) ++ digits
    else spaces (w - n) ++ sign ++ pfx ++ digits

/-- where Go's fmt departs from the reference for the value 0 (known finding C20-go-fmt-zero):
    `%#x` of 0 is "0x0", `%#.0o` of 0 is "", `%+.0d` of 0 has no sign -/
def zeroClass (g : GoSpec) (i : Int) : Prop := i = 0 ∧ (g.sharp = true ∨ (g.prec = some 0 ∧ (g.plus = true ∨ g.space = true)))

/-- where Go's fmt departs from the reference for `#` with zero padding (known finding C20-go-fmt-alt-zeropad):
    the zeros fill the whole width and the 0x prefix comes on top -/
def altZeroPad (g : GoSpec) : Prop :=
  g.sharp = true ∧ g.zero = true ∧ g.minus = false ∧ g.prec = none ∧ g.wid.isSome = true ∧ (g.verb = 'x' ∨ g.verb = 'X')

instance (g : GoSpec) (i : Int) : Decidable (zeroClass g i) := by unfold zeroClass; infer_instance
instance (g : GoSpec) : Decidable (altZeroPad g) := by unfold altZeroPad; infer_instance

theorem zeros_succ_append (k : Nat) (l : Str) : zeros k ++ '0' :: l = zeros (k + 1) ++ l := by
  simp [zeros, List.replicate_succ']

theorem goPad_some (minus : Bool) (w : Nat) (s : Str) :
    goPad minus false (some w) s =
      if w ≤ s.length then s else if minus then s ++ spaces (w - s.length) else spaces (w - s.length) ++ s := by
  unfold goPad
  by_cases h : w ≤ s.length
  · have : w - s.length = 0 := by omega
    cases minus <;> simp [h, this, spaces]
  · cases minus <;> simp [h]

/-! ### both sides with the digit string abstracted -/

theorem signStr_length (neg plus space : Bool) :
    (signStr neg plus space).length = if neg || plus || space then 1 else 0 := by
  cases neg <;> cases plus <;> cases space <;> rfl

/-- the reference over an abstract digit string (`digits` = the magnitude's digits, [] for 0 with precision 0) -/
def cAbs (g : GoSpec) (neg nz : Bool) (digits : Str) : Str :=
  let digits := match g.prec with
    | some p => zeros (p - digits.length) ++ digits
    | none => digits
  let pfx : Str := if g.sharp ∧ (g.verb = 'x' ∨ g.verb = 'X' ∨ g.verb = 'b' ∨ g.verb = 'B') ∧ nz then ['0', g.verb] else []
  let digits := if g.sharp ∧ g.verb = 'o' ∧ digits.head? ≠ some '0' then '0' :: digits else digits
  let sign := signStr neg g.plus g.space
  let n := sign.length + pfx.length + digits.length
  match g.wid with
  | none => sign ++ pfx ++ digits
  | some w =>
    if w ≤ n then sign ++ pfx ++ digits
    else if g.minus then sign ++ pfx ++ digits ++ spaces (w - n)
    else if g.zero ∧ g.prec = none then sign ++ pfx ++ zeros (w - n) ++ digits
    else spaces (w - n) ++ sign ++ pfx ++ digits

theorem cRef_eq (g : GoSpec) (i : Int) :
    cRef g i = cAbs g (decide (i < 0)) (decide (i.natAbs ≠ 0))
      (if i.natAbs = 0 ∧ g.prec = some 0 then [] else natStr (cBase g.verb) (g.verb = 'X') i.natAbs) := by
  unfold cRef cAbs signStr
  by_cases hn : i < 0 <;> simp [hn]

/-- finishing tactic: the two sides differ by the arrangement of sums of lengths -/
macro "arith_fin" : tactic => `(tactic| ((try simp only [Nat.add_assoc, Nat.reduceAdd]); (try ac_rfl)))

set_option hygiene false in
/-- the effective zero padding without a prefix: Go fills `w - |sign|` digits, the reference `w - (|sign| + |digits|)` zeros -/
macro "zpad_tac" : tactic => `(tactic| (
  by_cases hsign : (neg = true ∨ plus = true) ∨ space = true
  · have hl : sg.length = 1 := by
      have : (neg || plus || space) = true := by simpa using hsign
      simpa [this] using hs
    simp only [if_pos hsign]
    rw [if_pos (by omega)]
    by_cases hw : w ≤ sg.length + ds0.length
    · rw [if_pos hw]
      have : w - 1 - ds0.length = 0 := by omega
      rw [this]; simp [zeros]
    · rw [if_neg hw]
      have : w - 1 - ds0.length = w - (sg.length + ds0.length) := by omega
      rw [this]
  · have hl : sg.length = 0 := by
      have : ¬ (neg || plus || space) = true := by simpa using hsign
      simpa [this] using hs
    simp only [if_neg hsign]
    rw [if_pos (by omega)]
    by_cases hw : w ≤ sg.length + ds0.length
    · rw [if_pos hw]
      have : w - ds0.length = 0 := by omega
      rw [this]; simp [zeros]
    · rw [if_neg hw]
      have : w - ds0.length = w - (sg.length + ds0.length) := by omega
      rw [this]))

theorem goAbs_cAbs_dec (g : GoSpec) (neg nz : Bool) (ds0 : Str) (hv : g.verb = 'd') (upper : Bool) :
    goAbs g 10 upper neg ds0 = cAbs g neg nz ds0 := by
  obtain ⟨sharp, zero, plus, minus, space, wid, prec, verb⟩ := g
  simp only at hv
  subst hv
  have hs := signStr_length neg plus space
  unfold goAbs cAbs goPrec
  generalize signStr neg plus space = sg at hs ⊢
  cases prec with
  | some p =>
    cases wid with
    | none => simp [goPad]
    | some w => simp [goPad_some]
  | none =>
    cases wid with
    | none => simp [goPad, zeros]
    | some w =>
      cases zero <;> cases minus
      · simp [zeros, goPad_some]
      · simp [zeros, goPad_some]
      · simp [goPad_some]; zpad_tac
      · simp [zeros, goPad_some]

theorem goAbs_cAbs_hex (g : GoSpec) (neg nz : Bool) (ds0 : Str) (upper : Bool)
    (hv : (g.verb = 'x' ∧ upper = false) ∨ (g.verb = 'X' ∧ upper = true))
    (h1 : g.sharp = true → nz = true)
    (h2 : ¬ (g.sharp = true ∧ g.zero = true ∧ g.minus = false ∧ g.prec = none ∧ g.wid.isSome = true)) :
    goAbs g 16 upper neg ds0 = cAbs g neg nz ds0 := by
  obtain ⟨sharp, zero, plus, minus, space, wid, prec, verb⟩ := g
  simp only at hv h1 h2
  have hs := signStr_length neg plus space
  unfold goAbs cAbs goPrec
  generalize signStr neg plus space = sg at hs ⊢
  cases sharp with
  | true =>
    have hnz : nz = true := h1 rfl
    subst hnz
    rcases hv with ⟨hv, hu⟩ | ⟨hv, hu⟩ <;> subst hv <;> subst hu
    all_goals
      cases prec with
      | some p =>
        cases wid with
        | none => simp [goPad]
        | some w => simp [goPad_some]; arith_fin
      | none =>
        cases wid with
        | none => simp [goPad, zeros]
        | some w =>
          cases zero <;> cases minus
          · simp [zeros, goPad_some]; arith_fin
          · simp [zeros, goPad_some]; arith_fin
          · simp at h2
          · simp [zeros, goPad_some]; arith_fin
  | false =>
    rcases hv with ⟨hv, hu⟩ | ⟨hv, hu⟩ <;> subst hv <;> subst hu
    all_goals
      cases prec with
      | some p =>
        cases wid with
        | none => simp [goPad]
        | some w => simp [goPad_some]
      | none =>
        cases wid with
        | none => simp [goPad, zeros]
        | some w =>
          cases zero <;> cases minus
          · simp [zeros, goPad_some]
          · simp [zeros, goPad_some]
          · simp [goPad_some]; zpad_tac
          · simp [zeros, goPad_some]


theorem head_zeros_append (k : Nat) (c : Char) (cs : Str) (hc : c ≠ '0') :
    (zeros k ++ c :: cs).head? = some '0' ↔ 0 < k := by
  cases k with
  | zero => simp [zeros, hc]
  | succ n => simp [zeros, List.replicate_succ]

theorem goPrec_k (neg plus space : Bool) (sg cs : Str) (c : Char) (w : Nat)
    (hs : List.length sg = if (neg || plus || space) = true then 1 else 0) :
    (if (neg || plus || space) = true then w - 1 else w) - (c :: cs).length = (w - sg.length) - (cs.length + 1) := by
  cases hb : (neg || plus || space)
  · rw [hb] at hs; have hl : sg.length = 0 := hs
    simp only [Bool.false_eq_true, if_false, List.length_cons]; omega
  · rw [hb] at hs; have hl : sg.length = 1 := hs
    simp only [if_true, List.length_cons]; omega

theorem goAbs_cAbs_oct_sharp (g : GoSpec) (neg : Bool) (c : Char) (cs : Str) (upper : Bool)
    (hv : g.verb = 'o') (hsharp : g.sharp = true) (hc : c ≠ '0') :
    goAbs g 8 upper neg (c :: cs) = cAbs g neg true (c :: cs) := by
  obtain ⟨sharp, zero, plus, minus, space, wid, prec, verb⟩ := g
  simp only at hv hsharp
  subst hv; subst hsharp
  have hs := signStr_length neg plus space
  unfold goAbs cAbs goPrec
  generalize signStr neg plus space = sg at hs ⊢
  cases prec with
  | some p =>
    simp only [if_true, true_and]
    by_cases hk : 0 < p - (c :: cs).length
    · have h0 := (head_zeros_append (p - (c :: cs).length) c cs hc).mpr hk
      simp only [h0, if_true, ne_eq, not_true_eq_false, if_false]
      cases wid with
      | none => simp [goPad]
      | some w => simp [goPad_some]
    · have hk0 : p - (c :: cs).length = 0 := by omega
      simp only [hk0, zeros, List.replicate_zero, List.nil_append, List.head?_cons, Option.some.injEq, hc, if_false,
        ne_eq, not_false_eq_true, if_true]
      cases wid with
      | none => simp [goPad]
      | some w => simp [goPad_some]
  | none =>
    cases wid with
    | none => simp [goPad, zeros, hc]
    | some w =>
      cases zero <;> cases minus
      · simp [zeros, goPad_some, hc]
      · simp [zeros, goPad_some, hc]
      · simp only [Bool.not_false, Bool.and_self, if_true, true_and, ne_eq]
        generalize hk : (if (neg || plus || space) = true then w - 1 else w) - (c :: cs).length = k
        have hkv : k = (w - sg.length) - (cs.length + 1) := by
          rw [← hk]; exact goPrec_k neg plus space sg cs c w hs
        cases k with
        | zero =>
          simp [zeros, hc, goPad_some]
          have h1 : w ≤ sg.length + (cs.length + 1 + 1) := by omega
          simp [h1]
        | succ n =>
          have h0 := (head_zeros_append (n + 1) c cs hc).mpr (by omega)
          rw [if_pos h0]
          simp [hc, goPad_some]
          rw [if_pos (by omega)]
          by_cases h1 : w ≤ sg.length + (cs.length + 1 + 1)
          · have : n = 0 := by omega
            subst this
            simp [h1, zeros]
          · rw [if_neg h1, zeros_succ_append]
            have : w - (sg.length + (cs.length + 1 + 1)) + 1 = n + 1 := by omega
            rw [this]
      · simp [zeros, goPad_some, hc]

theorem goAbs_cAbs_oct_plain (g : GoSpec) (neg nz : Bool) (ds0 : Str) (upper : Bool)
    (hv : g.verb = 'o') (hsharp : g.sharp = false) :
    goAbs g 8 upper neg ds0 = cAbs g neg nz ds0 := by
  obtain ⟨sharp, zero, plus, minus, space, wid, prec, verb⟩ := g
  simp only at hv hsharp
  subst hv; subst hsharp
  have hs := signStr_length neg plus space
  unfold goAbs cAbs goPrec
  generalize signStr neg plus space = sg at hs ⊢
  cases prec with
  | some p =>
    cases wid with
    | none => simp [goPad]
    | some w => simp [goPad_some]
  | none =>
    cases wid with
    | none => simp [goPad, zeros]
    | some w =>
      cases zero <;> cases minus
      · simp [zeros, goPad_some]
      · simp [zeros, goPad_some]
      · simp [goPad_some]; zpad_tac
      · simp [zeros, goPad_some]

/-- the verbs pcore hands to fmt for an integer, with the base and digit case fmt uses for them -/
def verbBase (c : Char) : Option (Nat × Bool) :=
  if c = 'd' then some (10, false) else if c = 'x' then some (16, false) else if c = 'X' then some (16, true)
  else if c = 'o' then some (8, false) else none

/-- **Go's fmt integer rendering equals the printf reference**, for every operand, every flag combination, width and
    precision, outside the two classes where fmt departs from the reference (known findings) -/
theorem goInteger_eq_cRef (g : GoSpec) (i : Int) (base : Nat) (upper : Bool)
    (hv : verbBase g.verb = some (base, upper)) (h1 : ¬ zeroClass g i) (h2 : ¬ altZeroPad g) :
    goInteger g base upper i = cRef g i := by
  rw [cRef_eq]
  unfold goInteger
  have hnz : g.sharp = true → i.natAbs ≠ 0 := by
    intro hs h0
    exact h1 ⟨by omega, Or.inl hs⟩
  by_cases hz : g.prec = some 0 ∧ i.natAbs = 0
  · -- nothing but padding on both sides
    rw [if_pos hz, if_pos ⟨hz.2, hz.1⟩]
    have hi : i = 0 := by omega
    have hsharp : g.sharp = false := by
      cases hs : g.sharp with
      | false => rfl
      | true => exact absurd hz.2 (hnz hs)
    have hplus : g.plus = false := by
      cases hp : g.plus with
      | false => rfl
      | true => exact absurd ⟨hi, Or.inr ⟨hz.1, Or.inl hp⟩⟩ h1
    have hspace : g.space = false := by
      cases hp : g.space with
      | false => rfl
      | true => exact absurd ⟨hi, Or.inr ⟨hz.1, Or.inr hp⟩⟩ h1
    subst hi
    obtain ⟨sharp, zero, plus, minus, space, wid, prec, verb⟩ := g
    simp only at hsharp hplus hspace hz
    subst hsharp; subst hplus; subst hspace
    rw [hz.1]
    cases wid with
    | none => simp [cAbs, goPad, signStr, zeros]
    | some w => cases minus <;> simp [cAbs, goPad_some, signStr, zeros, spaces]
  · rw [if_neg hz, if_neg (fun h => hz ⟨h.2, h.1⟩)]
    unfold verbBase at hv
    by_cases hd : g.verb = 'd'
    · rw [if_pos hd] at hv; cases hv
      have : cBase g.verb = 10 := by simp [cBase, hd]
      rw [this]
      have hX : decide (g.verb = 'X') = false := by simp [hd]
      rw [hX]
      exact goAbs_cAbs_dec g _ _ _ hd _
    · rw [if_neg hd] at hv
      by_cases hx : g.verb = 'x'
      · rw [if_pos hx] at hv; cases hv
        have : cBase g.verb = 16 := by simp [cBase, hx]
        rw [this]
        have hX : decide (g.verb = 'X') = false := by simp [hx]
        rw [hX]
        exact goAbs_cAbs_hex g _ _ _ false (Or.inl ⟨hx, rfl⟩) (by intro hs; simpa using hnz hs)
          (fun h => h2 ⟨h.1, h.2.1, h.2.2.1, h.2.2.2.1, h.2.2.2.2, Or.inl hx⟩)
      · rw [if_neg hx] at hv
        by_cases hX : g.verb = 'X'
        · rw [if_pos hX] at hv; cases hv
          have : cBase g.verb = 16 := by simp [cBase, hX]
          rw [this]
          have hX' : decide (g.verb = 'X') = true := by simp [hX]
          rw [hX']
          exact goAbs_cAbs_hex g _ _ _ true (Or.inr ⟨hX, rfl⟩) (by intro hs; simpa using hnz hs)
            (fun h => h2 ⟨h.1, h.2.1, h.2.2.1, h.2.2.2.1, h.2.2.2.2, Or.inr hX⟩)
        · rw [if_neg hX] at hv
          by_cases ho : g.verb = 'o'
          · rw [if_pos ho] at hv; cases hv
            have : cBase g.verb = 8 := by simp [cBase, ho]
            rw [this]
            have hX' : decide (g.verb = 'X') = false := by simp [ho]
            rw [hX']
            cases hs : g.sharp with
            | false => exact goAbs_cAbs_oct_plain g _ _ _ false ho hs
            | true =>
              have hpos : 0 < i.natAbs := Nat.pos_of_ne_zero (hnz hs)
              have hhead := natStr_head 8 (by omega) (by omega) false i.natAbs hpos
              have hnn : decide (i.natAbs ≠ 0) = true := by simpa using hnz hs
              rw [hnn]
              cases hds : natStr 8 false i.natAbs with
              | nil => exact absurd hds (natStr_ne_nil 8 false _)
              | cons c cs =>
                rw [hds] at hhead
                have hc : c ≠ '0' := by simpa using hhead
                exact goAbs_cAbs_oct_sharp g _ c cs false ho hs hc
          · rw [if_neg ho] at hv; cases hv

end Pcore.Format
