import Pcore.Model.ImmutResolve
/-!
# Resolving leaves every value as it was (helper lemmas for property C08)

`resolveW_frame`: when `(*deferred).Resolve` does not assign `e.arguments` (`W.dfrArgs = false`), one resolution over the
objects of a value whose memos are sound leaves the observable content of the value unchanged, keeps the memos sound and
answers exactly what the pure function `resolve` answers — whatever the DeferredType memo policy is.
-/
namespace Pcore.Immut

/-! ### resolution does not look at memos: values with the same observable content resolve alike -/

def eraseR : Except RErr RV → Except RErr RV
  | .ok v => .ok v.erase
  | .error e => .error e

def eraseRL : Except RErr (List RV) → Except RErr (List RV)
  | .ok vs => .ok (eraseL vs)
  | .error e => .error e

mutual
theorem erase_idem : ∀ v : RV, v.erase.erase = v.erase
  | .int _ => rfl
  | .str _ => rfl
  | .undef => rfl
  | .ty _ => rfl
  | .dty _ ps _ => by simp only [RV.erase]; rw [eraseL_idem ps]
  | .ent k v => by simp only [RV.erase]; rw [erase_idem k, erase_idem v]
  | .arr xs => by simp only [RV.erase]; rw [eraseL_idem xs]
  | .hsh xs => by simp only [RV.erase]; rw [eraseL_idem xs]
  | .dfr n xs => by simp only [RV.erase]; rw [eraseL_idem xs]
theorem eraseL_idem : ∀ xs : List RV, eraseL (eraseL xs) = eraseL xs
  | [] => rfl
  | x :: xs => by simp only [eraseL]; rw [erase_idem x, eraseL_idem xs]
end

mutual
theorem hashable_erase : ∀ v : RV, v.erase.hashable = v.hashable
  | .int _ => rfl
  | .str _ => rfl
  | .undef => rfl
  | .ty _ => rfl
  | .dty _ _ _ => rfl
  | .ent k v => by simp only [RV.erase, RV.hashable]; rw [hashable_erase k, hashable_erase v]
  | .arr xs => by simp only [RV.erase, RV.hashable]; rw [hashableL_erase xs]
  | .hsh xs => by simp only [RV.erase, RV.hashable]; rw [hashableL_erase xs]
  | .dfr n xs => rfl
theorem hashableL_erase : ∀ xs : List RV, hashableL (eraseL xs) = hashableL xs
  | [] => rfl
  | x :: xs => by simp only [eraseL, hashableL]; rw [hashable_erase x, hashableL_erase xs]
end

theorem sameKey_erase (a b : RV) : sameKey a.erase b.erase = sameKey a b := by
  cases a <;> cases b <;> simp [sameKey, RV.erase]

theorem hashGet_erase (k : RV) : ∀ es : List RV, hashGet k.erase (eraseL es) = (hashGet k es).erase
  | [] => rfl
  | e :: es => by
      cases e with
      | ent k' v =>
        simp only [eraseL, RV.erase, hashGet, sameKey_erase]
        split
        · rfl
        · exact hashGet_erase k es
      | _ => simp only [eraseL, RV.erase, hashGet]; exact hashGet_erase k es

theorem getD_erase (xs : List RV) (n : Nat) : (eraseL xs)[n]?.getD .undef = (xs[n]?.getD .undef).erase := by
  induction xs generalizing n with
  | nil => simp [eraseL, RV.erase]
  | cons x xs ih =>
    cases n with
    | zero => simp [eraseL]
    | succ n => simpa [eraseL] using ih n

theorem hget_erase (k : RV) (es : List RV) :
    (if k.erase.hashable = true then Except.ok (hashGet k.erase (eraseL es)) else Except.error RErr.invalidKey) =
      eraseR (if k.hashable = true then Except.ok (hashGet k es) else Except.error RErr.invalidKey) := by
  rw [hashable_erase]
  split <;> simp [eraseR, hashGet_erase]

theorem digStep_erase (d k : RV) : digStep d.erase k.erase = eraseR (digStep d k) := by
  cases k with
  | undef => simp [digStep, RV.erase, eraseR]
  | int i =>
    cases d <;> simp only [digStep, RV.erase, eraseR]
    · split <;> simp [RV.erase, getD_erase]
    · exact hget_erase (.int i) _
  | str s =>
    cases d <;> simp only [digStep, RV.erase, eraseR]
    · exact hget_erase (.str s) _
  | ty s =>
    cases d <;> simp only [digStep, RV.erase, eraseR]
    · exact hget_erase (.ty s) _
  | dty n ps m =>
    cases d <;> simp [digStep, RV.erase, eraseR, RV.hashable]
  | dfr n xs =>
    cases d <;> simp [digStep, RV.erase, eraseR, RV.hashable]
  | arr xs =>
    cases d <;> simp only [digStep, RV.erase, eraseR]
    · have := hget_erase (.arr xs) ‹_›
      simp only [RV.erase] at this
      exact this
  | hsh xs =>
    cases d <;> simp only [digStep, RV.erase, eraseR]
    · have := hget_erase (.hsh xs) ‹_›
      simp only [RV.erase] at this
      exact this
  | ent a b =>
    cases d <;> simp only [digStep, RV.erase, eraseR]
    · have := hget_erase (.ent a b) ‹_›
      simp only [RV.erase] at this
      exact this

theorem dig_erase : ∀ (ks : List RV) (d : RV), dig d.erase (eraseL ks) = eraseR (dig d ks)
  | [], d => rfl
  | k :: ks, d => by
      simp only [eraseL, dig, digStep_erase]
      cases h : digStep d k with
      | error e => simp [eraseR]
      | ok d' => simp only [eraseR]; exact dig_erase ks d'

theorem eraseL_isEmpty : ∀ {xs ys : List RV}, eraseL xs = eraseL ys → xs.isEmpty = ys.isEmpty
  | [], [], _ => rfl
  | [], _ :: _, h => by simp [eraseL] at h
  | _ :: _, [], h => by simp [eraseL] at h
  | _ :: _, _ :: _, _ => rfl

theorem headD_erase : ∀ {xs ys : List RV}, eraseL xs = eraseL ys → (xs.headD .undef).erase = (ys.headD .undef).erase
  | [], [], _ => rfl
  | [], _ :: _, h => by simp [eraseL] at h
  | _ :: _, [], h => by simp [eraseL] at h
  | x :: _, y :: _, h => by
      simp only [eraseL, List.cons.injEq] at h
      simpa using h.1

theorem finish_sim (sc : List RV) (n : String) {da da' : List RV} (h : eraseL da = eraseL da') :
    eraseR (finish sc n da) = eraseR (finish sc n da') := by
  unfold finish
  cases varName? n with
  | some vn =>
    simp only
    cases scopeGet sc vn with
    | none => rfl
    | some vv =>
      simp only
      rw [eraseL_isEmpty h]
      split
      · rfl
      · rw [← dig_erase, ← dig_erase, h]
  | none =>
    simp only
    split
    · simp only [eraseR, RV.erase]; rw [h]
    · split
      · simp only [eraseR]
        congr 1
        exact headD_erase h
      · rfl

/-! ### `ResolveWithParams` looks at the texts of its parameters only -/

theorem tyTexts_erase : ∀ xs : List RV, tyTexts (eraseL xs) = tyTexts xs
  | [] => rfl
  | x :: xs => by
      cases x <;> simp only [eraseL, RV.erase, tyTexts]
      rw [tyTexts_erase xs]

theorem paramTypeText_erase (n : String) (as : List RV) : paramTypeText n (eraseL as) = paramTypeText n as := by
  unfold paramTypeText
  rw [tyTexts_erase]

theorem paramTypeText_sim (n : String) {as as' : List RV} (h : eraseL as = eraseL as') :
    paramTypeText n as = paramTypeText n as' := by
  rw [← paramTypeText_erase n as, ← paramTypeText_erase n as', h]

theorem eraseL_isEmpty' (xs : List RV) : (eraseL xs).isEmpty = xs.isEmpty := by
  cases xs <;> rfl

mutual
theorem resolve_erase (d : Bool) (sc : List RV) : ∀ v : RV, eraseR (resolve d sc v) = eraseR (resolve d sc v.erase)
  | .int _ => rfl
  | .str _ => rfl
  | .undef => rfl
  | .ty _ => rfl
  | .dty n ps m => by
      have ih := resolveL_erase true [] ps
      simp only [resolve, RV.erase, eraseL_isEmpty']
      split
      · rfl
      · cases h1 : resolveL true [] ps <;> cases h2 : resolveL true [] (eraseL ps) <;> rw [h1, h2] at ih <;>
          simp only [eraseRL, Except.ok.injEq, Except.error.injEq, reduceCtorEq] at ih
        · simp [ih]
        · simp only
          rw [paramTypeText_sim n ih]
  | .ent k v => by
      have i1 := resolve_erase d sc k
      have i2 := resolve_erase d sc v
      cases d with
      | false => simp only [resolve, RV.erase, eraseR, Bool.false_eq_true, if_false]; rw [erase_idem k, erase_idem v]
      | true =>
        simp only [resolve, RV.erase, if_true]
        cases h1 : resolve true sc k <;> cases h2 : resolve true sc k.erase <;> rw [h1, h2] at i1 <;>
          simp only [eraseR, Except.ok.injEq, Except.error.injEq, reduceCtorEq] at i1
        · simp [eraseR, i1]
        · simp only
          cases h3 : resolve true sc v <;> cases h4 : resolve true sc v.erase <;> rw [h3, h4] at i2 <;>
            simp only [eraseR, Except.ok.injEq, Except.error.injEq, reduceCtorEq] at i2 <;> simp [eraseR, RV.erase, i1, i2]
  | .arr xs => by
      have ih := resolveL_erase d sc xs
      simp only [resolve, RV.erase]
      cases h1 : resolveL d sc xs <;> cases h2 : resolveL d sc (eraseL xs) <;> rw [h1, h2] at ih <;>
        simp only [eraseRL, Except.ok.injEq, Except.error.injEq, reduceCtorEq] at ih <;> simp [eraseR, RV.erase, ih]
  | .hsh xs => by
      have ih := resolveH_erase d sc xs
      simp only [resolve, RV.erase]
      cases h1 : resolveH d sc xs <;> cases h2 : resolveH d sc (eraseL xs) <;> rw [h1, h2] at ih <;>
        simp only [eraseRL, Except.ok.injEq, Except.error.injEq, reduceCtorEq] at ih <;> simp [eraseR, RV.erase, ih]
  | .dfr n xs => by
      have ih := resolveL_erase false sc xs
      simp only [resolve, RV.erase]
      cases h1 : resolveL false sc xs <;> cases h2 : resolveL false sc (eraseL xs) <;> rw [h1, h2] at ih <;>
        simp only [eraseRL, Except.ok.injEq, Except.error.injEq, reduceCtorEq] at ih
      · simp [eraseR, ih]
      · exact finish_sim sc n ih
theorem resolveL_erase (d : Bool) (sc : List RV) :
    ∀ xs : List RV, eraseRL (resolveL d sc xs) = eraseRL (resolveL d sc (eraseL xs))
  | [] => rfl
  | x :: xs => by
      have i1 := resolve_erase d sc x
      have i2 := resolveL_erase d sc xs
      simp only [resolveL, eraseL]
      cases h1 : resolve d sc x <;> cases h2 : resolve d sc x.erase <;> rw [h1, h2] at i1 <;>
        simp only [eraseR, Except.ok.injEq, Except.error.injEq, reduceCtorEq] at i1
      · simp [eraseRL, i1]
      · simp only
        cases h3 : resolveL d sc xs <;> cases h4 : resolveL d sc (eraseL xs) <;> rw [h3, h4] at i2 <;>
          simp only [eraseRL, Except.ok.injEq, Except.error.injEq, reduceCtorEq] at i2 <;> simp [eraseRL, eraseL, i1, i2]
theorem resolveH_erase (d : Bool) (sc : List RV) :
    ∀ es : List RV, eraseRL (resolveH d sc es) = eraseRL (resolveH d sc (eraseL es))
  | [] => rfl
  | .ent k v :: es => by
      have i1 := resolve_erase d sc k
      have i2 := resolve_erase d sc v
      have i3 := resolveH_erase d sc es
      simp only [resolveH, eraseL, RV.erase]
      cases h1 : resolve d sc k <;> cases h2 : resolve d sc k.erase <;> rw [h1, h2] at i1 <;>
        simp only [eraseR, Except.ok.injEq, Except.error.injEq, reduceCtorEq] at i1
      · simp [eraseRL, i1]
      · simp only
        cases h3 : resolve d sc v <;> cases h4 : resolve d sc v.erase <;> rw [h3, h4] at i2 <;>
          simp only [eraseR, Except.ok.injEq, Except.error.injEq, reduceCtorEq] at i2
        · simp [eraseRL, i2]
        · simp only
          cases h5 : resolveH d sc es <;> cases h6 : resolveH d sc (eraseL es) <;> rw [h5, h6] at i3 <;>
            simp only [eraseRL, Except.ok.injEq, Except.error.injEq, reduceCtorEq] at i3 <;>
            simp [eraseRL, eraseL, RV.erase, i1, i2, i3]
  | .int i :: es => by
      have i3 := resolveH_erase d sc es
      simp only [resolveH, eraseL, RV.erase]
      cases h5 : resolveH d sc es <;> cases h6 : resolveH d sc (eraseL es) <;> rw [h5, h6] at i3 <;>
        simp only [eraseRL, Except.ok.injEq, Except.error.injEq, reduceCtorEq] at i3 <;>
        simp [eraseRL, eraseL, RV.erase, i3]
  | .str i :: es => by
      have i3 := resolveH_erase d sc es
      simp only [resolveH, eraseL, RV.erase]
      cases h5 : resolveH d sc es <;> cases h6 : resolveH d sc (eraseL es) <;> rw [h5, h6] at i3 <;>
        simp only [eraseRL, Except.ok.injEq, Except.error.injEq, reduceCtorEq] at i3 <;>
        simp [eraseRL, eraseL, RV.erase, i3]
  | .undef :: es => by
      have i3 := resolveH_erase d sc es
      simp only [resolveH, eraseL, RV.erase]
      cases h5 : resolveH d sc es <;> cases h6 : resolveH d sc (eraseL es) <;> rw [h5, h6] at i3 <;>
        simp only [eraseRL, Except.ok.injEq, Except.error.injEq, reduceCtorEq] at i3 <;>
        simp [eraseRL, eraseL, RV.erase, i3]
  | .ty i :: es => by
      have i3 := resolveH_erase d sc es
      simp only [resolveH, eraseL, RV.erase]
      cases h5 : resolveH d sc es <;> cases h6 : resolveH d sc (eraseL es) <;> rw [h5, h6] at i3 <;>
        simp only [eraseRL, Except.ok.injEq, Except.error.injEq, reduceCtorEq] at i3 <;>
        simp [eraseRL, eraseL, RV.erase, i3]
  | .dty n ps m :: es => by
      have i3 := resolveH_erase d sc es
      simp only [resolveH, eraseL, RV.erase]
      cases h5 : resolveH d sc es <;> cases h6 : resolveH d sc (eraseL es) <;> rw [h5, h6] at i3 <;>
        simp only [eraseRL, Except.ok.injEq, Except.error.injEq, reduceCtorEq] at i3 <;>
        simp [eraseRL, eraseL, RV.erase, i3, eraseL_idem]
  | .arr i :: es => by
      have i3 := resolveH_erase d sc es
      simp only [resolveH, eraseL, RV.erase]
      cases h5 : resolveH d sc es <;> cases h6 : resolveH d sc (eraseL es) <;> rw [h5, h6] at i3 <;>
        simp only [eraseRL, Except.ok.injEq, Except.error.injEq, reduceCtorEq] at i3 <;>
        simp [eraseRL, eraseL, RV.erase, i3, eraseL_idem]
  | .hsh i :: es => by
      have i3 := resolveH_erase d sc es
      simp only [resolveH, eraseL, RV.erase]
      cases h5 : resolveH d sc es <;> cases h6 : resolveH d sc (eraseL es) <;> rw [h5, h6] at i3 <;>
        simp only [eraseRL, Except.ok.injEq, Except.error.injEq, reduceCtorEq] at i3 <;>
        simp [eraseRL, eraseL, RV.erase, i3, eraseL_idem]
  | .dfr n i :: es => by
      have i3 := resolveH_erase d sc es
      simp only [resolveH, eraseL, RV.erase]
      cases h5 : resolveH d sc es <;> cases h6 : resolveH d sc (eraseL es) <;> rw [h5, h6] at i3 <;>
        simp only [eraseRL, Except.ok.injEq, Except.error.injEq, reduceCtorEq] at i3 <;>
        simp [eraseRL, eraseL, RV.erase, i3, eraseL_idem]
end

mutual
theorem render_erase : ∀ v : RV, v.erase.render = v.render
  | .int _ => rfl
  | .str _ => rfl
  | .undef => rfl
  | .ty _ => rfl
  | .dty _ ps _ => by simp only [RV.erase, RV.render]; rw [renderL_erase ps]
  | .ent k v => by simp only [RV.erase, RV.render]; rw [render_erase k, render_erase v]
  | .arr xs => by simp only [RV.erase, RV.render]; rw [renderL_erase xs]
  | .hsh xs => by simp only [RV.erase, RV.render]; rw [renderH_erase xs]
  | .dfr n xs => by simp only [RV.erase, RV.render]; rw [renderL_erase xs]
theorem renderL_erase : ∀ xs : List RV, renderL (eraseL xs) = renderL xs
  | [] => rfl
  | x :: xs => by simp only [eraseL, renderL]; rw [render_erase x, renderL_erase xs]
theorem renderH_erase : ∀ xs : List RV, renderH (eraseL xs) = renderH xs
  | [] => rfl
  | .ent k v :: xs => by simp only [eraseL, RV.erase, renderH]; rw [render_erase k, render_erase v, renderH_erase xs]
  | .int _ :: xs => by simp only [eraseL, RV.erase, renderH]; rw [renderH_erase xs]
  | .str _ :: xs => by simp only [eraseL, RV.erase, renderH]; rw [renderH_erase xs]
  | .undef :: xs => by simp only [eraseL, RV.erase, renderH]; rw [renderH_erase xs]
  | .ty _ :: xs => by simp only [eraseL, RV.erase, renderH]; rw [renderH_erase xs]
  | .dty n ps m :: xs => by
      have h := render_erase (.dty n ps m)
      simp only [RV.erase] at h
      simp only [eraseL, RV.erase, renderH]; rw [renderH_erase xs, h]
  | .arr ys :: xs => by
      have h := render_erase (.arr ys)
      simp only [RV.erase] at h
      simp only [eraseL, RV.erase, renderH]; rw [renderH_erase xs, h]
  | .hsh ys :: xs => by
      have h := render_erase (.hsh ys)
      simp only [RV.erase] at h
      simp only [eraseL, RV.erase, renderH]; rw [renderH_erase xs, h]
  | .dfr n ys :: xs => by
      have h := render_erase (.dfr n ys)
      simp only [RV.erase] at h
      simp only [eraseL, RV.erase, renderH]; rw [renderH_erase xs, h]
end

/-- what is observed of an answer does not depend on memos -/
theorem answerText_eraseR (r : Except RErr RV) : answerText (eraseR r) = answerText r := by
  cases r with
  | error e => rfl
  | ok v => simp only [eraseR, answerText]; rw [render_erase]


/-! ### what a DeferredType resolves to does not depend on mode, scope, memo, or the memos inside its parameters -/

theorem resolve_dty_shape (d : Bool) (sc : List RV) (n : String) (ps : List RV) (m : Option String) :
    (∃ t, resolve d sc (.dty n ps m) = .ok (.ty t)) ∨ ∃ e, resolve d sc (.dty n ps m) = .error e := by
  simp only [resolve]
  split
  · exact Or.inl ⟨_, rfl⟩
  · cases resolveL true [] ps with
    | error e => exact Or.inr ⟨e, rfl⟩
    | ok as =>
      simp only
      cases paramTypeText n as with
      | error e => exact Or.inr ⟨e, rfl⟩
      | ok t => exact Or.inl ⟨t, rfl⟩

theorem resolve_dty_eq (d : Bool) (sc : List RV) (n : String) (ps : List RV) (m : Option String) :
    resolve d sc (.dty n ps m) = resolve false [] (.dty n (eraseL ps) none) := by
  have h := resolve_erase d sc (.dty n ps m)
  have h2 : resolve d sc (RV.dty n ps m).erase = resolve false [] (.dty n (eraseL ps) none) := by
    simp only [RV.erase, resolve]
  rw [h2] at h
  rcases resolve_dty_shape d sc n ps m with ⟨t, ht⟩ | ⟨e, he⟩ <;>
    rcases resolve_dty_shape false [] n (eraseL ps) none with ⟨t', ht'⟩ | ⟨e', he'⟩ <;>
    simp_all [eraseR, RV.erase]

theorem resolve_of_dtyPure (d : Bool) (sc : List RV) (n : String) (ps : List RV) (m : Option String) (t : String)
    (h : dtyPure n ps = some t) : resolve d sc (.dty n ps m) = .ok (.ty t) := by
  rw [resolve_dty_eq]
  unfold dtyPure at h
  rcases resolve_dty_shape false [] n (eraseL ps) none with ⟨t', ht'⟩ | ⟨e', he'⟩
  · rw [ht'] at h ⊢; simp only [Option.some.injEq] at h; rw [h]
  · rw [he'] at h; cases h

theorem dtyPure_of_resolve (d : Bool) (sc : List RV) (n : String) (ps : List RV) (m : Option String) (t : String)
    (h : resolve d sc (.dty n ps m) = .ok (.ty t)) : dtyPure n ps = some t := by
  rw [resolve_dty_eq] at h
  unfold dtyPure
  rw [h]

/-! ### the frame theorem -/

mutual
theorem resolveW_frame (W : Writes) (hW : W.dfrArgs = false) (d : Bool) (sc : List RV) :
    ∀ v : RV, v.memoOK = true →
      (resolveW W d sc v).1.erase = v.erase ∧ (resolveW W d sc v).1.memoOK = true ∧ (resolveW W d sc v).2 = resolve d sc v
  | .int _, _ => by simp [resolveW, resolve, RV.memoOK]
  | .str _, _ => by simp [resolveW, resolve, RV.memoOK]
  | .undef, _ => by simp [resolveW, resolve, RV.memoOK]
  | .ty _, _ => by simp [resolveW, resolve, RV.memoOK]
  | .ent k v, hm => by
      cases d with
      | false => simp [resolveW, resolve, hm]
      | true =>
        simp only [RV.memoOK, Bool.and_eq_true] at hm
        obtain ⟨a1, a2, a3⟩ := resolveW_frame W hW true sc k hm.1
        obtain ⟨c1, c2, c3⟩ := resolveW_frame W hW true sc v hm.2
        simp only [resolveW, resolve, if_true]
        rw [← a3, ← c3]
        rcases hk : resolveW W true sc k with ⟨k', rk⟩
        rw [hk] at a1 a2
        cases rk with
        | error e => exact ⟨by simp only [RV.erase]; rw [a1], by simp only [RV.memoOK, a2, hm.2, Bool.and_self], rfl⟩
        | ok k2 =>
          simp only
          rcases hv : resolveW W true sc v with ⟨v', rv⟩
          rw [hv] at c1 c2
          cases rv with
          | error e => exact ⟨by simp only [RV.erase]; rw [a1, c1], by simp only [RV.memoOK, a2, c2, Bool.and_self], rfl⟩
          | ok v2 => exact ⟨by simp only [RV.erase]; rw [a1, c1], by simp only [RV.memoOK, a2, c2, Bool.and_self], rfl⟩
  | .dty n ps m, hm => by
      simp only [RV.memoOK, Bool.and_eq_true, Bool.or_eq_true, beq_iff_eq] at hm
      obtain ⟨hps, hmemo⟩ := hm
      simp only [resolveW]
      cases hhit : dtyHit W m with
      | some t =>
        -- the memo answers: nothing is visited, and the memo is what resolution computes
        have hm' : m = some t := by
          unfold dtyHit at hhit
          split at hhit
          · exact hhit
          · cases hhit
        subst hm'
        have hp : dtyPure n ps = some t := by
          rcases hmemo with h | h
          · cases h
          · exact h.symm
        refine ⟨rfl, ?_, ?_⟩
        · simp only [RV.memoOK, hps, Bool.true_and, Bool.or_eq_true, beq_iff_eq]; exact Or.inr hp.symm
        · exact (resolve_of_dtyPure d sc n ps (some t) t hp).symm
      | none =>
        simp only
        by_cases he : ps.isEmpty = true
        · simp only [he, if_true]
          have hnil : ps = [] := List.isEmpty_iff.mp he
          subst hnil
          refine ⟨rfl, ?_, by simp [resolve]⟩
          simp only [RV.memoOK, memoOKL, Bool.true_and, Bool.or_eq_true, beq_iff_eq]
          have hp : dtyPure n [] = some (typeText n) := by simp [dtyPure, eraseL, resolve]
          unfold dtyStore
          split
          · exact hmemo
          · exact Or.inr hp.symm
        · simp only [he, Bool.false_eq_true, if_false]
          obtain ⟨h1, h2, h3⟩ := resolveWL_frame W hW true [] ps hps
          have hres : resolve d sc (.dty n ps m) =
              (match resolveL true [] ps with
               | .error e => .error e
               | .ok as => match paramTypeText n as with
                 | .error e => .error e
                 | .ok t => .ok (.ty t)) := by
            simp only [resolve, he, Bool.false_eq_true, if_false]
            cases resolveL true [] ps with
            | error e => rfl
            | ok as => simp only; cases paramTypeText n as <;> rfl
          rw [hres, ← h3]
          rcases hr : resolveWL W true [] ps with ⟨ps', r⟩
          rw [hr] at h1 h2 h3
          have hpure : dtyPure n ps' = dtyPure n ps := by unfold dtyPure; rw [h1]
          cases r with
          | error e =>
            refine ⟨by simp only [RV.erase]; rw [h1], ?_, rfl⟩
            simp only [RV.memoOK, h2, Bool.true_and, Bool.or_eq_true, beq_iff_eq, hpure]; exact hmemo
          | ok as =>
            simp only
            cases hpt : paramTypeText n as with
            | error e =>
              refine ⟨by simp only [RV.erase]; rw [h1], ?_, rfl⟩
              simp only [RV.memoOK, h2, Bool.true_and, Bool.or_eq_true, beq_iff_eq, hpure]; exact hmemo
            | ok t =>
              refine ⟨by simp only [RV.erase]; rw [h1], ?_, rfl⟩
              have hp : dtyPure n ps = some t := by
                apply dtyPure_of_resolve false [] n ps none t
                simp only [resolve, he, Bool.false_eq_true, if_false]
                rw [← h3]
                simp only [hpt]
              simp only [RV.memoOK, h2, Bool.true_and, Bool.or_eq_true, beq_iff_eq, hpure]
              unfold dtyStore
              split
              · exact hmemo
              · exact Or.inr hp.symm
  | .arr xs, hm => by
      simp only [RV.memoOK] at hm
      obtain ⟨h1, h2, h3⟩ := resolveWL_frame W hW d sc xs hm
      simp only [resolveW, resolve]
      rw [← h3]
      rcases hr : resolveWL W d sc xs with ⟨xs', r⟩
      rw [hr] at h1 h2
      cases r with
      | error e => exact ⟨by simp only [RV.erase]; rw [h1], by simp only [RV.memoOK]; exact h2, rfl⟩
      | ok ys => exact ⟨by simp only [RV.erase]; rw [h1], by simp only [RV.memoOK]; exact h2, rfl⟩
  | .hsh es, hm => by
      simp only [RV.memoOK] at hm
      obtain ⟨h1, h2, h3⟩ := resolveWH_frame W hW d sc es hm
      simp only [resolveW, resolve]
      rw [← h3]
      rcases hr : resolveWH W d sc es with ⟨es', r⟩
      rw [hr] at h1 h2
      cases r with
      | error e => exact ⟨by simp only [RV.erase]; rw [h1], by simp only [RV.memoOK]; exact h2, rfl⟩
      | ok ys => exact ⟨by simp only [RV.erase]; rw [h1], by simp only [RV.memoOK]; exact h2, rfl⟩
  | .dfr n as, hm => by
      simp only [RV.memoOK] at hm
      obtain ⟨h1, h2, h3⟩ := resolveWL_frame W hW false sc as hm
      simp only [resolveW, resolve, hW, Bool.false_and, Bool.false_eq_true, if_false]
      rw [← h3]
      rcases hr : resolveWL W false sc as with ⟨as', r⟩
      rw [hr] at h1 h2
      cases r with
      | error e => exact ⟨by simp only [RV.erase]; rw [h1], by simp only [RV.memoOK]; exact h2, rfl⟩
      | ok ys => exact ⟨by simp only [RV.erase]; rw [h1], by simp only [RV.memoOK]; exact h2, rfl⟩
theorem resolveWL_frame (W : Writes) (hW : W.dfrArgs = false) (d : Bool) (sc : List RV) :
    ∀ xs : List RV, memoOKL xs = true →
      eraseL (resolveWL W d sc xs).1 = eraseL xs ∧ memoOKL (resolveWL W d sc xs).1 = true ∧
        (resolveWL W d sc xs).2 = resolveL d sc xs
  | [], _ => by simp [resolveWL, resolveL, eraseL, memoOKL]
  | x :: xs, hm => by
      simp only [memoOKL, Bool.and_eq_true] at hm
      obtain ⟨a1, a2, a3⟩ := resolveW_frame W hW d sc x hm.1
      obtain ⟨b1, b2, b3⟩ := resolveWL_frame W hW d sc xs hm.2
      simp only [resolveWL, resolveL]
      rw [← a3, ← b3]
      rcases hx : resolveW W d sc x with ⟨x', r⟩
      rw [hx] at a1 a2
      cases r with
      | error e => exact ⟨by simp only [eraseL]; rw [a1], by simp only [memoOKL, a2, hm.2, Bool.and_self], rfl⟩
      | ok y =>
        simp only
        rcases hxs : resolveWL W d sc xs with ⟨xs', rs⟩
        rw [hxs] at b1 b2
        cases rs with
        | error e => exact ⟨by simp only [eraseL]; rw [a1, b1], by simp only [memoOKL, a2, b2, Bool.and_self], rfl⟩
        | ok ys => exact ⟨by simp only [eraseL]; rw [a1, b1], by simp only [memoOKL, a2, b2, Bool.and_self], rfl⟩
theorem resolveWH_frame (W : Writes) (hW : W.dfrArgs = false) (d : Bool) (sc : List RV) :
    ∀ es : List RV, memoOKL es = true →
      eraseL (resolveWH W d sc es).1 = eraseL es ∧ memoOKL (resolveWH W d sc es).1 = true ∧
        (resolveWH W d sc es).2 = resolveH d sc es
  | [], _ => by simp [resolveWH, resolveH, eraseL, memoOKL]
  | .ent k v :: es, hm => by
      simp only [memoOKL, RV.memoOK, Bool.and_eq_true] at hm
      obtain ⟨a1, a2, a3⟩ := resolveW_frame W hW d sc k hm.1.1
      obtain ⟨c1, c2, c3⟩ := resolveW_frame W hW d sc v hm.1.2
      obtain ⟨b1, b2, b3⟩ := resolveWH_frame W hW d sc es hm.2
      simp only [resolveWH, resolveH]
      rw [← a3, ← c3, ← b3]
      rcases hk : resolveW W d sc k with ⟨k', rk⟩
      rw [hk] at a1 a2
      cases rk with
      | error e =>
        exact ⟨by simp only [eraseL, RV.erase]; rw [a1], by simp only [memoOKL, RV.memoOK, a2, hm.1.2, hm.2, Bool.and_self], rfl⟩
      | ok k2 =>
        simp only
        rcases hv : resolveW W d sc v with ⟨v', rv⟩
        rw [hv] at c1 c2
        cases rv with
        | error e =>
          exact ⟨by simp only [eraseL, RV.erase]; rw [a1, c1], by simp only [memoOKL, RV.memoOK, a2, c2, hm.2, Bool.and_self], rfl⟩
        | ok v2 =>
          simp only
          rcases hes : resolveWH W d sc es with ⟨es', rs⟩
          rw [hes] at b1 b2
          cases rs with
          | error e =>
            exact ⟨by simp only [eraseL, RV.erase]; rw [a1, c1, b1], by simp only [memoOKL, RV.memoOK, a2, c2, b2, Bool.and_self], rfl⟩
          | ok fs =>
            exact ⟨by simp only [eraseL, RV.erase]; rw [a1, c1, b1], by simp only [memoOKL, RV.memoOK, a2, c2, b2, Bool.and_self], rfl⟩
  | .int i :: es, hm => by
      simp only [memoOKL, Bool.and_eq_true] at hm
      obtain ⟨b1, b2, b3⟩ := resolveWH_frame W hW d sc es hm.2
      simp only [resolveWH, resolveH]
      rw [← b3]
      rcases hes : resolveWH W d sc es with ⟨es', rs⟩
      rw [hes] at b1 b2
      cases rs <;> exact ⟨by simp only [eraseL]; rw [b1], by simp only [memoOKL, hm.1, b2, Bool.and_self], rfl⟩
  | .str i :: es, hm => by
      simp only [memoOKL, Bool.and_eq_true] at hm
      obtain ⟨b1, b2, b3⟩ := resolveWH_frame W hW d sc es hm.2
      simp only [resolveWH, resolveH]
      rw [← b3]
      rcases hes : resolveWH W d sc es with ⟨es', rs⟩
      rw [hes] at b1 b2
      cases rs <;> exact ⟨by simp only [eraseL]; rw [b1], by simp only [memoOKL, hm.1, b2, Bool.and_self], rfl⟩
  | .undef :: es, hm => by
      simp only [memoOKL, Bool.and_eq_true] at hm
      obtain ⟨b1, b2, b3⟩ := resolveWH_frame W hW d sc es hm.2
      simp only [resolveWH, resolveH]
      rw [← b3]
      rcases hes : resolveWH W d sc es with ⟨es', rs⟩
      rw [hes] at b1 b2
      cases rs <;> exact ⟨by simp only [eraseL]; rw [b1], by simp only [memoOKL, hm.1, b2, Bool.and_self], rfl⟩
  | .ty i :: es, hm => by
      simp only [memoOKL, Bool.and_eq_true] at hm
      obtain ⟨b1, b2, b3⟩ := resolveWH_frame W hW d sc es hm.2
      simp only [resolveWH, resolveH]
      rw [← b3]
      rcases hes : resolveWH W d sc es with ⟨es', rs⟩
      rw [hes] at b1 b2
      cases rs <;> exact ⟨by simp only [eraseL]; rw [b1], by simp only [memoOKL, hm.1, b2, Bool.and_self], rfl⟩
  | .arr i :: es, hm => by
      simp only [memoOKL, Bool.and_eq_true] at hm
      obtain ⟨b1, b2, b3⟩ := resolveWH_frame W hW d sc es hm.2
      simp only [resolveWH, resolveH]
      rw [← b3]
      rcases hes : resolveWH W d sc es with ⟨es', rs⟩
      rw [hes] at b1 b2
      cases rs <;> exact ⟨by simp only [eraseL]; rw [b1], by simp only [memoOKL, hm.1, b2, Bool.and_self], rfl⟩
  | .hsh i :: es, hm => by
      simp only [memoOKL, Bool.and_eq_true] at hm
      obtain ⟨b1, b2, b3⟩ := resolveWH_frame W hW d sc es hm.2
      simp only [resolveWH, resolveH]
      rw [← b3]
      rcases hes : resolveWH W d sc es with ⟨es', rs⟩
      rw [hes] at b1 b2
      cases rs <;> exact ⟨by simp only [eraseL]; rw [b1], by simp only [memoOKL, hm.1, b2, Bool.and_self], rfl⟩
  | .dfr n i :: es, hm => by
      simp only [memoOKL, Bool.and_eq_true] at hm
      obtain ⟨b1, b2, b3⟩ := resolveWH_frame W hW d sc es hm.2
      simp only [resolveWH, resolveH]
      rw [← b3]
      rcases hes : resolveWH W d sc es with ⟨es', rs⟩
      rw [hes] at b1 b2
      cases rs <;> exact ⟨by simp only [eraseL]; rw [b1], by simp only [memoOKL, hm.1, b2, Bool.and_self], rfl⟩
  | .dty n ps i :: es, hm => by
      simp only [memoOKL, Bool.and_eq_true] at hm
      obtain ⟨b1, b2, b3⟩ := resolveWH_frame W hW d sc es hm.2
      simp only [resolveWH, resolveH]
      rw [← b3]
      rcases hes : resolveWH W d sc es with ⟨es', rs⟩
      rw [hes] at b1 b2
      cases rs <;> exact ⟨by simp only [eraseL]; rw [b1], by simp only [memoOKL, hm.1, b2, Bool.and_self], rfl⟩
end

/-- values with the same observable content resolve alike (up to memos carried along unresolved) -/
theorem resolve_sim (d : Bool) (sc : List RV) {v v' : RV} (h : v.erase = v'.erase) :
    eraseR (resolve d sc v) = eraseR (resolve d sc v') := by
  rw [resolve_erase d sc v, resolve_erase d sc v', h]

/-! ### resolutions in sequence -/

theorem resolveSeq_frame (W : Writes) (hW : W.dfrArgs = false) :
    ∀ (scs : List (List RV)) (v : RV), v.memoOK = true →
      (resolveSeq W v scs).1.erase = v.erase ∧ (resolveSeq W v scs).1.memoOK = true ∧
      (resolveSeq W v scs).2.map eraseR = scs.map (fun sc => eraseR (resolve false sc v))
  | [], v, hm => ⟨rfl, hm, rfl⟩
  | sc :: scs, v, hm => by
      obtain ⟨a1, a2, a3⟩ := resolveW_frame W hW false sc v hm
      obtain ⟨b1, b2, b3⟩ := resolveSeq_frame W hW scs (resolveW W false sc v).1 a2
      simp only [resolveSeq, List.map_cons]
      refine ⟨b1.trans a1, b2, ?_⟩
      rw [b3, a3]
      congr 1
      apply List.map_congr_left
      intro sc' _
      exact resolve_sim false sc' a1

end Pcore.Immut
