import Pcore.Model.ImmutResolve
/-!
# Resolving leaves every value as it was (helper lemmas for property C08)

`resolveW_frame`: when `(*deferred).Resolve` does not assign `e.arguments` (`W.dfrArgs = false`), one resolution over the
objects of a value whose memos are sound leaves the observable content of the value unchanged, keeps the memos sound and
answers exactly what the pure function `resolve` answers — whatever the DeferredType memo policy is.
-/
namespace Pcore.Immut

theorem dtyResolve_ok (W : Writes) (n : String) (m : Option String) (hm : (RV.dty n m).memoOK = true) :
    (dtyResolve W n m).2 = typeText n ∧ (RV.dty n (dtyResolve W n m).1).memoOK = true := by
  simp only [RV.memoOK, Bool.or_eq_true, beq_iff_eq] at hm
  unfold dtyResolve
  cases hW : W.dtyMemo with
  | none => exact ⟨rfl, by simp only [RV.memoOK, Bool.or_eq_true, beq_iff_eq]; exact hm⟩
  | some b =>
    cases b with
    | false => exact ⟨rfl, by simp [RV.memoOK]⟩
    | true =>
      cases m with
      | none => exact ⟨rfl, by simp [RV.memoOK]⟩
      | some t =>
        rcases hm with hm | hm
        · cases hm
        · simp only [Option.some.injEq] at hm
          subst hm
          exact ⟨rfl, by simp [RV.memoOK]⟩

mutual
theorem resolveW_frame (W : Writes) (hW : W.dfrArgs = false) (sc : List RV) :
    ∀ v : RV, v.memoOK = true →
      (resolveW W sc v).1.erase = v.erase ∧ (resolveW W sc v).1.memoOK = true ∧ (resolveW W sc v).2 = resolve sc v
  | .int _, _ => by simp [resolveW, resolve, RV.memoOK]
  | .str _, _ => by simp [resolveW, resolve, RV.memoOK]
  | .undef, _ => by simp [resolveW, resolve, RV.memoOK]
  | .ty _, _ => by simp [resolveW, resolve, RV.memoOK]
  | .ent k v, hm => by simp [resolveW, resolve, hm]
  | .dty n m, hm => by
      obtain ⟨h1, h2⟩ := dtyResolve_ok W n m hm
      simp only [resolveW, resolve, RV.erase, h1]
      exact ⟨trivial, h2, trivial⟩
  | .arr xs, hm => by
      simp only [RV.memoOK] at hm
      obtain ⟨h1, h2, h3⟩ := resolveWL_frame W hW sc xs hm
      simp only [resolveW, resolve]
      rw [← h3]
      rcases hr : resolveWL W sc xs with ⟨xs', r⟩
      rw [hr] at h1 h2
      cases r with
      | error e => exact ⟨by simp only [RV.erase]; rw [h1], by simp only [RV.memoOK]; exact h2, rfl⟩
      | ok ys => exact ⟨by simp only [RV.erase]; rw [h1], by simp only [RV.memoOK]; exact h2, rfl⟩
  | .hsh es, hm => by
      simp only [RV.memoOK] at hm
      obtain ⟨h1, h2, h3⟩ := resolveWH_frame W hW sc es hm
      simp only [resolveW, resolve]
      rw [← h3]
      rcases hr : resolveWH W sc es with ⟨es', r⟩
      rw [hr] at h1 h2
      cases r with
      | error e => exact ⟨by simp only [RV.erase]; rw [h1], by simp only [RV.memoOK]; exact h2, rfl⟩
      | ok ys => exact ⟨by simp only [RV.erase]; rw [h1], by simp only [RV.memoOK]; exact h2, rfl⟩
  | .dfr n as, hm => by
      simp only [RV.memoOK] at hm
      obtain ⟨h1, h2, h3⟩ := resolveWL_frame W hW sc as hm
      simp only [resolveW, resolve, hW, Bool.false_and, Bool.false_eq_true, if_false]
      rw [← h3]
      rcases hr : resolveWL W sc as with ⟨as', r⟩
      rw [hr] at h1 h2
      cases r with
      | error e => exact ⟨by simp only [RV.erase]; rw [h1], by simp only [RV.memoOK]; exact h2, rfl⟩
      | ok ys => exact ⟨by simp only [RV.erase]; rw [h1], by simp only [RV.memoOK]; exact h2, rfl⟩
theorem resolveWL_frame (W : Writes) (hW : W.dfrArgs = false) (sc : List RV) :
    ∀ xs : List RV, memoOKL xs = true →
      eraseL (resolveWL W sc xs).1 = eraseL xs ∧ memoOKL (resolveWL W sc xs).1 = true ∧
        (resolveWL W sc xs).2 = resolveL sc xs
  | [], _ => by simp [resolveWL, resolveL, eraseL, memoOKL]
  | x :: xs, hm => by
      simp only [memoOKL, Bool.and_eq_true] at hm
      obtain ⟨a1, a2, a3⟩ := resolveW_frame W hW sc x hm.1
      obtain ⟨b1, b2, b3⟩ := resolveWL_frame W hW sc xs hm.2
      simp only [resolveWL, resolveL]
      rw [← a3, ← b3]
      rcases hx : resolveW W sc x with ⟨x', r⟩
      rw [hx] at a1 a2
      cases r with
      | error e => exact ⟨by simp only [eraseL]; rw [a1], by simp only [memoOKL, a2, hm.2, Bool.and_self], rfl⟩
      | ok y =>
        simp only
        rcases hxs : resolveWL W sc xs with ⟨xs', rs⟩
        rw [hxs] at b1 b2
        cases rs with
        | error e => exact ⟨by simp only [eraseL]; rw [a1, b1], by simp only [memoOKL, a2, b2, Bool.and_self], rfl⟩
        | ok ys => exact ⟨by simp only [eraseL]; rw [a1, b1], by simp only [memoOKL, a2, b2, Bool.and_self], rfl⟩
theorem resolveWH_frame (W : Writes) (hW : W.dfrArgs = false) (sc : List RV) :
    ∀ es : List RV, memoOKL es = true →
      eraseL (resolveWH W sc es).1 = eraseL es ∧ memoOKL (resolveWH W sc es).1 = true ∧
        (resolveWH W sc es).2 = resolveH sc es
  | [], _ => by simp [resolveWH, resolveH, eraseL, memoOKL]
  | .ent k v :: es, hm => by
      simp only [memoOKL, RV.memoOK, Bool.and_eq_true] at hm
      obtain ⟨a1, a2, a3⟩ := resolveW_frame W hW sc k hm.1.1
      obtain ⟨c1, c2, c3⟩ := resolveW_frame W hW sc v hm.1.2
      obtain ⟨b1, b2, b3⟩ := resolveWH_frame W hW sc es hm.2
      simp only [resolveWH, resolveH]
      rw [← a3, ← c3, ← b3]
      rcases hk : resolveW W sc k with ⟨k', rk⟩
      rw [hk] at a1 a2
      cases rk with
      | error e =>
        exact ⟨by simp only [eraseL, RV.erase]; rw [a1], by simp only [memoOKL, RV.memoOK, a2, hm.1.2, hm.2, Bool.and_self], rfl⟩
      | ok k2 =>
        simp only
        rcases hv : resolveW W sc v with ⟨v', rv⟩
        rw [hv] at c1 c2
        cases rv with
        | error e =>
          exact ⟨by simp only [eraseL, RV.erase]; rw [a1, c1], by simp only [memoOKL, RV.memoOK, a2, c2, hm.2, Bool.and_self], rfl⟩
        | ok v2 =>
          simp only
          rcases hes : resolveWH W sc es with ⟨es', rs⟩
          rw [hes] at b1 b2
          cases rs with
          | error e =>
            exact ⟨by simp only [eraseL, RV.erase]; rw [a1, c1, b1], by simp only [memoOKL, RV.memoOK, a2, c2, b2, Bool.and_self], rfl⟩
          | ok fs =>
            exact ⟨by simp only [eraseL, RV.erase]; rw [a1, c1, b1], by simp only [memoOKL, RV.memoOK, a2, c2, b2, Bool.and_self], rfl⟩
  | .int i :: es, hm => by
      simp only [memoOKL, Bool.and_eq_true] at hm
      obtain ⟨b1, b2, b3⟩ := resolveWH_frame W hW sc es hm.2
      simp only [resolveWH, resolveH]
      rw [← b3]
      rcases hes : resolveWH W sc es with ⟨es', rs⟩
      rw [hes] at b1 b2
      cases rs <;> exact ⟨by simp only [eraseL]; rw [b1], by simp only [memoOKL, hm.1, b2, Bool.and_self], rfl⟩
  | .str i :: es, hm => by
      simp only [memoOKL, Bool.and_eq_true] at hm
      obtain ⟨b1, b2, b3⟩ := resolveWH_frame W hW sc es hm.2
      simp only [resolveWH, resolveH]
      rw [← b3]
      rcases hes : resolveWH W sc es with ⟨es', rs⟩
      rw [hes] at b1 b2
      cases rs <;> exact ⟨by simp only [eraseL]; rw [b1], by simp only [memoOKL, hm.1, b2, Bool.and_self], rfl⟩
  | .undef :: es, hm => by
      simp only [memoOKL, Bool.and_eq_true] at hm
      obtain ⟨b1, b2, b3⟩ := resolveWH_frame W hW sc es hm.2
      simp only [resolveWH, resolveH]
      rw [← b3]
      rcases hes : resolveWH W sc es with ⟨es', rs⟩
      rw [hes] at b1 b2
      cases rs <;> exact ⟨by simp only [eraseL]; rw [b1], by simp only [memoOKL, hm.1, b2, Bool.and_self], rfl⟩
  | .ty i :: es, hm => by
      simp only [memoOKL, Bool.and_eq_true] at hm
      obtain ⟨b1, b2, b3⟩ := resolveWH_frame W hW sc es hm.2
      simp only [resolveWH, resolveH]
      rw [← b3]
      rcases hes : resolveWH W sc es with ⟨es', rs⟩
      rw [hes] at b1 b2
      cases rs <;> exact ⟨by simp only [eraseL]; rw [b1], by simp only [memoOKL, hm.1, b2, Bool.and_self], rfl⟩
  | .arr i :: es, hm => by
      simp only [memoOKL, Bool.and_eq_true] at hm
      obtain ⟨b1, b2, b3⟩ := resolveWH_frame W hW sc es hm.2
      simp only [resolveWH, resolveH]
      rw [← b3]
      rcases hes : resolveWH W sc es with ⟨es', rs⟩
      rw [hes] at b1 b2
      cases rs <;> exact ⟨by simp only [eraseL]; rw [b1], by simp only [memoOKL, hm.1, b2, Bool.and_self], rfl⟩
  | .hsh i :: es, hm => by
      simp only [memoOKL, Bool.and_eq_true] at hm
      obtain ⟨b1, b2, b3⟩ := resolveWH_frame W hW sc es hm.2
      simp only [resolveWH, resolveH]
      rw [← b3]
      rcases hes : resolveWH W sc es with ⟨es', rs⟩
      rw [hes] at b1 b2
      cases rs <;> exact ⟨by simp only [eraseL]; rw [b1], by simp only [memoOKL, hm.1, b2, Bool.and_self], rfl⟩
  | .dfr n i :: es, hm => by
      simp only [memoOKL, Bool.and_eq_true] at hm
      obtain ⟨b1, b2, b3⟩ := resolveWH_frame W hW sc es hm.2
      simp only [resolveWH, resolveH]
      rw [← b3]
      rcases hes : resolveWH W sc es with ⟨es', rs⟩
      rw [hes] at b1 b2
      cases rs <;> exact ⟨by simp only [eraseL]; rw [b1], by simp only [memoOKL, hm.1, b2, Bool.and_self], rfl⟩
  | .dty n i :: es, hm => by
      simp only [memoOKL, Bool.and_eq_true] at hm
      obtain ⟨b1, b2, b3⟩ := resolveWH_frame W hW sc es hm.2
      simp only [resolveWH, resolveH]
      rw [← b3]
      rcases hes : resolveWH W sc es with ⟨es', rs⟩
      rw [hes] at b1 b2
      cases rs <;> exact ⟨by simp only [eraseL]; rw [b1], by simp only [memoOKL, hm.1, b2, Bool.and_self], rfl⟩
end

/-! ### resolution does not look at memos: values with the same observable content resolve alike -/

def eraseR : Except RErr RV → Except RErr RV
  | .ok v => .ok v.erase
  | .error e => .error e

def eraseRL : Except RErr (List RV) → Except RErr (List RV)
  | .ok vs => .ok (eraseL vs)
  | .error e => .error e

mutual
theorem erase_idem : ∀ v : RV, v.erase.erase = v.erase
  | .int _ => rfl
  | .str _ => rfl
  | .undef => rfl
  | .ty _ => rfl
  | .dty _ _ => rfl
  | .ent k v => by simp only [RV.erase]; rw [erase_idem k, erase_idem v]
  | .arr xs => by simp only [RV.erase]; rw [eraseL_idem xs]
  | .hsh xs => by simp only [RV.erase]; rw [eraseL_idem xs]
  | .dfr n xs => by simp only [RV.erase]; rw [eraseL_idem xs]
theorem eraseL_idem : ∀ xs : List RV, eraseL (eraseL xs) = eraseL xs
  | [] => rfl
  | x :: xs => by simp only [eraseL]; rw [erase_idem x, eraseL_idem xs]
end

mutual
theorem hashable_erase : ∀ v : RV, v.erase.hashable = v.hashable
  | .int _ => rfl
  | .str _ => rfl
  | .undef => rfl
  | .ty _ => rfl
  | .dty _ _ => rfl
  | .ent k v => by simp only [RV.erase, RV.hashable]; rw [hashable_erase k, hashable_erase v]
  | .arr xs => by simp only [RV.erase, RV.hashable]; rw [hashableL_erase xs]
  | .hsh xs => by simp only [RV.erase, RV.hashable]; rw [hashableL_erase xs]
  | .dfr n xs => rfl
theorem hashableL_erase : ∀ xs : List RV, hashableL (eraseL xs) = hashableL xs
  | [] => rfl
  | x :: xs => by simp only [eraseL, hashableL]; rw [hashable_erase x, hashableL_erase xs]
end

theorem sameKey_erase (a b : RV) : sameKey a.erase b.erase = sameKey a b := by
  cases a <;> cases b <;> simp [sameKey, RV.erase]

theorem hashGet_erase (k : RV) : ∀ es : List RV, hashGet k.erase (eraseL es) = (hashGet k es).erase
  | [] => rfl
  | e :: es => by
      cases e with
      | ent k' v =>
        simp only [eraseL, RV.erase, hashGet, sameKey_erase]
        split
        · rfl
        · exact hashGet_erase k es
      | _ => simp only [eraseL, RV.erase, hashGet]; exact hashGet_erase k es

theorem getD_erase (xs : List RV) (n : Nat) : (eraseL xs)[n]?.getD .undef = (xs[n]?.getD .undef).erase := by
  induction xs generalizing n with
  | nil => simp [eraseL, RV.erase]
  | cons x xs ih =>
    cases n with
    | zero => simp [eraseL]
    | succ n => simpa [eraseL] using ih n

theorem hget_erase (k : RV) (es : List RV) :
    (if k.erase.hashable = true then Except.ok (hashGet k.erase (eraseL es)) else Except.error RErr.invalidKey) =
      eraseR (if k.hashable = true then Except.ok (hashGet k es) else Except.error RErr.invalidKey) := by
  rw [hashable_erase]
  split <;> simp [eraseR, hashGet_erase]

theorem digStep_erase (d k : RV) : digStep d.erase k.erase = eraseR (digStep d k) := by
  cases k with
  | undef => simp [digStep, RV.erase, eraseR]
  | int i =>
    cases d <;> simp only [digStep, RV.erase, eraseR]
    · split <;> simp [RV.erase, getD_erase]
    · exact hget_erase (.int i) _
  | str s =>
    cases d <;> simp only [digStep, RV.erase, eraseR]
    · exact hget_erase (.str s) _
  | ty s =>
    cases d <;> simp only [digStep, RV.erase, eraseR]
    · exact hget_erase (.ty s) _
  | dty n m =>
    cases d <;> simp [digStep, RV.erase, eraseR, RV.hashable]
  | dfr n xs =>
    cases d <;> simp [digStep, RV.erase, eraseR, RV.hashable]
  | arr xs =>
    cases d <;> simp only [digStep, RV.erase, eraseR]
    · have := hget_erase (.arr xs) ‹_›
      simp only [RV.erase] at this
      exact this
  | hsh xs =>
    cases d <;> simp only [digStep, RV.erase, eraseR]
    · have := hget_erase (.hsh xs) ‹_›
      simp only [RV.erase] at this
      exact this
  | ent a b =>
    cases d <;> simp only [digStep, RV.erase, eraseR]
    · have := hget_erase (.ent a b) ‹_›
      simp only [RV.erase] at this
      exact this

theorem dig_erase : ∀ (ks : List RV) (d : RV), dig d.erase (eraseL ks) = eraseR (dig d ks)
  | [], d => rfl
  | k :: ks, d => by
      simp only [eraseL, dig, digStep_erase]
      cases h : digStep d k with
      | error e => simp [eraseR]
      | ok d' => simp only [eraseR]; exact dig_erase ks d'

theorem eraseL_isEmpty : ∀ {xs ys : List RV}, eraseL xs = eraseL ys → xs.isEmpty = ys.isEmpty
  | [], [], _ => rfl
  | [], _ :: _, h => by simp [eraseL] at h
  | _ :: _, [], h => by simp [eraseL] at h
  | _ :: _, _ :: _, _ => rfl

theorem finish_sim (sc : List RV) (n : String) {da da' : List RV} (h : eraseL da = eraseL da') :
    eraseR (finish sc n da) = eraseR (finish sc n da') := by
  unfold finish
  cases varName? n with
  | some vn =>
    simp only
    cases scopeGet sc vn with
    | none => rfl
    | some vv =>
      simp only
      rw [eraseL_isEmpty h]
      split
      · rfl
      · rw [← dig_erase, ← dig_erase, h]
  | none =>
    simp only
    split
    · simp only [eraseR, RV.erase]; rw [h]
    · rfl

mutual
theorem resolve_erase (sc : List RV) : ∀ v : RV, eraseR (resolve sc v) = eraseR (resolve sc v.erase)
  | .int _ => rfl
  | .str _ => rfl
  | .undef => rfl
  | .ty _ => rfl
  | .dty _ _ => by simp [resolve, RV.erase, eraseR]
  | .ent k v => by simp only [resolve, RV.erase, eraseR]; rw [erase_idem k, erase_idem v]
  | .arr xs => by
      have ih := resolveL_erase sc xs
      simp only [resolve, RV.erase]
      cases h1 : resolveL sc xs <;> cases h2 : resolveL sc (eraseL xs) <;> rw [h1, h2] at ih <;>
        simp only [eraseRL, Except.ok.injEq, Except.error.injEq, reduceCtorEq] at ih <;> simp [eraseR, RV.erase, ih]
  | .hsh xs => by
      have ih := resolveH_erase sc xs
      simp only [resolve, RV.erase]
      cases h1 : resolveH sc xs <;> cases h2 : resolveH sc (eraseL xs) <;> rw [h1, h2] at ih <;>
        simp only [eraseRL, Except.ok.injEq, Except.error.injEq, reduceCtorEq] at ih <;> simp [eraseR, RV.erase, ih]
  | .dfr n xs => by
      have ih := resolveL_erase sc xs
      simp only [resolve, RV.erase]
      cases h1 : resolveL sc xs <;> cases h2 : resolveL sc (eraseL xs) <;> rw [h1, h2] at ih <;>
        simp only [eraseRL, Except.ok.injEq, Except.error.injEq, reduceCtorEq] at ih
      · simp [eraseR, ih]
      · exact finish_sim sc n ih
theorem resolveL_erase (sc : List RV) : ∀ xs : List RV, eraseRL (resolveL sc xs) = eraseRL (resolveL sc (eraseL xs))
  | [] => rfl
  | x :: xs => by
      have i1 := resolve_erase sc x
      have i2 := resolveL_erase sc xs
      simp only [resolveL, eraseL]
      cases h1 : resolve sc x <;> cases h2 : resolve sc x.erase <;> rw [h1, h2] at i1 <;>
        simp only [eraseR, Except.ok.injEq, Except.error.injEq, reduceCtorEq] at i1
      · simp [eraseRL, i1]
      · simp only
        cases h3 : resolveL sc xs <;> cases h4 : resolveL sc (eraseL xs) <;> rw [h3, h4] at i2 <;>
          simp only [eraseRL, Except.ok.injEq, Except.error.injEq, reduceCtorEq] at i2 <;> simp [eraseRL, eraseL, i1, i2]
theorem resolveH_erase (sc : List RV) : ∀ es : List RV, eraseRL (resolveH sc es) = eraseRL (resolveH sc (eraseL es))
  | [] => rfl
  | .ent k v :: es => by
      have i1 := resolve_erase sc k
      have i2 := resolve_erase sc v
      have i3 := resolveH_erase sc es
      simp only [resolveH, eraseL, RV.erase]
      cases h1 : resolve sc k <;> cases h2 : resolve sc k.erase <;> rw [h1, h2] at i1 <;>
        simp only [eraseR, Except.ok.injEq, Except.error.injEq, reduceCtorEq] at i1
      · simp [eraseRL, i1]
      · simp only
        cases h3 : resolve sc v <;> cases h4 : resolve sc v.erase <;> rw [h3, h4] at i2 <;>
          simp only [eraseR, Except.ok.injEq, Except.error.injEq, reduceCtorEq] at i2
        · simp [eraseRL, i2]
        · simp only
          cases h5 : resolveH sc es <;> cases h6 : resolveH sc (eraseL es) <;> rw [h5, h6] at i3 <;>
            simp only [eraseRL, Except.ok.injEq, Except.error.injEq, reduceCtorEq] at i3 <;>
            simp [eraseRL, eraseL, RV.erase, i1, i2, i3]
  | .int i :: es => by
      have i3 := resolveH_erase sc es
      simp only [resolveH, eraseL, RV.erase]
      cases h5 : resolveH sc es <;> cases h6 : resolveH sc (eraseL es) <;> rw [h5, h6] at i3 <;>
        simp only [eraseRL, Except.ok.injEq, Except.error.injEq, reduceCtorEq] at i3 <;> simp [eraseRL, eraseL, RV.erase, i3]
  | .str i :: es => by
      have i3 := resolveH_erase sc es
      simp only [resolveH, eraseL, RV.erase]
      cases h5 : resolveH sc es <;> cases h6 : resolveH sc (eraseL es) <;> rw [h5, h6] at i3 <;>
        simp only [eraseRL, Except.ok.injEq, Except.error.injEq, reduceCtorEq] at i3 <;> simp [eraseRL, eraseL, RV.erase, i3]
  | .undef :: es => by
      have i3 := resolveH_erase sc es
      simp only [resolveH, eraseL, RV.erase]
      cases h5 : resolveH sc es <;> cases h6 : resolveH sc (eraseL es) <;> rw [h5, h6] at i3 <;>
        simp only [eraseRL, Except.ok.injEq, Except.error.injEq, reduceCtorEq] at i3 <;> simp [eraseRL, eraseL, RV.erase, i3]
  | .ty i :: es => by
      have i3 := resolveH_erase sc es
      simp only [resolveH, eraseL, RV.erase]
      cases h5 : resolveH sc es <;> cases h6 : resolveH sc (eraseL es) <;> rw [h5, h6] at i3 <;>
        simp only [eraseRL, Except.ok.injEq, Except.error.injEq, reduceCtorEq] at i3 <;> simp [eraseRL, eraseL, RV.erase, i3]
  | .dty n i :: es => by
      have i3 := resolveH_erase sc es
      simp only [resolveH, eraseL, RV.erase]
      cases h5 : resolveH sc es <;> cases h6 : resolveH sc (eraseL es) <;> rw [h5, h6] at i3 <;>
        simp only [eraseRL, Except.ok.injEq, Except.error.injEq, reduceCtorEq] at i3 <;> simp [eraseRL, eraseL, RV.erase, i3]
  | .arr i :: es => by
      have i3 := resolveH_erase sc es
      simp only [resolveH, eraseL, RV.erase]
      cases h5 : resolveH sc es <;> cases h6 : resolveH sc (eraseL es) <;> rw [h5, h6] at i3 <;>
        simp only [eraseRL, Except.ok.injEq, Except.error.injEq, reduceCtorEq] at i3 <;>
        simp [eraseRL, eraseL, RV.erase, i3, eraseL_idem]
  | .hsh i :: es => by
      have i3 := resolveH_erase sc es
      simp only [resolveH, eraseL, RV.erase]
      cases h5 : resolveH sc es <;> cases h6 : resolveH sc (eraseL es) <;> rw [h5, h6] at i3 <;>
        simp only [eraseRL, Except.ok.injEq, Except.error.injEq, reduceCtorEq] at i3 <;>
        simp [eraseRL, eraseL, RV.erase, i3, eraseL_idem]
  | .dfr n i :: es => by
      have i3 := resolveH_erase sc es
      simp only [resolveH, eraseL, RV.erase]
      cases h5 : resolveH sc es <;> cases h6 : resolveH sc (eraseL es) <;> rw [h5, h6] at i3 <;>
        simp only [eraseRL, Except.ok.injEq, Except.error.injEq, reduceCtorEq] at i3 <;>
        simp [eraseRL, eraseL, RV.erase, i3, eraseL_idem]
end

mutual
theorem render_erase : ∀ v : RV, v.erase.render = v.render
  | .int _ => rfl
  | .str _ => rfl
  | .undef => rfl
  | .ty _ => rfl
  | .dty _ _ => by simp [RV.erase, RV.render]
  | .ent k v => by simp only [RV.erase, RV.render]; rw [render_erase k, render_erase v]
  | .arr xs => by simp only [RV.erase, RV.render]; rw [renderL_erase xs]
  | .hsh xs => by simp only [RV.erase, RV.render]; rw [renderH_erase xs]
  | .dfr n xs => by simp only [RV.erase, RV.render]; rw [renderL_erase xs]
theorem renderL_erase : ∀ xs : List RV, renderL (eraseL xs) = renderL xs
  | [] => rfl
  | x :: xs => by simp only [eraseL, renderL]; rw [render_erase x, renderL_erase xs]
theorem renderH_erase : ∀ xs : List RV, renderH (eraseL xs) = renderH xs
  | [] => rfl
  | .ent k v :: xs => by simp only [eraseL, RV.erase, renderH]; rw [render_erase k, render_erase v, renderH_erase xs]
  | .int _ :: xs => by simp only [eraseL, RV.erase, renderH]; rw [renderH_erase xs]
  | .str _ :: xs => by simp only [eraseL, RV.erase, renderH]; rw [renderH_erase xs]
  | .undef :: xs => by simp only [eraseL, RV.erase, renderH]; rw [renderH_erase xs]
  | .ty _ :: xs => by simp only [eraseL, RV.erase, renderH]; rw [renderH_erase xs]
  | .dty _ _ :: xs => by simp only [eraseL, RV.erase, renderH, RV.render]; rw [renderH_erase xs]
  | .arr ys :: xs => by
      have h := render_erase (.arr ys)
      simp only [RV.erase] at h
      simp only [eraseL, RV.erase, renderH]; rw [renderH_erase xs, h]
  | .hsh ys :: xs => by
      have h := render_erase (.hsh ys)
      simp only [RV.erase] at h
      simp only [eraseL, RV.erase, renderH]; rw [renderH_erase xs, h]
  | .dfr n ys :: xs => by
      have h := render_erase (.dfr n ys)
      simp only [RV.erase] at h
      simp only [eraseL, RV.erase, renderH]; rw [renderH_erase xs, h]
end

/-- what is observed of an answer does not depend on memos -/
theorem answerText_eraseR (r : Except RErr RV) : answerText (eraseR r) = answerText r := by
  cases r with
  | error e => rfl
  | ok v => simp only [eraseR, answerText]; rw [render_erase]

/-- values with the same observable content resolve alike (up to memos carried along unresolved) -/
theorem resolve_sim (sc : List RV) {v v' : RV} (h : v.erase = v'.erase) :
    eraseR (resolve sc v) = eraseR (resolve sc v') := by
  rw [resolve_erase sc v, resolve_erase sc v', h]

/-! ### resolutions in sequence -/

theorem resolveSeq_frame (W : Writes) (hW : W.dfrArgs = false) :
    ∀ (scs : List (List RV)) (v : RV), v.memoOK = true →
      (resolveSeq W v scs).1.erase = v.erase ∧ (resolveSeq W v scs).1.memoOK = true ∧
      (resolveSeq W v scs).2.map eraseR = scs.map (fun sc => eraseR (resolve sc v))
  | [], v, hm => ⟨rfl, hm, rfl⟩
  | sc :: scs, v, hm => by
      obtain ⟨a1, a2, a3⟩ := resolveW_frame W hW sc v hm
      obtain ⟨b1, b2, b3⟩ := resolveSeq_frame W hW scs (resolveW W sc v).1 a2
      simp only [resolveSeq, List.map_cons]
      refine ⟨b1.trans a1, b2, ?_⟩
      rw [b3, a3]
      congr 1
      apply List.map_congr_left
      intro sc' _
      exact resolve_sim sc' a1

end Pcore.Immut
