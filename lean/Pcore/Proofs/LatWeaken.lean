import Pcore.Proofs.LatFrag
set_option linter.unusedSimpArgs false
set_option linter.unusedVariables false
/-! Left-weakening principle for `asg`: if the receiver rule of `a'` answers true wherever that of `a` does, then `a'` accepts
    whatever `a` accepts (the right-hand decomposition is the same for every receiver).  Used by C03 (laws, monotonicity,
    widening, reflexivity). -/
namespace Pcore.Lat
variable (cfg : Cfg) (sfh : Bool)

/-- the right-hand side never shows one of the two built-in recursive aliases where `GuardedIsAssignable` decomposes it -/
def Ty.NoAliasR (t : Ty) : Prop :=
  match t with
  | .data | .richData => False
  | .variant ts => ∀ t', ∀ (_ : t' ∈ ts), Ty.NoAliasR t'
  | .optional t' | .notUndef t' => Ty.NoAliasR t'
  | _ => True
termination_by t.w
decreasing_by
  all_goals simp_wf
  all_goals (try simp only [Ty.w, Ty.wl, Ty.wm] at *)
  all_goals first
    | omega
    | (have := Ty.w_lt_wl ‹_ ∈ _›; omega)

/-- a right-hand side the receiver's own rule is asked about: not decomposed, or a NotUndef whose content accepts Undef -/
def RecvPos (b : Ty) : Prop :=
  b.plainR = true ∨ ∃ nt, b = .notUndef nt ∧ asg cfg sfh nt .undef = true

theorem asg_of_recv {a b : Ty} (hb : RecvPos cfg sfh b) (h : asgRecv cfg sfh a b = true) : asg cfg sfh a b = true := by
  rcases hb with hb | ⟨nt, rfl, hnt⟩
  · rw [asg_plain_r cfg sfh a b hb, h]; simp
  · rw [asg_notUndef_r, hnt]; simp [h]

theorem asg_of_isAny {a : Ty} (h : a.isAny = true) (b : Ty) : asg cfg sfh a b = true := by
  cases a <;> simp [Ty.isAny] at h; exact asg_any_l cfg sfh b

/-- if `a'` accepts every right-hand side that reaches the receiver rule and that `a` accepts, it accepts everything `a` accepts -/
theorem left_weaken (a a' : Ty)
    (hR : ∀ b, RecvPos cfg sfh b → asg cfg sfh a b = true → asg cfg sfh a' b = true) :
    ∀ (n : Nat) (b : Ty), b.w ≤ n → b.NoAliasR → asg cfg sfh a b = true → asg cfg sfh a' b = true := by
  intro n
  induction n with
  | zero => intro b h; have := Ty.w_pos b; omega
  | succ n ih =>
    intro b hw hna h
    cases b with
    | unit => exact asg_unit_r cfg sfh a'
    | data => unfold Ty.NoAliasR at hna; exact absurd hna id
    | richData => unfold Ty.NoAliasR at hna; exact absurd hna id
    | optional ot =>
      unfold Ty.NoAliasR at hna
      simp only [Ty.w] at hw
      have h12 : asg cfg sfh a .undef = true ∧ asg cfg sfh a ot = true := by
        rw [asg_optional_r] at h
        simp only [Bool.or_eq_true, Bool.and_eq_true] at h
        rcases h with h | h
        · exact ⟨asg_of_isAny cfg sfh h _, asg_of_isAny cfg sfh h _⟩
        · exact h
      rw [asg_optional_r]
      simp only [Bool.or_eq_true, Bool.and_eq_true]
      right
      exact ⟨ih .undef (by simp [Ty.w]; omega) (by unfold Ty.NoAliasR; trivial) h12.1, ih ot (by omega) hna h12.2⟩
    | variant bs =>
      unfold Ty.NoAliasR at hna
      simp only [Ty.w] at hw
      have hall : ∀ t ∈ bs, asg cfg sfh a t = true := by
        rw [asg_variant_r] at h
        simp only [Bool.or_eq_true] at h
        rcases h with h | h
        · exact fun t _ => asg_of_isAny cfg sfh h t
        · exact (asgAllR_iff cfg sfh a bs).1 h
      rw [asg_variant_r]
      simp only [Bool.or_eq_true]
      right
      rw [asgAllR_iff]
      intro t hm
      exact ih t (by have := Ty.w_lt_wl hm; omega) (hna t hm) (hall t hm)
    | notUndef nt =>
      unfold Ty.NoAliasR at hna
      simp only [Ty.w] at hw
      by_cases hc : asg cfg sfh nt .undef = true
      · exact hR _ (Or.inr ⟨nt, rfl, hc⟩) h
      · have hc' : asg cfg sfh nt .undef = false := by cases hh : asg cfg sfh nt .undef <;> simp_all
        have h1 : asg cfg sfh a nt = true := by
          rw [asg_notUndef_r] at h
          simp only [Bool.or_eq_true] at h
          rcases h with h | h
          · exact asg_of_isAny cfg sfh h _
          · simpa [hc'] using h
        rw [asg_notUndef_r]
        simp only [hc', Bool.not_false, if_true, Bool.or_eq_true]
        right; exact ih nt (by omega) hna h1
    | _ => exact hR _ (Or.inl rfl) h

theorem asg_undef_undef : asg cfg sfh .undef .undef = true := by
  rw [asg_plain_r cfg sfh .undef .undef rfl]; simp [sameNullary]

/-- `Optional[A]` accepts whatever `A` accepts -/
theorem weaken_optional (a b : Ty) (hb : b.NoAliasR) (h : asg cfg sfh a b = true) : asg cfg sfh (.optional a) b = true := by
  apply left_weaken cfg sfh a (.optional a) _ b.w b (Nat.le_refl _) hb h
  intro b hp h
  apply asg_of_recv cfg sfh hp
  unfold asgRecv; simp [h]

/-- `Variant[..A..]` accepts whatever `A` accepts -/
theorem weaken_variant (a : Ty) (ts : List Ty) (hm : a ∈ ts) (b : Ty) (hb : b.NoAliasR) (h : asg cfg sfh a b = true) :
    asg cfg sfh (.variant ts) b = true := by
  apply left_weaken cfg sfh a (.variant ts) _ b.w b (Nat.le_refl _) hb h
  intro b hp h
  apply asg_of_recv cfg sfh hp
  unfold asgRecv; rw [asgAnyL_iff]; exact ⟨a, hm, h⟩

end Pcore.Lat
