import Pcore.Model.ObjectSchema
/-! C17: the Struct instance test on an init-hash — counting lemma and the side condition over the regenerated table. -/
namespace Pcore.Object

/-- the entries of `h` whose key is the name of one of the members -/
def declared (ms : List Member) (h : List (String × SVal)) : List (String × SVal) :=
  h.filter (fun e => ms.any (fun m => m.name == e.1))

theorem lookup_none_iff {h : List (String × SVal)} {k : String} : h.lookup k = none ↔ ∀ e ∈ h, e.1 ≠ k := by
  induction h with
  | nil => simp
  | cons e es ih =>
    obtain ⟨k', v⟩ := e
    simp only [List.lookup_cons]
    by_cases hk : (k == k') = true
    · simp only [hk]
      have : k = k' := by simpa using hk
      subst this
      simp
    · simp only [hk]
      have hne : k ≠ k' := by simpa using hk
      rw [ih]
      constructor
      · intro h' e he
        simp only [List.mem_cons] at he
        rcases he with rfl | he
        · exact fun h'' => hne h''.symm
        · exact h' e he
      · intro h' e he; exact h' e (by simp [he])

theorem lookup_some_mem {h : List (String × SVal)} {k : String} {v : SVal} (hl : h.lookup k = some v) : (k, v) ∈ h := by
  induction h with
  | nil => simp at hl
  | cons e es ih =>
    obtain ⟨k', w⟩ := e
    simp only [List.lookup_cons] at hl
    by_cases hk : (k == k') = true
    · simp [hk] at hl; subst hl; have : k = k' := by simpa using hk
      subst this; simp
    · simp [hk] at hl; simp [ih hl]

/-- a hash with distinct keys holds exactly one entry of a key it holds -/
theorem length_filter_key {h : List (String × SVal)} (hnd : (h.map (·.1)).Nodup) {k : String} {v : SVal}
    (hl : h.lookup k = some v) (p : String × SVal → Bool) (hp : ∀ e ∈ h, e.1 = k → p e = false) :
    (h.filter (fun e => e.1 == k || p e)).length = (h.filter p).length + 1 := by
  induction h with
  | nil => simp at hl
  | cons e es ih =>
    obtain ⟨k', w⟩ := e
    simp only [List.map_cons, List.nodup_cons] at hnd
    simp only [List.lookup_cons] at hl
    by_cases hk : (k == k') = true
    · have hkk : k = k' := by simpa using hk
      subst hkk
      have hpe : p (k, w) = false := hp (k, w) (by simp) rfl
      -- the remaining entries do not hold the key
      have hrest : es.filter (fun e => e.1 == k || p e) = es.filter p := by
        apply List.filter_congr
        intro e he
        have : e.1 ≠ k := fun h' => hnd.1 (by rw [← h']; exact List.mem_map_of_mem he)
        simp [this]
      simp [List.filter_cons, hpe, hrest]
    · have hne : k ≠ k' := by simpa using hk
      simp only [hk] at hl
      have ih' := ih hnd.2 hl (fun e he => hp e (by simp [he]))
      have hk' : (k' == k) = false := by simpa using fun h' : k' = k => hne h'.symm
      by_cases hpe : p (k', w) = true
      · simp [List.filter_cons, hk', hpe, ih']
      · simp [List.filter_cons, hk', hpe, ih']

/-- StructType.IsInstance counts exactly the entries whose key is a declared member — provided the member names are
    distinct; with a repeated member the count is too high (the defect repaired by 54779d2) -/
theorem matchCount_eq {ms : List Member} {h : List (String × SVal)} (hms : (ms.map (·.name)).Nodup)
    (hopt : ∀ m ∈ ms, m.optional = true) (hh : (h.map (·.1)).Nodup)
    (hinst : ∀ m ∈ ms, ∀ v, h.lookup m.name = some v → sinst m.ty v = true) :
    matchCount ms h = some (declared ms h).length := by
  induction ms with
  | nil =>
    have : h.filter (fun _ => false) = [] := List.filter_eq_nil_iff.mpr (by simp)
    simp [matchCount, declared, this]
  | cons m ms ih =>
    simp only [List.map_cons, List.nodup_cons] at hms
    have ih' := ih hms.2 (fun m' hm' => hopt m' (by simp [hm'])) (fun m' hm' => hinst m' (by simp [hm']))
    unfold matchCount
    cases hl : h.lookup m.name with
    | none =>
      simp only [hopt m (by simp), if_true, ih']
      congr 2
      unfold declared
      apply List.filter_congr
      intro e he
      have : e.1 ≠ m.name := lookup_none_iff.mp hl e he
      have : (m.name == e.1) = false := by simpa using fun h' : m.name = e.1 => this h'.symm
      simp [this]
    | some v =>
      simp only [hinst m (by simp) v hl, if_true, ih', Option.map_some]
      congr 1
      unfold declared
      have := length_filter_key hh hl (fun e => ms.any (fun m' => m'.name == e.1)) (by
        intro e _ hek
        simp only [List.any_eq_false, beq_iff_eq]
        intro m' hm' hn
        exact hms.1 (by rw [← hek, ← hn]; exact List.mem_map_of_mem hm'))
      rw [← this]
      congr 1
      apply List.filter_congr
      intro e _
      simp only [List.any_cons]
      congr 1
      by_cases hme : m.name = e.1
      · simp [hme]
      · have h1 : (m.name == e.1) = false := by simpa using hme
        have h2 : (e.1 == m.name) = false := by simpa using fun h' : e.1 = m.name => hme h'.symm
        rw [h1, h2]

theorem structInst_of {ms : List Member} {h : List (String × SVal)} (hms : (ms.map (·.name)).Nodup)
    (hopt : ∀ m ∈ ms, m.optional = true) (hh : (h.map (·.1)).Nodup)
    (hent : ∀ e ∈ h, ∃ m ∈ ms, m.name = e.1 ∧ sinst m.ty e.2 = true) : structInst ms h = true := by
  have hinst : ∀ m ∈ ms, ∀ v, h.lookup m.name = some v → sinst m.ty v = true := by
    intro m hm v hl
    obtain ⟨m', hm', hn, hs⟩ := hent _ (lookup_some_mem hl)
    -- member names are distinct: m' = m
    have : m' = m := by
      clear hopt hh hent hl hs
      induction ms with
      | nil => simp at hm
      | cons x xs ih =>
        simp only [List.map_cons, List.nodup_cons, List.mem_map, not_exists, not_and] at hms
        simp only [List.mem_cons] at hm hm'
        rcases hm with rfl | hm <;> rcases hm' with rfl | hm'
        · rfl
        · exact absurd hn (hms.1 m' hm')
        · exact absurd hn.symm (hms.1 m hm)
        · exact ih hms.2 hm hm'
    subst this
    exact hs
  unfold structInst
  rw [matchCount_eq hms hopt hh hinst]
  have : declared ms h = h := by
    unfold declared
    rw [List.filter_eq_self]
    intro e he
    obtain ⟨m, hm, hn, _⟩ := hent e he
    simp only [List.any_eq_true, beq_iff_eq]
    exact ⟨m, hm, hn⟩
  simp [this]

/-! ### the side condition over the regenerated table -/

def Schema.memberTy (s : Schema) (k : String) : Option STy := (s.members.find? (fun m => m.name == k)).map (·.ty)

/-- the source texts `sinst` was written against -/
def expectedTypeDefs : List (String × String) := [
  ("TypeNamePattern", "regexp.MustCompile(`\\A[A-Z][\\w]*(?:::[A-Z][\\w]*)*\\z`)"),
  ("TypeTypeName", "NewPatternType([]*RegexpType{NewRegexpTypeR(TypeNamePattern)})"),
  ("MemberNamePattern", "regexp.MustCompile(`\\A[a-z_]\\w*\\z`)"),
  ("TypeMemberName", "newPatternType2(NewRegexpTypeR(MemberNamePattern))"),
  ("TypeMemberNames", "newArrayType2(TypeMemberName)"),
  ("TypeAttributes", "NewHashType(TypeMemberName, DefaultNotUndefType(), nil)"),
  ("TypeParameters", "NewHashType(TypeMemberName, DefaultNotUndefType(), nil)"),
  ("TypeFunctions", "NewHashType(newVariantType2(TypeMemberName, newPatternType2(NewRegexpTypeR(regexp.MustCompile(`^\\[]$`)))), DefaultNotUndefType(), nil)"),
  ("TypeEquality", "newVariantType2(TypeMemberName, TypeMemberNames)")]

/-- decidable side condition: no member is listed twice (the original defect), every member is optional, the seven members an
    object definition of the universe uses have the value types the model's `sinst` implements, every key `InitFromHash`
    reads is a declared member, and the definitions those types rest on are the ones the model was written against -/
def schemaOKb (s : Schema) : Bool :=
  decide (s.members.map (·.name)).Nodup &&
  s.members.all (·.optional) &&
  s.memberTy "name" == some .typeName &&
  s.memberTy "parent" == some .typeOrTypeName &&
  s.memberTy "type_parameters" == some .parameters &&
  s.memberTy "attributes" == some .attributes &&
  s.memberTy "constants" == some .constants &&
  s.memberTy "functions" == some .functions &&
  s.memberTy "equality" == some .equality &&
  s.memberTy "equality_include_type" == some .boolean &&
  s.memberTy "serialization" == some .memberNames &&
  s.readKeys.all (fun k => s.members.any (fun m => m.name == k)) &&
  s.typeDefs == expectedTypeDefs

theorem memberTy_mem {s : Schema} {k : String} {ty : STy} (h : s.memberTy k = some ty) :
    ∃ m ∈ s.members, m.name = k ∧ m.ty = ty := by
  unfold Schema.memberTy at h
  cases hf : s.members.find? (fun m => m.name == k) with
  | none => simp [hf] at h
  | some m =>
    simp [hf] at h
    exact ⟨m, List.mem_of_find?_eq_some hf, by simpa using List.find?_some hf, h⟩

end Pcore.Object
