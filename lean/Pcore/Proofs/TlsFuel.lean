import Pcore.Proofs.TlsRefine
/-!
# The fuel of the harness op is always enough (property C14)

`Model/Tls.lean` recurses on an explicit fuel; `run` gives `fuelFor p = 2·size p + 8`.  A goroutine that is run inside another
goroutine's scheduling point gets the fuel LEFT at that leaf, so a chain of nested runs shares one budget.  The budget suffices
because no node of the program is executed twice: with `Φ w` = the total size of the programs of the waiting goroutines,

    size p + Φ w < f   ⟹   `exec .now f p g c w` does not run out of fuel, leaves `oof` as it was,
                            and `Φ (result) + 1 ≤ Φ w + size p`

(`exec_fuel`, induction on `f`): a waiting goroutine that is run takes its own size out of `Φ` and puts back less than that.
Hence `run_oof : (run .now sched p).oof = false` for every program and oracle, and the refinement theorem `run_refines` holds
without its hypothesis (`run_refines_all`).
-/
namespace Pcore.Tls

/-- total size of the programs of the goroutines that wait to be started -/
def phi (w : World) : Nat := (w.pending.map fun t => t.prog.size).sum

theorem size_pos (p : Prog) : 1 ≤ p.size := by
  cases p <;> simp [Prog.size] <;> omega

/-- the result of an execution of a program of size `s` started with waiting programs of total size `n` and flag `o` -/
def Good (n : Nat) (o : Bool) (s : Nat) (r : Outcome × World) : Prop :=
  r.1 ≠ .fuel ∧ r.2.oof = o ∧ phi r.2 + 1 ≤ n + s

theorem phi_of_pending {w w' : World} (h : w'.pending = w.pending) : phi w' = phi w := by simp [phi, h]

theorem exitB_good {g : Gid} {save : Option CtxId} {r : Outcome × World} {n : Nat} {o : Bool} {s : Nat} (h : Good n o s r) :
    Good n o s (exitB g save r) := by
  obtain ⟨h1, h2, h3⟩ := h
  have hp := exitB_pending g save r
  refine ⟨?_, by rw [hp.2]; exact h2, by rw [phi_of_pending hp.1]; exact h3⟩
  unfold exitB
  split
  · exact h1
  · simp [h1]

theorem doWithContext_good {g cx : Nat} {body : World → Outcome × World} {w : World} {s : Nat}
    (hb : ∀ w1, w1.pending = w.pending → w1.oof = w.oof → Good (phi w) w.oof s (body w1)) :
    Good (phi w) w.oof s (doWithContext .now g cx body w) := by
  rw [doWithContext_eq]
  obtain ⟨save, w2, hd⟩ := dwcEnter_some g cx w
  simp only [hd]
  have hp := dwcEnter_pending hd
  exact exitB_good (hb w2 hp.1 hp.2)

theorem doParent_good {g id : Nat} {ctch : Bool} {body : CtxId → World → Outcome × World} {root : Nat} {w : World} {s : Nat}
    (hb : ∀ cx w1, w1.pending = w.pending → w1.oof = w.oof → Good (phi w) w.oof s (body cx w1)) :
    Good (phi w) w.oof s (doParent .now g id ctch body root w) := by
  unfold doParent
  have hd : Good (phi w) w.oof s (doWithContext .now g (forkCtx root w).1
      (fun w4 => body (forkCtx root w).1 (setTag (forkCtx root w).1 id w4)) (forkCtx root w).2) :=
    doWithContext_good (w := (forkCtx root w).2) (fun w1 h1 h2 => hb _ _ h1 h2)
  simp only
  split
  · exact ⟨by simp, hd.2.1, hd.2.2⟩
  · exact hd

theorem doDo_good {g id : Nat} {ctch : Bool} {body : CtxId → World → Outcome × World} {w : World} {s : Nat}
    (hb : ∀ cx w1, w1.pending = w.pending → w1.oof = w.oof → Good (phi w) w.oof s (body cx w1)) :
    Good (phi w) w.oof s (doDo .now g id ctch body w) := by
  simp only [doDo]
  exact doWithContext_good (w := (newCtx { loader := [0] } w).2)
    (fun w1 h1 h2 => by
      have := doParent_good (g := g) (id := id) (ctch := ctch) (body := body) (root := (newCtx { loader := [0] } w).1) (w := w1)
        (s := s) (fun cx w2 h3 h4 => by
          have := hb cx w2 (h3.trans h1) (h4.trans h2)
          rw [phi_of_pending h1, h2]; exact this)
      rw [phi_of_pending h1, h2] at this; exact this)

/-- what the induction hypothesis says about executing with the smaller fuel -/
def FuelOK (f : Nat) : Prop :=
  ∀ p g c w, p.size + phi w < f → Good (phi w) w.oof p.size (exec .now f p g c w)

theorem phi_eraseIdx {w : World} {n : Nat} {t : Task} (ht : w.pending[n]? = some t) :
    phi { w with pending := w.pending.eraseIdx n } + t.prog.size = phi w := by
  simp only [phi]
  generalize w.pending = l at ht
  induction l generalizing n with
  | nil => simp at ht
  | cons a r ih =>
    cases n with
    | zero => simp at ht; subst ht; simp; omega
    | succ n => simp at ht; have := ih ht; simp; omega

/-- a waiting goroutine runs from start to end: it takes its size out of `phi` and puts back less -/
theorem runTask_fuel {f : Nat} (ih : FuelOK f) {w : World} {n : Nat} {t : Task} (ht : w.pending[n]? = some t) (hf : phi w < f) :
    (runTask .now (exec .now f) t { w with pending := w.pending.eraseIdx n }).oof = w.oof ∧
    phi (runTask .now (exec .now f) t { w with pending := w.pending.eraseIdx n }) + 1 ≤ phi w := by
  have he := phi_eraseIdx ht
  generalize hw0 : ({ w with pending := w.pending.eraseIdx n } : World) = w0 at he
  have ho : w0.oof = w.oof := by rw [← hw0]
  rw [runTask_now]
  have hg := ih t.prog t.gid t.ctx (setTag t.ctx (1000 + t.gid) (note t.gid t.ctx (tlFresh t.gid t.ctx w0)))
    (by have : phi (setTag t.ctx (1000 + t.gid) (note t.gid t.ctx (tlFresh t.gid t.ctx w0))) = phi w0 := rfl
        rw [this]; omega)
  generalize exec .now f t.prog t.gid t.ctx (setTag t.ctx (1000 + t.gid) (note t.gid t.ctx (tlFresh t.gid t.ctx w0))) = r at hg
  obtain ⟨h1, h2, h3⟩ := hg
  have h2' : r.2.oof = w.oof := by rw [h2]; exact ho
  have h3' : phi r.2 + 1 ≤ phi w0 + t.prog.size := h3
  refine ⟨?_, ?_⟩
  · show (r.2.oof || decide (r.1 = .fuel)) = w.oof
    simp [h1, h2']
  · show phi r.2 + 1 ≤ phi w
    omega

theorem yield_fuel {f : Nat} (ih : FuelOK f) {w : World} (hf : phi w < f) :
    (yield .now (exec .now f) w).oof = w.oof ∧ phi (yield .now (exec .now f) w) ≤ phi w := by
  unfold yield
  split
  · exact ⟨rfl, Nat.le_refl _⟩
  · rename_i d s hs
    simp only
    split
    · exact ⟨rfl, Nat.le_refl _⟩
    · split
      · exact ⟨rfl, Nat.le_refl _⟩
      · rename_i t ht
        have := runTask_fuel ih (w := { w with sched := s }) ht hf
        exact ⟨this.1, Nat.le_of_succ_le this.2⟩

theorem exec_fuel : ∀ f, FuelOK f := by
  intro f
  induction f with
  | zero => intro p g c w h; omega
  | succ f ih =>
    intro p g c w hf
    cases p with
    | skip => exact ⟨by simp [exec], rfl, by simp [exec, Prog.size]⟩
    | leaf l =>
      simp only [exec, Prog.size] at hf ⊢
      obtain ⟨y1, y2⟩ := yield_fuel ih (w := w) (by omega)
      have hp := leafStep_pending g c l (yield .now (exec .now f) w)
      refine ⟨?_, by rw [hp.2]; exact y1, by rw [phi_of_pending hp.1]; omega⟩
      rcases leafStep_outcome g c l (yield .now (exec .now f) w) with h | h <;> simp [h]
    | seq p q =>
      simp only [exec, Prog.size] at hf ⊢
      obtain ⟨a1, a2, a3⟩ := ih p g c w (by omega)
      generalize exec .now f p g c w = r1 at a1 a2 a3
      rcases r1 with ⟨o1, w1⟩
      cases o1 with
      | fuel => exact absurd rfl a1
      | normal =>
        simp only at a2 a3 ⊢
        obtain ⟨b1, b2, b3⟩ := ih q g c w1 (by omega)
        exact ⟨b1, by rw [b2]; exact a2, by omega⟩
      | panicked => exact ⟨by simp, a2, by simp only at a3 ⊢; omega⟩
    | recover p =>
      simp only [exec, Prog.size] at hf ⊢
      obtain ⟨a1, a2, a3⟩ := ih p g c w (by omega)
      generalize exec .now f p g c w = r1 at a1 a2 a3
      rcases r1 with ⟨o1, w1⟩
      cases o1 with
      | fuel => exact absurd rfl a1
      | normal => exact ⟨by simp, a2, by simp only at a3 ⊢; omega⟩
      | panicked => exact ⟨by simp, a2, by simp only at a3 ⊢; show phi w1 + 1 ≤ _; omega⟩
    | doctx id p =>
      simp only [exec, Prog.size] at hf ⊢
      have := doWithContext_good (g := g) (cx := (forkCtx c w).1) (body := fun w2 => exec .now f p g (forkCtx c w).1 w2)
        (w := setTag (forkCtx c w).1 id (forkCtx c w).2) (s := p.size)
        (fun w1 h1 h2 => by
          have e1 : phi w1 = phi w := phi_of_pending h1
          have e2 : w1.oof = w.oof := h2
          have := ih p g (forkCtx c w).1 w1 (by omega)
          rw [e1, e2] at this
          exact this)
      exact ⟨this.1, this.2.1, by have := this.2.2; show _ ≤ phi w + (p.size + 1); have e : phi (setTag (forkCtx c w).1 id (forkCtx c w).2) = phi w := rfl; omega⟩
    | dodo id p =>
      simp only [exec, Prog.size] at hf ⊢
      have := doDo_good (g := g) (id := id) (ctch := false) (body := fun cx w1 => exec .now f p g cx w1) (w := w) (s := p.size)
        (fun cx w1 h1 h2 => by
          have e1 : phi w1 = phi w := phi_of_pending h1
          have := ih p g cx w1 (by omega)
          rw [e1, h2] at this
          exact this)
      exact ⟨this.1, this.2.1, by have := this.2.2; omega⟩
    | dotry id p =>
      simp only [exec, Prog.size] at hf ⊢
      have := doDo_good (g := g) (id := id) (ctch := true) (body := fun cx w1 => exec .now f p g cx w1) (w := w) (s := p.size)
        (fun cx w1 h1 h2 => by
          have e1 : phi w1 = phi w := phi_of_pending h1
          have := ih p g cx w1 (by omega)
          rw [e1, h2] at this
          exact this)
      exact ⟨this.1, this.2.1, by have := this.2.2; omega⟩
    | doloader p =>
      simp only [exec, Prog.size] at hf ⊢
      generalize hw1 : ctxUpd c (fun y => { y with loader := (newLoader w).1 :: (w.ctxs c).loader }) (newLoader w).2 = w1
      have e1 : phi w1 = phi w := by rw [← hw1]; rfl
      have e2 : w1.oof = w.oof := by rw [← hw1]; rfl
      obtain ⟨a1, a2, a3⟩ := ih p g c w1 (by omega)
      generalize exec .now f p g c w1 = r at a1 a2 a3
      refine ⟨a1, ?_, ?_⟩
      · show r.2.oof = w.oof
        rw [a2, e2]
      · show phi r.2 + 1 ≤ phi w + (p.size + 1)
        omega
    | fork p =>
      simp only [exec, Prog.size] at hf ⊢
      refine ⟨by simp, rfl, ?_⟩
      rw [spawn_now]
      simp [phi]
      omega
    | go p =>
      simp only [exec, Prog.size] at hf ⊢
      split
      · exact ⟨by simp, rfl, by show phi w + 1 ≤ _; omega⟩
      · refine ⟨by simp, rfl, ?_⟩
        rw [spawn_now]
        simp [phi]
        omega

theorem phi_zero_pending {w : World} (h : phi w = 0) : w.pending = [] := by
  cases hp : w.pending with
  | nil => rfl
  | cons t r =>
    have : 1 ≤ phi w := by
      simp only [phi, hp, List.map_cons, List.sum_cons]
      have := size_pos t.prog
      omega
    omega

theorem drain_fuel (fuel : Nat) : ∀ (n : Nat) (w : World), phi w < fuel → phi w ≤ n →
    (drain .now fuel n w).oof = w.oof := by
  intro n
  induction n with
  | zero =>
    intro w _ h0
    have : w.pending = [] := phi_zero_pending (Nat.le_zero.1 h0)
    simp [drain, this]
  | succ n ih =>
    intro w hf hn
    simp only [drain]
    split
    · rfl
    · rename_i t r hp
      have ht : w.pending[0]? = some t := by rw [hp]; rfl
      have he : r = w.pending.eraseIdx 0 := by rw [hp]; rfl
      rw [he]
      obtain ⟨h1, h2⟩ := runTask_fuel (exec_fuel fuel) ht hf
      rw [ih _ (by omega) (by omega), h1]

/-- **the op never runs out of fuel** -/
theorem run_oof (sched : List Nat) (p : Prog) : (run .now sched p).oof = false := by
  simp only [run]
  have h0 : phi ({ sched := sched } : World) = 0 := rfl
  obtain ⟨h1, h2, h3⟩ := exec_fuel (fuelFor p) (.dodo 1000 p) 0 0 { sched := sched }
    (by rw [h0]; simp [Prog.size, fuelFor]; omega)
  generalize exec .now (fuelFor p) (.dodo 1000 p) 0 0 { sched := sched } = r at h1 h2 h3
  have e : ({ emit 0 (.done r.1) r.2 with oof := (emit 0 (.done r.1) r.2).oof || decide (r.1 = .fuel) } : World) =
      emit 0 (.done r.1) r.2 := by
    have : decide (r.1 = Outcome.fuel) = false := by simpa using h1
    simp only [this, Bool.or_false]
  rw [e]
  have hphi : phi (emit 0 (.done r.1) r.2) = phi r.2 := rfl
  rw [h0] at h3
  simp only [Prog.size] at h3
  rw [drain_fuel (fuelFor p) (fuelFor p) _ (by rw [hphi]; simp [fuelFor]; omega) (by rw [hphi]; simp [fuelFor]; omega)]
  exact h2

/-- **Refinement, unconditionally**: every big-step run of the harness op is a complete execution of the small-step model with
the same shared state -/
theorem run_refines_all (sched : List Nat) (p : Prog) :
    ∃ steps, (Cfg.steps steps (Cfg.init p)).w = strip (run .now sched p) ∧
      (∀ g ∈ (Cfg.steps steps (Cfg.init p)).gs, g.done = true) ∧ (run .now sched p).pending = [] :=
  run_refines sched p (run_oof sched p)

end Pcore.Tls
