import Pcore.Model.SerSpec
/-! Helper lemmas for C10, part 1: positions, hash alternation, capabilities (stream laws that need no sharing
    hypothesis).  Property theorems are in `Pcore/Props/C10.lean`. -/
namespace Pcore.Ser

theorem nposList_append (a b : List Ev) : nposList (a ++ b) = nposList a + nposList b := by
  induction a with
  | nil => simp [nposList]
  | cons e es ih => simp [nposList, ih]; omega

theorem wfList_append (sk nb : Bool) (a b : List Ev) : wfList sk nb (a ++ b) = (wfList sk nb a && wfList sk nb b) := by
  induction a with
  | nil => simp [wfList]
  | cons e es ih => simp [wfList, ih, Bool.and_assoc]

/-! ### `record` and `seen` do not touch the event or the position counter -/

@[simp] theorem record_fst (c : Cfg) (k : Key) (pos : Nat) (r : Ev × St) : (record c k pos r).1 = r.1 := by
  unfold record; split <;> try rfl
  split <;> try rfl
  split <;> rfl

@[simp] theorem record_ref (c : Cfg) (k : Key) (pos : Nat) (r : Ev × St) : (record c k pos r).2.ref = r.2.ref := by
  unfold record; split <;> try rfl
  split <;> try rfl
  split <;> rfl

@[simp] theorem bump_ref (st : St) : (bump st).ref = st.ref + 1 := rfl
@[simp] theorem bump_vals (st : St) : (bump st).vals = st.vals := rfl
@[simp] theorem addData_fst (d : Sc) (st : St) : (addData d st).1 = .add d := rfl
@[simp] theorem addData_snd (d : Sc) (st : St) : (addData d st).2 = bump st := rfl

/-- what `strData` emits: the string itself or a back-reference -/
theorem strData_cases (c : Cfg) (level : Nat) (s : String) (st : St) :
    ((strData c level s st).1 = .add (.str s) ∧ (strData c level s st).2.ref = st.ref + 1) ∨
    ((∃ r, (strData c level s st).1 = .ref r) ∧ (strData c level s st).2 = st ∧ level ≤ c.dedup) := by
  unfold strData
  split
  · rename_i h
    split
    · right; exact ⟨⟨_, rfl⟩, rfl, h.1⟩
    · left; simp
  · left; simp

/-- a string below the de-duplication level is always sent in full -/
theorem strData_plain (c : Cfg) (level : Nat) (s : String) (st : St) (h : c.dedup < level) :
    (strData c level s st).1 = .add (.str s) := by
  rcases strData_cases c level s st with h' | ⟨_, _, h'⟩
  · exact h'.1
  · omega

theorem strData_npos (c : Cfg) (level : Nat) (s : String) (st : St) :
    (strData c level s st).2.ref = st.ref + (strData c level s st).1.npos := by
  rcases strData_cases c level s st with ⟨h1, h2⟩ | ⟨⟨r, h1⟩, h2, _⟩
  · rw [h1, h2]; simp [Ev.npos]
  · rw [h1, h2]; simp [Ev.npos]

theorem strData_wf (c : Cfg) (level : Nat) (s : String) (st : St) (sk nb : Bool) :
    (strData c level s st).1.wf sk nb = true := by
  rcases strData_cases c level s st with ⟨h1, _⟩ | ⟨⟨r, h1⟩, _, _⟩ <;> rw [h1] <;> simp [Ev.wf, Ev.isBin]

/-- the head of a typed hash: three events, keys at level 2 -/
theorem head3_spec (c : Cfg) (tl : Nat) (tn : String) (st : St) (sk nb : Bool) (hk : sk = true → c.dedup ≤ 1) :
    ∃ k1 v1 k2, (head3 c tl tn st).1 = [k1, v1, k2] ∧ (!sk || k1.isStr) = true ∧ (!sk || k2.isStr) = true ∧
      k1.wf sk nb = true ∧ v1.wf sk nb = true ∧ k2.wf sk nb = true ∧
      (head3 c tl tn st).2.ref = st.ref + (k1.npos + v1.npos + k2.npos) := by
  refine ⟨_, _, _, rfl, ?_, ?_, strData_wf .., strData_wf .., strData_wf .., ?_⟩
  · cases sk with
    | false => rfl
    | true => simp [strData_plain c 2 _ _ (by have := hk rfl; omega), Ev.isStr]
  · cases sk with
    | false => rfl
    | true => simp [strData_plain c 2 _ _ (by have := hk rfl; omega), Ev.isStr]
  · simp only [head3]
    rw [strData_npos c 2 "__pvalue", strData_npos c tl tn, strData_npos c 2 "__ptype"]
    omega

theorem allStrKeys_cons {k v : V} {es : List (V × V)} (h : allStrKeys ((k, v) :: es) = true) :
    (∃ s, k = .str s) ∧ allStrKeys es = true := by
  simp only [allStrKeys, Bool.and_eq_true] at h
  refine ⟨?_, h.2⟩
  cases k <;> simp [V.isStr] at h
  exact ⟨_, rfl⟩

/-- the statement proved by mutual induction: the emitted event is well formed for the consumer's capabilities and
    the position counter advanced by exactly the positions the event consumes -/
def Good (sk nb : Bool) (st : St) (r : Ev × St) : Prop :=
  r.1.wf sk nb = true ∧ r.2.ref = st.ref + r.1.npos

def GoodL (sk nb : Bool) (st : St) (r : List Ev × St) : Prop :=
  wfList sk nb r.1 = true ∧ r.2.ref = st.ref + nposList r.1

theorem good_record {sk nb : Bool} {st : St} {r : Ev × St} (c : Cfg) (k : Key) (pos : Nat) (h : Good sk nb st r) :
    Good sk nb st (record c k pos r) := by
  simpa [Good] using h

theorem good_strData (c : Cfg) (level : Nat) (s : String) (st : St) (sk nb : Bool) :
    Good sk nb st (strData c level s st) := ⟨strData_wf .., strData_npos ..⟩

mutual
theorem toData_good (c : Cfg) (sk nb : Bool) (hk : sk = true → c.cplx = false ∧ c.dedup ≤ 1) (hb : nb = true → c.bin = false) :
    ∀ (level : Nat) (v : V) (st : St), Good sk nb st (toData c level v st)
  | _, .undef, st => by simp [toData, Good, Ev.wf, Ev.isBin, Ev.npos]
  | _, .bool _, st => by simp [toData, Good, Ev.wf, Ev.isBin, Ev.npos]
  | _, .int _, st => by simp [toData, Good, Ev.wf, Ev.isBin, Ev.npos]
  | _, .flt _, st => by simp [toData, Good, Ev.wf, Ev.isBin, Ev.npos]
  | level, .str s, st => by simpa [toData] using good_strData c level s st sk nb
  | _, .dflt, st => by
      simp only [toData]
      split
      · refine ⟨?_, ?_⟩
        · simp only [Ev.wf, hkeys, wfList, strData_wf, Bool.and_true]
          cases sk with
          | false => rfl
          | true => simp [strData_plain c 2 _ _ (by have := (hk rfl).2; omega), Ev.isStr]
        · simp only [Ev.npos, nposList]
          rw [strData_npos c 1 "Default", strData_npos c 2 "__ptype"]; simp; omega
      · exact good_strData ..
  | _, .hash id es, st => by
      simp only [toData]
      split
      · simp [Good, Ev.wf, Ev.npos]
      · split
        · rename_i hc
          apply good_record
          have hs : sk = true → allStrKeys es = true := by
            intro h; have := (hk h).1; simpa [this] using hc
          have ih := pairsData_good c sk nb hk hb es (bump st) hs
          refine ⟨?_, ?_⟩
          · simpa [Ev.wf] using ⟨ih.1, ih.2.1⟩
          · simp only [Ev.npos]; rw [ih.2.2]; simp; omega
        · split
          · apply good_record
            obtain ⟨k1, v1, k2, h3, hk1, hk2, w1, w2, w3, hn⟩ := head3_spec c 1 "Hash" (bump st) sk nb (fun h => (hk h).2)
            have ih := flatData_good c sk nb hk hb es (bump (head3 c 1 "Hash" (bump st)).2)
            refine ⟨?_, ?_⟩
            · simp only [h3, Ev.wf, List.cons_append, List.nil_append, hkeys, wfList, w1, w2, w3, ih.1, hk1, hk2, Bool.and_true]
            · simp only [h3, Ev.npos, List.cons_append, List.nil_append, nposList]
              rw [ih.2]; simp [hn]; omega
          · apply good_record
            have ih := skeyData_good c sk nb hk hb es (bump st)
            refine ⟨?_, ?_⟩
            · simpa [Ev.wf] using ⟨ih.1, ih.2.1⟩
            · simp only [Ev.npos]; rw [ih.2.2]; simp; omega
  | _, .arr id vs, st => by
      simp only [toData]
      split
      · simp [Good, Ev.wf, Ev.npos]
      · apply good_record
        have ih := listData_good c sk nb hk hb vs (bump st)
        refine ⟨?_, ?_⟩
        · simpa [Ev.wf] using ih.1
        · simp only [Ev.npos]; rw [ih.2]; simp; omega
  | level, .sens id v, st => by
      simp only [toData]
      split
      · simp [Good, Ev.wf, Ev.npos]
      · split
        · apply good_record
          obtain ⟨k1, v1, k2, h3, hk1, hk2, w1, w2, w3, hn⟩ := head3_spec c 1 "Sensitive" (bump st) sk nb (fun h => (hk h).2)
          have ih := toData_good c sk nb hk hb 1 v (head3 c 1 "Sensitive" (bump st)).2
          refine ⟨?_, ?_⟩
          · simp only [h3, Ev.wf, List.cons_append, List.nil_append, hkeys, wfList, w1, w2, w3, ih.1, hk1, hk2, Bool.and_true]
          · simp only [h3, Ev.npos, List.cons_append, List.nil_append, nposList]
            rw [ih.2]; simp [hn]; omega
        · exact good_record _ _ _ (good_strData ..)
  | level, .bin id bs, st => by
      simp only [toData]
      split
      · simp [Good, Ev.wf, Ev.npos]
      · split
        · rename_i hbin
          apply good_record
          have : nb = false := by
            cases nb with
            | false => rfl
            | true => have := hb rfl; simp [this] at hbin
          simp [Good, Ev.wf, Ev.npos, this]
        · split
          · apply good_record
            obtain ⟨k1, v1, k2, h3, hk1, hk2, w1, w2, w3, hn⟩ := head3_spec c 1 "Binary" (bump st) sk nb (fun h => (hk h).2)
            have ih := good_strData c 1 (b64 bs) (head3 c 1 "Binary" (bump st)).2 sk nb
            refine ⟨?_, ?_⟩
            · simp only [h3, Ev.wf, List.cons_append, List.nil_append, hkeys, wfList, w1, w2, w3, ih.1, hk1, hk2, Bool.and_true]
            · simp only [h3, Ev.npos, List.cons_append, List.nil_append, nposList]
              rw [ih.2]; simp [hn]; omega
          · exact good_record _ _ _ (good_strData ..)
  | _, .leaf id k enc disp, st => by
      simp only [toData]
      split
      · split
        · simp [Good, Ev.wf, Ev.npos]
        · apply good_record
          obtain ⟨k1, v1, k2, h3, hk1, hk2, w1, w2, w3, hn⟩ := head3_spec c k.typeLevel k.typeName (bump st) sk nb (fun h => (hk h).2)
          have ih := good_strData c 1 enc (head3 c k.typeLevel k.typeName (bump st)).2 sk nb
          refine ⟨?_, ?_⟩
          · simp only [h3, Ev.wf, List.cons_append, List.nil_append, hkeys, wfList, w1, w2, w3, ih.1, hk1, hk2, Bool.and_true]
          · simp only [h3, Ev.npos, List.cons_append, List.nil_append, nposList]
            rw [ih.2]; simp [hn]; omega
      · exact good_strData ..
  | _, .obj id tn disp attrs, st => by
      simp only [toData]
      split
      · split
        · simp [Good, Ev.wf, Ev.npos]
        · apply good_record
          have h1 := good_strData c 2 "__ptype" (bump st) sk nb
          have h2 := good_strData c 1 tn (strData c 2 "__ptype" (bump st)).2 sk nb
          have ih := attrsData_good c sk nb hk hb attrs (strData c 1 tn (strData c 2 "__ptype" (bump st)).2).2
          have hkey : (!sk || (strData c 2 "__ptype" (bump st)).1.isStr) = true := by
            cases sk with
            | false => rfl
            | true => simp [strData_plain c 2 _ _ (by have := (hk rfl).2; omega), Ev.isStr]
          refine ⟨?_, ?_⟩
          · simp only [Ev.wf, hkeys, wfList, h1.1, h2.1, ih.1, ih.2.1, hkey, Bool.and_true]
          · simp only [Ev.npos, nposList]
            rw [ih.2.2, h2.2, h1.2]; simp; omega
      · exact good_strData ..

theorem listData_good (c : Cfg) (sk nb : Bool) (hk : sk = true → c.cplx = false ∧ c.dedup ≤ 1) (hb : nb = true → c.bin = false) :
    ∀ (vs : List V) (st : St), GoodL sk nb st (listData c vs st)
  | [], st => by simp [listData, GoodL, wfList, nposList]
  | v :: vs, st => by
      have h1 := toData_good c sk nb hk hb 1 v st
      have h2 := listData_good c sk nb hk hb vs (toData c 1 v st).2
      simp only [listData, GoodL, wfList, nposList, h1.1, h2.1, Bool.and_true, true_and]
      rw [h2.2, h1.2]; omega

/-- hash children: alternation (and string keys when `sk`) -/
theorem pairsData_good (c : Cfg) (sk nb : Bool) (hk : sk = true → c.cplx = false ∧ c.dedup ≤ 1) (hb : nb = true → c.bin = false) :
    ∀ (es : List (V × V)) (st : St), (sk = true → allStrKeys es = true) →
      hkeys sk (pairsData c es st).1 = true ∧ GoodL sk nb st (pairsData c es st)
  | [], st, _ => by simp [pairsData, GoodL, wfList, nposList, hkeys]
  | (k, v) :: es, st, hs => by
      have h1 := toData_good c sk nb hk hb 2 k st
      have h2 := toData_good c sk nb hk hb 1 v (toData c 2 k st).2
      have h3 := pairsData_good c sk nb hk hb es (toData c 1 v (toData c 2 k st).2).2
        (fun h => (allStrKeys_cons (hs h)).2)
      have hkey : (!sk || (toData c 2 k st).1.isStr) = true := by
        cases sk with
        | false => rfl
        | true =>
          obtain ⟨s, rfl⟩ := (allStrKeys_cons (hs rfl)).1
          simp [toData, strData_plain c 2 s st (by have := (hk rfl).2; omega), Ev.isStr]
      simp only [pairsData, GoodL, wfList, nposList, hkeys, h1.1, h2.1, h3.1, h3.2.1, hkey, Bool.and_true, true_and]
      rw [h3.2.2, h2.2, h1.2]; omega

theorem flatData_good (c : Cfg) (sk nb : Bool) (hk : sk = true → c.cplx = false ∧ c.dedup ≤ 1) (hb : nb = true → c.bin = false) :
    ∀ (es : List (V × V)) (st : St), GoodL sk nb st (flatData c es st)
  | [], st => by simp [flatData, GoodL, wfList, nposList]
  | (k, v) :: es, st => by
      have h1 := toData_good c sk nb hk hb 1 k st
      have h2 := toData_good c sk nb hk hb 1 v (toData c 1 k st).2
      have h3 := flatData_good c sk nb hk hb es (toData c 1 v (toData c 1 k st).2).2
      simp only [flatData, GoodL, wfList, nposList, h1.1, h2.1, h3.1, Bool.and_true, true_and]
      rw [h3.2, h2.2, h1.2]; omega

theorem skeyData_good (c : Cfg) (sk nb : Bool) (hk : sk = true → c.cplx = false ∧ c.dedup ≤ 1) (hb : nb = true → c.bin = false) :
    ∀ (es : List (V × V)) (st : St),
      hkeys sk (skeyData c es st).1 = true ∧ GoodL sk nb st (skeyData c es st)
  | [], st => by simp [skeyData, GoodL, wfList, nposList, hkeys]
  | (k, v) :: es, st => by
      have h1 := good_strData c 2 k.disp st sk nb
      have h2 := toData_good c sk nb hk hb 1 v (strData c 2 k.disp st).2
      have h3 := skeyData_good c sk nb hk hb es (toData c 1 v (strData c 2 k.disp st).2).2
      have hkey : (!sk || (strData c 2 k.disp st).1.isStr) = true := by
        cases sk with
        | false => rfl
        | true => simp [strData_plain c 2 k.disp st (by have := (hk rfl).2; omega), Ev.isStr]
      simp only [skeyData, GoodL, wfList, nposList, hkeys, h1.1, h2.1, h3.1, h3.2.1, hkey, Bool.and_true, true_and]
      rw [h3.2.2, h2.2, h1.2]; omega

theorem attrsData_good (c : Cfg) (sk nb : Bool) (hk : sk = true → c.cplx = false ∧ c.dedup ≤ 1) (hb : nb = true → c.bin = false) :
    ∀ (as : List (String × V)) (st : St),
      hkeys sk (attrsData c as st).1 = true ∧ GoodL sk nb st (attrsData c as st)
  | [], st => by simp [attrsData, GoodL, wfList, nposList, hkeys]
  | (k, v) :: as, st => by
      have h1 := good_strData c 2 k st sk nb
      have h2 := toData_good c sk nb hk hb 1 v (strData c 2 k st).2
      have h3 := attrsData_good c sk nb hk hb as (toData c 1 v (strData c 2 k st).2).2
      have hkey : (!sk || (strData c 2 k st).1.isStr) = true := by
        cases sk with
        | false => rfl
        | true => simp [strData_plain c 2 k st (by have := (hk rfl).2; omega), Ev.isStr]
      simp only [attrsData, GoodL, wfList, nposList, hkeys, h1.1, h2.1, h3.1, h3.2.1, hkey, Bool.and_true, true_and]
      rw [h3.2.2, h2.2, h1.2]; omega
end

/-! ### the collector consumes exactly `npos` positions -/

mutual
theorem collect_len : ∀ (e : Ev) (vals : List Slot) (d : V) (vals' : List Slot),
    collect e vals = .ok (d, vals') → vals'.length = vals.length + e.npos
  | .add d, vals, _, _, h => by
      simp only [collect, Except.ok.injEq, Prod.mk.injEq] at h
      rw [← h.2]; simp [Ev.npos]
  | .ref n, vals, _, _, h => by
      simp only [collect] at h
      split at h <;> simp at h
      rw [← h.2]; simp [Ev.npos]
  | .arr es, vals, _, _, h => by
      simp only [collect] at h
      split at h
      · simp at h
      · rename_i kids vals1 hc
        simp only [Except.ok.injEq, Prod.mk.injEq] at h
        have := collectList_len es _ _ _ hc
        rw [← h.2]; simp [Ev.npos, this]; omega
  | .hsh es, vals, _, _, h => by
      simp only [collect] at h
      split at h
      · simp at h
      · rename_i kids vals1 hc
        split at h
        · simp at h
        · simp only [Except.ok.injEq, Prod.mk.injEq] at h
          have := collectList_len es _ _ _ hc
          rw [← h.2]; simp [Ev.npos, this]; omega
theorem collectList_len : ∀ (es : List Ev) (vals : List Slot) (ds : List V) (vals' : List Slot),
    collectList es vals = .ok (ds, vals') → vals'.length = vals.length + nposList es
  | [], vals, _, _, h => by
      simp only [collectList, Except.ok.injEq, Prod.mk.injEq] at h
      rw [← h.2]; simp [nposList]
  | e :: es, vals, _, _, h => by
      simp only [collectList] at h
      split at h
      · simp at h
      · rename_i v vals1 hc
        split at h
        · simp at h
        · rename_i vs vals2 hc2
          simp only [Except.ok.injEq, Prod.mk.injEq] at h
          have h1 := collect_len e _ _ _ hc
          have h2 := collectList_len es _ _ _ hc2
          rw [← h.2, h2, h1]; simp [nposList]; omega
end

end Pcore.Ser
