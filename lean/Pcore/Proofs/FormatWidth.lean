import Pcore.Proofs.FormatLetters
import Pcore.Proofs.FormatRadix
/-! Width and padding side: every non-float path ends in a padding step that reaches the requested width with
    blanks on the left, or on the right with `-`. -/
namespace Pcore.Format

/-- what fmt makes of the format handed over agrees with the Format record (established for every parsed format by
    `parseFormat_goOK`; decidable for a concrete format) -/
def GoOK0 (f : Fmt) : Prop :=
  match goParse (goFormat f) with
  | some g => g.verb = f.letter ∧ g.wid = f.width ∧ g.prec = f.prec ∧ g.minus = f.left ∧ g.sharp = f.alt ∧ g.zero = f.zeroPad ∧
      ((g.plus || g.space) = f.plus.isSome)
  | none => False

instance (f : Fmt) : Decidable (GoOK0 f) := by unfold GoOK0; split <;> infer_instance

/-- a format string handed to fmt parses to a directive with the verb `c` -/
def VerbOK (fm : Str) (c : Char) : Prop :=
  match goParse fm with
  | some g => g.verb = c
  | none => False

instance (fm : Str) (c : Char) : Decidable (VerbOK fm c) := by unfold VerbOK; split <;> infer_instance

/-- the format strings the float path derives with `unParse` are understood by fmt too -/
def FloatOK (f : Fmt) : Prop :=
  VerbOK (goFormat (withoutWidth f)) f.letter ∧ VerbOK (goFormat (replaceFormatChar f 'e')) 'e' ∧
  VerbOK (goFormat (replaceFormatChar f 'E')) 'E'

instance (f : Fmt) : Decidable (FloatOK f) := by unfold FloatOK; infer_instance

/-- every format string pcore hands to fmt for this Format is a directive fmt understands, with the record's fields -/
def GoOK (f : Fmt) : Prop := GoOK0 f ∧ FloatOK f

instance (f : Fmt) : Decidable (GoOK f) := by unfold GoOK; infer_instance

theorem GoOK.spec {f : Fmt} (h' : GoOK f) : ∃ g, goParse (goFormat f) = some g ∧ g.verb = f.letter ∧ g.wid = f.width ∧
    g.prec = f.prec ∧ g.minus = f.left ∧ g.sharp = f.alt ∧ g.zero = f.zeroPad := by
  have h := h'.1
  unfold GoOK0 at h
  split at h
  · rename_i g hg; exact ⟨g, hg, h.1, h.2.1, h.2.2.1, h.2.2.2.1, h.2.2.2.2.1, h.2.2.2.2.2.1⟩
  · exact absurd h id

/-! ### width -/

theorem goFmtS_width (minus : Bool) (w : Nat) (prec : Option Nat) (s : Str) : w ≤ (goFmtS minus false (some w) prec s).length := by
  unfold goFmtS; exact goPad_length_ge _ _ _ _

theorem applyStringFlags_width (f : Fmt) (s : Str) (q : Bool) (w : Nat) (hw : f.width = some w) :
    w ≤ (applyStringFlags f s q).length := by
  unfold applyStringFlags
  have : hasStringFlags f = true := by simp [hasStringFlags, hw]
  simp only [this, if_true, hw]
  exact goFmtS_width _ _ _ _

theorem goInteger_width (g : GoSpec) (base : Nat) (upper : Bool) (i : Int) (w : Nat) (hw : g.wid = some w) :
    w ≤ (goInteger g base upper i).length := by
  unfold goInteger goAbs
  split <;> (rw [hw]; exact goPad_length_ge _ _ _ _)

theorem intPbB_width (f : Fmt) (i : Int) (w : Nat) (hw : f.width = some w) : w ≤ (intPbB f i).length := by
  unfold intPbB
  simp only [hw, Option.getD_some]
  generalize pbbSign f i = sg
  generalize pbbDigits f i = ds
  generalize pbbPrefix f i = pf
  cases f.left <;> by_cases hp : f.letter = 'p' <;> simp [hp] <;> omega

theorem padNumber_width (f : Fmt) (s : Str) (w : Nat) (hw : f.width = some w) : w ≤ (padNumber f s).length := by
  unfold padNumber
  simp only [hw]
  by_cases h0 : w - s.length = 0
  · simp [h0]; omega
  · simp only [h0, if_false]
    cases f.left
    · cases f.zeroPad
      · simp; omega
      · simp only [Bool.false_eq_true, if_false, if_true]
        cases s with
        | nil => simp
        | cons c cs =>
          by_cases hc : (c = '+' || c = '-' || c = ' ') = true
          · simp only [if_pos hc]; simp; omega
          · simp only [if_neg hc]; simp; omega
    · simp; omega

theorem fmtIntCore_width (f : Fmt) (i : Int) (w : Nat) (hw : f.width = some w) (hgo : GoOK f) (s : Str)
    (h : fmtIntCore f i = .text s) : w ≤ s.length := by
  obtain ⟨g, hg, hgv, hgw, _⟩ := hgo.spec
  unfold fmtIntCore at h
  by_cases h1 : isIntLetter f.letter = true
  · rw [if_pos h1, hg] at h
    unfold goFmtInt at h
    simp only at h
    repeat (split at h <;> try (cases h; exact goInteger_width g _ _ i w (by rw [hgw, hw])))
    cases h
  · rw [if_neg h1] at h
    by_cases h2 : isPbB f.letter = true
    · rw [if_pos h2] at h; cases h; exact intPbB_width f i w hw
    · rw [if_neg h2] at h
      by_cases h3 : f.letter = 'c'
      · rw [if_pos h3] at h; cases h; exact applyStringFlags_width f _ _ w hw
      · rw [if_neg h3] at h
        by_cases h4 : f.letter = 's'
        · rw [if_pos h4] at h; cases h; exact applyStringFlags_width f _ _ w hw
        · rw [if_neg h4] at h; cases h

theorem exceptRes_text (r : Except FaultKind Str) (k : Str → Str) (s : Str) (h : exceptRes r k = .text s) :
    ∃ x, s = k x := by
  cases r with
  | ok x => simp [exceptRes] at h; exact ⟨x, h.symm⟩
  | error e => simp [exceptRes] at h

theorem fmtFloat_width (io : FloatIO) (f : Fmt) (bits : Nat) (w : Nat) (hw : f.width = some w) (hgo : GoOK f)
    (hfl : isFloatLetter f.letter = false) (s : Str) (h : fmtFloat io f bits = .text s) : w ≤ s.length := by
  unfold fmtFloat at h
  by_cases h1 : isRadixLetter f.letter = true
  · rw [if_pos h1] at h; exact fmtIntCore_width f _ w hw hgo s h
  · rw [if_neg h1] at h
    by_cases h2 : f.letter = 'p'
    · rw [if_pos h2] at h
      obtain ⟨x, rfl⟩ := exceptRes_text _ _ s h
      exact applyStringFlags_width f _ _ w hw
    · rw [if_neg h2] at h
      have h3 : ¬ (decide (f.letter = 'e') || decide (f.letter = 'E') || decide (f.letter = 'f')) = true := by
        simp [isFloatLetter] at hfl ⊢; tauto
      have h4 : ¬ (decide (f.letter = 'g') || decide (f.letter = 'G')) = true := by
        simp [isFloatLetter] at hfl ⊢; tauto
      rw [if_neg h3, if_neg h4] at h
      by_cases h5 : f.letter = 's'
      · rw [if_pos h5] at h
        obtain ⟨x, rfl⟩ := exceptRes_text _ _ s h
        exact applyStringFlags_width f _ _ w hw
      · rw [if_neg h5] at h; cases h

theorem fmtInt_width (io : FloatIO) (f : Fmt) (i : Int) (w : Nat) (hw : f.width = some w) (hgo : GoOK f)
    (hfl : isFloatLetter f.letter = false) (s : Str) (h : fmtInt io f i = .text s) : w ≤ s.length := by
  unfold fmtInt at h
  rw [if_neg (by rw [hfl]; simp)] at h
  exact fmtIntCore_width f i w hw hgo s h

theorem fmtBool_width (io : FloatIO) (f : Fmt) (b : Bool) (w : Nat) (hw : f.width = some w) (hgo : GoOK f)
    (hfl : isFloatLetter f.letter = false) (s : Str) (h : fmtBool io f b = .text s) : w ≤ s.length := by
  unfold fmtBool at h
  by_cases h1 : f.letter = 't'
  · rw [if_pos h1] at h; cases h; exact applyStringFlags_width f _ _ w hw
  · rw [if_neg h1] at h
    by_cases h2 : f.letter = 'T'
    · rw [if_pos h2] at h; cases h; exact applyStringFlags_width f _ _ w hw
    · rw [if_neg h2] at h
      by_cases h3 : f.letter = 'y'
      · rw [if_pos h3] at h; cases h; exact applyStringFlags_width f _ _ w hw
      · rw [if_neg h3] at h
        by_cases h4 : f.letter = 'Y'
        · rw [if_pos h4] at h; cases h; exact applyStringFlags_width f _ _ w hw
        · rw [if_neg h4] at h
          by_cases h5 : isRadixLetter f.letter = true
          · rw [if_pos h5] at h; exact fmtIntCore_width f _ w hw hgo s h
          · rw [if_neg h5, if_neg (by rw [hfl]; simp)] at h
            by_cases h7 : (decide (f.letter = 's') || decide (f.letter = 'p')) = true
            · rw [if_pos h7] at h; cases h; exact applyStringFlags_width f _ _ w hw
            · rw [if_neg h7] at h; cases h

theorem fmtStr_width (f : Fmt) (x : Str) (w : Nat) (hw : f.width = some w) (s : Str) (h : fmtStr f x = .text s) :
    w ≤ s.length := by
  unfold fmtStr at h
  repeat (split at h <;> try (cases h; exact applyStringFlags_width f _ _ w hw))
  cases h

theorem fmtDefault_width (f : Fmt) (w : Nat) (hw : f.width = some w) (s : Str) (h : fmtDefault f = .text s) :
    w ≤ s.length := by
  unfold fmtDefault at h
  repeat (split at h <;> try (cases h; exact applyStringFlags_width f _ _ w hw))
  cases h

theorem fmtBinary_width (f : Fmt) (bs : List Nat) (u : Option Str) (w : Nat) (hw : f.width = some w) (s : Str)
    (h : fmtBinary f bs u = .text s) : w ≤ s.length := by
  unfold fmtBinary at h
  by_cases h1 : f.letter = 's'
  · rw [if_pos h1] at h
    cases u with
    | none => cases h
    | some x => simp at h; rw [← h]; exact applyStringFlags_width f _ _ w hw
  · rw [if_neg h1] at h
    repeat (split at h <;> try (simp at h; rw [← h]; exact applyStringFlags_width f _ _ w hw))
    cases h

/-- **width**: a scalar rendered under a format with width `w` is at least `w` runes wide (float digits excluded) -/
theorem fmtVal_width (io : FloatIO) (m : FMap) (ind : Ind) (v : Val) (hv : v.isContainer = false)
    (w : Nat) (hw : (getFormat m v.kind).f.width = some w) (hgo : GoOK (getFormat m v.kind).f)
    (hfl : isFloatLetter (getFormat m v.kind).f.letter = false ∨ v.kind = .str ∨ v.kind = .bin ∨ v.kind = .dflt ∨
      v.kind = .undef ∨ v.kind = .regexp)
    (s : Str) (h : fmtVal io m ind v = .text s) : w ≤ s.length := by
  cases v with
  | undef => simp [fmtVal, fmtUndef] at h; rw [← h]; exact applyStringFlags_width _ _ _ w hw
  | dflt => simp only [fmtVal] at h; exact fmtDefault_width _ w hw s h
  | bool b =>
    simp only [fmtVal] at h
    have : isFloatLetter (getFormat m Kind.bool).f.letter = false := by
      rcases hfl with h' | h' | h' | h' | h' | h'
      · exact h'
      all_goals simp [Val.kind] at h'
    exact fmtBool_width io _ b w hw hgo this s h
  | int i =>
    simp only [fmtVal] at h
    have : isFloatLetter (getFormat m Kind.int).f.letter = false := by
      rcases hfl with h' | h' | h' | h' | h' | h'
      · exact h'
      all_goals simp [Val.kind] at h'
    exact fmtInt_width io _ i w hw hgo this s h
  | float bits =>
    simp only [fmtVal] at h
    have : isFloatLetter (getFormat m Kind.float).f.letter = false := by
      rcases hfl with h' | h' | h' | h' | h' | h'
      · exact h'
      all_goals simp [Val.kind] at h'
    exact fmtFloat_width io _ bits w hw hgo this s h
  | str x => simp only [fmtVal] at h; exact fmtStr_width _ x w hw s h
  | regexp src => simp [fmtVal, fmtRegexp] at h; rw [← h]; exact applyStringFlags_width _ _ _ w hw
  | binary bs u => simp only [fmtVal] at h; exact fmtBinary_width _ bs u w hw s h
  | array vs => simp [Val.isContainer] at hv
  | hash es => simp [Val.isContainer] at hv

/-! ### padding side -/

/-- the text `ApplyStringFlags` pads: quoted if asked for, cut to the precision -/
def strCore (f : Fmt) (s : Str) (q : Bool) : Str :=
  let s := if q then puppetQuote s else s
  match f.prec with
  | some p => s.take p
  | none => s

/-- **padding side, text**: blanks only, on the left unless `-` -/
theorem applyStringFlags_pad (f : Fmt) (s : Str) (q : Bool) :
    applyStringFlags f s q =
      if f.left then strCore f s q ++ spaces (f.width.getD 0 - (strCore f s q).length)
      else spaces (f.width.getD 0 - (strCore f s q).length) ++ strCore f s q := by
  unfold applyStringFlags strCore hasStringFlags goFmtS
  cases hl : f.left <;> cases hw : f.width <;> cases hp : f.prec <;> simp [goPad, spaces]

/-- the `0` flag of the hand-written branch is in effect -/
def pbbZeroFlag (f : Fmt) : Bool := f.zeroPad && !f.left && f.prec.isNone && f.letter ≠ 'p'

/-- **padding side, hand-written `p b B`**: unless the `0` flag is in effect, blanks only, on the left unless `-`,
    around the rendering without a width -/
theorem intPbB_pad (f : Fmt) (i : Int) (hz : pbbZeroFlag f = false) :
    let core := intPbB { f with width := none } i
    intPbB f i = if f.left then core ++ spaces (f.width.getD 0 - core.length) else spaces (f.width.getD 0 - core.length) ++ core := by
  have h1 : pbbSign { f with width := none } i = pbbSign f i := rfl
  have h2 : pbbDigits { f with width := none } i = pbbDigits f i := rfl
  have h3 : pbbPrefix { f with width := none } i = pbbPrefix f i := rfl
  have hzf : (f.zeroPad && !f.left && f.prec.isNone && decide (f.letter ≠ 'p')) = false := hz
  have h4 : pbbZeroPad { f with width := none } i = pbbZeroPad f i := by
    unfold pbbZeroPad
    simp only [h1, h2, h3, hzf, Bool.false_eq_true, if_false]
  simp only [intPbB, h1, h2, h3, h4]
  generalize pbbSign f i = sg
  generalize pbbDigits f i = ds
  generalize pbbPrefix f i = pf
  generalize pbbZeroPad f i = zp
  cases hl : f.left <;> by_cases hp : f.letter = 'p' <;> simp [hp, spaces] <;> congr 1 <;> omega

/-- **padding side, fmt integers**: when the `0` flag is not in effect the rendering is the rendering without a
    width, with blanks on the left, or on the right with `-` -/
theorem goInteger_pad (g : GoSpec) (base : Nat) (upper : Bool) (i : Int)
    (hz : ¬ (g.zero = true ∧ g.minus = false ∧ g.prec = none)) :
    let body := goInteger { g with wid := none } base upper i
    goInteger g base upper i =
      if g.minus then body ++ spaces (g.wid.getD 0 - body.length) else spaces (g.wid.getD 0 - body.length) ++ body := by
  have hprec : ∀ neg, goPrec { g with wid := none } neg = goPrec g neg := by
    intro neg
    unfold goPrec
    cases hp : g.prec with
    | some p => rfl
    | none =>
      simp only
      cases hw : g.wid with
      | none => rfl
      | some w =>
        simp only
        cases hzz : g.zero <;> cases hm : g.minus <;> simp_all
  simp only [goInteger, goAbs, hprec]
  cases hw : g.wid with
  | none => cases g.minus <;> simp [goPad, spaces]
  | some w =>
    by_cases h0 : g.prec = some 0 ∧ i.natAbs = 0
    · simp only [if_pos h0]; cases g.minus <;> simp [goPad, spaces]
    · simp only [if_neg h0]; cases g.minus <;> simp [goPad, spaces]

end Pcore.Format
