import Pcore.Model.LazyCache
/-! With publication last, no cache is ever seen half-built (helper lemmas for C13_lazy_caches). -/
namespace Pcore.LazyCache

/-- every fill function publishes last -/
def cleanCfg : Cfg := { arrRed := false, arrDet := false, hshRed := false, hshDet := false }

def Clean (s : Shared) : Prop := s.red ≠ .part ∧ s.det ≠ .part

def AllFull (log : List Obs) : Prop := ∀ o ∈ log, o = .full

theorem AllFull.snoc {log : List Obs} (h : AllFull log) : AllFull (log ++ [.full]) := by
  intro o ho
  rcases List.mem_append.mp ho with ho | ho
  · exact h o ho
  · simpa using ho

theorem seeRed_clean {r : CS} (h : r ≠ .part) : seeRed r = .full := by
  cases r <;> simp_all [seeRed]

theorem seeRedC_clean {r : CS} (k : Kind) (h : r ≠ .part) : seeRedC cleanCfg k r = .full := by
  cases r <;> simp_all [seeRedC]

theorem cleanCfg_redFirst (k : Kind) : cleanCfg.redFirst k = false := by cases k <;> rfl
theorem cleanCfg_detFirst (k : Kind) : cleanCfg.detFirst k = false := by cases k <;> rfl

theorem reduced_clean (s : Shared) (h : Clean s) :
    Clean (reduced cleanCfg s).1 ∧ (reduced cleanCfg s).1.det = s.det ∧ ∀ o, (reduced cleanCfg s).2 = some o → o = .full := by
  unfold reduced
  split
  · split
    · exact ⟨⟨by simp, h.2⟩, rfl, by intro o ho; cases ho; rfl⟩
    · refine ⟨⟨by simp [cleanCfg_redFirst], h.2⟩, rfl, by intro o ho; cases ho⟩
  · rename_i r hr
    refine ⟨h, rfl, ?_⟩
    intro o ho
    simp only [Option.some.injEq] at ho
    rw [← ho]; exact seeRedC_clean _ h.1

theorem startOp_clean (s : Shared) (log : List Obs) (rest : List COp) (op : COp) (h : Clean s) (hl : AllFull log) :
    Clean (startOp cleanCfg s log rest op).1 ∧ AllFull (startOp cleanCfg s log rest op).2.log := by
  have hr := reduced_clean s h
  cases op with
  | ptype =>
    simp only [startOp]
    split
    · rename_i s' heq; rw [heq] at hr; exact ⟨hr.1, hl⟩
    · rename_i s' o heq
      rw [heq] at hr
      rw [hr.2.2 o rfl]; exact ⟨hr.1, hl.snoc⟩
  | str =>
    simp only [startOp]
    split
    · rename_i s' heq; rw [heq] at hr; exact ⟨hr.1, hl⟩
    · rename_i s' o heq
      rw [heq] at hr
      exact ⟨hr.1, hl.snoc⟩
  | pure => exact ⟨h, hl.snoc⟩
  | dtype =>
    simp only [startOp]
    split
    · exact ⟨h, hl.snoc⟩
    · rename_i hp; exact absurd hp h.2
    · rw [seeRedC_clean _ h.1]; exact ⟨h, hl.snoc⟩
    · split
      · split
        · rename_i s' heq; rw [heq] at hr; exact ⟨hr.1, hl⟩
        · rename_i s' o heq
          rw [heq] at hr
          rw [hr.2.2 o rfl]
          exact ⟨⟨hr.1.1, by simp⟩, hl.snoc⟩
      · exact ⟨⟨h.1, by simp [cleanCfg_detFirst]⟩, hl⟩

theorem stepThread_clean (s : Shared) (t : Thread) (h : Clean s) (hl : AllFull t.log) :
    Clean (stepThread cleanCfg s t).1 ∧ AllFull (stepThread cleanCfg s t).2.log := by
  unfold stepThread
  split
  · split
    · exact ⟨h, hl⟩
    · exact startOp_clean s t.log _ _ h hl
  · exact ⟨h, hl⟩
  · rename_i thenDet _
    refine ⟨⟨by simp, ?_⟩, hl.snoc⟩
    cases thenDet
    · simpa using h.2
    · simp
  · exact ⟨h, hl⟩
  · exact ⟨⟨h.1, by simp⟩, hl.snoc⟩

def CInv (c : Config) : Prop := Clean c.sh ∧ ∀ t ∈ c.th, AllFull t.log

theorem CInv_step (c : Config) (i : Nat) (h : CInv c) : CInv (stepAt cleanCfg c i) := by
  unfold stepAt
  cases hi : c.th[i]? with
  | none => exact h
  | some t =>
    have sp := stepThread_clean c.sh t h.1 (h.2 t (List.mem_of_getElem? hi))
    refine ⟨sp.1, ?_⟩
    intro t' ht'
    rcases List.mem_or_eq_of_mem_set ht' with h1 | rfl
    · exact h.2 t' h1
    · exact sp.2

theorem CInv_init (k : Kind) (n : Nat) (progs : List (List COp)) (slow : Nat := 0) : CInv (Config.init k n progs slow) := by
  refine ⟨⟨by simp [Config.init], by simp [Config.init]⟩, ?_⟩
  intro t ht
  simp only [Config.init, List.mem_map] at ht
  obtain ⟨p, _, rfl⟩ := ht
  intro o ho; cases ho

theorem CInv_reachable {c0 c : Config} (h0 : CInv c0) (h : Reachable cleanCfg c0 c) : CInv c := by
  induction h with
  | init => exact h0
  | step i _ ih => exact CInv_step _ i ih

/-! ### completion writes: without an in-place fold no reader is ever handed a type that is not a type of the value -/

/-- no fill function completes its published object by an in-place fold -/
def NoFold (cfg : Cfg) : Prop := ∀ k, cfg.redFold k = false ∧ cfg.detFold k = false

def NoNarrow (log : List Obs) : Prop := Obs.narrow ∉ log

theorem NoNarrow.snoc {log : List Obs} {o : Obs} (h : NoNarrow log) (ho : o ≠ .narrow) : NoNarrow (log ++ [o]) := by
  intro hm
  rcases List.mem_append.mp hm with hm | hm
  · exact h hm
  · simp only [List.mem_singleton] at hm
    exact ho hm.symm

theorem seeRedC_ne_narrow {cfg : Cfg} (hc : NoFold cfg) (k : Kind) (r : CS) : seeRedC cfg k r ≠ .narrow := by
  cases r <;> simp [seeRedC, (hc k).1]

theorem seeDetPart_ne_narrow {cfg : Cfg} (hc : NoFold cfg) (k : Kind) : seeDetPart cfg k ≠ .narrow := by
  simp [seeDetPart, (hc k).2]

theorem reduced_ne_narrow {cfg : Cfg} (hc : NoFold cfg) (s : Shared) (o : Obs) (h : (reduced cfg s).2 = some o) : o ≠ .narrow := by
  unfold reduced at h
  split at h
  · split at h
    · cases h; simp
    · cases h
  · cases h; exact seeRedC_ne_narrow hc _ _

theorem startOp_nonarrow {cfg : Cfg} (hc : NoFold cfg) (s : Shared) (log : List Obs) (rest : List COp) (op : COp)
    (hl : NoNarrow log) : NoNarrow (startOp cfg s log rest op).2.log := by
  cases op with
  | ptype =>
    simp only [startOp]
    split
    · exact hl
    · rename_i s' o heq
      exact hl.snoc (reduced_ne_narrow hc s o (by rw [heq]))
  | str =>
    simp only [startOp]
    split
    · exact hl
    · exact hl.snoc (by simp)
  | pure => exact hl.snoc (by simp)
  | dtype =>
    simp only [startOp]
    split
    · exact hl.snoc (by simp)
    · exact hl.snoc (seeDetPart_ne_narrow hc _)
    · exact hl.snoc (seeRedC_ne_narrow hc _ _)
    · split
      · split
        · exact hl
        · rename_i s' o heq
          exact hl.snoc (reduced_ne_narrow hc s o (by rw [heq]))
      · exact hl

theorem stepThread_nonarrow {cfg : Cfg} (hc : NoFold cfg) (s : Shared) (t : Thread) (hl : NoNarrow t.log) :
    NoNarrow (stepThread cfg s t).2.log := by
  unfold stepThread
  split
  · split
    · exact hl
    · exact startOp_nonarrow hc s t.log _ _ hl
  · exact hl
  · exact hl.snoc (by simp)
  · exact hl
  · exact hl.snoc (by simp)

def NInv (c : Config) : Prop := ∀ t ∈ c.th, NoNarrow t.log

theorem NInv_step {cfg : Cfg} (hc : NoFold cfg) (c : Config) (i : Nat) (h : NInv c) : NInv (stepAt cfg c i) := by
  unfold stepAt
  cases hi : c.th[i]? with
  | none => exact h
  | some t =>
    intro t' ht'
    rcases List.mem_or_eq_of_mem_set ht' with h1 | rfl
    · exact h t' h1
    · exact stepThread_nonarrow hc c.sh t (h t (List.mem_of_getElem? hi))

theorem NInv_init (k : Kind) (n : Nat) (progs : List (List COp)) (slow : Nat) : NInv (Config.init k n progs slow) := by
  intro t ht
  simp only [Config.init, List.mem_map] at ht
  obtain ⟨p, _, rfl⟩ := ht
  intro ho; cases ho

theorem NInv_reachable {cfg : Cfg} (hc : NoFold cfg) {c0 c : Config} (h0 : NInv c0) (h : Reachable cfg c0 c) : NInv c := by
  induction h with
  | init => exact h0
  | step i _ ih => exact NInv_step hc _ i ih

/-- a table of completion writes that satisfies the discipline configures the model without any in-place fold -/
theorem NoFold_ofTables (sites : List CacheSite) (writes : List CacheWrite) (h : completionOK writes = true) :
    NoFold (Cfg.ofTables sites writes) := by
  have hf : ∀ fn, fnFoldsInPlace writes fn = false := by
    intro fn
    unfold fnFoldsInPlace
    rw [List.any_eq_false]
    intro w hw
    have := List.all_eq_true.mp h w hw
    simp only [bne_iff_ne, ne_eq] at this
    simp [this]
  intro k
  cases k <;> simp [Cfg.ofTables, Cfg.redFold, Cfg.detFold, hf]

end Pcore.LazyCache
