import Pcore.Model.LazyCache
/-! With publication last, no cache is ever seen half-built (helper lemmas for C13_lazy_caches). -/
namespace Pcore.LazyCache

/-- every fill function publishes last -/
def cleanCfg : Cfg := { arrRed := false, arrDet := false, hshRed := false, hshDet := false }

def Clean (s : Shared) : Prop := s.red ≠ .part ∧ s.det ≠ .part

def AllFull (log : List Obs) : Prop := ∀ o ∈ log, o = .full

theorem AllFull.snoc {log : List Obs} (h : AllFull log) : AllFull (log ++ [.full]) := by
  intro o ho
  rcases List.mem_append.mp ho with ho | ho
  · exact h o ho
  · simpa using ho

theorem seeRed_clean {r : CS} (h : r ≠ .part) : seeRed r = .full := by
  cases r <;> simp_all [seeRed]

theorem cleanCfg_redFirst (k : Kind) : cleanCfg.redFirst k = false := by cases k <;> rfl
theorem cleanCfg_detFirst (k : Kind) : cleanCfg.detFirst k = false := by cases k <;> rfl

theorem reduced_clean (s : Shared) (h : Clean s) :
    Clean (reduced cleanCfg s).1 ∧ (reduced cleanCfg s).1.det = s.det ∧ ∀ o, (reduced cleanCfg s).2 = some o → o = .full := by
  unfold reduced
  split
  · split
    · exact ⟨⟨by simp, h.2⟩, rfl, by intro o ho; cases ho; rfl⟩
    · refine ⟨⟨by simp [cleanCfg_redFirst], h.2⟩, rfl, by intro o ho; cases ho⟩
  · rename_i r hr
    refine ⟨h, rfl, ?_⟩
    intro o ho
    simp only [Option.some.injEq] at ho
    rw [← ho]; exact seeRed_clean h.1

theorem startOp_clean (s : Shared) (log : List Obs) (rest : List COp) (op : COp) (h : Clean s) (hl : AllFull log) :
    Clean (startOp cleanCfg s log rest op).1 ∧ AllFull (startOp cleanCfg s log rest op).2.log := by
  have hr := reduced_clean s h
  cases op with
  | ptype =>
    simp only [startOp]
    split
    · rename_i s' heq; rw [heq] at hr; exact ⟨hr.1, hl⟩
    · rename_i s' o heq
      rw [heq] at hr
      rw [hr.2.2 o rfl]; exact ⟨hr.1, hl.snoc⟩
  | str =>
    simp only [startOp]
    split
    · rename_i s' heq; rw [heq] at hr; exact ⟨hr.1, hl⟩
    · rename_i s' o heq
      rw [heq] at hr
      exact ⟨hr.1, hl.snoc⟩
  | pure => exact ⟨h, hl.snoc⟩
  | dtype =>
    simp only [startOp]
    split
    · exact ⟨h, hl.snoc⟩
    · rename_i hp; exact absurd hp h.2
    · rw [seeRed_clean h.1]; exact ⟨h, hl.snoc⟩
    · split
      · split
        · rename_i s' heq; rw [heq] at hr; exact ⟨hr.1, hl⟩
        · rename_i s' o heq
          rw [heq] at hr
          rw [hr.2.2 o rfl]
          exact ⟨⟨hr.1.1, by simp⟩, hl.snoc⟩
      · exact ⟨⟨h.1, by simp [cleanCfg_detFirst]⟩, hl⟩

theorem stepThread_clean (s : Shared) (t : Thread) (h : Clean s) (hl : AllFull t.log) :
    Clean (stepThread cleanCfg s t).1 ∧ AllFull (stepThread cleanCfg s t).2.log := by
  unfold stepThread
  split
  · split
    · exact ⟨h, hl⟩
    · exact startOp_clean s t.log _ _ h hl
  · rename_i thenDet _
    refine ⟨⟨by simp, ?_⟩, hl.snoc⟩
    cases thenDet
    · simpa using h.2
    · simp
  · exact ⟨⟨h.1, by simp⟩, hl.snoc⟩

def CInv (c : Config) : Prop := Clean c.sh ∧ ∀ t ∈ c.th, AllFull t.log

theorem CInv_step (c : Config) (i : Nat) (h : CInv c) : CInv (stepAt cleanCfg c i) := by
  unfold stepAt
  cases hi : c.th[i]? with
  | none => exact h
  | some t =>
    have sp := stepThread_clean c.sh t h.1 (h.2 t (List.mem_of_getElem? hi))
    refine ⟨sp.1, ?_⟩
    intro t' ht'
    rcases List.mem_or_eq_of_mem_set ht' with h1 | rfl
    · exact h.2 t' h1
    · exact sp.2

theorem CInv_init (k : Kind) (n : Nat) (progs : List (List COp)) : CInv (Config.init k n progs) := by
  refine ⟨⟨by simp [Config.init], by simp [Config.init]⟩, ?_⟩
  intro t ht
  simp only [Config.init, List.mem_map] at ht
  obtain ⟨p, _, rfl⟩ := ht
  intro o ho; cases ho

theorem CInv_reachable {c0 c : Config} (h0 : CInv c0) (h : Reachable cleanCfg c0 c) : CInv c := by
  induction h with
  | init => exact h0
  | step i _ ih => exact CInv_step _ i ih

end Pcore.LazyCache
