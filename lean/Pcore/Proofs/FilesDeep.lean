import Pcore.Proofs.FilesKinds
/-!
C15, names of any depth.  `find_miss`: the complete miss of one file loader — no origin for the name, every proper prefix
either cached or without an origin — evaluated exactly (answer `none`, state untouched) for every name length, given
fuel `3 * length`; the nested recursion `find → findTail → parentSearch → find` is unwound by induction on the length.
On top of it: a name of any depth through a module's loader / the dependency loader (parent-first route).
-/
namespace Pcore.Files

/-- what the parent type-set search of `name` in loader `l` needs to be a no-op: the name itself is not cached, the name is
    addressable (`Parts()` does not panic), the module's `init_typeset` route is closed, every proper prefix is cached (it
    is skipped) or has no origin -/
structure QuietAnc (cfg : Cfg) (l : Lid) (s : St) (name : Name) : Prop where
  fresh : s.get l (keyOf name) = none
  valid : l.moduleName = "" ∨ (partsOf name).isSome
  init : isGlobalMod l.moduleName = true ∨ idx cfg l ["init_typeset"] = [] ∨ s.get l (keyOf (name.take 1)) ≠ none
  ancestors : ∀ nm, nm ≠ [] → nm <+: name → nm ≠ name → s.get l (keyOf nm) ≠ none ∨ idx cfg l (keyOf nm) = []

/-- exact miss: answer `none`, the state is untouched -/
abbrev Miss (x : M (Option Entry)) (s : St) : Prop := x s = .ok none s

theorem keyOf_prefix {a b : Name} (h : a <+: b) : keyOf a <+: keyOf b := by
  obtain ⟨t, rfl⟩ := h
  exact ⟨keyOf t, by simp [keyOf]⟩

theorem partsOf_isSome_prefix {a b : Name} (h : a <+: b) (hb : (partsOf b).isSome) : (partsOf a).isSome := by
  unfold partsOf at *
  by_cases hv : (keyOf b).all validPart = true
  · have : (keyOf a).all validPart = true := by
      rw [List.all_eq_true] at *
      intro x hx
      exact hv x ((keyOf_prefix h).subset hx)
    simp [this]
  · simp [hv] at hb

theorem take_one_prefix {a b : Name} (ha : a ≠ []) (h : a <+: b) : a.take 1 = b.take 1 := by
  obtain ⟨t, rfl⟩ := h
  cases a with
  | nil => exact absurd rfl ha
  | cons x xs => rfl

theorem length_lt_of_proper_prefix {a b : Name} (h : a <+: b) (hne : a ≠ b) : a.length < b.length := by
  rcases Nat.lt_or_ge a.length b.length with hl | hl
  · exact hl
  · exact absurd (List.IsPrefix.eq_of_length_le h hl) hne

/-- heredity: an uncached proper prefix of a quiet name is quiet and has no origin -/
theorem quietAnc_prefix {cfg : Cfg} {l : Lid} {s : St} {name ts : Name} (h : QuietAnc cfg l s name)
    (hne : ts ≠ []) (hp : ts <+: name) (hneq : ts ≠ name) (hget : s.get l (keyOf ts) = none) :
    QuietAnc cfg l s ts ∧ idx cfg l (keyOf ts) = [] := by
  refine ⟨⟨hget, ?_, ?_, ?_⟩, ?_⟩
  · rcases h.valid with hv | hv
    · exact Or.inl hv
    · exact Or.inr (partsOf_isSome_prefix hp hv)
  · rw [take_one_prefix hne hp]; exact h.init
  · intro nm hnm hpre hneq'
    refine h.ancestors nm hnm (hpre.trans hp) ?_
    intro heq
    have h1 := length_lt_of_proper_prefix hpre hneq'
    have h2 := hp.length_le
    rw [heq] at h1
    omega
  · rcases h.ancestors ts hne hp hneq with h1 | h1
    · exact absurd hget h1
    · exact h1

theorem partsM_ok {name : Name} (h : (partsOf name).isSome) (s : St) : partsM name s = .ok (keyOf name) s := by
  unfold partsM
  unfold partsOf at *
  by_cases hv : (keyOf name).all validPart = true
  · simp [hv]; rfl
  · simp [hv] at h

theorem dropLast_proper {name : Name} (hne : name ≠ []) : name.dropLast <+: name ∧ name.dropLast ≠ name := by
  refine ⟨List.dropLast_prefix name, ?_⟩
  intro h
  have := congrArg List.length h
  rw [List.length_dropLast] at this
  have : name.length ≠ 0 := by
    intro h0; exact hne (List.eq_nil_of_length_eq_zero h0)
  omega

/-- `find` on a quiet name without an origin, one level: routing, then the index, then the parent search (given) -/
theorem find_miss_step {cfg : Cfg} {l : Lid} {s : St} {name : Name} (n : Nat) (hne : name ≠ [])
    (hq : QuietAnc cfg l s name) (hi : idx cfg l (keyOf name) = [])
    (hps : qualified name = true → Miss (parentSearch n cfg l name name.dropLast) s) :
    Miss (find (n+2) cfg l name) s := by
  have htail : Miss (findTail (n+1) cfg l name) s := by
    unfold Miss
    simp only [findTail, hi]
    by_cases hqual : qualified name = true
    · rw [if_pos hqual]; exact hps hqual
    · rw [if_neg hqual]; rfl
  unfold Miss
  simp only [find]
  by_cases hqual : qualified name = true
  · rw [if_pos hqual]
    by_cases hm : l.moduleName ≠ ""
    · rw [if_pos hm]
      have hv : (partsOf name).isSome := by
        rcases hq.valid with h | h
        · exact absurd h hm
        · exact h
      simp only [bind, partsM_ok hv]
      by_cases hh : some l.moduleName ≠ (keyOf name).head?
      · rw [if_pos hh]; rfl
      · rw [if_neg hh]; exact htail
    · rw [if_neg hm]; exact htail
  · rw [if_neg hqual]
    by_cases hg : (!isGlobalMod l.moduleName) = true
    · rw [if_pos hg]
      have hgm : isGlobalMod l.moduleName = false := by simpa using hg
      have hmne : l.moduleName ≠ "" := by
        intro h; rw [h] at hgm; simp [isGlobalMod] at hgm
      have hv : (partsOf name).isSome := by
        rcases hq.valid with h | h
        · exact absurd h hmne
        · exact h
      simp only [bind, partsM_ok hv]
      by_cases hh : some l.moduleName ≠ (keyOf name).head?
      · rw [if_pos hh]; rfl
      · rw [if_neg hh]
        -- an unqualified name is its own first segment: the `init_typeset` route is closed
        have htake : name.take 1 = name := by
          cases name with
          | nil => exact absurd rfl hne
          | cons a rest =>
            cases rest with
            | nil => rfl
            | cons b r => simp [qualified] at hqual
        have hinit : idx cfg l ["init_typeset"] = [] := by
          rcases hq.init with h | h | h
          · rw [hgm] at h; cases h
          · exact h
          · rw [htake] at h; exact absurd hq.fresh h
        rw [hinit]; rfl
    · rw [if_neg hg]; exact htail

/-- one iteration of the parent search over a quiet name -/
theorem parentSearch_miss_step {cfg : Cfg} {l : Lid} {s : St} {name ts : Name} (n : Nat)
    (hq : QuietAnc cfg l s name)
    (hfind : ts ≠ [] → s.get l (keyOf ts) = none → Miss (find n cfg l ts) s)
    (hrest : ts ≠ [] → Miss (parentSearch n cfg l name ts.dropLast) s) :
    Miss (parentSearch (n+1) cfg l name ts) s := by
  unfold Miss
  cases ts with
  | nil => simp only [parentSearch]; rfl
  | cons t rest =>
    have hne : t :: rest ≠ [] := by intro h; cases h
    simp only [parentSearch, bind, getSt]
    cases hg : s.get l (keyOf (t :: rest)) with
    | some v => simp only []; exact hrest hne
    | none =>
      simp only []
      rw [hfind hne hg]
      simp only [hq.fresh]
      exact hrest hne

/-- by induction on the length: the parent search from a prefix of length `k`, and `find` on a name of length `k+1` -/
theorem miss_both (cfg : Cfg) (l : Lid) (s : St) : ∀ k : Nat,
    (∀ name ts, QuietAnc cfg l s name → ts <+: name → ts ≠ name → ts.length = k →
      ∀ n, 3 * k ≤ n → Miss (parentSearch (n+1) cfg l name ts) s) ∧
    (∀ name, name.length = k + 1 → QuietAnc cfg l s name → idx cfg l (keyOf name) = [] →
      ∀ n, 3 * k + 1 ≤ n → Miss (find (n+2) cfg l name) s)
  | 0 => by
    have hB : ∀ name ts, QuietAnc cfg l s name → ts <+: name → ts ≠ name → ts.length = 0 →
        ∀ n, 3 * 0 ≤ n → Miss (parentSearch (n+1) cfg l name ts) s := by
      intro name ts _ _ _ hlen n _
      have : ts = [] := List.eq_nil_of_length_eq_zero hlen
      subst this
      unfold Miss; simp only [parentSearch]; rfl
    refine ⟨hB, ?_⟩
    intro name hlen hq hi n hn
    have hne : name ≠ [] := by intro h; rw [h] at hlen; cases hlen
    refine find_miss_step n hne hq hi ?_
    intro hqual
    have : name.length ≥ 2 := by simpa [qualified] using hqual
    omega
  | k+1 => by
    obtain ⟨ihB, ihA⟩ := miss_both cfg l s k
    have hB : ∀ name ts, QuietAnc cfg l s name → ts <+: name → ts ≠ name → ts.length = k + 1 →
        ∀ n, 3 * (k + 1) ≤ n → Miss (parentSearch (n+1) cfg l name ts) s := by
      intro name ts hq hp hneq hlen n hn
      obtain ⟨n', rfl⟩ : ∃ n', n = n' + 2 := ⟨n - 2, by omega⟩
      have hne : ts ≠ [] := by intro h; rw [h] at hlen; cases hlen
      refine parentSearch_miss_step (n'+2) hq ?_ ?_
      · intro _ hget
        obtain ⟨hq', hi'⟩ := quietAnc_prefix hq hne hp hneq hget
        exact ihA ts hlen hq' hi' n' (by omega)
      · intro _
        have hdl := dropLast_proper hne
        refine ihB name ts.dropLast hq (hdl.1.trans hp) ?_ (by rw [List.length_dropLast, hlen]; rfl) (n'+1) (by omega)
        intro heq
        have h2 := length_lt_of_proper_prefix hp hneq
        have h3 : ts.dropLast.length = k := by rw [List.length_dropLast]; omega
        rw [heq] at h3
        omega
    refine ⟨hB, ?_⟩
    intro name hlen hq hi n hn
    have hne : name ≠ [] := by intro h; rw [h] at hlen; cases hlen
    obtain ⟨n', rfl⟩ : ∃ n', n = n' + 1 := ⟨n - 1, by omega⟩
    refine find_miss_step (n'+1) hne hq hi ?_
    intro _
    have hdl := dropLast_proper hne
    exact hB name name.dropLast hq hdl.1 hdl.2 (by rw [List.length_dropLast, hlen]; rfl) n' (by omega)

/-- the complete miss of loader `l`: no origin for the name, every proper prefix cached or without origin — `find` answers
    `none` and leaves the state untouched, for every depth of name, given fuel `3 * length` -/
theorem find_miss (cfg : Cfg) (l : Lid) (s : St) (name : Name) (hne : name ≠ []) (hq : QuietAnc cfg l s name)
    (hi : idx cfg l (keyOf name) = []) (fuel : Nat) (hf : 3 * name.length ≤ fuel) :
    find fuel cfg l name s = .ok none s := by
  obtain ⟨k, hk⟩ : ∃ k, name.length = k + 1 := by
    cases name with
    | nil => exact absurd rfl hne
    | cons a r => exact ⟨r.length, rfl⟩
  obtain ⟨n, rfl⟩ : ∃ n, fuel = n + 2 := ⟨fuel - 2, by omega⟩
  exact (miss_both cfg l s k).2 name hk hq hi n (by omega)

/-- the parent search alone (the name may have an origin or not: it is not consulted) -/
theorem parentSearch_miss (cfg : Cfg) (l : Lid) (s : St) (name ts : Name) (hq : QuietAnc cfg l s name)
    (hp : ts <+: name) (hneq : ts ≠ name) (fuel : Nat) (hf : 3 * ts.length + 1 ≤ fuel) :
    parentSearch fuel cfg l name ts s = .ok none s := by
  obtain ⟨n, rfl⟩ : ∃ n, fuel = n + 1 := ⟨fuel - 1, by omega⟩
  exact (miss_both cfg l s ts.length).1 name ts hq hp hneq rfl n (by omega)

/-- `fileBasedLoader.LoadEntry` of a top-level loader that misses completely: a placeholder, nothing else -/
theorem fbLoadEntry_g_miss (cfg : Cfg) (s : St) (name : Name) (hne : name ≠ []) (hsys : sysLoad name = none)
    (hq : QuietAnc cfg .g s name) (hi : idx cfg .g (keyOf name) = []) (fuel : Nat) (hf : 3 * name.length ≤ fuel) :
    fbLoadEntry (fuel+1) cfg .g name s = .ok (some none) (s.put .g (keyOf name) none) := by
  simp only [fbLoadEntry, bind, pure, getSt, hsys, hq.fresh, find_miss cfg .g s name hne hq hi fuel hf]
  simp [setEntry, hq.fresh]

/-- the global loader as the context's loader, a name of any depth that misses completely: `notfound`, one placeholder -/
theorem global_absent_deep (cfg : Cfg) (hv : cfg.via = .g) (name : Name) (hne : name ≠ []) (s : St) (m : Nat)
    (hfuel : 3 * name.length ≤ m) (hsys : sysLoad name = none)
    (hq : QuietAnc cfg .g s name) (hi : idx cfg .g (keyOf name) = []) :
    loadS (m+2) cfg s name = (.notfound, s.put .g (keyOf name) none) := by
  have h := fbLoadEntry_g_miss cfg s name hne hsys hq hi m hfuel
  obtain ⟨mods, tree, via, gi, fl⟩ := cfg
  simp only at hv
  subst hv
  unfold loadS load
  simp only [loadEntry, bind, h]
  rfl

/-- `QuietAnc`, decidably (for closed examples) -/
def quietAncB (cfg : Cfg) (l : Lid) (s : St) (name : Name) : Bool :=
  (s.get l (keyOf name)).isNone && (l.moduleName = "" || (partsOf name).isSome) &&
  (isGlobalMod l.moduleName || (idx cfg l ["init_typeset"]).isEmpty || (s.get l (keyOf (name.take 1))).isSome) &&
  (List.range name.length).all fun i =>
    i = 0 || (s.get l (keyOf (name.take i))).isSome || (idx cfg l (keyOf (name.take i))).isEmpty

theorem quietAnc_of_check {cfg : Cfg} {l : Lid} {s : St} {name : Name} (h : quietAncB cfg l s name = true) :
    QuietAnc cfg l s name := by
  unfold quietAncB at h
  simp only [Bool.and_eq_true, Bool.or_eq_true, decide_eq_true_eq, List.all_eq_true, List.mem_range,
    Option.isNone_iff_eq_none, List.isEmpty_iff] at h
  obtain ⟨⟨⟨h1, h2⟩, h3⟩, h4⟩ := h
  refine ⟨h1, h2, ?_, ?_⟩
  · rcases h3 with (h | h) | h
    · exact Or.inl h
    · exact Or.inr (Or.inl h)
    · refine Or.inr (Or.inr ?_)
      intro hn; rw [hn] at h; cases h
  · intro nm hne hp hneq
    have hlt := length_lt_of_proper_prefix hp hneq
    have htake : nm = name.take nm.length := List.prefix_iff_eq_take.mp hp
    rcases h4 nm.length hlt with (h | h) | h
    · exact absurd (List.eq_nil_of_length_eq_zero h) hne
    · left
      rw [← htake] at h
      intro hn; rw [hn] at h; cases h
    · right
      rw [← htake] at h; exact h

/-- a name of ANY depth through a module's loader (children-of-global topology): the global loader misses completely
    (`QuietAnc` + no origin), the module loader's first origin decides, and that file is the only one read -/
theorem module_deep (cfg : Cfg) (mod : String) (hv : cfg.via = .m mod) (hflat : cfg.flat = false)
    (name : Name) (hne : name ≠ []) (s : St) (m : Nat) (hfuel : 3 * name.length ≤ m + 5)
    (hsys : sysLoad name = none)
    (hqg : QuietAnc cfg .g s name) (hig : idx cfg .g (keyOf name) = [])
    (hm1 : s.get (.m mod) (keyOf name) = none) (hroute : Routed (.m mod) name)
    (p : Path) (ps : List Path) (hi : idx cfg (.m mod) (keyOf name) = p :: ps)
    (hnt : ∀ nm ts, bodyAt cfg.tree p ≠ some (.typ .typeset nm ts)) :
    (loadS (m+8) cfg s name).1 = plainOutcomeAt cfg (.m mod) name ∧
    (loadS (m+8) cfg s name).2.reads = s.reads ++ [p] := by
  have hfm := find_miss cfg .g s name hne hqg hig (m+5) hfuel
  have hg1 := hqg.fresh
  obtain ⟨mods, tree, via, gi, fl⟩ := cfg
  simp only at hv hflat
  subst hv
  subst hflat
  have hnek : (Lid.g, keyOf name) ≠ (Lid.m mod, keyOf name) := by intro h; cases h
  unfold loadS load
  simp only [loadEntry, fbLoadEntry, bind, pure, getSt, hsys, hg1, hfm, Bool.false_eq_true, if_false]
  simp only [setEntry, hg1, get_put, hm1, hnek.symm, if_false, find_routed _ _ _ _ hroute, findTail, hi,
    instantiate, bind, pure, getSt, instantiator, modifySt]
  unfold plainOutcomeAt
  simp only [hi]
  cases hb : bodyAt tree p with
  | none => simp [raise]
  | some bd =>
    cases bd with
    | unreadable => simp [raise]
    | malformed ln => simp [raise]
    | nodef => simp [raise]
    | bare => simp [addTypes, setEntry, get_put, bind, pure]
    | typ k nm ts =>
      have hkt : k ≠ .typeset := by
        intro hk; subst hk
        exact hnt nm ts hb
      by_cases hk : keyOf nm = keyOf name
      · simp [addTypes, setEntry, get_put, bind, pure, hk, hkt]
      · simp [raise, hk]

/-- the same through the dependency loader: a qualified name whose first segment names a module is routed to that
    module's loader (parent first) -/
theorem dependency_deep (cfg : Cfg) (mod : String) (hv : cfg.via = .d) (hflat : cfg.flat = false)
    (hmods : cfg.mods.contains mod = true)
    (name : Name) (hne : name ≠ []) (hqual : qualified name = true) (s : St) (m : Nat) (hfuel : 3 * name.length ≤ m + 5)
    (hparts : ∃ ps, partsOf name = some ps ∧ ps.head? = some mod)
    (hsys : sysLoad name = none) (hd1 : s.get .d (keyOf name) = none)
    (hqg : QuietAnc cfg .g s name) (hig : idx cfg .g (keyOf name) = [])
    (hm1 : s.get (.m mod) (keyOf name) = none)
    (p : Path) (ps : List Path) (hi : idx cfg (.m mod) (keyOf name) = p :: ps)
    (hnt : ∀ nm ts, bodyAt cfg.tree p ≠ some (.typ .typeset nm ts)) :
    (loadS (m+10) cfg s name).1 = plainOutcomeAt cfg (.m mod) name ∧
    (loadS (m+10) cfg s name).2.reads = s.reads ++ [p] := by
  have hfm := find_miss cfg .g s name hne hqg hig (m+5) hfuel
  have hg1 := hqg.fresh
  obtain ⟨ps', hp', hh'⟩ := hparts
  have hroute : Routed (.m mod) name := Or.inl ⟨hqual, Or.inr ⟨ps', hp', hh'⟩⟩
  obtain ⟨mods, tree, via, gi, fl⟩ := cfg
  simp only at hv hflat
  subst hv
  subst hflat
  simp only at hmods
  have hmods' : mods.isEmpty = false := by
    cases mods with
    | nil => simp at hmods
    | cons x xs => rfl
  have hnek : (Lid.g, keyOf name) ≠ (Lid.m mod, keyOf name) := by intro h; cases h
  have hne2 : (Lid.d, keyOf name) ≠ (Lid.m mod, keyOf name) := by intro h; cases h
  have hne3 : (Lid.d, keyOf name) ≠ (Lid.g, keyOf name) := by intro h; cases h
  unfold loadS load
  simp only [loadEntry, dLoadEntry, dFind, bind, pure, getSt, hd1, hmods', hqual, partsM, hp', hh', Bool.not_false,
    Bool.and_self, if_true, hmods]
  simp only [fbLoadEntry, bind, pure, getSt, hsys, hg1, hfm, Bool.false_eq_true, if_false]
  simp only [setEntry, hg1, get_put, hm1, hnek.symm, if_false, find_routed _ _ _ _ hroute, findTail, hi,
    instantiate, bind, pure, getSt, instantiator, modifySt]
  unfold plainOutcomeAt
  simp only [hi]
  cases hb : bodyAt tree p with
  | none => simp [raise]
  | some bd =>
    cases bd with
    | unreadable => simp [raise]
    | malformed ln => simp [raise]
    | nodef => simp [raise]
    | bare => simp [addTypes, setEntry, get_put, bind, pure, hd1, hne2, hne2.symm, hne3, hne3.symm]
    | typ k nm ts =>
      have hkt : k ≠ .typeset := by
        intro hk; subst hk
        exact hnt nm ts hb
      by_cases hk : keyOf nm = keyOf name
      · simp [addTypes, setEntry, get_put, bind, pure, hk, hkt, hd1, hne2, hne2.symm, hne3, hne3.symm]
      · simp [raise, hk]

end Pcore.Files
