import Pcore.Proofs.LatSoundMain
import Pcore.Proofs.LatReflAll
set_option linter.unusedSimpArgs false
set_option linter.unusedVariables false
/-! C04: inferred types contain their values. -/
namespace Pcore.Lat
variable (cfg : Cfg) (sfh : Bool)

/-- the fragment of transitivity has no alias anywhere, so its members are reflexive (C03_refl) -/
theorem Ty.TF.noAlias : ∀ (n : Nat) (t : Ty), t.w ≤ n → t.TF → t.NoAlias := by
  intro n
  induction n with
  | zero => intro t h; have := Ty.w_pos t; omega
  | succ n ih =>
    intro t hw h
    cases t <;> unfold Ty.NoAlias <;> (try trivial) <;> unfold Ty.TF at h <;> (try exact absurd h id) <;> simp only [Ty.w] at hw
    · exact ih _ (by omega) h
    · exact ⟨ih _ (by omega) h.1, ih _ (by omega) h.2⟩
    · rename_i ts g; exact fun t' hm => ih t' (by have := Ty.w_lt_wl hm; omega) (h t' hm)
    · rename_i ts; exact fun t' hm => ih t' (by have := Ty.w_lt_wl hm; omega) (h t' hm)
    · exact ih _ (by omega) h
    · exact ih _ (by omega) h
    · exact ih _ (by omega) h
    · exact ih _ (by omega) h
    · exact ih _ (by omega) h

theorem dtypeL_length (vs : List Val) : (dtypeL cfg sfh vs).length = vs.length := by
  induction vs with
  | nil => unfold dtypeL; rfl
  | cons v vs ih => unfold dtypeL; simp [ih]

theorem dtypeL_get (vs : List Val) (i : Nat) (t : Ty) (h : (dtypeL cfg sfh vs)[i]? = some t) :
    ∃ x, vs[i]? = some x ∧ t = dtype cfg sfh x := by
  induction vs generalizing i with
  | nil => unfold dtypeL at h; simp at h
  | cons v vs ih =>
    unfold dtypeL at h
    cases i with
    | zero => simp at h; exact ⟨v, by simp, h.symm⟩
    | succ j => simp at h; obtain ⟨x, hx, ht⟩ := ih j h; exact ⟨x, by simpa using hx, ht⟩

theorem dtypeM_names (es : List (Val × Val)) : (dtypeM cfg sfh es).map (·.1) = es.map (fun e => keyName e.1) := by
  induction es with
  | nil => unfold dtypeM; rfl
  | cons e es ih => obtain ⟨k, v⟩ := e; unfold dtypeM; simp [ih]

theorem dtypeM_mem (es : List (Val × Val)) (m : Member) (h : m ∈ dtypeM cfg sfh es) :
    ∃ e ∈ es, m.1 = keyName e.1 ∧ m.2.2 = dtype cfg sfh e.2 := by
  induction es with
  | nil => unfold dtypeM at h; cases h
  | cons e es ih =>
    obtain ⟨k, v⟩ := e
    unfold dtypeM at h
    simp only [List.mem_cons] at h
    rcases h with rfl | h
    · exact ⟨(k, v), by simp, rfl, rfl⟩
    · obtain ⟨e, he, h1, h2⟩ := ih h; exact ⟨e, by simp [he], h1, h2⟩

theorem dtypeM_of_mem (es : List (Val × Val)) (e : Val × Val) (h : e ∈ es) :
    ∃ m ∈ dtypeM cfg sfh es, m.1 = keyName e.1 ∧ m.2.2 = dtype cfg sfh e.2 := by
  induction es with
  | nil => cases h
  | cons e' es ih =>
    obtain ⟨k, v⟩ := e'
    unfold dtypeM
    simp only [List.mem_cons] at h
    rcases h with rfl | h
    · exact ⟨_, List.mem_cons_self, rfl, rfl⟩
    · obtain ⟨m, hm, h1, h2⟩ := ih h; exact ⟨m, List.mem_cons_of_mem _ hm, h1, h2⟩

/-- pairwise different string keys give pairwise different member names -/
theorem names_nodup (es : List (Val × Val)) (hn : KeysNodup es) (hs : ∀ e ∈ es, ∃ s, e.1 = .str s ∧ s ≠ "") :
    (es.map (fun e => keyName e.1)).Nodup := by
  induction es with
  | nil => simp
  | cons e es ih =>
    simp only [List.map_cons, List.nodup_cons]
    refine ⟨?_, ih hn.tail (fun e' he' => hs e' (by simp [he']))⟩
    intro hmem
    simp only [List.mem_map] at hmem
    obtain ⟨e', he', hk⟩ := hmem
    obtain ⟨s, hs1, _⟩ := hs e (by simp)
    obtain ⟨s', hs1', _⟩ := hs e' (by simp [he'])
    have hss : s' = s := by rw [hs1, hs1'] at hk; simpa [keyName] using hk
    have h1 := hn s
    rw [List.countP_cons] at h1
    have hpos : 0 < es.countP (keyIs s) := List.countP_pos_iff.2 ⟨e', he', (keyIs_iff s e').2 (by rw [hs1', hss])⟩
    have : keyIs s e = true := (keyIs_iff s e).2 hs1
    simp only [this, if_true] at h1
    omega

/-- neither Array nor Hash (hereditarily through Sensitive); type values are well-formed (any type of the model: reflexivity holds for
    every well-formed type, `asg_refl_all`) -/
def Val.Leafy (cfg : Cfg) : Val → Prop
  | .array _ | .hash _ => False
  | .sensitive v => Val.Leafy cfg v
  | .typ t => Ty.WF cfg t
  | _ => True

theorem ptype_leafy (v : Val) (h : Val.Leafy cfg v) : inst cfg sfh (ptype cfg sfh v) v = true := by
  match v, h with
  | .sensitive v, h => unfold ptype; unfold inst; exact ptype_leafy v h
  | .typ t, h =>
    unfold ptype; unfold inst
    exact asg_refl_all cfg sfh t.w t (Nat.le_refl _) h
  | .obj p, _ => unfold ptype; unfold inst; simp [isPrefix_refl]
  | .undef, _ => unfold ptype; unfold inst; rfl
  | .dflt, _ => unfold ptype; unfold inst; rfl
  | .bool b, _ => unfold ptype; unfold inst; simp
  | .int i, _ => unfold ptype; unfold inst; simp [Rng.contains]
  | .float f, _ => unfold ptype; unfold inst; simp; exact ⟨Fl.effLo_le f, Fl.le_effHi f⟩
  | .str s, _ => unfold ptype; unfold inst; simp
  | .regexp s, _ => unfold ptype; unfold inst; simp
  | .binary s, _ => unfold ptype; unfold inst; rfl
  | .tspan n, _ => unfold ptype; unfold inst; simp [Rng.contains]
  | .tstamp n, _ => unfold ptype; unfold inst; simp [Rng.contains]
termination_by v.w
decreasing_by simp [Val.w]

/-- values whose hashes are keyed by pairwise different non-empty strings, with Sensitive only around non-containers: the detailed
    type (Tuple of detailed types / Struct of detailed member types) is built without `commonType` -/
inductive Val.Structy (cfg : Cfg) (sfh : Bool) : Val → Prop
  | leaf (v) : Val.Leafy cfg v → Val.Structy cfg sfh v
  | known (v) : inst cfg sfh (dtype cfg sfh v) v = true → Val.Structy cfg sfh v   -- a sub-value for which the law is already established
  | array (vs) : (∀ x ∈ vs, Val.Structy cfg sfh x) → Val.Structy cfg sfh (.array vs)
  | hash (es : List (Val × Val)) : KeysNodup es → (∀ e ∈ es, ∃ s, e.1 = .str s ∧ s ≠ "") → (∀ e ∈ es, Val.Structy cfg sfh e.2) →
      Val.Structy cfg sfh (.hash es)

theorem dtype_structy : ∀ (n : Nat) (v : Val), v.w ≤ n → Val.Structy cfg sfh v → inst cfg sfh (dtype cfg sfh v) v = true := by
  intro n
  induction n with
  | zero => intro v h; have : 0 < v.w := by cases v <;> simp [Val.w] <;> omega
            omega
  | succ n ih =>
    intro v hw hs
    cases hs with
    | leaf _ hl =>
      have : dtype cfg sfh v = ptype cfg sfh v := by
        cases v <;> first | (exact absurd hl id) | (unfold dtype; rfl)
      rw [this]; exact ptype_leafy cfg sfh v hl
    | known _ hk => exact hk
    | array vs hall =>
      simp only [Val.w] at hw
      cases vs with
      | nil => unfold dtype; unfold inst; simp [Rng.contains, instAll]
      | cons x xs =>
        unfold dtype; unfold inst
        simp only [Bool.and_eq_true, Bool.or_eq_true]
        have hlen : (dtype cfg sfh x :: dtypeL cfg sfh xs).length = (x :: xs).length := by simp [dtypeL_length]
        refine ⟨by simp [tupleSize, Rng.exact, Rng.contains, dtypeL_length], Or.inr ?_⟩
        rw [instZip_iff cfg sfh _ _ (by simp)]
        intro i t y ht hy
        have hilt : i < (x :: xs).length := by
          rcases Nat.lt_or_ge i (x :: xs).length with h | h
          · exact h
          · rw [List.getElem?_eq_none h] at hy; cases hy
        have hmin : min i ((dtype cfg sfh x :: dtypeL cfg sfh xs).length - 1) = i := by rw [hlen]; omega
        rw [hmin] at ht
        have hd : (dtypeL cfg sfh (x :: xs)) = dtype cfg sfh x :: dtypeL cfg sfh xs := by
          conv => lhs; unfold dtypeL
        rw [← hd] at ht
        obtain ⟨y', hy', hty⟩ := dtypeL_get cfg sfh (x :: xs) i t ht
        rw [hy] at hy'; cases hy'
        have hym : y ∈ x :: xs := List.mem_of_getElem? hy
        rw [hty]
        exact ih y (by have := Val.w_lt_wl hym; omega) (hall y hym)
    | hash es hn hkeys hvals =>
      simp only [Val.w] at hw
      cases es with
      | nil => unfold dtype; unfold inst; simp [Rng.contains, instEntries]
      | cons e0 es0 =>
        obtain ⟨k0, v0⟩ := e0
        have hallstr : ((k0, v0) :: es0).all (fun e => isStrKey e.1) = true := by
          simp only [List.all_eq_true]
          intro e he; obtain ⟨s, hs, _⟩ := hkeys e he; rw [hs]; rfl
        have hnoempty : ((k0, v0) :: es0).any (fun e => isEmptyStrKey e.1) = false := by
          cases hh : ((k0, v0) :: es0).any (fun e => isEmptyStrKey e.1) with
          | false => rfl
          | true =>
            exfalso
            simp only [List.any_eq_true] at hh
            obtain ⟨e, he, hk⟩ := hh
            obtain ⟨s, hs, hne⟩ := hkeys e he
            rw [hs] at hk; simp [isEmptyStrKey] at hk; exact hne hk
        unfold dtype
        simp only [hallstr, hnoempty, Bool.not_true, Bool.false_eq_true, if_false]
        unfold inst
        simp only [beq_iff_eq]
        have hnames : ((dtypeM cfg sfh ((k0, v0) :: es0)).map (·.1)).Nodup := by
          rw [dtypeM_names]; exact names_nodup _ hn hkeys
        rw [instStruct_den cfg sfh _ _ hn hnames]
        constructor
        · intro e he
          obtain ⟨m, hm, h1, h2⟩ := dtypeM_of_mem cfg sfh _ e he
          obtain ⟨s, hs, _⟩ := hkeys e he
          refine ⟨m, hm, by rw [h1, hs]; rfl, ?_⟩
          rw [h2]
          exact ih e.2 (by have := Val.w_lt_we he; omega) (hvals e he)
        · intro m hm _
          obtain ⟨e, he, h1, _⟩ := dtypeM_mem cfg sfh _ m hm
          obtain ⟨s, hs, _⟩ := hkeys e he
          exact ⟨e, he, by rw [h1, hs]; rfl⟩

/-- side conditions of C01 on a type -/
def Ty.Good (cfg : Cfg) (sfh : Bool) (t : Ty) : Prop := t.Frag sfh ∧ Ty.WF cfg t ∧ t.US

/-- A family `G` of types (with `TV` the types admitted as type VALUES) on which `commonType` is a well-behaved upper bound — the
    obligation on `commonality.go` that the fold invariant of `PType()` needs: `G` lies within the side conditions of C01, is closed
    under `commonType`, `commonType` accepts both arguments, and `G` holds the inferred types of the leaves and is closed under the
    Array / Hash / Sensitive wrapping that `PType()` applies. -/
structure InferFam (cfg : Cfg) (sfh : Bool) (G TV : Ty → Prop) : Prop where
  good : ∀ t, G t → Ty.Good cfg sfh t
  closed : ∀ a b, G a → G b → G (commonType cfg sfh a b)
  left : ∀ a b, G a → G b → asg cfg sfh (commonType cfg sfh a b) a = true
  right : ∀ a b, G a → G b → asg cfg sfh (commonType cfg sfh a b) b = true
  leaf : G .undef ∧ G .dflt ∧ (∀ b, G (.bool (some b))) ∧ (∀ i, G (.int ⟨i, i⟩)) ∧ (∀ f, G (.float f f)) ∧ (∀ s, G (.strVal s)) ∧
    (∀ s, G (.regexp s)) ∧ G .bin ∧ (∀ n, G (.tspan ⟨n, n⟩)) ∧ (∀ p, G (.object (some p))) ∧ (∀ n, G (.tstamp ⟨n, n⟩))
  typv : ∀ t, TV t → G (.typ t) ∧ asg cfg sfh t t = true
  sens : ∀ t, G t → G (.sensitive t)
  arr0 : G (.array .unit ⟨0, 0⟩)
  arr : ∀ e r, G e → G (.array e r)
  hash0 : G (.hash .unit .unit ⟨0, 0⟩)
  hash : ∀ k v r, G k → G v → G (.hash k v r)

/-- every type used as a value inside `v` satisfies `TV` -/
inductive Val.AllTyp (TV : Ty → Prop) : Val → Prop
  | undef : Val.AllTyp TV .undef
  | dflt : Val.AllTyp TV .dflt
  | bool (b) : Val.AllTyp TV (.bool b)
  | int (i) : Val.AllTyp TV (.int i)
  | float (f) : Val.AllTyp TV (.float f)
  | str (s) : Val.AllTyp TV (.str s)
  | regexp (s) : Val.AllTyp TV (.regexp s)
  | binary (b) : Val.AllTyp TV (.binary b)
  | tspan (n) : Val.AllTyp TV (.tspan n)
  | typ (t) : TV t → Val.AllTyp TV (.typ t)
  | obj (p) : Val.AllTyp TV (.obj p)
  | sensitive (v) : Val.AllTyp TV v → Val.AllTyp TV (.sensitive v)
  | array (vs) : (∀ x ∈ vs, Val.AllTyp TV x) → Val.AllTyp TV (.array vs)
  | hash (es : List (Val × Val)) : (∀ e ∈ es, Val.AllTyp TV e.1) → (∀ e ∈ es, Val.AllTyp TV e.2) → Val.AllTyp TV (.hash es)

theorem Val.AllTyp.elems {TV : Ty → Prop} {vs : List Val} (h : Val.AllTyp TV (.array vs)) : ∀ x ∈ vs, Val.AllTyp TV x := by
  cases h with | array _ h => exact h
theorem Val.AllTyp.keys {TV : Ty → Prop} {es : List (Val × Val)} (h : Val.AllTyp TV (.hash es)) : ∀ e ∈ es, Val.AllTyp TV e.1 := by
  cases h with | hash _ h _ => exact h
theorem Val.AllTyp.vals {TV : Ty → Prop} {es : List (Val × Val)} (h : Val.AllTyp TV (.hash es)) : ∀ e ∈ es, Val.AllTyp TV e.2 := by
  cases h with | hash _ _ h => exact h
theorem Val.AllTyp.inner {TV : Ty → Prop} {v : Val} (h : Val.AllTyp TV (.sensitive v)) : Val.AllTyp TV v := by
  cases h with | sensitive _ h => exact h

theorem Ty.TF.us : ∀ (n : Nat) (t : Ty), t.w ≤ n → t.TF → t.US := by
  intro n
  induction n with
  | zero => intro t h; have := Ty.w_pos t; omega
  | succ n ih =>
    intro t hw h
    cases t <;> unfold Ty.US <;> (try trivial) <;> unfold Ty.TF at h <;> (try exact absurd h id) <;> simp only [Ty.w] at hw
    · right; exact ih _ (by omega) h
    · right; exact ⟨ih _ (by omega) h.1, ih _ (by omega) h.2⟩
    · rename_i ts g; right; exact fun t' hm => ih t' (by have := Ty.w_lt_wl hm; omega) (h t' hm)
    · rename_i ts; exact fun t' hm => ih t' (by have := Ty.w_lt_wl hm; omega) (h t' hm)
    · exact ih _ (by omega) h
    · exact ih _ (by omega) h
    · exact ih _ (by omega) h
    · exact ih _ (by omega) h
    · exact ih _ (by omega) h

theorem ptypeFoldK_eq (sfh : Bool) (acc : Ty) (es : List (Val × Val)) :
    ptypeFoldK cfg sfh acc es = ptypeFold cfg sfh acc (es.map (·.1)) := by
  induction es generalizing acc with
  | nil => unfold ptypeFoldK ptypeFold; rfl
  | cons e es ih => obtain ⟨k, v⟩ := e; unfold ptypeFoldK; simp only [List.map_cons]; unfold ptypeFold; exact ih _

theorem ptypeFoldV_eq (sfh : Bool) (acc : Ty) (es : List (Val × Val)) :
    ptypeFoldV cfg sfh acc es = ptypeFold cfg sfh acc (es.map (·.2)) := by
  induction es generalizing acc with
  | nil => unfold ptypeFoldV ptypeFold; rfl
  | cons e es ih => obtain ⟨k, v⟩ := e; unfold ptypeFoldV; simp only [List.map_cons]; unfold ptypeFold; exact ih _

/-- the fold invariant of `privateReducedType`: every element seen so far is an instance of the accumulator -/
theorem ptypeFold_inv (hl : ∀ s, (cfg.lower s).length = s.length) (G TV : Ty → Prop) (U : InferFam cfg sfh G TV) :
    ∀ (vs : List Val) (acc : Ty) (seen : List Val), G acc →
      (∀ x ∈ seen, inst cfg sfh acc x = true ∧ x.OK ∧ Val.TyOKS cfg sfh x) →
      (∀ x ∈ vs, inst cfg sfh (ptype cfg sfh x) x = true ∧ G (ptype cfg sfh x) ∧ x.OK ∧ Val.TyOKS cfg sfh x) →
      G (ptypeFold cfg sfh acc vs) ∧ ∀ x ∈ seen ++ vs, inst cfg sfh (ptypeFold cfg sfh acc vs) x = true := by
  intro vs
  induction vs with
  | nil =>
    intro acc seen hg hseen _
    unfold ptypeFold
    exact ⟨hg, fun x hx => (hseen x (by simpa using hx)).1⟩
  | cons v vs ih =>
    intro acc seen hg hseen hvs
    unfold ptypeFold
    obtain ⟨hv1, hv2, hv3, hv4⟩ := hvs v (by simp)
    have hg' := U.closed acc _ hg hv2
    have hl' := U.left acc _ hg hv2
    have hr' := U.right acc _ hg hv2
    have gA := U.good _ hg
    have gV := U.good _ hv2
    have gC := U.good _ hg'
    have := ih (commonType cfg sfh acc (ptype cfg sfh v)) (seen ++ [v]) hg'
      (by
        intro x hx
        simp only [List.mem_append, List.mem_singleton] at hx
        rcases hx with hx | rfl
        · obtain ⟨h1, h2, h3⟩ := hseen x hx
          exact ⟨sound_all cfg sfh hl _ _ acc x (Nat.le_refl _) ⟨gC.1, gA.1, gC.2.1, gA.2.1, gA.2.2, h2, h3⟩ hl' h1, h2, h3⟩
        · exact ⟨sound_all cfg sfh hl _ _ _ x (Nat.le_refl _) ⟨gC.1, gV.1, gC.2.1, gV.2.1, gV.2.2, hv3, hv4⟩ hr' hv1, hv3, hv4⟩)
      (fun x hx => hvs x (by simp [hx]))
    refine ⟨this.1, fun x hx => this.2 x ?_⟩
    simp only [List.mem_append, List.mem_cons] at hx
    rcases hx with hx | rfl | hx
    · simp [hx]
    · simp
    · simp [hx]

theorem good_leaf (t : Ty) (h : match t with
    | .undef | .dflt | .bin | .int _ | .float _ _ | .bool _ | .tspan _ | .tstamp _ | .strVal _ | .regexp _ | .object _ => True
    | _ => False) : Ty.Good cfg sfh t := by
  cases t <;> simp only [] at h <;> (first | contradiction | (refine ⟨?_, ?_, ?_⟩ <;> simp [Ty.Frag, Ty.WF, Ty.US]))

/-- first law, given a family on which `commonType` is a well-behaved upper bound: by induction on the value, with the fold invariant -/
theorem ptype_inst (hl : ∀ s, (cfg.lower s).length = s.length) (G TV : Ty → Prop) (U : InferFam cfg sfh G TV) :
    ∀ (n : Nat) (v : Val), v.w ≤ n → v.OK → Val.TyOKS cfg sfh v → Val.AllTyp TV v →
      inst cfg sfh (ptype cfg sfh v) v = true ∧ G (ptype cfg sfh v) := by
  intro n
  induction n with
  | zero => intro v h; have : 0 < v.w := by cases v <;> simp [Val.w] <;> omega
            omega
  | succ n ih =>
    intro v hw ok tv at'
    obtain ⟨l1, l2, l3, l4, l5, l6, l7, l8, l9, l10, l11⟩ := U.leaf
    cases v with
    | undef => unfold ptype; exact ⟨by unfold inst; rfl, l1⟩
    | dflt => unfold ptype; exact ⟨by unfold inst; rfl, l2⟩
    | bool b => unfold ptype; exact ⟨by unfold inst; simp, l3 b⟩
    | int i => unfold ptype; exact ⟨by unfold inst; simp [Rng.contains], l4 i⟩
    | float f => unfold ptype; exact ⟨by unfold inst; simp; exact ⟨Fl.effLo_le f, Fl.le_effHi f⟩, l5 f⟩
    | str s => unfold ptype; exact ⟨by unfold inst; simp, l6 s⟩
    | regexp s => unfold ptype; exact ⟨by unfold inst; simp, l7 s⟩
    | binary s => unfold ptype; exact ⟨by unfold inst; rfl, l8⟩
    | tspan s => unfold ptype; exact ⟨by unfold inst; simp [Rng.contains], l9 s⟩
    | tstamp s => unfold ptype; exact ⟨by unfold inst; simp [Rng.contains], l11 s⟩
    | obj p => unfold ptype; exact ⟨by unfold inst; simp [isPrefix_refl], l10 p⟩
    | typ t =>
      cases at' with
      | typ _ htv =>
        unfold ptype
        obtain ⟨h1, h2⟩ := U.typv t htv
        exact ⟨by unfold inst; exact h2, h1⟩
    | sensitive x =>
      simp only [Val.w] at hw
      obtain ⟨h1, h2⟩ := ih x (by omega) ok.inner tv.inner at'.inner
      unfold ptype
      exact ⟨by unfold inst; exact h1, U.sens _ h2⟩
    | array vs =>
      simp only [Val.w] at hw
      cases vs with
      | nil =>
        unfold ptype
        exact ⟨by unfold inst; simp [Rng.contains, instAll], U.arr0⟩
      | cons x xs =>
        have hel : ∀ y ∈ x :: xs, inst cfg sfh (ptype cfg sfh y) y = true ∧ G (ptype cfg sfh y) ∧ y.OK ∧ Val.TyOKS cfg sfh y := by
          intro y hy
          obtain ⟨h1, h2⟩ := ih y (by have := Val.w_lt_wl hy; omega) (ok.elems y hy) (tv.elems y hy) (at'.elems y hy)
          exact ⟨h1, h2, ok.elems y hy, tv.elems y hy⟩
        obtain ⟨hx1, hx2, hx3, hx4⟩ := hel x (by simp)
        have inv := ptypeFold_inv cfg sfh hl G TV U xs (ptype cfg sfh x) [x] hx2
          (by intro y hy; simp at hy; subst hy; exact ⟨hx1, hx3, hx4⟩) (fun y hy => hel y (by simp [hy]))
        unfold ptype
        refine ⟨?_, U.arr _ _ inv.1⟩
        unfold inst
        simp only [Bool.and_eq_true, Bool.or_eq_true]
        refine ⟨by simp [Rng.exact, Rng.contains], Or.inr ?_⟩
        rw [instAll_iff]
        exact fun y hy => inv.2 y (by simpa using hy)
    | hash es =>
      simp only [Val.w] at hw
      cases es with
      | nil =>
        unfold ptype
        exact ⟨by unfold inst; simp [Rng.contains, instEntries], U.hash0⟩
      | cons e0 es0 =>
        obtain ⟨k0, v0⟩ := e0
        have hk : ∀ y ∈ ((k0, v0) :: es0).map (·.1), inst cfg sfh (ptype cfg sfh y) y = true ∧ G (ptype cfg sfh y) ∧ y.OK ∧ Val.TyOKS cfg sfh y := by
          intro y hy
          simp only [List.mem_map] at hy
          obtain ⟨e, he, rfl⟩ := hy
          have hwe := Val.w_lt_we he
          obtain ⟨h1, h2⟩ := ih e.1 (by omega) (ok.keys e he) (tv.keys e he) (at'.keys e he)
          exact ⟨h1, h2, ok.keys e he, tv.keys e he⟩
        have hv : ∀ y ∈ ((k0, v0) :: es0).map (·.2), inst cfg sfh (ptype cfg sfh y) y = true ∧ G (ptype cfg sfh y) ∧ y.OK ∧ Val.TyOKS cfg sfh y := by
          intro y hy
          simp only [List.mem_map] at hy
          obtain ⟨e, he, rfl⟩ := hy
          have hwe := Val.w_lt_we he
          obtain ⟨h1, h2⟩ := ih e.2 (by omega) (ok.vals e he) (tv.vals e he) (at'.vals e he)
          exact ⟨h1, h2, ok.vals e he, tv.vals e he⟩
        obtain ⟨hk1, hk2, hk3, hk4⟩ := hk k0 (by simp)
        obtain ⟨hv1, hv2, hv3, hv4⟩ := hv v0 (by simp)
        have invK := ptypeFold_inv cfg sfh hl G TV U (es0.map (·.1)) (ptype cfg sfh k0) [k0] hk2
          (by intro y hy; simp at hy; subst hy; exact ⟨hk1, hk3, hk4⟩) (fun y hy => hk y (by simp at hy ⊢; right; exact hy))
        have invV := ptypeFold_inv cfg sfh hl G TV U (es0.map (·.2)) (ptype cfg sfh v0) [v0] hv2
          (by intro y hy; simp at hy; subst hy; exact ⟨hv1, hv3, hv4⟩) (fun y hy => hv y (by simp at hy ⊢; right; exact hy))
        unfold ptype
        rw [ptypeFoldK_eq, ptypeFoldV_eq]
        refine ⟨?_, U.hash _ _ _ invK.1 invV.1⟩
        unfold inst
        simp only [Bool.and_eq_true]
        refine ⟨by simp [Rng.exact, Rng.contains], ?_⟩
        rw [instEntries_iff]
        intro e he
        constructor
        · apply invK.2 e.1
          simp only [List.mem_cons] at he
          rcases he with rfl | he
          · simp
          · simp only [List.singleton_append, List.mem_cons, List.mem_map]; right; exact ⟨e, he, rfl⟩
        · apply invV.2 e.2
          simp only [List.mem_cons] at he
          rcases he with rfl | he
          · simp
          · simp only [List.singleton_append, List.mem_cons, List.mem_map]; right; exact ⟨e, he, rfl⟩

end Pcore.Lat
