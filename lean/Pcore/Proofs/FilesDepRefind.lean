import Pcore.Proofs.FilesTypesetDep
/-!
C15, a miss recorded by the dependency loader is not final (fix 9d272bd of /repo): with a nil-valued own entry
`dependencyLoader.LoadEntry` runs `find` again.  A value found now — a definition made meanwhile through a module's
DefiningLoader — is stored over the miss and answered; when `find` misses again the old entry is answered and nothing
changes; a cached value stays final (`dep_cached`).
-/
namespace Pcore.Files

/-- a definition made between lookups, as a state change -/
theorem defineS_fresh (s : St) (l : Lid) (name : Name) (h : ∀ d, s.get l (keyOf name) ≠ some (some d)) :
    defineS s l name = (none, s.put l (keyOf name) (some ⟨.alias, name⟩)) := by
  unfold defineS defineIn
  simp only [bind, pure, setEntry]
  cases hg : s.get l (keyOf name) with
  | none => rfl
  | some o =>
    cases o with
    | none => rfl
    | some d => exact absurd hg (h d)

/-- the dependency loader holds a recorded miss for a qualified name, the module its first segment names holds a
    definition by now (the global loader above it the placeholder of the earlier miss): found, stored over the miss -/
theorem dep_refind_found (cfg : Cfg) (mod : String) (hv : cfg.via = .d) (hflat : cfg.flat = false)
    (hmods : cfg.mods.contains mod = true) (name : Name) (hqual : qualified name = true)
    (hparts : ∃ ps, partsOf name = some ps ∧ ps.head? = some mod) (hsys : sysLoad name = none)
    (s : St) (d : Def) (n : Nat)
    (hd : s.get .d (keyOf name) = some none) (hg : s.get .g (keyOf name) = some none)
    (hm : s.get (.m mod) (keyOf name) = some (some d)) :
    loadS (n+5) cfg s name = (.found d, s.put .d (keyOf name) (some d)) := by
  obtain ⟨ps, hp, hh⟩ := hparts
  have hmods' : cfg.mods.isEmpty = false := by
    cases hm' : cfg.mods with
    | nil => rw [hm'] at hmods; simp at hmods
    | cons x xs => rfl
  obtain ⟨mods, tree, via, gi, fl⟩ := cfg
  simp only at hv hflat
  subst hv
  subst hflat
  simp only at hmods hmods'
  unfold loadS load
  simp only [loadEntry, dLoadEntry, dFind, bind, pure, getSt, hd, hmods', hqual, partsM, hp, hh, Bool.not_false,
    Bool.and_self, if_true, hmods, fbLoadEntry, Bool.false_eq_true, if_false, hsys, hg, hm]
  simp [setEntry, hd]

/-- the same lookup when the module still has nothing (its loader and the global loader hold the placeholders of the
    earlier miss): `find` misses again, the old entry is answered, nothing changes -/
theorem dep_refind_miss (cfg : Cfg) (mod : String) (hv : cfg.via = .d) (hflat : cfg.flat = false)
    (hmods : cfg.mods.contains mod = true) (name : Name) (hqual : qualified name = true)
    (hparts : ∃ ps, partsOf name = some ps ∧ ps.head? = some mod) (hsys : sysLoad name = none)
    (s : St) (n : Nat)
    (hd : s.get .d (keyOf name) = some none) (hg : s.get .g (keyOf name) = some none)
    (hm : s.get (.m mod) (keyOf name) = some none) :
    loadS (n+5) cfg s name = (.notfound, s) := by
  obtain ⟨ps, hp, hh⟩ := hparts
  have hmods' : cfg.mods.isEmpty = false := by
    cases hm' : cfg.mods with
    | nil => rw [hm'] at hmods; simp at hmods
    | cons x xs => rfl
  obtain ⟨mods, tree, via, gi, fl⟩ := cfg
  simp only at hv hflat
  subst hv
  subst hflat
  simp only at hmods hmods'
  unfold loadS load
  simp only [loadEntry, dLoadEntry, dFind, bind, pure, getSt, hd, hmods', hqual, partsM, hp, hh, Bool.not_false,
    Bool.and_self, if_true, hmods, fbLoadEntry, Bool.false_eq_true, if_false, hsys, hg, hm]

end Pcore.Files
