import Pcore.Proofs.ValueRT
import Pcore.Proofs.CallableArgs
import Pcore.Model.Types
/-!
Layer 4 of C05 (resolution) for the modelled fragment: the expression a type prints (`tyExpr`) is a printable
expression (`Lit`), and the positional creators map it back to the type (`resolve (exprOf (tyExpr t)) = some t`).
-/
namespace Pcore.Syntax

/-! ### names -/

def tyNameB (n : Str) : Bool :=
  match n with
  | [] => false
  | c :: w => isUpper c && w.all fun d => isWord d && d != ':' && d != runeError

theorem tyName_of_B {n : Str} (h : tyNameB n = true) : TyName n := by
  cases n with
  | nil => simp [tyNameB] at h
  | cons c w =>
    simp only [tyNameB, Bool.and_eq_true, List.all_eq_true, bne_iff_ne, ne_eq] at h
    exact ⟨c, w, rfl, h.1, fun d hd => ⟨(h.2 d hd).1.1, (h.2 d hd).1.2, (h.2 d hd).2⟩⟩

theorem kind_names : ∀ k ∈ allKinds, tyNameB k.name = true ∧ kindOf k.name = some k := by decide

theorem allKinds_complete (k : TKind) : k ∈ allKinds := by
  cases k with
  | wrap w => cases w <;> decide
  | _ => decide

theorem tyName_kind (k : TKind) : TyName k.name := tyName_of_B (kind_names k (allKinds_complete k)).1
theorem kindOf_name (k : TKind) : kindOf k.name = some k := (kind_names k (allKinds_complete k)).2

theorem canon_kinds : ∀ k ∈ allKinds, canonName k.name = k.name := by decide
theorem canon_kind (k : TKind) : canonName k.name = k.name := canon_kinds k (allKinds_complete k)
theorem canon_plain : ∀ n ∈ plainNames, canonName n = n := by decide

theorem plain_names : ∀ n ∈ plainNames, tyNameB n = true ∧ (kindOf n = none ∨ n = "String".toList) := by decide

theorem tyName_Optional : TyName "Optional".toList := tyName_of_B (by decide)
theorem tyName_NotUndef : TyName "NotUndef".toList := tyName_of_B (by decide)

/-! ### well-formed types of the fragment -/

def inI64 (lo hi : Int) : Prop := i64min ≤ lo ∧ lo ≤ hi ∧ hi ≤ i64max

/-- **the float parameter** (DESIGN §3.4), exactly what the type theorem assumes of decimal float conversion, per bound
    `b` of a `Float[…]` type that is printed (`b ≠ dflt`): the text kept with the bound is the text the formatter oracle
    gives (`env.ff b` — `floatGFormat("%g")` in the implementation); that text, followed by any continuation the printer
    produces, lexes as ONE float token; and the reader oracle (`env.pf` — `strconv.ParseFloat`) maps it back to `b`.
    A bound left at its default (`-MaxFloat64` resp. `MaxFloat64`) is not printed and carries no text. -/
def FloatIO (env : Env) (b dflt : Nat) (text : Str) : Prop :=
  if b = dflt then text = [] else text = env.ff b ∧ Lit env (.float b text)

mutual
/-- the types of the fragment in the normal form the creators produce (`env` = `regexp.Compile` succeeds) -/
def WFTy (env : Env) : Ty → Prop
  | .named n => n ∈ plainNames
  | .int lo hi => inI64 lo hi
  | .float lo lot hi hit => FloatIO env lo fNegMax lot ∧ FloatIO env hi fPosMax hit ∧ fkey lo ≤ fkey hi
  | .strSz lo hi => 0 ≤ lo ∧ inI64 lo hi ∧ ¬(lo = 0 ∧ hi = i64max)
  | .strVal _ => False
  | .bool _ => True
  | .enum vs ci => (vs = [] → ci = false) ∧ (ci = true → ∀ v ∈ vs, lowerStr v = v)
  | .regexp s => s = [] ∨ (rxRep false s = true ∧ env.rxOK s = true)
  | .pattern srcs => ∀ s ∈ srcs, rxRep false s = true ∧ env.rxOK s = true
  | .wrap k t =>
    match t with
    | .strVal s => (k = .optional ∨ k = .notUndef) ∧ s ≠ []
    | _ => WFTy env t
  | .variant ts => ts.length ≠ 1 ∧ WFTys env ts
  | .array t lo hi => WFTy env t ∧ inI64 lo hi
  | .hash k v lo hi => WFTy env k ∧ WFTy env v ∧ inI64 lo hi
  | .collection lo hi => inI64 lo hi
  | .tuple ts sz =>
    WFTys env ts ∧
    (match sz with
     | none => ts ≠ []
     | some r => inI64 r.1 r.2 ∧ 0 ≤ r.2)
  | .struct ms => WFMs env ms
  | .callable none ret blk => ret = none ∧ blk = none
  | .callable (some (ts, sz)) ret blk =>
    WFTys env ts ∧ CallableShape ts sz ret.isSome blk.isSome ∧ WFOpt env ret ∧ WFOpt env blk ∧ blk.all Ty.isBlock = true
  | .runtime rt name pat =>
    (rt = "go".toList → name = []) ∧
    (match pat with
     | some src => src = [] ∨ (rxRep false src = true ∧ env.rxOK src = true)
     | none => True)
  | .typeRef _ => True
def WFTys (env : Env) : List Ty → Prop
  | [] => True
  | t :: ts => WFTy env t ∧ WFTys env ts
def WFOpt (env : Env) : Option Ty → Prop
  | none => True
  | some t => WFTy env t
/-- Struct members: a non-empty name, any optionality of the key, a well-formed value type (duplicate names are allowed:
    the creator keeps them) -/
def WFMs (env : Env) : List (Str × Bool × Ty) → Prop
  | [] => True
  | (n, _, t) :: ms => n ≠ [] ∧ WFTy env t ∧ WFMs env ms
end

/-! ### what a type prints is a printable expression -/

theorem lit_tname (env : Env) (k : TKind) (ps : List Val) (h : LitL env ps) : Lit env (tname k ps) := by
  unfold tname
  cases ps with
  | nil => simp [Lit, tyName_kind]
  | cons p ps' => simp [Lit, tyName_kind, h]

theorem lit_int (env : Env) (i : Int) (h1 : i64min ≤ i) (h2 : i ≤ i64max) : Lit env (.int i) := by
  simp only [Lit, int64Bound, i64min, i64max] at *
  omega

theorem litL_sizeParams (env : Env) (lo hi : Int) (h : inI64 lo hi) : LitL env (sizeParams lo hi) := by
  obtain ⟨h1, h2, h3⟩ := h
  unfold sizeParams
  split
  · exact ⟨lit_int env lo h1 (by omega), trivial, trivial⟩
  · exact ⟨lit_int env lo h1 (by omega), lit_int env hi (by omega) h3, trivial⟩

theorem litL_intParams (env : Env) (lo hi : Int) (h : inI64 lo hi) : LitL env (intParams lo hi) := by
  obtain ⟨h1, h2, h3⟩ := h
  unfold intParams
  split
  · split
    · trivial
    · exact ⟨trivial, lit_int env hi (by omega) h3, trivial⟩
  · split
    · exact ⟨lit_int env lo h1 (by omega), trivial⟩
    · exact ⟨lit_int env lo h1 (by omega), lit_int env hi (by omega) h3, trivial⟩

theorem litL_strs (env : Env) (vs : List Str) (tl : List Val) (h : LitL env tl) : LitL env (vs.map Val.str ++ tl) := by
  induction vs with
  | nil => simpa using h
  | cons v vs ih => exact ⟨trivial, ih⟩

theorem litL_rxs (env : Env) (srcs : List Str) (h : ∀ s ∈ srcs, rxRep false s = true ∧ env.rxOK s = true) :
    LitL env (srcs.map Val.regexp) := by
  induction srcs with
  | nil => trivial
  | cons s ss ih =>
    exact ⟨h s (by simp), ih (fun x hx => h x (by simp [hx]))⟩

theorem litL_append (env : Env) (a b : List Val) (ha : LitL env a) (hb : LitL env b) : LitL env (a ++ b) := by
  induction a with
  | nil => simpa using hb
  | cons x xs ih => exact ⟨ha.1, ih ha.2⟩

theorem litL_floatParams (env : Env) (lo : Nat) (lot : Str) (hi : Nat) (hit : Str)
    (h1 : FloatIO env lo fNegMax lot) (h2 : FloatIO env hi fPosMax hit) : LitL env (floatParams lo lot hi hit) := by
  unfold FloatIO at h1 h2
  unfold floatParams
  split
  · split
    · trivial
    · rename_i hhi; rw [if_neg hhi] at h2; exact ⟨trivial, h2.2, trivial⟩
  · rename_i hlo
    rw [if_neg hlo] at h1
    split
    · exact ⟨h1.2, trivial⟩
    · rename_i hhi; rw [if_neg hhi] at h2; exact ⟨h1.2, h2.2, trivial⟩

theorem lit_callableVal (env : Env) (tp : List Val) (blk ret : Option Val) (h1 : LitL env tp) (h2 : ∀ v ∈ blk, Lit env v)
    (h3 : ∀ v ∈ ret, Lit env v) : Lit env (callableVal tp blk ret) := by
  have hpb : LitL env (tp ++ blk.toList) := by
    apply litL_append env _ _ h1
    cases blk with
    | none => trivial
    | some b => exact ⟨h2 b rfl, trivial⟩
  unfold callableVal
  cases ret with
  | none => exact lit_tname env _ _ hpb
  | some r => exact lit_tname env _ _ ⟨hpb, h3 r rfl, trivial⟩

theorem lit_memberKey (env : Env) (n : Str) (o ov : Bool) : Lit env (memberKey n o ov) := by
  unfold memberKey
  split
  · trivial
  · split
    · exact ⟨tyName_Optional, by simp, trivial, trivial⟩
    · exact ⟨tyName_NotUndef, by simp, trivial, trivial⟩

mutual
theorem lit_tyExpr (env : Env) : (t : Ty) → WFTy env t → Lit env (tyExpr t)
  | .named n, h => by
    have := (plain_names n h).1
    simpa [tyExpr, Lit] using tyName_of_B this
  | .int lo hi, h => by
    simp only [tyExpr]; exact lit_tname env _ _ (litL_intParams env lo hi h)
  | .float lo lot hi hit, h => by
    simp only [tyExpr]; exact lit_tname env _ _ (litL_floatParams env lo lot hi hit h.1 h.2.1)
  | .strSz lo hi, h => by
    simp only [tyExpr]; exact lit_tname env _ _ (litL_intParams env lo hi h.2.1)
  | .strVal _, h => absurd h (by simp [WFTy])
  | .bool none, _ => by simp only [tyExpr]; exact lit_tname env _ _ trivial
  | .bool (some b), _ => by simp only [tyExpr]; exact lit_tname env _ _ ⟨trivial, trivial⟩
  | .enum vs ci, _ => by
    simp only [tyExpr]
    refine lit_tname env _ _ (litL_strs env vs _ ?_)
    split
    · exact ⟨trivial, trivial⟩
    · trivial
  | .regexp s, h => by
    simp only [tyExpr]
    refine lit_tname env _ _ ?_
    split
    · trivial
    · rename_i hs
      rcases h with h | h
      · subst h; simp at hs
      · exact ⟨h, trivial⟩
  | .pattern srcs, h => by
    simp only [tyExpr]; exact lit_tname env _ _ (litL_rxs env srcs h)
  | .wrap k t, h => by
    simp only [tyExpr]
    split
    · exact lit_tname env _ _ trivial
    · split
      · exact lit_tname env _ _ ⟨trivial, trivial⟩
      · exact lit_tname env _ _ ⟨trivial, trivial⟩
      · rename_i h1 h2
        refine lit_tname env _ _ ⟨lit_tyExpr env t ?_, trivial⟩
        cases t with
        | strVal s =>
          simp only [WFTy] at h
          rcases h.1 with rfl | rfl
          · exact (h1 s rfl rfl).elim
          · exact (h2 s rfl rfl).elim
        | _ => simp only [WFTy] at h; exact h
  | .variant ts, h => by
    simp only [tyExpr]; exact lit_tname env _ _ (litL_tyExprs env ts h.2)
  | .array t lo hi, h => by
    simp only [tyExpr]
    split
    · exact lit_tname env _ _ (litL_sizeParams env lo hi h.2)
    · refine lit_tname env _ _ (litL_append env _ _ ?_ ?_)
      · split
        · exact ⟨lit_tyExpr env t h.1, trivial⟩
        · trivial
      · split
        · trivial
        · exact litL_sizeParams env lo hi h.2
  | .hash k v lo hi, h => by
    simp only [tyExpr]
    split
    · exact lit_tname env _ _ trivial
    · split
      · exact lit_tname env _ _ ⟨lit_int env 0 (by decide) (by decide), lit_int env 0 (by decide) (by decide), trivial⟩
      · refine lit_tname env _ _ ⟨lit_tyExpr env k h.1, lit_tyExpr env v h.2.1, ?_⟩
        split
        · trivial
        · exact litL_sizeParams env lo hi h.2.2
  | .collection lo hi, h => by
    simp only [tyExpr]
    refine lit_tname env _ _ ?_
    split
    · trivial
    · exact litL_sizeParams env lo hi h
  | .tuple ts sz, h => by
    simp only [tyExpr]
    refine lit_tname env _ _ (litL_append env _ _ (litL_tyExprs env ts h.1) ?_)
    cases sz with
    | none => trivial
    | some r =>
      simp only
      split
      · trivial
      · exact litL_sizeParams env r.1 r.2 h.2.1
  | .struct ms, h => by
    simp only [tyExpr]
    refine lit_tname env _ _ ?_
    split
    · trivial
    · exact ⟨litE_tyMembers env ms h, trivial⟩
  | .callable none ret blk, h => by
    obtain ⟨rfl, rfl⟩ := h
    simp only [tyExpr, tyExprOpt, callableVal, Option.toList, List.append_nil]
    exact lit_tname env _ _ trivial
  | .callable (some (ts, sz)) ret blk, h => by
    obtain ⟨hts, hshape, hret, hblk, _⟩ := h
    have hsz : LitL env (tupleSizeVals ts.isEmpty sz) := by
      unfold tupleSizeVals
      cases sz with
      | none => trivial
      | some r =>
        simp only
        split
        · trivial
        · obtain ⟨h1, h2, h3, _⟩ := hshape.1
          exact litL_sizeParams env r.1 r.2 ⟨h1, h2, h3⟩
    have htp := litL_append env _ _ (litL_tyExprsNU env ts hts) hsz
    simp only [tyExpr]
    exact lit_callableVal env _ _ _ htp (lit_tyExprOpt env blk hblk) (lit_tyExprOpt env ret hret)
  | .runtime rt name pat, h => by
    obtain ⟨_, h3⟩ := h
    simp only [tyExpr]
    split
    · exact lit_tname env _ _ trivial
    · refine lit_tname env _ _ ⟨trivial, litL_append env _ _ ?_ ?_⟩
      · split
        · trivial
        · exact ⟨trivial, trivial⟩
      · cases pat with
        | none => trivial
        | some src =>
          refine ⟨lit_tname env _ _ ?_, trivial⟩
          split
          · trivial
          · rename_i hs
            rcases h3 with h | h
            · subst h; simp at hs
            · exact ⟨h, trivial⟩
  | .typeRef s, _ => by
    simp only [tyExpr]
    refine lit_tname env _ _ ?_
    split
    · trivial
    · exact ⟨trivial, trivial⟩
theorem litL_tyExprs (env : Env) : (ts : List Ty) → WFTys env ts → LitL env (tyExprs ts)
  | [], _ => trivial
  | t :: ts, h => ⟨lit_tyExpr env t h.1, litL_tyExprs env ts h.2⟩
theorem lit_tyExprOpt (env : Env) : (o : Option Ty) → WFOpt env o → ∀ v ∈ tyExprOpt o, Lit env v
  | none, _ => by simp [tyExprOpt]
  | some t, h => by
    intro v hv
    simp only [tyExprOpt, Option.mem_def, Option.some.injEq] at hv
    subst hv
    exact lit_tyExpr env t h
theorem litL_tyExprsNU (env : Env) : (ts : List Ty) → WFTys env ts → LitL env (tyExprsNU ts)
  | [], _ => trivial
  | t :: ts, h => by
    simp only [tyExprsNU]
    split
    · exact litL_tyExprsNU env ts h.2
    · exact ⟨lit_tyExpr env t h.1, litL_tyExprsNU env ts h.2⟩
theorem litE_tyMembers (env : Env) : (ms : List (Str × Bool × Ty)) → WFMs env ms → LitE env (tyMembers ms)
  | [], _ => trivial
  | (n, o, t) :: ms, h => ⟨lit_memberKey env n o _, lit_tyExpr env t h.2.1, litE_tyMembers env ms h.2.2⟩
end

/-! ### resolution of what a type prints -/

theorem exprOf_tname (k : TKind) (ps : List Val) :
    exprOf (tname k ps) = .dtype k.name (if ps.isEmpty then none else some (exprsOf ps)) := by
  unfold tname
  cases ps <;> simp [exprOf]

theorem resolve_bare (env : Env) (k : TKind) : resolve env (.dtype k.name none) = some (defaultOf k) := by
  simp [resolve, resolveName, canon_kind, kindOf_name]

theorem resolve_params (env : Env) (k : TKind) (es : List Expr) :
    resolve env (.dtype k.name (some es)) = (resolveArgs env es).bind (createK env k) := by
  simp [resolve, create, canon_kind, kindOf_name]

theorem resolve_tname (env : Env) (k : TKind) (ps : List Val) :
    resolve env (exprOf (tname k ps)) =
      if ps.isEmpty then some (defaultOf k) else (resolveArgs env (exprsOf ps)).bind (createK env k) := by
  rw [exprOf_tname]
  cases ps with
  | nil => simp [resolve_bare]
  | cons p ps' => simp [resolve_params]

theorem exprOf_tyExpr_dtype (t : Ty) : ∃ n ps, exprOf (tyExpr t) = .dtype n ps := by
  have key : ∀ k ps, ∃ n q, exprOf (tname k ps) = .dtype n q := fun k ps => ⟨_, _, exprOf_tname k ps⟩
  cases t with
  | named n => exact ⟨n, none, by simp [tyExpr, exprOf]⟩
  | bool b => cases b <;> (simp only [tyExpr]; exact key _ _)
  | wrap k t =>
    simp only [tyExpr]
    split
    · exact key _ _
    · split <;> exact key _ _
  | array t lo hi => simp only [tyExpr]; split <;> exact key _ _
  | struct ms => simp only [tyExpr]; exact key _ _
  | callable ps ret blk =>
    have kc : ∀ tp b r, ∃ n q, exprOf (callableVal tp b r) = .dtype n q := by
      intro tp b r; unfold callableVal; cases r <;> exact key _ _
    cases ps with
    | none => simp only [tyExpr]; exact kc _ _ _
    | some p => obtain ⟨ts, sz⟩ := p; simp only [tyExpr]; exact kc _ _ _
  | runtime rt name pat => simp only [tyExpr]; split <;> exact key _ _
  | hash k v lo hi =>
    simp only [tyExpr]
    split
    · exact key _ _
    · split <;> exact key _ _
  | _ => simp only [tyExpr]; exact key _ _

theorem resolveArg_ty (env : Env) (t : Ty) :
    resolveArg env (exprOf (tyExpr t)) = (resolve env (exprOf (tyExpr t))).map .ty := by
  obtain ⟨n, ps, h⟩ := exprOf_tyExpr_dtype t
  rw [h]; simp [resolveArg]

theorem resolveArgs_sizeParams (env : Env) (lo hi : Int) :
    resolveArgs env (exprsOf (sizeParams lo hi)) = some [.int lo, if hi = i64max then .dflt else .int hi] := by
  unfold sizeParams
  split <;> simp [exprsOf, exprOf, resolveArgs, resolveArg, *]

theorem isAny_eq {t : Ty} (h : t.isAny = true) : t = tyAny := by
  cases t <;> simp_all [Ty.isAny, tyAny]

theorem isUnit_eq {t : Ty} (h : t.isUnit = true) : t = tyUnit := by
  cases t <;> simp_all [Ty.isUnit, tyUnit]

theorem resolve_named (env : Env) (n : Str) (h : n ∈ plainNames) :
    resolve env (exprOf (tyExpr (.named n))) = some (.named n) := by
  simp only [tyExpr, exprOf, resolve, resolveName, canon_plain n h]
  rcases (plain_names n h).2 with hk | rfl
  · simp [hk, h]
  · rfl

theorem resolve_int (env : Env) (lo hi : Int) (h : inI64 lo hi) :
    resolve env (exprOf (tyExpr (.int lo hi))) = some (.int lo hi) := by
  obtain ⟨h1, h2, h3⟩ := h
  simp only [tyExpr, resolve_tname, intParams]
  by_cases hlo : lo = i64min
  · by_cases hhi : hi = i64max
    · simp [hlo, hhi, defaultOf]
    · have : ¬ i64min > hi := by omega
      simp [hlo, hhi, exprsOf, exprOf, resolveArgs, resolveArg, createK, intOr, newInt, this]
  · by_cases hhi : hi = i64max
    · have : ¬ lo > i64max := by omega
      simp [hlo, hhi, exprsOf, exprOf, resolveArgs, resolveArg, createK, intOr, newInt, this]
    · have : ¬ lo > hi := by omega
      simp [hlo, hhi, exprsOf, exprOf, resolveArgs, resolveArg, createK, intOr, newInt, this]

theorem resolve_float (env : Env) (lo : Nat) (lot : Str) (hi : Nat) (hit : Str)
    (h : FloatIO env lo fNegMax lot ∧ FloatIO env hi fPosMax hit ∧ fkey lo ≤ fkey hi) :
    resolve env (exprOf (tyExpr (.float lo lot hi hit))) = some (.float lo lot hi hit) := by
  obtain ⟨h1, h2, h3⟩ := h
  unfold FloatIO at h1 h2
  have hle : ¬ fkey lo > fkey hi := by omega
  have hmax : fkey fNegMax ≤ fkey fPosMax := by decide
  simp only [tyExpr, resolve_tname, floatParams]
  by_cases hlo : lo = fNegMax
  · rw [if_pos hlo] at h1
    by_cases hhi : hi = fPosMax
    · rw [if_pos hhi] at h2
      subst hlo hhi h1 h2
      simp [defaultOf]
    · rw [if_neg hhi] at h2
      subst hlo h1
      simp [hhi, exprsOf, exprOf, resolveArgs, resolveArg, createK, floatOr, newFloat, hle, ← h2.1]
  · rw [if_neg hlo] at h1
    by_cases hhi : hi = fPosMax
    · rw [if_pos hhi] at h2
      subst hhi h2
      simp [hlo, exprsOf, exprOf, resolveArgs, resolveArg, createK, floatOr, newFloat, hle, ← h1.1]
    · rw [if_neg hhi] at h2
      simp [hlo, hhi, exprsOf, exprOf, resolveArgs, resolveArg, createK, floatOr, newFloat, hle, ← h1.1, ← h2.1]

theorem resolve_strSz (env : Env) (lo hi : Int) (h : 0 ≤ lo ∧ inI64 lo hi ∧ ¬(lo = 0 ∧ hi = i64max)) :
    resolve env (exprOf (tyExpr (.strSz lo hi))) = some (.strSz lo hi) := by
  obtain ⟨h0, ⟨h1, h2, h3⟩, hn⟩ := h
  have hlo : lo ≠ i64min := by simp only [i64min]; omega
  simp only [tyExpr, resolve_tname, intParams]
  by_cases hhi : hi = i64max
  · subst hhi
    have e1 : ¬ lo > i64max := by omega
    have e2 : ¬ lo < 0 := by omega
    have e3 : lo ≠ 0 := fun e => hn ⟨e, rfl⟩
    simp [hlo, exprsOf, exprOf, resolveArgs, resolveArg, createK, newStr, newInt, e1, e2, e3]
  · have e1 : ¬ lo > hi := by omega
    have e2 : ¬ lo < 0 := by omega
    simp [hlo, hhi, exprsOf, exprOf, resolveArgs, resolveArg, createK, newStr, newInt, e1, e2]

theorem resolve_bool (env : Env) (b : Option Bool) :
    resolve env (exprOf (tyExpr (.bool b))) = some (.bool b) := by
  cases b with
  | none => simp [tyExpr, resolve_tname, defaultOf]
  | some b => simp [tyExpr, resolve_tname, exprsOf, exprOf, resolveArgs, resolveArg, createK]

theorem resolve_regexp (env : Env) (s : Str) :
    resolve env (exprOf (tyExpr (.regexp s))) = some (.regexp s) := by
  simp only [tyExpr, resolve_tname]
  cases s with
  | nil => simp [defaultOf]
  | cons c cs => simp [exprsOf, exprOf, resolveArgs, resolveArg, createK]

theorem resolveArgs_rxs (env : Env) (srcs : List Str) :
    resolveArgs env (exprsOf (srcs.map Val.regexp)) = some (srcs.map Arg.rx) := by
  induction srcs with
  | nil => simp [exprsOf, resolveArgs]
  | cons s ss ih => simp [exprsOf, exprOf, resolveArgs, resolveArg, ih]

theorem mapM_patOne_rx (env : Env) (srcs : List Str) : (srcs.map Arg.rx).mapM (patOne env) = some srcs := by
  induction srcs with
  | nil => rfl
  | cons s ss ih => simp [List.mapM_cons, patOne, ih]

theorem resolve_pattern (env : Env) (srcs : List Str) :
    resolve env (exprOf (tyExpr (.pattern srcs))) = some (.pattern srcs) := by
  simp only [tyExpr, resolve_tname]
  cases srcs with
  | nil => simp [defaultOf]
  | cons s ss =>
    simp only [List.map_cons, List.isEmpty_cons, Bool.false_eq_true, if_false]
    have := resolveArgs_rxs env (s :: ss)
    simp only [List.map_cons] at this
    rw [this]
    simp only [Option.bind, createK, patArgs]
    have hm := mapM_patOne_rx env (s :: ss)
    simp only [List.map_cons] at hm
    cases ss with
    | nil => simp [patOne]
    | cons s2 ss2 =>
      simp only [List.map_cons] at hm ⊢
      rw [hm]; rfl

theorem resolve_collection (env : Env) (lo hi : Int) (h : inI64 lo hi) :
    resolve env (exprOf (tyExpr (.collection lo hi))) = some (.collection lo hi) := by
  obtain ⟨h1, h2, h3⟩ := h
  simp only [tyExpr, resolve_tname]
  by_cases hd : lo = 0 ∧ hi = i64max
  · simp [hd, defaultOf]
  · simp only [hd, if_false]
    have hne : (sizeParams lo hi).isEmpty = false := by simp [sizeParams]
    simp only [hne, Bool.false_eq_true, if_false, resolveArgs_sizeParams]
    have e1 : ¬ lo > hi := by omega
    by_cases hhi : hi = i64max
    · simp [hhi, createK, sizes2, intOr, newInt]; omega
    · simp [hhi, createK, sizes2, intOr, newInt, e1]

/-! #### Enum -/

def flagV (ci : Bool) : List Val := if ci then [.bool true] else []
def flagA (ci : Bool) : List Arg := if ci then [.bool true] else []

theorem resolveArgs_enum (env : Env) (vs : List Str) (ci : Bool) :
    resolveArgs env (exprsOf (vs.map Val.str ++ flagV ci)) = some (vs.map Arg.str ++ flagA ci) := by
  induction vs with
  | nil => cases ci <;> simp [flagV, flagA, exprsOf, exprOf, resolveArgs, resolveArg]
  | cons v vs ih => simp [exprsOf, exprOf, resolveArgs, resolveArg, ih]

theorem enumFlat_strs (vs : List Str) (ci : Bool) : enumFlat (vs.map Arg.str ++ flagA ci) = some (vs, ci) := by
  induction vs with
  | nil => cases ci <;> simp [flagA, enumFlat]
  | cons v vs ih =>
    simp only [List.map_cons, List.cons_append]
    cases hrest : vs.map Arg.str ++ flagA ci with
    | nil =>
      have hv : vs = [] := by
        cases vs with
        | nil => rfl
        | cons a b => simp at hrest
      subst hv
      have hc : ci = false := by cases ci <;> simp_all [flagA]
      subst hc
      simp [enumFlat]
    | cons a as =>
      rw [hrest] at ih
      simp [enumFlat, ih]

theorem map_lowerStr_id (vs : List Str) (h : ∀ v ∈ vs, lowerStr v = v) : vs.map lowerStr = vs := by
  induction vs with
  | nil => rfl
  | cons v vs ih =>
    simp [h v (by simp), ih (fun x hx => h x (by simp [hx]))]

theorem resolve_enum (env : Env) (vs : List Str) (ci : Bool)
    (h : (vs = [] → ci = false) ∧ (ci = true → ∀ v ∈ vs, lowerStr v = v)) :
    resolve env (exprOf (tyExpr (.enum vs ci))) = some (.enum vs ci) := by
  simp only [tyExpr, resolve_tname]
  cases vs with
  | nil =>
    have hc := h.1 rfl
    subst hc
    simp [defaultOf]
  | cons v vs' =>
    have hne : (List.map Val.str (v :: vs') ++ if ci = true then [Val.bool true] else []).isEmpty = false := by simp
    simp only [hne, Bool.false_eq_true, if_false]
    have hra := resolveArgs_enum env (v :: vs') ci
    simp only [flagV] at hra
    rw [hra]
    simp only [Option.bind, createK]
    have hflat := enumFlat_strs (v :: vs') ci
    -- enumArgs with at least one fuel reaches enumFlat (or its single-string shortcut, which agrees with it)
    have hargs : ∀ f, enumArgs (f + 1) (List.map Arg.str (v :: vs') ++ flagA ci) = some (v :: vs', ci) := by
      intro f
      simp only [List.map_cons, List.cons_append] at hflat ⊢
      cases hrest : vs'.map Arg.str ++ flagA ci with
      | nil =>
        rw [hrest] at hflat
        simp only [enumArgs]
        simpa [enumFlat] using hflat
      | cons a as =>
        rw [hrest] at hflat
        simp only [enumArgs]
        exact hflat
    rw [hargs]
    simp only [newEnum, List.isEmpty_cons, Bool.false_eq_true, if_false]
    cases ci with
    | false => simp
    | true =>
      have := map_lowerStr_id _ (h.2 rfl)
      simp only [List.map_cons] at this
      simp [this]

/-! #### the constructors with type arguments -/

theorem mapM_argTy (ts : List Ty) : (ts.map Arg.ty).mapM argTy = some ts := by
  induction ts with
  | nil => rfl
  | cons t ts ih => simp [List.mapM_cons, argTy, ih]

theorem sizeArg_intOr (hi : Int) : intOr i64max (if hi = i64max then Arg.dflt else Arg.int hi) = some hi := by
  split <;> simp [intOr, *]

theorem tyExprs_isEmpty (ts : List Ty) : (tyExprs ts).isEmpty = ts.isEmpty := by
  cases ts <;> simp [tyExprs]

/-! #### Tuple -/

theorem exprsOf_append (a b : List Val) : exprsOf (a ++ b) = exprsOf a ++ exprsOf b := by
  induction a with
  | nil => simp [exprsOf]
  | cons x xs ih => simp [exprsOf, ih]

theorem resolveArgs_append (env : Env) (a b : List Expr) (x y : List Arg)
    (ha : resolveArgs env a = some x) (hb : resolveArgs env b = some y) :
    resolveArgs env (a ++ b) = some (x ++ y) := by
  induction a generalizing x with
  | nil => simp [resolveArgs] at ha; subst ha; simpa using hb
  | cons e es ih =>
    simp only [resolveArgs, Option.bind_eq_some_iff, Option.map_eq_some_iff] at ha
    obtain ⟨a1, h1, as, h2, rfl⟩ := ha
    simp [resolveArgs, h1, ih as h2]

/-- arguments whose first element is not an array are not flattened -/
theorem tupleFlat_id (l : List Arg) (h : ∀ a ∈ l.head?, ∀ as, a ≠ Arg.arr as) : tupleFlat l = some l := by
  unfold tupleFlat
  split
  · rename_i as; exact absurd rfl (h (.arr as) (by simp) as)
  · rename_i as lo hi; exact absurd rfl (h (.arr as) (by simp) as)
  · rename_i as x _; exact absurd rfl (h (.arr as) (by simp) as)
  · rfl

theorem tupleMk_tys (ts : List Ty) (rng : Option (Int × Int)) (h : ts ≠ []) :
    tupleMk (ts.map Arg.ty) rng = some (.tuple ts rng) := by
  cases ts with
  | nil => exact absurd rfl h
  | cons t ts' =>
    have := mapM_argTy (t :: ts')
    simp only [List.map_cons] at this
    simp [tupleMk, this]

theorem tupleBody_tys (ts : List Ty) (h : ts ≠ []) : tupleBody (ts.map Arg.ty) = some (.tuple ts none) := by
  obtain ⟨init, t, rfl⟩ : ∃ init t, ts = init ++ [t] := by
    rcases List.eq_nil_or_concat ts with hn | ⟨init, t, hc⟩
    · exact absurd hn h
    · exact ⟨init, t, by simpa using hc⟩
  unfold tupleBody
  simp only [List.map_append, List.map_cons, List.map_nil, List.reverse_append, List.reverse_cons, List.reverse_nil,
    List.nil_append, List.cons_append]
  have := tupleMk_tys (init ++ [t]) none (by simp)
  simpa using this

theorem tupleBody_sized (ts : List Ty) (lo hi : Int) (h : inI64 lo hi) (h0 : 0 ≤ hi) :
    tupleBody (ts.map Arg.ty ++ [.int lo, if hi = i64max then .dflt else .int hi]) = some (.tuple ts (some (lo, hi))) := by
  obtain ⟨h1, h2, h3⟩ := h
  have hlt : ¬ lo > hi := by omega
  unfold tupleBody
  simp only [List.reverse_append, List.reverse_cons, List.reverse_nil, List.nil_append, List.cons_append]
  have hmk : tupleMk (ts.map Arg.ty) (some (lo, hi)) = some (.tuple ts (some (lo, hi))) := by
    cases ts with
    | nil => simp [tupleMk]
    | cons t ts' => exact tupleMk_tys _ _ (by simp)
  by_cases hhi : hi = i64max
  · subst hhi
    simp [newInt, hlt, hmk]
  · have hge : hi ≥ 0 := h0
    simp [hhi, hge, newInt, hlt, hmk]

/-! #### Runtime, TypeReference, the default Callable -/

theorem resolve_typeRef (env : Env) (s : Str) : resolve env (exprOf (tyExpr (.typeRef s))) = some (.typeRef s) := by
  simp only [tyExpr, resolve_tname]
  by_cases h : s = unresolvedRef
  · simp [h, defaultOf]
  · simp [h, exprsOf, exprOf, resolveArgs, resolveArg, createK, typeRefCreate]

theorem resolve_regexp_arg (env : Env) (src : Str) :
    resolveArg env (exprOf (tname .regexp (if src.isEmpty then [] else [.regexp src]))) = some (.ty (.regexp src)) := by
  have := resolve_regexp env src
  simp only [tyExpr] at this
  have hd : ∃ n ps, exprOf (tname .regexp (if src.isEmpty then [] else [.regexp src])) = .dtype n ps :=
    ⟨_, _, exprOf_tname _ _⟩
  obtain ⟨n, ps, hd⟩ := hd
  rw [hd] at this ⊢
  simp [resolveArg, this]

theorem resolve_runtime (env : Env) (rt name : Str) (pat : Option Str)
    (h : (rt = "go".toList → name = []) ∧
      (match pat with
       | some src => src = [] ∨ (rxRep false src = true ∧ env.rxOK src = true)
       | none => True)) :
    resolve env (exprOf (tyExpr (.runtime rt name pat))) = some (.runtime rt name pat) := by
  obtain ⟨h2, _⟩ := h
  simp only [tyExpr]
  have hgo' : "go".toList = ['g', 'o'] := by decide
  have hgo : ¬(rt = ['g', 'o'] ∧ ¬ name = []) := fun ⟨e, hn⟩ => hn (h2 (hgo' ▸ e))
  cases pat with
  | none =>
    by_cases hn : name = []
    · subst hn
      by_cases hrt : rt = []
      · subst hrt
        simp [resolve_tname, defaultOf]
      · have hre : rt.isEmpty = false := by cases rt <;> simp_all
        simp [hre, resolve_tname, exprsOf, exprOf, resolveArgs, resolveArg, createK, runtimeCreate]
    · have hne : name.isEmpty = false := by cases name <;> simp_all
      have hg : ¬ rt = ['g', 'o'] := fun e => hgo ⟨e, hn⟩
      simp [hne, resolve_tname, exprsOf, exprOf, resolveArgs, resolveArg, createK, runtimeCreate, hg]
  | some src =>
    have hra := resolve_regexp_arg env src
    simp only [Option.isNone_some, Bool.false_eq_true, and_false, if_false, resolve_tname, List.isEmpty_cons,
      List.cons_append, List.nil_append, exprsOf, exprOf, resolveArgs, resolveArg, hra, Option.map, Option.bind, createK,
      runtimeCreate]
    by_cases hn : name = []
    · subst hn; simp
    · have hne : name.isEmpty = false := by cases name <;> simp_all
      have hg : ¬ rt = ['g', 'o'] := fun e => hgo ⟨e, hn⟩
      simp [hne, hg]

/-! #### Struct -/

/-- the key of a member as a resolved argument -/
def memberKeyA (n : Str) (o ov : Bool) : Arg :=
  if o = ov then .str n
  else if o then .ty (.wrap .optional (.strVal n))
  else .ty (.wrap .notUndef (.strVal n))

theorem kindOf_wrap (k : WrapKind) : kindOf k.name = some (.wrap k) := by cases k <;> decide
theorem canon_wrap (k : WrapKind) : canonName k.name = k.name := canon_kind (.wrap k)

theorem resolve_wrap_str (env : Env) (k : WrapKind) (n : Str) (hk : k = .optional ∨ k = .notUndef) (hn : n ≠ []) :
    resolve env (.dtype k.name (some [.str n])) = some (.wrap k (.strVal n)) := by
  have hs : n.isEmpty = false := by cases n <;> simp_all
  simp only [resolve, resolveArgs, resolveArg, Option.map, Option.bind, create, canon_wrap, kindOf_wrap, createK, wrapOf, hs, hk]
  simp

theorem resolveArg_memberKey (env : Env) (n : Str) (o ov : Bool) (hn : n ≠ []) :
    resolveArg env (exprOf (memberKey n o ov)) = some (memberKeyA n o ov) := by
  unfold memberKey memberKeyA
  split
  · simp [exprOf, resolveArg]
  · split
    · have h : resolve env (.dtype "Optional".toList (some [.str n])) = some (.wrap .optional (.strVal n)) :=
        resolve_wrap_str env .optional n (Or.inl rfl) hn
      simp only [exprOf, exprsOf, resolveArg, h, Option.map]
    · have h : resolve env (.dtype "NotUndef".toList (some [.str n])) = some (.wrap .notUndef (.strVal n)) :=
        resolve_wrap_str env .notUndef n (Or.inr rfl) hn
      simp only [exprOf, exprsOf, resolveArg, h, Option.map]

theorem structKey_memberKeyA (n : Str) (o : Bool) (t : Ty) (hn : n ≠ []) :
    structKey t (memberKeyA n o t.acceptsUndef) = some (n, o) := by
  have hs : n.isEmpty = false := by cases n <;> simp_all
  unfold memberKeyA
  split
  · rename_i h; simp [structKey, hs, h]
  · split
    · rename_i h; simp [structKey, hs, h]
    · rename_i h; simp [structKey, hs]; simpa using h

/-- the resolved entries of what a Struct prints -/
def memberArgs : List (Str × Bool × Ty) → List (Arg × Arg)
  | [] => []
  | (n, o, t) :: ms => (memberKeyA n o t.acceptsUndef, .ty t) :: memberArgs ms

theorem structMembers_memberArgs : (ms : List (Str × Bool × Ty)) → (∀ m ∈ ms, m.1 ≠ []) →
    structMembers (memberArgs ms) = some ms
  | [], _ => rfl
  | (n, o, t) :: ms, h => by
    have ih := structMembers_memberArgs ms (fun m hm => h m (by simp [hm]))
    simp [memberArgs, structMembers, structKey_memberKeyA n o t (h (n, o, t) (by simp)), ih]

theorem wfms_names (env : Env) : (ms : List (Str × Bool × Ty)) → WFMs env ms → ∀ m ∈ ms, m.1 ≠ []
  | [], _ => by simp
  | (n, o, t) :: ms, h => by
    intro m hm
    simp only [List.mem_cons] at hm
    rcases hm with rfl | hm
    · exact h.1
    · exact wfms_names env ms h.2.2 m hm

mutual
theorem resolve_tyExpr (env : Env) : (t : Ty) → WFTy env t → resolve env (exprOf (tyExpr t)) = some t
  | .named n, h => resolve_named env n h
  | .int lo hi, h => resolve_int env lo hi h
  | .float lo lot hi hit, h => resolve_float env lo lot hi hit h
  | .strSz lo hi, h => resolve_strSz env lo hi h
  | .strVal _, h => absurd h (by simp [WFTy])
  | .bool b, _ => resolve_bool env b
  | .enum vs ci, h => resolve_enum env vs ci h
  | .regexp s, _ => resolve_regexp env s
  | .pattern srcs, _ => resolve_pattern env srcs
  | .collection lo hi, h => resolve_collection env lo hi h
  | .wrap k t, h => by
    simp only [tyExpr]
    split
    · rename_i hany
      rw [isAny_eq hany]
      simp [resolve_tname, defaultOf]
    · rename_i hany
      split
      · rename_i s
        simp only [WFTy] at h
        have hs : s.isEmpty = false := by cases s <;> simp_all
        simp [resolve_tname, exprsOf, exprOf, resolveArgs, resolveArg, createK, wrapOf, hs]
      · rename_i s
        simp only [WFTy] at h
        have hs : s.isEmpty = false := by cases s <;> simp_all
        simp [resolve_tname, exprsOf, exprOf, resolveArgs, resolveArg, createK, wrapOf, hs]
      · rename_i h1 h2
        have hwf : WFTy env t := by
          cases t with
          | strVal s =>
            simp only [WFTy] at h
            rcases h.1 with rfl | rfl
            · exact (h1 s rfl rfl).elim
            · exact (h2 s rfl rfl).elim
          | _ => simp only [WFTy] at h; exact h
        have ih := resolve_tyExpr env t hwf
        simp [resolve_tname, exprsOf, resolveArgs, resolveArg_ty, ih, createK, wrapOf]
  | .variant ts, h => by
    simp only [tyExpr, resolve_tname, tyExprs_isEmpty]
    cases ts with
    | nil => simp [defaultOf]
    | cons t1 ts1 =>
      cases ts1 with
      | nil => exact absurd rfl h.1
      | cons t2 ts2 =>
        simp only [List.isEmpty_cons, Bool.false_eq_true, if_false]
        rw [resolveArgs_tyExprs env _ h.2]
        have hm := mapM_argTy (t1 :: t2 :: ts2)
        simp only [List.map_cons] at hm ⊢
        simp only [Option.bind, createK, variantArgs]
        rw [hm]; rfl
  | .array t lo hi, h => by
    obtain ⟨hwf, h1, h2, h3⟩ := h
    have ih := resolve_tyExpr env t hwf
    have e1 : ¬ lo > hi := by omega
    simp only [tyExpr]
    split
    · rename_i hu
      obtain ⟨hu1, rfl, rfl⟩ := hu
      rw [isUnit_eq hu1]
      simp [resolve_tname, sizeParams, exprsOf, exprOf, resolveArgs, resolveArg, createK, intOr, i64max]
    · rename_i hu
      by_cases hany : t.isAny = true
      · rw [isAny_eq hany] at hu ⊢
        by_cases hz : lo = 0 ∧ hi = 0
        · obtain ⟨rfl, rfl⟩ := hz
          have ih' : resolve env (exprOf (tyExpr tyAny)) = some tyAny := by rw [← isAny_eq hany]; exact ih
          have ih2 : resolve env (exprOf (tyExpr (Ty.named ['A', 'n', 'y']))) = some (Ty.named ['A', 'n', 'y']) := ih'
          simp [resolve_tname, sizeParams, exprsOf, exprOf, resolveArgs, resolveArg, resolveArg_ty, ih2, createK,
            intOr, newInt, i64max, tyAny, Ty.isAny]
        · by_cases hd : lo = 0 ∧ hi = i64max
          · obtain ⟨rfl, rfl⟩ := hd
            simp [resolve_tname, defaultOf, tyAny, Ty.isAny, i64max]
          · have hne : (sizeParams lo hi).isEmpty = false := by simp [sizeParams]
            have hz' : ¬(lo = 0 ∧ hi = 0 ∧ (none : Option Ty).isNone = true) := fun x => hz ⟨x.1, x.2.1⟩
            simp only [tyAny, Ty.isAny, beq_self_eq_true, Bool.not_true, Bool.false_eq_true, hz, or_self, if_false, hd,
              List.nil_append, resolve_tname, hne, resolveArgs_sizeParams]
            have hlt : ¬ hi < lo := by omega
            by_cases hhi : hi = i64max
            · subst hhi
              have hz2 : ¬(lo = 0 ∧ i64max = 0) := by simp [i64max]
              simp [createK, intOr, newInt, hlt, hz2, tyAny]
            · simp [createK, intOr, newInt, hlt, hz, hhi, tyAny]
      · have hany' : t.isAny = false := by simpa using hany
        simp only [hany', Bool.not_false, true_or, if_true]
        by_cases hd : lo = 0 ∧ hi = i64max
        · obtain ⟨rfl, rfl⟩ := hd
          simp [resolve_tname, exprsOf, resolveArgs, resolveArg_ty, ih, createK]
        · have hne : ([tyExpr t] ++ sizeParams lo hi).isEmpty = false := by simp
          simp only [hd, if_false, resolve_tname, hne, Bool.false_eq_true]
          have hra : resolveArgs env (exprsOf ([tyExpr t] ++ sizeParams lo hi)) =
              some [.ty t, .int lo, if hi = i64max then .dflt else .int hi] := by
            have := resolveArgs_sizeParams env lo hi
            simp only [List.singleton_append, exprsOf, resolveArgs, resolveArg_ty, ih, Option.map, Option.bind, this]
          rw [hra]
          have hlt : ¬ hi < lo := by omega
          by_cases hhi : hi = i64max
          · subst hhi; simp [createK, intOr, newInt, hlt]
          · simp [createK, intOr, newInt, hlt, hhi]
  | .hash k v lo hi, h => by
    obtain ⟨hk, hv, h1, h2, h3⟩ := h
    have ihk := resolve_tyExpr env k hk
    have ihv := resolve_tyExpr env v hv
    have e1 : ¬ lo > hi := by omega
    simp only [tyExpr]
    split
    · rename_i hd
      obtain ⟨ha, hb, rfl, rfl⟩ := hd
      rw [isAny_eq ha, isAny_eq hb]
      simp [resolve_tname, defaultOf]
    · split
      · rename_i hd
        obtain ⟨ha, hb, rfl, rfl⟩ := hd
        rw [isUnit_eq ha, isUnit_eq hb]
        simp [resolve_tname, exprsOf, exprOf, resolveArgs, resolveArg, createK, intOr]
      · by_cases hd : lo = 0 ∧ hi = i64max
        · obtain ⟨rfl, rfl⟩ := hd
          simp [resolve_tname, exprsOf, resolveArgs, resolveArg_ty, ihk, ihv, createK]
        · simp only [hd, if_false, resolve_tname, List.isEmpty_cons, Bool.false_eq_true]
          have hra : resolveArgs env (exprsOf (tyExpr k :: tyExpr v :: sizeParams lo hi)) =
              some [.ty k, .ty v, .int lo, if hi = i64max then .dflt else .int hi] := by
            have := resolveArgs_sizeParams env lo hi
            simp only [exprsOf, resolveArgs, resolveArg_ty, ihk, ihv, Option.map, Option.bind, this]
          rw [hra]
          have hlt : ¬ hi < lo := by omega
          by_cases hhi : hi = i64max
          · subst hhi; simp [createK, sizes2, intOr, newInt, hlt]
          · simp [createK, sizes2, intOr, newInt, hlt, hhi]
  | .tuple ts sz, h => by
    obtain ⟨hts, hsz⟩ := h
    have ihs := resolveArgs_tyExprs env ts hts
    simp only [tyExpr, resolve_tname]
    cases sz with
    | none =>
      simp only [List.append_nil, tyExprs_isEmpty]
      have hne : ts ≠ [] := hsz
      have hemp : ts.isEmpty = false := by cases ts <;> simp_all
      simp only [hemp, Bool.false_eq_true, if_false, ihs, Option.bind, createK, tupleCreate]
      have hflat : tupleFlat (ts.map Arg.ty) = some (ts.map Arg.ty) := by
        apply tupleFlat_id
        intro a ha as
        cases ts with
        | nil => simp at ha
        | cons t ts' => simp at ha; subst ha; simp
      simp [hflat, tupleBody_tys ts hne]
    | some r =>
      obtain ⟨lo, hi⟩ := r
      obtain ⟨hin, h0⟩ := hsz
      simp only
      by_cases hd : ts.isEmpty = true ∧ lo = 0 ∧ hi = i64max
      · obtain ⟨he, rfl, rfl⟩ := hd
        have : ts = [] := by cases ts <;> simp_all
        subst this
        simp [tyExprs, defaultOf]
      · simp only [hd, if_false]
        have hne : (tyExprs ts ++ sizeParams lo hi).isEmpty = false := by simp [sizeParams]
        simp only [hne, Bool.false_eq_true, if_false, exprsOf_append]
        rw [resolveArgs_append env _ _ _ _ ihs (resolveArgs_sizeParams env lo hi)]
        simp only [Option.bind, createK, tupleCreate]
        have hflat : tupleFlat (ts.map Arg.ty ++ [.int lo, if hi = i64max then .dflt else .int hi]) =
            some (ts.map Arg.ty ++ [.int lo, if hi = i64max then .dflt else .int hi]) := by
          apply tupleFlat_id
          intro a ha as
          cases ts with
          | nil => simp at ha; subst ha; simp
          | cons t ts' => simp at ha; subst ha; simp
        simp [hflat, tupleBody_sized ts lo hi hin h0]
  | .callable none ret blk, h => by
    obtain ⟨rfl, rfl⟩ := h
    simp [tyExpr, tyExprOpt, callableVal, resolve_tname, defaultOf]
  | .callable (some (ts, sz)) ret blk, h => by
    obtain ⟨hts, hshape, hret, hblk, hisb'⟩ := h
    have hisb : ∀ b ∈ blk, b.isBlock = true := by
      intro b hb
      cases blk with
      | none => simp at hb
      | some x => simp at hb; subst hb; simpa using hisb'
    have hNU := resolveArgs_tyExprsNU env ts hts
    have hsz : resolveArgs env (exprsOf (tupleSizeVals ts.isEmpty sz)) = some (cSizeArgs ts sz) := by
      unfold tupleSizeVals cSizeArgs
      cases sz with
      | none => simp [exprsOf, resolveArgs]
      | some r =>
        simp only
        split
        · simp [exprsOf, resolveArgs]
        · exact resolveArgs_sizeParams env r.1 r.2
    have hb : resolveArgs env (exprsOf (tyExprOpt blk).toList) = some (cBlockArgs blk) := by
      cases blk with
      | none => simp [tyExprOpt, exprsOf, resolveArgs, cBlockArgs]
      | some b =>
        have := resolve_tyExpr env b hblk
        simp [tyExprOpt, exprsOf, resolveArgs, resolveArg_ty, this, cBlockArgs]
    have hpb : resolveArgs env (exprsOf (tyExprsNU ts ++ tupleSizeVals ts.isEmpty sz ++ (tyExprOpt blk).toList)) =
        some (cArgs ts sz blk) := by
      rw [exprsOf_append, exprsOf_append]
      exact resolveArgs_append env _ _ _ _ (resolveArgs_append env _ _ _ _ hNU hsz) hb
    cases ret with
    | none =>
      have hne := cArgs_ne_nil ts sz blk hshape
      have hemp : (tyExprsNU ts ++ tupleSizeVals ts.isEmpty sz ++ (tyExprOpt blk).toList).isEmpty = false := by
        cases hl : tyExprsNU ts ++ tupleSizeVals ts.isEmpty sz ++ (tyExprOpt blk).toList with
        | nil =>
          rw [hl] at hpb
          simp only [exprsOf, resolveArgs, Option.some.injEq] at hpb
          exact absurd hpb.symm hne
        | cons v vs => rfl
      simp only [tyExpr, tyExprOpt, callableVal, resolve_tname, hemp, Bool.false_eq_true, if_false, hpb, Option.bind, createK]
      exact callableCreate_flat ts sz blk hshape hisb hne
    | some r =>
      have hr := resolve_tyExpr env r hret
      simp only [tyExpr, tyExprOpt, callableVal, resolve_tname, List.isEmpty_cons, Bool.false_eq_true, if_false, exprsOf, exprOf,
        resolveArgs, resolveArg, hpb, resolveArg_ty, hr, Option.map, Option.bind, createK]
      exact callableCreate_ret ts sz blk r hshape hisb
  | .runtime rt name pat, h => resolve_runtime env rt name pat h
  | .typeRef s, _ => resolve_typeRef env s
  | .struct ms, h => by
    simp only [tyExpr, resolve_tname]
    cases ms with
    | nil => simp [defaultOf]
    | cons m ms' =>
      have ih := resolveEntries_tyMembers env (m :: ms') h
      have hnames := wfms_names env (m :: ms') h
      simp only [List.isEmpty_cons, Bool.false_eq_true, if_false, exprsOf, exprOf, resolveArgs, resolveArg, ih,
        Option.map, Option.bind, createK, structArgs, structMembers_memberArgs _ hnames]
theorem resolveArgs_tyExprs (env : Env) : (ts : List Ty) → WFTys env ts →
    resolveArgs env (exprsOf (tyExprs ts)) = some (ts.map .ty)
  | [], _ => by simp [tyExprs, exprsOf, resolveArgs]
  | t :: ts, h => by
    simp [tyExprs, exprsOf, resolveArgs, resolveArg_ty, resolve_tyExpr env t h.1, resolveArgs_tyExprs env ts h.2]
theorem resolveArgs_tyExprsNU (env : Env) : (ts : List Ty) → WFTys env ts →
    resolveArgs env (exprsOf (tyExprsNU ts)) = some ((notUnitTys ts).map .ty)
  | [], _ => by simp [tyExprsNU, exprsOf, resolveArgs, notUnitTys]
  | t :: ts, h => by
    simp only [tyExprsNU, notUnitTys]
    split
    · exact resolveArgs_tyExprsNU env ts h.2
    · simp [exprsOf, resolveArgs, resolveArg_ty, resolve_tyExpr env t h.1, resolveArgs_tyExprsNU env ts h.2]
theorem resolveEntries_tyMembers (env : Env) : (ms : List (Str × Bool × Ty)) → WFMs env ms →
    resolveEntries env (entriesOf (tyMembers ms)) = some (memberArgs ms)
  | [], _ => by simp [tyMembers, entriesOf, resolveEntries, memberArgs]
  | (n, o, t) :: ms, h => by
    simp [tyMembers, entriesOf, resolveEntries, memberArgs, resolveArg_memberKey env n o _ h.1, resolveArg_ty,
      resolve_tyExpr env t h.2.1, resolveEntries_tyMembers env ms h.2.2]
end

/-- **types** of the fragment: the printed text parses and resolves back to the type -/
theorem type_rt (env : Env) (t : Ty) (h : WFTy env t) : parseType env (syms (printTy t)) = some t := by
  unfold parseType printTy
  rw [value_rt env (tyExpr t) (lit_tyExpr env t h)]
  exact resolve_tyExpr env t h

end Pcore.Syntax
