import Pcore.Proofs.LatAsgEq
import Pcore.Proofs.LatDen
set_option linter.unusedSimpArgs false
/-! Fragments and side conditions of the C01 soundness theorem, and the completeness lemma for Undef. -/
namespace Pcore.Lat
variable (cfg : Cfg) (sfh : Bool)

/-- Fragment of transitivity: hereditarily none of Unit (two-way assignable by definition), Struct (counting rule, and the
    Struct-from-Hash rule that breaks transitivity), Iterable (no Struct / Enum arm), Data / RichData.  Tuples are inside (stage 2). -/
def Ty.TF (t : Ty) : Prop :=
  match t with
  | .unit | .data | .richData | .struct _ | .iterable _ | .callable _ _ _ => False
  | .tuple ts _ => ∀ t', ∀ (_ : t' ∈ ts), Ty.TF t'
  | .array e _ => Ty.TF e
  | .hash k v _ => Ty.TF k ∧ Ty.TF v
  | .variant ts => ∀ t', ∀ (_ : t' ∈ ts), Ty.TF t'
  | .optional t' | .notUndef t' | .sensitive t' | .iterator t' | .typ t' => Ty.TF t'
  | _ => True
termination_by t.w
decreasing_by
  all_goals simp_wf
  all_goals (try simp only [Ty.w, Ty.wl, Ty.wm] at *)
  all_goals first
    | omega
    | (have := Ty.w_lt_wl ‹_ ∈ _›; omega)

/-- The fragment of `C03_trans_alias_partial` (transitivity, stage 4), shape only: hereditarily no Unit; Struct (members of any nesting) only
    with the Struct-from-Hash rule off; the type list of a Tuple fits an int64 length (every Go slice does).  Everything else of the model is
    inside: the two built-in recursive aliases Data and RichData, Iterable, all scalar and collection types.  (Defined here, upstream of
    `Ty.Frag`, because C01's fragment asks it of the content of a `Type[T]`; transitivity on it is `transD`, Proofs/LatTransDMain.) -/
def Ty.TA (sfh : Bool) (t : Ty) : Prop :=
  match t with
  | .unit | .callable _ _ _ => False
  | .struct ms => sfh = false ∧ ∀ m, ∀ (_ : m ∈ ms), Ty.TA sfh m.2.2
  | .tuple ts _ => ((ts.length : Int) ≤ I64.max) ∧ ∀ t', ∀ (_ : t' ∈ ts), Ty.TA sfh t'
  | .array e _ => Ty.TA sfh e
  | .hash k v _ => Ty.TA sfh k ∧ Ty.TA sfh v
  | .variant ts => ∀ t', ∀ (_ : t' ∈ ts), Ty.TA sfh t'
  | .optional t' | .notUndef t' | .sensitive t' | .iterator t' | .typ t' | .iterable t' => Ty.TA sfh t'
  | _ => True
termination_by t.w
decreasing_by
  all_goals simp_wf
  all_goals (try simp only [Ty.w, Ty.wl, Ty.wm] at *)
  all_goals first
    | omega
    | (have := Ty.w_lt_wl ‹_ ∈ _›; omega)
    | (have := Ty.w_lt_wm ‹_ ∈ _›; omega)

/-- Fragment of `C01_sound_partial`: hereditarily no `Iterable[..]` (its instance rule is an assignability question about an inferred
    type, and is genuinely unsound); with the exempt rule switched on (`sfh = true`) also no `Struct` (the rule
    lets a Struct accept a Hash type on key type and size alone — the stated exclusion of C01).  `Type[T]` is allowed; its content `T` must lie in the fragment of
    transitivity, because soundness for `Type[..]` IS transitivity (C03) — since stage 4 of C03 that fragment is `Ty.TA sfh`: every type of
    the model but Unit (Struct only with the rule off), Iterable and the aliases included. -/
def Ty.Frag (t : Ty) (sfh : Bool) : Prop :=
  match t with
  | .iterable _ => False
  | .typ t' => Ty.TA sfh t'
  | .array e _ => Ty.Frag e sfh
  | .hash k v _ => Ty.Frag k sfh ∧ Ty.Frag v sfh
  | .tuple ts _ => ∀ t', ∀ (_ : t' ∈ ts), Ty.Frag t' sfh
  | .struct ms => sfh = false ∧ ∀ m, ∀ (_ : m ∈ ms), Ty.Frag m.2.2 sfh
  | .variant ts => ∀ t', ∀ (_ : t' ∈ ts), Ty.Frag t' sfh
  | .optional t' | .notUndef t' | .sensitive t' | .iterator t' => Ty.Frag t' sfh
  | _ => True
termination_by t.w
decreasing_by
  all_goals simp_wf
  all_goals (try simp only [Ty.w, Ty.wl, Ty.wm] at *)
  all_goals first
    | omega
    | (have := Ty.w_lt_wl ‹_ ∈ _›; omega)
    | (have := Ty.w_lt_wm ‹_ ∈ _›; omega)

/-- `UnitSafe`: Unit occurs only as element / key / value type of a collection whose maximal size is 0 (the shape inferred for
    empty arrays and hashes).  The property excludes Unit; inferred types contain it in exactly that shape. -/
def Ty.US (t : Ty) : Prop :=
  match t with
  | .unit => False
  | .array e r => r.hi ≤ 0 ∨ Ty.US e
  | .hash k v r => r.hi ≤ 0 ∨ (Ty.US k ∧ Ty.US v)
  | .tuple ts g => (tupleSize ts g).hi ≤ 0 ∨ ∀ t', ∀ (_ : t' ∈ ts), Ty.US t'
  | .struct ms => ∀ m, ∀ (_ : m ∈ ms), Ty.US m.2.2
  | .variant ts => ∀ t', ∀ (_ : t' ∈ ts), Ty.US t'
  | .optional t' | .notUndef t' | .sensitive t' | .iterator t' | .typ t' | .iterable t' => Ty.US t'
  | _ => True
termination_by t.w
decreasing_by
  all_goals simp_wf
  all_goals (try simp only [Ty.w, Ty.wl, Ty.wm] at *)
  all_goals first
    | omega
    | (have := Ty.w_lt_wl ‹_ ∈ _›; omega)
    | (have := Ty.w_lt_wm ‹_ ∈ _›; omega)

theorem isPrefix_trans : ∀ (p q x : List Nat), isPrefix p q = true → isPrefix q x = true → isPrefix p x = true := by
  intro p
  induction p with
  | nil => intro q x _ _; simp [isPrefix]
  | cons a as ih =>
    intro q x h1 h2
    cases q with
    | nil => simp [isPrefix] at h1
    | cons b bs =>
      cases x with
      | nil => simp [isPrefix] at h2
      | cons c cs =>
        simp [isPrefix] at h1 h2 ⊢
        exact ⟨h1.1.trans h2.1, ih bs cs h1.2 h2.2⟩

/-- side conditions of C01 on values: every type used as a value inside `v` lies in the transitivity fragment (`Ty.TA sfh`: everything but
    Unit, Struct only with the rule off) and is well-formed, and container lengths are within int64 (Go's `len` is an `int`; the model's
    lists are unbounded) -/
inductive Val.TyOKS (cfg : Cfg) (sfh : Bool) : Val → Prop
  | undef : Val.TyOKS cfg sfh .undef
  | dflt : Val.TyOKS cfg sfh .dflt
  | bool (b) : Val.TyOKS cfg sfh (.bool b)
  | int (i) : Val.TyOKS cfg sfh (.int i)
  | float (f) : Val.TyOKS cfg sfh (.float f)
  | str (s) : Val.TyOKS cfg sfh (.str s)
  | regexp (s) : Val.TyOKS cfg sfh (.regexp s)
  | binary (b) : Val.TyOKS cfg sfh (.binary b)
  | tspan (n) : Val.TyOKS cfg sfh (.tspan n)
  | typ (t) : t.TA sfh → Ty.WF cfg t → Val.TyOKS cfg sfh (.typ t)
  | obj (p) : Val.TyOKS cfg sfh (.obj p)
  | sensitive (v) : Val.TyOKS cfg sfh v → Val.TyOKS cfg sfh (.sensitive v)
  | array (vs) : ((vs.length : Int) ≤ I64.max) → (∀ x ∈ vs, Val.TyOKS cfg sfh x) → Val.TyOKS cfg sfh (.array vs)
  | hash (es : List (Val × Val)) : ((es.length : Int) ≤ I64.max) → (∀ e ∈ es, Val.TyOKS cfg sfh e.1) → (∀ e ∈ es, Val.TyOKS cfg sfh e.2) →
      Val.TyOKS cfg sfh (.hash es)

theorem Val.TyOKS.elems {cfg : Cfg} {sfh : Bool} {vs : List Val} (h : Val.TyOKS cfg sfh (.array vs)) : ∀ x ∈ vs, Val.TyOKS cfg sfh x := by
  cases h with | array _ _ h => exact h
theorem Val.TyOKS.keys {cfg : Cfg} {sfh : Bool} {es : List (Val × Val)} (h : Val.TyOKS cfg sfh (.hash es)) : ∀ e ∈ es, Val.TyOKS cfg sfh e.1 := by
  cases h with | hash _ _ h _ => exact h
theorem Val.TyOKS.vals {cfg : Cfg} {sfh : Bool} {es : List (Val × Val)} (h : Val.TyOKS cfg sfh (.hash es)) : ∀ e ∈ es, Val.TyOKS cfg sfh e.2 := by
  cases h with | hash _ _ _ h => exact h
theorem Val.TyOKS.alen {cfg : Cfg} {sfh : Bool} {vs : List Val} (h : Val.TyOKS cfg sfh (.array vs)) : (vs.length : Int) ≤ I64.max := by
  cases h with | array _ h _ => exact h
theorem Val.TyOKS.hlen {cfg : Cfg} {sfh : Bool} {es : List (Val × Val)} (h : Val.TyOKS cfg sfh (.hash es)) : (es.length : Int) ≤ I64.max := by
  cases h with | hash _ h _ _ => exact h
theorem Val.TyOKS.inner {cfg : Cfg} {sfh : Bool} {v : Val} (h : Val.TyOKS cfg sfh (.sensitive v)) : Val.TyOKS cfg sfh v := by
  cases h with | sensitive _ h => exact h

/-- the side condition for the rule-off relation under its former name (used by C19) -/
abbrev Val.TyOK (cfg : Cfg) (v : Val) : Prop := Val.TyOKS cfg false v

/-- "accepts Undef" is complete w.r.t. "undef is an instance": the test the NotUndef and Struct rules rely on -/
theorem inst_undef_complete : ∀ (n : Nat) (b : Ty), b.w ≤ n → inst cfg sfh b .undef = true → asg cfg sfh b .undef = true := by
  intro n
  induction n with
  | zero => intro b h; have := Ty.w_pos b; omega
  | succ n ih =>
    intro b hw hi
    have hp : Ty.plainR .undef = true := rfl
    rw [asg_plain_r cfg sfh b .undef hp]
    cases b with
    | any => simp [Ty.isAny]
    | unit => simp [asgRecv]
    | undef => simp [sameNullary]
    | optional t =>
      simp only [Bool.or_eq_true]; right
      unfold asgRecv
      rw [asg_plain_r cfg sfh .undef .undef hp]; simp [sameNullary]
    | variant ts =>
      simp only [Bool.or_eq_true]; right
      unfold asgRecv
      unfold inst at hi
      rw [instAny_iff] at hi
      obtain ⟨t, hm, ht⟩ := hi
      rw [asgAnyL_iff]
      simp only [Ty.w] at hw
      exact ⟨t, hm, ih t (by have := Ty.w_lt_wl hm; omega) ht⟩
    | data =>
      simp only [Bool.or_eq_true]; right
      unfold asgRecv
      have : asg cfg sfh .undef .undef = true := by rw [asg_plain_r cfg sfh .undef .undef hp]; simp [sameNullary]
      simp [this]
    | richData =>
      simp only [Bool.or_eq_true]; right
      unfold asgRecv
      have : asg cfg sfh .undef .undef = true := by rw [asg_plain_r cfg sfh .undef .undef hp]; simp [sameNullary]
      simp [this]
    | iterable t => unfold inst at hi; simp [elemType] at hi
    | _ => unfold inst at hi; simp [isScalarVal, instData, instRich] at hi

end Pcore.Lat
