import Pcore.Model.DescribeCallable
import Pcore.Proofs.Describe
set_option linter.unusedSimpArgs false
set_option linter.unusedVariables false
/-! C19 helper lemmas: the Callable arm of the describer never faults, and `describeC` is empty exactly when the Callable accepts. -/
namespace Pcore.Desc
open Pcore.Lat

section
variable (cfg : Cfg) (sfh : Bool)

theorem blockPart_ok (e ca : CT) (p : Path) : ∃ r, blockPart cfg sfh e ca p = .ok r := by
  unfold blockPart
  split
  · exact ⟨_, rfl⟩
  · split
    · split <;> exact ⟨_, rfl⟩
    · split <;> exact ⟨_, rfl⟩

theorem retPart_ok (e ca : CT) (p : Path) : ∃ r, retPart cfg sfh e ca p = .ok r := by
  unfold retPart
  simp only []
  split
  · split
    · exact blockPart_ok cfg sfh e ca p
    · exact ⟨_, rfl⟩
  · exact blockPart_ok cfg sfh e ca p

theorem paramErrors_ok (e ca : CT) (p : Path) : ∃ r, paramErrors cfg sfh e ca p = .ok r := by
  unfold paramErrors
  split
  · exact ⟨_, rfl⟩
  · exact (describe_total cfg sfh).1 _ _ _ _

theorem describeCallableType_ok (e : CT) (a : CAct) (p : Path) : ∃ r, describeCallableType cfg sfh e a p = .ok r := by
  unfold describeCallableType
  cases a with
  | ty t => exact ⟨_, rfl⟩
  | callable ca =>
    simp only []
    obtain ⟨r, hr⟩ := paramErrors_ok cfg sfh e ca p
    rw [hr]
    cases r with
    | cons d ds => exact ⟨_, rfl⟩
    | nil => exact retPart_ok cfg sfh e ca p

theorem describeC_total (e : CT) (a : CAct) (p : Path) : ∃ r, describeC cfg sfh e a p = .ok r := by
  unfold describeC
  split
  · exact ⟨_, rfl⟩
  · obtain ⟨r, hr⟩ := describeCallableType_ok cfg sfh e a p
    rw [hr]
    cases r with
    | nil => exact ⟨_, rfl⟩
    | cons d ds => exact ⟨_, rfl⟩

theorem describeC_empty_iff (e : CT) (a : CAct) (p : Path) : describeC cfg sfh e a p = .ok [] ↔ asgCA cfg sfh e a = true := by
  unfold describeC
  constructor
  · intro h
    by_cases hasg : asgCA cfg sfh e a = true
    · exact hasg
    · rw [if_neg hasg] at h
      obtain ⟨r, hr⟩ := describeCallableType_ok cfg sfh e a p
      rw [hr] at h
      cases r with
      | nil => simp at h
      | cons d ds => simp at h
  · intro h; rw [if_pos h]

end
end Pcore.Desc
