import Pcore.Proofs.FormatBasic
import Mathlib.Tactic.Tauto
/-! The letter sets of the model's ToString functions, and the side condition on the regenerated table. -/
namespace Pcore.Format

/-- the letters the model's function of a kind formats (`none`: the kind ignores the letter) -/
def modelLetters : Kind → Option (List Char)
  | .int => some ['d', 'x', 'X', 'o', 'p', 'b', 'B', 'e', 'E', 'f', 'g', 'G', 'c', 's']
  | .float => some ['d', 'x', 'X', 'o', 'b', 'B', 'p', 'e', 'E', 'f', 'g', 'G', 's']
  | .str => some ['s', 'p', 'c', 'C', 'u', 'd', 't']
  | .bool => some ['t', 'T', 'y', 'Y', 'd', 'x', 'X', 'o', 'b', 'B', 'e', 'E', 'f', 'g', 'G', 's', 'p']
  | .bin => some ['s', 'p', 'b', 'B', 'u', 't', 'T']
  | .dflt => some ['d', 's', 'p', 'D']
  | .arr => some ['a', 's', 'p']
  | .hash => some ['a', 'h', 's', 'p']
  | .undef => none
  | .regexp => none

def accepts (k : Kind) (c : Char) : Bool :=
  match modelLetters k with
  | some ls => ls.contains c
  | none => true

theorem fmtStr_unsupported (f : Fmt) (s : Str) :
    fmtStr f s = .reported .unsupported ↔ accepts .str f.letter = false := by
  simp only [fmtStr, accepts, modelLetters]
  repeat' split
  all_goals simp_all

attribute [local simp] isIntLetter isPbB isRadixLetter isFloatLetter isArrayLetter isHashLetter

theorem goFmtInt_not_reported (g : Option GoSpec) (i : Int) (c : Code) : goFmtInt g i ≠ .reported c := by
  unfold goFmtInt; repeat' split
  all_goals simp

theorem fmtIntCore_reported (f : Fmt) (i : Int) (c : Code) (h : fmtIntCore f i = .reported c) :
    c = .unsupported ∧ ¬ (isIntLetter f.letter = true ∨ isPbB f.letter = true ∨ f.letter = 'c' ∨ f.letter = 's') := by
  unfold fmtIntCore at h
  by_cases h1 : isIntLetter f.letter = true
  · rw [if_pos h1] at h; exact absurd h (goFmtInt_not_reported _ _ _)
  · rw [if_neg h1] at h
    by_cases h2 : isPbB f.letter = true
    · rw [if_pos h2] at h; simp at h
    · rw [if_neg h2] at h
      by_cases h3 : f.letter = 'c'
      · rw [if_pos h3] at h; simp at h
      · rw [if_neg h3] at h
        by_cases h4 : f.letter = 's'
        · rw [if_pos h4] at h; simp at h
        · rw [if_neg h4] at h
          simp at h
          exact ⟨h.symm, by tauto⟩

theorem fmtIntCore_unsupported (f : Fmt) (i : Int) :
    fmtIntCore f i = .reported .unsupported ↔
      ¬ (isIntLetter f.letter = true ∨ isPbB f.letter = true ∨ f.letter = 'c' ∨ f.letter = 's') := by
  constructor
  · intro h; exact (fmtIntCore_reported f i _ h).2
  · intro h
    have h1 : ¬ isIntLetter f.letter = true := by tauto
    have h2 : ¬ isPbB f.letter = true := by tauto
    have h3 : ¬ f.letter = 'c' := by tauto
    have h4 : ¬ f.letter = 's' := by tauto
    unfold fmtIntCore
    rw [if_neg h1, if_neg h2, if_neg h3, if_neg h4]

theorem exceptRes_not_reported (r : Except FaultKind Str) (k : Str → Str) (c : Code) : exceptRes r k ≠ .reported c := by
  cases r <;> simp [exceptRes]

theorem fmtFloat_reported (io : FloatIO) (f : Fmt) (bits : Nat) (c : Code) (h : fmtFloat io f bits = .reported c) :
    c = .unsupported ∧ accepts .float f.letter = false := by
  unfold fmtFloat at h
  by_cases h1 : isRadixLetter f.letter = true
  · rw [if_pos h1] at h
    have := (fmtIntCore_reported f _ c h).2
    simp only [isRadixLetter, isIntLetter, isPbB, Bool.or_eq_true, decide_eq_true_eq] at h1 this
    tauto
  · rw [if_neg h1] at h
    by_cases h2 : f.letter = 'p'
    · rw [if_pos h2] at h; exact absurd h (exceptRes_not_reported _ _ _)
    · rw [if_neg h2] at h
      by_cases h3 : (decide (f.letter = 'e') || decide (f.letter = 'E') || decide (f.letter = 'f')) = true
      · rw [if_pos h3] at h; exact absurd h (exceptRes_not_reported _ _ _)
      · rw [if_neg h3] at h
        by_cases h4 : (decide (f.letter = 'g') || decide (f.letter = 'G')) = true
        · rw [if_pos h4] at h; exact absurd h (exceptRes_not_reported _ _ _)
        · rw [if_neg h4] at h
          by_cases h5 : f.letter = 's'
          · rw [if_pos h5] at h; exact absurd h (exceptRes_not_reported _ _ _)
          · rw [if_neg h5] at h
            simp at h
            refine ⟨h.symm, ?_⟩
            simp only [isRadixLetter, Bool.or_eq_true, decide_eq_true_eq] at h1 h3 h4
            simp [accepts, modelLetters]; tauto

theorem fmtFloat_of_not_accepts (io : FloatIO) (f : Fmt) (bits : Nat) (h : accepts .float f.letter = false) :
    fmtFloat io f bits = .reported .unsupported := by
  simp [accepts, modelLetters] at h
  simp [fmtFloat, fmtIntCore, h]

theorem fmtInt_reported (io : FloatIO) (f : Fmt) (i : Int) (c : Code) (h : fmtInt io f i = .reported c) :
    c = .unsupported ∧ accepts .int f.letter = false := by
  unfold fmtInt at h
  by_cases h1 : isFloatLetter f.letter = true
  · rw [if_pos h1] at h
    have := (fmtFloat_reported io f _ c h).2
    simp [accepts, modelLetters] at this
    simp at h1; tauto
  · rw [if_neg h1] at h
    have := fmtIntCore_reported f i c h
    refine ⟨this.1, ?_⟩
    simp at h1
    have h2 := this.2
    simp at h2
    simp [accepts, modelLetters]; tauto

theorem fmtInt_of_not_accepts (io : FloatIO) (f : Fmt) (i : Int) (h : accepts .int f.letter = false) :
    fmtInt io f i = .reported .unsupported := by
  simp [accepts, modelLetters] at h
  simp [fmtInt, fmtIntCore, h]

theorem fmtStr_reported (f : Fmt) (s : Str) (c : Code) (h : fmtStr f s = .reported c) :
    c = .unsupported ∧ accepts .str f.letter = false := by
  unfold fmtStr at h
  repeat (split at h <;> try (simp at h; done))
  simp at h
  refine ⟨h.symm, ?_⟩
  simp [accepts, modelLetters]; tauto

theorem fmtStr_of_not_accepts (f : Fmt) (s : Str) (h : accepts .str f.letter = false) :
    fmtStr f s = .reported .unsupported := (fmtStr_unsupported f s).mpr h

theorem fmtBool_reported (io : FloatIO) (f : Fmt) (b : Bool) (c : Code) (h : fmtBool io f b = .reported c) :
    c = .unsupported ∧ accepts .bool f.letter = false := by
  unfold fmtBool at h
  by_cases h1 : f.letter = 't'
  · rw [if_pos h1] at h; simp at h
  · rw [if_neg h1] at h
    by_cases h2 : f.letter = 'T'
    · rw [if_pos h2] at h; simp at h
    · rw [if_neg h2] at h
      by_cases h3 : f.letter = 'y'
      · rw [if_pos h3] at h; simp at h
      · rw [if_neg h3] at h
        by_cases h4 : f.letter = 'Y'
        · rw [if_pos h4] at h; simp at h
        · rw [if_neg h4] at h
          by_cases h5 : isRadixLetter f.letter = true
          · rw [if_pos h5] at h
            have := (fmtIntCore_reported f _ c h).2
            simp at h5 this; tauto
          · rw [if_neg h5] at h
            by_cases h6 : isFloatLetter f.letter = true
            · rw [if_pos h6] at h
              have := (fmtFloat_reported io f _ c h).2
              simp [accepts, modelLetters] at this
              simp at h6; tauto
            · rw [if_neg h6] at h
              by_cases h7 : (decide (f.letter = 's') || decide (f.letter = 'p')) = true
              · rw [if_pos h7] at h; simp at h
              · rw [if_neg h7] at h
                simp at h h5 h6 h7
                refine ⟨h.symm, ?_⟩
                simp [accepts, modelLetters]; tauto

theorem fmtBool_of_not_accepts (io : FloatIO) (f : Fmt) (b : Bool) (h : accepts .bool f.letter = false) :
    fmtBool io f b = .reported .unsupported := by
  have hm : ∀ c ∈ ['t', 'T', 'y', 'Y', 'd', 'x', 'X', 'o', 'b', 'B', 'e', 'E', 'f', 'g', 'G', 's', 'p'], f.letter ≠ c := by
    intro c hc heq
    simp only [accepts, modelLetters] at h
    rw [heq] at h
    have : (['t', 'T', 'y', 'Y', 'd', 'x', 'X', 'o', 'b', 'B', 'e', 'E', 'f', 'g', 'G', 's', 'p'] : List Char).contains c = true := by
      simpa using hc
    rw [this] at h; cases h
  unfold fmtBool
  rw [if_neg (hm 't' (by simp)), if_neg (hm 'T' (by simp)), if_neg (hm 'y' (by simp)), if_neg (hm 'Y' (by simp))]
  have hr : ¬ isRadixLetter f.letter = true := by
    simp only [isRadixLetter, Bool.or_eq_true, decide_eq_true_eq]
    have := hm 'd' (by simp); have := hm 'x' (by simp); have := hm 'X' (by simp); have := hm 'o' (by simp)
    have := hm 'b' (by simp); have := hm 'B' (by simp); tauto
  have hf : ¬ isFloatLetter f.letter = true := by
    simp only [isFloatLetter, Bool.or_eq_true, decide_eq_true_eq]
    have := hm 'e' (by simp); have := hm 'E' (by simp); have := hm 'f' (by simp); have := hm 'g' (by simp)
    have := hm 'G' (by simp); tauto
  have hs : ¬ (decide (f.letter = 's') || decide (f.letter = 'p')) = true := by
    simp only [Bool.or_eq_true, decide_eq_true_eq]
    have := hm 's' (by simp); have := hm 'p' (by simp); tauto
  rw [if_neg hr, if_neg hf, if_neg hs]

theorem fmtDefault_reported (f : Fmt) (c : Code) (h : fmtDefault f = .reported c) :
    c = .unsupported ∧ accepts .dflt f.letter = false := by
  unfold fmtDefault at h
  repeat (split at h <;> try (simp at h; done))
  simp at h
  refine ⟨h.symm, ?_⟩
  simp [accepts, modelLetters]; simp_all

theorem fmtDefault_of_not_accepts (f : Fmt) (h : accepts .dflt f.letter = false) :
    fmtDefault f = .reported .unsupported := by
  simp [accepts, modelLetters] at h
  simp [fmtDefault, h]

theorem fmtBinary_reported (f : Fmt) (bs : List Nat) (u : Option Str) (c : Code) (h : fmtBinary f bs u = .reported c) :
    (c = .unsupported ∧ accepts .bin f.letter = false) ∨ (c = .failure ∧ f.letter = 's' ∧ u = none) := by
  unfold fmtBinary at h
  by_cases h1 : f.letter = 's'
  · rw [if_pos h1] at h
    cases u with
    | none => simp at h; exact Or.inr ⟨h.symm, h1, rfl⟩
    | some s => simp at h
  · rw [if_neg h1] at h
    repeat (split at h <;> try (simp at h; done))
    simp at h
    refine Or.inl ⟨h.symm, ?_⟩
    simp [accepts, modelLetters]; tauto

theorem fmtBinary_of_not_accepts (f : Fmt) (bs : List Nat) (u : Option Str) (h : accepts .bin f.letter = false) :
    fmtBinary f bs u = .reported .unsupported := by
  simp [accepts, modelLetters] at h
  simp [fmtBinary, h]

/-! ### the side condition on the regenerated table -/

def sameLetters (a b : List Char) : Bool := a.all b.contains && b.all a.contains

def allKinds : List Kind := [.int, .float, .str, .bool, .undef, .dflt, .bin, .regexp, .arr, .hash]

theorem allKinds_complete (k : Kind) : k ∈ allKinds := by cases k <;> simp [allKinds]

def rowOf (tbl : List LetterRow) (k : Kind) : Option LetterRow := tbl.find? (fun r => r.kind == k)

/-- a row agrees with the model: nothing unrecognised; the letters whose arm formats are exactly the documented
    literal and exactly the letters the model formats; a letter handed over to the Float / Integer method is
    formatted there -/
def rowCoreOKb (r : LetterRow) (k : Kind) : Bool :=
  match modelLetters k with
  | none => r.noSwitch && r.documented.isEmpty && r.handled.isEmpty
  | some ls => !r.noSwitch && sameLetters r.handled r.documented && sameLetters r.documented ls

def rowOKb (tbl : List LetterRow) (k : Kind) : Bool :=
  match rowOf tbl k with
  | none => false
  | some r =>
    rowCoreOKb r k && r.unknown.isEmpty &&
    (match rowOf tbl .float with
     | some fr => r.toFloat.all fr.handled.contains
     | none => r.toFloat.isEmpty) &&
    (match rowOf tbl .int with
     | some ir => r.toInt.all ir.handled.contains
     | none => r.toInt.isEmpty)

def lettersOKb (tbl : List LetterRow) : Bool := allKinds.all (rowOKb tbl)

/-- `LettersOK`: for every value kind, handled = documented = what the model formats -/
def LettersOK (tbl : List LetterRow) : Prop := ∀ k : Kind, rowOKb tbl k = true

theorem lettersOKb_sound (tbl : List LetterRow) (h : lettersOKb tbl = true) : LettersOK tbl := by
  intro k
  exact List.all_eq_true.mp h k (allKinds_complete k)

/-- the documented set of a kind according to the table (every letter for a kind without a switch) -/
def documentedIn (tbl : List LetterRow) (k : Kind) (c : Char) : Bool :=
  match rowOf tbl k with
  | some r => r.noSwitch || r.documented.contains c
  | none => false

theorem sameLetters_contains {a b : List Char} (h : sameLetters a b = true) (c : Char) : a.contains c = b.contains c := by
  simp [sameLetters, List.all_eq_true] at h
  by_cases ha : c ∈ a
  · simp [ha, h.1 c ha]
  · by_cases hb : c ∈ b
    · exact absurd (h.2 c hb) ha
    · simp [ha, hb]

/-- under `LettersOK` the table's documented set is the model's letter set -/
theorem documentedIn_eq_accepts (tbl : List LetterRow) (h : LettersOK tbl) (k : Kind) (c : Char) :
    documentedIn tbl k c = accepts k c := by
  have hk := h k
  unfold rowOKb at hk
  unfold documentedIn accepts
  cases hr : rowOf tbl k with
  | none => simp [hr] at hk
  | some r =>
    simp only [hr, Bool.and_eq_true] at hk ⊢
    have hcore := hk.1.1.1
    unfold rowCoreOKb at hcore
    cases hm : modelLetters k with
    | none => simp [hm] at hcore ⊢; simp [hcore.1.1]
    | some ls =>
      simp only [hm, Bool.and_eq_true] at hcore ⊢
      have hs := sameLetters_contains hcore.2 c
      have hn : r.noSwitch = false := by simpa using hcore.1.1
      rw [hn, hs]; simp

/-! ### the side condition on the regenerated case table -/

/-- every row was recognised, the ranges are well formed, sorted and disjoint — what makes the linear search of
    `toCase` find the range Go's binary search finds -/
def caseTableOKb : List Pcore.UnicodeCase.CaseRange → Bool
  | [] => true
  | [r] => r.unknown.isEmpty && decide (r.lo ≤ r.hi)
  | r :: r2 :: rest => r.unknown.isEmpty && decide (r.lo ≤ r.hi) && decide (r.hi < r2.lo) && caseTableOKb (r2 :: rest)

def CaseTableOK (t : List Pcore.UnicodeCase.CaseRange) : Prop := caseTableOKb t = true

instance (t : List Pcore.UnicodeCase.CaseRange) : Decidable (CaseTableOK t) := by unfold CaseTableOK; infer_instance

end Pcore.Format
