import Pcore.Proofs.FilesTypesetChild
/-!
C15, type sets through the DEPENDENCY loader as the context's loader (default topology: module loaders are children of the
global loader): a qualified name is routed to the module its first segment names; every member costs a complete miss of the
global loader, of the module loader and a placeholder in the dependency loader's own cache, then the definition over the
latter; the type set is defined in the dependency loader and answered through `SetEntry` (fix 80f753b).
-/
namespace Pcore.Files

/-- `dependencyLoader.LoadEntry` of a qualified name routed to module `mod` when the global loader and the module loader
    miss completely: three placeholders -/
theorem dLoadEntry_miss (cfg : Cfg) (mod : String) (hflat : cfg.flat = false) (hmods : cfg.mods.contains mod = true)
    (s : St) (name : Name) (hne : name ≠ []) (hqual : qualified name = true)
    (hparts : ∃ ps, partsOf name = some ps ∧ ps.head? = some mod)
    (hsys : sysLoad name = none) (hd : s.get .d (keyOf name) = none)
    (hqg : QuietAnc cfg .g s name) (hig : idx cfg .g (keyOf name) = [])
    (hqm : QuietAnc cfg (.m mod) s name) (him : idx cfg (.m mod) (keyOf name) = [])
    (fuel : Nat) (hf : 3 * name.length ≤ fuel) :
    dLoadEntry (fuel+4) cfg name s =
      .ok (some none) (((s.put .g (keyOf name) none).put (.m mod) (keyOf name) none).put .d (keyOf name) none) := by
  have hchild := fbLoadEntry_child_miss cfg mod hflat s name hne hsys hqg hig hqm him fuel hf
  obtain ⟨ps, hp, hh⟩ := hparts
  have hmods' : cfg.mods.isEmpty = false := by
    cases hm : cfg.mods with
    | nil => rw [hm] at hmods; simp at hmods
    | cons x xs => rfl
  have hdg : (Lid.d, keyOf name) ≠ (Lid.g, keyOf name) := by intro h; cases h
  have hdm : (Lid.d, keyOf name) ≠ (Lid.m mod, keyOf name) := by intro h; cases h
  simp only [dLoadEntry, dFind, bind, pure, getSt, hd, hmods', hqual, partsM, hp, hh, Bool.not_false, Bool.and_self,
    if_true, hmods, hchild]
  simp only [get_put, hdg, hdm, if_false, hd, Option.getD, setEntry]

/-- the state after the members `ts` have been defined through the dependency loader -/
def defineMembers3 (mod : String) (nm : Name) : List String → Nat → St → St
  | [], _, σ => σ
  | t :: rest, i, σ =>
    defineMembers3 mod nm rest (i+1)
      (((σ.put .g (keyOf (nm ++ [t])) none).put (.m mod) (keyOf (nm ++ [t])) none).put .d (keyOf (nm ++ [t]))
        (some ⟨kindAt i, nm ++ [t]⟩))

theorem defineMembers3_reads (mod : String) (nm : Name) : ∀ (ts : List String) (i : Nat) (σ : St),
    (defineMembers3 mod nm ts i σ).reads = σ.reads
  | [], _, _ => rfl
  | t :: rest, i, σ => by simp only [defineMembers3]; rw [defineMembers3_reads mod nm rest]; rfl

theorem defineMembers3_get_other (mod : String) (nm : Name) (l' : Lid) (k : Key) :
    ∀ (ts : List String) (i : Nat) (σ : St), (∀ t ∈ ts, k ≠ keyOf (nm ++ [t])) →
      (defineMembers3 mod nm ts i σ).get l' k = σ.get l' k
  | [], _, _, _ => rfl
  | t :: rest, i, σ, h => by
    simp only [defineMembers3]
    have hk := h t List.mem_cons_self
    have hne : ∀ l0 : Lid, (l', k) ≠ (l0, keyOf (nm ++ [t])) := by
      intro l0 h'; injection h' with _ h2; exact hk h2
    rw [defineMembers3_get_other mod nm l' k rest (i+1) _ (fun u hu => h u (List.mem_cons_of_mem _ hu)), get_put,
      if_neg (hne _), get_put, if_neg (hne _), get_put, if_neg (hne _)]

theorem defineMembers3_get_member (mod : String) (nm : Name) :
    ∀ (ts : List String) (i : Nat) (σ : St) (j : Nat) (t : String), (ts.map lowerS).Nodup → ts[j]? = some t →
      (defineMembers3 mod nm ts i σ).get .d (keyOf (nm ++ [t])) = some (some ⟨kindAt (i + j), nm ++ [t]⟩)
  | [], _, _, j, t, _, h => by simp at h
  | u :: rest, i, σ, 0, t, hnd, h => by
    simp only [List.getElem?_cons_zero, Option.some.injEq] at h
    subst h
    simp only [defineMembers3]
    rw [defineMembers3_get_other mod nm _ _ rest (i+1)]
    · rw [get_put, if_pos rfl]; rfl
    · intro v hv hk
      simp only [List.map_cons, List.nodup_cons, List.mem_map, not_exists, not_and] at hnd
      exact memberKey_ne (fun h' => hnd.1 v hv h'.symm) hk
  | u :: rest, i, σ, j+1, t, hnd, h => by
    simp only [List.getElem?_cons_succ] at h
    simp only [defineMembers3]
    simp only [List.map_cons, List.nodup_cons] at hnd
    rw [defineMembers3_get_member mod nm rest (i+1) _ j t hnd.2 h]
    have : i + 1 + j = i + (j + 1) := by omega
    rw [this]

/-- `resolveTypeSet` over fresh members, through the dependency loader -/
theorem resolveTS_dep (cfg : Cfg) (mod : String) (hv : cfg.via = .d) (hflat : cfg.flat = false)
    (hmods : cfg.mods.contains mod = true) (hmne : mod ≠ "") (nm : Name) (hhead : (keyOf nm).head? = some mod) (s1 : St) :
    ∀ (ts : List String) (i : Nat) (σ : St) (k : Nat), 3 * (nm.length + 1) + ts.length ≤ k →
      MemHyp cfg .g nm s1 ts → MemHyp cfg (.m mod) nm s1 ts → MemInv .g nm s1 σ ts → MemInv (.m mod) nm s1 σ ts →
      (∀ t ∈ ts, σ.get .d (keyOf (nm ++ [t])) = none) →
      resolveTS (k+6) cfg nm ts i σ = .ok () (defineMembers3 mod nm ts i σ)
  | [], i, σ, k, _, _, _, _, _, _ => by simp only [resolveTS, defineMembers3]; rfl
  | t :: rest, i, σ, k, hk, hhg, hhm, hig, him, hdf => by
    obtain ⟨k', rfl⟩ : ∃ k', k = k' + 1 := ⟨k - 1, by simp only [List.length_cons] at hk; omega⟩
    simp only [List.length_cons] at hk
    have htn : nm ++ [t] ≠ [] := by simp
    have hlen : (nm ++ [t]).length = nm.length + 1 := by simp
    have hqg := member_quiet hhg hig
    have hqm := member_quiet hhm him
    have hvalid : (partsOf (nm ++ [t])).isSome := by
      rcases hhm.valid with h | h
      · exact absurd h hmne
      · exact h t List.mem_cons_self
    have hparts : ∃ ps, partsOf (nm ++ [t]) = some ps ∧ ps.head? = some mod := by
      refine ⟨keyOf (nm ++ [t]), ?_, ?_⟩
      · have := partsM_ok hvalid σ
        unfold partsM at this
        cases hp : partsOf (nm ++ [t]) with
        | none => rw [hp] at hvalid; cases hvalid
        | some ps =>
          rw [hp] at this
          simp only [pure] at this
          injection this with h1 _
          rw [h1]
      · rw [keyOf_append]
        cases hk0 : keyOf nm with
        | nil => rw [hk0] at hhead; cases hhead
        | cons a r => rw [hk0] at hhead; simpa using hhead
    have hqual : qualified (nm ++ [t]) = true := by
      have : nm.length ≥ 1 := by
        cases nm with
        | nil => exact absurd rfl hhg.nonempty
        | cons a r => simp
      simp [qualified]; omega
    have hload : loadEntry (k'+1+5) cfg .d (nm ++ [t]) σ =
        .ok (some none) (((σ.put .g (keyOf (nm ++ [t])) none).put (.m mod) (keyOf (nm ++ [t])) none).put .d
          (keyOf (nm ++ [t])) none) := by
      simp only [loadEntry]
      exact dLoadEntry_miss cfg mod hflat hmods σ (nm ++ [t]) htn hqual hparts (hhg.noStatic t List.mem_cons_self)
        (hdf t List.mem_cons_self) hqg (hhg.noOrigin t List.mem_cons_self) hqm (hhm.noOrigin t List.mem_cons_self) (k'+1)
        (by rw [hlen]; omega)
    let σ' := ((σ.put .g (keyOf (nm ++ [t])) none).put (.m mod) (keyOf (nm ++ [t])) none).put .d (keyOf (nm ++ [t]))
      (some ⟨kindAt i, nm ++ [t]⟩)
    have hgm : ∀ k0 k1 : Key, (Lid.g, k0) ≠ (Lid.m mod, k1) := by intro _ _ h; cases h
    have hgd : ∀ k0 k1 : Key, (Lid.g, k0) ≠ (Lid.d, k1) := by intro _ _ h; cases h
    have hmg : ∀ k0 k1 : Key, (Lid.m mod, k0) ≠ (Lid.g, k1) := by intro _ _ h; cases h
    have hmd : ∀ k0 k1 : Key, (Lid.m mod, k0) ≠ (Lid.d, k1) := by intro _ _ h; cases h
    have hig' : MemInv .g nm s1 σ' rest := by
      refine memInv_step hig hhg.nodup ?_ ?_
      · intro k0 hk0
        show (((σ.put .g _ none).put (.m mod) _ none).put .d _ _).get .g k0 = _
        rw [get_put, if_neg (hgd _ _), get_put, if_neg (hgm _ _), get_put,
          if_neg (by intro h; injection h with _ h2; exact hk0 h2)]
      · show (((σ.put .g _ none).put (.m mod) _ none).put .d _ _).get .g _ ≠ none
        rw [get_put, if_neg (hgd _ _), get_put, if_neg (hgm _ _), get_put, if_pos rfl]; intro h; cases h
    have him' : MemInv (.m mod) nm s1 σ' rest := by
      refine memInv_step him hhm.nodup ?_ ?_
      · intro k0 hk0
        show (((σ.put .g _ none).put (.m mod) _ none).put .d _ _).get (.m mod) k0 = _
        rw [get_put, if_neg (hmd _ _), get_put, if_neg (by intro h; injection h with _ h2; exact hk0 h2), get_put,
          if_neg (hmg _ _)]
      · show (((σ.put .g _ none).put (.m mod) _ none).put .d _ _).get (.m mod) _ ≠ none
        rw [get_put, if_neg (hmd _ _), get_put, if_pos rfl]; intro h; cases h
    have hdf' : ∀ u ∈ rest, σ'.get .d (keyOf (nm ++ [u])) = none := by
      intro u hu
      have hnd' := List.nodup_cons.mp (by simpa using hhg.nodup : (lowerS t :: rest.map lowerS).Nodup)
      have hne_u : keyOf (nm ++ [u]) ≠ keyOf (nm ++ [t]) := by
        refine memberKey_ne ?_
        intro hlu
        exact hnd'.1 (by rw [← hlu]; exact List.mem_map_of_mem hu)
      show (((σ.put .g _ none).put (.m mod) _ none).put .d _ _).get .d _ = none
      rw [get_put, if_neg (by intro h; injection h with _ h2; exact hne_u h2), get_put,
        if_neg (by intro h; cases h), get_put, if_neg (by intro h; cases h)]
      exact hdf u (List.mem_cons_of_mem _ hu)
    have ih := resolveTS_dep cfg mod hv hflat hmods hmne nm hhead s1 rest (i+1) σ' k' (by omega) (memHyp_tail hhg)
      (memHyp_tail hhm) hig' him' hdf'
    simp only [defineMembers3]
    rw [← ih]
    obtain ⟨mods, tree, via, gi, fl⟩ := cfg
    simp only at hv
    subst hv
    simp only [resolveTS, bind, hload]
    simp only [setEntry, get_put, if_true, put_put]
    rfl

/-- the state a type-set load through the dependency loader leaves behind (from the state in which the module loader's
    `instantiate` starts) -/
def typesetState3 (mod : String) (name nm : Name) (ts : List String) (p : Path) (s : St) : St :=
  (defineMembers3 mod nm ts 0 ((s.put (.m mod) (keyOf name) none).addRead p)).put .d (keyOf name) (some ⟨.typeset, nm⟩)

theorem typesetState3_reads (mod : String) (name nm : Name) (ts : List String) (p : Path) (s : St) :
    (typesetState3 mod name nm ts p s).reads = s.reads ++ [p] := by
  unfold typesetState3
  rw [reads_put, defineMembers3_reads]
  rfl

theorem typesetState3_member (mod : String) (name nm : Name) (ts : List String) (p : Path) (s : St)
    (hkey : keyOf nm = keyOf name) (hnd : (ts.map lowerS).Nodup) (j : Nat) (t : String) (ht : ts[j]? = some t) :
    (typesetState3 mod name nm ts p s).get .d (keyOf (nm ++ [t])) = some (some ⟨kindAt j, nm ++ [t]⟩) := by
  unfold typesetState3
  have hne' : keyOf (nm ++ [t]) ≠ keyOf name := by
    intro h2
    rw [← hkey] at h2
    exact keyOf_ne_of_length (by simp) h2
  rw [get_put, if_neg (by intro h; injection h with _ h2; exact hne' h2),
    defineMembers3_get_member mod nm ts 0 _ j t hnd ht, Nat.zero_add]

/-- `instantiate` of a type-set file by a module loader below the global loader when the DEPENDENCY loader is the context's
    loader: the members and the type set are defined in the dependency loader, the module loader keeps its placeholder
    (which is what it answers) -/
theorem instantiate_typeset_dep (cfg : Cfg) (mod : String) (hv : cfg.via = .d) (hflat : cfg.flat = false)
    (hmods : cfg.mods.contains mod = true) (hmne : mod ≠ "")
    (name nm : Name) (ts : List String) (p : Path) (ps : List Path) (s0 : St) (k : Nat)
    (hk : 3 * (nm.length + 1) + ts.length ≤ k)
    (hb : bodyAt cfg.tree p = some (.typ .typeset nm ts)) (hkey : keyOf nm = keyOf name)
    (hhead : (keyOf nm).head? = some mod)
    (hgetm : s0.get (.m mod) (keyOf name) = none) (hgetg : s0.get .g (keyOf name) = some none)
    (hgetd : s0.get .d (keyOf name) = none)
    (hhg : MemHyp cfg .g nm ((s0.put (.m mod) (keyOf name) none).addRead p) ts)
    (hhm : MemHyp cfg (.m mod) nm ((s0.put (.m mod) (keyOf name) none).addRead p) ts)
    (hfreshg : ∀ t ∈ ts, s0.get .g (keyOf (nm ++ [t])) = none)
    (hfreshm : ∀ t ∈ ts, s0.get (.m mod) (keyOf (nm ++ [t])) = none)
    (hfreshd : ∀ t ∈ ts, s0.get .d (keyOf (nm ++ [t])) = none) :
    instantiate (k+9) cfg (.m mod) name (p :: ps) s0 = .ok (some none) (typesetState3 mod name nm ts p s0) := by
  have hgm : ∀ k0 k1 : Key, (Lid.g, k0) ≠ (Lid.m mod, k1) := by intro _ _ h; cases h
  have hdm : ∀ k0 k1 : Key, (Lid.d, k0) ≠ (Lid.m mod, k1) := by intro _ _ h; cases h
  have hne' : ∀ t, keyOf (nm ++ [t]) ≠ keyOf name := by
    intro t h2
    rw [← hkey] at h2
    exact keyOf_ne_of_length (by simp) h2
  let s1 := (s0.put (.m mod) (keyOf name) none).addRead p
  have hig0 : MemInv .g nm s1 s1 ts := by
    refine ⟨?_, fun _ h => h, ?_⟩
    · show ((s0.put (.m mod) _ none).addRead p).get .g (keyOf nm) = _
      rw [hkey, get_addRead, get_put, if_neg (hgm _ _)]; exact hgetg
    · intro t ht
      show ((s0.put (.m mod) _ none).addRead p).get .g _ = none
      rw [get_addRead, get_put, if_neg (hgm _ _)]
      exact hfreshg t ht
  have him0 : MemInv (.m mod) nm s1 s1 ts := by
    refine ⟨?_, fun _ h => h, ?_⟩
    · show ((s0.put (.m mod) _ none).addRead p).get (.m mod) (keyOf nm) = _
      rw [hkey, get_addRead, get_put, if_pos rfl]
    · intro t ht
      show ((s0.put (.m mod) _ none).addRead p).get (.m mod) _ = none
      rw [get_addRead, get_put, if_neg (by intro h; injection h with _ h2; exact hne' t h2)]
      exact hfreshm t ht
  have hdf0 : ∀ t ∈ ts, s1.get .d (keyOf (nm ++ [t])) = none := by
    intro t ht
    show ((s0.put (.m mod) _ none).addRead p).get .d _ = none
    rw [get_addRead, get_put, if_neg (hdm _ _)]
    exact hfreshd t ht
  have hres := resolveTS_dep cfg mod hv hflat hmods hmne nm hhead s1 ts 0 s1 k hk hhg hhm hig0 him0 hdf0
  have hdkn : (defineMembers3 mod nm ts 0 s1).get .d (keyOf name) = none := by
    rw [defineMembers3_get_other mod nm .d (keyOf name) ts 0 s1 (fun t _ h => hne' t h.symm)]
    show ((s0.put (.m mod) _ none).addRead p).get .d _ = none
    rw [get_addRead, get_put, if_neg (hdm _ _)]
    exact hgetd
  have hmkn : (typesetState3 mod name nm ts p s0).get (.m mod) (keyOf name) = some none := by
    unfold typesetState3
    rw [get_put, if_neg (by intro h; cases h),
      defineMembers3_get_other mod nm (.m mod) (keyOf name) ts 0 _ (fun t _ h => hne' t h.symm), get_addRead, get_put,
      if_pos rfl]
  obtain ⟨mods, tree, via, gi, fl⟩ := cfg
  simp only at hv
  subst hv
  simp only at hb
  simp only [instantiate, bind, pure, getSt, hgetm, setEntry, instantiator, modifySt, hb, hkey, ne_eq,
    not_true_eq_false, if_false, addTypes, if_true]
  rw [show resolveTS (k+6) _ nm ts 0 ((s0.put (.m mod) (keyOf name) none).addRead p) = _ from hres]
  simp only [hdkn]
  rw [show ((defineMembers3 mod nm ts 0 s1).put .d (keyOf name) (some ⟨.typeset, nm⟩)) = typesetState3 mod name nm ts p s0
    from rfl, hmkn]

/-- the lookup of a type set `Mod::…` through the dependency loader -/
theorem typeset_dep (cfg : Cfg) (mod : String) (hv : cfg.via = .d) (hflat : cfg.flat = false)
    (hmods : cfg.mods.contains mod = true) (hmne : mod ≠ "")
    (name nm : Name) (hne : name ≠ []) (hqual : qualified name = true) (ts : List String) (p : Path) (ps : List Path)
    (s : St) (k : Nat) (hk : 3 * (nm.length + 1) + ts.length ≤ k)
    (hparts : ∃ ps, partsOf name = some ps ∧ ps.head? = some mod)
    (hsys : sysLoad name = none) (hd : s.get .d (keyOf name) = none)
    (hqg : QuietAnc cfg .g s name) (hig : idx cfg .g (keyOf name) = [])
    (hi : idx cfg (.m mod) (keyOf name) = p :: ps)
    (hb : bodyAt cfg.tree p = some (.typ .typeset nm ts)) (hkey : keyOf nm = keyOf name)
    (hget : s.get (.m mod) (keyOf name) = none)
    (hhg : MemHyp cfg .g nm (((s.put .g (keyOf name) none).put (.m mod) (keyOf name) none).addRead p) ts)
    (hhm : MemHyp cfg (.m mod) nm (((s.put .g (keyOf name) none).put (.m mod) (keyOf name) none).addRead p) ts)
    (hfreshg : ∀ t ∈ ts, s.get .g (keyOf (nm ++ [t])) = none)
    (hfreshm : ∀ t ∈ ts, s.get (.m mod) (keyOf (nm ++ [t])) = none)
    (hfreshd : ∀ t ∈ ts, s.get .d (keyOf (nm ++ [t])) = none) :
    loadS (k+15) cfg s name =
      (.found ⟨.typeset, nm⟩, typesetState3 mod name nm ts p (s.put .g (keyOf name) none)) := by
  obtain ⟨ps', hp', hh'⟩ := hparts
  have hps' : ps' = keyOf name := by
    unfold partsOf at hp'
    by_cases hvv : (keyOf name).all validPart = true
    · simp only [hvv, if_true] at hp'; exact (Option.some.inj hp').symm
    · simp only [hvv] at hp'; cases hp'
  have hhead : (keyOf nm).head? = some mod := by rw [hkey, ← hps']; exact hh'
  have hroute : Routed (.m mod) name := Or.inl ⟨hqual, Or.inr ⟨ps', hp', hh'⟩⟩
  have hmg : ∀ k0 k1 : Key, (Lid.m mod, k0) ≠ (Lid.g, k1) := by intro _ _ h; cases h
  have hdg : ∀ k0 k1 : Key, (Lid.d, k0) ≠ (Lid.g, k1) := by intro _ _ h; cases h
  have hlen : nm.length = name.length := by rw [← keyOf_length nm, ← keyOf_length name, hkey]
  have hfg := find_miss cfg .g s name hne hqg hig (k+10) (by omega)
  have hgfresh := hqg.fresh
  have hne' : ∀ t, keyOf (nm ++ [t]) ≠ keyOf name := by
    intro t h2
    rw [← hkey] at h2
    exact keyOf_ne_of_length (by simp) h2
  have hinst := instantiate_typeset_dep cfg mod hv hflat hmods hmne name nm ts p ps (s.put .g (keyOf name) none) k hk hb hkey
    hhead (by rw [get_put, if_neg (hmg _ _)]; exact hget) (by rw [get_put, if_pos rfl])
    (by rw [get_put, if_neg (hdg _ _)]; exact hd) hhg hhm
    (fun t ht => by rw [get_put, if_neg (by intro h; injection h with _ h2; exact hne' t h2)]; exact hfreshg t ht)
    (fun t ht => by rw [get_put, if_neg (hmg _ _)]; exact hfreshm t ht)
    (fun t ht => by rw [get_put, if_neg (hdg _ _)]; exact hfreshd t ht)
  have hdkn' : (typesetState3 mod name nm ts p (s.put .g (keyOf name) none)).get .d (keyOf name) =
      some (some ⟨.typeset, nm⟩) := by
    unfold typesetState3
    rw [get_put, if_pos rfl]
  have hmods' : cfg.mods.isEmpty = false := by
    cases hm : cfg.mods with
    | nil => rw [hm] at hmods; simp at hmods
    | cons x xs => rfl
  obtain ⟨mods, tree, via, gi, fl⟩ := cfg
  simp only at hv hflat
  subst hv
  subst hflat
  simp only at hmods hmods'
  unfold loadS load
  simp only [loadEntry, dLoadEntry, dFind, bind, pure, getSt, hd, hmods', hqual, partsM, hp', hh', Bool.not_false,
    Bool.and_self, if_true, hmods]
  simp only [fbLoadEntry, bind, pure, getSt, Bool.false_eq_true, if_false, hsys, hgfresh, hfg]
  simp only [setEntry, hgfresh, get_put, hget, hmg, if_false, find_routed _ _ _ _ hroute, findTail, hi]
  rw [show instantiate (k+9) _ (.m mod) name (p :: ps) (s.put .g (keyOf name) none) = _ from hinst]
  simp only [hdkn', Option.getD]

/-- a name the dependency loader holds a definition for is answered from its cache -/
theorem dep_cached (cfg : Cfg) (hv : cfg.via = .d) (name : Name) (s : St) (d : Def) (n : Nat)
    (hget : s.get .d (keyOf name) = some (some d)) : loadS (n+2) cfg s name = (.found d, s) := by
  obtain ⟨mods, tree, via, gi, fl⟩ := cfg
  simp only at hv
  subst hv
  unfold loadS load
  simp only [loadEntry, dLoadEntry, bind, pure, getSt, hget]

end Pcore.Files
