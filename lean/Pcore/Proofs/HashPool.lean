import Pcore.Proofs.HashImpl
import Pcore.Proofs.ArrayImpl
/-!
Histories over a pool of hashes: every step of the implementation model preserves the invariant of every
hash in the pool and answers what the specification machine answers.
-/
namespace Pcore.Coll
open OMap

variable {α β κ : Type} [DecidableEq κ]

def PoolInv (key : α → κ) (pool : List (Hash α β κ)) : Prop := ∀ h ∈ pool, HInv key h

/-- the literals of a history have no repeated keys (the case excluded by known finding C09-literal-dup-keys) -/
def LitOK (key : α → κ) : HOp α β → Prop
  | .lit es => (keys key es).Nodup
  | _ => True

instance (key : α → κ) (op : HOp α β) : Decidable (LitOK key op) := by
  cases op <;> simp only [LitOK] <;> infer_instance

def absPool (pool : List (Hash α β κ)) : List (List (α × β)) := pool.map (·.entries)

omit [DecidableEq κ] in
theorem absPool_get (pool : List (Hash α β κ)) (i : Nat) : (absPool pool)[i]? = (pool[i]?).map (·.entries) := by
  simp [absPool]

omit [DecidableEq κ] in
theorem absPool_set {pool : List (Hash α β κ)} {i : Nat} {h h' : Hash α β κ} (hg : pool[i]? = some h)
    (he : h'.entries = h.entries) : absPool (pool.set i h') = absPool pool := by
  simp only [absPool, List.map_set, he]
  apply List.ext_getElem?
  intro j
  by_cases hj : i = j
  · subst hj
    have hlt : i < pool.length := (List.getElem?_eq_some_iff.mp hg).1
    have hh : pool[i] = h := (List.getElem?_eq_some_iff.mp hg).2
    simp [List.getElem?_set, hlt, hh]
  · simp [List.getElem?_set, hj]

omit [DecidableEq κ] in
theorem absPool_append (pool : List (Hash α β κ)) (n : Hash α β κ) : absPool (pool ++ [n]) = absPool pool ++ [n.entries] := by
  simp [absPool]

omit [DecidableEq κ] in
theorem absPool_set' (pool : List (Hash α β κ)) (i : Nat) (n : Hash α β κ) :
    absPool (pool.set i n) = (absPool pool).set i n.entries := by
  simp [absPool, List.map_set]

theorem HInv.putAll {key : α → κ} {h : Hash α β κ} (hi : HInv key h) {o : List (α × β)} (ho : (keys key o).Nodup) :
    ∃ n, h.putAll key o = some n ∧ n.entries = OMap.merge key h.entries o ∧ HInv key n := by
  obtain ⟨n, hm, hne, hni⟩ := hi.merge ho
  refine ⟨n, ?_, hne, hni⟩
  simp only [Hash.merge] at hm
  have := congrArg Prod.snd hm
  simpa [Hash.putAll] using this

theorem PoolInv.set {key : α → κ} {pool : List (Hash α β κ)} (hp : PoolInv key pool) {i : Nat} {h' : Hash α β κ}
    (hi : HInv key h') : PoolInv key (pool.set i h') := by
  intro h hm
  rcases List.mem_or_eq_of_mem_set hm with hm | rfl
  · exact hp h hm
  · exact hi

theorem PoolInv.append {key : α → κ} {pool : List (Hash α β κ)} (hp : PoolInv key pool) {n : Hash α β κ}
    (hi : HInv key n) : PoolInv key (pool ++ [n]) := by
  intro h hm
  rcases List.mem_append.mp hm with hm | hm
  · exact hp h hm
  · simp at hm; subst hm; exact hi

theorem PoolInv.get {key : α → κ} {pool : List (Hash α β κ)} (hp : PoolInv key pool) {i : Nat} {h : Hash α β κ}
    (hg : pool[i]? = some h) : HInv key h := hp h (List.mem_of_getElem? hg)

theorem stepH_refines (key : α → κ) (pool : List (Hash α β κ)) (hp : PoolInv key pool) (op : HOp α β)
    (hl : LitOK key op) :
    PoolInv key (stepHImpl key pool op).1 ∧
      stepHSpec key (absPool pool) op = (absPool (stepHImpl key pool op).1, (stepHImpl key pool op).2) := by
  cases op with
  | lit es =>
    have hn : (keys key es).Nodup := hl
    refine ⟨hp.append (HInv.wrap hn), ?_⟩
    have := ofList_of_nodup (key := key) [] es (by simpa using hn)
    simp [stepHImpl, stepHSpec, absPool_append, Hash.wrap, OMap.ofList, this]
  | put i e =>
    simp only [stepHImpl, stepHSpec, absPool_get]
    cases hg : pool[i]? with
    | none => exact ⟨hp, rfl⟩
    | some h =>
      have hi := hp.get hg
      obtain ⟨hve, hvi, _⟩ := hi.valueIndex
      obtain ⟨n, hm, hne, hni⟩ := hi.merge (o := [e]) (by simp [keys])
      simp only [hm, Option.map_some]
      refine ⟨(hp.set hvi).append hni, ?_⟩
      rw [absPool_append, absPool_set hg hve, hne]; simp [OMap.merge]
  | merge i j =>
    simp only [stepHImpl, stepHSpec, absPool_get]
    cases hg : pool[i]? with
    | none => exact ⟨hp, by simp⟩
    | some h =>
      cases hg2 : pool[j]? with
      | none => exact ⟨hp, by simp⟩
      | some o =>
        have hi := hp.get hg
        obtain ⟨hve, hvi, _⟩ := hi.valueIndex
        obtain ⟨n, hm, hne, hni⟩ := hi.merge (hp.get hg2).1
        simp only [hm, Option.map_some]
        refine ⟨(hp.set hvi).append hni, ?_⟩
        rw [absPool_append, absPool_set hg hve, hne]
  | delete i k =>
    simp only [stepHImpl, stepHSpec, absPool_get]
    cases hg : pool[i]? with
    | none => exact ⟨hp, rfl⟩
    | some h =>
      have hi := hp.get hg
      obtain ⟨hve, hvi, _⟩ := hi.valueIndex
      obtain ⟨n, hm, hne, hni⟩ := hi.delete k
      simp only [hm, Option.map_some]
      refine ⟨(hp.set hvi).append hni, ?_⟩
      rw [absPool_append, absPool_set hg hve, hne]
  | deleteAll i ks =>
    simp only [stepHImpl, stepHSpec, absPool_get]
    cases hg : pool[i]? with
    | none => exact ⟨hp, rfl⟩
    | some h =>
      have hi := hp.get hg
      obtain ⟨hve, hvi, _⟩ := hi.valueIndex
      obtain ⟨h1, hne, hni⟩ := hi.deleteAll ks
      simp only [Option.map_some]
      refine ⟨(hp.set (h1 ▸ hvi)).append hni, ?_⟩
      rw [absPool_append, absPool_set hg (h1 ▸ hve), hne]
  | get i k =>
    simp only [stepHImpl, stepHSpec, absPool_get]
    cases hg : pool[i]? with
    | none => exact ⟨hp, rfl⟩
    | some h =>
      have hi := hp.get hg
      obtain ⟨hve, hvi, _⟩ := hi.valueIndex
      simp only [hi.get, Option.map_some]
      exact ⟨hp.set hvi, by rw [absPool_set hg hve]⟩
  | includes i k =>
    simp only [stepHImpl, stepHSpec, absPool_get]
    cases hg : pool[i]? with
    | none => exact ⟨hp, rfl⟩
    | some h =>
      have hi := hp.get hg
      obtain ⟨hve, hvi, _⟩ := hi.valueIndex
      simp only [hi.includesKey, Option.map_some]
      exact ⟨hp.set hvi, by rw [absPool_set hg hve]⟩
  | view i =>
    simp only [stepHImpl, stepHSpec, absPool_get]
    cases hg : pool[i]? with
    | none => exact ⟨hp, rfl⟩
    | some h => exact ⟨hp, rfl⟩
  | mput i e =>
    simp only [stepHImpl, stepHSpec, absPool_get]
    cases hg : pool[i]? with
    | none => exact ⟨hp, rfl⟩
    | some h =>
      obtain ⟨n, hm, hne, hni⟩ := (hp.get hg).putAll (o := [e]) (by simp [keys])
      simp only [Hash.putM, hm, Option.map_some]
      refine ⟨hp.set hni, ?_⟩
      rw [absPool_set', hne]; simp [OMap.merge]
  | mputAll i j =>
    simp only [stepHImpl, stepHSpec, absPool_get]
    cases hg : pool[i]? with
    | none => exact ⟨hp, by simp⟩
    | some h =>
      cases hg2 : pool[j]? with
      | none => exact ⟨hp, by simp⟩
      | some o =>
        obtain ⟨n, hm, hne, hni⟩ := (hp.get hg).putAll (hp.get hg2).1
        simp only [hm, Option.map_some]
        refine ⟨hp.set hni, ?_⟩
        rw [absPool_set', hne]
  | slice i x y =>
    simp only [stepHImpl, stepHSpec, absPool_get]
    cases hg : pool[i]? with
    | none => exact ⟨hp, rfl⟩
    | some h =>
      have hi := hp.get hg
      by_cases hb : x ≤ y ∧ y ≤ h.entries.length
      · simp only [Hash.slice, hb, and_self, if_true, Option.map_some]
        refine ⟨hp.append (HInv.wrap ?_), by simp [absPool_append, Hash.wrap]⟩
        have hsub : ((h.entries.drop x).take (y - x)).Sublist h.entries :=
          (List.take_sublist _ _).trans (List.drop_sublist _ _)
        exact List.Nodup.sublist (hsub.map _) hi.1
      · simp only [Hash.slice, hb, if_false, Option.map_some]
        exact ⟨hp, by simp [hb]⟩
  | select i ks =>
    simp only [stepHImpl, stepHSpec, absPool_get]
    cases hg : pool[i]? with
    | none => exact ⟨hp, rfl⟩
    | some h =>
      have hi := hp.get hg
      have he : (h.selectPairs (fun e => (ks.map key).contains (key e.1)) : Hash α β κ).entries =
          h.entries.filter (fun e => (ks.map key).contains (key e.1)) := by
        simp [Hash.selectPairs, Hash.wrap, Arr.rejectLoop_eq]
      simp only [Option.map_some]
      refine ⟨hp.append ⟨?_, by simp [Hash.selectPairs, Hash.wrap]⟩, by rw [absPool_append, he]⟩
      rw [he]
      exact List.Nodup.sublist (List.filter_sublist.map _) hi.1
  | reject i ks =>
    simp only [stepHImpl, stepHSpec, absPool_get]
    cases hg : pool[i]? with
    | none => exact ⟨hp, rfl⟩
    | some h =>
      have hi := hp.get hg
      have he : (h.rejectPairs (fun e => (ks.map key).contains (key e.1)) : Hash α β κ).entries =
          OMap.deleteAll key h.entries (ks.map key) := by
        simp [Hash.rejectPairs, Hash.wrap, Arr.rejectLoop_eq, OMap.deleteAll]
      simp only [Option.map_some]
      refine ⟨hp.append ⟨?_, by simp [Hash.rejectPairs, Hash.wrap]⟩, by rw [absPool_append, he]⟩
      rw [he]
      exact nodup_deleteAll hi.1 _
  | sort i le =>
    simp only [stepHImpl, stepHSpec, absPool_get]
    cases hg : pool[i]? with
    | none => exact ⟨hp, rfl⟩
    | some h =>
      have hi := hp.get hg
      simp only [Option.map_some]
      refine ⟨hp.append (HInv.wrap ?_), by simp [absPool_append, Hash.sort, Hash.wrap]⟩
      have hperm : (keys key (h.entries.mergeSort (fun a b => le a.1 b.1))).Perm (keys key h.entries) :=
        (List.mergeSort_perm _ _).map _
      exact hperm.nodup_iff.mpr hi.1
  | eachSlice i n =>
    simp only [stepHImpl, stepHSpec, absPool_get]
    cases hg : pool[i]? with
    | none => exact ⟨hp, rfl⟩
    | some h =>
      by_cases hn : n < 1
      · simp [Hash.eachSlice, Arr.eachSlice, hn, hp]
      · simp [Hash.eachSlice, Arr.eachSlice_eq n hn, hn, hp]

/-! ### whole histories (fixed model; `Props/C09.lean` restates these for the fact-driven model) -/
section
variable (key : α → κ)

/-- every hash of the pool keeps the invariant (no two equal keys, cached index = index of the entries) through ANY
    history whose literals do not repeat a key -/
theorem hash_inv (ops : List (HOp α β)) (hl : ∀ op ∈ ops, LitOK key op) (pool : List (Hash α β κ))
    (hp : PoolInv key pool) : PoolInv key (runHImpl key pool ops).2 := by
  induction ops generalizing pool with
  | nil => exact hp
  | cons op ops ih =>
    exact ih (fun o ho => hl o (by simp [ho])) _ (stepH_refines key pool hp op (hl op (by simp))).1

/-- every answer of every step (lookups, membership, iteration order) equals the specification's, and so does the
    content of every hash of the pool afterwards — for ANY history whose literals do not repeat a key -/
theorem hash_refine_partial (ops : List (HOp α β)) (hl : ∀ op ∈ ops, LitOK key op) (pool : List (Hash α β κ))
    (hp : PoolInv key pool) :
    (runHImpl key pool ops).1 = (runHSpec key (absPool pool) ops).1 ∧
      absPool (runHImpl key pool ops).2 = (runHSpec key (absPool pool) ops).2 := by
  induction ops generalizing pool with
  | nil => exact ⟨rfl, rfl⟩
  | cons op ops ih =>
    have hs := stepH_refines key pool hp op (hl op (by simp))
    have := ih (fun o ho => hl o (by simp [ho])) _ hs.1
    simp only [runHImpl, runHSpec, hs.2]
    exact ⟨by rw [this.1], this.2⟩

omit [DecidableEq κ] in
theorem stepHSpec_ne_fault [DecidableEq κ] (pool : List (List (α × β))) (op : HOp α β) : (stepHSpec key pool op).2 ≠ .fault := by
  cases op <;> simp only [stepHSpec] <;> (repeat' split) <;> simp

/-- no step of such a history ends in a Go runtime fault (slice bounds, index out of range) -/
theorem hash_no_fault (ops : List (HOp α β)) (hl : ∀ op ∈ ops, LitOK key op) (pool : List (Hash α β κ))
    (hp : PoolInv key pool) : ∀ o ∈ (runHImpl key pool ops).1, o ≠ .fault := by
  rw [(hash_refine_partial key ops hl pool hp).1]
  generalize absPool pool = sp
  induction ops generalizing sp with
  | nil => simp [runHSpec]
  | cons op ops ih =>
    intro o ho
    simp only [runHSpec, List.mem_cons] at ho
    rcases ho with rfl | ho
    · exact stepHSpec_ne_fault key sp op
    · exact ih (fun o ho => hl o (by simp [ho])) _ o ho

/-- `valueIndex()` answers exactly the positions: `index k = some i ↔ key entries[i] = k` -/
theorem hash_index_iff {h : Hash α β κ} (hi : HInv key h) (k : κ) (i : Nat) :
    GoMap.get (h.valueIndex key).2 k = some i ↔ (h.entries[i]?).map (fun e => key e.1) = some k := by
  rw [hi.valueIndex.2.2, idx_iff hi.1]


end

end Pcore.Coll
