import Pcore.Proofs.HashImpl
/-!
Histories over a pool of hashes: every step of the implementation model preserves the invariant of every
hash in the pool and answers what the specification machine answers.
-/
namespace Pcore.Coll
open OMap

variable {α β κ : Type} [DecidableEq κ]

def PoolInv (key : α → κ) (pool : List (Hash α β κ)) : Prop := ∀ h ∈ pool, HInv key h

/-- the literals of a history have no repeated keys (the case excluded by known finding C09-literal-dup-keys) -/
def LitOK (key : α → κ) : HOp α β → Prop
  | .lit es => (keys key es).Nodup
  | _ => True

instance (key : α → κ) (op : HOp α β) : Decidable (LitOK key op) := by
  cases op <;> simp only [LitOK] <;> infer_instance

def absPool (pool : List (Hash α β κ)) : List (List (α × β)) := pool.map (·.entries)

omit [DecidableEq κ] in
theorem absPool_get (pool : List (Hash α β κ)) (i : Nat) : (absPool pool)[i]? = (pool[i]?).map (·.entries) := by
  simp [absPool]

omit [DecidableEq κ] in
theorem absPool_set {pool : List (Hash α β κ)} {i : Nat} {h h' : Hash α β κ} (hg : pool[i]? = some h)
    (he : h'.entries = h.entries) : absPool (pool.set i h') = absPool pool := by
  simp only [absPool, List.map_set, he]
  apply List.ext_getElem?
  intro j
  by_cases hj : i = j
  · subst hj
    have hlt : i < pool.length := (List.getElem?_eq_some_iff.mp hg).1
    have hh : pool[i] = h := (List.getElem?_eq_some_iff.mp hg).2
    simp [List.getElem?_set, hlt, hh]
  · simp [List.getElem?_set, hj]

omit [DecidableEq κ] in
theorem absPool_append (pool : List (Hash α β κ)) (n : Hash α β κ) : absPool (pool ++ [n]) = absPool pool ++ [n.entries] := by
  simp [absPool]

omit [DecidableEq κ] in
theorem absPool_set' (pool : List (Hash α β κ)) (i : Nat) (n : Hash α β κ) :
    absPool (pool.set i n) = (absPool pool).set i n.entries := by
  simp [absPool, List.map_set]

theorem HInv.putAll {key : α → κ} {h : Hash α β κ} (hi : HInv key h) {o : List (α × β)} (ho : (keys key o).Nodup) :
    ∃ n, h.putAll key o = some n ∧ n.entries = OMap.merge key h.entries o ∧ HInv key n := by
  obtain ⟨n, hm, hne, hni⟩ := hi.merge ho
  refine ⟨n, ?_, hne, hni⟩
  simp only [Hash.merge] at hm
  have := congrArg Prod.snd hm
  simpa [Hash.putAll] using this

theorem PoolInv.set {key : α → κ} {pool : List (Hash α β κ)} (hp : PoolInv key pool) {i : Nat} {h' : Hash α β κ}
    (hi : HInv key h') : PoolInv key (pool.set i h') := by
  intro h hm
  rcases List.mem_or_eq_of_mem_set hm with hm | rfl
  · exact hp h hm
  · exact hi

theorem PoolInv.append {key : α → κ} {pool : List (Hash α β κ)} (hp : PoolInv key pool) {n : Hash α β κ}
    (hi : HInv key n) : PoolInv key (pool ++ [n]) := by
  intro h hm
  rcases List.mem_append.mp hm with hm | hm
  · exact hp h hm
  · simp at hm; subst hm; exact hi

theorem PoolInv.get {key : α → κ} {pool : List (Hash α β κ)} (hp : PoolInv key pool) {i : Nat} {h : Hash α β κ}
    (hg : pool[i]? = some h) : HInv key h := hp h (List.mem_of_getElem? hg)

theorem stepH_refines (key : α → κ) (pool : List (Hash α β κ)) (hp : PoolInv key pool) (op : HOp α β)
    (hl : LitOK key op) :
    PoolInv key (stepHImpl key pool op).1 ∧
      stepHSpec key (absPool pool) op = (absPool (stepHImpl key pool op).1, (stepHImpl key pool op).2) := by
  cases op with
  | lit es =>
    have hn : (keys key es).Nodup := hl
    refine ⟨hp.append (HInv.wrap hn), ?_⟩
    have := ofList_of_nodup (key := key) [] es (by simpa using hn)
    simp [stepHImpl, stepHSpec, absPool_append, Hash.wrap, OMap.ofList, this]
  | put i e =>
    simp only [stepHImpl, stepHSpec, absPool_get]
    cases hg : pool[i]? with
    | none => exact ⟨hp, rfl⟩
    | some h =>
      have hi := hp.get hg
      obtain ⟨hve, hvi, _⟩ := hi.valueIndex
      obtain ⟨n, hm, hne, hni⟩ := hi.merge (o := [e]) (by simp [keys])
      simp only [hm, Option.map_some]
      refine ⟨(hp.set hvi).append hni, ?_⟩
      rw [absPool_append, absPool_set hg hve, hne]; simp [OMap.merge]
  | merge i j =>
    simp only [stepHImpl, stepHSpec, absPool_get]
    cases hg : pool[i]? with
    | none => exact ⟨hp, by simp⟩
    | some h =>
      cases hg2 : pool[j]? with
      | none => exact ⟨hp, by simp⟩
      | some o =>
        have hi := hp.get hg
        obtain ⟨hve, hvi, _⟩ := hi.valueIndex
        obtain ⟨n, hm, hne, hni⟩ := hi.merge (hp.get hg2).1
        simp only [hm, Option.map_some]
        refine ⟨(hp.set hvi).append hni, ?_⟩
        rw [absPool_append, absPool_set hg hve, hne]
  | delete i k =>
    simp only [stepHImpl, stepHSpec, absPool_get]
    cases hg : pool[i]? with
    | none => exact ⟨hp, rfl⟩
    | some h =>
      have hi := hp.get hg
      obtain ⟨hve, hvi, _⟩ := hi.valueIndex
      obtain ⟨n, hm, hne, hni⟩ := hi.delete k
      simp only [hm, Option.map_some]
      refine ⟨(hp.set hvi).append hni, ?_⟩
      rw [absPool_append, absPool_set hg hve, hne]
  | deleteAll i ks =>
    simp only [stepHImpl, stepHSpec, absPool_get]
    cases hg : pool[i]? with
    | none => exact ⟨hp, rfl⟩
    | some h =>
      have hi := hp.get hg
      obtain ⟨hve, hvi, _⟩ := hi.valueIndex
      obtain ⟨h1, hne, hni⟩ := hi.deleteAll ks
      simp only [Option.map_some]
      refine ⟨(hp.set (h1 ▸ hvi)).append hni, ?_⟩
      rw [absPool_append, absPool_set hg (h1 ▸ hve), hne]
  | get i k =>
    simp only [stepHImpl, stepHSpec, absPool_get]
    cases hg : pool[i]? with
    | none => exact ⟨hp, rfl⟩
    | some h =>
      have hi := hp.get hg
      obtain ⟨hve, hvi, _⟩ := hi.valueIndex
      simp only [hi.get, Option.map_some]
      exact ⟨hp.set hvi, by rw [absPool_set hg hve]⟩
  | includes i k =>
    simp only [stepHImpl, stepHSpec, absPool_get]
    cases hg : pool[i]? with
    | none => exact ⟨hp, rfl⟩
    | some h =>
      have hi := hp.get hg
      obtain ⟨hve, hvi, _⟩ := hi.valueIndex
      simp only [hi.includesKey, Option.map_some]
      exact ⟨hp.set hvi, by rw [absPool_set hg hve]⟩
  | view i =>
    simp only [stepHImpl, stepHSpec, absPool_get]
    cases hg : pool[i]? with
    | none => exact ⟨hp, rfl⟩
    | some h => exact ⟨hp, rfl⟩
  | mput i e =>
    simp only [stepHImpl, stepHSpec, absPool_get]
    cases hg : pool[i]? with
    | none => exact ⟨hp, rfl⟩
    | some h =>
      obtain ⟨n, hm, hne, hni⟩ := (hp.get hg).putAll (o := [e]) (by simp [keys])
      simp only [Hash.putM, hm, Option.map_some]
      refine ⟨hp.set hni, ?_⟩
      rw [absPool_set', hne]; simp [OMap.merge]
  | mputAll i j =>
    simp only [stepHImpl, stepHSpec, absPool_get]
    cases hg : pool[i]? with
    | none => exact ⟨hp, by simp⟩
    | some h =>
      cases hg2 : pool[j]? with
      | none => exact ⟨hp, by simp⟩
      | some o =>
        obtain ⟨n, hm, hne, hni⟩ := (hp.get hg).putAll (hp.get hg2).1
        simp only [hm, Option.map_some]
        refine ⟨hp.set hni, ?_⟩
        rw [absPool_set', hne]

end Pcore.Coll
