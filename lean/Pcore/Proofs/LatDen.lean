import Pcore.Proofs.LatInst
import Pcore.Proofs.LatWF
set_option linter.unusedSimpArgs false
/-! Lemmas for C02: the code-shaped `inst` agrees with the set denotation `Den`. -/
namespace Pcore.Lat

theorem Val.w_lt_wl {v : Val} {vs : List Val} (h : v ∈ vs) : v.w < Val.wl vs := by
  induction vs with
  | nil => cases h
  | cons a as ih =>
    simp only [Val.wl]
    cases h with
    | head => omega
    | tail _ h' => have := ih h'; omega

theorem Val.w_lt_we {e : Val × Val} {es : List (Val × Val)} (h : e ∈ es) : e.1.w + e.2.w < Val.we es := by
  induction es with
  | nil => cases h
  | cons a as ih =>
    obtain ⟨x, y⟩ := a
    simp only [Val.we]
    cases h with
    | head => simp; omega
    | tail _ h' => have := ih h'; omega

theorem instDataL_iff (vs : List Val) : instDataL vs = true ↔ ∀ x ∈ vs, instData x = true := by
  induction vs with
  | nil => simp [instDataL]
  | cons v vs ih => simp [instDataL, ih]

theorem instDataE_iff (es : List (Val × Val)) :
    instDataE es = true ↔ ∀ e ∈ es, isStrKey e.1 = true ∧ instData e.2 = true := by
  induction es with
  | nil => simp [instDataE]
  | cons e es ih => obtain ⟨k, v⟩ := e; simp [instDataE, ih, and_assoc]

theorem isStrKey_iff (k : Val) : isStrKey k = true ↔ ∃ s, k = .str s := by
  cases k <;> simp [isStrKey]

theorem instData_iff : ∀ (n : Nat) (v : Val), v.w ≤ n → (instData v = true ↔ IsData v) := by
  intro n
  induction n with
  | zero => intro v h; have : 0 < v.w := by cases v <;> simp [Val.w] <;> omega
            omega
  | succ n ih =>
    intro v hw
    cases v with
    | array vs =>
      simp only [instData, instDataL_iff]
      simp only [Val.w] at hw
      constructor
      · intro h; exact IsData.arr vs (fun x hx => (ih x (by have := Val.w_lt_wl hx; omega)).1 (h x hx))
      · intro h; cases h with
        | arr _ h' => exact fun x hx => (ih x (by have := Val.w_lt_wl hx; omega)).2 (h' x hx)
    | hash es =>
      simp only [instData, instDataE_iff]
      simp only [Val.w] at hw
      constructor
      · intro h
        refine IsData.hash es (fun e he => (isStrKey_iff _).1 (h e he).1) (fun e he => ?_)
        exact (ih e.2 (by have := Val.w_lt_we he; omega)).1 (h e he).2
      · intro h; cases h with
        | hash _ h1 h2 =>
          exact fun e he => ⟨(isStrKey_iff _).2 (h1 e he), (ih e.2 (by have := Val.w_lt_we he; omega)).2 (h2 e he)⟩
    | undef => simp [instData]; exact IsData.undef
    | str s => simp [instData]; exact IsData.str s
    | int i => simp [instData]; exact IsData.int i
    | float f => simp [instData]; exact IsData.float f
    | bool b => simp [instData]; exact IsData.bool b
    | dflt => simp [instData]; intro h; cases h
    | regexp s => simp [instData]; intro h; cases h
    | binary s => simp [instData]; intro h; cases h
    | tspan s => simp [instData]; intro h; cases h
    | tstamp s => simp [instData]; intro h; cases h
    | sensitive s => simp [instData]; intro h; cases h
    | typ s => simp [instData]; intro h; cases h
    | obj s => simp [instData]; intro h; cases h

theorem instRichL_iff (vs : List Val) : instRichL vs = true ↔ ∀ x ∈ vs, instRich x = true := by
  induction vs with
  | nil => simp [instRichL]
  | cons v vs ih => simp [instRichL, ih]

theorem instRichE_iff (es : List (Val × Val)) :
    instRichE es = true ↔ ∀ e ∈ es, isRichKey e.1 = true ∧ instRich e.2 = true := by
  induction es with
  | nil => simp [instRichE]
  | cons e es ih =>
    obtain ⟨k, v⟩ := e
    simp [instRichE, ih, and_assoc]

theorem isRichKey_iff (k : Val) :
    isRichKey k = true ↔ (∃ s, k = .str s) ∨ (∃ i, k = .int i) ∨ (∃ f, k = .float f) := by
  cases k <;> simp [isRichKey]

theorem isScalarVal_iff (v : Val) : isScalarVal v = true ↔ IsScalarVal v := by
  cases v <;> simp [isScalarVal, IsScalarVal]

theorem instRich_iff : ∀ (n : Nat) (v : Val), v.w ≤ n → (instRich v = true ↔ IsRich v) := by
  intro n
  induction n with
  | zero => intro v h; have : 0 < v.w := by cases v <;> simp [Val.w] <;> omega
            omega
  | succ n ih =>
    intro v hw
    cases v with
    | array vs =>
      simp only [instRich, instRichL_iff]
      simp only [Val.w] at hw
      constructor
      · intro h; exact IsRich.arr vs (fun x hx => (ih x (by have := Val.w_lt_wl hx; omega)).1 (h x hx))
      · intro h; cases h with
        | scalar _ h' => cases h'
        | arr _ h' => exact fun x hx => (ih x (by have := Val.w_lt_wl hx; omega)).2 (h' x hx)
    | hash es =>
      simp only [instRich, instRichE_iff]
      simp only [Val.w] at hw
      constructor
      · intro h
        refine IsRich.hash es (fun e he => (isRichKey_iff _).1 (h e he).1) (fun e he => ?_)
        exact (ih e.2 (by have := Val.w_lt_we he; omega)).1 (h e he).2
      · intro h; cases h with
        | scalar _ h' => cases h'
        | hash _ h1 h2 =>
          exact fun e he => ⟨(isRichKey_iff _).2 (h1 e he), (ih e.2 (by have := Val.w_lt_we he; omega)).2 (h2 e he)⟩
    | undef => simp [instRich]; exact IsRich.undef
    | dflt => simp [instRich]; exact IsRich.dflt
    | binary b => simp [instRich]; exact IsRich.bin b
    | typ t => simp [instRich]; exact IsRich.typ t
    | obj p => simp [instRich]; exact IsRich.obj p
    | str s => simp [instRich, isScalarVal]; exact IsRich.scalar _ trivial
    | int i => simp [instRich, isScalarVal]; exact IsRich.scalar _ trivial
    | float f => simp [instRich, isScalarVal]; exact IsRich.scalar _ trivial
    | bool b => simp [instRich, isScalarVal]; exact IsRich.scalar _ trivial
    | regexp s => simp [instRich, isScalarVal]; exact IsRich.scalar _ trivial
    | tspan s => simp [instRich, isScalarVal]; exact IsRich.scalar _ trivial
    | tstamp s => simp [instRich, isScalarVal]; exact IsRich.scalar _ trivial
    | sensitive s => simp [instRich, isScalarVal]; intro h; cases h with | scalar _ h' => cases h'

end Pcore.Lat

namespace Pcore.Lat
variable (cfg : Cfg) (sfh : Bool)

theorem Rng.contains_iff (r : Rng) (i : Int) : r.contains i = true ↔ InRng r i := by
  simp [Rng.contains, InRng]

theorem Val.OK.elems {vs : List Val} (h : Val.OK (.array vs)) : ∀ x ∈ vs, Val.OK x := by
  cases h with | array _ h => exact h
theorem Val.OK.keys {es : List (Val × Val)} (h : Val.OK (.hash es)) : ∀ e ∈ es, Val.OK e.1 := by
  cases h with | hash _ _ h _ => exact h
theorem Val.OK.vals {es : List (Val × Val)} (h : Val.OK (.hash es)) : ∀ e ∈ es, Val.OK e.2 := by
  cases h with | hash _ _ _ h => exact h
theorem Val.OK.nodup {es : List (Val × Val)} (h : Val.OK (.hash es)) : KeysNodup es := by
  cases h with | hash _ h _ _ => exact h
theorem Val.OK.inner {v : Val} (h : Val.OK (.sensitive v)) : Val.OK v := by
  cases h with | sensitive _ h => exact h

theorem enumInst_iff (vs : List String) (ci : Bool) (s : String)
    (hwf : ci = true → ∀ x ∈ vs, cfg.lower x = x) :
    enumInst cfg vs ci s = true ↔ (vs = [] ∨ (if ci then ∃ x ∈ vs, cfg.lower x = cfg.lower s else s ∈ vs)) := by
  unfold enumInst
  cases ci with
  | false => simp [List.isEmpty_iff]
  | true =>
    simp only [List.isEmpty_iff, Bool.or_eq_true, decide_eq_true_eq, if_true, List.contains_iff_mem, List.elem_eq_mem]
    constructor
    · rintro (h | h)
      · exact Or.inl h
      · exact Or.inr ⟨cfg.lower s, h, hwf rfl _ h⟩
    · rintro (h | ⟨x, hx, hl⟩)
      · exact Or.inl h
      · right; rw [← hl, hwf rfl x hx]; exact hx

theorem rxAny_iff (rs : List String) (s : String) :
    rxAny cfg rs s = true ↔ ∃ r ∈ rs, cfg.rxMatch r s = true := by
  simp [rxAny]

end Pcore.Lat
