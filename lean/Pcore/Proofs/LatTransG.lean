import Pcore.Proofs.LatTransStruct
set_option linter.unusedSimpArgs false
set_option linter.unusedVariables false
/-! C03: transitivity of `asg`, stage 3 — the fragment `Ty.TG sfh`: the fragment `Ty.TF` of stage 2 plus `Struct` (members of any
    nesting) when the Struct-from-Hash rule is off (`sfh = false`).  Same summed-weight induction as `trans_all`; the
    receiver lemmas whose statement mentions the fragment are restated here, the fragment-independent ones (`tr_leaf`, `recv_pos`,
    `tupZip_trans`, …) are reused from `LatTrans`. -/
namespace Pcore.Lat
variable (cfg : Cfg) (sfh : Bool)

/-- Fragment of transitivity, stage 3: hereditarily none of Unit, Iterable, Data / RichData; a Struct only with the Struct-from-Hash rule
    off, its member names pairwise different (what `Ty.WF` states; kept inside the fragment so that the induction carries it for the
    left-hand type too). -/
def Ty.TG (sfh : Bool) (t : Ty) : Prop :=
  match t with
  | .unit | .data | .richData | .callable _ _ _ => False
  | .struct ms => sfh = false ∧ NamesNodup ms ∧ ∀ m, ∀ (_ : m ∈ ms), Ty.TG sfh m.2.2
  | .tuple ts _ => ∀ t', ∀ (_ : t' ∈ ts), Ty.TG sfh t'
  | .array e _ => Ty.TG sfh e
  | .hash k v _ => Ty.TG sfh k ∧ Ty.TG sfh v
  | .variant ts => ∀ t', ∀ (_ : t' ∈ ts), Ty.TG sfh t'
  | .optional t' | .notUndef t' | .sensitive t' | .iterator t' | .typ t' | .iterable t' => Ty.TG sfh t'
  | _ => True
termination_by t.w
decreasing_by
  all_goals simp_wf
  all_goals (try simp only [Ty.w, Ty.wl, Ty.wm] at *)
  all_goals first
    | omega
    | (have := Ty.w_lt_wl ‹_ ∈ _›; omega)
    | (have := Ty.w_lt_wm ‹_ ∈ _›; omega)

theorem Ty.TG.noAliasR : ∀ (n : Nat) (t : Ty), t.w ≤ n → t.TG sfh → t.NoAliasR := by
  intro n
  induction n with
  | zero => intro t h; have := Ty.w_pos t; omega
  | succ n ih =>
    intro t hw h
    cases t <;> unfold Ty.NoAliasR <;> (try trivial)
    · unfold Ty.TG at h; exact h
    · unfold Ty.TG at h; exact h
    · rename_i ts
      unfold Ty.TG at h; simp only [Ty.w] at hw
      exact fun t' hm => ih t' (by have := Ty.w_lt_wl hm; omega) (h t' hm)
    · unfold Ty.TG at h; simp only [Ty.w] at hw; exact ih _ (by omega) h
    · unfold Ty.TG at h; simp only [Ty.w] at hw; exact ih _ (by omega) h

/-- the stage-2 fragment lies inside -/
theorem Ty.TF.tg : ∀ (n : Nat) (t : Ty), t.w ≤ n → t.TF → t.TG sfh := by
  intro n
  induction n with
  | zero => intro t h; have := Ty.w_pos t; omega
  | succ n ih =>
    intro t hw h
    cases t <;> unfold Ty.TG <;> (try trivial) <;> unfold Ty.TF at h <;> simp only [Ty.w] at hw <;> (try exact absurd h id)
    · exact ih _ (by omega) h
    · exact ⟨ih _ (by omega) h.1, ih _ (by omega) h.2⟩
    · exact fun t' hm => ih t' (by have := Ty.w_lt_wl hm; omega) (h t' hm)
    · exact fun t' hm => ih t' (by have := Ty.w_lt_wl hm; omega) (h t' hm)
    · exact ih _ (by omega) h
    · exact ih _ (by omega) h
    · exact ih _ (by omega) h
    · exact ih _ (by omega) h
    · exact ih _ (by omega) h

structure GHyp (a b c : Ty) : Prop where
  fa : a.TG sfh
  fb : b.TG sfh
  fc : c.TG sfh
  wb : Ty.WF cfg b
  wc : Ty.WF cfg c

def TransG (n : Nat) : Prop :=
  ∀ a b c, a.w + b.w + c.w ≤ n → GHyp cfg sfh a b c → asg cfg sfh a b = true → asg cfg sfh b c = true → asg cfg sfh a c = true

theorem tg_leaf (t : Ty) (h : match t with
    | .undef | .dflt | .numeric | .str | .bin | .int _ | .float _ _ | .bool _ | .tspan _ | .tstamp _ | .strSz _ | .strVal _ | .enum _ _
    | .pattern _ | .regexp _ | .runtime _ _ _ | .object _ | .scalar | .scalarData | .any | .coll _ => True
    | _ => False) : t.TG sfh := by
  cases t <;> simp only [] at h <;> (first | contradiction | (unfold Ty.TG; trivial))

theorem trG_scalar (n : Nat) (ih : TransG cfg sfh n) (b c : Ty) (hw : Ty.scalar.w + b.w + c.w ≤ n + 1)
    (H : GHyp cfg sfh .scalar b c) (hc : c.plainR = true)
    (h1 : asgRecv cfg sfh .scalar b = true) (h2 : asg cfg sfh b c = true) : asg cfg sfh .scalar c = true := by
  simp only [Ty.w] at hw
  apply recv_to_asg cfg sfh _ c hc
  have key : (asg cfg sfh .str b || asg cfg sfh .numeric b || asg cfg sfh (.bool none) b || asg cfg sfh (.regexp "") b ||
      asg cfg sfh (.tspan Rng.all) b || asg cfg sfh (.tstamp tstampAll) b) = true → asgRecv cfg sfh .scalar c = true := by
    intro h
    simp only [Bool.or_eq_true] at h
    have fin : (asg cfg sfh .str c || asg cfg sfh .numeric c || asg cfg sfh (.bool none) c || asg cfg sfh (.regexp "") c ||
        asg cfg sfh (.tspan Rng.all) c || asg cfg sfh (.tstamp tstampAll) c) = true → asgRecv cfg sfh .scalar c = true := by
      intro h'; unfold asgRecv; cases c <;> simp_all
    apply fin
    simp only [Bool.or_eq_true]
    rcases h with ((((h | h) | h) | h) | h) | h
    · left; left; left; left; left
      exact ih .str b c (by simp [Ty.w]; omega) ⟨tg_leaf sfh _ trivial, H.fb, H.fc, H.wb, H.wc⟩ h h2
    · left; left; left; left; right
      exact ih .numeric b c (by simp [Ty.w]; omega) ⟨tg_leaf sfh _ trivial, H.fb, H.fc, H.wb, H.wc⟩ h h2
    · left; left; left; right
      exact ih (.bool none) b c (by simp [Ty.w]; omega) ⟨tg_leaf sfh _ trivial, H.fb, H.fc, H.wb, H.wc⟩ h h2
    · left; left; right
      exact ih (.regexp "") b c (by simp [Ty.w]; omega) ⟨tg_leaf sfh _ trivial, H.fb, H.fc, H.wb, H.wc⟩ h h2
    · left; right
      exact ih (.tspan Rng.all) b c (by simp [Ty.w]; omega) ⟨tg_leaf sfh _ trivial, H.fb, H.fc, H.wb, H.wc⟩ h h2
    · right
      exact ih (.tstamp tstampAll) b c (by simp [Ty.w]; omega) ⟨tg_leaf sfh _ trivial, H.fb, H.fc, H.wb, H.wc⟩ h h2
  unfold asgRecv at h1
  cases b with
  | scalar =>
    -- Scalar ⊒ c as given
    rw [asg_plain_r cfg sfh _ c hc] at h2
    simp only [Bool.or_eq_true, Ty.isAny, Bool.false_eq_true, false_or] at h2
    rcases h2 with h2 | h2
    · have := sameNullary_eq h2; subst this; unfold asgRecv; rfl
    · exact h2
  | scalarData =>
    rw [asg_plain_r cfg sfh _ c hc] at h2
    simp only [Bool.or_eq_true, Ty.isAny, Bool.false_eq_true, false_or] at h2
    rcases h2 with h2 | h2
    · have := sameNullary_eq h2; subst this; unfold asgRecv; rfl
    · -- ScalarData's rule on c
      unfold asgRecv at h2
      have : (asg cfg sfh .str c || asg cfg sfh .numeric c || asg cfg sfh (.bool none) c || asg cfg sfh (.regexp "") c ||
          asg cfg sfh (.tspan Rng.all) c || asg cfg sfh (.tstamp tstampAll) c) = true ∨ c = .scalarData := by
        cases c with
        | scalarData => right; rfl
        | _ =>
          left
          simp only [Bool.or_eq_true] at h2 ⊢
          rcases h2 with ((h2 | h2) | h2) | h2
          · left; left; left; left; left; exact h2
          · left; left; left; left; right
            exact ih .numeric (.int Rng.all) _ (by simp [Ty.w] at hw ⊢; omega) ⟨tg_leaf sfh _ trivial, tg_leaf sfh _ trivial, H.fc, wf_leaf cfg _ trivial, H.wc⟩
              (by rw [asg_plain_r cfg sfh _ _ rfl]; simp [asgRecv]) h2
          · left; left; left; right; exact h2
          · left; left; left; left; right
            exact ih .numeric floatAll _ (by simp [Ty.w, floatAll] at hw ⊢; omega) ⟨tg_leaf sfh _ trivial, by unfold floatAll; exact tg_leaf sfh _ trivial, H.fc, by unfold floatAll; exact wf_leaf cfg _ trivial, H.wc⟩
              (by rw [asg_plain_r cfg sfh _ _ rfl]; simp [asgRecv, floatAll]) h2
      rcases this with h | h
      · unfold asgRecv; cases c <;> simp_all
      · subst h; unfold asgRecv; rfl
  | _ => exact key h1

theorem trG_scalarData (n : Nat) (ih : TransG cfg sfh n) (b c : Ty) (hw : Ty.scalarData.w + b.w + c.w ≤ n + 1)
    (H : GHyp cfg sfh .scalarData b c) (hc : c.plainR = true)
    (h1 : asgRecv cfg sfh .scalarData b = true) (h2 : asg cfg sfh b c = true) : asg cfg sfh .scalarData c = true := by
  simp only [Ty.w] at hw
  apply recv_to_asg cfg sfh _ c hc
  have key : (asg cfg sfh .str b || asg cfg sfh (.int Rng.all) b || asg cfg sfh (.bool none) b || asg cfg sfh floatAll b) = true →
      asgRecv cfg sfh .scalarData c = true := by
    intro h
    simp only [Bool.or_eq_true] at h
    have fin : (asg cfg sfh .str c || asg cfg sfh (.int Rng.all) c || asg cfg sfh (.bool none) c || asg cfg sfh floatAll c) = true →
        asgRecv cfg sfh .scalarData c = true := by
      intro h'; unfold asgRecv; cases c <;> simp_all
    apply fin
    simp only [Bool.or_eq_true]
    rcases h with ((h | h) | h) | h
    · left; left; left
      exact ih .str b c (by simp [Ty.w]; omega) ⟨tg_leaf sfh _ trivial, H.fb, H.fc, H.wb, H.wc⟩ h h2
    · left; left; right
      exact ih (.int Rng.all) b c (by simp [Ty.w]; omega) ⟨tg_leaf sfh _ trivial, H.fb, H.fc, H.wb, H.wc⟩ h h2
    · left; right
      exact ih (.bool none) b c (by simp [Ty.w]; omega) ⟨tg_leaf sfh _ trivial, H.fb, H.fc, H.wb, H.wc⟩ h h2
    · right
      exact ih floatAll b c (by simp [Ty.w, floatAll]; omega) ⟨by unfold floatAll; exact tg_leaf sfh _ trivial, H.fb, H.fc, H.wb, H.wc⟩ h h2
  unfold asgRecv at h1
  cases b with
  | scalarData =>
    rw [asg_plain_r cfg sfh _ c hc] at h2
    simp only [Bool.or_eq_true, Ty.isAny, Bool.false_eq_true, false_or] at h2
    rcases h2 with h2 | h2
    · have := sameNullary_eq h2; subst this; unfold asgRecv; rfl
    · exact h2
  | _ => exact key h1

theorem posG_elem (x : Ty) (hx : x.isPos = true) (t : Ty) (ht : t ∈ posTypes x) :
    t.w < x.w ∧ (x.TG sfh → t.TG sfh) ∧ (Ty.WF cfg x → Ty.WF cfg t) := by
  cases x <;> simp [Ty.isPos] at hx
  · rename_i e r
    simp only [posTypes, List.mem_singleton] at ht; subst ht
    refine ⟨by simp [Ty.w], fun h => by unfold Ty.TG at h; exact h, fun h => by unfold Ty.WF at h; exact h⟩
  · rename_i ts g
    simp only [posTypes] at ht
    by_cases hts : ts.isEmpty = true
    · simp only [hts, if_true, List.mem_singleton] at ht; subst ht
      refine ⟨by simp only [Ty.w]; omega, fun _ => by unfold Ty.TG; trivial, fun _ => by unfold Ty.WF; trivial⟩
    · have ht' : t ∈ ts := by simpa [hts] using ht
      refine ⟨by have := Ty.w_lt_wl ht'; simp only [Ty.w]; omega, fun h => by unfold Ty.TG at h; exact h t ht',
        fun h => by unfold Ty.WF at h; exact h t ht'⟩

/-- transitivity among the positional types, elements by the induction hypothesis -/
theorem trG_pos (n : Nat) (ih : TransG cfg sfh n) (a b c : Ty) (pa : a.isPos = true) (pb : b.isPos = true) (pc : c.isPos = true)
    (hw : a.w + b.w + c.w ≤ n + 1) (H : GHyp cfg sfh a b c)
    (h1 : asgRecv cfg sfh a b = true) (h2 : asgRecv cfg sfh b c = true) : asgRecv cfg sfh a c = true := by
  rw [recv_pos cfg sfh a b pa pb, Bool.and_eq_true] at h1
  rw [recv_pos cfg sfh b c pb pc, Bool.and_eq_true] at h2
  rw [recv_pos cfg sfh a c pa pc, Bool.and_eq_true]
  refine ⟨Rng.sub_trans h1.1 h2.1, ?_⟩
  have hk : (posSize c).hi ≤ (posSize b).hi := by
    have := h2.1; simp [Rng.sub] at this; omega
  apply tupZip_trans cfg sfh _ _ _ _ _ hk (posTypes_ne a pa) (posTypes_ne b pb) (posTypes_ne c pc) ?_ h1.2 h2.2
  intro a' ha' b' hb' c' hc'
  obtain ⟨wa', fa', _⟩ := posG_elem cfg sfh a pa a' ha'
  obtain ⟨wb', fb', wfb'⟩ := posG_elem cfg sfh b pb b' hb'
  obtain ⟨wc', fc', wfc'⟩ := posG_elem cfg sfh c pc c' hc'
  exact ih a' b' c' (by omega) ⟨fa' H.fa, fb' H.fb, fc' H.fc, wfb' H.wb, wfc' H.wc⟩

theorem trG_coll (r : Rng) (b c : Ty) (fb : b.TG sfh) (fc : c.TG sfh)
    (h1 : asgRecv cfg sfh (.coll r) b = true) (h2 : asgRecv cfg sfh b c = true) : asgRecv cfg sfh (.coll r) c = true := by
  unfold asgRecv at h1
  cases b <;> simp only [] at h1 <;> (first | contradiction | skip)
  · unfold asgRecv at h2 ⊢; cases c <;> simp only [] at h2 ⊢ <;> (first | contradiction | skip)
    all_goals exact Rng.sub_trans h1 h2
  · unfold asgRecv at h2 ⊢; cases c <;> simp only [] at h2 ⊢ <;> (first | contradiction | skip)
    · simp only [Bool.and_eq_true] at h2; exact Rng.sub_trans h1 h2.1
    · simp only [Bool.and_eq_true] at h2; exact Rng.sub_trans h1 h2.1
  · unfold asgRecv at h2 ⊢; cases c <;> simp only [] at h2 ⊢ <;> (first | contradiction | skip)
    · rw [Bool.and_eq_true] at h2; exact Rng.sub_trans h1 h2.1
    · rw [Bool.and_eq_true] at h2; exact Rng.sub_trans h1 h2.1
  · unfold asgRecv at h2 ⊢; cases c <;> simp only [] at h2 ⊢ <;> (first | contradiction | skip)
    · simp only [Bool.and_eq_true] at h2; exact Rng.sub_trans h1 h2.1
    · simp only [Bool.and_eq_true] at h2; exact Rng.sub_trans h1 h2.1
  · -- the middle type is a Struct: it accepts Structs only (the rule is off), and its size includes theirs
    rename_i ms'
    unfold Ty.TG at fb
    have h2s := h2
    unfold asgRecv at h2; cases c <;> simp only [] at h2 <;> (first | contradiction | skip)
    · simp [fb.1] at h2
    · rename_i ms''
      unfold Ty.TG at fc
      have := struct_sub_size cfg sfh ms' ms'' fb.2.1 fc.2.1 h2s
      unfold asgRecv; exact Rng.sub_trans h1 this

/-- what a Struct accepts with the rule off (without decomposition) is a Struct -/
theorem struct_closed (ms : List Member) (c : Ty) (hs : sfh = false) (h : asgRecv cfg sfh (.struct ms) c = true) :
    ∃ ms', c = .struct ms' := by
  unfold asgRecv at h; cases c <;> simp only [] at h <;> (first | contradiction | skip)
  · simp [hs] at h
  · exact ⟨_, rfl⟩

theorem struct_size_hi_pos {ms : List Member} {m : Member} (hm : m ∈ ms) : ¬ (structSize ms).hi ≤ 0 := by
  simp only [structSize]
  have := List.length_pos_of_mem hm
  omega

theorem trG_array (n : Nat) (ih : TransG cfg sfh n) (e : Ty) (r : Rng) (b c : Ty) (hw : (Ty.array e r).w + b.w + c.w ≤ n + 1)
    (H : GHyp cfg sfh (.array e r) b c)
    (h1 : asgRecv cfg sfh (.array e r) b = true) (h2 : asgRecv cfg sfh b c = true) : asgRecv cfg sfh (.array e r) c = true := by
  have pb : b.isPos = true := pos_closed cfg sfh _ b rfl h1
  exact trG_pos cfg sfh n ih _ b c rfl pb (pos_closed cfg sfh b c pb h2) hw H h1 h2

theorem trG_tuple (n : Nat) (ih : TransG cfg sfh n) (ts : List Ty) (g : Option Rng) (b c : Ty) (hw : (Ty.tuple ts g).w + b.w + c.w ≤ n + 1)
    (H : GHyp cfg sfh (.tuple ts g) b c)
    (h1 : asgRecv cfg sfh (.tuple ts g) b = true) (h2 : asgRecv cfg sfh b c = true) : asgRecv cfg sfh (.tuple ts g) c = true := by
  have pb : b.isPos = true := pos_closed cfg sfh _ b rfl h1
  exact trG_pos cfg sfh n ih _ b c rfl pb (pos_closed cfg sfh b c pb h2) hw H h1 h2

theorem trG_hash (n : Nat) (ih : TransG cfg sfh n) (k v : Ty) (r : Rng) (b c : Ty) (hw : (Ty.hash k v r).w + b.w + c.w ≤ n + 1)
    (H : GHyp cfg sfh (.hash k v r) b c)
    (h1 : asgRecv cfg sfh (.hash k v r) b = true) (h2 : asgRecv cfg sfh b c = true) : asgRecv cfg sfh (.hash k v r) c = true := by
  have fa := H.fa; unfold Ty.TG at fa
  unfold asgRecv at h1
  cases b <;> simp only [] at h1 <;> (first | contradiction | skip)
  · rename_i k' v' r'
    have fb := H.fb; unfold Ty.TG at fb
    have wb := H.wb; unfold Ty.WF at wb
    unfold asgRecv at h2 ⊢; cases c <;> simp only [] at h2 ⊢ <;> (first | contradiction | skip)
    · rename_i k'' v'' r''
      have fc := H.fc; unfold Ty.TG at fc
      have wc := H.wc; unfold Ty.WF at wc
      simp only [Ty.w] at hw
      rw [Bool.and_eq_true] at h1 h2 ⊢
      refine ⟨Rng.sub_trans h1.1 h2.1, ?_⟩
      by_cases hz : r''.hi ≤ 0
      · simp [hz]
      · have hz' : ¬ r'.hi ≤ 0 := by
          have := h2.1; simp [Rng.sub] at this; omega
        have h12 := h1.2; have h22 := h2.2
        simp only [Bool.or_eq_true, decide_eq_true_eq, Bool.and_eq_true] at h12 h22 ⊢
        right
        have hA := h12.resolve_left hz'
        have hB := h22.resolve_left hz
        exact ⟨ih k k' k'' (by omega) ⟨fa.1, fb.1, fc.1, wb.1, wc.1⟩ hA.1 hB.1,
          ih v v' v'' (by omega) ⟨fa.2, fb.2, fc.2, wb.2, wc.2⟩ hA.2 hB.2⟩
    · -- Hash ⊒ Hash ⊒ Struct: the member loop of the middle Hash, through key and value types
      rename_i ms''
      have fc := H.fc; unfold Ty.TG at fc
      have wc := H.wc; unfold Ty.WF at wc
      simp only [Ty.w] at hw
      rw [Bool.and_eq_true] at h1 h2 ⊢
      refine ⟨Rng.sub_trans h1.1 h2.1, ?_⟩
      rw [asgMembers_iff]
      intro m'' hm''
      have hz : ¬ (structSize ms'').hi ≤ 0 := struct_size_hi_pos hm''
      have hz' : ¬ r'.hi ≤ 0 := by
        have := h2.1; simp [Rng.sub] at this; omega
      have h12 := h1.2
      simp only [Bool.or_eq_true, decide_eq_true_eq, Bool.and_eq_true] at h12
      have hA := h12.resolve_left hz'
      have hB := (asgMembers_iff cfg sfh k' v' ms'').1 h2.2 m'' hm''
      have := Ty.w_lt_wm hm''
      exact ⟨ih k k' (.strVal m''.1) (by simp only [Ty.w]; omega) ⟨fa.1, fb.1, tg_leaf sfh _ trivial, wb.1, wf_leaf cfg _ trivial⟩ hA.1 hB.1,
        ih v v' m''.2.2 (by omega) ⟨fa.2, fb.2, fc.2.2 m'' hm'', wb.2, wc.2 m'' hm''⟩ hA.2 hB.2⟩
  · -- Hash ⊒ Struct ⊒ c: c is a Struct
    rename_i ms'
    have fb := H.fb; unfold Ty.TG at fb
    have wb := H.wb; unfold Ty.WF at wb
    obtain ⟨ms'', rfl⟩ := struct_closed cfg sfh ms' c fb.1 h2
    have fc := H.fc; unfold Ty.TG at fc
    have wc := H.wc; unfold Ty.WF at wc
    simp only [Ty.w] at hw
    rw [Bool.and_eq_true] at h1
    unfold asgRecv
    rw [Bool.and_eq_true]
    refine ⟨Rng.sub_trans h1.1 (struct_sub_size cfg sfh ms' ms'' fb.2.1 fc.2.1 h2), ?_⟩
    apply members_trans cfg sfh k v ms' ms'' fb.2.1 fc.2.1 ?_ h1.2 h2
    intro m' hm' m'' hm''
    have := Ty.w_lt_wm hm'; have := Ty.w_lt_wm hm''
    exact ih v m'.2.2 m''.2.2 (by omega) ⟨fa.2, fb.2.2 m' hm', fc.2.2 m'' hm'', wb.2 m' hm', wc.2 m'' hm''⟩

/-- Struct ⊒ Struct ⊒ Struct (rule off): the member relation composes, value types by the induction hypothesis -/
theorem trG_struct (n : Nat) (ih : TransG cfg sfh n) (ms : List Member) (b c : Ty) (hw : (Ty.struct ms).w + b.w + c.w ≤ n + 1)
    (H : GHyp cfg sfh (.struct ms) b c)
    (h1 : asgRecv cfg sfh (.struct ms) b = true) (h2 : asgRecv cfg sfh b c = true) : asgRecv cfg sfh (.struct ms) c = true := by
  have fa := H.fa; unfold Ty.TG at fa
  obtain ⟨ms', rfl⟩ := struct_closed cfg sfh ms b fa.1 h1
  have fb := H.fb; unfold Ty.TG at fb
  have wb := H.wb; unfold Ty.WF at wb
  obtain ⟨ms'', rfl⟩ := struct_closed cfg sfh ms' c fb.1 h2
  have fc := H.fc; unfold Ty.TG at fc
  have wc := H.wc; unfold Ty.WF at wc
  simp only [Ty.w] at hw
  apply struct_trans cfg sfh ms ms' ms'' fa.2.1 fb.2.1 fc.2.1 ?_ h1 h2
  intro m hm m' hm' m'' hm''
  have := Ty.w_lt_wm hm; have := Ty.w_lt_wm hm'; have := Ty.w_lt_wm hm''
  exact ih m.2.2 m'.2.2 m''.2.2 (by omega) ⟨fa.2.2 m hm, fb.2.2 m' hm', fc.2.2 m'' hm'', wb.2 m' hm', wc.2 m'' hm''⟩

theorem trG_typ (n : Nat) (ih : TransG cfg sfh n) (x : Ty) (b c : Ty) (hw : (Ty.typ x).w + b.w + c.w ≤ n + 1)
    (H : GHyp cfg sfh (.typ x) b c)
    (h1 : asgRecv cfg sfh (.typ x) b = true) (h2 : asgRecv cfg sfh b c = true) : asgRecv cfg sfh (.typ x) c = true := by
  have fa := H.fa; unfold Ty.TG at fa
  unfold asgRecv at h1
  cases b <;> simp only [] at h1 <;> (first | contradiction | skip)
  rename_i y
  have fb := H.fb; unfold Ty.TG at fb
  have wb := H.wb; unfold Ty.WF at wb
  unfold asgRecv at h2 ⊢; cases c <;> simp only [] at h2 ⊢ <;> (first | contradiction | skip)
  rename_i z
  have fc := H.fc; unfold Ty.TG at fc
  have wc := H.wc; unfold Ty.WF at wc
  simp only [Ty.w] at hw
  exact ih x y z (by omega) ⟨fa, fb, fc, wb, wc⟩ h1 h2

theorem trG_sensitive (n : Nat) (ih : TransG cfg sfh n) (x : Ty) (b c : Ty) (hw : (Ty.sensitive x).w + b.w + c.w ≤ n + 1)
    (H : GHyp cfg sfh (.sensitive x) b c)
    (h1 : asgRecv cfg sfh (.sensitive x) b = true) (h2 : asgRecv cfg sfh b c = true) : asgRecv cfg sfh (.sensitive x) c = true := by
  have fa := H.fa; unfold Ty.TG at fa
  unfold asgRecv at h1
  cases b <;> simp only [] at h1 <;> (first | contradiction | skip)
  rename_i y
  have fb := H.fb; unfold Ty.TG at fb
  have wb := H.wb; unfold Ty.WF at wb
  unfold asgRecv at h2 ⊢; cases c <;> simp only [] at h2 ⊢ <;> (first | contradiction | skip)
  rename_i z
  have fc := H.fc; unfold Ty.TG at fc
  have wc := H.wc; unfold Ty.WF at wc
  simp only [Ty.w] at hw
  exact ih x y z (by omega) ⟨fa, fb, fc, wb, wc⟩ h1 h2

theorem trG_iterator (n : Nat) (ih : TransG cfg sfh n) (x : Ty) (b c : Ty) (hw : (Ty.iterator x).w + b.w + c.w ≤ n + 1)
    (H : GHyp cfg sfh (.iterator x) b c)
    (h1 : asgRecv cfg sfh (.iterator x) b = true) (h2 : asgRecv cfg sfh b c = true) : asgRecv cfg sfh (.iterator x) c = true := by
  have fa := H.fa; unfold Ty.TG at fa
  unfold asgRecv at h1
  cases b <;> simp only [] at h1 <;> (first | contradiction | skip)
  rename_i y
  have fb := H.fb; unfold Ty.TG at fb
  have wb := H.wb; unfold Ty.WF at wb
  unfold asgRecv at h2 ⊢; cases c <;> simp only [] at h2 ⊢ <;> (first | contradiction | skip)
  rename_i z
  have fc := H.fc; unfold Ty.TG at fc
  have wc := H.wc; unfold Ty.WF at wc
  simp only [Ty.w] at hw
  exact ih x y z (by omega) ⟨fa, fb, fc, wb, wc⟩ h1 h2

end Pcore.Lat
