import Pcore.Proofs.FormatXLaws
import Pcore.Proofs.FormatAlt
/-! Alt-mode (`#`) layout of the extended model, one level at a time: what `Array.ToString2` / `Hash.ToString2` / `ObjectToString`
    write at nesting level `L` is the directly written pretty-printer `ppArray` / `ppHash` / `ppObj` (Proofs/FormatAlt.lean) of the
    renderings of the elements — for every kind of element and any key system. -/
namespace Pcore.Format

/-- every indentation is (first, indenting, level) -/
theorem ind_eta (ind : Ind) : ind = ⟨!(!ind.first), ind.indenting, ind.level⟩ := by cases ind; simp

/-- an object instance at level `L`: a line break when the CONTEXT indents (its own format is not consulted for that), the type name,
    the init hash between `(` and `)`; in alt mode one entry per line at level `L + 1`, the closing delimiter on its own line -/
def ppObj (f : Fmt) (L : Nat) (inh nested : Bool) (name : Str) (parts : List (Str × Str)) : Str :=
  (if inh && decide (L > 0) && nested then newLine L else []) ++ name ++ (['('] ++ (if f.alt then ['\n'] else []) ++
  (f.sep.getD [','] ++ (if f.alt then ['\n'] else [' '])).intercalate
    (parts.map (fun p => (if f.alt then spaces (2 * (L + 1)) else []) ++ p.1 ++ f.sep2.getD " => ".toList ++ p.2)) ++
  (if f.alt then newLine L else []) ++ [')'])

theorem hashAssembleD_paren_pp (f : Fmt) (L : Nat) (inh nested : Bool) (parts : List (Str × Str)) :
    hashAssembleD f ⟨!nested, inh, L⟩ true parts =
      ['('] ++ (if f.alt then ['\n'] else []) ++
      (f.sep.getD [','] ++ (if f.alt then ['\n'] else [' '])).intercalate
        (parts.map (fun p => (if f.alt then spaces (2 * (L + 1)) else []) ++ p.1 ++ f.sep2.getD " => ".toList ++ p.2)) ++
      (if f.alt then newLine L else []) ++ [')'] := by
  unfold hashAssembleD
  simp only [Ind.withIndenting, Ind.breaks, Ind.increase, Ind.padding, Bool.not_not, hashEntries_pad, newLine]
  cases f.alt <;> simp [List.append_assoc]

/-- **alt or not, arrays at level `L`** -/
theorem fmtX_array_pp {κ : Type} (ks : KeySys κ) (io : FloatIO) (m : GMap κ) (L : Nat) (inh nested : Bool) (vs : List XVal)
    (texts : List Str) (hl : isArrayLetter (getG ks m (.array vs)).f.letter = true)
    (hc : ChildrenTextX ks io m (cfOfG ks (getG ks m (.array vs))) ⟨false, (getG ks m (.array vs)).f.alt, L + 1⟩ vs texts) :
    fmtX ks io m ⟨!nested, inh, L⟩ (.array vs) = .text (ppArray (getG ks m (.array vs)).f L inh nested (partsOf vs texts)) := by
  rw [fmtX_array_assemble ks io m _ vs texts hl (by rw [arrayChildInd_eq]; exact hc), arrayAssemble_pp]

/-- **alt or not, hashes at level `L`** (letters h s p) -/
theorem fmtX_hash_pp {κ : Type} (ks : KeySys κ) (io : FloatIO) (m : GMap κ) (L : Nat) (inh nested : Bool) (es : List XEntry)
    (texts : List (Str × Str)) (hl : isHashLetter (getG ks m (.hash es)).f.letter = true)
    (hc : EntriesTextX ks io m (cfOfG ks (getG ks m (.hash es))) ⟨true, (getG ks m (.hash es)).f.alt, L + 1⟩ es texts) :
    fmtX ks io m ⟨!nested, inh, L⟩ (.hash es) = .text (ppHash (getG ks m (.hash es)).f L inh nested texts) := by
  rw [fmtX_hash_assemble ks io m _ es texts hl (by rw [hashChildInd_eq]; exact hc), hashAssemble_pp]

/-- **alt or not, object instances at level `L`** (letters h s p) -/
theorem fmtX_obj_pp {κ : Type} (ks : KeySys κ) (io : FloatIO) (m : GMap κ) (L : Nat) (inh nested : Bool) (name : Str)
    (es : List XEntry) (texts : List (Str × Str)) (hn : name ≠ []) (hl : isHashLetter (getG ks m (.obj name es)).f.letter = true)
    (hc : EntriesTextX ks io m (cfOfG ks (getG ks m (.obj name es))) ⟨true, (getG ks m (.obj name es)).f.alt, L + 1⟩ es texts) :
    fmtX ks io m ⟨!nested, inh, L⟩ (.obj name es) = .text (ppObj (getG ks m (.obj name es)).f L inh nested name texts) := by
  have hne : name.isEmpty = false := by cases name <;> simp at hn ⊢
  have hp := fmtPairsX_of_entries ks io m (cfOfG ks (getG ks m (.obj name es)))
    (hashChildInd (getG ks m (.obj name es)).f ⟨!nested, inh, L⟩) es texts (by rw [hashChildInd_eq]; exact hc)
  have hna : (getG ks m (.obj name es)).f.letter ≠ 'a' := by
    intro h; rw [h] at hl; simp [isHashLetter] at hl
  simp only [fmtX, hne, hna, if_false, hl, Bool.not_true, Bool.false_eq_true, hp, hashOf, Res.bind, hashAssembleD_paren_pp, ppObj,
    Ind.breaks, Ind.padding, newLine, Bool.not_not]

end Pcore.Format
