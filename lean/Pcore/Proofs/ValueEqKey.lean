import Pcore.Proofs.ValueEq
import Pcore.Proofs.ValueEqSort
import Mathlib.Data.List.Nodup
/-! Helper lemmas for C07: the key of a container element (`mk`, the marked key) is equal for two comparable values
    exactly when they are equal — by structural induction, decoding the length-prefixed frames. -/
namespace Pcore.ValueEq

/-- the marked key: what `appendElementKey` frames -/
def mk (v : Val) : Bytes := mark v ++ kb v

/-- the key of an entry inside `Hash.ToKey` (before framing): the key of the array `[k, v]` -/
def ekey (e : Val × Val) : Bytes := [0, 0x41] ++ (frame (mk e.1) ++ (frame (mk e.2) ++ []))

theorem kbL_eq : ∀ vs : List Val, kbL vs = flat ((vs.map mk).map frame)
  | [] => rfl
  | v :: vs => by simp [kbL, flat, mk, kbL_eq vs]

theorem kbE_eq : ∀ es : List (Val × Val), kbE es = es.map (fun e => frame (ekey e))
  | [] => rfl
  | (k, v) :: es => by simp [kbE, ekey, mk, kbE_eq es]

theorem kb_elems {x : Val} {vs : List Val} (hx : elems x = some vs) : mk x = [0, 0x41] ++ kbL vs := by
  cases x <;> simp [elems] at hx <;> subst hx <;> simp [mk, mark, kb, kbL]

/-! ### the types that occur in a value -/

mutual
def typesIn : Val → List Ty
  | .typ t => [t]
  | .array vs => typesInL vs
  | .hash es => typesInE es
  | .entry k v => typesIn k ++ typesIn v
  | .sensitive v => typesIn v
  | .deferred _ as => typesInL as
  | .param _ t _ v _ => t :: typesIn v
  | .obj _ vs => typesInL vs
  | _ => []
def typesInL : List Val → List Ty
  | [] => []
  | v :: vs => typesIn v ++ typesInL vs
def typesInE : List (Val × Val) → List Ty
  | [] => []
  | (k, v) :: es => typesIn k ++ typesIn v ++ typesInE es
end

/-- any type inside `x` and any type inside `y` that are equal have the same key.  This excludes exactly the known
    finding C07-type-member-order (`Variant`/`Enum` equality ignores member order, their keys do not). -/
def TypeKeysAgree (x y : Val) : Prop := ∀ a ∈ typesIn x, ∀ b ∈ typesIn y, tyEq a b = true → tyKey a = tyKey b

theorem typesInL_mem : ∀ {vs : List Val} {v : Val}, v ∈ vs → typesIn v ⊆ typesInL vs
  | [], _, h => by simp at h
  | w :: ws, v, h => by
      simp only [typesInL]
      rcases List.mem_cons.mp h with e | h
      · rw [e]; exact List.subset_append_left _ _
      · exact fun a ha => List.mem_append_right _ (typesInL_mem h ha)

theorem typesInE_mem : ∀ {es : List (Val × Val)} {e : Val × Val}, e ∈ es →
    typesIn e.1 ⊆ typesInE es ∧ typesIn e.2 ⊆ typesInE es
  | [], _, h => by simp at h
  | (k, v) :: es, e, h => by
      simp only [typesInE]
      rcases List.mem_cons.mp h with e' | h
      · rw [e']
        exact ⟨fun a ha => List.mem_append_left _ (List.mem_append_left _ ha),
          fun a ha => List.mem_append_left _ (List.mem_append_right _ ha)⟩
      · exact ⟨fun a ha => List.mem_append_right _ ((typesInE_mem h).1 ha),
          fun a ha => List.mem_append_right _ ((typesInE_mem h).2 ha)⟩

theorem typesIn_elems {x : Val} {vs : List Val} (hx : elems x = some vs) : typesIn x = typesInL vs := by
  cases x <;> simp [elems] at hx <;> subst hx <;> simp [typesIn, typesInL]

theorem TypeKeysAgree.mono {x y x' y' : Val} (h : TypeKeysAgree x y) (hx : typesIn x' ⊆ typesIn x)
    (hy : typesIn y' ⊆ typesIn y) : TypeKeysAgree x' y' :=
  fun a ha b hb => h a (hx ha) b (hy hb)

/-! ### kinds: the two leading bytes of a marked key -/

def kind : Val → Nat
  | .undef => 0 | .dflt => 1 | .bool _ => 2 | .int _ => 3 | .float _ => 4 | .str _ => 5 | .regexp _ => 6
  | .binary _ => 7 | .array _ => 8 | .entry _ _ => 8 | .hash _ => 9 | .typ _ => 10 | .timespan _ => 11
  | .timestamp _ _ => 12 | .uri _ => 13 | .semver _ => 14 | .vrange _ _ => 15
  | .sensitive _ => 16 | .tname _ _ _ => 16 | .deferred _ _ => 16 | .param _ _ _ _ _ => 16 | .obj _ _ => 16

def kindHead : Nat → Bytes
  | 0 => [1, 0x75] | 1 => [1, 0x64] | 2 => [1, 0x62] | 3 => [1, 0x69] | 4 => [1, 0x66] | 5 => [1, 0x73]
  | 6 => [1, 0x72] | 7 => [0, 0x42] | 8 => [0, 0x41] | 9 => [0, 0x48] | 10 => [1, 0x74] | 11 => [1, 0x44]
  | 12 => [1, 0x54] | 13 => [1, 0x55] | 14 => [1, 0x76] | 15 => [1, 0x52] | _ => []

theorem tyKey_head (t : Ty) : ∃ r, tyKey t = 1 :: 0x74 :: r := by
  cases t with
  | callable h ts hr r hb b => simp [tyKey]
  | _ => simp [tyKey, rxTyKey]

theorem mk_head (x : Val) (h : cmp x = true) : ∃ r, mk x = kindHead (kind x) ++ r := by
  cases x <;> simp [mk, mark, kb, kind, kindHead, undefKey, defaultKey, boolKey, intKey, floatKey, strMark, timespanKey, timestampKey]
  exact tyKey_head _

theorem veq_kind {x y : Val} (h : kind x ≠ kind y) : veq x y = false := by
  cases x <;> cases y <;> simp [kind] at h <;> simp [veq]

theorem kindHead_inj : ∀ a, a < 16 → ∀ b, b < 16 → kindHead a = kindHead b → a = b := by decide

theorem kindHead_length : ∀ a, a < 16 → (kindHead a).length = 2 := by decide

theorem kind_lt {x : Val} (cx : cmp x = true) : kind x < 16 := by
  cases x <;> simp [kind] <;> simp [cmp] at cx

theorem mk_kind {x y : Val} (cx : cmp x = true) (cy : cmp y = true) (h : kind x ≠ kind y) : mk x ≠ mk y := by
  obtain ⟨r, hr⟩ := mk_head x cx
  obtain ⟨r', hr'⟩ := mk_head y cy
  rw [hr, hr']
  intro he
  have := List.append_inj he (by rw [kindHead_length _ (kind_lt cx), kindHead_length _ (kind_lt cy)])
  exact h (kindHead_inj _ (kind_lt cx) _ (kind_lt cy) this.1)

/-- a marked key determines the raw key: the marker cannot be confused with the head of another kind -/
theorem kb_of_mk {x y : Val} (cx : cmp x = true) (cy : cmp y = true) (h : mk x = mk y) : kb x = kb y := by
  have hk : kind x = kind y := Classical.byContradiction fun hk => mk_kind cx cy hk h
  cases x <;> cases y <;> simp [kind] at hk <;> simpa [mk, mark, strMark] using h

/-! ### leaf payloads -/

theorem intKey_iff {i j : Int} (hi : cmp (.int i) = true) (hj : cmp (.int j) = true) : intKey i = intKey j ↔ i = j := by
  simp only [cmp, Bool.and_eq_true, decide_eq_true_eq] at hi hj
  constructor
  · intro h
    simp only [intKey, List.append_cancel_left_eq] at h
    exact u64OfInt_inj hi hj (be64_inj (u64OfInt_lt i) (u64OfInt_lt j) h)
  · intro h; rw [h]

theorem floatKey_iff {a b : Nat} (ha : cmp (.float a) = true) (hb : cmp (.float b) = true) :
    floatKey a = floatKey b ↔ feq a b = true := by
  simp only [cmp, Bool.and_eq_true, decide_eq_true_eq, Bool.not_eq_true'] at ha hb
  have key : fnorm a = fnorm b ↔ feq a b = true := by
    simp only [feq, fnorm, fIsZero, ha.2, hb.2, Bool.not_false, Bool.true_and, Bool.or_eq_true, beq_iff_eq,
      Bool.and_eq_true]
    split <;> split <;> omega
  rw [← key]
  constructor
  · intro h
    simp only [floatKey, List.append_cancel_left_eq] at h
    refine be64_inj ?_ ?_ h <;> (simp only [fnorm]; split <;> omega)
  · intro h; simp [floatKey, h]

theorem tsSecs_range {n : Int} (h1 : minInt ≤ n) (h2 : n ≤ maxInt) : minInt ≤ tsSecs n ∧ tsSecs n ≤ maxInt := by
  unfold tsSecs minInt maxInt at *
  by_cases h : 0 ≤ n
  · rw [Int.tdiv_eq_ediv_of_nonneg h]; omega
  · have e : n = -(-n) := by omega
    rw [e, Int.neg_tdiv, Int.tdiv_eq_ediv_of_nonneg (by omega)]
    omega

theorem timespanKey_iff {a b : Int} (ha : cmp (.timespan a) = true) (hb : cmp (.timespan b) = true) :
    timespanKey a = timespanKey b ↔ tsSecs a = tsSecs b := by
  simp only [cmp, Bool.and_eq_true, decide_eq_true_eq] at ha hb
  have ra := tsSecs_range ha.1 ha.2
  have rb := tsSecs_range hb.1 hb.2
  constructor
  · intro h
    simp only [timespanKey, List.append_cancel_left_eq] at h
    exact u64OfInt_inj ra rb (be64_inj (u64OfInt_lt _) (u64OfInt_lt _) h)
  · intro h; simp [timespanKey, h]

theorem timestampKey_iff {a b a' b' : Int} (h1 : cmp (.timestamp a b) = true) (h2 : cmp (.timestamp a' b') = true) :
    timestampKey a b = timestampKey a' b' ↔ a = a' ∧ b = b' := by
  simp only [cmp, Bool.and_eq_true, decide_eq_true_eq] at h1 h2
  constructor
  · intro h
    simp only [timestampKey, List.append_cancel_left_eq] at h
    have := List.append_inj h (by simp [be64_length])
    exact ⟨u64OfInt_inj h1.1 h2.1 (be64_inj (u64OfInt_lt _) (u64OfInt_lt _) this.1),
      u64OfInt_inj h1.2 h2.2 (be64_inj (u64OfInt_lt _) (u64OfInt_lt _) this.2)⟩
  · rintro ⟨rfl, rfl⟩; rfl

/-! ### the induction -/

theorem map_mk_iff : ∀ {vs ws : List Val},
    (∀ v ∈ vs, ∀ w ∈ ws, (mk v = mk w ↔ veq v w = true)) →
    (vs.map mk = ws.map mk ↔ vs.length = ws.length ∧ veqL vs ws = true)
  | [], [], _ => by simp [veqL]
  | [], _ :: _, _ => by simp
  | _ :: _, [], _ => by simp
  | v :: vs, w :: ws, ih => by
      simp only [List.map_cons, List.cons.injEq, List.length_cons, veqL, Bool.and_eq_true,
        ih v List.mem_cons_self w List.mem_cons_self,
        map_mk_iff (fun v' hv w' hw => ih v' (List.mem_cons_of_mem _ hv) w' (List.mem_cons_of_mem _ hw))]
      constructor
      · rintro ⟨h1, h2, h3⟩; exact ⟨by omega, h1, h3⟩
      · rintro ⟨h1, h2, h3⟩; exact ⟨h2, by omega, h3⟩

theorem kind_elems {x : Val} {vs : List Val} (hx : elems x = some vs) : kind x = 8 := by
  cases x <;> simp [elems] at hx <;> rfl

theorem ekey_inj {e e' : Val × Val} (h : ekey e = ekey e') : mk e.1 = mk e'.1 ∧ mk e.2 = mk e'.2 := by
  simp only [ekey, List.append_cancel_left_eq] at h
  have h1 := frame_decode h
  have h2 := frame_decode h1.2
  exact ⟨h1.1, h2.1⟩

theorem kbE_nodup {es : List (Val × Val)} (hc : cmpE es = true) (hd : (keysOf es).Nodup) : (kbE es).Nodup := by
  rw [kbE_eq]
  refine List.Nodup.map_on ?_ (List.Nodup.of_map _ hd)
  intro e he e' he' h
  have h1 := (ekey_inj (frame_inj h)).1
  have h2 := kb_of_mk (cmpE_mem hc e he).1 (cmpE_mem hc e' he').1 h1
  exact List.inj_on_of_nodup_map hd he he' h2

theorem mk_iff (hT : ∀ a b, TyWF a = true → TyWF b = true → tyKey a = tyKey b → tyEq a b = true) :
    ∀ x y : Val, cmp x = true → cmp y = true → TypeKeysAgree x y → (mk x = mk y ↔ veq x y = true) := by
  have other : ∀ x y : Val, cmp x = true → cmp y = true → kind x ≠ kind y → (mk x = mk y ↔ veq x y = true) := by
    intro x y cx cy hk
    simp [veq_kind hk, mk_kind cx cy hk]
  have seq : ∀ (x : Val) (vs : List Val), elems x = some vs →
      (∀ v ∈ vs, ∀ y, cmp v = true → cmp y = true → TypeKeysAgree v y → (mk v = mk y ↔ veq v y = true)) →
      ∀ y, cmp x = true → cmp y = true → TypeKeysAgree x y → (mk x = mk y ↔ veq x y = true) := by
    intro x vs hx ih y cx cy tka
    by_cases hk : kind x = kind y
    swap
    · exact other x y cx cy hk
    · rw [kind_elems hx] at hk
      have : ∃ ws, elems y = some ws := by cases y <;> simp [kind] at hk <;> simp [elems]
      obtain ⟨ws, hy⟩ := this
      rw [kb_elems hx, kb_elems hy, veq_elems hx hy, List.append_cancel_left_eq, kbL_eq, kbL_eq]
      rw [cmp_elems hx] at cx
      rw [cmp_elems hy] at cy
      have tka' : ∀ v ∈ vs, ∀ w ∈ ws, TypeKeysAgree v w := fun v hv w hw =>
        tka.mono (typesIn_elems hx ▸ typesInL_mem hv) (typesIn_elems hy ▸ typesInL_mem hw)
      have := map_mk_iff (vs := vs) (ws := ws)
        (fun v hv w hw => ih v hv w (cmpL_mem cx v hv) (cmpL_mem cy w hw) (tka' v hv w hw))
      simp only [Bool.and_eq_true, beq_iff_eq, ← this]
      exact ⟨flat_frames_inj _ _, fun h => by rw [h]⟩
  apply Val.ind
  · intro y cx cy _
    cases y with
    | undef => simp [veq]
    | _ => exact other _ _ cx cy (by simp [kind])
  · intro y cx cy _
    cases y with
    | dflt => simp [veq]
    | _ => exact other _ _ cx cy (by simp [kind])
  · intro b y cx cy _
    cases y with
    | bool b' => cases b <;> cases b' <;> simp [mk, mark, kb, boolKey, veq]
    | _ => exact other _ _ cx cy (by simp [kind])
  · intro i y cx cy _
    cases y with
    | int j => simp [mk, mark, kb, veq, intKey_iff cx cy]
    | _ => exact other _ _ cx cy (by simp [kind])
  · intro b y cx cy _
    cases y with
    | float b' => simp [mk, mark, kb, veq, floatKey_iff cx cy]
    | _ => exact other _ _ cx cy (by simp [kind])
  · intro s y cx cy _
    cases y with
    | str s' => simp [mk, mark, kb, veq]
    | _ => exact other _ _ cx cy (by simp [kind])
  · intro s y cx cy _
    cases y with
    | regexp s' => simp [mk, mark, kb, veq]
    | _ => exact other _ _ cx cy (by simp [kind])
  · intro s y cx cy _
    cases y with
    | binary s' => simp [mk, mark, kb, veq]
    | _ => exact other _ _ cx cy (by simp [kind])
  · intro vs ih; exact seq (.array vs) vs rfl ih
  · intro es ih y cx cy tka
    by_cases hk : kind (.hash es) = kind y
    swap; exact other _ y cx cy hk
    have : ∃ fs, y = .hash fs := by cases y <;> simp [kind] at hk; exact ⟨_, rfl⟩
    obtain ⟨fs, rfl⟩ := this
    obtain ⟨hc, hd⟩ := cmp_hash cx
    obtain ⟨hc', hd'⟩ := cmp_hash cy
    have tka' : ∀ e ∈ es, ∀ e' ∈ fs, TypeKeysAgree e.1 e'.1 ∧ TypeKeysAgree e.2 e'.2 := fun e he e' he' =>
      ⟨tka.mono (typesInE_mem he).1 (typesInE_mem he').1, tka.mono (typesInE_mem he).2 (typesInE_mem he').2⟩
    have ihe : ∀ e ∈ es, ∀ e' ∈ fs, (mk e.1 = mk e'.1 ↔ veq e.1 e'.1 = true) ∧ (mk e.2 = mk e'.2 ↔ veq e.2 e'.2 = true) :=
      fun e he e' he' =>
        ⟨(ih e he).1 e'.1 (cmpE_mem hc e he).1 (cmpE_mem hc' e' he').1 (tka' e he e' he').1,
         (ih e he).2 e'.2 (cmpE_mem hc e he).2 (cmpE_mem hc' e' he').2 (tka' e he e' he').2⟩
    have frames : ∀ gs : List (Val × Val), ∀ a ∈ sortB (kbE gs), ∃ x, a = frame x := by
      intro gs a ha
      have := (sortB_perm _).subset ha
      rw [kbE_eq] at this
      obtain ⟨e, _, rfl⟩ := List.mem_map.mp this
      exact ⟨_, rfl⟩
    have step1 : mk (.hash es) = mk (.hash fs) ↔ (kbE es).Perm (kbE fs) := by
      simp only [mk, mark, kb, List.nil_append, List.append_cancel_left_eq]
      rw [← sortB_eq_iff]
      exact ⟨flat_inj_of_frames _ _ (frames es) (frames fs), fun h => by rw [h]⟩
    rw [step1]
    simp only [veq, Bool.and_eq_true, beq_iff_eq]
    rw [veqE_iff hd]
    constructor
    · intro hp
      have hl : es.length = fs.length := by
        have := hp.length_eq
        simpa [kbE_eq] using this
      refine ⟨hl, fun e he => ?_⟩
      have : frame (ekey e) ∈ kbE fs := hp.subset (by rw [kbE_eq]; exact List.mem_map.mpr ⟨e, he, rfl⟩)
      rw [kbE_eq] at this
      obtain ⟨e', he', h⟩ := List.mem_map.mp this
      have hm := ekey_inj (frame_inj h.symm)
      refine ⟨e', ?_, (ihe e he e' he').1.mp hm.1, (ihe e he e' he').2.mp hm.2⟩
      rw [kb_of_mk (cmpE_mem hc e he).1 (cmpE_mem hc' e' he').1 hm.1]
      exact lookupLast_mem hd' he'
    · rintro ⟨hl, h⟩
      have sub : kbE es ⊆ kbE fs := by
        intro a ha
        rw [kbE_eq] at ha ⊢
        obtain ⟨e, he, rfl⟩ := List.mem_map.mp ha
        obtain ⟨e', h1, h2, h3⟩ := h e he
        have he' := (lookupLast_some h1).1
        refine List.mem_map.mpr ⟨e', he', ?_⟩
        simp only [ekey, (ihe e he e' he').1.mpr h2, (ihe e he e' he').2.mpr h3]
      exact (List.subperm_of_subset (kbE_nodup hc hd) sub).perm_of_length_le (by simp [kbE_eq, hl])
  · intro k v ihk ihv
    refine seq (.entry k v) [k, v] rfl ?_
    intro w hw
    simp only [List.mem_cons, List.not_mem_nil, or_false] at hw
    rcases hw with e | e
    · rw [e]; exact ihk
    · rw [e]; exact ihv
  · intro v _ y h; simp [cmp] at h
  · intro t y cx cy tka
    by_cases hk : kind (.typ t) = kind y
    swap; exact other _ y cx cy hk
    have : ∃ t', y = .typ t' := by cases y <;> simp [kind] at hk; exact ⟨_, rfl⟩
    obtain ⟨t', rfl⟩ := this
    simp only [mk, mark, kb, List.nil_append, veq]
    simp only [cmp] at cx cy
    exact ⟨hT t t' cx cy, tka t (by simp [typesIn]) t' (by simp [typesIn])⟩
  · intro n y cx cy _
    cases y with
    | timespan m => simp [mk, mark, kb, veq, timespanKey_iff cx cy]
    | _ => exact other _ _ cx cy (by simp [kind])
  · intro a b y cx cy _
    cases y with
    | timestamp a' b' => simp [mk, mark, kb, veq, timestampKey_iff cx cy]
    | _ => exact other _ _ cx cy (by simp [kind])
  · intro s y cx cy _
    cases y with
    | uri s' => simp [mk, mark, kb, veq]
    | _ => exact other _ _ cx cy (by simp [kind])
  · intro v y cx cy _
    cases y with
    | semver w =>
      simp only [cmp] at cx cy
      simp [mk, mark, kb, veq, verStr_iff cx cy]
    | _ => exact other _ _ cx cy (by simp [kind])
  · intro o rs y cx cy _
    cases y with
    | vrange o' rs' =>
      simp only [cmp, List.all_eq_true] at cx cy
      simp [mk, mark, kb, veq, normStr_iff cx cy]
    | _ => exact other _ _ cx cy (by simp [kind])
  · intro a n m y cx; simp [cmp] at cx
  · intro n as _ y cx; simp [cmp] at cx
  · intro n t hv v c _ y cx; simp [cmp] at cx
  · intro t vs _ y cx; simp [cmp] at cx

/-! ### the direction that needs no hypothesis about types: equal keys ⇒ equal values -/

theorem map_mk_imp : ∀ {vs ws : List Val},
    (∀ v ∈ vs, ∀ w ∈ ws, mk v = mk w → veq v w = true) →
    vs.map mk = ws.map mk → vs.length = ws.length ∧ veqL vs ws = true
  | [], [], _, _ => by simp [veqL]
  | [], _ :: _, _, h => by simp at h
  | _ :: _, [], _, h => by simp at h
  | v :: vs, w :: ws, ih, h => by
      simp only [List.map_cons, List.cons.injEq] at h
      have r := map_mk_imp (fun v' hv w' hw => ih v' (List.mem_cons_of_mem _ hv) w' (List.mem_cons_of_mem _ hw)) h.2
      simp only [List.length_cons, veqL, Bool.and_eq_true]
      exact ⟨by omega, ih v List.mem_cons_self w List.mem_cons_self h.1, r.2⟩

theorem mk_imp (hT : ∀ a b, TyWF a = true → TyWF b = true → tyKey a = tyKey b → tyEq a b = true) :
    ∀ x y : Val, cmp x = true → cmp y = true → mk x = mk y → veq x y = true := by
  have leaf : ∀ x y : Val, typesIn x = [] → cmp x = true → cmp y = true → mk x = mk y → veq x y = true := by
    intro x y hx cx cy h
    exact (mk_iff hT x y cx cy (fun a ha => by rw [hx] at ha; cases ha)).mp h
  have seq : ∀ (x : Val) (vs : List Val), elems x = some vs →
      (∀ v ∈ vs, ∀ y, cmp v = true → cmp y = true → mk v = mk y → veq v y = true) →
      ∀ y, cmp x = true → cmp y = true → mk x = mk y → veq x y = true := by
    intro x vs hx ih y cx cy h
    have hk : kind x = kind y := Classical.byContradiction fun hk => mk_kind cx cy hk h
    rw [kind_elems hx] at hk
    have : ∃ ws, elems y = some ws := by cases y <;> simp [kind] at hk <;> simp [elems]
    obtain ⟨ws, hy⟩ := this
    rw [kb_elems hx, kb_elems hy, List.append_cancel_left_eq, kbL_eq, kbL_eq] at h
    rw [veq_elems hx hy]
    rw [cmp_elems hx] at cx
    rw [cmp_elems hy] at cy
    have := map_mk_imp (vs := vs) (ws := ws)
      (fun v hv w hw => ih v hv w (cmpL_mem cx v hv) (cmpL_mem cy w hw)) (flat_frames_inj _ _ h)
    simp [this.1, this.2]
  apply Val.ind
  · intro y; exact leaf _ y rfl
  · intro y; exact leaf _ y rfl
  · intro b y; exact leaf _ y rfl
  · intro i y; exact leaf _ y rfl
  · intro b y; exact leaf _ y rfl
  · intro s y; exact leaf _ y rfl
  · intro s y; exact leaf _ y rfl
  · intro s y; exact leaf _ y rfl
  · intro vs ih; exact seq (.array vs) vs rfl ih
  · intro es ih y cx cy h
    have hk : kind (.hash es) = kind y := Classical.byContradiction fun hk => mk_kind cx cy hk h
    have : ∃ fs, y = .hash fs := by cases y <;> simp [kind] at hk; exact ⟨_, rfl⟩
    obtain ⟨fs, rfl⟩ := this
    obtain ⟨hc, hd⟩ := cmp_hash cx
    obtain ⟨hc', hd'⟩ := cmp_hash cy
    have frames : ∀ gs : List (Val × Val), ∀ a ∈ sortB (kbE gs), ∃ x, a = frame x := by
      intro gs a ha
      have := (sortB_perm _).subset ha
      rw [kbE_eq] at this
      obtain ⟨e, _, rfl⟩ := List.mem_map.mp this
      exact ⟨_, rfl⟩
    simp only [mk, mark, kb, List.nil_append, List.append_cancel_left_eq] at h
    have hp : (kbE es).Perm (kbE fs) :=
      (sortB_eq_iff _ _).mp (flat_inj_of_frames _ _ (frames es) (frames fs) h)
    simp only [veq, Bool.and_eq_true, beq_iff_eq]
    rw [veqE_iff hd]
    have hl : es.length = fs.length := by
      have := hp.length_eq
      simpa [kbE_eq] using this
    refine ⟨hl, fun e he => ?_⟩
    have : frame (ekey e) ∈ kbE fs := hp.subset (by rw [kbE_eq]; exact List.mem_map.mpr ⟨e, he, rfl⟩)
    rw [kbE_eq] at this
    obtain ⟨e', he', h'⟩ := List.mem_map.mp this
    have hm := ekey_inj (frame_inj h'.symm)
    refine ⟨e', ?_, (ih e he).1 e'.1 (cmpE_mem hc e he).1 (cmpE_mem hc' e' he').1 hm.1,
      (ih e he).2 e'.2 (cmpE_mem hc e he).2 (cmpE_mem hc' e' he').2 hm.2⟩
    rw [kb_of_mk (cmpE_mem hc e he).1 (cmpE_mem hc' e' he').1 hm.1]
    exact lookupLast_mem hd' he'
  · intro k v ihk ihv
    refine seq (.entry k v) [k, v] rfl ?_
    intro w hw
    simp only [List.mem_cons, List.not_mem_nil, or_false] at hw
    rcases hw with e | e
    · rw [e]; exact ihk
    · rw [e]; exact ihv
  · intro v _ y h; simp [cmp] at h
  · intro t y cx cy h
    have hk : kind (.typ t) = kind y := Classical.byContradiction fun hk => mk_kind cx cy hk h
    have : ∃ t', y = .typ t' := by cases y <;> simp [kind] at hk; exact ⟨_, rfl⟩
    obtain ⟨t', rfl⟩ := this
    simp only [mk, mark, kb, List.nil_append] at h
    simp only [cmp] at cx cy
    simp only [veq]
    exact hT t t' cx cy h
  · intro n y; exact leaf _ y rfl
  · intro a b y; exact leaf _ y rfl
  · intro s y; exact leaf _ y rfl
  · intro v y; exact leaf _ y rfl
  · intro o rs y; exact leaf _ y rfl
  · intro a n m y cx; simp [cmp] at cx
  · intro n as _ y cx; simp [cmp] at cx
  · intro n t hv v c _ y cx; simp [cmp] at cx
  · intro t vs _ y cx; simp [cmp] at cx

/-! ### top level: `px.ToKey` -/

def isStr : Val → Bool
  | .str _ => true
  | _ => false

/-- `TopSafe x y` excludes exactly the known finding C07-raw-string-key: one of the two is a string (keyed, at top level,
    by its raw bytes) and the other is not a string but has exactly those bytes as its key -/
def TopSafe (x y : Val) : Prop :=
  (∀ s, x = .str s → isStr y = false → kb y ≠ s) ∧ (∀ s, y = .str s → isStr x = false → kb x ≠ s)

theorem mk_of_not_str {x : Val} (h : isStr x = false) : mk x = kb x := by
  cases x <;> simp [isStr] at h <;> simp [mk, mark]

theorem veq_str_other {s : Bytes} {y : Val} (h : isStr y = false) : veq (.str s) y = false ∧ veq y (.str s) = false := by
  cases y <;> simp [isStr] at h <;> simp [veq]

theorem kb_iff (hT : ∀ a b, TyWF a = true → TyWF b = true → tyKey a = tyKey b → tyEq a b = true)
    (x y : Val) (cx : cmp x = true) (cy : cmp y = true) (ts : TopSafe x y) (tka : TypeKeysAgree x y) :
    kb x = kb y ↔ veq x y = true := by
  cases hx : isStr x <;> cases hy : isStr y
  · rw [← mk_of_not_str hx, ← mk_of_not_str hy]; exact mk_iff hT x y cx cy tka
  · obtain ⟨s, rfl⟩ : ∃ s, y = .str s := by cases y <;> simp [isStr] at hy; exact ⟨_, rfl⟩
    rw [(veq_str_other hx).2]
    simp only [kb, Bool.false_eq_true, iff_false]
    exact ts.2 s rfl hx
  · obtain ⟨s, rfl⟩ : ∃ s, x = .str s := by cases x <;> simp [isStr] at hx; exact ⟨_, rfl⟩
    rw [(veq_str_other hy).1]
    simp only [kb, Bool.false_eq_true, iff_false]
    exact fun h => ts.1 s rfl hy h.symm
  · obtain ⟨s, rfl⟩ : ∃ s, x = .str s := by cases x <;> simp [isStr] at hx; exact ⟨_, rfl⟩
    obtain ⟨s', rfl⟩ : ∃ s, y = .str s := by cases y <;> simp [isStr] at hy; exact ⟨_, rfl⟩
    simp [kb, veq]

theorem kb_imp (hT : ∀ a b, TyWF a = true → TyWF b = true → tyKey a = tyKey b → tyEq a b = true)
    (x y : Val) (cx : cmp x = true) (cy : cmp y = true) (ts : TopSafe x y) (h : kb x = kb y) : veq x y = true := by
  cases hx : isStr x <;> cases hy : isStr y
  · rw [← mk_of_not_str hx, ← mk_of_not_str hy] at h; exact mk_imp hT x y cx cy h
  · obtain ⟨s, rfl⟩ : ∃ s, y = .str s := by cases y <;> simp [isStr] at hy; exact ⟨_, rfl⟩
    exact absurd h (ts.2 s rfl hx)
  · obtain ⟨s, rfl⟩ : ∃ s, x = .str s := by cases x <;> simp [isStr] at hx; exact ⟨_, rfl⟩
    exact absurd h.symm (ts.1 s rfl hy)
  · obtain ⟨s, rfl⟩ : ∃ s, x = .str s := by cases x <;> simp [isStr] at hx; exact ⟨_, rfl⟩
    obtain ⟨s', rfl⟩ : ∃ s, y = .str s := by cases y <;> simp [isStr] at hy; exact ⟨_, rfl⟩
    simpa [kb, veq] using h

theorem key_of_cmp {x : Val} (cx : cmp x = true) : key x = some (kb x) := by
  simp [key, keyable_of_cmp x cx]

/-! ### `Hash.Get` and `Unique` in terms of key bytes -/

theorem hashGet_isSome (es : List (Val × Val)) (k : Val) :
    (hashGet es k).isSome = true ↔ ∃ e ∈ es, kb e.1 = kb k := by
  unfold hashGet
  cases h : lookupLast (kb k) es with
  | none =>
    simp only [Option.map_none, Option.isSome_none, Bool.false_eq_true, false_iff, not_exists, not_and]
    exact fun e he => lookupLast_none h e he
  | some r =>
    simp only [Option.map_some, Option.isSome_some, true_iff]
    exact ⟨r, (lookupLast_some h).1, (lookupLast_some h).2⟩

theorem hashGet_some {es : List (Val × Val)} {k v : Val} (h : hashGet es k = some v) :
    ∃ e ∈ es, kb e.1 = kb k ∧ e.2 = v := by
  unfold hashGet at h
  cases h' : lookupLast (kb k) es with
  | none => rw [h'] at h; cases h
  | some r =>
    rw [h'] at h
    simp only [Option.map_some, Option.some.injEq] at h
    exact ⟨r, (lookupLast_some h').1, (lookupLast_some h').2, h⟩

theorem uniqueAux_sublist : ∀ (seen : List Bytes) (vs : List Val), (uniqueAux seen vs).Sublist vs
  | _, [] => List.Sublist.slnil
  | seen, v :: vs => by
      simp only [uniqueAux]
      split
      · exact (uniqueAux_sublist seen vs).cons _
      · exact (uniqueAux_sublist _ vs).cons_cons _

theorem uniqueAux_cover : ∀ (seen : List Bytes) (vs : List Val), ∀ v ∈ vs,
    kb v ∈ seen ∨ ∃ u ∈ uniqueAux seen vs, kb u = kb v
  | _, [], _, h => by simp at h
  | seen, w :: ws, v, hv => by
      simp only [uniqueAux]
      rcases List.mem_cons.mp hv with e | hv
      · subst e
        split
        · rename_i h; left; simpa using h
        · right; exact ⟨v, List.mem_cons_self, rfl⟩
      · split
        · exact uniqueAux_cover seen ws v hv
        · rcases uniqueAux_cover (kb w :: seen) ws v hv with h | ⟨u, hu, h⟩
          · rcases List.mem_cons.mp h with e | h
            · right; exact ⟨w, List.mem_cons_self, e.symm⟩
            · left; exact h
          · right; exact ⟨u, List.mem_cons_of_mem _ hu, h⟩

theorem uniqueAux_distinct : ∀ (seen : List Bytes) (vs : List Val),
    (uniqueAux seen vs).Pairwise (fun a b => kb a ≠ kb b) ∧ ∀ u ∈ uniqueAux seen vs, kb u ∉ seen
  | _, [] => by simp [uniqueAux]
  | seen, w :: ws => by
      simp only [uniqueAux]
      split
      · exact uniqueAux_distinct seen ws
      · rename_i h
        have ih := uniqueAux_distinct (kb w :: seen) ws
        refine ⟨List.Pairwise.cons ?_ ih.1, ?_⟩
        · intro u hu e
          exact ih.2 u hu (by rw [← e]; exact List.mem_cons_self)
        · intro u hu
          rcases List.mem_cons.mp hu with e | hu
          · rw [e]; simpa using h
          · exact fun hm => ih.2 u hu (List.mem_cons_of_mem _ hm)

end Pcore.ValueEq
