import Pcore.Model.LexLoops
/-!
For ANY table accepted by `loopOK`, every iteration of the abstract loop that returns to the loop head has consumed a
character: the number of characters left is a strictly decreasing measure, so the loop terminates.
-/
namespace Pcore.LexLoops

theorem loopOK_progress (l : Loop) (h : loopOK l = true) (n n' : Nat) (hs : Step l n (some n')) : n' < n := by
  cases hs with
  | back c a consumed guarded ha ho hacc hreach _ hn =>
    simp only [loopOK, Bool.and_eq_true, List.all_eq_true] at h
    have harm := h.2 a ha
    have hout := harm.2 (.loop consumed guarded) ho
    simp only [Bool.and_eq_true, Bool.not_eq_true', Bool.and_eq_false_iff] at hout
    obtain ⟨⟨hc, he⟩, hr⟩ := hout
    have hchr : c = .chr := by
      cases c with
      | chr => rfl
      | eof => rcases he with he | he <;> simp_all
      | err => rcases hr with hr | hr <;> simp_all
    subst hchr
    have hpos : n ≠ 0 := fun h0 => hn h0 rfl
    simp [hc]
    omega

/-- hence no infinite run: from `n` characters at most `n` iterations return to the loop head -/
theorem loopOK_terminates (l : Loop) (h : loopOK l = true) :
    ∀ n, Acc (fun n' n => Step l n (some n')) n := by
  intro n
  induction n using Nat.strongRecOn with
  | _ n ih =>
    constructor
    intro n' hs
    exact ih n' (loopOK_progress l h n n' hs)

end Pcore.LexLoops
