import Pcore.Model.HashPool
import Pcore.Proofs.GoMap
import Pcore.Proofs.OMap
/-!
`types.Hash`: the invariant (no two equal keys; a cached index is the index of the entries), that the lazily
built index answers the position of every key, and the refinement of every operation to `OMap`.
-/
namespace Pcore.Coll
open OMap

variable {α β κ : Type} [DecidableEq κ]

/-- no two equal keys, and a cached index is the one `valueIndex()` builds from the entries -/
def HInv (key : α → κ) (h : Hash α β κ) : Prop :=
  (keys key h.entries).Nodup ∧ ∀ ix, h.index = some ix → ix = buildIndex key h.entries

theorem get_buildIndexFrom {key : α → κ} {es : List (α × β)} (hn : (keys key es).Nodup) (n : Nat)
    (m : List (κ × Nat)) (k : κ) :
    GoMap.get (buildIndexFrom key es n m) k = match idx key es k with
      | some i => some (n + i)
      | none => GoMap.get m k := by
  induction es generalizing n m with
  | nil => simp [buildIndexFrom, idx]
  | cons e es ih =>
    have hn' : key e.1 ∉ keys key es ∧ (keys key es).Nodup := by simpa [keys] using hn
    rw [buildIndexFrom, ih hn'.2]
    by_cases h : key e.1 = k
    · subst h
      simp [idx, idx_eq_none.mpr hn'.1, GoMap.get_set]
    · simp only [idx, h, if_false, GoMap.get_set]
      cases idx key es k with
      | none => simp
      | some i => simp; omega

/-- with unique keys the index `valueIndex()` builds answers exactly the position of every key -/
theorem get_buildIndex {key : α → κ} {es : List (α × β)} (hn : (keys key es).Nodup) (k : κ) :
    GoMap.get (buildIndex key es) k = idx key es k := by
  rw [buildIndex, get_buildIndexFrom hn]
  cases idx key es k <;> simp [GoMap.get]

theorem HInv.wrap {key : α → κ} {es : List (α × β)} (hn : (keys key es).Nodup) :
    HInv key (Hash.wrap es : Hash α β κ) := ⟨hn, by simp [Hash.wrap]⟩

theorem HInv.valueIndex {key : α → κ} {h : Hash α β κ} (hi : HInv key h) :
    (h.valueIndex key).1.entries = h.entries ∧ HInv key (h.valueIndex key).1 ∧
      ∀ k, GoMap.get (h.valueIndex key).2 k = idx key h.entries k := by
  unfold Hash.valueIndex
  cases hx : h.index with
  | some ix =>
    refine ⟨rfl, hi, fun k => ?_⟩
    simp only [hi.2 ix hx]; exact get_buildIndex hi.1 k
  | none =>
    refine ⟨rfl, ⟨hi.1, ?_⟩, fun k => get_buildIndex hi.1 k⟩
    intro ix h'; simp at h'; exact h'.symm

/-! ### Delete -/

theorem HInv.delete {key : α → κ} {h : Hash α β κ} (hi : HInv key h) (k : α) :
    ∃ n, h.delete key k = ((h.valueIndex key).1, some n) ∧
      n.entries = OMap.delete key h.entries (key k) ∧ HInv key n := by
  obtain ⟨he, hv, hg⟩ := hi.valueIndex
  unfold Hash.delete
  simp only [hg]
  cases hx : idx key h.entries (key k) with
  | none => exact ⟨_, rfl, by rw [he, delete_of_idx_none hx], hv⟩
  | some i =>
    have hlt := idx_lt hx
    simp only [hlt, if_true]
    refine ⟨_, rfl, ?_, ?_⟩
    · simp [Hash.wrap, delete_of_idx_some hi.1 hx, List.eraseIdx_eq_take_drop_succ]
    · apply HInv.wrap
      rw [← List.eraseIdx_eq_take_drop_succ, ← delete_of_idx_some hi.1 hx]
      exact nodup_delete hi.1 _

/-! ### DeleteAll -/

omit [DecidableEq κ] in
theorem dropIdx_eq_filter (key : α → κ) (del : List Nat) (P : κ → Bool) (s : List (α × β)) (n : Nat)
    (h : ∀ j (hj : j < s.length), del.contains (n + j) = P (key s[j].1)) :
    Hash.dropIdx del s n = s.filter (fun e => !P (key e.1)) := by
  induction s generalizing n with
  | nil => simp [Hash.dropIdx]
  | cons e es ih =>
    have h0 := h 0 (by simp)
    simp only [Nat.add_zero, List.getElem_cons_zero] at h0
    have ih' := ih (n + 1) (fun j hj => by
      have := h (j + 1) (by simpa using hj)
      simpa [Nat.add_assoc, Nat.add_comm 1 j] using this)
    simp only [Hash.dropIdx, h0, ih', List.filter_cons]
    cases P (key e.1) <;> simp

theorem deleted_contains {key : α → κ} {es : List (α × β)} (hn : (keys key es).Nodup) (ks : List α) (j : Nat)
    (hj : j < es.length) :
    (ks.filterMap (fun k => idx key es (key k))).contains j = (ks.map key).contains (key es[j].1) := by
  rw [Bool.eq_iff_iff]
  simp only [List.contains_iff_mem, List.mem_filterMap, List.mem_map]
  constructor
  · rintro ⟨k, hk, hx⟩
    have := idx_key hx
    simp [hj] at this
    exact ⟨k, hk, this.symm⟩
  · rintro ⟨k, hk, hx⟩
    refine ⟨k, hk, ?_⟩
    rw [idx_iff hn]; simp [hj, hx]

theorem HInv.deleteAll {key : α → κ} {h : Hash α β κ} (hi : HInv key h) (ks : List α) :
    (h.deleteAll key ks).1 = (h.valueIndex key).1 ∧
      (h.deleteAll key ks).2.entries = OMap.deleteAll key h.entries (ks.map key) ∧
      HInv key (h.deleteAll key ks).2 := by
  obtain ⟨he, hv, hg⟩ := hi.valueIndex
  have hfil : ∀ del, del = ks.filterMap (fun k => idx key h.entries (key k)) →
      Hash.dropIdx del h.entries 0 = OMap.deleteAll key h.entries (ks.map key) := by
    intro del hd
    rw [OMap.deleteAll]
    apply dropIdx_eq_filter key del (fun x => (ks.map key).contains x)
    intro j hj
    rw [hd, Nat.zero_add]; exact deleted_contains hi.1 ks j hj
  unfold Hash.deleteAll
  simp only [hg]
  by_cases hemp : (ks.filterMap (fun k => idx key h.entries (key k))).isEmpty = true
  · simp only [hemp, if_true]
    refine ⟨trivial, ?_, hv⟩
    rw [he, ← hfil _ rfl]
    have : ks.filterMap (fun k => idx key h.entries (key k)) = [] := by simpa using hemp
    rw [this]
    have hd : ∀ (s : List (α × β)) n, Hash.dropIdx [] s n = s := by
      intro s; induction s with
      | nil => simp [Hash.dropIdx]
      | cons e es ih => intro n; simp [Hash.dropIdx, ih]
    exact (hd _ _).symm
  · simp only [hemp, if_false, Bool.false_eq_true]
    refine ⟨trivial, by simpa [Hash.wrap] using hfil _ rfl, ?_⟩
    apply HInv.wrap
    rw [hfil _ rfl]; exact nodup_deleteAll hi.1 _

/-! ### Merge -/

theorem mergeLoop_eq (key : α → κ) (ix : List (κ × Nat)) (all es : List (α × β))
    (hn : (keys key all).Nodup) (hes : (keys key es).Nodup)
    (hag : ∀ e ∈ es, GoMap.get ix (key e.1) = idx key all (key e.1)) :
    Hash.mergeLoop key ix all es = some (OMap.merge key all es) := by
  induction es generalizing all with
  | nil => simp [Hash.mergeLoop, OMap.merge]
  | cons e es ih =>
    have hes' : key e.1 ∉ keys key es ∧ (keys key es).Nodup := by simpa [keys] using hes
    have he := hag e (by simp)
    rw [Hash.mergeLoop, he]
    have hmerge : OMap.merge key all (e :: es) = OMap.merge key (OMap.put key all e) es := by simp [OMap.merge]
    cases hx : idx key all (key e.1) with
    | some i =>
      have hlt := idx_lt hx
      have hks := keys_set (e := e) hx
      simp only [hlt, if_true]
      rw [ih (all.set i e) (by rw [hks]; exact hn) hes'.2, hmerge, put_eq, hx]
      intro e' he'
      rw [hag e' (by simp [he']), idx_eq_kidx, idx_eq_kidx, hks]
    | none =>
      have hnotin := idx_eq_none.mp hx
      have hn2 : (keys key (all ++ [e])).Nodup := by
        have := nodup_put hn e
        rwa [put_eq, hx] at this
      simp only []
      rw [ih (all ++ [e]) hn2 hes'.2, hmerge, put_eq, hx]
      intro e' he'
      have hne : key e.1 ≠ key e'.1 := by
        intro heq
        apply hes'.1
        simp only [keys, List.mem_map]
        exact ⟨e', he', heq.symm⟩
      rw [hag e' (by simp [he']), idx_eq_kidx, idx_eq_kidx]
      simp only [keys, List.map_append, List.map_cons, List.map_nil]
      rw [kidx_append]
      cases kidx (List.map (fun e => key e.1) all) (key e'.1) <;> simp [hne]

theorem HInv.merge {key : α → κ} {h : Hash α β κ} (hi : HInv key h) {o : List (α × β)}
    (ho : (keys key o).Nodup) :
    ∃ n, h.merge key o = ((h.valueIndex key).1, some n) ∧
      n.entries = OMap.merge key h.entries o ∧ HInv key n := by
  obtain ⟨_, _, hg⟩ := hi.valueIndex
  have := mergeLoop_eq key (h.valueIndex key).2 h.entries o hi.1 ho (fun e _ => hg _)
  refine ⟨Hash.wrap (OMap.merge key h.entries o), ?_, rfl, HInv.wrap (nodup_merge hi.1 o)⟩
  simp [Hash.merge, Hash.mergeEntries, this]

/-! ### lookups -/

theorem HInv.get {key : α → κ} {h : Hash α β κ} (hi : HInv key h) (k : κ) :
    h.get key k = ((h.valueIndex key).1, some (OMap.get key h.entries k)) := by
  obtain ⟨_, _, hg⟩ := hi.valueIndex
  unfold Hash.get
  simp only [hg]
  cases hx : idx key h.entries k with
  | none => simp [get_of_idx_none hx]
  | some i =>
    have hlt := idx_lt hx
    have he : h.entries[i]? = some h.entries[i] := by simp [hlt]
    simp only [he, get_of_idx_some hx he]

theorem HInv.includesKey {key : α → κ} {h : Hash α β κ} (hi : HInv key h) (k : κ) :
    h.includesKey key k = ((h.valueIndex key).1, OMap.includes key h.entries k) := by
  obtain ⟨_, _, hg⟩ := hi.valueIndex
  unfold Hash.includesKey
  simp only [hg]
  cases hx : idx key h.entries k with
  | none => simp [includes_of_idx_none hx]
  | some i =>
    have hlt := idx_lt hx
    have he : h.entries[i]? = some h.entries[i] := by simp [hlt]
    simp [includes_of_idx_some hx he]

/-- a literal without repeated keys is the ordered map of its entries -/
theorem ofList_of_nodup {key : α → κ} (a es : List (α × β)) (hn : (keys key (a ++ es)).Nodup) :
    OMap.merge key a es = a ++ es := by
  induction es generalizing a with
  | nil => simp [OMap.merge]
  | cons e es ih =>
    have hnot : key e.1 ∉ keys key a := by
      simp only [keys, List.map_append, List.map_cons] at hn
      have := (List.nodup_append.mp hn).2.2
      intro hmem
      exact this _ hmem _ (by simp) rfl
    have hp : OMap.put key a e = a ++ [e] := by rw [put_eq, idx_eq_none.mpr hnot]
    have : OMap.merge key a (e :: es) = OMap.merge key (a ++ [e]) es := by simp [OMap.merge, hp]
    rw [this, ih (a ++ [e]) (by simpa using hn)]; simp

end Pcore.Coll
