import Pcore.Model.OMap
/-!
Laws of the specification `OMap` (that it *is* an insertion-ordered map with unique keys) and the bridging
lemmas that express `put` / `delete` through the position `idx` of a key — the form in which the indexed
implementations compute them.
-/
namespace Pcore.Coll.OMap
variable {α β κ : Type} [DecidableEq κ]

/-- position of the first occurrence of `k` -/
def kidx : List κ → κ → Option Nat
  | [], _ => none
  | x :: xs, k => if x = k then some 0 else (kidx xs k).map (· + 1)

/-- what `stringHash.Delete`'s loop does to a position -/
def renum (p v : Nat) : Nat := if v > p then v - 1 else v

theorem idx_eq_kidx (key : α → κ) (m : List (α × β)) (k : κ) : idx key m k = kidx (keys key m) k := by
  induction m with
  | nil => rfl
  | cons e es ih => simp [idx, kidx, keys, ih] at *

theorem kidx_eq_none {l : List κ} {k : κ} : kidx l k = none ↔ k ∉ l := by
  induction l with
  | nil => simp [kidx]
  | cons x xs ih =>
    by_cases h : x = k
    · subst h; simp [kidx]
    · simp [kidx, h, ih, Ne.symm h]

theorem kidx_some_get {l : List κ} {k : κ} {i : Nat} (h : kidx l k = some i) : l[i]? = some k := by
  induction l generalizing i with
  | nil => simp [kidx] at h
  | cons x xs ih =>
    by_cases hx : x = k
    · subst hx; simp [kidx] at h; subst h; simp
    · simp only [kidx, hx, if_false] at h
      cases hk : kidx xs k with
      | none => simp [hk] at h
      | some j => simp [hk] at h; subst h; simpa using ih hk

theorem kidx_some_lt {l : List κ} {k : κ} {i : Nat} (h : kidx l k = some i) : i < l.length := by
  have := kidx_some_get h
  exact (List.getElem?_eq_some_iff.mp this).1

theorem kidx_of_nodup {l : List κ} {k : κ} {i : Nat} (hn : l.Nodup) (h : l[i]? = some k) : kidx l k = some i := by
  induction l generalizing i with
  | nil => simp at h
  | cons x xs ih =>
    have hn' := List.nodup_cons.mp hn
    cases i with
    | zero => simp at h; subst h; simp [kidx]
    | succ j =>
      simp at h
      have hmem : k ∈ xs := List.mem_of_getElem? h
      have hx : x ≠ k := fun e => hn'.1 (e ▸ hmem)
      simp [kidx, hx, ih hn'.2 h]

theorem kidx_iff {l : List κ} (hn : l.Nodup) (k : κ) (i : Nat) : kidx l k = some i ↔ l[i]? = some k :=
  ⟨kidx_some_get, kidx_of_nodup hn⟩

theorem kidx_append (l : List κ) (x k : κ) :
    kidx (l ++ [x]) k = match kidx l k with
      | some i => some i
      | none => if x = k then some l.length else none := by
  induction l with
  | nil => by_cases h : x = k <;> simp [kidx, h]
  | cons y ys ih =>
    by_cases h : y = k
    · simp [kidx, h]
    · simp only [List.cons_append, kidx, h, if_false, ih]
      cases kidx ys k with
      | some i => simp
      | none => by_cases hx : x = k <;> simp [hx]

theorem kidx_eraseIdx {l : List κ} (hn : l.Nodup) {k0 : κ} {p : Nat} (hp : kidx l k0 = some p) (k : κ) :
    kidx (l.eraseIdx p) k = if k = k0 then none else (kidx l k).map (renum p) := by
  induction l generalizing p with
  | nil => simp [kidx] at hp
  | cons x xs ih =>
    have hn' := List.nodup_cons.mp hn
    by_cases hx : x = k0
    · subst hx
      simp [kidx] at hp; subst hp
      by_cases hk : k = x
      · subst hk; simp [kidx_eq_none.mpr hn'.1]
      · have hk' : x ≠ k := fun e => hk e.symm
        simp only [List.eraseIdx_zero, List.tail_cons, hk, if_false, kidx, hk']
        cases kidx xs k with
        | none => rfl
        | some i => simp [renum]
    · simp only [kidx, hx, if_false] at hp
      cases hq : kidx xs k0 with
      | none => simp [hq] at hp
      | some q =>
        simp [hq] at hp; subst hp
        have ih' := ih hn'.2 hq
        by_cases hxk : x = k
        · subst hxk
          have : ¬ x = k0 := hx
          simp [kidx, this, renum]
        · by_cases hk : k = k0
          · subst hk; simp [kidx, hxk, ih']
          · simp only [List.eraseIdx_cons_succ, kidx, hxk, if_false, ih', hk]
            cases kidx xs k with
            | none => rfl
            | some i =>
              simp only [Option.map_some, renum, Option.some.injEq]
              by_cases hi : i > q
              · have : i + 1 > q + 1 := by omega
                simp [hi, this]; omega
              · have : ¬ i + 1 > q + 1 := by omega
                simp [hi, this]

/-! ### `idx` -/

theorem idx_eq_none {key : α → κ} {m : List (α × β)} {k : κ} : idx key m k = none ↔ k ∉ keys key m := by
  rw [idx_eq_kidx]; exact kidx_eq_none

theorem idx_lt {key : α → κ} {m : List (α × β)} {k : κ} {i : Nat} (h : idx key m k = some i) : i < m.length := by
  rw [idx_eq_kidx] at h; simpa [keys] using kidx_some_lt h

theorem idx_key {key : α → κ} {m : List (α × β)} {k : κ} {i : Nat} (h : idx key m k = some i) :
    (m[i]?).map (fun e => key e.1) = some k := by
  rw [idx_eq_kidx] at h; simpa [keys] using kidx_some_get h

/-- with unique keys the index of a key is the position where it sits -/
theorem idx_iff {key : α → κ} {m : List (α × β)} (hn : (keys key m).Nodup) (k : κ) (i : Nat) :
    idx key m k = some i ↔ (m[i]?).map (fun e => key e.1) = some k := by
  rw [idx_eq_kidx, kidx_iff hn]; simp [keys]

theorem getEntry_eq_idx (key : α → κ) (m : List (α × β)) (k : κ) :
    getEntry key m k = match idx key m k with
      | some i => m[i]?
      | none => none := by
  induction m with
  | nil => rfl
  | cons e es ih =>
    by_cases h : key e.1 = k
    · simp [getEntry, idx, h]
    · simp only [getEntry, idx, h, if_false, ih]
      cases idx key es k <;> simp

theorem get_of_idx_none {key : α → κ} {m : List (α × β)} {k : κ} (h : idx key m k = none) :
    OMap.get key m k = none := by simp [OMap.get, getEntry_eq_idx, h]

theorem get_of_idx_some {key : α → κ} {m : List (α × β)} {k : κ} {p : Nat} {e : α × β}
    (h : idx key m k = some p) (he : m[p]? = some e) : OMap.get key m k = some e.2 := by
  simp [OMap.get, getEntry_eq_idx, h, he]

theorem includes_of_idx_none {key : α → κ} {m : List (α × β)} {k : κ} (h : idx key m k = none) :
    OMap.includes key m k = false := by simp [OMap.includes, getEntry_eq_idx, h]

theorem includes_of_idx_some {key : α → κ} {m : List (α × β)} {k : κ} {p : Nat} {e : α × β}
    (h : idx key m k = some p) (he : m[p]? = some e) : OMap.includes key m k = true := by
  simp [OMap.includes, getEntry_eq_idx, h, he]

/-! ### `put` -/

theorem put_eq (key : α → κ) (m : List (α × β)) (e : α × β) :
    put key m e = match idx key m (key e.1) with
      | some i => m.set i e
      | none => m ++ [e] := by
  induction m with
  | nil => rfl
  | cons x xs ih =>
    by_cases h : key x.1 = key e.1
    · simp [put, idx, h]
    · simp only [put, idx, h, if_false, ih]
      cases idx key xs (key e.1) <;> simp

theorem keys_put (key : α → κ) (m : List (α × β)) (e : α × β) :
    keys key (put key m e) = if key e.1 ∈ keys key m then keys key m else keys key m ++ [key e.1] := by
  induction m with
  | nil => simp [put, keys]
  | cons x xs ih =>
    by_cases h : key x.1 = key e.1
    · simp [put, keys, h]
    · have h' : ¬ key e.1 = key x.1 := fun e' => h e'.symm
      simp only [put, h, if_false]
      simp only [keys, List.map_cons, List.mem_cons, h', false_or] at ih ⊢
      rw [ih]
      by_cases hm : key e.1 ∈ List.map (fun e => key e.1) xs <;> simp [hm]

theorem nodup_put {key : α → κ} {m : List (α × β)} (hn : (keys key m).Nodup) (e : α × β) :
    (keys key (put key m e)).Nodup := by
  rw [keys_put]
  split
  · exact hn
  · rename_i h
    rw [List.nodup_append]
    refine ⟨hn, by simp, ?_⟩
    intro a ha b hb
    simp at hb; subst hb
    intro hab; subst hab; exact h ha

theorem getEntry_put (key : α → κ) (m : List (α × β)) (e : α × β) (k : κ) :
    getEntry key (put key m e) k = if key e.1 = k then some e else getEntry key m k := by
  induction m with
  | nil => simp [put, getEntry]
  | cons x xs ih =>
    by_cases h : key x.1 = key e.1
    · by_cases hk : key e.1 = k
      · simp [put, getEntry, h, hk]
      · have : ¬ key x.1 = k := fun e' => hk (h ▸ e')
        simp [put, getEntry, h, hk, this]
    · by_cases hx : key x.1 = k
      · subst hx
        have : ¬ key e.1 = key x.1 := fun e' => h e'.symm
        simp [put, getEntry, h, this]
      · simp [put, getEntry, h, hx, ih]

/-- lookup after `put`: the new value under the put key, everything else unchanged -/
theorem get_put (key : α → κ) (m : List (α × β)) (e : α × β) (k : κ) :
    get key (put key m e) k = if key e.1 = k then some e.2 else get key m k := by
  simp only [get, getEntry_put]; split <;> simp

theorem keys_set {key : α → κ} {m : List (α × β)} {e : α × β} {i : Nat} (h : idx key m (key e.1) = some i) :
    keys key (m.set i e) = keys key m := by
  have hk := idx_key h
  have hlt := idx_lt h
  simp only [keys, List.map_set]
  apply List.ext_getElem?
  intro j
  by_cases hj : i = j
  · subst hj
    simp [List.getElem?_set, hlt] at hk ⊢
    simpa [hlt] using hk.symm
  · simp [List.getElem?_set, hj]

/-! ### `delete` -/

theorem getEntry_delete (key : α → κ) (m : List (α × β)) (k k' : κ) :
    getEntry key (delete key m k) k' = if k' = k then none else getEntry key m k' := by
  induction m with
  | nil => simp [delete, getEntry]
  | cons x xs ih =>
    simp only [delete] at ih
    by_cases h : key x.1 = k
    · subst h
      by_cases hk : k' = key x.1
      · subst hk; simpa [delete] using ih
      · have : ¬ key x.1 = k' := fun e' => hk e'.symm
        simp [delete, getEntry, ih, hk, this]
    · by_cases hx : key x.1 = k'
      · subst hx
        simp [delete, h, getEntry]
      · simp [delete, h, getEntry, hx, ih]

/-- lookup after `delete`: exactly the given key is gone -/
theorem get_delete (key : α → κ) (m : List (α × β)) (k k' : κ) :
    get key (delete key m k) k' = if k' = k then none else get key m k' := by
  simp only [get, getEntry_delete]; split <;> simp

theorem keys_delete (key : α → κ) (m : List (α × β)) (k : κ) :
    keys key (delete key m k) = (keys key m).filter (fun x => !decide (x = k)) := by
  simp [keys, delete, List.filter_map, Function.comp_def]

omit [DecidableEq κ] in
theorem nodup_filter {l : List κ} (p : κ → Bool) (hn : l.Nodup) : (l.filter p).Nodup :=
  List.Nodup.sublist List.filter_sublist hn

theorem nodup_delete {key : α → κ} {m : List (α × β)} (hn : (keys key m).Nodup) (k : κ) :
    (keys key (delete key m k)).Nodup := by
  rw [keys_delete]; exact nodup_filter _ hn

theorem keys_deleteAll (key : α → κ) (m : List (α × β)) (ks : List κ) :
    keys key (deleteAll key m ks) = (keys key m).filter (fun x => !ks.contains x) := by
  simp [keys, deleteAll, List.filter_map, Function.comp_def]

theorem nodup_deleteAll {key : α → κ} {m : List (α × β)} (hn : (keys key m).Nodup) (ks : List κ) :
    (keys key (deleteAll key m ks)).Nodup := by
  rw [keys_deleteAll]; exact nodup_filter _ hn

theorem delete_of_idx_none {key : α → κ} {m : List (α × β)} {k : κ} (h : idx key m k = none) :
    delete key m k = m := by
  have := idx_eq_none.mp h
  simp only [delete, List.filter_eq_self]
  intro e he
  simp only [keys, List.mem_map, not_exists, not_and] at this
  simpa using this e he

theorem delete_of_idx_some {key : α → κ} {m : List (α × β)} (hn : (keys key m).Nodup) {k : κ} {i : Nat}
    (h : idx key m k = some i) : delete key m k = m.eraseIdx i := by
  induction m generalizing i with
  | nil => simp [idx] at h
  | cons x xs ih =>
    have hn' : key x.1 ∉ keys key xs ∧ (keys key xs).Nodup := by simpa [keys] using hn
    by_cases hx : key x.1 = k
    · simp [idx, hx] at h; subst h
      have : idx key xs k = none := idx_eq_none.mpr (hx ▸ hn'.1)
      have h2 := delete_of_idx_none this
      simp only [delete] at h2
      simp [delete, List.filter_cons, hx, h2]
    · simp only [idx, hx, if_false] at h
      cases hq : idx key xs k with
      | none => simp [hq] at h
      | some q =>
        simp [hq] at h; subst h
        have := ih hn'.2 hq
        simp only [delete] at this
        simp [delete, List.filter_cons, hx, this]

/-! ### `merge` -/

theorem nodup_merge {key : α → κ} {a : List (α × β)} (hn : (keys key a).Nodup) (b : List (α × β)) :
    (keys key (merge key a b)).Nodup := by
  induction b generalizing a with
  | nil => exact hn
  | cons e es ih => exact ih (nodup_put hn e)

end Pcore.Coll.OMap
