import Pcore.Proofs.Tokens
/-!
Layer 2 of C05 for float texts: every text of the shapes that `floatGFormat` (`%g` post-processed) produces —
`[-] D+ . D+`, `[-] D+ . D+ e ± D+`, `[-] D+ e ± D+` — followed by a continuation the printer produces, is read back by
the lexer as ONE float token with exactly that text.  This is the lexing half of the float parameter `FloatIO` (C05); what
remains assumed of decimal float conversion is only that the reader maps the formatter's text back to the same bits.

The exponent path of `consumeUnsignedInteger` asks `unicode.IsLetter` about the character that follows the digits; the lemma
therefore needs the oracle to answer `false` for the five characters that can follow a value (`,` `]` `}` `)` blank) — true of
`unicode.IsLetter`, and of the table the driver uses.
-/
namespace Pcore.Syntax

/-- closes the side goals "this mode is not that constructor" that `rw [lexNum]` leaves in the later modes -/
macro "lexnum_side" : tactic =>
  `(tactic| all_goals (try (first | (intro _ h; cases h) | (intro h; cases h))))

/-- the letter oracle does not take a character that may follow a value for a letter -/
def StopNotLetter (il : Char → Bool) : Prop := il ',' = false ∧ il ']' = false ∧ il '}' = false ∧ il ')' = false ∧ il ' ' = false

theorem lexNum_exp_digits (il : Char → Bool) (hil : StopNotLetter il) (ds acc : Str) (k : List Sym)
    (hd : ∀ c ∈ ds, isDigit c = true) (hk : stopOK k = true) :
    lexNum il .expDigits acc (syms ds ++ k) = floatTok (ds.reverse ++ acc) k := by
  induction ds generalizing acc with
  | nil =>
    simp only [syms_nil, List.nil_append, List.reverse_nil]
    rcases stopOK_cases hk with rfl | ⟨c, tl, rfl, hc⟩
    · simp [lexNum]
    · obtain ⟨hr, h0, hdg, _, _, _, _, _, _, hdot, _⟩ := stop_char hc
      have hl : il c = false := by
        obtain ⟨a, b, c', d, e⟩ := hil
        rcases hc with rfl | rfl | rfl | rfl | rfl <;> assumption
      rw [lexNum, hr]; lexnum_side
      simp [h0, hdg, hdot, hl]
  | cons c cs ih =>
    have hc := hd c (by simp)
    obtain ⟨hr, h0, _⟩ := digit_facts c hc
    have hdot : c ≠ '.' := by
      intro e; subst e; simp [isDigit] at hc
    simp only [syms_cons, List.cons_append]
    rw [lexNum, hr]; lexnum_side
    simp only [h0, hdot, if_false, hc, if_true]
    rw [ih _ (fun d hd' => hd d (by simp [hd']))]
    simp

/-- the exponent part: `e`, a sign, at least one digit -/
def expText (sg : Char) (e0 : Char) (eds : Str) : Str := 'e' :: sg :: e0 :: eds

theorem lexNum_exp (il : Char → Bool) (hil : StopNotLetter il) (m : NMode) (hm : m = .fracPart ∨ ∃ fz, m = .intPart fz)
    (sg e0 : Char) (eds acc : Str) (k : List Sym) (hsg : sg = '+' ∨ sg = '-') (he0 : isDigit e0 = true)
    (heds : ∀ c ∈ eds, isDigit c = true) (hk : stopOK k = true) :
    lexNum il m acc (syms (expText sg e0 eds) ++ k) = floatTok (eds.reverse ++ e0 :: sg :: 'e' :: acc) k := by
  have hE : (Sym.chr 'e').rune = some 'e' := by decide
  have e0' : ('e' = '\x00') = False := by decide
  have e1 : isDigit 'e' = false := by decide
  obtain ⟨hr0, h00, _⟩ := digit_facts e0 he0
  have hsgr : (Sym.chr sg).rune = some sg := by rcases hsg with rfl | rfl <;> decide
  have hsg0 : sg ≠ '\x00' := by rcases hsg with rfl | rfl <;> decide
  have hsg' : sg = '+' ∨ sg = '-' := hsg
  simp only [expText, syms_cons, List.cons_append]
  have step2 : lexNum il .expStart ('e' :: acc) (.chr sg :: .chr e0 :: (syms eds ++ k)) =
      floatTok (eds.reverse ++ e0 :: sg :: 'e' :: acc) k := by
    rw [lexNum, hsgr]; lexnum_side
    simp only [hsg0, hsg', if_false, if_true]
    rw [lexNum, hr0]; lexnum_side
    simp only [he0, if_true]
    rw [lexNum_exp_digits il hil eds _ k heds hk]
  rcases hm with rfl | ⟨fz, rfl⟩
  · rw [lexNum, hE]; simp only [e0', e1, if_false, Bool.false_eq_true, true_or, if_true]
    exact step2
  · rw [lexNum, hE]; simp only [e0', e1, if_false, Bool.false_eq_true, true_or, if_true]
    exact step2

/-- digits of the fraction, then the exponent -/
theorem lexNum_frac_then_exp (il : Char → Bool) (hil : StopNotLetter il) (ds acc : Str) (sg e0 : Char) (eds : Str)
    (k : List Sym) (hd : ∀ c ∈ ds, isDigit c = true) (hsg : sg = '+' ∨ sg = '-') (he0 : isDigit e0 = true)
    (heds : ∀ c ∈ eds, isDigit c = true) (hk : stopOK k = true) :
    lexNum il .fracPart acc (syms (ds ++ expText sg e0 eds) ++ k) =
      floatTok (eds.reverse ++ e0 :: sg :: 'e' :: (ds.reverse ++ acc)) k := by
  induction ds generalizing acc with
  | nil => simpa using lexNum_exp il hil .fracPart (Or.inl rfl) sg e0 eds acc k hsg he0 heds hk
  | cons c cs ih =>
    have hc := hd c (by simp)
    obtain ⟨hr, h0, _⟩ := digit_facts c hc
    simp only [List.cons_append, syms_cons]
    rw [lexNum, hr]; lexnum_side
    simp only [h0, if_false, hc, if_true]
    rw [ih _ (fun d hd' => hd d (by simp [hd']))]
    simp

/-- the three shapes after the first digit of the integer part -/
inductive FTail where
  | frac (ds1 : Str) (d : Char) (ds2 : Str)                                   -- D* . D+
  | fracExp (ds1 : Str) (d : Char) (ds2 : Str) (sg e0 : Char) (eds : Str)     -- D* . D+ e ± D+
  | exp (ds1 : Str) (sg e0 : Char) (eds : Str)                                -- D* e ± D+

def FTail.text : FTail → Str
  | .frac ds1 d ds2 => ds1 ++ '.' :: d :: ds2
  | .fracExp ds1 d ds2 sg e0 eds => ds1 ++ '.' :: d :: (ds2 ++ expText sg e0 eds)
  | .exp ds1 sg e0 eds => ds1 ++ expText sg e0 eds

def FTail.OK : FTail → Prop
  | .frac ds1 d ds2 => (∀ c ∈ ds1, isDigit c = true) ∧ isDigit d = true ∧ ∀ c ∈ ds2, isDigit c = true
  | .fracExp ds1 d ds2 sg e0 eds =>
    (∀ c ∈ ds1, isDigit c = true) ∧ isDigit d = true ∧ (∀ c ∈ ds2, isDigit c = true) ∧ (sg = '+' ∨ sg = '-') ∧
      isDigit e0 = true ∧ ∀ c ∈ eds, isDigit c = true
  | .exp ds1 sg e0 eds =>
    (∀ c ∈ ds1, isDigit c = true) ∧ (sg = '+' ∨ sg = '-') ∧ isDigit e0 = true ∧ ∀ c ∈ eds, isDigit c = true

theorem lexNum_int_digits_prefix (il : Char → Bool) (fz : Bool) (ds acc : Str) (r : List Sym)
    (hd : ∀ c ∈ ds, isDigit c = true) :
    lexNum il (.intPart fz) acc (syms ds ++ r) = lexNum il (.intPart fz) (ds.reverse ++ acc) r := by
  induction ds generalizing acc with
  | nil => simp
  | cons c cs ih =>
    have hc := hd c (by simp)
    obtain ⟨hr, h0, _⟩ := digit_facts c hc
    simp only [List.cons_append, syms_cons]
    rw [lexNum, hr]; lexnum_side
    simp only [h0, if_false, hc, if_true]
    rw [ih _ (fun d hd' => hd d (by simp [hd']))]
    simp

theorem lexNum_ftail (il : Char → Bool) (hil : StopNotLetter il) (fz : Bool) (t : FTail) (ht : t.OK) (acc : Str)
    (k : List Sym) (hk : stopOK k = true) :
    lexNum il (.intPart fz) acc (syms t.text ++ k) = floatTok (t.text.reverse ++ acc) k := by
  have hdot : (Sym.chr '.').rune = some '.' := by decide
  have d0 : ('.' = '\x00') = False := by decide
  have d1 : isDigit '.' = false := by decide
  have d2 : ('.' = 'e' ∨ '.' = 'E') = False := by decide
  have d3 : ('.' = 'x' ∨ '.' = 'X') = False := by decide
  cases t with
  | frac ds1 d ds2 =>
    obtain ⟨h1, hd, h2⟩ := ht
    simpa [FTail.text] using lexNum_int_dot_frac il fz ds1 d ds2 acc k h1 hd h2 hk
  | fracExp ds1 d ds2 sg e0 eds =>
    obtain ⟨h1, hd, h2, hsg, he0, heds⟩ := ht
    obtain ⟨hr, _⟩ := digit_facts d hd
    simp only [FTail.text, syms_append, syms_cons, List.append_assoc, List.cons_append]
    rw [lexNum_int_digits_prefix il fz ds1 acc _ h1]
    rw [lexNum, hdot]; lexnum_side
    simp only [d0, d1, d2, d3, if_false, if_true, Bool.false_eq_true]
    rw [lexNum, hr]; lexnum_side
    simp only [hd, if_true]
    have := lexNum_frac_then_exp il hil ds2 (d :: '.' :: (ds1.reverse ++ acc)) sg e0 eds k h2 hsg he0 heds hk
    simp only [syms_append, List.append_assoc] at this
    rw [this]
    simp [expText]
  | exp ds1 sg e0 eds =>
    obtain ⟨h1, hsg, he0, heds⟩ := ht
    simp only [FTail.text, syms_append, List.append_assoc]
    rw [lexNum_int_digits_prefix il fz ds1 acc _ h1]
    have := lexNum_exp il hil (.intPart fz) (Or.inr ⟨fz, rfl⟩) sg e0 eds (ds1.reverse ++ acc) k hsg he0 heds hk
    rw [this]
    simp [expText]

/-- an unsigned float text -/
theorem nextToken_float_pos (il : Char → Bool) (hil : StopNotLetter il) (c : Char) (t : FTail) (hc : isDigit c = true)
    (ht : t.OK) (k : List Sym) (hk : stopOK k = true) :
    nextToken il (syms (c :: t.text) ++ k) = .tok ⟨.float, c :: t.text⟩ k false := by
  obtain ⟨q1, q2, q3, q4, q5, q6, q7, q8, q9, _⟩ := digit_facts c hc
  unfold nextToken
  simp only [List.cons_append, syms_cons]
  rw [nextTok, q1]; simp only [Bool.false_eq_true, if_false, q2, q3, q4]
  unfold startTok
  simp only [q5, q6, if_false, q7, q8, q9, hc, if_true]
  rw [lexNum_ftail il hil (decide (c = '0')) t ht [c] k hk]
  simp [floatTok]

/-- a negative float text -/
theorem nextToken_float_neg (il : Char → Bool) (hil : StopNotLetter il) (c : Char) (t : FTail) (hc : isDigit c = true)
    (ht : t.OK) (k : List Sym) (hk : stopOK k = true) :
    nextToken il (syms ('-' :: c :: t.text) ++ k) = .tok ⟨.float, '-' :: c :: t.text⟩ k false := by
  obtain ⟨h1, _⟩ := digit_facts c hc
  unfold nextToken
  simp only [syms_cons, List.cons_append]
  rw [nextTok]
  have hm : (Sym.chr '-').rune = some '-' := by decide
  rw [hm]; simp only [Bool.false_eq_true, if_false]
  have e1 : ('-' = '\x00') = False := by decide
  have e2 : ('-' = ' ' ∨ '-' = '\t' ∨ '-' = '\n') = False := by decide
  have e3 : ('-' = '#') = False := by decide
  simp only [e1, e2, e3, if_false]
  unfold startTok
  have e4 : ('-' = '\'' ∨ '-' = '"') = False := by decide
  have e5 : ('-' = '/') = False := by decide
  have e6 : punctTok '-' (Sym.chr c :: (syms t.text ++ k)) = none := by simp [punctTok]
  have e7 : ('-' = '=') = False := by decide
  simp only [e4, e5, if_false, e6, e7, true_or, if_true]
  unfold signTok
  simp only [h1, hc, if_true]
  rw [lexNum_ftail il hil (decide (c = '0')) t ht [c, '-'] k hk]
  simp [floatTok]

end Pcore.Syntax
