import Pcore.Proofs.TlsReach
/-!
# The big-step model is realised by the small-step model (property C14, refinement)

`Model/Tls.lean` (`exec`, `run`: a forked goroutine runs from start to end at a scheduling point chosen by an oracle) and
`Model/TlsSmall.lean` (`stepG`, `Cfg.step`: any goroutine takes the next micro-step) mirror the same Go code.  This file proves
that every big-step execution IS a small-step execution: for every program, oracle and fuel, if the big-step run does not run
out of fuel there is a schedule of micro-steps from `Cfg.init p` that ends in a configuration whose shared state (goroutine-local
tables, context heap, loader entries, observation log, ghost `estab`, all counters) is exactly the big-step result, with every
goroutine ended (`run_refines`).

The simulation relation `Sim w c`: the small-step world is the big-step world without the big-step bookkeeping (`pending`,
`sched`: `strip`), and the goroutines of `c` that have not started are, in order, the big-step `pending` tasks (`U t`).

`sim_exec` (induction on the fuel): a goroutine whose continuation is `.run p c :: k` reaches, by micro-steps of itself and of
goroutines that had not started, the continuation `k` — `panicking` iff the big-step outcome is `panicked` — in a configuration
related to the big-step result; goroutines that had already started are not touched.
-/
namespace Pcore.Tls

/-! ## the relation -/

/-- the shared state without the big-step model's scheduling bookkeeping -/
def strip (w : World) : World := { w with pending := [], sched := [] }

/-- a goroutine made by `px.Fork` that has not started: the small-step form of a pending task -/
def U (t : Task) : GS := { gid := t.gid, ctx0 := t.ctx, started := false, k := [.run t.prog t.ctx, .endG] }

/-- a started goroutine -/
def mkG (gid : Gid) (ctx0 : CtxId) (pn : Bool) (k : List Frame) : GS :=
  { gid := gid, ctx0 := ctx0, started := true, panicking := pn, k := k }

def waiting (gs : List GS) : List GS := gs.filter fun g => !g.started

structure Sim (w : World) (c : Cfg) : Prop where
  world : c.w = strip w
  pend : waiting c.gs = w.pending.map U

/-! ## lists -/

theorem waiting_append (a b : List GS) : waiting (a ++ b) = waiting a ++ waiting b := List.filter_append ..

theorem waiting_set_started : ∀ (gs : List GS) (i : Nat) (g g' : GS), gs[i]? = some g → g.started = true → g'.started = true →
    waiting (gs.set i g') = waiting gs := by
  intro gs
  induction gs with
  | nil => intro i g g' h; simp at h
  | cons x xs ih =>
    intro i g g' h hs hs'
    cases i with
    | zero =>
      simp at h; subst h
      simp [waiting, List.filter_cons, hs, hs']
    | succ i =>
      simp at h
      have := ih i g g' h hs hs'
      simp only [waiting] at this
      simp [waiting, List.filter_cons, this]

/-- the `n`-th pending task is some goroutine `j` that has not started; once it has, the waiting ones are the other tasks -/
theorem waiting_pick : ∀ (gs : List GS) (ts : List Task) (n : Nat) (t : Task), waiting gs = ts.map U → ts[n]? = some t →
    ∃ j, gs[j]? = some (U t) ∧ ∀ g', g'.started = true → waiting (gs.set j g') = (ts.eraseIdx n).map U := by
  intro gs
  induction gs with
  | nil =>
    intro ts n t h hn
    cases ts with
    | nil => simp at hn
    | cons a as => simp [waiting] at h
  | cons x xs ih =>
    intro ts n t h hn
    by_cases hx : x.started = true
    · have hw : waiting (x :: xs) = waiting xs := by simp [waiting, List.filter_cons, hx]
      rw [hw] at h
      obtain ⟨j, hj, hrest⟩ := ih ts n t h hn
      refine ⟨j + 1, by simpa using hj, ?_⟩
      intro g' hg'
      have := hrest g' hg'
      simp only [waiting] at this
      simp [waiting, List.filter_cons, hx, this]
    · have hx' : x.started = false := by simpa using hx
      have hw : waiting (x :: xs) = x :: waiting xs := by simp [waiting, List.filter_cons, hx']
      rw [hw] at h
      cases ts with
      | nil => simp at h
      | cons a as =>
        simp only [List.map_cons, List.cons.injEq] at h
        obtain ⟨hxa, has⟩ := h
        cases n with
        | zero =>
          simp at hn; subst hn
          refine ⟨0, by simp [hxa], ?_⟩
          intro g' hg'
          simp [waiting, List.filter_cons, hg']
          simpa [waiting] using has
        | succ n =>
          simp at hn
          obtain ⟨j, hj, hrest⟩ := ih as n t has hn
          refine ⟨j + 1, by simpa using hj, ?_⟩
          intro g' hg'
          have := hrest g' hg'
          simp only [waiting] at this
          simp [waiting, List.filter_cons, hx', this, hxa]
          rfl

/-! ## schedules -/

theorem steps_append (is js : List Nat) (c : Cfg) : Cfg.steps (is ++ js) c = Cfg.steps js (Cfg.steps is c) := by
  induction is generalizing c with
  | nil => rfl
  | cons i is ih => exact ih (c.step i)

/-- `c'` is reached from `c` by micro-steps -/
def Runs (c c' : Cfg) : Prop := ∃ is, Cfg.steps is c = c'

theorem Runs.refl (c : Cfg) : Runs c c := ⟨[], rfl⟩
theorem Runs.trans {a b c : Cfg} (h1 : Runs a b) (h2 : Runs b c) : Runs a c := by
  obtain ⟨is, h1⟩ := h1
  obtain ⟨js, h2⟩ := h2
  exact ⟨is ++ js, by rw [steps_append, h1, h2]⟩
theorem Runs.step (c : Cfg) (i : Nat) : Runs c (c.step i) := ⟨[i], rfl⟩

/-- goroutines that have started keep their state -/
def Keeps (c c' : Cfg) (except : Option Nat) : Prop :=
  ∀ j gj, some j ≠ except → c.gs[j]? = some gj → gj.started = true → c'.gs[j]? = some gj

theorem Keeps.refl (c : Cfg) (e : Option Nat) : Keeps c c e := fun _ _ _ h _ => h
theorem Keeps.trans {a b c : Cfg} {e : Option Nat} (h1 : Keeps a b e) (h2 : Keeps b c e) : Keeps a c e :=
  fun j gj hj h hs => h2 j gj hj (h1 j gj hj h hs) hs
theorem Keeps.weaken {a b : Cfg} {e : Option Nat} (h : Keeps a b none) : Keeps a b e :=
  fun j gj _ hh hs => h j gj (by simp) hh hs

/-- a goroutine that has started either was there before in the same state, or has ended -/
def News (c c' : Cfg) (except : Option Nat) : Prop :=
  ∀ j g, some j ≠ except → c'.gs[j]? = some g → g.started = true → c.gs[j]? = some g ∨ g.k = []

theorem News.refl (c : Cfg) (e : Option Nat) : News c c e := fun _ _ _ h _ => Or.inl h
theorem News.trans {a b c : Cfg} {e : Option Nat} (h1 : News a b e) (h2 : News b c e) : News a c e := by
  intro j g hj h hs
  rcases h2 j g hj h hs with h' | h'
  · exact h1 j g hj h' hs
  · exact Or.inr h'
theorem News.weaken {a b : Cfg} {e : Option Nat} (h : News a b none) : News a b e :=
  fun j g _ hh hs => h j g (by simp) hh hs

/-- goroutine `i` has gone from its state in `c` to `g'` in `c'`, `c'` is related to the big-step world `w'` -/
structure Post (w' : World) (c c' : Cfg) (i : Nat) (g' : GS) : Prop where
  runs : Runs c c'
  sim : Sim w' c'
  here : c'.gs[i]? = some g'
  keeps : Keeps c c' (some i)
  news : News c c' (some i)

theorem Post.trans {w1 w2 : World} {a b c : Cfg} {i : Nat} {g1 g2 : GS} (h1 : Post w1 a b i g1) (h2 : Post w2 b c i g2) :
    Post w2 a c i g2 :=
  ⟨h1.runs.trans h2.runs, h2.sim, h2.here, h1.keeps.trans h2.keeps, h1.news.trans h2.news⟩

theorem lt_of_getElem? {α : Type} {l : List α} {i : Nat} {a : α} (h : l[i]? = some a) : i < l.length := by
  rcases Nat.lt_or_ge i l.length with h' | h'
  · exact h'
  · rw [List.getElem?_eq_none h'] at h; cases h

/-- one micro-step of goroutine `i` that starts no goroutine -/
theorem one_step {w w' : World} {c : Cfg} {i : Nat} {g g' : GS} (hs : Sim w c) (hi : c.gs[i]? = some g)
    (hst : g.started = true) (hst' : g'.started = true)
    (hstep : stepG g (strip w) = { g := g', w := strip w', spawned := none }) (hp : w'.pending = w.pending) :
    Post w' c (c.step i) i g' := by
  have hlt := lt_of_getElem? hi
  have e : c.step i = { w := strip w', gs := c.gs.set i g' } := by
    simp [Cfg.step, hi, hs.world, hstep]
  refine ⟨Runs.step c i, ?_, ?_, ?_, ?_⟩
  · rw [e]
    exact ⟨rfl, by rw [hp]; exact (waiting_set_started _ _ _ _ hi hst hst').trans hs.pend⟩
  · rw [e]; simp [hlt]
  · intro j gj hj h _
    have hne : ¬ i = j := fun h' => hj (by rw [h'])
    rw [e]; simp [List.getElem?_set, hne, h]
  · intro j gj hj h _
    have hne : ¬ i = j := fun h' => hj (by rw [h'])
    rw [e] at h
    simp only [List.getElem?_set, hne, if_false] at h
    exact Or.inl h

/-- one micro-step of goroutine `i` that starts the goroutine of the new task `t` -/
theorem one_step_spawn {w w' : World} {c : Cfg} {i : Nat} {g g' : GS} {t : Task} (hs : Sim w c) (hi : c.gs[i]? = some g)
    (hst : g.started = true) (hst' : g'.started = true)
    (hstep : stepG g (strip w) = { g := g', w := strip w', spawned := some (U t) }) (hp : w'.pending = w.pending ++ [t]) :
    Post w' c (c.step i) i g' := by
  have hlt := lt_of_getElem? hi
  have e : c.step i = { w := strip w', gs := c.gs.set i g' ++ [U t] } := by
    simp [Cfg.step, hi, hs.world, hstep]
  refine ⟨Runs.step c i, ?_, ?_, ?_, ?_⟩
  · rw [e]
    refine ⟨rfl, ?_⟩
    rw [hp, waiting_append, waiting_set_started _ _ _ _ hi hst hst', hs.pend]
    simp [waiting, U]
  · rw [e]; simp [hlt, List.getElem?_append_left]
  · intro j gj hj h _
    have hne : ¬ i = j := fun h' => hj (by rw [h'])
    have hjl := lt_of_getElem? h
    rw [e]
    rw [List.getElem?_append_left (by simpa using hjl)]
    simp [List.getElem?_set, hne, h]
  · intro j gj hj h hsj
    have hne : ¬ i = j := fun h' => hj (by rw [h'])
    rw [e] at h
    simp only at h
    rcases Nat.lt_or_ge j (c.gs.set i g').length with hjl | hjl
    · rw [List.getElem?_append_left hjl] at h
      simp only [List.getElem?_set, hne, if_false] at h
      exact Or.inl h
    · rw [List.getElem?_append_right hjl] at h
      cases hjj : j - (c.gs.set i g').length with
      | zero =>
        rw [hjj] at h
        simp at h
        rw [← h] at hsj
        simp [U] at hsj
      | succ m => rw [hjj] at h; simp at h

/-! ## the primitives do not look at `pending` / `sched` -/

theorem strip_strip (w : World) : strip (strip w) = strip w := rfl
theorem strip_sched (w : World) (s : List Nat) : strip { w with sched := s } = strip w := rfl
theorem strip_pending (w : World) (ps : List Task) : strip { w with pending := ps } = strip w := rfl
theorem forkCtx_strip (c : CtxId) (w : World) : forkCtx c (strip w) = ((forkCtx c w).1, strip (forkCtx c w).2) := rfl
theorem newCtx_strip (x : Ctx) (w : World) : newCtx x (strip w) = ((newCtx x w).1, strip (newCtx x w).2) := rfl
theorem newLoader_strip (w : World) : newLoader (strip w) = ((newLoader w).1, strip (newLoader w).2) := rfl
theorem tlGet_strip (g : Gid) (k : String) (w : World) : tlGet g k (strip w) = tlGet g k w := rfl

theorem tlSet_strip (g : Gid) (k : String) (v : CtxId) (w : World) : tlSet g k v (strip w) = (tlSet g k v w).map strip := by
  unfold tlSet
  have : (strip w).tls g = w.tls g := rfl
  rw [this]
  cases w.tls g <;> rfl

theorem tlSet_pending {g : Gid} {k : String} {v : CtxId} {w w1 : World} (h : tlSet g k v w = some w1) :
    w1.pending = w.pending ∧ w1.oof = w.oof := by
  unfold tlSet at h
  cases ht : w.tls g with
  | none => simp [ht] at h
  | some t => simp [ht] at h; subst h; exact ⟨rfl, rfl⟩

theorem setEntry_strip (l : LoaderId) (n : String) (b : Bool) (w : World) : setEntry l n b (strip w) = strip (setEntry l n b w) := by
  unfold setEntry
  have : (strip w).defs l = w.defs l := rfl
  rw [this]
  split <;> rfl

theorem setEntry_pend (l : LoaderId) (n : String) (b : Bool) (w : World) :
    (setEntry l n b w).pending = w.pending ∧ (setEntry l n b w).oof = w.oof := by
  unfold setEntry; split <;> exact ⟨rfl, rfl⟩

theorem leafStep_strip (g : Gid) (c : CtxId) (l : Leaf) (w : World) :
    leafStep g c l (strip w) = ((leafStep g c l w).1, strip (leafStep g c l w).2) := by
  cases l with
  | obs =>
    simp only [leafStep, tlGet_strip]
    cases tlGet g ctxKey w <;> rfl
  | set k x => rfl
  | get k => rfl
  | del k => rfl
  | push l => rfl
  | pop =>
    simp only [leafStep]
    have : ((strip w).ctxs c).stack = (w.ctxs c).stack := rfl
    rw [this]
    cases (w.ctxs c).stack <;> rfl
  | deftype n =>
    simp only [leafStep]
    have : ((strip w).ctxs c).loader = (w.ctxs c).loader := rfl
    rw [this]
    cases (w.ctxs c).loader with
    | nil => rfl
    | cons l r => simp only [setEntry_strip]
  | load n =>
    simp only [leafStep]
    have h1 : ((strip w).ctxs c).loader = (w.ctxs c).loader := rfl
    have h2 : (strip w).defs = w.defs := rfl
    rw [h1, h2]
    cases loadEntry w.defs (w.ctxs c).loader n with
    | some b => rfl
    | none =>
      cases (w.ctxs c).loader with
      | nil => rfl
      | cons l r => simp only [setEntry_strip]; rfl
  | panic => rfl

theorem leafStep_pending (g : Gid) (c : CtxId) (l : Leaf) (w : World) :
    (leafStep g c l w).2.pending = w.pending ∧ (leafStep g c l w).2.oof = w.oof := by
  cases l with
  | obs => simp only [leafStep]; split <;> exact ⟨rfl, rfl⟩
  | set k x => exact ⟨rfl, rfl⟩
  | get k => exact ⟨rfl, rfl⟩
  | del k => exact ⟨rfl, rfl⟩
  | push l => exact ⟨rfl, rfl⟩
  | pop => simp only [leafStep]; split <;> exact ⟨rfl, rfl⟩
  | deftype n => simp only [leafStep]; split <;> first | exact ⟨rfl, rfl⟩ | exact setEntry_pend ..
  | load n =>
    simp only [leafStep]
    split
    · split
      · exact ⟨rfl, rfl⟩
      · exact setEntry_pend ..
    · exact ⟨rfl, rfl⟩
  | panic => exact ⟨rfl, rfl⟩

theorem leafStep_outcome (g : Gid) (c : CtxId) (l : Leaf) (w : World) :
    (leafStep g c l w).1 = .normal ∨ (leafStep g c l w).1 = .panicked := by
  cases l <;> simp only [leafStep] <;> (repeat' split) <;> simp

theorem dwcEnter_strip (g : Gid) (cx : CtxId) (w : World) :
    dwcEnter g cx (strip w) = (dwcEnter g cx w).map fun sw => (sw.1, strip sw.2) := by
  unfold dwcEnter
  rw [tlGet_strip]
  cases tlGet g ctxKey w with
  | some save =>
    simp only [tlSet_strip]
    cases tlSet g ctxKey cx w <;> rfl
  | none =>
    have : tlInit g (strip w) = strip (tlInit g w) := rfl
    simp only [this, tlSet_strip]
    cases tlSet g ctxKey cx (tlInit g w) <;> rfl

theorem dwcEnter_pending {g : Gid} {cx : CtxId} {w w2 : World} {save : Option CtxId} (h : dwcEnter g cx w = some (save, w2)) :
    w2.pending = w.pending ∧ w2.oof = w.oof := by
  unfold dwcEnter at h
  split at h
  · split at h
    · cases h
    · rename_i w1 hs
      cases h
      exact (tlSet_pending hs : w1.pending = w.pending ∧ w1.oof = w.oof)
  · split at h
    · cases h
    · rename_i w1 hs
      cases h
      exact (tlSet_pending hs : w1.pending = (tlInit g w).pending ∧ w1.oof = (tlInit g w).oof)

theorem dwcExit_strip (g : Gid) (save : Option CtxId) (w : World) : dwcExit g save (strip w) = (dwcExit g save w).map strip := by
  cases save with
  | some s => exact tlSet_strip ..
  | none => rfl

/-! ## `px.DoWithContext` = enter, body, exit -/

/-- what `DoWithContext` does after the actor returned or panicked (its deferred function) -/
def exitB (g : Gid) (save : Option CtxId) (r : Outcome × World) : Outcome × World :=
  match dwcExit g save r.2 with
  | some w3 => (r.1, w3)
  | none => (if r.1 = .fuel then .fuel else .panicked, r.2)

theorem doWithContext_eq (g : Gid) (cx : CtxId) (body : World → Outcome × World) (w : World) :
    doWithContext .now g cx body w =
      match dwcEnter g cx w with
      | none => (.panicked, w)
      | some sw => exitB g sw.1 (body sw.2) := by
  unfold doWithContext dwcEnter
  cases tlGet g ctxKey w with
  | some save =>
    cases tlSet g ctxKey cx w with
    | none => rfl
    | some w1 => simp only [exitB, dwcExit]; split <;> simp_all
  | none =>
    simp only [tlSet_tlInit, exitB, dwcExit, if_true]

theorem exitB_pending (g : Gid) (save : Option CtxId) (r : Outcome × World) :
    (exitB g save r).2.pending = r.2.pending ∧ (exitB g save r).2.oof = r.2.oof := by
  unfold exitB
  cases save with
  | none => exact ⟨rfl, rfl⟩
  | some s =>
    simp only [dwcExit]
    split
    · rename_i w3 h; exact tlSet_pending h
    · exact ⟨rfl, rfl⟩

theorem exitB_fuel {g : Gid} {save : Option CtxId} {r : Outcome × World} (h : (exitB g save r).1 ≠ .fuel) : r.1 ≠ .fuel := by
  intro hf
  apply h
  unfold exitB
  split <;> simp [hf]

def pnOf (o : Outcome) : Bool := o == .panicked

/-- the micro-step that runs the deferred function of `DoWithContext`, after a normal return or while unwinding -/
theorem sim_exit {w : World} {c : Cfg} {i : Nat} {gid ctx0 : Nat} {save : Option CtxId} {k : List Frame} {o : Outcome}
    (hs : Sim w c) (hi : c.gs[i]? = some (mkG gid ctx0 (pnOf o) (.restoreCtx save :: k))) (ho : o ≠ .fuel) :
    Post (exitB gid save (o, w)).2 c (c.step i) i (mkG gid ctx0 (pnOf (exitB gid save (o, w)).1) k) := by
  have hx := dwcExit_strip gid save w
  cases o with
  | fuel => exact absurd rfl ho
  | normal =>
    cases hd : dwcExit gid save w with
    | some w3 =>
      have e : exitB gid save (.normal, w) = (.normal, w3) := by simp [exitB, hd]
      rw [e]
      refine one_step hs hi rfl rfl ?_ ?_
      · rw [hd] at hx
        simp [stepG, mkG, pnOf, hx]
      · have := exitB_pending gid save (.normal, w); rw [e] at this; exact this.1
    | none =>
      have e : exitB gid save (.normal, w) = (.panicked, w) := by simp [exitB, hd]
      rw [e]
      refine one_step hs hi rfl rfl ?_ rfl
      rw [hd] at hx
      simp [stepG, mkG, pnOf, hx, panicS]
  | panicked =>
    cases hd : dwcExit gid save w with
    | some w3 =>
      have e : exitB gid save (.panicked, w) = (.panicked, w3) := by simp [exitB, hd]
      rw [e]
      refine one_step hs hi rfl rfl ?_ ?_
      · rw [hd] at hx
        simp [stepG, mkG, pnOf, hx]
      · have := exitB_pending gid save (.panicked, w); rw [e] at this; exact this.1
    | none =>
      have e : exitB gid save (.panicked, w) = (.panicked, w) := by simp [exitB, hd]
      rw [e]
      refine one_step hs hi rfl rfl ?_ rfl
      rw [hd] at hx
      simp [stepG, mkG, pnOf, hx]

/-! ## the induction -/

/-- neither the execution nor any goroutine run inside it ran out of fuel -/
def okR (r : Outcome × World) : Prop := r.1 ≠ .fuel ∧ r.2.oof = false

/-- what the induction hypothesis says about executing with the smaller fuel -/
def SimExec (ex : Prog → Gid → CtxId → World → Outcome × World) : Prop :=
  ∀ p gid c w cfg i ctx0 k, Sim w cfg → cfg.gs[i]? = some (mkG gid ctx0 false (.run p c :: k)) → okR (ex p gid c w) →
    ∃ cfg', Post (ex p gid c w).2 cfg cfg' i (mkG gid ctx0 (pnOf (ex p gid c w).1) k)

/-- the out-of-fuel flag, once set, stays set -/
def OofMono (ex : Prog → Gid → CtxId → World → Outcome × World) : Prop :=
  ∀ p g c w, w.oof = true → (ex p g c w).2.oof = true

theorem oof_false_of {ex : Prog → Gid → CtxId → World → Outcome × World} (hm : OofMono ex) {p g c w}
    (h : (ex p g c w).2.oof = false) : w.oof = false := by
  cases ho : w.oof with
  | false => rfl
  | true => rw [hm p g c w ho] at h; cases h

theorem runTask_ok {ex : Prog → Gid → CtxId → World → Outcome × World} {t : Task} {w : World}
    (h : (runTask .now ex t w).oof = false) :
    okR (ex t.prog t.gid t.ctx (setTag t.ctx (1000 + t.gid) (note t.gid t.ctx (tlFresh t.gid t.ctx w)))) ∧
    runTask .now ex t w = tlCleanup t.gid (emit t.gid
      (.done (ex t.prog t.gid t.ctx (setTag t.ctx (1000 + t.gid) (note t.gid t.ctx (tlFresh t.gid t.ctx w)))).1)
      (ex t.prog t.gid t.ctx (setTag t.ctx (1000 + t.gid) (note t.gid t.ctx (tlFresh t.gid t.ctx w)))).2) := by
  rw [runTask_now] at h ⊢
  generalize ex t.prog t.gid t.ctx (setTag t.ctx (1000 + t.gid) (note t.gid t.ctx (tlFresh t.gid t.ctx w))) = r at h ⊢
  have h' : (r.2.oof || decide (r.1 = .fuel)) = false := h
  simp only [Bool.or_eq_false_iff, decide_eq_false_iff_not] at h'
  refine ⟨⟨h'.2, h'.1⟩, ?_⟩
  have : decide (r.1 = Outcome.fuel) = false := by simpa using h'.2
  simp only [this, Bool.or_false]

/-! ### the out-of-fuel flag is monotone -/

theorem doWithContext_oof {g cx : Nat} {body : World → Outcome × World} {w : World}
    (hb : ∀ w1, w1.oof = true → (body w1).2.oof = true) (h : w.oof = true) :
    (doWithContext .now g cx body w).2.oof = true := by
  rw [doWithContext_eq]
  cases hd : dwcEnter g cx w with
  | none => exact h
  | some sw =>
    simp only
    rw [(exitB_pending g sw.1 (body sw.2)).2]
    apply hb
    rw [(dwcEnter_pending (save := sw.1) (w2 := sw.2) hd).2]
    exact h

theorem doParent_oof {g id : Nat} {ctch : Bool} {body : CtxId → World → Outcome × World} {root : Nat} {w : World}
    (hb : ∀ cx w1, w1.oof = true → (body cx w1).2.oof = true) (h : w.oof = true) :
    (doParent .now g id ctch body root w).2.oof = true := by
  unfold doParent
  have hd := doWithContext_oof (g := g) (cx := (forkCtx root w).1)
    (body := fun w4 => body (forkCtx root w).1 (setTag (forkCtx root w).1 id w4)) (w := (forkCtx root w).2)
    (fun w1 h1 => hb _ _ h1) h
  simp only
  split
  · exact hd
  · exact hd

theorem doDo_oof {g id : Nat} {ctch : Bool} {body : CtxId → World → Outcome × World} {w : World}
    (hb : ∀ cx w1, w1.oof = true → (body cx w1).2.oof = true) (h : w.oof = true) :
    (doDo .now g id ctch body w).2.oof = true := by
  simp only [doDo]
  exact doWithContext_oof (fun w1 h1 => doParent_oof hb h1) h

theorem runTask_oof {ex : Prog → Gid → CtxId → World → Outcome × World} (hm : OofMono ex) {t : Task} {w : World}
    (h : w.oof = true) : (runTask .now ex t w).oof = true := by
  rw [runTask_now]
  have := hm t.prog t.gid t.ctx (setTag t.ctx (1000 + t.gid) (note t.gid t.ctx (tlFresh t.gid t.ctx w))) h
  show ((ex t.prog t.gid t.ctx _).2.oof || _) = true
  rw [this]; rfl

theorem yield_oof {ex : Prog → Gid → CtxId → World → Outcome × World} (hm : OofMono ex) {w : World}
    (h : w.oof = true) : (yield .now ex w).oof = true := by
  unfold yield
  split
  · exact h
  · simp only
    split
    · exact h
    · split
      · exact h
      · exact runTask_oof hm h

theorem exec_oof_mono : ∀ f, OofMono (exec .now f) := by
  intro f
  induction f with
  | zero => intro p g c w h; exact h
  | succ f ih =>
    intro p g c w h
    cases p with
    | skip => exact h
    | leaf l =>
      simp only [exec]
      rw [(leafStep_pending g c l _).2]
      exact yield_oof ih h
    | seq p q =>
      simp only [exec]
      have h1 := ih p g c w h
      split
      · exact ih q g c _ h1
      · exact h1
    | recover p =>
      simp only [exec]
      have h1 := ih p g c w h
      split
      · exact h1
      · exact h1
    | doctx id p =>
      simp only [exec]
      exact doWithContext_oof (fun w1 h1 => ih p g _ w1 h1) h
    | dodo id p =>
      simp only [exec]
      exact doDo_oof (fun cx w1 h1 => ih p g cx w1 h1) h
    | dotry id p =>
      simp only [exec]
      exact doDo_oof (fun cx w1 h1 => ih p g cx w1 h1) h
    | doloader p =>
      simp only [exec]
      exact ih p g c _ h
    | fork p => simp only [exec]; exact h
    | go p =>
      simp only [exec]
      split
      · exact h
      · exact h

/-- a waiting goroutine runs from start to end: micro-steps of itself (and of whatever it lets run) -/
theorem sim_runTask {ex : Prog → Gid → CtxId → World → Outcome × World} (ih : SimExec ex) {w : World} {c : Cfg} {n : Nat}
    {t : Task} (hs : Sim w c) (ht : w.pending[n]? = some t)
    (hok : (runTask .now ex t { w with pending := w.pending.eraseIdx n }).oof = false) :
    ∃ c', Runs c c' ∧ Sim (runTask .now ex t { w with pending := w.pending.eraseIdx n }) c' ∧ Keeps c c' none ∧ News c c' none := by
  obtain ⟨j, hj, hrest⟩ := waiting_pick c.gs w.pending n t hs.pend ht
  obtain ⟨hokr, heq⟩ := runTask_ok hok
  rw [heq]
  generalize hw0 : ({ w with pending := w.pending.eraseIdx n } : World) = w0 at hokr
  have hsw0 : strip w0 = strip w := by rw [← hw0]; rfl
  have hpw0 : w0.pending = w.pending.eraseIdx n := by rw [← hw0]
  -- the goroutine starts: Init, Set, the doer tags its context
  let w1 := setTag t.ctx (1000 + t.gid) (note t.gid t.ctx (tlFresh t.gid t.ctx w0))
  have hjl := lt_of_getElem? hj
  have e1 : c.step j = { w := strip w1, gs := c.gs.set j (mkG t.gid t.ctx false [.run t.prog t.ctx, .endG]) } := by
    have : tlSet t.gid ctxKey t.ctx (tlInit t.gid (strip w)) = some (strip (tlFresh t.gid t.ctx w0)) := by
      rw [tlSet_tlInit, ← hsw0]; rfl
    simp only [Cfg.step, hj, hs.world, stepG, U, Bool.not_false, if_true, this]
    simp only [Option.toList, List.append_nil, mkG]
    rfl
  have s1 : Sim w1 (c.step j) := by
    rw [e1]
    exact ⟨rfl, by show waiting (c.gs.set j _) = w0.pending.map U; rw [hpw0]; exact hrest _ rfl⟩
  have k1 : Keeps c (c.step j) none := by
    intro j' gj _ h hst
    have hne : ¬ j = j' := by
      intro hjj; subst hjj
      rw [hj] at h
      have := Option.some.inj h
      rw [← this] at hst
      simp [U] at hst
    rw [e1]; simp [List.getElem?_set, hne, h]
  have a1 : (c.step j).gs[j]? = some (mkG t.gid t.ctx false [.run t.prog t.ctx, .endG]) := by
    rw [e1]; simp [hjl]
  -- its body
  obtain ⟨c2, p2⟩ := ih t.prog t.gid t.ctx w1 (c.step j) j t.ctx [.endG] s1 a1 hokr
  generalize hr : ex t.prog t.gid t.ctx w1 = r at p2 hokr
  -- the bottom of the goroutine: the outcome is recorded, the deferred Cleanup runs
  have p3 : Post (tlCleanup t.gid (emit t.gid (.done r.1) r.2)) c2 (c2.step j) j (mkG t.gid t.ctx false []) := by
    refine one_step p2.sim p2.here rfl rfl ?_ rfl
    rcases r with ⟨o, w2⟩
    cases o with
    | fuel => exact absurd rfl hokr.1
    | normal => simp [stepG, mkG, pnOf]; rfl
    | panicked => simp [stepG, mkG, pnOf]; rfl
  have n1 : News c (c.step j) (some j) := by
    intro j' gj hj' h _
    have hne : ¬ j = j' := fun h' => hj' (by rw [h'])
    rw [e1] at h
    simp only [List.getElem?_set, hne, if_false] at h
    exact Or.inl h
  refine ⟨c2.step j, (Runs.step c j).trans (p2.runs.trans p3.runs), p3.sim, ?_, ?_⟩
  · intro j' gj _ h hst
    have hne : j' ≠ j := by
      intro hjj; subst hjj
      rw [hj] at h
      have := Option.some.inj h
      rw [← this] at hst
      simp [U] at hst
    have hne' : some j' ≠ some j := by simpa using hne
    exact p3.keeps j' gj hne' (p2.keeps j' gj hne' (k1 j' gj (by simp) h hst) hst) hst
  · intro j' gj _ h hst
    by_cases hjj : j' = j
    · subst hjj
      rw [p3.here] at h
      right
      rw [← Option.some.inj h]; rfl
    · have hne' : some j' ≠ some j := by simpa using hjj
      exact (n1.trans (p2.news.trans p3.news)) j' gj hne' h hst

/-- a scheduling point -/
theorem sim_yield {ex : Prog → Gid → CtxId → World → Outcome × World} (ih : SimExec ex) {w : World} {c : Cfg} (hs : Sim w c)
    (hok : (yield .now ex w).oof = false) :
    ∃ c', Runs c c' ∧ Sim (yield .now ex w) c' ∧ Keeps c c' none ∧ News c c' none := by
  unfold yield at hok ⊢
  split
  · exact ⟨c, Runs.refl c, hs, Keeps.refl c none, News.refl c none⟩
  · rename_i d s hsched
    have s1 : Sim { w with sched := s } c := ⟨hs.world, hs.pend⟩
    simp only [hsched] at hok
    simp only
    split
    · exact ⟨c, Runs.refl c, s1, Keeps.refl c none, News.refl c none⟩
    · rename_i hd
      simp only [hd, if_false] at hok
      split
      · exact ⟨c, Runs.refl c, s1, Keeps.refl c none, News.refl c none⟩
      · rename_i t ht
        simp only [ht] at hok
        exact sim_runTask ih (w := { w with sched := s }) s1 ht hok

theorem dwcEnter_some (g : Gid) (cx : CtxId) (w : World) : ∃ save w2, dwcEnter g cx w = some (save, w2) := by
  unfold dwcEnter
  cases hg : tlGet g ctxKey w with
  | some save =>
    simp only
    cases ht : w.tls g with
    | none => simp [tlGet, ht] at hg
    | some t => simp [tlSet, ht]
  | none => simp only [tlSet_tlInit]; exact ⟨_, _, rfl⟩

theorem Post.same {w : World} {c : Cfg} {i : Nat} {g : GS} (hs : Sim w c) (hi : c.gs[i]? = some g) : Post w c c i g :=
  ⟨Runs.refl c, hs, hi, Keeps.refl c _, News.refl c _⟩

/-- a micro-step that only changes the goroutine's own continuation -/
theorem silent_step {w : World} {c : Cfg} {i : Nat} {g g' : GS} (hs : Sim w c) (hi : c.gs[i]? = some g)
    (hst : g.started = true) (hst' : g'.started = true)
    (hstep : ∀ w0, stepG g w0 = { g := g', w := w0, spawned := none }) : Post w c (c.step i) i g' :=
  one_step hs hi hst hst' (hstep _) rfl

/-- the deferred `recover()` of `TryWithParent` (`ctch`), or nothing -/
theorem sim_catch {w : World} {c : Cfg} {i : Nat} {gid ctx0 : Nat} {ctch : Bool} {k : List Frame} {o : Outcome}
    (hs : Sim w c) (hi : c.gs[i]? = some (mkG gid ctx0 (pnOf o) ((if ctch then [Frame.catchK] else []) ++ k))) (ho : o ≠ .fuel) :
    ∃ c', Post (if ctch = true ∧ o = .panicked then (Outcome.normal, emit gid .recovered w) else (o, w)).2 c c' i
      (mkG gid ctx0 (pnOf (if ctch = true ∧ o = .panicked then (Outcome.normal, emit gid .recovered w) else (o, w)).1) k) := by
  cases ctch with
  | false => exact ⟨c, by simpa using Post.same hs (by simpa using hi)⟩
  | true =>
    simp only [if_true, List.singleton_append, true_and] at hi ⊢
    cases o with
    | fuel => exact absurd rfl ho
    | normal =>
      refine ⟨c.step i, ?_⟩
      simp only [reduceCtorEq, if_false]
      exact silent_step hs hi rfl rfl (fun w0 => by simp [stepG, mkG, pnOf])
    | panicked =>
      refine ⟨c.step i, ?_⟩
      simp only [if_true]
      refine one_step hs hi rfl rfl ?_ rfl
      simp [stepG, mkG, pnOf]; rfl

/-- body and deferred function of `DoWithContext`, once the entry has been simulated -/
theorem sim_dwc {c : Cfg} {i : Nat} {gid ctx0 : Nat} {save : Option CtxId} {k : List Frame} {rb : Outcome × World}
    (hbody : okR rb → ∃ c', Post rb.2 c c' i (mkG gid ctx0 (pnOf rb.1) (.restoreCtx save :: k)))
    (hok : okR (exitB gid save rb)) :
    ∃ c', Post (exitB gid save rb).2 c c' i (mkG gid ctx0 (pnOf (exitB gid save rb).1) k) := by
  have hokb : okR rb := ⟨exitB_fuel hok.1, by rw [← (exitB_pending gid save rb).2]; exact hok.2⟩
  obtain ⟨c1, p1⟩ := hbody hokb
  exact ⟨c1.step i, p1.trans (sim_exit p1.sim p1.here hokb.1)⟩

/-- `DoWithParent` / `TryWithParent` with a `px.Context` parent (the frame `.parent`) -/
theorem sim_parent {ex : Prog → Gid → CtxId → World → Outcome × World} (ih : SimExec ex) {w : World} {c : Cfg} {i : Nat}
    {gid ctx0 id : Nat} {ctch : Bool} {p : Prog} {root : CtxId} {k : List Frame}
    (hs : Sim w c) (hi : c.gs[i]? = some (mkG gid ctx0 false (.parent id ctch p root :: k)))
    (hok : okR (doParent .now gid id ctch (fun cx w1 => ex p gid cx w1) root w)) :
    ∃ c', Post (doParent .now gid id ctch (fun cx w1 => ex p gid cx w1) root w).2 c c' i
      (mkG gid ctx0 (pnOf (doParent .now gid id ctch (fun cx w1 => ex p gid cx w1) root w).1) k) := by
  unfold doParent at hok ⊢
  rw [doWithContext_eq] at hok ⊢
  obtain ⟨save, w5, hd⟩ := dwcEnter_some gid (forkCtx root w).1 (forkCtx root w).2
  simp only [hd] at hok ⊢
  generalize hrb : ex p gid (forkCtx root w).1 (setTag (forkCtx root w).1 id w5) = rb at hok ⊢
  -- entry
  have hx := dwcEnter_strip gid (forkCtx root w).1 (forkCtx root w).2
  rw [hd] at hx
  have p0 : Post (setTag (forkCtx root w).1 id w5) c (c.step i) i
      (mkG gid ctx0 false (.run p (forkCtx root w).1 :: .restoreCtx save :: ((if ctch then [Frame.catchK] else []) ++ k))) := by
    refine one_step hs hi rfl rfl ?_ ?_
    · simp only [forkCtx_fst] at hx
      simp [stepG, mkG, forkCtx_strip, hx]; rfl
    · exact (dwcEnter_pending hd).1
  -- what is left after the inner DoWithContext: catch
  have hokx : okR (exitB gid save rb) := by
    refine ⟨?_, ?_⟩
    · intro hf; apply hok.1; simp [hf]
    · have := hok.2
      split at this
      · exact this
      · exact this
  obtain ⟨c2, p2⟩ := sim_dwc (c := c.step i) (i := i) (ctx0 := ctx0) (k := (if ctch then [Frame.catchK] else []) ++ k)
    (fun hb => by
      have := ih p gid (forkCtx root w).1 (setTag (forkCtx root w).1 id w5) (c.step i) i ctx0
        (.restoreCtx save :: ((if ctch then [Frame.catchK] else []) ++ k)) p0.sim p0.here (by rw [hrb]; exact hb)
      rw [hrb] at this; exact this) hokx
  obtain ⟨c3, p3⟩ := sim_catch p2.sim p2.here hokx.1
  exact ⟨c3, p0.trans (p2.trans p3)⟩

/-- `pcore.Do` / `pcore.Try` -/
theorem sim_doDo {ex : Prog → Gid → CtxId → World → Outcome × World} (ih : SimExec ex) {w : World} {c : Cfg} {i : Nat}
    {gid ctx0 id : Nat} {ctch : Bool} {p : Prog} {k : List Frame}
    (hs : Sim w c)
    (hi : ∃ k0, c.gs[i]? = some (mkG gid ctx0 false k0) ∧
      stepG (mkG gid ctx0 false k0) (strip w) = doEnter (mkG gid ctx0 false k0) k id ctch p (strip w))
    (hok : okR (doDo .now gid id ctch (fun cx w1 => ex p gid cx w1) w)) :
    ∃ c', Post (doDo .now gid id ctch (fun cx w1 => ex p gid cx w1) w).2 c c' i
      (mkG gid ctx0 (pnOf (doDo .now gid id ctch (fun cx w1 => ex p gid cx w1) w).1) k) := by
  obtain ⟨k0, hi, hstep0⟩ := hi
  simp only [doDo] at hok ⊢
  rw [doWithContext_eq] at hok ⊢
  obtain ⟨save, w2, hd⟩ := dwcEnter_some gid (newCtx { loader := [0] } w).1 (newCtx { loader := [0] } w).2
  simp only [hd] at hok ⊢
  have hx := dwcEnter_strip gid (newCtx { loader := [0] } w).1 (newCtx { loader := [0] } w).2
  rw [hd] at hx
  have p0 : Post w2 c (c.step i) i
      (mkG gid ctx0 false (.parent id ctch p (newCtx { loader := [0] } w).1 :: .restoreCtx save :: k)) := by
    refine one_step hs hi rfl rfl ?_ ?_
    · rw [hstep0]
      simp only [doEnter, mkG, newCtx_strip, hx]
      rfl
    · exact (dwcEnter_pending hd).1
  obtain ⟨c2, p2⟩ := sim_dwc (c := c.step i) (i := i) (ctx0 := ctx0) (k := k)
    (fun hb => sim_parent ih p0.sim p0.here hb) hok
  exact ⟨c2, p0.trans p2⟩

theorem okR_fst {r : Outcome × World} (h : okR r) : r.1 = .normal ∨ r.1 = .panicked := by
  rcases r with ⟨o, w⟩
  cases o with
  | fuel => exact absurd rfl h.1
  | normal => exact Or.inl rfl
  | panicked => exact Or.inr rfl

/-- the induction step -/
theorem sim_exec_succ {f : Nat} (ih : SimExec (exec .now f)) : SimExec (exec .now (f + 1)) := by
  have hm := exec_oof_mono f
  intro p gid c w cfg i ctx0 k hs hi hok
  cases p with
  | skip =>
    have p0 : Post w cfg (cfg.step i) i (mkG gid ctx0 false k) := silent_step hs hi rfl rfl (fun w0 => by simp [stepG, mkG])
    exact ⟨cfg.step i, p0⟩
  | leaf l =>
    simp only [exec] at hok ⊢
    have hoky : (yield .now (exec .now f) w).oof = false := by
      rw [← (leafStep_pending gid c l _).2]; exact hok.2
    obtain ⟨c1, r1, s1, k1, n1⟩ := sim_yield ih hs hoky
    have hi1 := k1 i _ (by simp) hi rfl
    generalize yield .now (exec .now f) w = wy at hok s1 ⊢
    have hls := leafStep_strip gid c l wy
    refine ⟨c1.step i, ⟨r1.trans (Runs.step c1 i), ?_, ?_, ?_, ?_⟩⟩
    all_goals
      have p1 : Post (leafStep gid c l wy).2 c1 (c1.step i) i (mkG gid ctx0 (pnOf (leafStep gid c l wy).1) k) := by
        refine one_step s1 hi1 rfl rfl ?_ (leafStep_pending gid c l wy).1
        rcases leafStep_outcome gid c l wy with ho | ho
        · simp [stepG, mkG, hls, ho, pnOf]
        · simp [stepG, mkG, hls, ho, pnOf, panicS]
    · exact p1.sim
    · exact p1.here
    · exact (k1.weaken).trans p1.keeps
    · exact (n1.weaken).trans p1.news
  | seq p q =>
    simp only [exec] at hok ⊢
    have p0 : Post w cfg (cfg.step i) i (mkG gid ctx0 false (.run p c :: .run q c :: k)) :=
      silent_step hs hi rfl rfl (fun w0 => by simp [stepG, mkG])
    generalize hr1 : exec .now f p gid c w = r1 at hok ⊢
    rcases r1 with ⟨o1, w1⟩
    cases o1 with
    | fuel => exact absurd rfl hok.1
    | normal =>
      simp only at hok ⊢
      have hok1 : okR (exec .now f p gid c w) := by
        rw [hr1]; exact ⟨by simp, oof_false_of hm hok.2⟩
      obtain ⟨c2, p2⟩ := ih p gid c w (cfg.step i) i ctx0 (.run q c :: k) p0.sim p0.here hok1
      rw [hr1] at p2
      obtain ⟨c3, p3⟩ := ih q gid c w1 c2 i ctx0 k p2.sim p2.here hok
      exact ⟨c3, p0.trans (p2.trans p3)⟩
    | panicked =>
      simp only at hok ⊢
      have hok1 : okR (exec .now f p gid c w) := by rw [hr1]; exact hok
      obtain ⟨c2, p2⟩ := ih p gid c w (cfg.step i) i ctx0 (.run q c :: k) p0.sim p0.here hok1
      rw [hr1] at p2
      have p3 : Post w1 c2 (c2.step i) i (mkG gid ctx0 true k) :=
        silent_step p2.sim p2.here rfl rfl (fun w0 => by simp [stepG, mkG, pnOf])
      exact ⟨c2.step i, p0.trans (p2.trans p3)⟩
  | recover p =>
    simp only [exec] at hok ⊢
    have p0 : Post w cfg (cfg.step i) i (mkG gid ctx0 false (.run p c :: .catchK :: k)) :=
      silent_step hs hi rfl rfl (fun w0 => by simp [stepG, mkG])
    generalize hr1 : exec .now f p gid c w = r1 at hok ⊢
    rcases r1 with ⟨o1, w1⟩
    cases o1 with
    | fuel => exact absurd rfl hok.1
    | normal =>
      simp only at hok ⊢
      have hok1 : okR (exec .now f p gid c w) := by rw [hr1]; exact hok
      obtain ⟨c2, p2⟩ := ih p gid c w (cfg.step i) i ctx0 (.catchK :: k) p0.sim p0.here hok1
      rw [hr1] at p2
      have p3 : Post w1 c2 (c2.step i) i (mkG gid ctx0 false k) :=
        silent_step p2.sim p2.here rfl rfl (fun w0 => by simp [stepG, mkG, pnOf])
      exact ⟨c2.step i, p0.trans (p2.trans p3)⟩
    | panicked =>
      simp only at hok ⊢
      have hok1 : okR (exec .now f p gid c w) := by rw [hr1]; exact ⟨by simp, hok.2⟩
      obtain ⟨c2, p2⟩ := ih p gid c w (cfg.step i) i ctx0 (.catchK :: k) p0.sim p0.here hok1
      rw [hr1] at p2
      have p3 : Post (emit gid .recovered w1) c2 (c2.step i) i (mkG gid ctx0 false k) := by
        refine one_step p2.sim p2.here rfl rfl ?_ rfl
        simp [stepG, mkG, pnOf]; rfl
      exact ⟨c2.step i, p0.trans (p2.trans p3)⟩
  | doctx id p =>
    simp only [exec] at hok ⊢
    rw [doWithContext_eq] at hok ⊢
    obtain ⟨save, w2, hd⟩ := dwcEnter_some gid (forkCtx c w).1 (setTag (forkCtx c w).1 id (forkCtx c w).2)
    simp only [hd] at hok ⊢
    have hx := dwcEnter_strip gid (forkCtx c w).1 (setTag (forkCtx c w).1 id (forkCtx c w).2)
    rw [hd] at hx
    have p0 : Post w2 cfg (cfg.step i) i (mkG gid ctx0 false (.run p (forkCtx c w).1 :: .restoreCtx save :: k)) := by
      refine one_step hs hi rfl rfl ?_ ?_
      · have e : setTag (forkCtx c w).1 id (strip (forkCtx c w).2) = strip (setTag (forkCtx c w).1 id (forkCtx c w).2) := rfl
        simp only [forkCtx_fst] at hx e
        simp [stepG, mkG, forkCtx_strip, e, hx]
      · exact (dwcEnter_pending hd).1
    obtain ⟨c2, p2⟩ := sim_dwc (c := cfg.step i) (i := i) (ctx0 := ctx0) (k := k)
      (fun hb => ih p gid (forkCtx c w).1 w2 (cfg.step i) i ctx0 (.restoreCtx save :: k) p0.sim p0.here hb) hok
    exact ⟨c2, p0.trans p2⟩
  | dodo id p =>
    simp only [exec] at hok ⊢
    exact sim_doDo ih hs ⟨_, hi, by simp [stepG, mkG]⟩ hok
  | dotry id p =>
    simp only [exec] at hok ⊢
    exact sim_doDo ih hs ⟨_, hi, by simp [stepG, mkG]⟩ hok
  | doloader p =>
    simp only [exec] at hok ⊢
    have p0 : Post (ctxUpd c (fun y => { y with loader := (newLoader w).1 :: (w.ctxs c).loader }) (newLoader w).2) cfg (cfg.step i) i
        (mkG gid ctx0 false (.run p c :: .restoreLoader c (w.ctxs c).loader :: k)) := by
      refine one_step hs hi rfl rfl ?_ rfl
      rfl
    generalize hw1 : ctxUpd c (fun y => { y with loader := (newLoader w).1 :: (w.ctxs c).loader }) (newLoader w).2 = w1 at hok p0 ⊢
    have hok1 : okR (exec .now f p gid c w1) := ⟨hok.1, hok.2⟩
    obtain ⟨c2, p2⟩ := ih p gid c w1 (cfg.step i) i ctx0 (.restoreLoader c (w.ctxs c).loader :: k) p0.sim p0.here hok1
    generalize exec .now f p gid c w1 = r at hok hok1 p2 ⊢
    have p3 : Post (ctxUpd c (fun y => { y with loader := (w.ctxs c).loader }) r.2) c2 (c2.step i) i (mkG gid ctx0 (pnOf r.1) k) := by
      refine one_step p2.sim p2.here rfl rfl ?_ rfl
      rcases r with ⟨o, wr⟩
      cases o with
      | fuel => exact absurd rfl hok1.1
      | normal => rfl
      | panicked => rfl
    exact ⟨c2.step i, p0.trans (p2.trans p3)⟩
  | fork p =>
    simp only [exec] at hok ⊢
    refine ⟨cfg.step i, ?_⟩
    refine one_step_spawn (t := { gid := w.nextGid, ctx := w.nextCtx, prog := p }) hs hi rfl rfl ?_ rfl
    rfl
  | go p =>
    simp only [exec] at hok ⊢
    cases hg : tlGet gid ctxKey w with
    | none =>
      simp only [hg] at hok ⊢
      refine ⟨cfg.step i, one_step hs hi rfl rfl ?_ rfl⟩
      simp [stepG, mkG, tlGet_strip, hg, panicS, pnOf]
    | some cur =>
      simp only [hg] at hok ⊢
      refine ⟨cfg.step i, ?_⟩
      refine one_step_spawn (t := { gid := w.nextGid, ctx := w.nextCtx, prog := p }) hs hi rfl rfl ?_ rfl
      have hg' : tlGet gid ctxKey (strip w) = some cur := hg
      simp only [stepG, mkG, Bool.not_true, Bool.false_eq_true, if_false, hg']
      rfl

/-- **every big-step execution of a body is a small-step execution**, for every fuel -/
theorem sim_exec : ∀ f, SimExec (exec .now f) := by
  intro f
  induction f with
  | zero => intro p gid c w cfg i ctx0 k _ _ hok; exact absurd rfl hok.1
  | succ f ih => exact sim_exec_succ ih

/-! ## the whole op -/

theorem drain_oof (fuel : Nat) : ∀ (n : Nat) (w : World), w.oof = true → (drain .now fuel n w).oof = true := by
  intro n
  induction n with
  | zero => intro w h; simp [drain, h]
  | succ n ih =>
    intro w h
    simp only [drain]
    split
    · exact h
    · exact ih _ (runTask_oof (exec_oof_mono fuel) h)

theorem sim_drain (fuel : Nat) : ∀ (n : Nat) (w : World) (c : Cfg), Sim w c → (drain .now fuel n w).oof = false →
    ∃ c', Runs c c' ∧ Sim (drain .now fuel n w) c' ∧ Keeps c c' none ∧ News c c' none ∧ (drain .now fuel n w).pending = [] := by
  intro n
  induction n with
  | zero =>
    intro w c hs hok
    simp only [drain] at hok ⊢
    have h' : (w.oof || !w.pending.isEmpty) = false := hok
    simp only [Bool.or_eq_false_iff, Bool.not_eq_false', List.isEmpty_iff] at h'
    refine ⟨c, Runs.refl c, ⟨?_, hs.pend⟩, Keeps.refl c none, News.refl c none, h'.2⟩
    rw [hs.world]
    show strip w = strip { w with oof := w.oof || !w.pending.isEmpty }
    have : (w.oof || !w.pending.isEmpty) = w.oof := by rw [h'.1, h'.2]; rfl
    rw [this]
  | succ n ih =>
    intro w c hs hok
    simp only [drain] at hok ⊢
    split
    · rename_i hp
      exact ⟨c, Runs.refl c, hs, Keeps.refl c none, News.refl c none, hp⟩
    · rename_i t r hp
      simp only [hp] at hok
      have ht : w.pending[0]? = some t := by rw [hp]; rfl
      have he : r = w.pending.eraseIdx 0 := by rw [hp]; rfl
      rw [he] at hok ⊢
      have hok1 : (runTask .now (exec .now fuel) t { w with pending := w.pending.eraseIdx 0 }).oof = false := by
        cases ho : (runTask .now (exec .now fuel) t { w with pending := w.pending.eraseIdx 0 }).oof with
        | false => rfl
        | true => rw [drain_oof fuel n _ ho] at hok; cases hok
      obtain ⟨c1, r1, s1, k1, n1⟩ := sim_runTask (sim_exec fuel) hs ht hok1
      obtain ⟨c2, r2, s2, k2, n2, hp2⟩ := ih _ c1 s1 hok
      exact ⟨c2, r1.trans r2, s2, k1.trans k2, n1.trans n2, hp2⟩

/-- **Refinement.**  Whatever the program and the oracle: if the big-step run does not run out of fuel, some schedule of
micro-steps of the small-step semantics leads from the initial configuration to a configuration in which every goroutine has
ended and whose shared state — goroutine-local tables, context objects, loader entries, observation log, ghost `estab`, all
counters — is exactly the big-step result (`strip` only forgets the big-step model's own `pending`/`sched`, which are empty /
irrelevant at the end). -/
theorem run_refines (sched : List Nat) (p : Prog) (hok : (run .now sched p).oof = false) :
    ∃ steps, (Cfg.steps steps (Cfg.init p)).w = strip (run .now sched p) ∧
      (∀ g ∈ (Cfg.steps steps (Cfg.init p)).gs, g.done = true) ∧ (run .now sched p).pending = [] := by
  simp only [run] at hok ⊢
  have s0 : Sim { sched := sched } (Cfg.init p) := ⟨rfl, rfl⟩
  have hi0 : (Cfg.init p).gs[0]? = some (mkG 0 0 false [.run (.dodo 1000 p) 0, .endRoot]) := rfl
  generalize hr : exec .now (fuelFor p) (.dodo 1000 p) 0 0 { sched := sched } = r at hok ⊢
  have hokd : (drain .now (fuelFor p) (fuelFor p)
      { emit 0 (.done r.1) r.2 with oof := (emit 0 (.done r.1) r.2).oof || decide (r.1 = .fuel) }).oof = false := hok
  have hok0 : ({ emit 0 (.done r.1) r.2 with oof := (emit 0 (.done r.1) r.2).oof || decide (r.1 = .fuel) } : World).oof = false := by
    cases ho : ({ emit 0 (.done r.1) r.2 with oof := (emit 0 (.done r.1) r.2).oof || decide (r.1 = .fuel) } : World).oof with
    | false => rfl
    | true => rw [drain_oof _ _ _ ho] at hokd; cases hokd
  have h' : (r.2.oof || decide (r.1 = .fuel)) = false := hok0
  simp only [Bool.or_eq_false_iff, decide_eq_false_iff_not] at h'
  have hokr : okR (exec .now (fuelFor p) (.dodo 1000 p) 0 0 { sched := sched }) := by rw [hr]; exact ⟨h'.2, h'.1⟩
  obtain ⟨c1, p1⟩ := sim_exec (fuelFor p) (.dodo 1000 p) 0 0 { sched := sched } (Cfg.init p) 0 0 [.endRoot] s0 hi0 hokr
  rw [hr] at p1
  -- the bottom of the root goroutine records the outcome
  have p2 : Post (emit 0 (.done r.1) r.2) c1 (c1.step 0) 0 (mkG 0 0 false []) := by
    refine one_step p1.sim p1.here rfl rfl ?_ rfl
    rcases r with ⟨o, wr⟩
    cases o with
    | fuel => exact absurd rfl h'.2
    | normal => rfl
    | panicked => rfl
  have e0 : ({ emit 0 (.done r.1) r.2 with oof := (emit 0 (.done r.1) r.2).oof || decide (r.1 = .fuel) } : World) =
      emit 0 (.done r.1) r.2 := by
    have : decide (r.1 = Outcome.fuel) = false := by simpa using h'.2
    simp only [this, Bool.or_false]
  rw [e0] at hokd ⊢
  obtain ⟨c3, r3, s3, _, n3, hp3⟩ := sim_drain (fuelFor p) (fuelFor p) _ (c1.step 0) p2.sim hokd
  obtain ⟨is1, h1⟩ := p1.runs.trans (p2.runs.trans r3)
  refine ⟨is1, ?_, ?_, hp3⟩
  · rw [h1]; exact s3.world
  · rw [h1]
    intro g hg
    obtain ⟨j, hj⟩ := List.mem_iff_getElem?.1 hg
    -- every goroutine has started: nothing is pending
    have hst : g.started = true := by
      cases hs : g.started with
      | true => rfl
      | false =>
        have : g ∈ waiting c3.gs := by simp [waiting, hg, hs]
        rw [s3.pend, hp3] at this
        simp at this
    simp only [GS.done, hst, Bool.true_and, List.isEmpty_iff]
    rcases n3 j g (by simp) hj hst with h3 | h3
    · -- it was there when the root goroutine ended: the root itself, or one that had ended before
      by_cases hj0 : j = 0
      · subst hj0
        rw [p2.here] at h3
        rw [← Option.some.inj h3]; rfl
      · have hne : some j ≠ some 0 := by simpa using hj0
        rcases (p1.news.trans p2.news) j g hne h3 hst with h4 | h4
        · -- the initial configuration has one goroutine
          cases j with
          | zero => exact absurd rfl hj0
          | succ j => simp [Cfg.init] at h4
        · exact h4
    · exact h3

end Pcore.Tls
