import Pcore.Proofs.TlsSmall
/-!
Configuration invariant of the small-step semantics and its preservation by every micro-step of every goroutine
(`cinv_step`); `Reachable` and `reachable_inv`.
-/
namespace Pcore.Tls

/-! ## list helpers -/

theorem mem_set_cases {α : Type} {l : List α} {i : Nat} {a b : α} (h : a ∈ l.set i b) :
    a = b ∨ ∃ j, j ≠ i ∧ l[j]? = some a := by
  rw [List.mem_iff_getElem?] at h
  obtain ⟨j, hj⟩ := h
  rw [List.getElem?_set] at hj
  by_cases hij : i = j
  · subst hij
    simp only [if_true] at hj
    split at hj
    · left; exact (Option.some.inj hj).symm
    · cases hj
  · simp only [hij, if_false] at hj
    exact Or.inr ⟨j, fun h => hij h.symm, hj⟩

theorem mem_set_of_ne {α : Type} {l : List α} {i j : Nat} {a b : α} (hj : l[j]? = some a) (hne : j ≠ i) : a ∈ l.set i b := by
  rw [List.mem_iff_getElem?]
  have hne' : ¬ i = j := fun h => hne h.symm
  exact ⟨j, by rw [List.getElem?_set]; simp [hne', hj]⟩

theorem mem_set_self {α : Type} {l : List α} {i : Nat} {g b : α} (hi : l[i]? = some g) : b ∈ l.set i b := by
  rw [List.mem_iff_getElem?]
  refine ⟨i, ?_⟩
  rw [List.getElem?_set]
  have : i < l.length := by
    rcases Nat.lt_or_ge i l.length with h | h
    · exact h
    · rw [List.getElem?_eq_none h] at hi; cases hi
  simp [this]

theorem map_set_same {α β : Type} (f : α → β) {l : List α} {i : Nat} {g b : α} (hi : l[i]? = some g) (hf : f b = f g) :
    (l.set i b).map f = l.map f := by
  apply List.ext_getElem?
  intro j
  rw [List.getElem?_map, List.getElem?_set, List.getElem?_map]
  by_cases hij : i = j
  · subst hij
    have : i < l.length := by
      rcases Nat.lt_or_ge i l.length with h | h
      · exact h
      · rw [List.getElem?_eq_none h] at hi; cases hi
    have hg : l[i] = g := by rw [List.getElem?_eq_getElem this] at hi; exact Option.some.inj hi
    simp [this, hf, hg]
  · simp [hij]

/-- with distinct keys, elements at different positions have different keys -/
theorem key_ne_of_nodup {α β : Type} (f : α → β) :
    ∀ (l : List α) (i j : Nat) (a b : α), (l.map f).Nodup → l[i]? = some a → l[j]? = some b → i ≠ j → f a ≠ f b := by
  intro l i j a b hnd hi hj hij hfab
  have h1 : (l.map f)[i]? = some (f a) := by rw [List.getElem?_map, hi]; rfl
  have h2 : (l.map f)[j]? = some (f b) := by rw [List.getElem?_map, hj]; rfl
  rw [hfab] at h1
  have hi' : i < (l.map f).length := by
    rcases Nat.lt_or_ge i (l.map f).length with h | h
    · exact h
    · rw [List.getElem?_eq_none h] at h1; cases h1
  exact hij ((List.getElem?_inj hi' hnd).1 (h1.trans h2.symm))

/-! ## the invariant -/

structure CInv (c : Cfg) : Prop where
  winv : Inv c.w
  nopend : c.w.pending = []
  gok : ∀ g ∈ c.gs, GOK c.w g
  gidNodup : (c.gs.map (·.gid)).Nodup
  /-- goroutines that have not started yet were given different contexts -/
  ctx0Uniq : ∀ g ∈ c.gs, ∀ g' ∈ c.gs, g.started = false → g'.started = false → g.ctx0 = g'.ctx0 → g.gid = g'.gid
  /-- a goroutine-local table belongs to a goroutine that has started -/
  cover : ∀ gid, c.w.tls gid ≠ none → ∃ g ∈ c.gs, g.gid = gid ∧ g.started = true
  logOK : LogOK c.w

/-- a goroutine other than the one that steps keeps its invariant -/
theorem other_gok {c : Cfg} (hc : CInv c) {i : Nat} {g : GS} (hi : c.gs[i]? = some g) {r : StepR}
    (sp : GSpec g c.w r) {g' : GS} {j : Nat} (hj : c.gs[j]? = some g') (hji : j ≠ i) : GOK r.w g' := by
  have hgm : g ∈ c.gs := mem_of_getElem? hi
  have hgm' : g' ∈ c.gs := mem_of_getElem? hj
  have hne : g'.gid ≠ g.gid := key_ne_of_nodup (fun x : GS => x.gid) c.gs j i g' g hc.gidNodup hj hi hji
  have hok := hc.gok g' hgm'
  refine ⟨?_, ?_, ?_⟩
  · rw [sp.nextGid]; exact Nat.lt_of_lt_of_le hok.glt (Nat.le_add_right _ _)
  · intro hu
    obtain ⟨h1, h2, h3, h4, h5⟩ := hok.unst hu
    refine ⟨by rw [sp.loc.tls _ hne]; exact h1, Nat.lt_of_lt_of_le h2 sp.ctxMono, ?_, h4, h5⟩
    intro g'' hm
    rcases sp.loc.est _ hm with h | ⟨_, h⟩
    · exact h3 g'' h
    · rcases h with h | h
      · exact absurd h2 (Nat.not_lt.mpr h)
      · cases hs : g.started with
        | true => simp [hs] at h
        | false =>
          simp only [hs, Bool.false_eq_true, if_false, Option.some.injEq] at h
          exact hne (hc.ctx0Uniq g' hgm' g hgm hu hs h)
  · intro hs
    have h := hok.st hs
    have ht : tlGet g'.gid ctxKey r.w = tlGet g'.gid ctxKey c.w := by simp only [tlGet, sp.loc.tls _ hne]
    rw [ht]
    exact StackOK.mono sp.estMono h

theorem cinv_step {c : Cfg} (hc : CInv c) (i : Nat) : CInv (c.step i) := by
  unfold Cfg.step
  cases hi : c.gs[i]? with
  | none => exact hc
  | some g =>
    have hgm : g ∈ c.gs := mem_of_getElem? hi
    have sp := stepG_spec hc.winv hc.nopend (hc.gok g hgm)
    simp only
    generalize stepG g c.w = r at sp
    have hmem : ∀ a, a ∈ c.gs.set i r.g ++ r.spawned.toList →
        a = r.g ∨ (∃ j, j ≠ i ∧ c.gs[j]? = some a) ∨ r.spawned = some a := by
      intro a ha
      rw [List.mem_append] at ha
      rcases ha with ha | ha
      · rcases mem_set_cases ha with h | h
        · exact Or.inl h
        · exact Or.inr (Or.inl h)
      · right; right
        cases hs : r.spawned with
        | none => simp [hs] at ha
        | some n => simp [hs] at ha; rw [ha]
    have hgok : ∀ a, a ∈ c.gs.set i r.g ++ r.spawned.toList → GOK r.w a := by
      intro a ha
      rcases hmem a ha with h | ⟨j, hji, hj⟩ | h
      · rw [h]; exact sp.gok
      · exact other_gok hc hi sp hj hji
      · exact (sp.spawned a h).2.1
    have hspg : ∀ n, r.spawned = some n → ∀ a ∈ c.gs, a.gid ≠ n.gid := by
      intro n hn a ha hc'
      have := (hc.gok a ha).glt
      rw [hc', (sp.spawned n hn).1] at this
      exact Nat.lt_irrefl _ this
    exact {
      winv := sp.inv
      nopend := sp.pend
      gok := hgok
      gidNodup := by
        rw [List.map_append, map_set_same (fun x : GS => x.gid) hi sp.gid]
        cases hs : r.spawned with
        | none => simpa using hc.gidNodup
        | some n =>
          simp only [Option.toList_some, List.map_cons, List.map_nil]
          rw [List.nodup_append]
          refine ⟨hc.gidNodup, by simp, ?_⟩
          intro x hx y hy
          simp only [List.mem_singleton] at hy
          simp only [List.mem_map] at hx
          obtain ⟨a, ha, hax⟩ := hx
          rw [hy, ← hax]
          exact hspg n hs a ha
      ctx0Uniq := by
        intro a ha b hb hua hub hab
        rcases hmem a ha with h1 | ⟨j1, hj1i, hj1⟩ | h1
        · rw [h1, sp.started] at hua; cases hua
        · rcases hmem b hb with h2 | ⟨j2, hj2i, hj2⟩ | h2
          · rw [h2, sp.started] at hub; cases hub
          · exact hc.ctx0Uniq a (mem_of_getElem? hj1) b (mem_of_getElem? hj2) hua hub hab
          · have h3 := ((hc.gok a (mem_of_getElem? hj1)).unst hua).2.1
            rw [hab, (sp.spawned b h2).2.2.2.1] at h3
            exact absurd h3 (Nat.lt_irrefl _)
        · rcases hmem b hb with h2 | ⟨j2, hj2i, hj2⟩ | h2
          · rw [h2, sp.started] at hub; cases hub
          · have h3 := ((hc.gok b (mem_of_getElem? hj2)).unst hub).2.1
            rw [← hab, (sp.spawned a h1).2.2.2.1] at h3
            exact absurd h3 (Nat.lt_irrefl _)
          · rw [h1] at h2; cases h2; rfl
      cover := by
        intro gid hne
        by_cases hg : gid = g.gid
        · refine ⟨r.g, List.mem_append_left _ (mem_set_self hi), by rw [sp.gid, hg], sp.started⟩
        · rw [sp.loc.tls gid hg] at hne
          obtain ⟨a, ha, hag, has⟩ := hc.cover gid hne
          rw [List.mem_iff_getElem?] at ha
          obtain ⟨j, hj⟩ := ha
          have hji : j ≠ i := by
            intro h; subst h
            rw [hi] at hj; cases hj
            exact hg hag.symm
          exact ⟨a, List.mem_append_left _ (mem_set_of_ne hj hji), hag, has⟩
      logOK := sp.logOK hc.logOK }

/-! ## reachable configurations -/

/-- any sequence of micro-steps of any goroutines -/
inductive Reachable (p : Prog) : Cfg → Prop
  | init : Reachable p (Cfg.init p)
  | step {c : Cfg} (i : Nat) : Reachable p c → Reachable p (c.step i)

theorem doEnter_spawned (g : GS) (k : List Frame) (id : Nat) (ctch : Bool) (p : Prog) (w : World) :
    (doEnter g k id ctch p w).spawned = none := by
  simp only [doEnter]
  cases dwcEnter g.gid (newCtx { loader := [0] } w).1 (newCtx { loader := [0] } w).2 with
  | none => rfl
  | some r => rfl

theorem init_step_succ (p : Prog) (i : Nat) : (Cfg.init p).step (i + 1) = Cfg.init p := by
  simp [Cfg.step, Cfg.init]

/-- after the root goroutine's first micro-step (`pcore.Do` entered) the invariant holds -/
theorem cinv_init1 (p : Prog) : CInv ((Cfg.init p).step 0) := by
  have hinv : Inv ({} : World) := inv_init []
  have sp := doEnter_spec (gid := 0) (ctx0 := 0) (k0 := [.run (.dodo 1000 p) 0, .endRoot]) (k := [.endRoot]) (id := 1000)
    (ctch := false) (p := p) (w := {}) hinv rfl (Nat.zero_lt_one) ⟨rfl, rfl⟩
  have hs := doEnter_spawned ⟨0, 0, true, false, [.run (.dodo 1000 p) 0, .endRoot]⟩ [.endRoot] 1000 false p {}
  have e : (Cfg.init p).step 0 =
      { w := (doEnter ⟨0, 0, true, false, [.run (.dodo 1000 p) 0, .endRoot]⟩ [.endRoot] 1000 false p {}).w
        gs := [(doEnter ⟨0, 0, true, false, [.run (.dodo 1000 p) 0, .endRoot]⟩ [.endRoot] 1000 false p {}).g] } := by
    simp [Cfg.step, Cfg.init, stepG, hs]
  rw [e]
  generalize doEnter ⟨0, 0, true, false, [.run (.dodo 1000 p) 0, .endRoot]⟩ [.endRoot] 1000 false p {} = r at sp
  exact {
    winv := sp.inv
    nopend := sp.pend
    gok := by intro g hg; simp at hg; rw [hg]; exact sp.gok
    gidNodup := by simp
    ctx0Uniq := by intro a ha b hb _ _ _; simp at ha hb; rw [ha, hb]
    cover := by
      intro gid hne
      have hg : gid = 0 := by
        by_cases h : gid = 0
        · exact h
        · exact absurd (by rw [sp.loc.tls gid h]) hne
      exact ⟨r.g, by simp, by rw [sp.gid, hg], sp.started⟩
    logOK := sp.logOK (fun _ h => by simp at h) }

/-- the invariant holds in every reachable configuration (the initial one excepted: goroutine 0 has no context yet) -/
theorem reachable_inv {p : Prog} {c : Cfg} (h : Reachable p c) : c = Cfg.init p ∨ CInv c := by
  induction h with
  | init => exact Or.inl rfl
  | step i _ ih =>
    rcases ih with ih | ih
    · subst ih
      cases i with
      | zero => exact Or.inr (cinv_init1 p)
      | succ i => exact Or.inl (init_step_succ p i)
    · exact Or.inr (cinv_step ih i)

/-- a schedule of micro-steps given by goroutine indices -/
def Cfg.steps : List Nat → Cfg → Cfg
  | [], c => c
  | i :: is, c => Cfg.steps is (c.step i)

theorem reachable_steps {p : Prog} : ∀ (is : List Nat) {c : Cfg}, Reachable p c → Reachable p (Cfg.steps is c) := by
  intro is
  induction is with
  | nil => intro c h; exact h
  | cons i is ih => intro c h; exact ih (Reachable.step i h)

/-! ## loader entries, per micro-step -/

theorem dwcEnter_defs {g cx w save w2} (h : dwcEnter g cx w = some (save, w2)) : w2.defs = w.defs ∧ w2.nextLoader = w.nextLoader := by
  unfold dwcEnter at h
  split at h
  · split at h
    · cases h
    · rename_i w1 hs
      cases h
      unfold tlSet at hs
      split at hs
      · cases hs
      · cases hs; exact ⟨rfl, rfl⟩
  · split at h
    · cases h
    · rename_i w1 hs
      cases h
      unfold tlSet at hs
      split at hs
      · cases hs
      · cases hs; exact ⟨rfl, rfl⟩

theorem dwcExit_defs {g save w w1} (h : dwcExit g save w = some w1) : w1.defs = w.defs := by
  unfold dwcExit at h
  split at h
  · unfold tlSet at h
    split at h
    · cases h
    · cases h; rfl
  · cases h; rfl

theorem leafStep_defs (g : Gid) (c : CtxId) (lf : Leaf) (w : World) (l : Nat) (hne : some l ≠ headOf w c) :
    (leafStep g c lf w).2.defs l = w.defs l := by
  cases lf with
  | obs => simp only [leafStep]; split <;> rfl
  | set k x => rfl
  | get k => rfl
  | del k => rfl
  | push n => rfl
  | pop => simp only [leafStep]; split <;> rfl
  | deftype n =>
    simp only [leafStep]
    split
    · rfl
    · rename_i hd tl heq
      have : l ≠ hd := by intro h; apply hne; simp [headOf, heq, h]
      unfold setEntry; split
      · rfl
      · simp [this]
  | load n =>
    simp only [leafStep]
    split
    · split
      · rfl
      · rename_i hd tl heq
        have : l ≠ hd := by intro h; apply hne; simp [headOf, heq, h]
        show (setEntry hd n false w).defs l = w.defs l
        unfold setEntry; split
        · rfl
        · simp [this]
    · rfl
  | panic => rfl


theorem setTag_defs (c : CtxId) (id : Nat) (w : World) : (setTag c id w).defs = w.defs := rfl

theorem newCtx_defs (x : Ctx) (w : World) : (newCtx x w).2.defs = w.defs := rfl
theorem newCtx_fst (x : Ctx) (w : World) : (newCtx x w).1 = w.nextCtx := rfl

theorem forkCtx_defs (c : CtxId) (w : World) (l : Nat) (hl : l ≠ w.nextLoader) : (forkCtx c w).2.defs l = w.defs l := by
  simp [forkCtx, newCtx, newLoader, hl]

/-- a micro-step writes an existing loader's entry table only if it is the defining loader (head of the chain) of the context
    of the stepping goroutine's next body frame -/
theorem stepG_defs (g : GS) (w : World) (l : Nat) (hl : l < w.nextLoader)
    (hne : ∀ q c k, g.k = .run q c :: k → some l ≠ headOf w c) : (stepG g w).w.defs l = w.defs l := by
  obtain ⟨gid, ctx0, st, pn, k⟩ := g
  have hnl : l ≠ w.nextLoader := Nat.ne_of_lt hl
  cases st with
  | false => simp [stepG, tlSet_tlInit, setTag_defs, note, tlFresh]
  | true =>
    cases pn with
    | true =>
      cases k with
      | nil => simp [stepG]
      | cons f k =>
        cases f with
        | run p c => simp [stepG]
        | parent id ctch p root => simp [stepG]
        | restoreCtx save =>
          cases h : dwcExit gid save w with
          | none => simp [stepG, h]
          | some w1 => simp [stepG, h, dwcExit_defs h]
        | restoreLoader c l' => simp [stepG, ctxUpd]
        | catchK => simp [stepG, emit]
        | endG => simp [stepG, emit, tlCleanup]
        | endRoot => simp [stepG, emit]
    | false =>
      cases k with
      | nil => simp [stepG]
      | cons f k =>
        cases f with
        | run p c =>
          cases p with
          | skip => simp [stepG]
          | seq p q => simp [stepG]
          | recover p => simp [stepG]
          | leaf lf =>
            have := leafStep_defs gid c lf w l (hne _ c k rfl)
            by_cases hp : (leafStep gid c lf w).1 = .panicked <;> simp [stepG, panicS, hp, this]
          | doctx id p =>
            cases h : dwcEnter gid w.nextCtx (setTag w.nextCtx id (forkCtx c w).2) with
            | none => simp [stepG, h, panicS, setTag_defs, forkCtx_defs c w l hnl]
            | some r =>
              obtain ⟨save, w2⟩ := r
              simp [stepG, h, (dwcEnter_defs h).1, setTag_defs, forkCtx_defs c w l hnl]
          | dodo id p =>
            cases h : dwcEnter gid w.nextCtx (newCtx { loader := [0] } w).2 with
            | none => simp [stepG, doEnter, newCtx_fst, h, panicS, newCtx_defs]
            | some r =>
              obtain ⟨save, w2⟩ := r
              simp [stepG, doEnter, newCtx_fst, h, (dwcEnter_defs h).1, newCtx_defs]
          | dotry id p =>
            cases h : dwcEnter gid w.nextCtx (newCtx { loader := [0] } w).2 with
            | none => simp [stepG, doEnter, newCtx_fst, h, panicS, newCtx_defs]
            | some r =>
              obtain ⟨save, w2⟩ := r
              simp [stepG, doEnter, newCtx_fst, h, (dwcEnter_defs h).1, newCtx_defs]
          | doloader p => simp [stepG, ctxUpd, newLoader, hnl]
          | fork p => simp [stepG, spawnS, forkCtx_defs c w l hnl]
          | go p =>
            cases h : tlGet gid ctxKey w with
            | none => simp [stepG, h, panicS]
            | some cur => simp [stepG, h, spawnS, forkCtx_defs cur w l hnl]
        | parent id ctch p root =>
          cases h : dwcEnter gid w.nextCtx (forkCtx root w).2 with
          | none => simp [stepG, h, panicS, forkCtx_defs root w l hnl]
          | some r =>
            obtain ⟨save, w2⟩ := r
            simp [stepG, h, (dwcEnter_defs h).1, setTag_defs, forkCtx_defs root w l hnl]
        | restoreCtx save =>
          cases h : dwcExit gid save w with
          | none => simp [stepG, h, panicS]
          | some w1 => simp [stepG, h, dwcExit_defs h]
        | restoreLoader c l' => simp [stepG, ctxUpd]
        | catchK => simp [stepG]
        | endG => simp [stepG, emit, tlCleanup]
        | endRoot => simp [stepG, emit]


end Pcore.Tls
