import Pcore.Proofs.DispatchRun
import Pcore.Proofs.DispatchStruct
import Pcore.Model.DispatchCtors
/-!
The modelled constructors of Integer, Boolean, Array/Tuple and Hash/Struct never reach a fault arm of their bodies: a body only runs with arguments its
declaration accepts (an instance of `run_first`).  Core Lean only.
-/
namespace Pcore.Dispatch.Alpha

theorem intFromConvertible_no_fault (v : Val) (r : Nat) (h : inst convertible v = true) :
    intFromConvertible v r ≠ .fault := by
  cases v <;> simp [convertible, anyTimespan, inst, instAny] at h <;> simp [intFromConvertible]
  split <;> simp

theorem asBool_of_inst (v : Val) (h : inst .bool v = true) : ∃ b, asBool v = some b := by
  cases v <;> simp [inst] at h
  exact ⟨_, rfl⟩

theorem applyAbs_no_fault (abs : Bool) (r : CtorResult Val) (h : r ≠ .fault) : applyAbs abs r ≠ .fault := by
  unfold applyAbs
  split
  · simp
  · exact h

/-- the two facts the `NamedArgs` bodies need from `StructType.IsInstance`: the member `from` is there with a value of its
    type, and the optional boolean member `abs` is absent or a boolean -/
theorem named_from {ms : List (String × Bool × Ty)} {es : List (Val × Val)} {t : Ty}
    (hm : ∀ m ∈ ms, (∃ x, lookupKey m.1 es = some x ∧ inst m.2.2 x = true) ∨ (m.2.1 = true ∧ lookupKey m.1 es = none))
    (hin : ("from", false, t) ∈ ms) : ∃ x, lookupKey "from" es = some x ∧ inst t x = true := by
  rcases hm _ hin with h | ⟨h, _⟩
  · exact h
  · cases h

theorem named_abs {ms : List (String × Bool × Ty)} {es : List (Val × Val)}
    (hm : ∀ m ∈ ms, (∃ x, lookupKey m.1 es = some x ∧ inst m.2.2 x = true) ∨ (m.2.1 = true ∧ lookupKey m.1 es = none))
    (hin : ("abs", true, Ty.bool) ∈ ms) :
    lookupKey "abs" es = none ∨ ∃ b, lookupKey "abs" es = some (.bool b) := by
  rcases hm _ hin with ⟨x, hl, hi⟩ | ⟨_, h⟩
  · right
    cases x <;> simp [inst] at hi
    exact ⟨_, hl⟩
  · exact Or.inl h

theorem integerBody1_no_fault (es : List (Val × Val))
    (hm : ∀ m ∈ [("from", false, convertible), ("radix", true, radixTy), ("abs", true, Ty.bool)],
      (∃ x, lookupKey m.1 es = some x ∧ inst m.2.2 x = true) ∨ (m.2.1 = true ∧ lookupKey m.1 es = none)) :
    integerBody1 es ≠ .fault := by
  obtain ⟨x, hl, hi⟩ := named_from (t := convertible) hm (by simp)
  have hx := intFromConvertible_no_fault x (namedRadix es) hi
  unfold integerBody1
  simp only [hl, Option.getD_some]
  rcases named_abs hm (by simp) with ha | ⟨b, ha⟩ <;> simp only [ha, asBool] <;> exact applyAbs_no_fault _ _ hx

/-- a constructor call either reports that no dispatch matches, or runs the body of a creator whose declaration the
    arguments satisfy -/
theorem ctorCall_cases (c : Ctor) (args : List Val) (hb : ∃ bs, buildAll c.creators = .ok bs) :
    ctorCall c args = .reported "ILLEGAL_ARGUMENTS" ∨
    ∃ i cr, c.creators[i]? = some cr ∧ CreatorAccepts inst binst cr args (none : Option Blk) ∧
      ctorCall c args = c.body i args := by
  unfold ctorCall
  cases h : run inst binst c.creators args (none : Option Blk) with
  | builderRejected p =>
    obtain ⟨bs, hbs⟩ := hb
    simp only [run, hbs] at h
    split at h <;> cases h
  | resolveFailed e => exact absurd h (run_no_fault inst binst _ args none e)
  | called o =>
    cases o with
    | reported => left; rfl
    | ran i =>
      right
      obtain ⟨cr, hcr, hacc, _⟩ := run_first inst binst _ args none i h
      exact ⟨i, cr, hcr, hacc, rfl⟩

theorem integer_no_fault (args : List Val) : ctorCall integerCtor args ≠ .fault := by
  rcases ctorCall_cases integerCtor args ⟨_, rfl⟩ with h | ⟨i, cr, hcr, hacc, hcall⟩
  · rw [h]; simp
  · rw [hcall]
    obtain ⟨⟨hreq, _, hargs⟩, _⟩ := hacc
    match i, hcr with
    | 0, hcr =>
      simp [integerCtor] at hcr; subst hcr
      simp only [paramsOf, List.filterMap, BOp.param?] at hreq hargs
      have h0 := hreq 0 (.req, convertible) (by simp) rfl
      match args, h0 with
      | a0 :: rest, _ =>
        obtain ⟨p0, hp0, hi0⟩ := hargs 0 a0 (by simp)
        simp at hp0; subst hp0
        simp only [integerCtor, integerBody0]
        have habs : ∃ b, absOf rest = some b := by
          match rest with
          | [] => exact ⟨_, rfl⟩
          | [_] => exact ⟨_, rfl⟩
          | a1 :: a2 :: more =>
            obtain ⟨p2, hp2, hi2⟩ := hargs 2 a2 (by simp)
            simp at hp2; subst hp2
            exact asBool_of_inst a2 hi2
        obtain ⟨b, hb⟩ := habs
        simp only [hb]
        exact applyAbs_no_fault _ _ (intFromConvertible_no_fault a0 (radixOf rest) hi0)
    | 1, hcr =>
      simp [integerCtor] at hcr; subst hcr
      simp only [paramsOf, List.filterMap, BOp.param?] at hreq hargs
      have h0 := hreq 0 (.req, integerNamedArgs) (by simp) rfl
      match args, h0 with
      | a0 :: rest, _ =>
        obtain ⟨p0, hp0, hi0⟩ := hargs 0 a0 (by simp)
        simp at hp0; subst hp0
        obtain ⟨es, rfl, -, hm⟩ := inst_struct _ (by decide) a0 hi0
        simp only [integerCtor]
        exact integerBody1_no_fault es hm
    | n + 2, hcr => simp [integerCtor] at hcr

theorem boolean_no_fault (args : List Val) : ctorCall booleanCtor args ≠ .fault := by
  rcases ctorCall_cases booleanCtor args ⟨_, rfl⟩ with h | ⟨i, cr, hcr, hacc, hcall⟩
  · rw [h]; simp
  · rw [hcall]
    obtain ⟨⟨hreq, _, hargs⟩, _⟩ := hacc
    match i, hcr with
    | 0, hcr =>
      simp [booleanCtor] at hcr; subst hcr
      simp only [paramsOf, List.filterMap, BOp.param?] at hreq hargs
      have h0 := hreq 0 (.req, boolParam) (by simp) rfl
      match args, h0 with
      | a0 :: rest, _ =>
        obtain ⟨p0, hp0, hi0⟩ := hargs 0 a0 (by simp)
        simp at hp0; subst hp0
        cases a0 <;> simp [boolParam, inst, instAny] at hi0 <;> simp [booleanCtor]
    | n + 1, hcr => simp [booleanCtor] at hcr

theorem array_no_fault (args : List Val) : ctorCall arrayCtor args ≠ .fault := by
  rcases ctorCall_cases arrayCtor args ⟨_, rfl⟩ with h | ⟨i, cr, hcr, hacc, hcall⟩
  · rw [h]; simp
  · rw [hcall]
    obtain ⟨⟨hreq, _, hargs⟩, _⟩ := hacc
    match i, hcr with
    | 0, hcr =>
      simp [arrayCtor] at hcr; subst hcr
      simp only [paramsOf, List.filterMap, BOp.param?] at hreq hargs
      have h0 := hreq 0 (.req, arrayParam) (by simp) rfl
      match args, h0 with
      | a0 :: rest, _ =>
        obtain ⟨p0, hp0, hi0⟩ := hargs 0 a0 (by simp)
        simp at hp0; subst hp0
        cases a0 with
        | arr vs =>
          match rest with
          | [] => simp [arrayCtor]
          | a1 :: more =>
            obtain ⟨p1, hp1, hi1⟩ := hargs 1 a1 (by simp)
            simp at hp1; subst hp1
            obtain ⟨b, hb⟩ := asBool_of_inst a1 hi1
            cases b <;> simp [arrayCtor, hb]
        | str s =>
          simp only [arrayCtor, stringElements]
          split <;> simp
        | int n => simp [arrayParam, inst, instAny] at hi0
        | float b => simp [arrayParam, inst, instAny] at hi0
        | binary bs => simp [arrayCtor]
        | timespan n => simp [arrayParam, inst, instAny] at hi0
        | bool b => simp [arrayParam, inst, instAny] at hi0
        | undef => simp [arrayParam, inst, instAny] at hi0
        | default => simp [arrayParam, inst, instAny] at hi0
        | hash es => simp [arrayCtor]
    | n + 1, hcr => simp [arrayCtor] at hcr

theorem hashFromArray_no_fault (vs : List Val) : hashFromArray vs ≠ .fault := by
  unfold hashFromArray
  split
  · split <;> simp
  · split <;> simp

/-! the tree walk: every entry the dispatch lets through is a `[path-array, value]` pair, so no assertion fails -/

def treePair (e : Val) : Prop := ∃ p x, e = .arr [.arr p, x]

theorem treePair_of_inst (e : Val) (h : inst (.tuple [.arr .any 0 none, .any]) e = true) : treePair e := by
  cases e <;> simp [inst] at h
  rename_i vs
  match vs, h with
  | [a, b], h =>
    simp [instZip, inst] at h
    cases a <;> simp at h
    exact ⟨_, _, rfl⟩
  | [], h => simp [instZip] at h
  | [_], h => simp [instZip] at h
  | _ :: _ :: _ :: _, h => simp [instZip] at h

theorem treeEntry_no_fault (allHashes : Bool) (root : List (Val × Node)) (e : Val) (h : treePair e) :
    treeEntry allHashes root e ≠ .fault := by
  obtain ⟨p, x, rfl⟩ := h
  simp only [treeEntry]
  split
  · simp
  · split
    · split
      · simp
      · split <;> simp
      · simp
    · simp

theorem treeLoop_no_fault (allHashes : Bool) (es : List Val) (h : ∀ e ∈ es, treePair e) (root : List (Val × Node)) :
    treeLoop allHashes root es ≠ .fault := by
  induction es generalizing root with
  | nil => simp [treeLoop]
  | cons e es ih =>
    simp only [treeLoop]
    have h1 := treeEntry_no_fault allHashes root e (h e (by simp))
    cases hs : treeEntry allHashes root e with
    | ok root' => exact ih (fun e' he' => h e' (by simp [he'])) root'
    | unmodelled => simp
    | fault => exact absurd hs h1

theorem hash_no_fault (args : List Val) : ctorCall hashCtor args ≠ .fault := by
  rcases ctorCall_cases hashCtor args ⟨_, rfl⟩ with h | ⟨i, cr, hcr, hacc, hcall⟩
  · rw [h]; simp
  · rw [hcall]
    obtain ⟨⟨hreq, _, hargs⟩, _⟩ := hacc
    match i, hcr with
    | 0, hcr =>
      simp [hashCtor] at hcr; subst hcr
      simp only [paramsOf, List.filterMap, BOp.param?] at hreq hargs
      have h0 := hreq 0 (.req, treeArray) (by simp) rfl
      match args, h0 with
      | a0 :: rest, _ =>
        obtain ⟨p0, hp0, hi0⟩ := hargs 0 a0 (by simp)
        simp at hp0; subst hp0
        cases a0 with
        | arr vs =>
          simp [treeArray, inst] at hi0
          match rest with
          | [] => simpa [hashCtor] using hashFromArray_no_fault vs
          | a1 :: more =>
            obtain ⟨p1, hp1, hi1⟩ := hargs 1 a1 (by simp)
            simp at hp1; subst hp1
            cases a1 <;> simp [inst] at hi1
            simp only [hashCtor, treeBody]
            exact treeLoop_no_fault _ vs (fun e he => treePair_of_inst e (hi0.2 e he)) []
        | _ => simp [treeArray, inst] at hi0
    | 1, hcr =>
      simp [hashCtor] at hcr; subst hcr
      simp only [paramsOf, List.filterMap, BOp.param?] at hreq hargs
      have h0 := hreq 0 (.req, keyValueArray) (by simp) rfl
      match args, h0 with
      | a0 :: rest, _ =>
        obtain ⟨p0, hp0, hi0⟩ := hargs 0 a0 (by simp)
        simp at hp0; subst hp0
        cases a0 <;> simp [keyValueArray, inst] at hi0
        simpa [hashCtor] using hashFromArray_no_fault _
    | 2, hcr =>
      simp [hashCtor] at hcr; subst hcr
      simp only [paramsOf, List.filterMap, BOp.param?] at hreq hargs
      have h0 := hreq 0 (.req, iterableTy) (by simp) rfl
      match args, h0 with
      | a0 :: rest, _ =>
        obtain ⟨p0, hp0, hi0⟩ := hargs 0 a0 (by simp)
        simp at hp0; subst hp0
        cases a0 with
        | arr vs => simpa [hashCtor] using hashFromArray_no_fault vs
        | hash es => simp [hashCtor]
        | str s =>
          simp only [hashCtor]
          have hse : stringElements s ≠ .fault := by unfold stringElements; split <;> simp
          cases hres : stringElements s with
          | fault => exact absurd hres hse
          | reported c => simp
          | value v => cases v <;> simp; exact hashFromArray_no_fault _
        | int n => simp [iterableTy, inst, instAny] at hi0
        | float b => simp [iterableTy, inst, instAny] at hi0
        | binary bs => simp [iterableTy, inst, instAny] at hi0
        | timespan n => simp [iterableTy, inst, instAny] at hi0
        | bool b => simp [iterableTy, inst, instAny] at hi0
        | undef => simp [iterableTy, inst, instAny] at hi0
        | default => simp [iterableTy, inst, instAny] at hi0
    | n + 3, hcr => simp [hashCtor] at hcr

/-- `InitType.New` hands the arguments to the same constructor -/
theorem initCall_no_fault (c : Ctor) (h : ∀ args, ctorCall c args ≠ .fault) (ia args : List Val) :
    initCall c ia args ≠ .fault := by
  unfold initCall
  split
  · exact h _
  · split
    · exact h args
    · split <;> exact h _

end Pcore.Dispatch.Alpha
