import Pcore.Proofs.TypeRT
import Pcore.Proofs.TypedValRT
/-!
Sample environments and terms for the non-vacuity examples of `Props/C05.lean`, with the lemmas that establish their
hypotheses (kept out of the Props file, which holds property theorems and examples only).
-/
namespace Pcore.Syntax

/-- an oracle for examples: ASCII letters, every regexp compiles, no float reader -/
def envEx : Env := { isLetter := fun c => isUpper c || isLower c, rxOK := fun _ => true, pf := fun _ => none }

/-- non-vacuity for object literals: `My::Lim('name' => 'it\'s', 'type' => Optional[String[1]], 'value' => [1, Pt()])`
    (a qualified type name, a type expression and a nested object literal as attribute values) parses to the constructor
    call `new My::Lim {…}` with a nested call `new Pt` -/
def sampleObj : Val :=
  .obj "My::Lim".toList [(.str "name".toList, .str ['i', 't', '\'', 's']),
    (.str "type".toList, .tyx "Optional".toList (some [.tyx "String".toList (some [.int 1])])),
    (.str "value".toList, .arr [.int 1, .obj "Pt".toList []])]
theorem objName_MyLim : ObjName "My::Lim".toList :=
  ⟨'M', ['y'], [('L', ['i', 'm'])], by decide, by decide, by decide, by
    intro p hp; simp only [List.mem_singleton] at hp; subst hp; exact ⟨by decide, by decide⟩⟩
theorem sampleObj_lit : Lit envEx sampleObj := by
  simp only [sampleObj, Lit, LitE, LitL]
  repeat' apply And.intro
  all_goals first | exact objName_MyLim | exact objName_of_tyName (tyName_of_B (by decide)) | exact tyName_of_B (by decide) | decide | simp | trivial

/-- non-vacuity of the float parameter on types: with the exact reader `parseFloat` and a formatter that answers what the
    implementation prints for 1.5 and 2500.0, `Float[1.50000, 2500.00]`, `Float[1.50000]` and `Float[default, 2500.00]`
    are well-formed (the lexing half by `nextToken_simple_float`, the reading half by evaluation) and round-trip -/
def envF : Env :=
  { envEx with
    pf := parseFloat,
    ff := fun b => if b = 4609434218613702656 then "1.50000".toList else if b = 4657715973212602368 then "2500.00".toList else [] }
theorem lit_f15 : Lit envF (.float 4609434218613702656 "1.50000".toList) :=
  ⟨fun k hk => nextToken_simple_float envF.isLetter '1' [] '5' ['0', '0', '0', '0'] k (by decide) (by simp) (by decide)
      (by decide) hk, by decide +kernel⟩
theorem lit_f2500 : Lit envF (.float 4657715973212602368 "2500.00".toList) :=
  ⟨fun k hk => nextToken_simple_float envF.isLetter '2' ['5', '0', '0'] '0' ['0'] k (by decide) (by decide) (by decide)
      (by decide) hk, by decide +kernel⟩
def sampleFloats : List Ty :=
  [.float 4609434218613702656 "1.50000".toList 4657715973212602368 "2500.00".toList,
   .float 4609434218613702656 "1.50000".toList fPosMax [],
   .float fNegMax [] 4657715973212602368 "2500.00".toList,
   .struct [(['f'], false, .array (.float fNegMax [] 4657715973212602368 "2500.00".toList) 0 3)]]
theorem sampleFloats_wf : ∀ t ∈ sampleFloats, WFTy envF t := by
  have e1 : envF.ff 4609434218613702656 = "1.50000".toList := by decide
  have e2 : envF.ff 4657715973212602368 = "2500.00".toList := by decide
  have f1 : FloatIO envF 4609434218613702656 fNegMax "1.50000".toList := by
    unfold FloatIO; rw [if_neg (by decide)]; exact ⟨e1.symm, lit_f15⟩
  have f2 : FloatIO envF 4657715973212602368 fPosMax "2500.00".toList := by
    unfold FloatIO; rw [if_neg (by decide)]; exact ⟨e2.symm, lit_f2500⟩
  have d1 : FloatIO envF fNegMax fNegMax [] := by unfold FloatIO; rw [if_pos rfl]
  have d2 : FloatIO envF fPosMax fPosMax [] := by unfold FloatIO; rw [if_pos rfl]
  intro t ht
  simp only [sampleFloats, List.mem_cons, List.mem_nil_iff, or_false] at ht
  rcases ht with rfl | rfl | rfl | rfl
  · exact ⟨f1, f2, by decide⟩
  · exact ⟨f1, d2, by decide⟩
  · exact ⟨d1, f2, by decide⟩
  · exact ⟨by decide, ⟨⟨d1, f2, by decide⟩, by simp only [inI64, i64min, i64max]; decide⟩, trivial⟩

/-- non-vacuity: Callables in every invertible shape — sizes only, `Unit` + size, parameter types with and without size,
    block, optional block, return type (the parameters then in an array, where a leading Tuple and the default Tuple are
    fine), nested in each other and in the old forms -/
def sampleCallables : List Ty :=
  [.callable (some ([], some (0, 0))) none none,
   .callable (some ([tyUnit], some (1, 2))) none none,
   .callable (some ([tyUnit], some (0, 9223372036854775807))) none (some (.callable none none none)),
   .callable (some ([tyString, .int 0 5], none)) none none,
   .callable (some ([tyString], some (1, 9223372036854775807))) none (some (.wrap .optional (.callable none none none))),
   .callable (some ([], some (0, 9223372036854775807))) (some (.named "Undef".toList)) none,
   .callable (some ([], some (0, 9223372036854775807))) none (some (.callable (some ([tyString], none)) none none)),
   .callable (some ([.tuple [tyString] none, .callable none none none], none)) (some (.int 0 1))
     (some (.callable (some ([], some (0, 0))) none none)),
   .struct [(['f'], false, .callable (some ([.struct [(['a'], true, tyAny)]], some (0, 1))) (some tyAny) none)],
   .array (.callable (some ([.callable none none none, tyString], none)) none none) 0 3]
theorem sampleCallables_wf : ∀ t ∈ sampleCallables, WFTy envEx t := by
  intro t ht
  simp only [sampleCallables, List.mem_cons, List.mem_nil_iff, or_false] at ht
  rcases ht with rfl | rfl | rfl | rfl | rfl | rfl | rfl | rfl | rfl | rfl <;>
    (simp only [WFTy, WFTys, WFMs, WFOpt, CallableShape, sizeOK, inI64, i64min, i64max, tyUnit, tyString, tyAny, envEx]
     decide)

end Pcore.Syntax
