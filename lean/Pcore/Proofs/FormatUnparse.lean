import Pcore.Proofs.FormatParse
/-! `unParse` writes a directive that Go's fmt understands: the format strings handed to fmt on the float path
    (`WithoutWidth`, `ReplaceFormatChar`) parse to the intended verb, width and precision. -/
namespace Pcore.Format

theorem digitChar_isDigit : ∀ d, d < 10 → isDigit (digitChar false d) = true ∧ (digitChar false d).toNat - '0'.toNat = d := by
  decide

theorem natStr10_digits (n : Nat) : ∀ c ∈ natStr 10 false n, isDigit c = true := by
  intro c hc
  simp only [natStr, List.mem_map] at hc
  obtain ⟨d, hd, rfl⟩ := hc
  exact (digitChar_isDigit d (toDigits_lt 10 (by omega) n d hd)).1

theorem readNat_map_digitChar (ds : List Nat) (h : ∀ d ∈ ds, d < 10) (acc : Nat) :
    (ds.map (digitChar false)).foldl (fun n c => n * 10 + (c.toNat - '0'.toNat)) acc =
      ds.foldl (fun a d => a * 10 + d) acc := by
  induction ds generalizing acc with
  | nil => rfl
  | cons d ds ih =>
    simp only [List.map_cons, List.foldl_cons]
    rw [(digitChar_isDigit d (h d (by simp))).2]
    exact ih (fun x hx => h x (by simp [hx])) _

theorem readNat_natStr (n : Nat) : readNat (natStr 10 false n) = n := by
  unfold readNat natStr
  rw [readNat_map_digitChar _ (toDigits_lt 10 (by omega) n)]
  exact ofDigits_toDigits 10 (by omega) n

theorem goNum_natStr (n : Nat) (h : n / 10 ≤ 1000000) : goNum (natStr 10 false n) = some n := by
  have := goNum_ok (natStr 10 false n) (natStr_ne_nil 10 false n) (natStr10_digits n) (by rw [readNat_natStr]; exact h)
  rw [this, readNat_natStr]

theorem natStr10_head_not_goFlag (n : Nat) (hn : 1 ≤ n) : ∀ c, (natStr 10 false n).head? = some c → isGoFlag c = false := by
  intro c hc
  have h0 : c ≠ '0' := by
    intro h; rw [h] at hc; exact natStr_head 10 (by omega) (by omega) false n (by omega) hc
  have hd : isDigit c = true := natStr10_digits n c (List.mem_of_mem_head? hc)
  simp only [isDigit, Bool.and_eq_true, decide_eq_true_eq] at hd
  cases hg : isGoFlag c with
  | false => rfl
  | true =>
    simp only [isGoFlag, Bool.or_eq_true, decide_eq_true_eq] at hg
    rcases hg with (((rfl | rfl) | rfl) | rfl) | rfl
    · revert hd; decide
    · exact absurd rfl h0
    · revert hd; decide
    · revert hd; decide
    · revert hd; decide

/-- a Format record as `parseFormat` (or `simpleFormat`) builds it -/
structure FmtWF (f : Fmt) : Prop where
  plus : f.plus = none ∨ f.plus = some '+' ∨ f.plus = some ' '
  ldelim : ∀ d, f.ldelim = some d → isDelim d = true ∨ (d = ' ' ∧ (f.plus = some ' ' ∨ f.plus = some '+'))
  width : ∀ w, f.width = some w → 1 ≤ w ∧ w / 10 ≤ 1000000
  prec : ∀ p, f.prec = some p → p / 10 ≤ 1000000
  letter : isLetter f.letter = true

/-- the flags `unParse` writes, without the delimiter -/
def unParseFlags (f : Fmt) : Str :=
  (if f.zeroPad then ['0'] else []) ++ plusStr f ++ (if f.left then ['-'] else []) ++
  (if f.ldelim = some ' ' ∧ f.plus = some '+' then [' '] else []) ++ (if f.alt then ['#'] else [])

def unParseTail (f : Fmt) : Str := widthStr f ++ precStr f ++ [f.letter]

theorem unParse_filter (f : Fmt) (h : FmtWF f) :
    (unParse f).filter (fun c => !isDelim c) = '%' :: (unParseFlags f ++ unParseTail f) := by
  have hw : (widthStr f).filter (fun c => !isDelim c) = widthStr f := by
    apply filter_id_of_all
    intro c hc
    unfold widthStr at hc
    cases hw : f.width with
    | none => rw [hw] at hc; simp at hc
    | some w => rw [hw] at hc; simp [not_delim_of_digit c (natStr10_digits w c hc)]
  have hp : (precStr f).filter (fun c => !isDelim c) = precStr f := by
    apply filter_id_of_all
    intro c hc
    unfold precStr at hc
    cases hp : f.prec with
    | none => rw [hp] at hc; simp at hc
    | some p =>
      rw [hp] at hc
      rcases List.mem_cons.mp hc with rfl | hc'
      · decide
      · simp [not_delim_of_digit c (natStr10_digits p c hc')]
  have hl : ([f.letter] : Str).filter (fun c => !isDelim c) = [f.letter] := by
    simp [not_delim_of_letter _ h.letter]
  have hplus : (plusStr f).filter (fun c => !isDelim c) = plusStr f := by
    unfold plusStr
    rcases h.plus with hp | hp | hp <;> rw [hp] <;> simp <;> decide
  have hld : (delimStr f).filter (fun c => !isDelim c) = (if f.ldelim = some ' ' ∧ f.plus = some '+' then [' '] else []) := by
    unfold delimStr
    cases hl : f.ldelim with
    | none => simp
    | some d =>
      simp only
      rcases h.ldelim d hl with hd | ⟨hd, hp | hp⟩
      · have hne : d ≠ ' ' := by rintro rfl; revert hd; decide
        by_cases hpd : f.plus = some d
        · simp [hpd, hne]
        · simp [hpd, hd, hne]
      · subst hd; simp [hp]
      · subst hd; simp [hp]; decide
  have hpct : isDelim '%' = false := by decide
  have hz : isDelim '0' = false := by decide
  have hm : isDelim '-' = false := by decide
  have hs : isDelim '#' = false := by decide
  unfold unParse unParseFlags unParseTail
  simp only [List.filter_append, hw, hp, hl, hplus, hld]
  cases f.zeroPad <;> cases f.left <;> cases f.alt <;> simp [hpct, hz, hm, hs, List.append_assoc]

theorem unParseFlags_go (f : Fmt) (h : FmtWF f) : ∀ c ∈ unParseFlags f, isGoFlag c = true := by
  intro c hc
  unfold unParseFlags plusStr at hc
  simp only [List.mem_append] at hc
  rcases hc with (((hc | hc) | hc) | hc) | hc
  · by_cases hz : f.zeroPad = true <;> simp [hz] at hc; rw [hc]; decide
  · rcases h.plus with hp | hp | hp <;> rw [hp] at hc <;> simp at hc <;> rw [hc] <;> decide
  · by_cases hz : f.left = true <;> simp [hz] at hc; rw [hc]; decide
  · by_cases hz : f.ldelim = some ' ' ∧ f.plus = some '+' <;> simp [hz] at hc; rw [hc]; decide
  · by_cases hz : f.alt = true <;> simp [hz] at hc; rw [hc]; decide

theorem letter_not_goFlag (c : Char) (h : isLetter c = true) : isGoFlag c = false := by
  cases hg : isGoFlag c with
  | false => rfl
  | true =>
    simp only [isGoFlag, Bool.or_eq_true, decide_eq_true_eq] at hg
    rcases hg with (((rfl | rfl) | rfl) | rfl) | rfl <;> revert h <;> decide

/-- **fmt parses what `unParse` writes** (delimiters filtered): same verb, width, precision -/
theorem goParse_unParse (f : Fmt) (h : FmtWF f) :
    ∃ g, goParse ((unParse f).filter (fun c => !isDelim c)) = some g ∧ g.verb = f.letter ∧ g.wid = f.width ∧
      g.prec = f.prec := by
  rw [unParse_filter f h]
  have hdot : isGoFlag '.' = false := by decide
  -- where the flags stop
  have hhead : ∀ c, (unParseTail f).head? = some c → isGoFlag c = false := by
    intro c hc
    unfold unParseTail widthStr precStr at hc
    cases hw : f.width with
    | some w =>
      rw [hw] at hc
      simp only at hc
      have hne := natStr_ne_nil 10 false w
      cases hn : natStr 10 false w with
      | nil => exact absurd hn hne
      | cons x xs =>
        rw [hn] at hc; simp at hc
        exact natStr10_head_not_goFlag w (h.width w hw).1 c (by rw [hn, ← hc]; rfl)
    | none =>
      rw [hw] at hc
      cases hp : f.prec with
      | some p => rw [hp] at hc; simp at hc; rw [← hc]; exact hdot
      | none => rw [hp] at hc; simp at hc; rw [← hc]; exact letter_not_goFlag _ h.letter
  obtain ⟨htk, hdr⟩ := takeWhile_append_stop (unParseFlags f) (unParseTail f) (unParseFlags_go f h) hhead
  unfold goParse
  simp only [htk, hdr]
  -- width digits
  have hprecHead : ∀ c, (precStr f ++ [f.letter]).head? = some c → isDigit c = false := by
    intro c hc
    unfold precStr at hc
    cases hp : f.prec with
    | some p => rw [hp] at hc; simp at hc; rw [← hc]; decide
    | none => rw [hp] at hc; simp at hc; rw [← hc]; exact not_digit_of_letter _ h.letter
  have htail : unParseTail f = widthStr f ++ (precStr f ++ [f.letter]) := by unfold unParseTail; simp [List.append_assoc]
  have hwdig : ∀ c ∈ widthStr f, isDigit c = true := by
    intro c hc
    unfold widthStr at hc
    cases hw : f.width with
    | none => rw [hw] at hc; simp at hc
    | some w => rw [hw] at hc; exact natStr10_digits w c hc
  obtain ⟨htk2, hdr2⟩ := takeWhile_append_stop (p := isDigit) (widthStr f) (precStr f ++ [f.letter]) hwdig hprecHead
  rw [htail]
  simp only [htk2, hdr2]
  have hwid : (if (widthStr f).isEmpty then some none else (goNum (widthStr f)).map some) = some f.width := by
    unfold widthStr
    cases hw : f.width with
    | none => simp
    | some w =>
      simp only
      have hne := natStr_ne_nil 10 false w
      have he : (natStr 10 false w).isEmpty = false := by
        cases hn : natStr 10 false w with
        | nil => exact absurd hn hne
        | cons _ _ => rfl
      rw [he, goNum_natStr w (h.width w hw).2]; rfl
  rw [hwid]
  -- precision
  have hpp : goPrecPart (precStr f ++ [f.letter]) = (some f.prec, [f.letter]) := by
    unfold precStr
    cases hp : f.prec with
    | none =>
      simp only [List.nil_append]
      unfold goPrecPart
      split
      · rename_i r3 heq; exact absurd (List.cons.inj heq).1 (not_dot_of_letter _ h.letter)
      · rfl
    | some p =>
      simp only [List.cons_append]
      unfold goPrecPart
      obtain ⟨htk3, hdr3⟩ := takeWhile_append_stop (p := isDigit) (natStr 10 false p) [f.letter] (natStr10_digits p)
        (by intro c hc; simp at hc; rw [← hc]; exact not_digit_of_letter _ h.letter)
      simp only [htk3, hdr3]
      have hne := natStr_ne_nil 10 false p
      have he : (natStr 10 false p).isEmpty = false := by
        cases hn : natStr 10 false p with
        | nil => exact absurd hn hne
        | cons _ _ => rfl
      rw [he, goNum_natStr p (h.prec p hp)]; rfl
  simp only [hpp]
  exact ⟨_, rfl, rfl, rfl, rfl⟩

/-! ### parsed formats are well-formed records -/

theorem findDelim_some (fl : Str) : ∀ (ds : List Char) (acc r : Option Char), findDelim fl ds acc = .ok r →
    ∀ d, r = some d → d ∈ ds ∨ acc = some d
  | [], acc, r, h, d, hr => by simp [findDelim] at h; right; rw [h, hr]
  | x :: xs, acc, r, h, d, hr => by
    simp only [findDelim, bind, Except.bind] at h
    cases hx : hasOnce fl x with
    | error e => rw [hx] at h; cases h
    | ok b =>
      rw [hx] at h
      cases b with
      | false =>
        simp only [Bool.false_eq_true, if_false] at h
        rcases findDelim_some fl xs acc r h d hr with h' | h'
        · left; simp [h']
        · right; exact h'
      | true =>
        simp only [if_true] at h
        cases acc with
        | some a => cases h
        | none =>
          simp only at h
          rcases findDelim_some fl xs (some x) r h d hr with h' | h'
          · left; simp [h']
          · left; cases h'; simp

theorem parseFormat_ldelim (orig : Str) (sep sep2 : Option Str) (f : Fmt) (h : parseFormat orig sep sep2 = .ok f) :
    ∀ d, f.ldelim = some d → isDelim d = true ∨ (d = ' ' ∧ (f.plus = some ' ' ∨ f.plus = some '+')) := by
  obtain ⟨p, hasPlus, hasSpace, found, _, _, _, _, _, _, hfplus, _, _, _, _, h3, hld, _, _⟩ := parseFormat_ok orig sep sep2 f h
  intro d hd
  rw [hld] at hd
  cases found with
  | some x =>
    simp only at hd; cases hd
    rcases findDelim_some p.flags delimiters none (some d) h3 d rfl with h' | h'
    · left; simp [delimiters] at h'; rcases h' with rfl | rfl | rfl | rfl | rfl <;> decide
    · cases h'
  | none =>
    simp only at hd
    right
    rw [hfplus]
    cases hasSpace with
    | false => simp at hd
    | true => simp at hd; refine ⟨hd.symm, ?_⟩; cases hasPlus <;> simp

theorem readNat_pos (c : Char) (cs : Str) (hc : isDigit c = true) (h0 : c ≠ '0') : 1 ≤ readNat (c :: cs) := by
  have hmono : ∀ (l : Str) (acc : Nat), 1 ≤ acc → 1 ≤ l.foldl (fun n c => n * 10 + (c.toNat - '0'.toNat)) acc := by
    intro l
    induction l with
    | nil => intro acc h; exact h
    | cons x xs ih => intro acc h; simp only [List.foldl_cons]; exact ih _ (by omega)
  unfold readNat
  simp only [List.foldl_cons]
  apply hmono
  simp only [isDigit, Bool.and_eq_true, decide_eq_true_eq] at hc
  have h1 : '0'.toNat ≤ c.toNat := hc.1
  have h2 : c.toNat ≠ '0'.toNat := by
    intro h
    apply h0
    have hc' : c = Char.ofNat c.toNat := (Char.ofNat_toNat c).symm
    rw [h] at hc'
    exact hc'
  simp at h1 h2 ⊢
  omega

theorem head_takeWhile {p : Char → Bool} : ∀ (l : Str) (c : Char), (l.takeWhile p).head? = some c → l.head? = some c
  | [], c, h => by simp at h
  | x :: xs, c, h => by
    by_cases hx : p x = true
    · rw [List.takeWhile_cons_of_pos hx] at h; simpa using h
    · rw [List.takeWhile_cons_of_neg hx] at h; simp at h

theorem parseFormat_wf (orig : Str) (sep sep2 : Option Str) (f : Fmt) (h : parseFormat orig sep sep2 = .ok f)
    (hn : NumOK f) : FmtWF f := by
  obtain ⟨p, hasPlus, hasSpace, _, hm, _, _, _, _, _, hfplus, hletter, hwidth, hprec, _⟩ := parseFormat_ok orig sep sep2 f h
  obtain ⟨rest, _, _, hwd, hlet, _⟩ := matchPattern_some orig p hm
  refine ⟨?_, parseFormat_ldelim orig sep sep2 f h, ?_, fun p hp => hn.prec p hp, by rw [hletter]; exact hlet⟩
  · rw [hfplus]; cases hasSpace <;> cases hasPlus <;> simp
  · intro w hw
    refine ⟨?_, hn.width w hw⟩
    rw [hwidth, hwd] at hw
    by_cases he : ((rest.dropWhile isFlag).takeWhile isDigit).isEmpty = true
    · simp [he] at hw
    · simp only [he, Bool.false_eq_true, if_false, Option.some.injEq] at hw
      cases hl : (rest.dropWhile isFlag).takeWhile isDigit with
      | nil => rw [hl] at he; simp at he
      | cons c cs =>
        rw [hl] at hw
        have hcd : isDigit c = true := mem_takeWhile (rest.dropWhile isFlag) c (by rw [hl]; simp)
        have hch : (rest.dropWhile isFlag).head? = some c := head_takeWhile _ c (by rw [hl]; rfl)
        have hnf : isFlag c = false := head_dropWhile rest c hch
        have h0 : c ≠ '0' := by rintro rfl; revert hnf; decide
        rw [← hw]; exact readNat_pos c cs hcd h0

theorem FmtWF.withoutWidth {f : Fmt} (h : FmtWF f) : FmtWF (withoutWidth f) := by
  unfold Pcore.Format.withoutWidth
  exact ⟨h.plus, h.ldelim, by intro w hw; simp at hw, h.prec, h.letter⟩

theorem FmtWF.replace {f : Fmt} (h : FmtWF f) (c : Char) (hc : isLetter c = true) : FmtWF (replaceFormatChar f c) := by
  unfold replaceFormatChar
  exact ⟨h.plus, h.ldelim, h.width, h.prec, hc⟩

/-- the format string `WithoutWidth` hands to fmt is a directive with the same letter -/
theorem goParse_withoutWidth (f : Fmt) (h : FmtWF f) :
    ∃ g, goParse (goFormat (withoutWidth f)) = some g ∧ g.verb = f.letter := by
  obtain ⟨g, hg, hv, _⟩ := goParse_unParse _ h.withoutWidth
  exact ⟨g, hg, hv⟩

/-- the format string `ReplaceFormatChar` hands to fmt is a directive with the new letter and the same width -/
theorem goParse_replace (f : Fmt) (h : FmtWF f) (c : Char) (hc : isLetter c = true) :
    ∃ g, goParse (goFormat (replaceFormatChar f c)) = some g ∧ g.verb = c ∧ g.wid = f.width := by
  obtain ⟨g, hg, hv, hw, _⟩ := goParse_unParse _ (h.replace c hc)
  exact ⟨g, hg, hv, hw⟩

/-- **every format string pcore hands to fmt for a parsed Format is a directive fmt understands** -/
theorem parseFormat_goOK (orig : Str) (sep sep2 : Option Str) (f : Fmt) (h : parseFormat orig sep sep2 = .ok f) :
    GoOK f := by
  have hn := parseFormat_numOK orig sep sep2 f h
  refine ⟨parseFormat_goOK0 orig sep sep2 f h hn, ?_, ?_, ?_⟩
  · obtain ⟨g, hg, hv⟩ := goParse_withoutWidth f (parseFormat_wf orig sep sep2 f h hn)
    unfold VerbOK; rw [hg]; exact hv
  · obtain ⟨g, hg, hv, _⟩ := goParse_replace f (parseFormat_wf orig sep sep2 f h hn) 'e' (by decide)
    unfold VerbOK; rw [hg]; exact hv
  · obtain ⟨g, hg, hv, _⟩ := goParse_replace f (parseFormat_wf orig sep sep2 f h hn) 'E' (by decide)
    unfold VerbOK; rw [hg]; exact hv

end Pcore.Format
