import Pcore.Model.Types
/-!
Layer 4 of C05 for Callable, argument level: the creator `callableCreate` (= `newCallableType3` + `tupleFromArgs(true, …)`)
maps the arguments that a well-shaped Callable prints back to that Callable.  No parser, no oracle: pure functions on `Arg`.
`Proofs/TypeRT.lean` connects this to `tyExpr` / `resolve`.
-/
namespace Pcore.Syntax

/-! ### the arguments a Callable prints -/

/-- the size arguments of the parameter Tuple (`TupleType.Parameters`: none without a size, none for the default Tuple) -/
def cSizeArgs (ts : List Ty) (sz : Option (Int × Int)) : List Arg :=
  match sz with
  | none => []
  | some r => if ts.isEmpty ∧ r.1 = 0 ∧ r.2 = i64max then [] else [.int r.1, if r.2 = i64max then .dflt else .int r.2]

def notUnitTys : List Ty → List Ty
  | [] => []
  | t :: ts => if t.isUnit then notUnitTys ts else t :: notUnitTys ts

/-- parameters (without `Unit`) and size -/
def cTupleArgs (ts : List Ty) (sz : Option (Int × Int)) : List Arg := (notUnitTys ts).map Arg.ty ++ cSizeArgs ts sz

def cBlockArgs : Option Ty → List Arg
  | some b => [.ty b]
  | none => []

/-- everything inside the (inner) list: parameters, size, block -/
def cArgs (ts : List Ty) (sz : Option (Int × Int)) (blk : Option Ty) : List Arg := cTupleArgs ts sz ++ cBlockArgs blk

/-! ### the shapes that print invertibly -/

def Ty.isTuple : Ty → Bool
  | .tuple _ _ => true
  | _ => false

def sizeOK : Option (Int × Int) → Prop
  | none => True
  | some r => i64min ≤ r.1 ∧ r.1 ≤ r.2 ∧ r.2 ≤ i64max ∧ 0 ≤ r.2

/-- the shapes of a Callable's parameter Tuple (member types `ts`, size `sz`) that print invertibly, given whether there is
    a return type (`hasRet`: the parameters are then printed inside an array) and a block type (`hasBlk`):
    * no member types: the empty Tuple `[0, 0]`, or the default Tuple provided something else gets printed;
    * exactly one `Unit` member with a size other than `[0, 0]` (what `Callable[lo, hi]` creates);
    * otherwise: no `Unit` member (it would not be printed); without a return type the first member is not itself a Tuple
      (it would be read back as the whole parameter Tuple); without a block type and without a size the last member is
      not a block type (it would be read back as the block). -/
def CallableShape (ts : List Ty) (sz : Option (Int × Int)) (hasRet hasBlk : Bool) : Prop :=
  sizeOK sz ∧
  match ts with
  | [] => sz = some (0, 0) ∨ (sz = some (0, i64max) ∧ (hasRet = true ∨ hasBlk = true))
  | t :: ts' =>
    (t.isUnit = true ∧ ts'.isEmpty = true ∧ sz ≠ none ∧ sz ≠ some (0, 0)) ∨
    ((∀ x ∈ t :: ts', x.isUnit = false) ∧ (hasRet = false → t.isTuple = false) ∧
      (hasBlk = false → sz = none → ((t :: ts').getLast?.all fun l => !l.isBlock) = true))

/-! ### small facts -/

theorem isUnit_eq' {t : Ty} (h : t.isUnit = true) : t = tyUnit := by
  cases t <;> simp_all [Ty.isUnit, tyUnit]

theorem unit_singleton {t : Ty} {ts' : List Ty} (h1 : t.isUnit = true) (h2 : ts'.isEmpty = true) : t :: ts' = [tyUnit] := by
  rw [isUnit_eq' h1]
  cases ts' with
  | nil => rfl
  | cons a b => simp at h2

theorem mapM_argTy' (ts : List Ty) : (ts.map Arg.ty).mapM argTy = some ts := by
  induction ts with
  | nil => rfl
  | cons t ts ih => simp [List.mapM_cons, argTy, ih]

theorem notUnitTys_id (ts : List Ty) (h : ∀ x ∈ ts, x.isUnit = false) : notUnitTys ts = ts := by
  induction ts with
  | nil => rfl
  | cons t ts ih =>
    simp only [notUnitTys, h t (by simp), Bool.false_eq_true, if_false]
    rw [ih (fun x hx => h x (by simp [hx]))]

theorem tupleFlat_id' (l : List Arg) (h : ∀ a ∈ l.head?, ∀ as, a ≠ Arg.arr as) : tupleFlat l = some l := by
  unfold tupleFlat
  split
  · rename_i as; exact absurd rfl (h (.arr as) (by simp) as)
  · rename_i as lo hi; exact absurd rfl (h (.arr as) (by simp) as)
  · rename_i as x _; exact absurd rfl (h (.arr as) (by simp) as)
  · rfl

theorem tupleMkC_tys (ts : List Ty) (rng : Option (Int × Int)) (h : ts ≠ []) :
    tupleMkC (ts.map Arg.ty) rng = some (ts, rng) := by
  cases ts with
  | nil => exact absurd rfl h
  | cons t ts' =>
    have := mapM_argTy' (t :: ts')
    simp only [List.map_cons] at this
    simp [tupleMkC, this]

/-! ### `tupleFromArgs(true, …)` on what the parameter Tuple prints -/

theorem tupleBodyC_tys (ts : List Ty) (h : ts ≠ []) : tupleBodyC (ts.map Arg.ty) = some (ts, none) := by
  obtain ⟨init, t, rfl⟩ : ∃ init t, ts = init ++ [t] := by
    rcases List.eq_nil_or_concat ts with hn | ⟨init, t, hc⟩
    · exact absurd hn h
    · exact ⟨init, t, by simpa using hc⟩
  unfold tupleBodyC
  simp only [List.map_append, List.map_cons, List.map_nil, List.reverse_append, List.reverse_cons, List.reverse_nil,
    List.nil_append, List.cons_append]
  have := tupleMkC_tys (init ++ [t]) none (by simp)
  simpa using this

theorem tupleBodyC_sized (ts : List Ty) (lo hi : Int) (hts : ts ≠ []) (h1 : lo ≤ hi) (h0 : 0 ≤ hi) :
    tupleBodyC (ts.map Arg.ty ++ [.int lo, if hi = i64max then .dflt else .int hi]) = some (ts, some (lo, hi)) := by
  have hlt : ¬ lo > hi := by omega
  unfold tupleBodyC
  simp only [List.reverse_append, List.reverse_cons, List.reverse_nil, List.nil_append, List.cons_append]
  have hmk := tupleMkC_tys ts (some (lo, hi)) hts
  by_cases hhi : hi = i64max
  · subst hhi
    simp [newInt, hlt, hmk]
  · have hge : hi ≥ 0 := h0
    simp [hhi, hge, newInt, hlt, hmk]

/-- `Callable[lo, hi]`: no member types -/
theorem tupleBodyC_size_only (lo hi : Int) (h1 : lo ≤ hi) (h0 : 0 ≤ hi) :
    tupleBodyC [.int lo, if hi = i64max then .dflt else .int hi] =
      some (if lo = 0 ∧ hi = 0 then ([], some (0, 0)) else ([tyUnit], some (lo, hi))) := by
  have hlt : ¬ lo > hi := by omega
  unfold tupleBodyC
  by_cases hhi : hi = i64max
  · subst hhi
    have : ¬ (lo = 0 ∧ i64max = 0) := by simp [i64max]
    simp [newInt, hlt, tupleMkC, this]
  · have hge : hi ≥ 0 := h0
    by_cases hz : lo = 0 ∧ hi = 0
    · obtain ⟨rfl, rfl⟩ := hz
      simp [newInt, tupleMkC, i64max]
    · simp [hhi, hge, newInt, hlt, tupleMkC, hz]

theorem cTupleArgs_head (ts : List Ty) (sz : Option (Int × Int)) :
    ∀ a ∈ (cTupleArgs ts sz).head?, ∀ as, a ≠ Arg.arr as := by
  intro a ha as
  unfold cTupleArgs at ha
  cases hn : notUnitTys ts with
  | nil =>
    rw [hn] at ha
    simp only [List.map_nil, List.nil_append] at ha
    unfold cSizeArgs at ha
    cases sz with
    | none => simp at ha
    | some r =>
      simp only at ha
      split at ha
      · simp at ha
      · simp at ha; subst ha; simp
  | cons t ts' =>
    rw [hn] at ha
    simp at ha; subst ha; simp

/-- the parameter Tuple is read back from what it prints -/
theorem tupleCreateC_cTupleArgs (ts : List Ty) (sz : Option (Int × Int)) (hasRet hasBlk : Bool)
    (h : CallableShape ts sz hasRet hasBlk) : tupleCreateC (cTupleArgs ts sz) = some (ts, sz) := by
  obtain ⟨hsz, hshape⟩ := h
  have hflat := tupleFlat_id' (cTupleArgs ts sz) (cTupleArgs_head ts sz)
  cases ts with
  | nil =>
    simp only at hshape
    rcases hshape with rfl | ⟨rfl, _⟩
    · -- `[0, 0]`
      have : cTupleArgs [] (some (0, 0)) = [.int 0, .int 0] := by
        simp [cTupleArgs, notUnitTys, cSizeArgs, i64max]
      rw [this] at hflat ⊢
      simp only [tupleCreateC, hflat, Option.bind]
      have := tupleBodyC_size_only 0 0 (by omega) (by omega)
      simpa [i64max] using this
    · -- the default Tuple prints nothing
      have : cTupleArgs [] (some (0, i64max)) = [] := by simp [cTupleArgs, notUnitTys, cSizeArgs]
      rw [this]; rfl
  | cons t ts' =>
    simp only at hshape
    rcases hshape with ⟨hu1, hu2, hne, hnz⟩ | ⟨hnu, _, _⟩
    · -- one `Unit` member and a size
      have hu := unit_singleton hu1 hu2
      cases sz with
      | none => exact absurd rfl hne
      | some r =>
        obtain ⟨lo, hi⟩ := r
        obtain ⟨_, h1, _, h0⟩ := hsz
        rw [hu]
        have : cTupleArgs [tyUnit] (some (lo, hi)) = [.int lo, if hi = i64max then .dflt else .int hi] := by
          simp [cTupleArgs, notUnitTys, cSizeArgs, tyUnit, Ty.isUnit]
        rw [this] at *
        have hf : tupleFlat [Arg.int lo, if hi = i64max then Arg.dflt else Arg.int hi] =
            some [Arg.int lo, if hi = i64max then Arg.dflt else Arg.int hi] := by
          apply tupleFlat_id'; intro a ha as; simp at ha; subst ha; simp
        simp only [tupleCreateC, hf, Option.bind]
        rw [tupleBodyC_size_only lo hi h1 h0]
        have hz : ¬ (lo = 0 ∧ hi = 0) := by
          rintro ⟨rfl, rfl⟩; exact hnz rfl
        simp [hz]
    · -- member types without `Unit`
      have hid := notUnitTys_id (t :: ts') hnu
      cases sz with
      | none =>
        have : cTupleArgs (t :: ts') none = (t :: ts').map Arg.ty := by simp [cTupleArgs, hid, cSizeArgs]
        rw [this] at hflat ⊢
        have hne : (t :: ts').map Arg.ty ≠ [] := by simp
        cases hm : (t :: ts').map Arg.ty with
        | nil => exact absurd hm hne
        | cons a as =>
          rw [hm] at hflat
          simp only [tupleCreateC, hflat, Option.bind]
          rw [← hm]
          exact tupleBodyC_tys (t :: ts') (by simp)
      | some r =>
        obtain ⟨lo, hi⟩ := r
        obtain ⟨_, h1, _, h0⟩ := hsz
        have : cTupleArgs (t :: ts') (some (lo, hi)) =
            (t :: ts').map Arg.ty ++ [.int lo, if hi = i64max then .dflt else .int hi] := by
          simp [cTupleArgs, hid, cSizeArgs]
        rw [this] at hflat ⊢
        cases hm : (t :: ts').map Arg.ty ++ [.int lo, if hi = i64max then .dflt else .int hi] with
        | nil => simp at hm
        | cons a as =>
          rw [hm] at hflat
          simp only [tupleCreateC, hflat, Option.bind]
          rw [← hm]
          exact tupleBodyC_sized (t :: ts') lo hi (by simp) h1 h0

/-! ### the block -/

theorem blockSplit_block (xs : List Arg) (b : Ty) (hb : b.isBlock = true) : blockSplit (xs ++ [.ty b]) = (some b, xs) := by
  simp [blockSplit, Arg.isBlock, hb, argTy]

theorem blockSplit_none (xs : List Arg) (h : ∀ l ∈ xs.getLast?, l.isBlock = false) : blockSplit xs = (none, xs) := by
  unfold blockSplit
  cases hr : xs.reverse with
  | nil => rfl
  | cons last restRev =>
    have : xs.getLast? = some last := by
      rw [List.getLast?_eq_head?_reverse, hr]; rfl
    simp [h last (by simp [this])]

/-- without a block type, the last printed argument is not taken for one -/
theorem cTupleArgs_last (ts : List Ty) (sz : Option (Int × Int)) (hasRet : Bool) (h : CallableShape ts sz hasRet false) :
    ∀ l ∈ (cTupleArgs ts sz).getLast?, l.isBlock = false := by
  obtain ⟨hsz, hshape⟩ := h
  intro l hl
  unfold cTupleArgs at hl
  cases sz with
  | none =>
    simp only [cSizeArgs, List.append_nil] at hl
    cases ts with
    | nil => simp [notUnitTys] at hl
    | cons t ts' =>
      simp only at hshape
      rcases hshape with ⟨_, _, hne, _⟩ | ⟨hnu, _, hlast⟩
      · exact absurd rfl hne
      · rw [notUnitTys_id _ hnu] at hl
        rw [List.getLast?_map] at hl
        simp only [Option.mem_def, Option.map_eq_some_iff] at hl
        obtain ⟨x, hx, rfl⟩ := hl
        have := hlast trivial trivial
        rw [hx] at this
        simpa [Arg.isBlock] using this
  | some r =>
    unfold cSizeArgs at hl
    simp only at hl
    split at hl
    · rename_i hd
      have : ts = [] := by cases ts <;> simp_all
      subst this
      simp [notUnitTys] at hl
    · rw [List.getLast?_append] at hl
      simp at hl
      subst hl
      split <;> rfl

theorem callableFrom_cArgs (ts : List Ty) (sz : Option (Int × Int)) (rt blk : Option Ty)
    (h : CallableShape ts sz rt.isSome blk.isSome) (hb : ∀ b ∈ blk, b.isBlock = true) :
    callableFrom rt (cArgs ts sz blk) = some (.callable (some (ts, sz)) rt blk) := by
  unfold callableFrom cArgs
  cases blk with
  | none =>
    simp only [cBlockArgs, List.append_nil]
    rw [blockSplit_none _ (cTupleArgs_last ts sz rt.isSome h)]
    simp [tupleCreateC_cTupleArgs ts sz rt.isSome false h]
  | some b =>
    simp only [cBlockArgs]
    rw [blockSplit_block _ b (hb b rfl)]
    simp [tupleCreateC_cTupleArgs ts sz rt.isSome true h]

/-! ### the whole creator -/

theorem cArgs_head_not_list (ts : List Ty) (sz : Option (Int × Int)) (blk : Option Ty) :
    ∀ a ∈ (cArgs ts sz blk).head?, a.asList = none := by
  intro a ha
  unfold cArgs at ha
  cases hc : cTupleArgs ts sz with
  | nil =>
    rw [hc] at ha
    cases blk with
    | none => simp [cBlockArgs] at ha
    | some b => simp [cBlockArgs] at ha; subst ha; rfl
  | cons x xs =>
    rw [hc] at ha
    simp at ha; subst ha
    -- the first printed argument is a type or an integer
    unfold cTupleArgs at hc
    cases hn : notUnitTys ts with
    | nil =>
      rw [hn] at hc
      simp only [List.map_nil, List.nil_append] at hc
      unfold cSizeArgs at hc
      cases sz with
      | none => simp at hc
      | some r =>
        simp only at hc
        split at hc
        · simp at hc
        · simp at hc; rw [← hc.1]; rfl
    | cons t ts' =>
      rw [hn] at hc
      simp at hc; rw [← hc.1]; rfl

/-- without a return type something is printed (otherwise the text is `Callable`, the default) -/
theorem cArgs_ne_nil (ts : List Ty) (sz : Option (Int × Int)) (blk : Option Ty) (h : CallableShape ts sz false blk.isSome) :
    cArgs ts sz blk ≠ [] := by
  obtain ⟨_, hshape⟩ := h
  unfold cArgs cTupleArgs
  cases ts with
  | nil =>
    simp only at hshape
    rcases hshape with rfl | ⟨rfl, hb⟩
    · simp [cSizeArgs, i64max]
    · cases blk with
      | none => simp at hb
      | some b => simp [cBlockArgs]
  | cons t ts' =>
    simp only at hshape
    rcases hshape with ⟨hu1, hu2, hn, _⟩ | ⟨hnu, _, _⟩
    · have hu := unit_singleton hu1 hu2
      cases sz with
      | none => exact absurd rfl hn
      | some r =>
        rw [hu]
        simp [cSizeArgs, notUnitTys, tyUnit, Ty.isUnit]
    · rw [notUnitTys_id _ hnu]; simp

/-- without a return type: `Callable[p…, size, block]` -/
theorem callableCreate_flat (ts : List Ty) (sz : Option (Int × Int)) (blk : Option Ty)
    (h : CallableShape ts sz false blk.isSome) (hb : ∀ b ∈ blk, b.isBlock = true) (hne : cArgs ts sz blk ≠ []) :
    callableCreate (cArgs ts sz blk) = some (.callable (some (ts, sz)) none blk) := by
  have hfrom := callableFrom_cArgs ts sz none blk (by simpa using h) hb
  have hhead := cArgs_head_not_list ts sz blk
  -- the first argument is not a Tuple type
  have hnotTuple : callableTupleForm (cArgs ts sz blk) = none := by
    cases hc : cArgs ts sz blk with
    | nil => rfl
    | cons a as =>
      cases a with
      | ty t =>
        cases t with
        | tuple us usz =>
          exfalso
          -- a leading Tuple can only be the first member type, which the shape excludes
          obtain ⟨_, hshape⟩ := h
          unfold cArgs cTupleArgs at hc
          cases ts with
          | nil =>
            simp only [notUnitTys, List.map_nil, List.nil_append] at hc
            rcases hshape with rfl | ⟨rfl, _⟩
            · simp [cSizeArgs, i64max] at hc
            · simp only [cSizeArgs, List.isEmpty_nil, true_and, if_true, List.nil_append] at hc
              cases blk with
              | none => simp [cBlockArgs] at hc
              | some b =>
                simp [cBlockArgs] at hc
                have := hb b rfl
                rw [hc.1] at this
                simp [Ty.isBlock] at this
          | cons t ts' =>
            simp only at hshape
            rcases hshape with ⟨hu1, hu2, hn, _⟩ | ⟨hnu, hnt, _⟩
            · have hu := unit_singleton hu1 hu2
              rw [hu] at hc
              cases sz with
              | none => exact hn rfl
              | some r =>
                simp only [notUnitTys, tyUnit, Ty.isUnit, beq_self_eq_true, if_true, List.map_nil, List.nil_append,
                  cSizeArgs] at hc
                split at hc
                · rename_i hd; simp at hd
                · simp at hc
            · rw [notUnitTys_id _ hnu] at hc
              simp at hc
              have := hnt trivial
              rw [hc.1] at this
              simp [Ty.isTuple] at this
        | _ => rfl
      | _ => rfl
  unfold callableCreate
  rw [hnotTuple]
  -- no `[[…], ret]` form either: the first argument is no list
  have hsplit : callableSplit (cArgs ts sz blk) = some (none, cArgs ts sz blk) := by
    cases hc : cArgs ts sz blk with
    | nil => exact absurd hc hne
    | cons a as =>
      have ha : a.asList = none := hhead a (by simp [hc])
      cases as with
      | nil => simp [callableSplit, ha]
      | cons b bs =>
        cases bs with
        | nil => simp [callableSplit, ha]
        | cons c cs => simp [callableSplit]
  simp only [hsplit, Option.bind]
  exact hfrom

/-- with a return type: `Callable[[p…, size, block], ret]` -/
theorem callableCreate_ret (ts : List Ty) (sz : Option (Int × Int)) (blk : Option Ty) (r : Ty)
    (h : CallableShape ts sz true blk.isSome) (hb : ∀ b ∈ blk, b.isBlock = true) :
    callableCreate [.arr (cArgs ts sz blk), .ty r] = some (.callable (some (ts, sz)) (some r) blk) := by
  have hfrom := callableFrom_cArgs ts sz (some r) blk (by simpa using h) hb
  unfold callableCreate
  simp only [callableTupleForm, callableSplit, Arg.asList, Option.bind]
  exact hfrom

end Pcore.Syntax
