import Pcore.Proofs.FilesGlobal
/-!
C15, a module-relative name `Mod::X` through the module's loader and through the dependency loader: when the global
loader has nothing for it (nor for `Mod`), the answer is decided by the first origin of the key in the module's index.
Direct evaluation of the model through the parent-first route (global loader: miss, parent type-set search, placeholder;
then the module loader), no induction.
-/
namespace Pcore.Files

/-- what the first origin of a key in loader `l` yields -/
def plainOutcomeAt (cfg : Cfg) (l : Lid) (name : Name) : Outcome :=
  match idx cfg l (keyOf name) with
  | [] => .notfound
  | p :: _ =>
    match bodyAt cfg.tree p with
    | some (.typ k nm _) =>
      if keyOf nm ≠ keyOf name then .failed (.reported "PCORE_WRONG_DEFINITION" (some p) 0) else .found ⟨k, nm⟩
    | some .bare => .found ⟨.alias, name⟩
    | some (.malformed ln) => .failed (.reported "PARSE_ERROR" (some p) ln)
    | some .nodef => .failed (.reported "PCORE_NO_DEFINITION" (some p) 0)
    | some .unreadable => .failed (.reported "PCORE_UNABLE_TO_READ_FILE" (some p) 0)
    | none => .failed (.reported "PCORE_UNABLE_TO_READ_FILE" (some p) 0)

theorem module_plain (cfg : Cfg) (mod : String) (hv : cfg.via = .m mod) (hflat : cfg.flat = false)
    (hm : isGlobalMod mod = false)
    (a b : String) (s : St) (n : Nat)
    (hparts : partsOf [a, b] = some [mod, lowerS b])
    (hsys : sysLoad [a, b] = none)
    (hg1 : s.get .g (keyOf [a, b]) = none) (hg2 : s.get .g (keyOf [a]) = none)
    (hm1 : s.get (.m mod) (keyOf [a, b]) = none)
    (hi1 : idx cfg .g (keyOf [a, b]) = []) (hi2 : idx cfg .g (keyOf [a]) = [])
    (p : Path) (ps : List Path) (hi : idx cfg (.m mod) (keyOf [a, b]) = p :: ps)
    (hnt : ∀ nm ts, bodyAt cfg.tree p ≠ some (.typ .typeset nm ts)) :
    (loadS (n+9) cfg s [a, b]).1 = plainOutcomeAt cfg (.m mod) [a, b] ∧
    (loadS (n+9) cfg s [a, b]).2.reads = s.reads ++ [p] := by
  obtain ⟨mods, tree, via, gi, fl⟩ := cfg
  simp only at hv hflat
  subst hv
  subst hflat
  have hmne : mod ≠ "" := by intro h; subst h; simp [isGlobalMod] at hm
  have hq : qualified [a, b] = true := rfl
  have hq1 : qualified [a] = false := rfl
  have hdl : ([a, b] : Name).dropLast = [a] := rfl
  have hdl1 : ([a] : Name).dropLast = [] := rfl
  have hne : (Lid.g, keyOf [a, b]) ≠ (Lid.m mod, keyOf [a, b]) := by intro h; cases h
  unfold loadS load
  simp only [loadEntry, fbLoadEntry, find_g, findTail, parentSearch, bind, pure, getSt, hsys, hg1, hg2, hi1, hi2, hq, hq1,
    hdl, hdl1, if_true, Bool.false_eq_true, if_false]
  simp [setEntry, hg1, get_put, hm1, hne.symm, hne, find, Lid.moduleName, hq, hmne, partsM, hparts, findTail, hi,
    instantiate, bind, pure, getSt, instantiator, modifySt]
  unfold plainOutcomeAt
  simp only [hi]
  cases hb : bodyAt tree p with
  | none => simp [raise]
  | some bd =>
    cases bd with
    | unreadable => simp [raise]
    | malformed ln => simp [raise]
    | nodef => simp [raise]
    | bare => simp [addTypes, setEntry, get_put, bind, pure]
    | typ k nm ts =>
      have hkt : k ≠ .typeset := by
        intro hk; subst hk
        exact hnt nm ts hb
      by_cases hk : keyOf nm = keyOf [a, b]
      · simp [addTypes, setEntry, get_put, bind, pure, hk, hkt]
      · simp [raise, hk]

theorem dependency_plain (cfg : Cfg) (mod : String) (hv : cfg.via = .d) (hflat : cfg.flat = false)
    (hmods : cfg.mods.contains mod = true)
    (hm : isGlobalMod mod = false)
    (a b : String) (s : St) (n : Nat)
    (hparts : partsOf [a, b] = some [mod, lowerS b])
    (hsys : sysLoad [a, b] = none)
    (hd1 : s.get .d (keyOf [a, b]) = none)
    (hg1 : s.get .g (keyOf [a, b]) = none) (hg2 : s.get .g (keyOf [a]) = none)
    (hm1 : s.get (.m mod) (keyOf [a, b]) = none)
    (hi1 : idx cfg .g (keyOf [a, b]) = []) (hi2 : idx cfg .g (keyOf [a]) = [])
    (p : Path) (ps : List Path) (hi : idx cfg (.m mod) (keyOf [a, b]) = p :: ps)
    (hnt : ∀ nm ts, bodyAt cfg.tree p ≠ some (.typ .typeset nm ts)) :
    (loadS (n+11) cfg s [a, b]).1 = plainOutcomeAt cfg (.m mod) [a, b] ∧
    (loadS (n+11) cfg s [a, b]).2.reads = s.reads ++ [p] := by
  obtain ⟨mods, tree, via, gi, fl⟩ := cfg
  simp only at hv hflat
  subst hv
  subst hflat
  simp only at hmods
  have hmne : mod ≠ "" := by intro h; subst h; simp [isGlobalMod] at hm
  have hmods' : mods.isEmpty = false := by
    cases mods with
    | nil => simp at hmods
    | cons x xs => rfl
  have hq : qualified [a, b] = true := rfl
  have hq1 : qualified [a] = false := rfl
  have hdl : ([a, b] : Name).dropLast = [a] := rfl
  have hdl1 : ([a] : Name).dropLast = [] := rfl
  have hne : (Lid.g, keyOf [a, b]) ≠ (Lid.m mod, keyOf [a, b]) := by intro h; cases h
  have hne2 : (Lid.d, keyOf [a, b]) ≠ (Lid.m mod, keyOf [a, b]) := by intro h; cases h
  have hne3 : (Lid.d, keyOf [a, b]) ≠ (Lid.g, keyOf [a, b]) := by intro h; cases h
  unfold loadS load
  simp only [loadEntry, dLoadEntry, dFind, bind, pure, getSt, hd1, hmods', hq, partsM, hparts, Bool.not_false,
    Bool.and_self, if_true, List.head?, hmods]
  simp only [fbLoadEntry, find_g, findTail, parentSearch, bind, pure, getSt, hsys, hg1, hg2, hi1, hi2, hq, hq1,
    hdl, hdl1, if_true, Bool.false_eq_true, if_false]
  simp [setEntry, hg1, get_put, hm1, hne.symm, hne, find, Lid.moduleName, hq, hmne, partsM, hparts, findTail, hi,
    instantiate, bind, pure, getSt, instantiator, modifySt]
  unfold plainOutcomeAt
  simp only [hi]
  cases hb : bodyAt tree p with
  | none => simp [raise]
  | some bd =>
    cases bd with
    | unreadable => simp [raise]
    | malformed ln => simp [raise]
    | nodef => simp [raise]
    | bare => simp [addTypes, setEntry, get_put, bind, pure, hd1, hne2, hne2.symm, hne3, hne3.symm]
    | typ k nm ts =>
      have hkt : k ≠ .typeset := by
        intro hk; subst hk
        exact hnt nm ts hb
      by_cases hk : keyOf nm = keyOf [a, b]
      · simp [addTypes, setEntry, get_put, bind, pure, hk, hkt, hd1, hne2, hne2.symm, hne3, hne3.symm]
      · simp [raise, hk]

/-- `found` is answered exactly when the first origin defines the name (or is a bare type expression) -/
theorem plainOutcomeAt_found (cfg : Cfg) (l : Lid) (name : Name) :
    (∃ d, plainOutcomeAt cfg l name = .found d) ↔
      ∃ p ps, idx cfg l (keyOf name) = p :: ps ∧
        ((∃ k nm ts, bodyAt cfg.tree p = some (.typ k nm ts) ∧ keyOf nm = keyOf name) ∨ bodyAt cfg.tree p = some .bare) := by
  unfold plainOutcomeAt
  cases hi : idx cfg l (keyOf name) with
  | nil => simp
  | cons p ps =>
    simp only []
    cases hb : bodyAt cfg.tree p with
    | none => simp [hb]
    | some b =>
      cases b with
      | unreadable => simp [hb]
      | malformed ln => simp [hb]
      | nodef => simp [hb]
      | bare => simp [hb]
      | typ k nm ts =>
        by_cases hk : keyOf nm = keyOf name
        · simp [hb, hk]
          exact ⟨k, nm, ⟨rfl, rfl⟩, hk⟩
        · simp [hb, hk]

/-- nothing anywhere on the route of `Mod::X`: two placeholders (global loader, module loader), no read -/
theorem module_absent (cfg : Cfg) (mod : String) (hv : cfg.via = .m mod) (hflat : cfg.flat = false)
    (hm : isGlobalMod mod = false)
    (a b : String) (s : St) (n : Nat)
    (hparts : partsOf [a, b] = some [mod, lowerS b]) (hparts1 : partsOf [a] = some [mod])
    (hsys : sysLoad [a, b] = none)
    (hg1 : s.get .g (keyOf [a, b]) = none) (hg2 : s.get .g (keyOf [a]) = none)
    (hm1 : s.get (.m mod) (keyOf [a, b]) = none) (hm2 : s.get (.m mod) (keyOf [a]) = none)
    (hi1 : idx cfg .g (keyOf [a, b]) = []) (hi2 : idx cfg .g (keyOf [a]) = [])
    (hi3 : idx cfg (.m mod) (keyOf [a, b]) = []) (hi4 : idx cfg (.m mod) ["init_typeset"] = []) :
    loadS (n+9) cfg s [a, b] =
      (.notfound, (s.put .g (keyOf [a, b]) none).put (.m mod) (keyOf [a, b]) none) := by
  obtain ⟨mods, tree, via, gi, fl⟩ := cfg
  simp only at hv hflat
  subst hv
  subst hflat
  have hmne : mod ≠ "" := by intro h; subst h; simp [isGlobalMod] at hm
  have hq : qualified [a, b] = true := rfl
  have hq1 : qualified [a] = false := rfl
  have hdl : ([a, b] : Name).dropLast = [a] := rfl
  have hdl1 : ([a] : Name).dropLast = [] := rfl
  have hne : (Lid.g, keyOf [a, b]) ≠ (Lid.m mod, keyOf [a, b]) := by intro h; cases h
  have hne' : (Lid.m mod, keyOf [a]) ≠ (Lid.g, keyOf [a, b]) := by intro h; cases h
  unfold loadS load
  simp only [loadEntry, fbLoadEntry, find_g, findTail, parentSearch, bind, pure, getSt, hsys, hg1, hg2, hi1, hi2, hq, hq1,
    hdl, hdl1, if_true, Bool.false_eq_true, if_false]
  simp [setEntry, hg1, get_put, hm1, hm2, hne.symm, hne, hne', find, Lid.moduleName, hq, hq1, hm, hmne, partsM, hparts,
    hparts1, findTail, hi3, hi4, parentSearch, hdl, hdl1, bind, pure, getSt]

end Pcore.Files
