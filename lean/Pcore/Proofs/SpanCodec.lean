import Pcore.Model.SpanCodec
/-! Helper lemmas for C10: the default Timespan format round-trips — `parseSpan (printSpan ns) = some ns`. -/
namespace Pcore.Ser

theorem digitChar_spec : ∀ d, d < 10 → isDigit (digitChar d) = true ∧ digitVal (digitChar d) = d ∧ digitChar d ≠ '-' := by
  decide

theorem digitChar_mod (n : Nat) : digitChar n = digitChar (n % 10) := by simp [digitChar]

theorem isDigit_digitChar (n : Nat) : isDigit (digitChar n) = true := by
  rw [digitChar_mod]; exact (digitChar_spec _ (Nat.mod_lt _ (by decide))).1
theorem digitVal_digitChar (n : Nat) : digitVal (digitChar n) = n % 10 := by
  rw [digitChar_mod]; exact (digitChar_spec _ (Nat.mod_lt _ (by decide))).2.1
theorem digitChar_ne_minus (n : Nat) : digitChar n ≠ '-' := by
  rw [digitChar_mod]; exact (digitChar_spec _ (Nat.mod_lt _ (by decide))).2.2

def AllDigits (cs : List Char) : Prop := ∀ c ∈ cs, isDigit c = true

theorem allDigits_append {a b : List Char} (ha : AllDigits a) (hb : AllDigits b) : AllDigits (a ++ b) := by
  intro c hc; rcases List.mem_append.mp hc with h | h
  · exact ha c h
  · exact hb c h

theorem allDigits_single (n : Nat) : AllDigits [digitChar n] := by
  intro c hc; simp at hc; subst hc; exact isDigit_digitChar n

theorem takeDigits_append : ∀ (ds : List Char) (c : Char) (rest : List Char), AllDigits ds → isDigit c = false →
    takeDigits (ds ++ c :: rest) = (ds, c :: rest)
  | [], c, rest, _, hc => by simp [takeDigits, hc]
  | d :: ds, c, rest, hd, hc => by
      have h1 : isDigit d = true := hd d (by simp)
      have ih := takeDigits_append ds c rest (fun x hx => hd x (by simp [hx])) hc
      simp [takeDigits, h1, ih]

theorem takeDigits_all : ∀ (ds : List Char), AllDigits ds → takeDigits ds = (ds, [])
  | [], _ => rfl
  | d :: ds, hd => by
      have h1 : isDigit d = true := hd d (by simp)
      have ih := takeDigits_all ds (fun x hx => hd x (by simp [hx]))
      simp [takeDigits, h1, ih]

theorem digitsVal_snoc (cs : List Char) (c : Char) : digitsVal (cs ++ [c]) = digitsVal cs * 10 + digitVal c := by
  simp [digitsVal, List.foldl_append]

/-! padded digits -/
theorem padDigits_all : ∀ (w n : Nat), AllDigits (padDigits w n)
  | 0, _ => by intro c hc; simp [padDigits] at hc
  | w + 1, n => allDigits_append (padDigits_all w (n / 10)) (allDigits_single n)

theorem padDigits_length : ∀ (w n : Nat), (padDigits w n).length = w
  | 0, _ => rfl
  | w + 1, n => by simp [padDigits, padDigits_length w]

theorem padDigits_val : ∀ (w n : Nat), digitsVal (padDigits w n) = n % 10 ^ w
  | 0, n => by simp [padDigits, digitsVal, Nat.mod_one]
  | w + 1, n => by
      rw [padDigits, digitsVal_snoc, padDigits_val w, digitVal_digitChar, Nat.pow_succ]
      have := Nat.mod_mul_right_div_self n 10 (10 ^ w)
      rw [Nat.mul_comm (10 ^ w) 10, Nat.mod_mul (a := 10) (b := 10 ^ w)]
      omega

/-! `%d` -/
theorem natDigitsF_spec : ∀ (fuel n : Nat), n ≤ fuel →
    AllDigits (natDigitsF fuel n) ∧ digitsVal (natDigitsF fuel n) = n ∧ 1 ≤ (natDigitsF fuel n).length
  | 0, n, h => by
      have : n = 0 := by omega
      subst this
      exact ⟨allDigits_single 0, by simp [natDigitsF, digitsVal, digitVal_digitChar], by simp [natDigitsF]⟩
  | fuel + 1, n, h => by
      rw [natDigitsF]
      split
      · rename_i h10
        refine ⟨allDigits_single n, ?_, by simp⟩
        simp [digitsVal, digitVal_digitChar]; omega
      · rename_i h10
        obtain ⟨h1, h2, h3⟩ := natDigitsF_spec fuel (n / 10) (by omega)
        refine ⟨allDigits_append h1 (allDigits_single n), ?_, by simp⟩
        rw [digitsVal_snoc, h2, digitVal_digitChar]; omega

theorem natDigits_spec (n : Nat) : AllDigits (natDigits n) ∧ digitsVal (natDigits n) = n ∧ 1 ≤ (natDigits n).length :=
  natDigitsF_spec n n (Nat.le_refl n)

theorem natDigits_head (n : Nat) : ∃ c rest, natDigits n = c :: rest ∧ c ≠ '-' := by
  obtain ⟨h1, _, h3⟩ := natDigits_spec n
  match hn : natDigits n with
  | [] => rw [hn] at h3; simp at h3
  | c :: rest =>
    refine ⟨c, rest, rfl, ?_⟩
    intro hc
    have := h1 c (by rw [hn]; simp)
    rw [hc] at this
    revert this; decide

/-! the fraction -/
theorem fracDigits_spec : ∀ (w f : Nat), 1 ≤ w → AllDigits (fracDigits w f) ∧ 1 ≤ (fracDigits w f).length ∧
    (fracDigits w f).length ≤ w ∧ digitsVal (fracDigits w f) * 10 ^ (w - (fracDigits w f).length) = f % 10 ^ w
  | 0, _, h => by omega
  | 1, f, _ => by
      refine ⟨allDigits_single f, by simp [fracDigits], by simp [fracDigits], ?_⟩
      simp [fracDigits, digitsVal, digitVal_digitChar]
  | w + 2, f, _ => by
      rw [fracDigits]
      split
      · rename_i h0
        obtain ⟨h1, h2, h3, h4⟩ := fracDigits_spec (w + 1) (f / 10) (by omega)
        refine ⟨h1, h2, by omega, ?_⟩
        have hk : w + 2 - (fracDigits (w + 1) (f / 10)).length = (w + 1 - (fracDigits (w + 1) (f / 10)).length) + 1 := by omega
        rw [hk, Nat.pow_succ, ← Nat.mul_assoc, h4]
        have hp : 10 ^ (w + 2) = 10 * 10 ^ (w + 1) := by rw [Nat.pow_succ, Nat.mul_comm]
        rw [hp, Nat.mod_mul (a := 10) (b := 10 ^ (w + 1))]
        omega
      · refine ⟨padDigits_all _ _, by simp [padDigits_length], by simp [padDigits_length], ?_⟩
        simp [padDigits_length, padDigits_val]

theorem notDigit_seps : isDigit '-' = false ∧ isDigit ':' = false ∧ isDigit '.' = false := by decide

/-- the parser inverts the printer on the absolute value -/
theorem parseSpanChars_spanChars (n : Nat) : parseSpanChars (spanChars n) = some n := by
  obtain ⟨hd1, hd2, hd3⟩ := natDigits_spec (n / 1000000000 / 86400)
  obtain ⟨hf1, hf2, hf3, hf4⟩ := fracDigits_spec 9 (n % 1000000000) (by decide)
  have hF : digitsVal (fracDigits 9 (n % 1000000000)) * 10 ^ (9 - (fracDigits 9 (n % 1000000000)).length) =
      n % 1000000000 := by
    rw [hf4]; exact Nat.mod_eq_of_lt (Nat.mod_lt _ (by decide))
  have hp := fun k => padDigits_all 2 k
  have hl := fun k => padDigits_length 2 k
  have hv : ∀ k, digitsVal (padDigits 2 k) = k % 100 := fun k => by rw [padDigits_val]
  unfold parseSpanChars spanChars
  simp only [takeDigits_append _ _ _ hd1 notDigit_seps.1, takeDigits_append _ _ _ (hp _) notDigit_seps.2.1,
    takeDigits_append _ _ _ (hp _) notDigit_seps.2.2, takeDigits_all _ hf1, expectChar, if_true, Option.bind_some, hl]
  have e1 : ¬ (natDigits (n / 1000000000 / 86400)).length < 1 := by omega
  have e2a : ¬ (fracDigits 9 (n % 1000000000)).length < 1 := by omega
  have e2b : ¬ (fracDigits 9 (n % 1000000000)).length > 9 := by omega
  simp only [e1, if_false, e2a, e2b, decide_false, Bool.or_false, Bool.false_eq_true, List.isEmpty_nil, Bool.not_true,
    hd2, hv, hF]
  simp
  clear hd1 hd2 hd3 hf1 hf2 hf3 hf4 hF hp hl hv e1 e2a e2b
  have hn : n = n / 1000000000 * 1000000000 + n % 1000000000 := by omega
  generalize n / 1000000000 = sec at hn ⊢
  generalize n % 1000000000 = fr at hn ⊢
  have h2 : sec / 60 / 60 = sec / 3600 := Nat.div_div_eq_div_mul sec 60 60
  have h1 : sec / 3600 / 24 = sec / 86400 := Nat.div_div_eq_div_mul sec 3600 24
  rw [← h1, ← h2]
  omega

theorem span_codec (ns : Int) : parseSpan (printSpan ns) = some ns := by
  unfold parseSpan printSpan
  rw [String.toList_ofList]
  by_cases h : ns < 0
  · have hn : -(ns.natAbs : Int) = ns := by rw [Int.ofNat_natAbs_of_nonpos (by omega)]; omega
    simp [h, parseSpanChars_spanChars, hn]
  · have hn : (ns.natAbs : Int) = ns := Int.natAbs_of_nonneg (by omega)
    simp only [h, if_false]
    obtain ⟨c, rest, hc, hne⟩ := natDigits_head (ns.natAbs / 1000000000 / 86400)
    have hs : ∃ c rest, spanChars ns.natAbs = c :: rest ∧ c ≠ '-' := by
      unfold spanChars; rw [hc]; exact ⟨c, _, rfl, hne⟩
    obtain ⟨c', rest', hs1, hs2⟩ := hs
    have := parseSpanChars_spanChars ns.natAbs
    rw [hs1] at this ⊢
    split
    · rename_i heq; cases heq; exact absurd rfl hs2
    · simp [this, hn]

/-- every Timespan has a canonical payload -/
theorem canonSpan_printSpan (ns : Int) : canonSpan (printSpan ns) = true := by
  simp [canonSpan, span_codec]

end Pcore.Ser
