import Pcore.Proofs.Describe
set_option linter.unusedSimpArgs false
set_option linter.unusedVariables false
/-!
  Positions of the describer (C19): `Reach e a oc s x a'` — following the path suffix `s` from the pair (expected `e`, actual `a`)
  leads to the pair (`x`, `a'`).  The relation is defined on the STRUCTURE of the two type terms, independently of the describer's
  loops:

    entry 'k'          Struct/Struct: the member named k of both;  Hash/Struct: the value type and the member named k
    key of entry 'k'   Struct/Struct: String[k] twice;  Hash/Struct: the key type and the key type of the member named k
    index 'i'          Array/Tuple: the element type and the i-th type;  Tuple/Array: the i-th type and the element type;
                       Tuple/Tuple: the LAST expected type and the i-th actual type, for i at or beyond the expected length
    variant 'i'        the i-th member of a Variant (an Optional expectation adds Undef as one more member) or of the resolved Data /
                       RichData alias — or no element at all (a merged description has its variant element chopped)
    (nothing)          the contained type of an Optional

  `oc` = "the original expectation is an Optional" (it only matters for a Variant: one more member).
  Main theorem (`describe_reach`): every mismatch `internalDescribe e o a p` reports has a path `p ++ s` with `Reach e a _ s x a'`,
  and the local soundness condition `Local` of its kind holds of `(x, a')`.
-/
namespace Pcore.Desc
open Pcore.Lat

/-- the members `describeVariantType` loops over when handed `e` -/
def members (e : Ty) (oc : Bool) : Option (List Atom) :=
  match e with
  | .variant ts => some (ts.map .ty ++ (if oc then [.ty .undef] else []))
  | .data => some dataMembers
  | .richData => some richMembers
  | _ => none

inductive Reach : Ty → Ty → Bool → Path → Atom → Ty → Prop where
  | refl (e a oc) : Reach e a oc [] (.ty e) a
  | opt {t a oc oc' s x a'} : Reach t a oc' s x a' → Reach (.optional t) a oc s x a'
  | silent {e a oc xs t s x a'} : members e oc = some xs → Atom.ty t ∈ xs → Reach t a false s x a' → Reach e a oc s x a'
  | explicit {e a oc xs i t s x a'} : members e oc = some xs → xs[i]? = some (.ty t) → Reach t a false s x a' →
      Reach e a oc (PE.nat .variant i :: s) x a'
  | opq {e a oc xs i y} : members e oc = some xs → xs[i]? = some y → (∀ t, y ≠ .ty t) → Reach e a oc [PE.nat .variant i] y a
  | opqSilent {e a oc xs y} : members e oc = some xs → y ∈ xs → (∀ t, y ≠ .ty t) → Reach e a oc [] y a
  | entryS {ms ms' : List Member} {n o t} {m' : Member} {oc s x a'} : (n, o, t) ∈ ms → m' ∈ ms' → m'.1 = n →
      Reach t m'.2.2 false s x a' → Reach (.struct ms) (.struct ms') oc (⟨.entry, n⟩ :: s) x a'
  | keyS {ms ms' : List Member} {n o t} {m' : Member} {oc s x a'} : (n, o, t) ∈ ms → m' ∈ ms' → m'.1 = n →
      Reach (.strVal n) (.strVal n) false s x a' → Reach (.struct ms) (.struct ms') oc (⟨.entryKey, n⟩ :: s) x a'
  | entryH {k v r} {ms' : List Member} {m' : Member} {oc s x a'} : m' ∈ ms' →
      Reach v m'.2.2 false s x a' → Reach (.hash k v r) (.struct ms') oc (⟨.entry, m'.1⟩ :: s) x a'
  | keyH {k v r} {ms' : List Member} {m' : Member} {oc s x a'} : m' ∈ ms' →
      Reach k (memberKey m') false s x a' → Reach (.hash k v r) (.struct ms') oc (⟨.entryKey, m'.1⟩ :: s) x a'
  | idxAT {et r ts' g' i t' oc s x a'} : ts'[i]? = some t' →
      Reach et t' false s x a' → Reach (.array et r) (.tuple ts' g') oc (PE.nat .index i :: s) x a'
  | idxTA {ts g e' r' i t oc s x a'} : ts[i]? = some t →
      Reach t e' false s x a' → Reach (.tuple ts g) (.array e' r') oc (PE.nat .index i :: s) x a'
  | idxTT {ts g ts' g' i ext t' oc s x a'} : ts.getLast? = some ext → ts.length ≤ i → ts'[i]? = some t' →
      Reach ext t' false s x a' → Reach (.tuple ts g) (.tuple ts' g') oc (PE.nat .index i :: s) x a'
  -- Callable against Callable: the parameter tuples are described under the SAME path (absent actual parameters = the default Tuple);
  -- the return types below `return`, the block types below `block`
  | callP {ep rt bl ps' rt' bl' oc s x a'} : Reach ep (ps'.getD (.tuple [] (some Rng.pos))) false s x a' →
      Reach (.callable (some ep) rt bl) (.callable ps' rt' bl') oc s x a'
  | callRet {ps er bl ps' rt' bl' oc} :
      Reach (.callable ps (some er) bl) (.callable ps' rt' bl') oc [⟨.ret, ""⟩] (.ty er) (rt'.getD .any)
  | callBlk {ps rt eb ps' rt' ab oc} :
      Reach (.callable ps rt (some eb)) (.callable ps' rt' (some ab)) oc [⟨.block, ""⟩] (.ty eb) ab

/-- kind and key of a mismatch: what `mergeMismatch`, `withPath` and `chopPath` never change -/
def Mismatch.kk : Mismatch → Cls × String
  | .missingKey _ k => (.missingKey, k)
  | .extraneousKey _ k => (.extraneousKey, k)
  | .unresolvedTypeReference _ k => (.unresolvedTypeReference, k)
  | m => (m.cls, "")

/-- the per-kind soundness condition at the pair of sub-terms the path leads to -/
def Local (kk : Cls × String) (x : Atom) (a' : Ty) : Prop :=
  match kk.1 with
  | .missingKey =>
      ∃ ms ms', x = .ty (.struct ms) ∧ a' = .struct ms' ∧ (∃ t, (kk.2, false, t) ∈ ms) ∧
        (lookupLast kk.2 ms' = none ∨ ¬ (ms.map (·.1)).Nodup)
  | .extraneousKey =>
      ∃ ms ms', x = .ty (.struct ms) ∧ a' = .struct ms' ∧ (∃ m ∈ ms', m.1 = kk.2) ∧ ∀ m ∈ ms, m.1 ≠ kk.2
  | _ => True

theorem Reach.oc_irrelevant {e a s x a'} (h : Reach e a (isOptional e) s x a') : Reach e a false s x a' := by
  cases e with
  | optional t =>
    cases h with
    | refl => exact .refl _ _ _
    | opt h' => exact .opt h'
    | silent hm => simp [members] at hm
    | explicit hm => simp [members] at hm
    | opq hm => simp [members] at hm
    | opqSilent hm => simp [members] at hm
  | _ => simpa [isOptional] using h


/-! ### merge / chop keep kind, key and (up to the chopped element) the path -/
theorem setPath_kk (m : Mismatch) (q : Path) : (m.setPath q).kk = m.kk := by cases m <;> rfl
theorem setPath_path (m : Mismatch) (q : Path) : (m.setPath q).path = q := by cases m <;> rfl
theorem mergeMismatch_path (m o : Mismatch) : (mergeMismatch m o).path = m.path := by
  cases m <;> cases o <;> rfl
theorem mergeMismatch_kk (m o : Mismatch) : (mergeMismatch m o).kk = m.kk := by
  cases m <;> cases o <;> rfl

theorem foldMerge_spec {prev r : Mismatch} {rest : List Mismatch} (h : foldMerge prev rest = some r) :
    r.path = prev.path ∧ r.kk = prev.kk := by
  induction rest generalizing prev with
  | nil => simp only [foldMerge, Option.some.injEq] at h; subst h; exact ⟨rfl, rfl⟩
  | cons c rest ih =>
    simp only [foldMerge] at h
    split at h
    · obtain ⟨h1, h2⟩ := ih h
      exact ⟨by rw [h1, mergeMismatch_path], by rw [h2, mergeMismatch_kk]⟩
    · cases h

theorem tryClasses_spec {ds r : List Mismatch} {cs : List Cls} (h : tryClasses ds cs = .ok r) :
    r = ds ∨ ∃ m0 ∈ ds, ∃ d, r = [d] ∧ d.path = m0.path ∧ d.kk = m0.kk := by
  induction cs with
  | nil => simp only [tryClasses, Res.ok.injEq] at h; exact .inl h.symm
  | cons c cs ih =>
    simp only [tryClasses] at h
    split at h
    · split at h
      · cases h
      · rename_i m0 rest hmm
        split at h
        · rename_i prev hf
          simp only [Res.ok.injEq] at h
          obtain ⟨h1, h2⟩ := foldMerge_spec hf
          have hin : m0 ∈ ds := by
            have : m0 ∈ List.filter (fun d => d.cls == c) ds := by rw [hmm]; exact List.mem_cons_self
            exact (List.mem_filter.mp this).1
          exact .inr ⟨m0, hin, prev, h.symm, h1, h2⟩
        · exact ih h
    · exact ih h

theorem chopPath_kk (m : Mismatch) (i : Nat) : (chopPath m i).kk = m.kk := by
  unfold chopPath; split
  · rfl
  · exact setPath_kk _ _

theorem chopPath_path (m : Mismatch) (i : Nat) :
    (chopPath m i).path = m.path ∨ (i < m.path.length ∧ (chopPath m i).path = m.path.eraseIdx i) := by
  unfold chopPath; split
  · exact .inl rfl
  · rename_i h; exact .inr ⟨by omega, setPath_path _ _⟩

theorem mergeDescriptions_spec {pos : Nat} {sm : Cls} {ds r : List Mismatch} (h : mergeDescriptions pos sm ds = .ok r) :
    ∀ m ∈ r, ∃ m0 ∈ ds, m.kk = m0.kk ∧ (m.path = m0.path ∨ (pos < m0.path.length ∧ m.path = m0.path.eraseIdx pos)) := by
  unfold mergeDescriptions at h
  split at h
  · simp only [Res.ok.injEq] at h; subst h; intro m hm; cases hm
  · cases ht : tryClasses ds [sm, .missingRequiredBlock, .unexpectedBlock, .type] with
    | fault k => rw [ht] at h; cases h
    | ok r' =>
      rw [ht] at h
      have hs := tryClasses_spec ht
      -- every element of r' comes from ds with the same path and key
      have hr' : ∀ m ∈ r', ∃ m0 ∈ ds, m.kk = m0.kk ∧ m.path = m0.path := by
        intro m hm
        rcases hs with rfl | ⟨m0, hin, d, rfl, hp, hk⟩
        · exact ⟨m, hm, rfl, rfl⟩
        · simp only [List.mem_singleton] at hm; subst hm; exact ⟨m0, hin, hk, hp⟩
      match r', h, hr' with
      | [], h, hr' => simp only [Res.ok.injEq] at h; subst h; intro m hm; cases hm
      | [d], h, hr' =>
        simp only [Res.ok.injEq] at h; subst h
        intro m hm
        simp only [List.mem_singleton] at hm; subst hm
        obtain ⟨m0, hin, hk, hp⟩ := hr' d List.mem_cons_self
        refine ⟨m0, hin, by rw [chopPath_kk, hk], ?_⟩
        rcases chopPath_path d pos with h1 | ⟨h1, h2⟩
        · exact .inl (by rw [h1, hp])
        · exact .inr ⟨by rw [← hp]; exact h1, by rw [h2, hp]⟩
      | d :: d' :: rest, h, hr' =>
        simp only [Res.ok.injEq] at h; subst h
        intro m hm
        obtain ⟨m0, hin, hk, hp⟩ := hr' m hm
        exact ⟨m0, hin, hk, .inl hp⟩


/-! ### what the loops ask for -/
theorem lookupLast_mem {n : String} {ms : List Member} {m : Member} (h : lookupLast n ms = some m) : m ∈ ms ∧ m.1 = n := by
  induction ms with
  | nil => simp [lookupLast] at h
  | cons x xs ih =>
    simp only [lookupLast] at h
    cases hx : lookupLast n xs with
    | some r =>
      rw [hx] at h; simp only [Option.some.injEq] at h; subst h
      exact ⟨List.mem_cons_of_mem _ (ih hx).1, (ih hx).2⟩
    | none =>
      rw [hx] at h
      by_cases hn : x.1 = n
      · simp [hn] at h; subst h; exact ⟨List.mem_cons_self, hn⟩
      · simp [hn] at h

theorem lookupLast_none {n : String} {ms : List Member} : lookupLast n ms = none ↔ ∀ m ∈ ms, m.1 ≠ n := by
  induction ms with
  | nil => simp [lookupLast]
  | cons x xs ih =>
    simp only [lookupLast]
    cases hx : lookupLast n xs with
    | some r =>
      simp only [reduceCtorEq, false_iff]
      intro hall
      exact (hall r (List.mem_cons_of_mem _ (lookupLast_mem hx).1)) (lookupLast_mem hx).2
    | none =>
      have := ih.mp hx
      by_cases hn : x.1 = n
      · simp [hn]
      · simp only [beq_iff_eq, hn, if_false, true_iff, List.mem_cons, forall_eq_or_imp, ne_eq, not_false_eq_true, true_and]
        exact this

theorem distinctNames_mem {k : String} {ms : List Member} (h : k ∈ distinctNames ms) : ∃ m ∈ ms, m.1 = k := by
  induction ms with
  | nil => simp [distinctNames] at h
  | cons x xs ih =>
    simp only [distinctNames] at h
    split at h
    · obtain ⟨m, hm, hk⟩ := ih h; exact ⟨m, List.mem_cons_of_mem _ hm, hk⟩
    · rcases List.mem_cons.mp h with rfl | h'
      · exact ⟨x, List.mem_cons_self, rfl⟩
      · obtain ⟨m, hm, hk⟩ := ih h'; exact ⟨m, List.mem_cons_of_mem _ hm, hk⟩

/-- the three kinds of items of the Struct/Struct loop -/
def StructItemOK (p : Path) (ms h2 : List Member) (it : Item) : Prop :=
  (∃ k, it = .leaf (.extraneousKey p k) ∧ (∃ m ∈ h2, m.1 = k) ∧ ∀ m ∈ ms, m.1 ≠ k) ∨
  (∃ k, it = .leaf (.missingKey p k) ∧ (∃ t, (k, false, t) ∈ ms) ∧ (lookupLast k h2 = none ∨ ¬ (ms.map (·.1)).Nodup)) ∨
  (∃ n o t m', (n, o, t) ∈ ms ∧ m' ∈ h2 ∧ m'.1 = n ∧
    (it = .sub (.strVal n) (.strVal n) ⟨.entryKey, n⟩ false ∨ it = .sub t m'.2.2 ⟨.entry, n⟩ false))

theorem structItems_spec (p : Path) (ms h2 : List Member) : ∀ it ∈ structItems p ms h2, StructItemOK p ms h2 it := by
  induction ms generalizing h2 with
  | nil =>
    intro it hit
    simp only [structItems, List.mem_map] at hit
    obtain ⟨k, hk, rfl⟩ := hit
    exact .inl ⟨k, rfl, distinctNames_mem hk, by intro m hm; cases hm⟩
  | cons hd rest ih =>
    obtain ⟨n, o, t⟩ := hd
    intro it hit
    simp only [structItems] at hit
    cases hl : lookupLast n h2 with
    | some r =>
      obtain ⟨n', o', t'⟩ := r
      rw [hl] at hit
      simp only [List.mem_cons] at hit
      have hr := lookupLast_mem hl
      rcases hit with rfl | rfl | hit
      · exact .inr (.inr ⟨n, o, t, (n', o', t'), List.mem_cons_self, hr.1, hr.2, .inl rfl⟩)
      · exact .inr (.inr ⟨n, o, t, (n', o', t'), List.mem_cons_self, hr.1, hr.2, .inr rfl⟩)
      · rcases ih _ it hit with ⟨k, rfl, ⟨m, hm, hmk⟩, hno⟩ | ⟨k, rfl, ⟨t2, ht2⟩, hor⟩ | ⟨n2, o2, t2, m', hin, hm', hn2, hor⟩
        · have hm2 := List.mem_filter.mp hm
          have hne : m.1 ≠ n := by simpa using hm2.2
          refine .inl ⟨k, rfl, ⟨m, hm2.1, hmk⟩, ?_⟩
          intro x hx
          rcases List.mem_cons.mp hx with rfl | hx
          · simpa [← hmk] using fun h => hne h.symm
          · exact hno x hx
        · refine .inr (.inl ⟨k, rfl, ⟨t2, List.mem_cons_of_mem _ ht2⟩, ?_⟩)
          have hkin : k ∈ rest.map (·.1) := List.mem_map.mpr ⟨_, ht2, rfl⟩
          rcases hor with hnone | hdup
          · by_cases hkn : k = n
            · right; subst hkn
              simp only [List.map_cons, List.nodup_cons, not_and]
              intro hnot; exact absurd hkin hnot
            · left
              rw [lookupLast_none] at hnone ⊢
              intro m hm hmk
              exact hnone m (List.mem_filter.mpr ⟨hm, by simpa [hmk] using hkn⟩) hmk
          · right
            simp only [List.map_cons, List.nodup_cons, not_and]
            intro _; exact hdup
        · exact .inr (.inr ⟨n2, o2, t2, m', List.mem_cons_of_mem _ hin, (List.mem_filter.mp hm').1, hn2, hor⟩)
    | none =>
      rw [hl] at hit
      have hnone := lookupLast_none.mp hl
      rcases List.mem_append.mp hit with hit | hit
      · cases o with
        | true => simp at hit
        | false =>
          simp only [Bool.false_eq_true, if_false, List.mem_singleton] at hit
          subst hit
          exact .inr (.inl ⟨n, rfl, ⟨t, List.mem_cons_self⟩, .inl hl⟩)
      · rcases ih _ it hit with ⟨k, rfl, ⟨m, hm, hmk⟩, hno⟩ | ⟨k, rfl, ⟨t2, ht2⟩, hor⟩ | ⟨n2, o2, t2, m', hin, hm', hn2, hor⟩
        · refine .inl ⟨k, rfl, ⟨m, hm, hmk⟩, ?_⟩
          intro x hx
          rcases List.mem_cons.mp hx with rfl | hx
          · intro h; exact hnone m hm (by rw [hmk]; exact h.symm)
          · exact hno x hx
        · refine .inr (.inl ⟨k, rfl, ⟨t2, List.mem_cons_of_mem _ ht2⟩, ?_⟩)
          rcases hor with h | hdup
          · exact .inl h
          · right
            simp only [List.map_cons, List.nodup_cons, not_and]
            intro _; exact hdup
        · exact .inr (.inr ⟨n2, o2, t2, m', List.mem_cons_of_mem _ hin, hm', hn2, hor⟩)

theorem hashItems_spec (kt vt : Ty) (ms' : List Member) : ∀ it ∈ hashItems kt vt ms', ∃ m' ∈ ms',
    it = .sub kt (memberKey m') ⟨.entryKey, m'.1⟩ false ∨ it = .sub vt m'.2.2 ⟨.entry, m'.1⟩ false := by
  induction ms' with
  | nil => intro it hit; simp [hashItems] at hit
  | cons m ms ih =>
    intro it hit
    simp only [hashItems, List.mem_cons] at hit
    rcases hit with rfl | rfl | hit
    · exact ⟨m, List.mem_cons_self, .inl rfl⟩
    · exact ⟨m, List.mem_cons_self, .inr rfl⟩
    · obtain ⟨m', hm', h⟩ := ih it hit; exact ⟨m', List.mem_cons_of_mem _ hm', h⟩

theorem arrTupItems_spec (et : Ty) (as : List Ty) (i : Nat) : ∀ it ∈ arrTupItems et as i, ∃ j t',
    as[j]? = some t' ∧ it = .sub et t' (PE.nat .index (i + j)) true := by
  induction as generalizing i with
  | nil => intro it hit; simp [arrTupItems] at hit
  | cons a as ih =>
    intro it hit
    simp only [arrTupItems, List.mem_cons] at hit
    rcases hit with rfl | hit
    · exact ⟨0, a, rfl, rfl⟩
    · obtain ⟨j, t', h1, h2⟩ := ih (i + 1) it hit
      exact ⟨j + 1, t', by simpa using h1, by rw [h2]; congr 2; omega⟩

theorem tupArrItems_spec (ae : Ty) (es : List Ty) (i : Nat) : ∀ it ∈ tupArrItems ae es i, ∃ j t,
    es[j]? = some t ∧ it = .sub t ae (PE.nat .index (i + j)) false := by
  induction es generalizing i with
  | nil => intro it hit; simp [tupArrItems] at hit
  | cons e es ih =>
    intro it hit
    simp only [tupArrItems, List.mem_cons] at hit
    rcases hit with rfl | hit
    · exact ⟨0, e, rfl, rfl⟩
    · obtain ⟨j, t, h1, h2⟩ := ih (i + 1) it hit
      exact ⟨j + 1, t, by simpa using h1, by rw [h2]; congr 2; omega⟩

theorem tupTupItems_spec (ext : Ty) (exl : Nat) (as : List Ty) (i : Nat) : ∀ it ∈ tupTupItems ext exl as i, ∃ j t',
    as[j]? = some t' ∧ exl ≤ i + j ∧ it = .sub ext t' (PE.nat .index (i + j)) false := by
  induction as generalizing i with
  | nil => intro it hit; simp [tupTupItems] at hit
  | cons a as ih =>
    intro it hit
    simp only [tupTupItems] at hit
    rcases List.mem_append.mp hit with hit | hit
    · by_cases h : i ≥ exl
      · simp only [h, if_true, List.mem_singleton] at hit
        exact ⟨0, a, rfl, by omega, hit⟩
      · simp [h] at hit
    · obtain ⟨j, t', h1, h2, h3⟩ := ih (i + 1) it hit
      exact ⟨j + 1, t', by simpa using h1, by omega, by rw [h3]; congr 2; omega⟩


/-! ### the main induction -/
/-- the mismatch `m`, reported for (e, a) below the path `p`, is justified: its path continues `p` along a walk of `Reach`, and the
    soundness condition of its kind holds where the walk ends -/
def Just (e a : Ty) (oc : Bool) (p : Path) (m : Mismatch) : Prop :=
  ∃ s x a', m.path = p ++ s ∧ Reach e a oc s x a' ∧ Local m.kk x a'

/-- reaching from a member of a Variant -/
def MReach (y : Atom) (a : Ty) (s : Path) (x : Atom) (a' : Ty) : Prop :=
  (∃ t, y = .ty t ∧ Reach t a false s x a') ∨ ((∀ t, y ≠ .ty t) ∧ s = [] ∧ x = y ∧ a' = a)

def ItemJ (e a : Ty) (oc : Bool) (p : Path) : Item → Prop
  | .leaf m => Just e a oc p m
  | .sub e2 a2 pe _ => ∀ s x a', Reach e2 a2 false s x a' → Reach e a oc (pe :: s) x a'

def M2 (cfg : Cfg) (sfh : Bool) (items : List Item) (p : Path) : Prop :=
  ∀ r, descAll cfg sfh items p = .ok r → ∀ m ∈ r, (Item.leaf m ∈ items) ∨
    ∃ e2 a2 pe g, Item.sub e2 a2 pe g ∈ items ∧ ∃ s x a', m.path = p ++ pe :: s ∧ Reach e2 a2 false s x a' ∧ Local m.kk x a'

def M3 (cfg : Cfg) (sfh : Bool) (xs : List Atom) (u : Bool) (i : Nat) (a : Ty) (p : Path) : Prop :=
  ∀ ds, descVar cfg sfh xs u i a p = .acc ds → ∀ m ∈ ds, ∃ j y s x a',
    (xs ++ (if u then [Atom.ty .undef] else []))[j]? = some y ∧ m.path = p ++ PE.nat .variant (i + j) :: s ∧
    MReach y a s x a' ∧ Local m.kk x a'

theorem just_leaf {e a : Ty} {oc : Bool} {p : Path} {m : Mismatch} (hp : m.path = p)
    (hk : m.kk.1 ≠ .missingKey ∧ m.kk.1 ≠ .extraneousKey) : Just e a oc p m := by
  refine ⟨[], .ty e, a, by simp [hp], .refl _ _ _, ?_⟩
  unfold Local
  split <;> simp_all

theorem just_of_items {cfg sfh} {e a : Ty} {oc : Bool} {p : Path} {items : List Item} {r : List Mismatch}
    (hI : ∀ it ∈ items, ItemJ e a oc p it) (h2 : M2 cfg sfh items p) (hr : descAll cfg sfh items p = .ok r) :
    ∀ m ∈ r, Just e a oc p m := by
  intro m hm
  rcases h2 r hr m hm with hleaf | ⟨e2, a2, pe, g, hin, s, x, a', hp, hreach, hloc⟩
  · exact hI _ hleaf
  · exact ⟨pe :: s, x, a', hp, hI _ hin s x a' hreach, hloc⟩

theorem eraseIdx_prefix (p : Path) (e : PE) (s : Path) : (p ++ e :: s).eraseIdx p.length = p ++ s := by
  induction p with
  | nil => rfl
  | cons x xs ih => simp only [List.cons_append, List.length_cons, List.eraseIdx_cons_succ, ih]

theorem variantTail_just {e o a : Ty} {oc : Bool} {p : Path} {v : VRes} {r : List Mismatch} {full : List Atom}
    (hmem : members e oc = some full)
    (hv : ∀ ds, v = .acc ds → ∀ m ∈ ds, ∃ j y s x a', full[j]? = some y ∧ m.path = p ++ PE.nat .variant j :: s ∧
      MReach y a s x a' ∧ Local m.kk x a')
    (h : variantTail o a p v = .ok r) : ∀ m ∈ r, Just e a oc p m := by
  cases v with
  | fault k => simp [variantTail] at h
  | hit => simp only [variantTail, Res.ok.injEq] at h; subst h; intro m hm; cases hm
  | acc vs =>
    simp only [variantTail] at h
    cases hmd : mergeDescriptions p.length .size vs with
    | fault k => rw [hmd] at h; cases h
    | ok ds =>
      rw [hmd] at h
      have hspec := mergeDescriptions_spec hmd
      have hds : ∀ m ∈ ds, Just e a oc p m := by
        intro m hm
        obtain ⟨m0, hin, hk, hpath⟩ := hspec m hm
        obtain ⟨j, y, s, x, a', hj, hp0, hreach, hloc⟩ := hv vs rfl m0 hin
        rw [← hk] at hloc
        rcases hpath with hsame | ⟨_, hchop⟩
        · rcases hreach with ⟨t, rfl, hr⟩ | ⟨hno, hs, hx, ha⟩
          · exact ⟨_, x, a', by rw [hsame, hp0], .explicit hmem hj hr, hloc⟩
          · subst hs hx ha
            exact ⟨_, x, a', by rw [hsame, hp0], .opq hmem hj hno, hloc⟩
        · have hp' : m.path = p ++ s := by rw [hchop, hp0, eraseIdx_prefix]
          rcases hreach with ⟨t, rfl, hr⟩ | ⟨hno, hs, hx, ha⟩
          · exact ⟨s, x, a', hp', .silent hmem (List.mem_of_getElem? hj) hr, hloc⟩
          · subst hs hx ha
            exact ⟨[], x, a', hp', .opqSilent hmem (List.mem_of_getElem? hj) hno, hloc⟩
      simp only [] at h
      by_cases hal : (isAlias o && ds.length == 1) = true
      · rw [if_pos hal] at h
        simp only [Res.ok.injEq] at h; subst h
        intro m hm
        simp only [List.mem_singleton] at hm; subst hm
        exact just_leaf rfl (by simp [Mismatch.kk, Mismatch.cls])
      · rw [if_neg hal] at h
        simp only [Res.ok.injEq] at h; subst h; exact hds


theorem Res.orElse_eq_ok {a b : Res} {r : List Mismatch} (h : Res.orElse a b = .ok r) :
    (a = .ok r ∧ r ≠ []) ∨ (a = .ok [] ∧ b = .ok r) := by
  cases a with
  | fault k => simp [Res.orElse] at h
  | ok x =>
    cases x with
    | nil => exact .inr ⟨rfl, by simpa [Res.orElse] using h⟩
    | cons d ds => simp only [Res.orElse, Res.ok.injEq] at h; subst h; exact .inl ⟨rfl, by simp⟩

/-- what describeCallableType reports after the parameters is justified -/
theorem callTail_just {cfg sfh} {ps rt bl ps' rt' bl' : Option Ty} {oc : Bool} {p : Path} {r : List Mismatch}
    (h : callTail cfg sfh rt bl rt' bl' p = .ok r) : ∀ m ∈ r, Just (.callable ps rt bl) (.callable ps' rt' bl') oc p m := by
  have hblock : ∀ r, callBlock cfg sfh bl bl' p = .ok r → ∀ m ∈ r, Just (.callable ps rt bl) (.callable ps' rt' bl') oc p m := by
    intro r h
    unfold callBlock at h
    split at h
    · simp only [Res.ok.injEq] at h; subst h; intro m hm; cases hm
    · split at h
      · simp only [Res.ok.injEq] at h; subst h; intro m hm; cases hm
      · split at h
        · simp only [Res.ok.injEq] at h; subst h
          intro m hm; simp only [List.mem_singleton] at hm; subst hm
          exact just_leaf rfl (by simp [Mismatch.kk, Mismatch.cls])
        · simp only [Res.ok.injEq] at h; subst h
          intro m hm; simp only [List.mem_singleton] at hm; subst hm
          exact ⟨_, _, _, rfl, .callBlk, by simp [Local, Mismatch.kk, Mismatch.cls]⟩
  unfold callTail at h
  split at h
  · split at h
    · exact hblock r h
    · simp only [Res.ok.injEq] at h; subst h
      intro m hm; simp only [List.mem_singleton] at hm; subst hm
      exact ⟨_, _, _, rfl, .callRet, by simp [Local, Mismatch.kk, Mismatch.cls]⟩
  · exact hblock r h

/-- the Callable arm: parameter errors (justified by the induction hypothesis) or else the tail -/
theorem call_just {cfg sfh} {ep : Ty} {rt bl ps' rt' bl' : Option Ty} {oc : Bool} {p : Path} {r : List Mismatch}
    (ih : ∀ r, internalDescribe cfg sfh ep ep (ps'.getD (.tuple [] (some Rng.pos))) p = .ok r →
      ∀ m ∈ r, Just ep (ps'.getD (.tuple [] (some Rng.pos))) (isOptional ep) p m)
    (h : Res.orElse (internalDescribe cfg sfh ep ep (ps'.getD (.tuple [] (some Rng.pos))) p) (callTail cfg sfh rt bl rt' bl' p) = .ok r) :
    ∀ m ∈ r, Just (.callable (some ep) rt bl) (.callable ps' rt' bl') oc p m := by
  rcases Res.orElse_eq_ok h with ⟨h1, _⟩ | ⟨_, h2⟩
  · intro m hm
    obtain ⟨s, x, a', hp, hreach, hloc⟩ := ih r h1 m hm
    exact ⟨s, x, a', hp, .callP hreach.oc_irrelevant, hloc⟩
  · exact callTail_just h2

theorem itemJ_struct (oc : Bool) (p : Path) (ms ms' : List Member) :
    ∀ it ∈ structItems p ms ms', ItemJ (.struct ms) (.struct ms') oc p it := by
  intro it hit
  rcases structItems_spec p ms ms' it hit with ⟨k, rfl, hin, hno⟩ | ⟨k, rfl, ht, hor⟩ | ⟨n, o, t, m', hin, hm', hn, rfl | rfl⟩
  · exact ⟨[], .ty (.struct ms), .struct ms', by simp [Mismatch.path], .refl _ _ _, ⟨ms, ms', rfl, rfl, hin, hno⟩⟩
  · exact ⟨[], .ty (.struct ms), .struct ms', by simp [Mismatch.path], .refl _ _ _, ⟨ms, ms', rfl, rfl, ht, hor⟩⟩
  · intro s x a' h; exact .keyS hin hm' hn h
  · intro s x a' h; exact .entryS hin hm' hn h

theorem itemJ_hash (oc : Bool) (p : Path) (k v : Ty) (r : Rng) (ms' : List Member) :
    ∀ it ∈ hashItems k v ms', ItemJ (.hash k v r) (.struct ms') oc p it := by
  intro it hit
  obtain ⟨m', hm', rfl | rfl⟩ := hashItems_spec k v ms' it hit
  · intro s x a' h; exact .keyH hm' h
  · intro s x a' h; exact .entryH hm' h

theorem itemJ_arrTup (oc : Bool) (p : Path) (et : Ty) (r : Rng) (ts' : List Ty) (g' : Option Rng) :
    ∀ it ∈ arrTupItems et ts' 0, ItemJ (.array et r) (.tuple ts' g') oc p it := by
  intro it hit
  obtain ⟨j, t', hj, rfl⟩ := arrTupItems_spec et ts' 0 it hit
  intro s x a' h
  rw [Nat.zero_add]; exact .idxAT hj h

theorem itemJ_tupArr (oc : Bool) (p : Path) (ts : List Ty) (g : Option Rng) (e' : Ty) (r' : Rng) :
    ∀ it ∈ tupArrItems e' ts 0, ItemJ (.tuple ts g) (.array e' r') oc p it := by
  intro it hit
  obtain ⟨j, t, hj, rfl⟩ := tupArrItems_spec e' ts 0 it hit
  intro s x a' h
  rw [Nat.zero_add]; exact .idxTA hj h

theorem itemJ_tupTup (oc : Bool) (p : Path) (ts : List Ty) (g : Option Rng) (ts' : List Ty) (g' : Option Rng) (ext : Ty)
    (hl : ts.getLast? = some ext) :
    ∀ it ∈ tupTupItems ext ts.length ts' 0, ItemJ (.tuple ts g) (.tuple ts' g') oc p it := by
  intro it hit
  obtain ⟨j, t', hj, hle, rfl⟩ := tupTupItems_spec ext ts.length ts' 0 it hit
  intro s x a' h
  rw [Nat.zero_add] at hle ⊢; exact .idxTT hl hle hj h

theorem Res.append_eq_ok {a b : Res} {r : List Mismatch} (h : Res.append a b = .ok r) :
    ∃ x y, a = .ok x ∧ b = .ok y ∧ r = x ++ y := by
  cases a <;> cases b <;> simp [Res.append] at h
  exact ⟨_, _, rfl, rfl, h.symm⟩

theorem VRes.cons_eq_acc {d : Res} {v : VRes} {ds : List Mismatch} (h : VRes.cons d v = .acc ds) :
    ∃ x y, d = .ok x ∧ v = .acc y ∧ ds = x ++ y := by
  cases d <;> cases v <;> simp [VRes.cons] at h
  exact ⟨_, _, rfl, rfl, h.symm⟩

theorem M2_lift {it : Item} {rest : List Item} {p : Path} {m : Mismatch}
    (h : (Item.leaf m ∈ rest) ∨ ∃ e2 a2 pe g, Item.sub e2 a2 pe g ∈ rest ∧ ∃ s x a', m.path = p ++ pe :: s ∧
      Reach e2 a2 false s x a' ∧ Local m.kk x a') :
    (Item.leaf m ∈ it :: rest) ∨ ∃ e2 a2 pe g, Item.sub e2 a2 pe g ∈ it :: rest ∧ ∃ s x a', m.path = p ++ pe :: s ∧
      Reach e2 a2 false s x a' ∧ Local m.kk x a' := by
  rcases h with h | ⟨e2, a2, pe, g, hin, rest'⟩
  · exact .inl (List.mem_cons_of_mem _ h)
  · exact .inr ⟨e2, a2, pe, g, List.mem_cons_of_mem _ hin, rest'⟩

theorem M2_sub {cfg sfh} {e a : Ty} {pe : PE} {g : Bool} {rest : List Item} {p : Path}
    (ih2 : ∀ r, internalDescribe cfg sfh e e a (p ++ [pe]) = .ok r → ∀ m ∈ r, Just e a (isOptional e) (p ++ [pe]) m)
    (ih1 : M2 cfg sfh rest p) {r : List Mismatch}
    (h : Res.append (internalDescribe cfg sfh e e a (p ++ [pe])) (descAll cfg sfh rest p) = .ok r) :
    ∀ m ∈ r, (Item.leaf m ∈ Item.sub e a pe g :: rest) ∨ ∃ e2 a2 pe' g', Item.sub e2 a2 pe' g' ∈ Item.sub e a pe g :: rest ∧
      ∃ s x a', m.path = p ++ pe' :: s ∧ Reach e2 a2 false s x a' ∧ Local m.kk x a' := by
  obtain ⟨x, y, hx, hy, rfl⟩ := Res.append_eq_ok h
  intro m hm
  rcases List.mem_append.mp hm with hm | hm
  · obtain ⟨s, x', a', hp, hreach, hloc⟩ := ih2 x hx m hm
    exact .inr ⟨e, a, pe, g, List.mem_cons_self, s, x', a', by simp [hp], hreach.oc_irrelevant, hloc⟩
  · exact M2_lift (ih1 y hy m hm)

section
variable (cfg : Cfg) (sfh : Bool)

/-- every mismatch the describer reports is justified: its path continues the given path along a walk through the two type
    terms, and the soundness condition of its kind holds where the walk ends -/
theorem describe_reach :
    (∀ e o a p, ∀ r, internalDescribe cfg sfh e o a p = .ok r → ∀ m ∈ r, Just e a (isOptional o) p m) ∧
    (∀ items p, M2 cfg sfh items p) ∧
    (∀ xs u i a p, M3 cfg sfh xs u i a p) := by
  apply internalDescribe.mutual_induct cfg sfh
    (fun e o a p => ∀ r, internalDescribe cfg sfh e o a p = .ok r → ∀ m ∈ r, Just e a (isOptional o) p m)
    (fun items p => M2 cfg sfh items p)
    (fun xs u i a p => M3 cfg sfh xs u i a p)
  all_goals intros
  all_goals try (
    rename_i r hr m hm
    simp only [internalDescribe, *, if_true, if_false, Bool.false_eq_true, Bool.or_true, Bool.true_or, Bool.or_false,
      Bool.not_true, not_false_eq_true, imp_self, implies_true, Res.ok.injEq, reduceCtorEq] at hr
    first
      | (subst hr; exact absurd hm List.not_mem_nil)
      | (subst hr; simp only [List.mem_singleton] at hm; subst hm
         exact just_leaf rfl (by simp [Mismatch.kk, Mismatch.cls]))
      | (exact variantTail_just (by simp [members]; rfl) (fun ds hds m hm => by
          have := ‹M3 cfg sfh _ _ _ _ _› ds hds m hm
          simpa using this) hr m hm)
      | exact callTail_just hr m hm
      | (exact call_just (ps' := some _) ‹_› hr m hm)
      | (exact call_just (ps' := none) ‹_› hr m hm)
      | (exact just_of_items (itemJ_struct _ _ _ _) ‹_› hr m hm)
      | (exact just_of_items (itemJ_hash _ _ _ _ _ _) ‹_› hr m hm)
      | (exact just_of_items (itemJ_arrTup _ _ _ _ _ _) ‹_› hr m hm)
      | (exact just_of_items (itemJ_tupArr _ _ _ _ _ _) ‹_› hr m hm)
      | (exact just_of_items (itemJ_tupTup _ _ _ _ _ _ _ ‹_›) ‹_› hr m hm)
      | skip)
  -- the remaining cases, told apart by the shape of the goal (not by their number: a new `Ty` constructor renumbers them)
  all_goals first
    | (rename_i o a p t ih
       obtain ⟨s, x, a', hp, hreach, hloc⟩ := ih r hr m hm
       have hr' : Reach t a false s x a' := by simpa [isOptional] using hreach
       exact ⟨s, x, a', hp, .silent (xs := [Atom.ty t] ++ (if isOptional o then [Atom.ty .undef] else [])) (by simp [members])
         (by simp) hr', hloc⟩
       done)
    | (rename_i ih
       obtain ⟨s, x, a', hp, hreach, hloc⟩ := ih r (by simpa using hr) m hm
       exact ⟨s, x, a', hp, .opt hreach, hloc⟩
       done)
    | (intro r hr m hm; simp [descAll] at hr; subst hr; cases hm; done)
    | (rename_i ih
       intro r hr m hm
       simp only [descAll] at hr
       obtain ⟨x, y, hx, hy, rfl⟩ := Res.append_eq_ok hr
       simp only [Res.ok.injEq] at hx; subst hx
       rcases List.mem_append.mp hm with hm | hm
       · simp only [List.mem_singleton] at hm; subst hm; exact .inl List.mem_cons_self
       · exact M2_lift (ih y hy m hm)
       done)
    | (rename_i h ih
       intro r hr m hm
       simp only [descAll, h, if_true] at hr
       exact M2_lift (ih r hr m hm)
       done)
    | (rename_i h ih2 ih1
       intro r hr
       simp only [descAll, h, if_false, Bool.false_eq_true] at hr
       exact M2_sub ih2 ih1 hr
       done)
    | (rename_i ih2 ih1
       intro r hr
       simp only [descAll] at hr
       exact M2_sub ih2 ih1 hr
       done)
    | (rename_i h; intro ds hds; simp [descVar, h] at hds; done)
    | (rename_i i a p h
       intro ds hds m hm
       simp only [descVar, h, if_true, if_false, Bool.false_eq_true, VRes.acc.injEq] at hds
       subst hds
       simp only [List.mem_singleton] at hm; subst hm
       exact ⟨0, .ty .undef, [], .ty .undef, a, by simp, by simp [Mismatch.path], .inl ⟨_, rfl, .refl _ _ _⟩, by simp [Local, Mismatch.kk, Mismatch.cls]⟩
       done)
    | (rename_i h; intro ds hds m hm; simp [descVar, h] at hds; subst hds; cases hm; done)
    | (rename_i h; intro ds hds; simp [descVar, h] at hds; done)
    | (rename_i u i a p t xs h ih2 ih1
       intro ds hds m hm
       simp only [descVar, h, if_false, Bool.false_eq_true] at hds
       obtain ⟨x, y, hx, hy, rfl⟩ := VRes.cons_eq_acc hds
       rcases List.mem_append.mp hm with hm | hm
       · obtain ⟨s, x', a', hp, hreach, hloc⟩ := ih2 x hx m hm
         exact ⟨0, .ty t, s, x', a', by simp, by simp [hp], .inl ⟨t, rfl, hreach.oc_irrelevant⟩, hloc⟩
       · obtain ⟨j, y', s, x', a', hj, hp, hreach, hloc⟩ := ih1 y hy m hm
         exact ⟨j + 1, y', s, x', a', by simpa using hj, by rw [hp]; congr 3; omega, hreach, hloc⟩
       done)
    | (rename_i hno h
       intro ds hds
       rw [descVar] at hds
       · simp [h] at hds
       · exact hno
       done)
    | (rename_i u i a p x xs hno h ih1
       intro ds hds m hm
       rw [descVar] at hds
       · simp only [h, if_false, Bool.false_eq_true] at hds
         obtain ⟨x0, y, hx, hy, rfl⟩ := VRes.cons_eq_acc hds
         simp only [Res.ok.injEq] at hx; subst hx
         rcases List.mem_append.mp hm with hm | hm
         · simp only [List.mem_singleton] at hm; subst hm
           exact ⟨0, x, [], x, a, by simp, by simp [Mismatch.path], .inr ⟨fun t ht => hno t ht, rfl, rfl, rfl⟩,
             by simp [Local, Mismatch.kk, Mismatch.cls]⟩
         · obtain ⟨j, y', s, x', a', hj, hp, hreach, hloc⟩ := ih1 y hy m hm
           exact ⟨j + 1, y', s, x', a', by simpa using hj, by rw [hp]; congr 3; omega, hreach, hloc⟩
       · exact hno
       done)
end

end Pcore.Desc
