import Pcore.Proofs.SliceHeapRefine
/-!
C08 helper lemmas, part 4: only mutable hashes are ever retired (`opSem_kill`), hence what a reference to an immutable
pool value denotes is the same at all times (`look_stable`).
-/
namespace Pcore.Heap

theorem hashSem_kill (look : Look) (r : Nat) (isMut : Bool) (es : List Val) (op : Op) (site : NewSite) (k : Kind) (r' : Nat)
    (res : List Val) (h : hashSem look r isMut es op = .new site k r' res true) : isMut = true ∧ r' = r ∧ site = .mutPutAll ∧ k = .mut := by
  cases op <;> simp only [hashSem, inapplicable] at h <;> (try (split at h <;> (try split at h) <;> (try split at h) <;> simp_all)) <;> (try simp_all)

theorem arrSem_kill (look : Look) (r : Nat) (xs : List Val) (op : Op) (site : NewSite) (k : Kind) (r' : Nat)
    (res : List Val) (h : arrSem look r xs op = .new site k r' res true) : False := by
  cases op <;> simp only [arrSem, inapplicable] at h <;> (try (split at h <;> (try split at h) <;> (try split at h) <;> simp_all)) <;> (try simp_all)

theorem ctor_not_new (a b : CtorSite) (cap : Val → Nat) (v : Val) (site : NewSite) (k : Kind) (r : Nat) (res : List Val) (kill : Bool)
    (h : ctor a b cap v = .new site k r res kill) : False := by
  unfold ctor inapplicable at h
  split at h
  · cases h
  · split at h <;> cases h

/-- only a mutable hash is ever retired, and only by `Put`/`PutAll` on itself -/
theorem opSem_kill (look : Look) (op : Op) (site : NewSite) (k : Kind) (r : Nat) (res : List Val)
    (h : opSem look op = .new site k r res true) : (∃ es, look r = some (.mut, es)) ∧ site = .mutPutAll ∧ k = .mut := by
  unfold opSem at h
  split at h
  · exact absurd h (by intro h; exact ctor_not_new _ _ _ _ _ _ _ _ _ h)
  · split at h
    · exact absurd h (by intro h; exact ctor_not_new _ _ _ _ _ _ _ _ _ h)
    · cases h
  · split at h
    · cases h
    · exact absurd h (by intro h; exact ctor_not_new _ _ _ _ _ _ _ _ _ h)
  · cases h
  · split at h
    · split at h <;> cases h
    · cases h
  · split at h
    · cases h
    · rename_i r0 hr
      split at h
      · cases h
      · exact (arrSem_kill _ _ _ _ _ _ _ _ h).elim
      · rename_i es hl
        have := hashSem_kill _ _ _ _ _ _ _ _ _ h
        simp at this
      · rename_i es hl
        have := hashSem_kill _ _ _ _ _ _ _ _ _ h
        obtain ⟨_, rfl, rfl, rfl⟩ := this
        exact ⟨⟨es, hl⟩, rfl, rfl⟩


/-- retired entries are mutable hashes -/
def DeadMut (s : PState) : Prop := ∀ d, s.dead.contains d = true → ∃ es, s.pool[d]? = some (.val .mut es)

theorem look_mut_pool {s : PState} {r : Nat} {es : List Val} (h : s.look r = some (.mut, es)) :
    s.pool[r]? = some (.val .mut es) := by
  unfold PState.look at h
  split at h
  · cases h
  · cases hp : s.pool[r]? with
    | none => rw [hp] at h; cases h
    | some e =>
      rw [hp] at h
      cases e with
      | mark m => cases h
      | val k xs =>
        simp only [Option.some.injEq, Prod.mk.injEq] at h
        obtain ⟨rfl, rfl⟩ := h
        rfl

theorem DeadMut.step {s : PState} (h : DeadMut s) (op : Op) : DeadMut (stepPure s op) := by
  have grow : ∀ (e : PEntry) (d : Nat) (es : List Val), s.pool[d]? = some (PEntry.val .mut es) →
      (s.pool ++ [e])[d]? = some (PEntry.val .mut es) := by
    intro e d es hd
    have hlt : d < s.pool.length := by
      rcases Nat.lt_or_ge d s.pool.length with hlt | hge
      · exact hlt
      · rw [List.getElem?_eq_none hge] at hd; cases hd
    rw [List.getElem?_append_left hlt]; exact hd
  unfold stepPure
  cases hop : opSem s.look op with
  | mark m => intro d hd; obtain ⟨es, he⟩ := h d hd; exact ⟨es, grow _ d es he⟩
  | alloc site k cap res => intro d hd; obtain ⟨es, he⟩ := h d hd; exact ⟨es, grow _ d es he⟩
  | same site k r =>
    simp only
    split <;> (intro d hd; obtain ⟨es, he⟩ := h d hd; exact ⟨es, grow _ d es he⟩)
  | window site k r lo hi =>
    simp only
    split
    · split <;> (intro d hd; obtain ⟨es, he⟩ := h d hd; exact ⟨es, grow _ d es he⟩)
    · intro d hd; obtain ⟨es, he⟩ := h d hd; exact ⟨es, grow _ d es he⟩
  | new site k r res kill =>
    cases kill with
    | false => intro d hd; obtain ⟨es, he⟩ := h d hd; exact ⟨es, grow _ d es he⟩
    | true =>
      intro d hd
      simp only [if_true, List.contains_cons, Bool.or_eq_true, beq_iff_eq] at hd
      rcases hd with hd | hd
      · subst hd
        obtain ⟨⟨es, hl⟩, _, _⟩ := opSem_kill _ _ _ _ _ _ hop
        exact ⟨es, grow _ d es (look_mut_pool hl)⟩
      · obtain ⟨es, he⟩ := h d hd; exact ⟨es, grow _ d es he⟩

theorem DeadMut.run (ops : List Op) : DeadMut (runPure ops) := by
  unfold runPure
  have : ∀ s : PState, DeadMut s → DeadMut (ops.foldl stepPure s) := by
    induction ops with
    | nil => intro s h; exact h
    | cons op ops ih => intro s h; exact ih _ (h.step op)
  exact this {} (by intro d hd; simp at hd)

/-- an immutable pool value, once there, is what a reference to it denotes at every later time -/
theorem look_stable (ops : List Op) (n j j' : Nat) (hn : n < j) (hjj : j ≤ j') (hj : j' ≤ ops.length) (k : Kind)
    (xs : List Val) (hk : k ≠ .mut) (h : (runPure (ops.take j)).look n = some (k, xs)) :
    (runPure (ops.take j')).look n = some (k, xs) := by
  have hp : (runPure (ops.take j)).pool[n]? = some (.val k xs) := by
    unfold PState.look at h
    split at h
    · cases h
    · cases hp : (runPure (ops.take j)).pool[n]? with
      | none => rw [hp] at h; cases h
      | some e =>
        rw [hp] at h
        cases e with
        | mark m => cases h
        | val k2 x2 =>
          simp only [Option.some.injEq, Prod.mk.injEq] at h
          obtain ⟨rfl, rfl⟩ := h
          rfl
  have hp' : (runPure (ops.take j')).pool[n]? = some (.val k xs) := by
    rw [runPure_prefix ops n j' (by omega) hj, ← runPure_prefix ops n j hn (by omega)]
    exact hp
  unfold PState.look
  cases hd : (runPure (ops.take j')).dead.contains n with
  | true =>
    obtain ⟨es, he⟩ := DeadMut.run (ops.take j') n hd
    rw [hp'] at he
    simp only [Option.some.injEq, PEntry.val.injEq] at he
    exact absurd he.1 hk
  | false =>
    simp only [Bool.false_eq_true, if_false]
    rw [hp']

end Pcore.Heap
