import Pcore.Proofs.SerColl
/-! Helper lemmas for C10, part 5: the deserializer with identities and the `converted` memo computes the identity-free
    conversion `cnv` — on data whose identities are consistent (`Cons`), which is what the collector produces. -/
namespace Pcore.Ser

theorem abs_isStr (v : V) : v.abs.isStr = v.isStr := by cases v <;> rfl
theorem abs_isKey (n : String) (v : V) : v.abs.isKey n = v.isKey n := by cases v <;> rfl

theorem allStrKeys_abs : ∀ (es : List (V × V)), dAllStrKeys (absPairs es) = allStrKeys es
  | [] => rfl
  | (k, v) :: es => by simp [absPairs, dAllStrKeys, allStrKeys, abs_isStr, allStrKeys_abs es]

theorem hasKey_abs (n : String) : ∀ (es : List (V × V)), dHasKey n (absPairs es) = hasKey n es
  | [] => rfl
  | (k, v) :: es => by simp [absPairs, dHasKey, hasKey, abs_isKey, hasKey_abs n es]

theorem lookupLast_abs (n : String) : ∀ (es : List (V × V)),
    dLookupLast n (absPairs es) = (lookupLast n es).map V.abs
  | [] => rfl
  | (k, v) :: es => by
      simp only [absPairs, dLookupLast, lookupLast, abs_isKey, hasKey_abs, lookupLast_abs n es]
      split <;> simp

theorem sel_abs (n : String) (es : List (V × V)) :
    (if dAllStrKeys (absPairs es) then dLookupLast n (absPairs es) else none) =
      (if allStrKeys es then lookupLast n es else none).map V.abs := by
  rw [allStrKeys_abs, lookupLast_abs]; split <;> simp

/-- the memo holds, for identities the table knows, a conversion of that identity's content -/
def MInv (G : Nat → Option D) (m : List (Nat × V)) : Prop :=
  ∀ (i : Nat) (r : V), m.lookup i = some r → ∃ a, G i = some a ∧ cnv a = .ok r.abs

theorem MInv.hit {G : Nat → Option D} {m : List (Nat × V)} (h : MInv G m) {id : Nat} {cv : V} {da a : D}
    (hl : m.lookup id = some cv) (hg : G id = some da) (hc : cnv da = .ok a) : cv.abs = a := by
  obtain ⟨a', h1, h2⟩ := h id cv hl
  rw [hg] at h1; cases h1
  rw [hc] at h2; cases h2; rfl

theorem MInv.add {G : Nat → Option D} {m : List (Nat × V)} (h : MInv G m) {id : Nat} {r : V} {da : D}
    (hg : G id = some da) (hc : cnv da = .ok r.abs) : MInv G ((id, r) :: m) := by
  intro i r' hl
  simp only [List.lookup_cons] at hl
  split at hl
  · rename_i heq
    have : i = id := by simpa using heq
    subst this
    cases hl
    exact ⟨da, hg, hc⟩
  · exact h i r' hl

theorem decodeLeaf_abs (tn s : String) (nid : Nat) (a : D) (h : decodeLeafD tn s = .ok a) :
    ∃ r, decodeLeaf tn s nid = .ok r ∧ r.abs = a := by
  unfold decodeLeafD at h
  unfold decodeLeaf
  split at h
  · rename_i hb
    simp only [hb, if_true]
    split at h
    · rename_i bs hu
      cases h
      exact ⟨.bin 0 bs, by simp [hu], rfl⟩
    · cases h
  · rename_i hb
    simp only [hb, if_false]
    split at h
    · rename_i ht
      simp only [ht, if_true]
      split at h
      · rename_i ns hp
        cases h
        exact ⟨.leaf nid .ts (printSpan ns) "", by simp [hp], rfl⟩
      · cases h
    · rename_i ht
      simp only [ht, if_false]
      split at h
      · rename_i k hk
        cases h
        exact ⟨.leaf nid k s "", by simp [hk], rfl⟩
      · cases h

theorem cnvPVHash_cons (k v : D) (es : List (D × D)) :
    cnvPVHash ((k, v) :: es) =
      if k.isKey "__pvalue" && !dHasKey "__pvalue" es then
        (match v with
         | .arr xs => cnvFlat xs
         | _ => .error .badValue)
      else cnvPVHash es := by
  cases v <;> simp [cnvPVHash]

theorem cnvPVSens_cons (k v : D) (es : List (D × D)) :
    cnvPVSens ((k, v) :: es) = if k.isKey "__pvalue" && !dHasKey "__pvalue" es then cnv v else cnvPVSens es := by
  simp [cnvPVSens]

theorem convPVHash_cons (k v : V) (es : List (V × V)) (ds : DS) :
    convPVHash ((k, v) :: es) ds =
      if k.isKey "__pvalue" && !hasKey "__pvalue" es then
        (match v with
         | .arr _ xs => convFlat xs ds
         | _ => .error .badValue)
      else convPVHash es ds := by
  cases v <;> simp [convPVHash]

theorem convPVSens_cons (k v : V) (es : List (V × V)) (ds : DS) :
    convPVSens ((k, v) :: es) ds =
      if k.isKey "__pvalue" && !hasKey "__pvalue" es then convert v ds else convPVSens es ds := by
  simp [convPVSens]

def ConvA (G : Nat → Option D) (res : Except DErr (List (String × V) × DS)) (as : List (String × D)) : Prop :=
  ∃ rs ds', res = .ok (rs, ds') ∧ absAttrs rs = as ∧ ∀ (i : Nat) (r : V), ds'.memo.lookup i = some r →
    ∃ a, G i = some a ∧ cnv a = .ok r.abs

/-- shape of the conclusion -/
def Conv (G : Nat → Option D) (res : Except DErr (V × DS)) (a : D) : Prop :=
  ∃ r ds', res = .ok (r, ds') ∧ r.abs = a ∧ MInv G ds'.memo

def ConvL (G : Nat → Option D) (res : Except DErr (List V × DS)) (as : List D) : Prop :=
  ∃ rs ds', res = .ok (rs, ds') ∧ absList rs = as ∧ MInv G ds'.memo

def ConvP (G : Nat → Option D) (res : Except DErr (List (V × V) × DS)) (as : List (D × D)) : Prop :=
  ∃ rs ds', res = .ok (rs, ds') ∧ absPairs rs = as ∧ MInv G ds'.memo

mutual
theorem convert_cnv (G : Nat → Option D) : ∀ (d : V) (ds : DS) (a : D), Cons G d → MInv G ds.memo →
    cnv d.abs = .ok a → Conv G (convert d ds) a
  | .undef, ds, a, _, hM, h => by
      simp only [V.abs, cnv] at h; cases h; exact ⟨.undef, ds, by simp [convert], rfl, hM⟩
  | .dflt, ds, a, _, hM, h => by
      simp only [V.abs, cnv] at h; cases h; exact ⟨.dflt, ds, by simp [convert], rfl, hM⟩
  | .bool b, ds, a, _, hM, h => by
      simp only [V.abs, cnv] at h; cases h; exact ⟨.bool b, ds, by simp [convert], rfl, hM⟩
  | .int i, ds, a, _, hM, h => by
      simp only [V.abs, cnv] at h; cases h; exact ⟨.int i, ds, by simp [convert], rfl, hM⟩
  | .flt f, ds, a, _, hM, h => by
      simp only [V.abs, cnv] at h; cases h; exact ⟨.flt f, ds, by simp [convert], rfl, hM⟩
  | .str s, ds, a, _, hM, h => by
      simp only [V.abs, cnv] at h; cases h; exact ⟨.str s, ds, by simp [convert], rfl, hM⟩
  | .bin i bs, ds, a, _, hM, h => by
      simp only [V.abs, cnv] at h; cases h; exact ⟨.bin i bs, ds, by simp [convert], rfl, hM⟩
  | .leaf i k e d, ds, a, _, hM, h => by
      simp only [V.abs, cnv] at h; cases h; exact ⟨.leaf i k e d, ds, by simp [convert], rfl, hM⟩
  | .sens i v, ds, a, _, hM, h => by
      simp only [V.abs, cnv] at h; cases h; exact ⟨.sens i v, ds, by simp [convert], by simp [V.abs], hM⟩
  | .obj i tn d as, ds, a, _, hM, h => by
      simp only [V.abs, cnv] at h; cases h; exact ⟨.obj i tn d as, ds, by simp [convert], by simp [V.abs], hM⟩
  | .arr id vs, ds, a, hC, hM, h => by
      have hg : G id = some (V.arr id vs).abs := by simp only [Cons] at hC; exact hC.1
      have hCl : ConsList G vs := by simp only [Cons] at hC; exact hC.2
      simp only [convert]
      split
      · rename_i cv hl
        exact ⟨cv, ds, rfl, hM.hit hl hg h, hM⟩
      · simp only [V.abs, cnv] at h
        split at h
        · cases h
        · rename_i rs hrs
          cases h
          obtain ⟨vs', ds', h1, h2, h3⟩ := convList_cnv G vs { ds with next := ds.next + 1 } rs hCl hM hrs
          refine ⟨.arr ds.next vs', { ds' with memo := (id, .arr ds.next vs') :: ds'.memo }, by simp [h1], by simp [V.abs, h2], ?_⟩
          exact h3.add hg (by simp [V.abs, cnv, hrs, h2])
  | .hash id es, ds, a, hC, hM, h => by
      have hg : G id = some (V.hash id es).abs := by simp only [Cons] at hC; exact hC.1
      have hCp : ConsPairs G es := by simp only [Cons] at hC; exact hC.2
      have h0 := h
      simp only [convert]
      split
      · rename_i cv hl
        exact ⟨cv, ds, rfl, hM.hit hl hg h, hM⟩
      · simp only [V.abs, cnv, sel_abs] at h
        cases hsel : (if allStrKeys es then lookupLast "__ptype" es else none) with
        | none =>
          rw [hsel] at h
          simp only [Option.map_none] at h
          split at h
          · cases h
          · rename_i rs hrs
            cases h
            obtain ⟨es', ds', h1, h2, h3⟩ := convPairs_cnv G es { ds with next := ds.next + 1 } rs hCp hM hrs
            refine ⟨.hash ds.next es', { ds' with memo := (id, .hash ds.next es') :: ds'.memo }, by simp [h1], by simp [V.abs, h2], ?_⟩
            exact h3.add hg (by rw [h0]; simp [V.abs, h2])
        | some pt =>
          rw [hsel] at h
          simp only [Option.map_some] at h
          cases pt with
          | str tn =>
            simp only [V.abs] at h
            by_cases ht1 : tn = "Hash"
            · simp only [ht1, if_true] at h ⊢
              split at h
              · cases h
              · rename_i rs hrs
                cases h
                obtain ⟨es', ds', h1, h2, h3⟩ := convPVHash_cnv G es { ds with next := ds.next + 1 } rs hCp hM hrs
                refine ⟨.hash ds.next es', { ds' with memo := (id, .hash ds.next es') :: ds'.memo }, by simp [h1], by simp [V.abs, h2], ?_⟩
                exact h3.add hg (by rw [h0]; simp [V.abs, h2])
            · simp only [ht1, if_false] at h ⊢
              by_cases ht2 : tn = "Sensitive"
              · simp only [ht2, if_true] at h ⊢
                split at h
                · cases h
                · rename_i rv hrv
                  cases h
                  obtain ⟨v', ds', h1, h2, h3⟩ := convPVSens_cnv G es { ds with next := ds.next + 1 } rv hCp hM hrv
                  refine ⟨.sens ds.next v', { ds' with memo := (id, .sens ds.next v') :: ds'.memo }, by simp [h1], by simp [V.abs, h2], ?_⟩
                  exact h3.add hg (by rw [h0]; simp [V.abs, h2])
              · simp only [ht2, if_false] at h ⊢
                by_cases ht3 : tn = "Default"
                · simp only [ht3, if_true] at h ⊢
                  cases h
                  exact ⟨.dflt, ds, rfl, rfl, hM⟩
                · simp only [ht3, if_false] at h ⊢
                  rw [lookupLast_abs] at h
                  cases hpv : lookupLast "__pvalue" es with
                  | none =>
                    rw [hpv] at h
                    simp only [Option.map_none] at h
                    by_cases ho : isObjType tn = true
                    · simp only [ho, if_true] at h ⊢
                      split at h
                      · cases h
                      · rename_i ras hras
                        cases h
                        obtain ⟨as', ds', h1, h2, h3⟩ :=
                          convAttrs_cnv G es { ds with next := ds.next + 1 } ras hCp hM hras
                        refine ⟨.obj ds.next tn "" as', { ds' with memo := (id, .obj ds.next tn "" as') :: ds'.memo },
                          by simp [h1], by simp [V.abs, h2], ?_⟩
                        exact MInv.add h3 hg (by rw [h0]; simp [V.abs, h2])
                    · simp [ho] at h
                  | some pv =>
                    rw [hpv] at h
                    simp only [Option.map_some] at h
                    cases pv with
                    | str s =>
                      simp only [V.abs] at h
                      obtain ⟨r, hr1, hr2⟩ := decodeLeaf_abs tn s ds.next a h
                      refine ⟨r, { memo := (id, r) :: ds.memo, next := ds.next + 1 }, by simp [hr1], hr2, ?_⟩
                      exact hM.add hg (by rw [h0, hr2])
                    | undef => simp [V.abs] at h
                    | dflt => simp [V.abs] at h
                    | bool _ => simp [V.abs] at h
                    | int _ => simp [V.abs] at h
                    | flt _ => simp [V.abs] at h
                    | bin _ _ => simp [V.abs] at h
                    | leaf _ _ _ _ => simp [V.abs] at h
                    | sens _ _ => simp [V.abs] at h
                    | arr _ _ => simp [V.abs] at h
                    | hash _ _ => simp [V.abs] at h
                    | obj _ _ _ _ => simp [V.abs] at h
          | undef => simp [V.abs] at h
          | dflt => simp [V.abs] at h
          | bool _ => simp [V.abs] at h
          | int _ => simp [V.abs] at h
          | flt _ => simp [V.abs] at h
          | bin _ _ => simp [V.abs] at h
          | leaf _ _ _ _ => simp [V.abs] at h
          | sens _ _ => simp [V.abs] at h
          | arr _ _ => simp [V.abs] at h
          | hash _ _ => simp [V.abs] at h
          | obj _ _ _ _ => simp [V.abs] at h

theorem convList_cnv (G : Nat → Option D) : ∀ (vs : List V) (ds : DS) (as : List D), ConsList G vs → MInv G ds.memo →
    cnvList (absList vs) = .ok as → ConvL G (convList vs ds) as
  | [], ds, as, _, hM, h => by
      simp only [absList, cnvList] at h; cases h
      exact ⟨[], ds, by simp [convList], rfl, hM⟩
  | v :: vs, ds, as, hC, hM, h => by
      simp only [ConsList] at hC
      simp only [absList, cnvList] at h
      split at h
      · cases h
      · rename_i r hr
        split at h
        · cases h
        · rename_i rs hrs
          cases h
          obtain ⟨v', ds1, h1, h2, h3⟩ := convert_cnv G v ds r hC.1 hM hr
          obtain ⟨vs', ds2, h4, h5, h6⟩ := convList_cnv G vs ds1 rs hC.2 h3 hrs
          exact ⟨v' :: vs', ds2, by simp [convList, h1, h4], by simp [absList, h2, h5], h6⟩

theorem convPairs_cnv (G : Nat → Option D) : ∀ (es : List (V × V)) (ds : DS) (as : List (D × D)), ConsPairs G es →
    MInv G ds.memo → cnvPairs (absPairs es) = .ok as → ConvP G (convPairs es ds) as
  | [], ds, as, _, hM, h => by
      simp only [absPairs, cnvPairs] at h; cases h
      exact ⟨[], ds, by simp [convPairs], rfl, hM⟩
  | (k, v) :: es, ds, as, hC, hM, h => by
      simp only [ConsPairs] at hC
      simp only [absPairs, cnvPairs] at h
      split at h
      · cases h
      · rename_i rk hrk
        split at h
        · cases h
        · rename_i rv hrv
          split at h
          · cases h
          · rename_i rs hrs
            cases h
            obtain ⟨k', ds1, h1, h2, h3⟩ := convert_cnv G k ds rk hC.1 hM hrk
            obtain ⟨v', ds2, h4, h5, h6⟩ := convert_cnv G v ds1 rv hC.2.1 h3 hrv
            obtain ⟨es', ds3, h7, h8, h9⟩ := convPairs_cnv G es ds2 rs hC.2.2 h6 hrs
            exact ⟨(k', v') :: es', ds3, by simp [convPairs, h1, h4, h7], by simp [absPairs, h2, h5, h8], h9⟩

theorem convPVHash_cnv (G : Nat → Option D) : ∀ (es : List (V × V)) (ds : DS) (as : List (D × D)), ConsPairs G es →
    MInv G ds.memo → cnvPVHash (absPairs es) = .ok as → ConvP G (convPVHash es ds) as
  | [], ds, as, _, hM, h => by
      simp only [absPairs, cnvPVHash] at h; cases h
      exact ⟨[], ds, by simp [convPVHash], rfl, hM⟩
  | (k, v) :: es, ds, as, hC, hM, h => by
      simp only [ConsPairs] at hC
      replace h : cnvPVHash ((k.abs, v.abs) :: absPairs es) = .ok as := h
      rw [cnvPVHash_cons, abs_isKey, hasKey_abs] at h
      rw [convPVHash_cons]
      split
      · rename_i hcond
        simp only [hcond, if_true] at h
        cases v with
        | arr id xs =>
          simp only [V.abs] at h
          have hCx : ConsList G xs := by have := hC.2.1; simp only [Cons] at this; exact this.2
          exact convFlat_cnv G xs ds as hCx hM h
        | undef => simp [V.abs] at h
        | dflt => simp [V.abs] at h
        | bool _ => simp [V.abs] at h
        | int _ => simp [V.abs] at h
        | flt _ => simp [V.abs] at h
        | str _ => simp [V.abs] at h
        | bin _ _ => simp [V.abs] at h
        | leaf _ _ _ _ => simp [V.abs] at h
        | sens _ _ => simp [V.abs] at h
        | hash _ _ => simp [V.abs] at h
        | obj _ _ _ _ => simp [V.abs] at h
      · rename_i hcond
        simp only [hcond, Bool.false_eq_true, if_false] at h
        exact convPVHash_cnv G es ds as hC.2.2 hM h

theorem convPVSens_cnv (G : Nat → Option D) : ∀ (es : List (V × V)) (ds : DS) (a : D), ConsPairs G es →
    MInv G ds.memo → cnvPVSens (absPairs es) = .ok a → Conv G (convPVSens es ds) a
  | [], ds, a, _, hM, h => by
      simp only [absPairs, cnvPVSens] at h; cases h
      exact ⟨.undef, ds, by simp [convPVSens], rfl, hM⟩
  | (k, v) :: es, ds, a, hC, hM, h => by
      simp only [ConsPairs] at hC
      replace h : cnvPVSens ((k.abs, v.abs) :: absPairs es) = .ok a := h
      rw [cnvPVSens_cons, abs_isKey, hasKey_abs] at h
      rw [convPVSens_cons]
      split
      · rename_i hcond
        simp only [hcond, if_true] at h
        exact convert_cnv G v ds a hC.2.1 hM h
      · rename_i hcond
        simp only [hcond, Bool.false_eq_true, if_false] at h
        exact convPVSens_cnv G es ds a hC.2.2 hM h

theorem convAttrs_cnv (G : Nat → Option D) : ∀ (es : List (V × V)) (ds : DS) (as : List (String × D)), ConsPairs G es →
    MInv G ds.memo → cnvAttrs (absPairs es) = .ok as → ConvA G (convAttrs es ds) as
  | [], ds, as, _, hM, h => by
      simp only [absPairs, cnvAttrs] at h; cases h
      exact ⟨[], ds, by simp [convAttrs], rfl, hM⟩
  | (k, v) :: es, ds, as, hC, hM, h => by
      simp only [ConsPairs] at hC
      cases k with
      | str s =>
        replace h : cnvAttrs ((.str s, v.abs) :: absPairs es) = .ok as := h
        simp only [cnvAttrs] at h
        simp only [convAttrs]
        split
        · rename_i hs
          simp only [hs, if_true] at h
          exact convAttrs_cnv G es ds as hC.2.2 hM h
        · rename_i hs
          simp only [hs, if_false] at h
          split at h
          · cases h
          · rename_i rv hrv
            split at h
            · cases h
            · rename_i rs hrs
              cases h
              obtain ⟨v', ds1, h1, h2, h3⟩ := convert_cnv G v ds rv hC.2.1 hM hrv
              obtain ⟨as', ds2, h4, h5, h6⟩ := convAttrs_cnv G es ds1 rs hC.2.2 h3 hrs
              exact ⟨(s, v') :: as', ds2, by simp [h1, h4], by simp [absAttrs, h2, h5], h6⟩
      | undef => simp [absPairs, V.abs, cnvAttrs] at h
      | dflt => simp [absPairs, V.abs, cnvAttrs] at h
      | bool _ => simp [absPairs, V.abs, cnvAttrs] at h
      | int _ => simp [absPairs, V.abs, cnvAttrs] at h
      | flt _ => simp [absPairs, V.abs, cnvAttrs] at h
      | bin _ _ => simp [absPairs, V.abs, cnvAttrs] at h
      | leaf _ _ _ _ => simp [absPairs, V.abs, cnvAttrs] at h
      | sens _ _ => simp [absPairs, V.abs, cnvAttrs] at h
      | arr _ _ => simp [absPairs, V.abs, cnvAttrs] at h
      | hash _ _ => simp [absPairs, V.abs, cnvAttrs] at h
      | obj _ _ _ _ => simp [absPairs, V.abs, cnvAttrs] at h

theorem convFlat_cnv (G : Nat → Option D) : ∀ (xs : List V) (ds : DS) (as : List (D × D)), ConsList G xs →
    MInv G ds.memo → cnvFlat (absList xs) = .ok as → ConvP G (convFlat xs ds) as
  | [], ds, as, _, hM, h => by
      simp only [absList, cnvFlat] at h; cases h
      exact ⟨[], ds, by simp [convFlat], rfl, hM⟩
  | [_], ds, as, _, _, h => by simp [absList, cnvFlat] at h
  | k :: v :: rest, ds, as, hC, hM, h => by
      simp only [ConsList] at hC
      simp only [absList, cnvFlat] at h
      split at h
      · cases h
      · rename_i rk hrk
        split at h
        · cases h
        · rename_i rv hrv
          split at h
          · cases h
          · rename_i rs hrs
            cases h
            obtain ⟨k', ds1, h1, h2, h3⟩ := convert_cnv G k ds rk hC.1 hM hrk
            obtain ⟨v', ds2, h4, h5, h6⟩ := convert_cnv G v ds1 rv hC.2.1 h3 hrv
            obtain ⟨es', ds3, h7, h8, h9⟩ := convFlat_cnv G rest ds2 rs hC.2.2 h6 hrs
            exact ⟨(k', v') :: es', ds3, by simp [convFlat, h1, h4, h7], by simp [absPairs, h2, h5, h8], h9⟩
end

end Pcore.Ser
