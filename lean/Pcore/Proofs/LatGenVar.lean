import Pcore.Proofs.LatTransDMain
import Pcore.Proofs.LatGen
import Pcore.Proofs.LatReflAll
set_option linter.unusedSimpArgs false
set_option linter.unusedVariables false
/-! C04, corollary of C03 stage 4: the generalisation of a VARIANT accepts it.  `Generic()` of a Variant generalises the members and
    removes those that became `Equals` to an earlier one (`UniqueTypes`); the kept member `s` accepts the removed one's generalisation
    `g` (equal types accept each other, `eq_asg_all`), `g` accepts the original member `t` (induction), hence `s ⊒ t` by TRANSITIVITY — on the
    stage-4 fragment `Ty.TA`, which generalisation preserves together with well-formedness (`gg_gen`). -/
namespace Pcore.Lat
variable (cfg : Cfg) (sfh : Bool)

/-- what the proof carries about a type and its generalisations: well-formed and in the fragment of transitivity -/
def GenGood (t : Ty) : Prop := Ty.WF cfg t ∧ t.TA sfh

theorem gg_array (e : Ty) (r : Rng) : GenGood cfg sfh (.array e r) ↔ GenGood cfg sfh e := by
  unfold GenGood; conv => lhs; unfold Ty.WF Ty.TA
theorem gg_hash (k v : Ty) (r : Rng) : GenGood cfg sfh (.hash k v r) ↔ GenGood cfg sfh k ∧ GenGood cfg sfh v := by
  unfold GenGood; conv => lhs; unfold Ty.WF Ty.TA
  constructor
  · rintro ⟨⟨a, b⟩, ⟨e, f⟩⟩; exact ⟨⟨a, e⟩, ⟨b, f⟩⟩
  · rintro ⟨⟨a, e⟩, ⟨b, f⟩⟩; exact ⟨⟨a, b⟩, ⟨e, f⟩⟩
theorem gg_optional (t : Ty) : GenGood cfg sfh (.optional t) ↔ GenGood cfg sfh t := by
  unfold GenGood; conv => lhs; unfold Ty.WF Ty.TA
theorem gg_notUndef (t : Ty) : GenGood cfg sfh (.notUndef t) ↔ GenGood cfg sfh t := by
  unfold GenGood; conv => lhs; unfold Ty.WF Ty.TA
theorem gg_sensitive (t : Ty) : GenGood cfg sfh (.sensitive t) ↔ GenGood cfg sfh t := by
  unfold GenGood; conv => lhs; unfold Ty.WF Ty.TA
theorem gg_typ (t : Ty) : GenGood cfg sfh (.typ t) ↔ GenGood cfg sfh t := by
  unfold GenGood; conv => lhs; unfold Ty.WF Ty.TA
theorem gg_iterable (t : Ty) : GenGood cfg sfh (.iterable t) ↔ GenGood cfg sfh t := by
  unfold GenGood; conv => lhs; unfold Ty.WF Ty.TA
theorem gg_variant (ts : List Ty) : GenGood cfg sfh (.variant ts) ↔ ∀ t ∈ ts, GenGood cfg sfh t := by
  unfold GenGood; conv => lhs; unfold Ty.WF Ty.TA
  constructor
  · rintro ⟨a, c⟩ t ht; exact ⟨a t ht, c t ht⟩
  · intro h; exact ⟨fun t ht => (h t ht).1, fun t ht => (h t ht).2⟩
theorem gg_tuple (ts : List Ty) (g : Option Rng) :
    GenGood cfg sfh (.tuple ts g) ↔ ((ts.length : Int) ≤ I64.max) ∧ ∀ t ∈ ts, GenGood cfg sfh t := by
  unfold GenGood; conv => lhs; unfold Ty.WF Ty.TA
  constructor
  · rintro ⟨a, l, c⟩; exact ⟨l, fun t ht => ⟨a t ht, c t ht⟩⟩
  · rintro ⟨l, h⟩; exact ⟨fun t ht => (h t ht).1, l, fun t ht => (h t ht).2⟩
theorem gg_struct (ms : List Member) :
    GenGood cfg sfh (.struct ms) ↔ sfh = false ∧ (ms.map (·.1)).Nodup ∧ ∀ m ∈ ms, GenGood cfg sfh m.2.2 := by
  unfold GenGood; conv => lhs; unfold Ty.WF Ty.TA
  constructor
  · rintro ⟨⟨n, a⟩, s, c⟩; exact ⟨s, n, fun m hm => ⟨a m hm, c m hm⟩⟩
  · rintro ⟨s, n, h⟩; exact ⟨⟨n, fun m hm => (h m hm).1⟩, s, fun m hm => (h m hm).2⟩

theorem gg_iterator (t : Ty) : GenGood cfg sfh (.iterator t) ↔ GenGood cfg sfh t := by
  unfold GenGood; conv => lhs; unfold Ty.WF Ty.TA

theorem generalizeL_mem (ts : List Ty) (g : Ty) (h : g ∈ generalizeL ts) : ∃ t ∈ ts, g = generalize t := by
  induction ts with
  | nil => simp [generalizeL] at h
  | cons t ts ih =>
    simp only [generalizeL, List.mem_cons] at h
    rcases h with rfl | h
    · exact ⟨t, by simp, rfl⟩
    · obtain ⟨t', ht', e⟩ := ih h; exact ⟨t', by simp [ht'], e⟩

theorem mem_generalizeL (ts : List Ty) (t : Ty) (h : t ∈ ts) : generalize t ∈ generalizeL ts := by
  induction ts with
  | nil => cases h
  | cons a as ih =>
    simp only [generalizeL, List.mem_cons]
    cases h with
    | head => left; rfl
    | tail _ h' => right; exact ih h'

theorem uniqueTyAux_sub (seen gs : List Ty) : ∀ s ∈ uniqueTyAux seen gs, s ∈ gs := by
  induction gs generalizing seen with
  | nil => intro s h; simp [uniqueTyAux] at h
  | cons t ts ih =>
    intro s h
    unfold uniqueTyAux at h
    split at h
    · exact List.mem_cons_of_mem _ (ih seen s h)
    · simp only [List.mem_cons] at h
      rcases h with rfl | h
      · simp
      · exact List.mem_cons_of_mem _ (ih _ s h)

theorem uniqueTy_sub (gs : List Ty) : ∀ s ∈ uniqueTy gs, s ∈ gs := by
  intro s h
  unfold uniqueTy at h
  split at h
  · exact h
  · exact uniqueTyAux_sub [] gs s h

/-- every type of the list is kept by `UniqueTypes` or `Equals` to one that is kept -/
theorem uniqueTyAux_cover (seen gs : List Ty) :
    ∀ g ∈ gs, g ∈ uniqueTyAux seen gs ∨ ∃ s, (s ∈ seen ∨ s ∈ uniqueTyAux seen gs) ∧ tyEq s g = true := by
  induction gs generalizing seen with
  | nil => intro g h; cases h
  | cons t ts ih =>
    intro g hg
    unfold uniqueTyAux
    by_cases hs : seen.any (fun s => tyEq s t) = true
    · simp only [hs, if_true]
      simp only [List.mem_cons] at hg
      rcases hg with rfl | hg
      · right
        simp only [List.any_eq_true] at hs
        obtain ⟨s, h1, h2⟩ := hs
        exact ⟨s, Or.inl h1, h2⟩
      · exact ih seen g hg
    · simp only [hs, if_false, Bool.false_eq_true]
      simp only [List.mem_cons] at hg
      rcases hg with rfl | hg
      · left; simp
      · rcases ih (t :: seen) g hg with h | ⟨s, h1, h2⟩
        · left; exact List.mem_cons_of_mem _ h
        · right
          refine ⟨s, ?_, h2⟩
          rcases h1 with h1 | h1
          · simp only [List.mem_cons] at h1
            rcases h1 with rfl | h1
            · right; simp
            · left; exact h1
          · right; exact List.mem_cons_of_mem _ h1

theorem uniqueTy_cover (gs : List Ty) : ∀ g ∈ gs, g ∈ uniqueTy gs ∨ ∃ s ∈ uniqueTy gs, tyEq s g = true := by
  intro g hg
  unfold uniqueTy
  split
  · left; exact hg
  · rcases uniqueTyAux_cover [] gs g hg with h | ⟨s, h1, h2⟩
    · left; exact h
    · right
      rcases h1 with h1 | h1
      · cases h1
      · exact ⟨s, h1, h2⟩

/-- `NewVariantType` over a list accepts what a member of the list accepts -/
theorem mkVariant_accepts (us : List Ty) (s : Ty) (hs : s ∈ us) (c : Ty) (h : asg cfg sfh s c = true) :
    asg cfg sfh (mkVariant us) c = true := by
  cases us with
  | nil => cases hs
  | cons u rest =>
    cases rest with
    | nil => simp only [List.mem_singleton] at hs; subst hs; simpa [mkVariant] using h
    | cons u' rest' => simp only [mkVariant]; exact wv_all cfg sfh hs h

theorem gg_mkVariant (us : List Ty) (h : ∀ u ∈ us, GenGood cfg sfh u) : GenGood cfg sfh (mkVariant us) := by
  cases us with
  | nil => simp only [mkVariant]; rw [gg_variant]; intro t ht; cases ht
  | cons u rest =>
    cases rest with
    | nil => simp only [mkVariant]; exact h u (by simp)
    | cons u' rest' => simp only [mkVariant]; rw [gg_variant]; exact h

theorem gg_leaf (t : Ty) (h : match t with
    | .any | .undef | .dflt | .scalar | .scalarData | .numeric | .data | .richData | .str | .bin | .int _ | .float _ _ | .bool _
    | .tspan _ | .tstamp _ | .strSz _ | .strVal _ | .pattern _ | .regexp _ | .runtime _ _ _ | .coll _ | .object _ => True
    | _ => False) : GenGood cfg sfh t := by
  cases t <;> simp only [] at h <;> (first | contradiction | simp [GenGood, Ty.WF, Ty.TA])

/-- generalisation preserves well-formedness, the absence of aliases and the fragment of transitivity -/
theorem gg_gen : ∀ (n : Nat) (t : Ty), t.w ≤ n → GenGood cfg sfh t → GenGood cfg sfh (generalize t) ∧ GenGood cfg sfh (genericType t) := by
  intro n
  induction n with
  | zero => intro t h; have := Ty.w_pos t; omega
  | succ n ih =>
    intro t hw gt
    have hfl : GenGood cfg sfh floatAll := by unfold floatAll; exact gg_leaf cfg sfh _ trivial
    have henum : GenGood cfg sfh (.enum [] false) := by simp [GenGood, Ty.WF, Ty.TA]
    cases t with
    | unit => simp only [generalize, genericType]; exact ⟨gt, gt⟩
    | callable p r k => have := gt.2; unfold Ty.TA at this; exact absurd this id
    | data => simp only [generalize, genericType]; exact ⟨gt, gt⟩
    | richData => simp only [generalize, genericType]; exact ⟨gt, gt⟩
    | any => simp only [generalize, genericType]; exact ⟨gt, gt⟩
    | undef => simp only [generalize, genericType]; exact ⟨gt, gt⟩
    | dflt => simp only [generalize, genericType]; exact ⟨gt, gt⟩
    | scalar => simp only [generalize, genericType]; exact ⟨gt, gt⟩
    | scalarData => simp only [generalize, genericType]; exact ⟨gt, gt⟩
    | numeric => simp only [generalize, genericType]; exact ⟨gt, gt⟩
    | bin => simp only [generalize, genericType]; exact ⟨gt, gt⟩
    | str => simp only [generalize, genericType]; exact ⟨gt, gt⟩
    | strSz r => simp only [generalize, genericType]; exact ⟨gg_leaf cfg sfh _ trivial, gt⟩
    | strVal s => simp only [generalize, genericType]; exact ⟨gg_leaf cfg sfh _ trivial, gt⟩
    | pattern rs => simp only [generalize, genericType]; exact ⟨gg_leaf cfg sfh _ trivial, gt⟩
    | regexp s => simp only [generalize, genericType]; exact ⟨gg_leaf cfg sfh _ trivial, gt⟩
    | runtime rt nm pt => simp only [generalize, genericType]; exact ⟨gg_leaf cfg sfh _ trivial, gg_leaf cfg sfh _ trivial⟩
    | tspan r => simp only [generalize, genericType]; exact ⟨gg_leaf cfg sfh _ trivial, gt⟩
    | tstamp r => simp only [generalize, genericType]; exact ⟨gg_leaf cfg sfh _ trivial, gt⟩
    | object p => simp only [generalize, genericType]; exact ⟨gg_leaf cfg sfh _ trivial, gt⟩
    | bool b => simp only [generalize, genericType]; exact ⟨gg_leaf cfg sfh _ trivial, gg_leaf cfg sfh _ trivial⟩
    | coll r => simp only [generalize, genericType]; exact ⟨gg_leaf cfg sfh _ trivial, gg_leaf cfg sfh _ trivial⟩
    | enum vs ci => simp only [generalize, genericType]; exact ⟨henum, henum⟩
    | float lo hi => simp only [generalize, genericType]; exact ⟨hfl, hfl⟩
    | int r => simp only [generalize, genericType]; exact ⟨gg_leaf cfg sfh _ trivial, gg_leaf cfg sfh _ trivial⟩
    | array e r =>
      rw [gg_array] at gt; simp only [Ty.w] at hw
      have key : GenGood cfg sfh (if e.isAny then .array .any Rng.pos else .array (generalize e) Rng.pos) := by
        split
        · rw [gg_array]; exact gg_leaf cfg sfh _ trivial
        · rw [gg_array]; exact (ih e (by omega) gt).1
      simp only [generalize, genericType]; exact ⟨key, key⟩
    | hash k v r =>
      rw [gg_hash] at gt; simp only [Ty.w] at hw
      have key : GenGood cfg sfh (.hash (genericType k) (genericType v) Rng.pos) := by
        rw [gg_hash]; exact ⟨(ih k (by omega) gt.1).2, (ih v (by omega) gt.2).2⟩
      simp only [generalize, genericType]; exact ⟨key, key⟩
    | iterable x =>
      rw [gg_iterable] at gt; simp only [Ty.w] at hw
      have key : GenGood cfg sfh (.iterable (genericType x)) := by rw [gg_iterable]; exact (ih x (by omega) gt).2
      simp only [generalize, genericType]; exact ⟨key, key⟩
    | sensitive x =>
      rw [gg_sensitive] at gt; simp only [Ty.w] at hw
      have key : GenGood cfg sfh (.sensitive (genericType x)) := by rw [gg_sensitive]; exact (ih x (by omega) gt).2
      simp only [generalize, genericType]; exact ⟨key, key⟩
    | iterator x =>
      rw [gg_iterator] at gt; simp only [Ty.w] at hw
      have key : GenGood cfg sfh (.iterator (genericType x)) := by rw [gg_iterator]; exact (ih x (by omega) gt).2
      simp only [generalize, genericType]; exact ⟨key, key⟩
    | typ x =>
      rw [gg_typ] at gt; simp only [Ty.w] at hw
      have key : GenGood cfg sfh (.typ (genericType x)) := by rw [gg_typ]; exact (ih x (by omega) gt).2
      simp only [generalize, genericType]; exact ⟨key, key⟩
    | notUndef x =>
      rw [gg_notUndef] at gt; simp only [Ty.w] at hw
      have key : GenGood cfg sfh (.notUndef (genericType x)) := by rw [gg_notUndef]; exact (ih x (by omega) gt).2
      simp only [generalize, genericType]; exact ⟨key, key⟩
    | optional x =>
      rw [gg_optional] at gt; simp only [Ty.w] at hw
      have key : GenGood cfg sfh (.optional (genericType x)) := by rw [gg_optional]; exact (ih x (by omega) gt).2
      simp only [generalize, genericType]; exact ⟨key, key⟩
    | tuple ts g =>
      rw [gg_tuple] at gt; simp only [Ty.w] at hw
      have key : GenGood cfg sfh (.tuple (generalizeL ts) g) := by
        rw [gg_tuple, generalizeL_length]
        refine ⟨gt.1, fun x hx => ?_⟩
        obtain ⟨t', ht', rfl⟩ := generalizeL_mem ts x hx
        exact (ih t' (by have := Ty.w_lt_wl ht'; omega) (gt.2 t' ht')).1
      simp only [generalize, genericType]; exact ⟨key, key⟩
    | struct ms =>
      rw [gg_struct] at gt; simp only [Ty.w] at hw
      have key : GenGood cfg sfh (.struct (genericM ms)) := by
        rw [gg_struct, genericM_names]
        refine ⟨gt.1, gt.2.1, fun m' hm' => ?_⟩
        obtain ⟨m, hm, _, _, h3⟩ := genericM_mem ms m' hm'
        rw [h3]
        exact (ih m.2.2 (by have := Ty.w_lt_wm hm; omega) (gt.2.2 m hm)).2
      simp only [generalize, genericType]; exact ⟨key, key⟩
    | variant ts =>
      rw [gg_variant] at gt; simp only [Ty.w] at hw
      have key : GenGood cfg sfh (mkVariant (uniqueTy (generalizeL ts))) := by
        apply gg_mkVariant
        intro u hu
        obtain ⟨t', ht', rfl⟩ := generalizeL_mem ts u (uniqueTy_sub _ u hu)
        exact (ih t' (by have := Ty.w_lt_wl ht'; omega) (gt t' ht')).1
      simp only [generalize, genericType]; exact ⟨key, key⟩

/-- ranges as the constructors allow and Float bounds that are doubles (`Ty.GenOK`), with Variant allowed -/
def Ty.GenOKV (t : Ty) : Prop :=
  match t with
  | .int r | .tspan r => r.inI64
  | .tstamp r => tstampAll.sub r = true
  | .float lo hi => -Fl.inf ≤ lo ∧ hi ≤ Fl.inf
  | .coll r => r.isSize
  | .array e r => r.isSize ∧ Ty.GenOKV e
  | .hash k v r => r.isSize ∧ Ty.GenOKV k ∧ Ty.GenOKV v
  | .tuple ts _ => ∀ t', ∀ (_ : t' ∈ ts), Ty.GenOKV t'
  | .struct ms => ∀ m, ∀ (_ : m ∈ ms), Ty.GenOKV m.2.2
  | .variant ts => ∀ t', ∀ (_ : t' ∈ ts), Ty.GenOKV t'
  | .optional t' | .notUndef t' | .sensitive t' | .iterator t' | .typ t' | .iterable t' => Ty.GenOKV t'
  | _ => True
termination_by t.w
decreasing_by
  all_goals simp_wf
  all_goals (try simp only [Ty.w, Ty.wl, Ty.wm] at *)
  all_goals first
    | omega
    | (have := Ty.w_lt_wl ‹_ ∈ _›; omega)
    | (have := Ty.w_lt_wm ‹_ ∈ _›; omega)

/-- the generalisation and the generic type of a type accept it — Variant included (its `Generic()` drops members that became `Equals`;
    the kept one accepts the dropped one's original by transitivity) -/
theorem gen_asg_var (hl : ∀ s, (cfg.lower s).length = s.length) : ∀ (n : Nat) (t : Ty), t.w ≤ n → GenGood cfg sfh t → t.GenOKV →
    asg cfg sfh (generalize t) t = true ∧ asg cfg sfh (genericType t) t = true := by
  intro n
  induction n with
  | zero => intro t h; have := Ty.w_pos t; omega
  | succ n ih =>
    intro t hw gd gt
    have wt := gd.1; have ft := gd.2
    have self : asg cfg sfh t t = true := asg_refl_all cfg sfh t.w t (Nat.le_refl _) wt
    cases t with
    | variant ts =>
      rw [gg_variant] at gd; unfold Ty.GenOKV at gt; simp only [Ty.w] at hw
      have key : asg cfg sfh (mkVariant (uniqueTy (generalizeL ts))) (.variant ts) = true := by
        rw [asg_variant_r]
        simp only [Bool.or_eq_true]; right
        rw [asgAllR_iff]
        intro x hx
        have hwx : x.w ≤ n := by have := Ty.w_lt_wl hx; omega
        have hgx := (ih x hwx (gd x hx) (gt x hx)).1
        have ggx := (gg_gen cfg sfh x.w x (Nat.le_refl _) (gd x hx)).1
        rcases uniqueTy_cover (generalizeL ts) (generalize x) (mem_generalizeL ts x hx) with hk | ⟨s, hs, hse⟩
        · exact mkVariant_accepts cfg sfh _ _ hk x hgx
        · obtain ⟨x', hx', rfl⟩ := generalizeL_mem ts s (uniqueTy_sub _ s hs)
          have ggs := (gg_gen cfg sfh x'.w x' (Nat.le_refl _) (gd x' hx')).1
          have hsg := (eq_asg_all cfg sfh _ _ _ (Nat.le_refl _) ggs.1 ggx.1 hse).1
          have := transD cfg sfh hl _ _ x ggs.2 ggx.2 (gd x hx).2 ggs.1 ggx.1 (gd x hx).1 hsg hgx
          exact mkVariant_accepts cfg sfh _ _ hs x this
      simp only [generalize, genericType]; exact ⟨key, key⟩
    | data => simp only [generalize, genericType]; exact ⟨self, self⟩
    | richData => simp only [generalize, genericType]; exact ⟨self, self⟩
    | any => simp only [generalize, genericType]; exact ⟨self, self⟩
    | unit => simp only [generalize, genericType]; exact ⟨self, self⟩
    | callable p r k =>
      have : asg cfg sfh (.callable none none none) (.callable p r k) = true :=
        viaR cfg sfh rfl (by rw [recv_callable_eq]; exact callAcc_default cfg sfh p r k)
      simp only [generalize, genericType]; exact ⟨this, this⟩
    | undef => simp only [generalize, genericType]; exact ⟨self, self⟩
    | dflt => simp only [generalize, genericType]; exact ⟨self, self⟩
    | scalar => simp only [generalize, genericType]; exact ⟨self, self⟩
    | scalarData => simp only [generalize, genericType]; exact ⟨self, self⟩
    | numeric => simp only [generalize, genericType]; exact ⟨self, self⟩
    | bin => simp only [generalize, genericType]; exact ⟨self, self⟩
    | str => simp only [generalize, genericType]; exact ⟨self, self⟩
    | strSz r =>
      simp only [generalize, genericType]
      exact ⟨viaR cfg sfh rfl (by unfold asgRecv; rfl), self⟩
    | strVal s =>
      simp only [generalize, genericType]
      exact ⟨viaR cfg sfh rfl (by unfold asgRecv; rfl), self⟩
    | pattern rs =>
      simp only [generalize, genericType]
      exact ⟨viaR cfg sfh rfl (by unfold asgRecv; simp), self⟩
    | regexp s =>
      simp only [generalize, genericType]
      exact ⟨viaR cfg sfh rfl (by unfold asgRecv; simp), self⟩
    | runtime rt nm pt =>
      have : asg cfg sfh (.runtime "" "" none) (.runtime rt nm pt) = true :=
        viaR cfg sfh rfl (by rw [recv_runtime_eq]; exact rtAcc_default rt nm pt)
      simp only [generalize, genericType]; exact ⟨this, this⟩
    | tspan r =>
      unfold Ty.GenOKV at gt
      simp only [generalize, genericType]
      exact ⟨viaR cfg sfh rfl (by unfold asgRecv; exact all_sub_i64 gt), self⟩
    | tstamp r =>
      unfold Ty.GenOKV at gt
      simp only [generalize, genericType]
      exact ⟨viaR cfg sfh rfl (by unfold asgRecv; exact gt), self⟩
    | object p =>
      simp only [generalize, genericType]
      exact ⟨viaR cfg sfh rfl (by unfold asgRecv; simp), self⟩
    | bool b =>
      have : asg cfg sfh (.bool none) (.bool b) = true := viaR cfg sfh rfl (by unfold asgRecv; simp)
      simp only [generalize, genericType]; exact ⟨this, this⟩
    | coll r =>
      unfold Ty.GenOKV at gt
      have : asg cfg sfh (.coll Rng.pos) (.coll r) = true := viaR cfg sfh rfl (by unfold asgRecv; exact pos_sub_size gt)
      simp only [generalize, genericType]; exact ⟨this, this⟩
    | enum vs ci =>
      have : asg cfg sfh (.enum [] false) (.enum vs ci) = true := viaR cfg sfh rfl (by unfold asgRecv; simp [isStringFamily])
      simp only [generalize, genericType]; exact ⟨this, this⟩
    | float lo hi =>
      unfold Ty.GenOKV at gt
      have : asg cfg sfh floatAll (.float lo hi) = true :=
        viaR cfg sfh rfl (by unfold floatAll asgRecv; simp only [Bool.and_eq_true]
                             exact ⟨decide_eq_true (Fl.effLo_default_le gt.1), decide_eq_true (Fl.effHi_le_default gt.2)⟩)
      simp only [generalize, genericType]; exact ⟨this, this⟩
    | int r =>
      unfold Ty.GenOKV at gt
      have : asg cfg sfh (.int Rng.all) (.int r) = true := viaR cfg sfh rfl (by unfold asgRecv; exact all_sub_i64 gt)
      simp only [generalize, genericType]; exact ⟨this, this⟩
    | array e r =>
      unfold Ty.GenOKV at gt; unfold Ty.WF at wt; unfold Ty.TA at ft
      simp only [Ty.w] at hw
      have key : asg cfg sfh (if e.isAny then .array .any Rng.pos else .array (generalize e) Rng.pos) (.array e r) = true := by
        by_cases he : e.isAny = true
        · simp only [he, if_true]
          cases e <;> simp [Ty.isAny] at he
          exact viaR cfg sfh rfl (by unfold asgRecv; simp [pos_sub_size gt.1, asg_any_l])
        · simp only [he, Bool.false_eq_true, if_false]
          exact viaR cfg sfh rfl (by unfold asgRecv; simp [pos_sub_size gt.1, (ih e (by omega) ⟨wt, ft⟩ gt.2).1])
      simp only [generalize, genericType]; exact ⟨key, key⟩
    | hash k v r =>
      unfold Ty.GenOKV at gt; unfold Ty.WF at wt; unfold Ty.TA at ft
      simp only [Ty.w] at hw
      have key : asg cfg sfh (.hash (genericType k) (genericType v) Rng.pos) (.hash k v r) = true :=
        viaR cfg sfh rfl (by
          unfold asgRecv
          simp [pos_sub_size gt.1, (ih k (by omega) ⟨wt.1, ft.1⟩ gt.2.1).2, (ih v (by omega) ⟨wt.2, ft.2⟩ gt.2.2).2])
      simp only [generalize, genericType]; exact ⟨key, key⟩
    | iterable x =>
      unfold Ty.GenOKV at gt; unfold Ty.WF at wt; unfold Ty.TA at ft
      simp only [Ty.w] at hw
      have key := mono_iterable cfg sfh _ _ (ih x (by omega) ⟨wt, ft⟩ gt).2
      simp only [generalize, genericType]; exact ⟨key, key⟩
    | sensitive x =>
      unfold Ty.GenOKV at gt; unfold Ty.WF at wt; unfold Ty.TA at ft
      simp only [Ty.w] at hw
      have key := mono_sensitive cfg sfh _ _ (ih x (by omega) ⟨wt, ft⟩ gt).2
      simp only [generalize, genericType]; exact ⟨key, key⟩
    | iterator x =>
      unfold Ty.GenOKV at gt; unfold Ty.WF at wt; unfold Ty.TA at ft
      simp only [Ty.w] at hw
      have key := mono_iterator cfg sfh _ _ (ih x (by omega) ⟨wt, ft⟩ gt).2
      simp only [generalize, genericType]; exact ⟨key, key⟩
    | typ x =>
      unfold Ty.GenOKV at gt; unfold Ty.WF at wt; unfold Ty.TA at ft
      simp only [Ty.w] at hw
      have key := mono_typ cfg sfh _ _ (ih x (by omega) ⟨wt, ft⟩ gt).2
      simp only [generalize, genericType]; exact ⟨key, key⟩
    | notUndef x =>
      unfold Ty.GenOKV at gt; unfold Ty.WF at wt; unfold Ty.TA at ft
      simp only [Ty.w] at hw
      have key := mono_notUndef cfg sfh _ _ (ih x (by omega) ⟨wt, ft⟩ gt).2
      simp only [generalize, genericType]; exact ⟨key, key⟩
    | optional x =>
      unfold Ty.GenOKV at gt; unfold Ty.WF at wt; unfold Ty.TA at ft
      simp only [Ty.w] at hw
      have key := mono_optional_all cfg sfh _ _ (ih x (by omega) ⟨wt, ft⟩ gt).2
      simp only [generalize, genericType]; exact ⟨key, key⟩
    | tuple ts g =>
      unfold Ty.GenOKV at gt; unfold Ty.WF at wt; unfold Ty.TA at ft
      simp only [Ty.w] at hw
      have key : asg cfg sfh (.tuple (generalizeL ts) g) (.tuple ts g) = true := by
        apply tuple_pointwise cfg sfh _ _ g (generalizeL_length ts)
        intro i x y hx hy
        obtain ⟨t, ht, hg⟩ := generalizeL_get ts i x hx
        rw [hy] at ht; cases ht
        have hm := List.mem_of_getElem? hy
        rw [hg]
        exact (ih y (by have := Ty.w_lt_wl hm; omega) ⟨wt y hm, ft.2 y hm⟩ (gt y hm)).1
      simp only [generalize, genericType]; exact ⟨key, key⟩
    | struct ms =>
      unfold Ty.GenOKV at gt; unfold Ty.WF at wt; unfold Ty.TA at ft
      simp only [Ty.w] at hw
      have key : asg cfg sfh (.struct (genericM ms)) (.struct ms) = true := by
        apply viaR cfg sfh rfl
        have hn' : NamesNodup (genericM ms) := by unfold NamesNodup; rw [genericM_names]; exact wt.1
        apply struct_eq_asg cfg sfh (genericM ms) ms hn' wt.1 (genericM_names ms)
        intro m' hm'
        obtain ⟨m, hm, h1, h2, h3⟩ := genericM_mem ms m' hm'
        refine ⟨m, hm, h1.symm, h2.symm, ?_⟩
        rw [h3]
        exact (ih m.2.2 (by have := Ty.w_lt_wm hm; omega) ⟨wt.2 m hm, ft.2 m hm⟩ (gt m hm)).2
      simp only [generalize, genericType]; exact ⟨key, key⟩


end Pcore.Lat
