import Pcore.Model.Format
import Pcore.Model.LatticeAsg
import Pcore.Model.LatticeInfer
/-!
# The key types of format maps inside the lattice model

`mergeFormats` orders and rejects entries by `px.IsAssignable` on their key types.  The Format model carries that
relation as the 16 × 16 table `Key.sub`; here it is shown to BE the assignability of the lattice model (`Lat.asg`, the mirror
of the `IsAssignable` methods that C01–C04 are about) on the corresponding default types.
-/
namespace Pcore.Format
open Pcore.Lat

/-- the default type a key stands for, as a term of the lattice model -/
def Key.toTy : Key → Ty
  | .any => .any | .scalar => .scalar | .numeric => .numeric | .int => .int Rng.all | .float => floatAll | .str => .str
  | .bool => .bool none | .bin => .bin | .arr => .array .any Rng.pos | .hash => .hash .any .any Rng.pos | .coll => .coll Rng.pos
  | .undef => .undef | .dflt => .dflt | .regexp => .regexp "" | .obj => .object none | .typ => .typ .any

set_option maxRecDepth 4000 in
set_option exponentiation.threshold 3000 in
theorem Key.sub_eq_asg (cfg : Cfg) (sfh : Bool) (a b : Key) : Key.sub a b = asg cfg sfh a.toTy b.toTy := by
  cases a <;> cases b <;>
    simp [Key.sub, Key.toTy, asg, asgRecv, sameNullary, isStringFamily, floatAll, Rng.sub, Rng.all, Rng.pos, I64.min, I64.max,
      tupleSize, Ty.isAny]

end Pcore.Format
