import Pcore.Proofs.LatSoundAlias
import Pcore.Proofs.LatTransDMain
set_option linter.unusedSimpArgs false
set_option linter.unusedVariables false
/-! C01 main lemma: all receivers put together, by induction on the summed weight. -/
namespace Pcore.Lat
variable (cfg : Cfg) (sfh : Bool)

/-- `Type[X] ⊒ Type[Y]` and `u ∈ Type[Y]`: soundness is transitivity `X ⊒ Y ⊒ u` (C03 stage 4, fragment `Ty.TA`) -/
theorem recv_typ (hl : ∀ s, (cfg.lower s).length = s.length) (x b : Ty) (v : Val) (H : Hyp cfg sfh (.typ x) b v)
    (h : asgRecv cfg sfh (.typ x) b = true) (hi : inst cfg sfh b v = true) : inst cfg sfh (.typ x) v = true := by
  unfold asgRecv at h
  cases b <;> simp only [] at h <;> (first | contradiction | skip)
  rename_i y
  have fa := H.fa; unfold Ty.Frag at fa
  have fb := H.fb; unfold Ty.Frag at fb
  have wb := H.wb; unfold Ty.WF at wb
  unfold inst at hi ⊢
  cases v <;> simp only [] at hi ⊢ <;> (first | contradiction | skip)
  rename_i u
  have wa := H.wa; unfold Ty.WF at wa
  cases H.tv with
  | typ _ hu hwu =>
    exact transD cfg sfh hl x y u fa fb hu wa wb hwu h hi

/-- the receiver's rule is sound (for a right-hand side that `GuardedIsAssignable` hands to the receiver) -/
theorem recv_sound (hl : ∀ s, (cfg.lower s).length = s.length) (n : Nat) (ih : Sound cfg sfh n) (a b : Ty) (v : Val)
    (hw : a.w + b.w ≤ n + 1) (H : Hyp cfg sfh a b v)
    (h : asgRecv cfg sfh a b = true) (hi : inst cfg sfh b v = true) : inst cfg sfh a v = true := by
  cases a with
  | any => unfold inst; rfl
  | unit => unfold inst; rfl
  | callable p r k => exact recv_callable cfg sfh p r k b v h hi
  | undef => exact recv_undef cfg sfh b v h hi
  | dflt => exact recv_dflt cfg sfh b v h hi
  | scalar => exact recv_scalar cfg sfh n ih b v hw H h hi
  | scalarData => exact recv_scalarData cfg sfh n ih b v hw H h hi
  | numeric => exact recv_numeric cfg sfh b v h hi
  | data => exact recv_data cfg sfh n ih b v hw H h hi
  | richData => exact recv_rich cfg sfh n ih b v hw H h hi
  | str => exact recv_str cfg sfh b v h hi
  | bin => exact recv_bin cfg sfh b v h hi
  | int r => exact recv_int cfg sfh r b v h hi
  | float lo hi' => exact recv_float cfg sfh lo hi' b v h hi
  | bool x => exact recv_bool cfg sfh x b v h hi
  | tspan r => exact recv_tspan cfg sfh r b v h hi
  | tstamp r => exact recv_tstamp cfg sfh r b v h hi
  | strSz r => exact recv_strSz cfg sfh hl r b v h hi
  | strVal s => exact recv_strVal cfg sfh s b v h hi
  | enum vs ci => exact recv_enum cfg sfh vs ci b v H.wb h hi
  | pattern rs => exact recv_pattern cfg sfh rs b v h hi
  | regexp s => exact recv_regexp cfg sfh s b v h hi
  | runtime rt nm pt => exact recv_runtime cfg sfh rt nm pt b v h hi
  | coll r => exact recv_coll cfg sfh r b v H.ok h hi
  | array e r => exact recv_array cfg sfh n ih e r b v hw H h hi
  | hash k x r => exact recv_hash cfg sfh n ih k x r b v hw H h hi
  | tuple ts g => exact recv_tuple cfg sfh n ih ts g b v hw H h hi
  | struct ms => exact recv_struct cfg sfh n ih ms b v hw H h hi
  | variant as => exact recv_variant cfg sfh n ih as b v hw H h hi
  | optional x => exact recv_optional cfg sfh n ih x b v hw H h hi
  | notUndef x => exact recv_notUndef cfg sfh n ih x b v hw H h hi
  | typ x => exact recv_typ cfg sfh hl x b v H h hi
  | sensitive x => exact recv_sensitive cfg sfh n ih x b v hw H h hi
  | iterator x => exact recv_iterator cfg sfh x b v h hi
  | iterable x => have := H.fa; unfold Ty.Frag at this; exact absurd this id
  | object p => exact recv_object cfg sfh p b v h hi

theorem isAny_inst {a : Ty} (h : a.isAny = true) (v : Val) : inst cfg sfh a v = true :=
  inst_of_isAny cfg sfh h v

theorem sound_all (hl : ∀ s, (cfg.lower s).length = s.length) : ∀ n, Sound cfg sfh n := by
  intro n
  induction n with
  | zero => intro a b v hw; have := Ty.w_pos a; omega
  | succ n ih =>
    intro a b v hw H ha hb
    have plain : b.plainR = true → inst cfg sfh a v = true := by
      intro hp
      rw [asg_plain_r cfg sfh a b hp] at ha
      simp only [Bool.or_eq_true] at ha
      rcases ha with (ha | ha) | ha
      · exact isAny_inst cfg sfh ha v
      · rw [← sameNullary_inst cfg sfh ha v]; exact hb
      · exact recv_sound cfg sfh hl n ih a b v hw H ha hb
    cases b with
    | unit => have := H.us; unfold Ty.US at this; exact absurd this id
    | data => exact sound_data_r cfg sfh n ih a v hw H ha hb
    | richData => exact sound_rich_r cfg sfh n ih a v hw H ha hb
    | optional ot =>
      rw [asg_optional_r] at ha
      simp only [Bool.or_eq_true, Bool.and_eq_true] at ha
      rcases ha with ha | ⟨h1, h2⟩
      · exact isAny_inst cfg sfh ha v
      · have fb := H.fb; unfold Ty.Frag at fb
        have wb := H.wb; unfold Ty.WF at wb
        have us := H.us; unfold Ty.US at us
        simp only [Ty.w] at hw
        unfold inst at hb
        simp only [Bool.or_eq_true] at hb
        rcases hb with hb | hb
        · have hv : v = .undef := by cases v <;> simp at hb; rfl
          subst hv
          exact ih a .undef .undef (by simp [Ty.w]; omega)
            ⟨H.fa, by unfold Ty.Frag; trivial, H.wa, by unfold Ty.WF; trivial, by unfold Ty.US; trivial, H.ok, H.tv⟩ h1
            (by unfold inst; rfl)
        · exact ih a ot v (by omega) ⟨H.fa, fb, H.wa, wb, us, H.ok, H.tv⟩ h2 hb
    | variant bs =>
      rw [asg_variant_r] at ha
      simp only [Bool.or_eq_true] at ha
      rcases ha with ha | ha
      · exact isAny_inst cfg sfh ha v
      · have fb := H.fb; unfold Ty.Frag at fb
        have wb := H.wb; unfold Ty.WF at wb
        have us := H.us; unfold Ty.US at us
        simp only [Ty.w] at hw
        unfold inst at hb
        rw [instAny_iff] at hb
        obtain ⟨t, hm, ht⟩ := hb
        exact ih a t v (by have := Ty.w_lt_wl hm; omega) ⟨H.fa, fb t hm, H.wa, wb t hm, us t hm, H.ok, H.tv⟩
          ((asgAllR_iff cfg sfh a bs).1 ha t hm) ht
    | notUndef nt =>
      rw [asg_notUndef_r] at ha
      simp only [Bool.or_eq_true] at ha
      rcases ha with ha | ha
      · exact isAny_inst cfg sfh ha v
      · by_cases hc : asg cfg sfh nt .undef = true
        · simp only [hc, Bool.not_true, Bool.false_eq_true, if_false] at ha
          exact recv_sound cfg sfh hl n ih a _ v hw H ha hb
        · simp only [hc, Bool.not_eq_true'] at ha
          have hc' : asg cfg sfh nt .undef = false := by cases h : asg cfg sfh nt .undef <;> simp_all
          simp only [hc', Bool.not_false, if_true] at ha
          have fb := H.fb; unfold Ty.Frag at fb
          have wb := H.wb; unfold Ty.WF at wb
          have us := H.us; unfold Ty.US at us
          simp only [Ty.w] at hw
          unfold inst at hb
          simp only [Bool.and_eq_true] at hb
          exact ih a nt v (by omega) ⟨H.fa, fb, H.wa, wb, us, H.ok, H.tv⟩ ha hb.2
    | _ => exact plain rfl

end Pcore.Lat
