import Pcore.Proofs.LatTransGAll
set_option linter.unusedSimpArgs false
set_option linter.unusedVariables false
/-! C03: transitivity of `asg`, stage 4 — the built-in recursive aliases Data / RichData inside the fragment.

    The summed weight of stage 2/3 cannot carry the aliases: `a ⊒ b ⊒ Data` needs `a ⊒ Array[Data]`, and `Array[Data]` is heavier than
    `Data`.  The induction here is lexicographic instead: first the weight of the LEFT type (`TransA`), then a rank `vw b + vw c` of the
    middle and right type (`TransB`), where the two self-referential members `Array[al]`, `Hash[key, al]` of an alias rank BELOW the
    alias.  Every receiver rule recurses on a lighter left type (any middle / right type is then allowed); only the right-hand and
    middle decompositions (Optional, Variant, NotUndef, the aliases) and the alias receivers keep the left type, and they lower the rank.
    The two former steps that moved the middle type to the left (`b ⊒ c ⊒ Undef`) are a lemma of their own (`trans_undef`). -/
namespace Pcore.Lat
variable (cfg : Cfg) (sfh : Bool)

def Ty.isAlias : Ty → Bool
  | .data | .richData => true
  | _ => false

/-- the alias' own Array and Hash members as type terms -/
def Alias.arr (al : Alias) : Ty := .array al.ty Rng.pos
def Alias.hsh (al : Alias) : Ty := .hash al.key al.ty Rng.pos
def Alias.ent (al : Alias) : Ty := .tuple [al.key, al.ty] none

def Ty.isData : Ty → Bool
  | .data => true
  | _ => false
def Ty.isRich : Ty → Bool
  | .richData => true
  | _ => false
def Ty.isStr : Ty → Bool
  | .str => true
  | _ => false
def Ty.isRichKey : Ty → Bool
  | .variant [.str, .numeric] => true
  | _ => false

theorem Ty.isData_eq {t : Ty} (h : t.isData = true) : t = .data := by cases t <;> simp [Ty.isData] at h; rfl
theorem Ty.isRich_eq {t : Ty} (h : t.isRich = true) : t = .richData := by cases t <;> simp [Ty.isRich] at h; rfl
theorem Ty.isStr_eq {t : Ty} (h : t.isStr = true) : t = .str := by cases t <;> simp [Ty.isStr] at h; rfl
theorem Ty.isRichKey_eq {t : Ty} (h : t.isRichKey = true) : t = .variant [.str, .numeric] := by
  unfold Ty.isRichKey at h
  split at h
  · rfl
  · cases h

/-- rank of a middle / right-hand type: its weight, except that the alias' own Array and Hash members rank just below the alias -/
def vw : Ty → Nat
  | .array e r => if e.isData && r == Rng.pos then 4 else if e.isRich && r == Rng.pos then 11 else 2 + e.w
  | .hash k v r =>
      if k.isStr && v.isData && r == Rng.pos then 4 else if k.isRichKey && v.isRich && r == Rng.pos then 11 else 8 + k.w + v.w
  | t => t.w

theorem vw_data : vw .data = 5 := rfl
theorem vw_rich : vw .richData = 12 := rfl

theorem vw_le (t : Ty) : vw t ≤ t.w := by
  cases t <;> simp only [vw, Ty.w, Nat.le_refl]
  · rename_i e r
    by_cases h1 : (e.isData && r == Rng.pos) = true
    · simp only [h1, if_true]; have := Ty.w_pos e
      simp only [Bool.and_eq_true] at h1; rw [Ty.isData_eq h1.1]; simp [Ty.w]
    · by_cases h2 : (e.isRich && r == Rng.pos) = true
      · simp only [h1, h2, if_true, if_false, Bool.false_eq_true]
        simp only [Bool.and_eq_true] at h2; rw [Ty.isRich_eq h2.1]; simp [Ty.w]
      · simp [h1, h2]
  · rename_i k v r
    by_cases h1 : (k.isStr && v.isData && r == Rng.pos) = true
    · simp only [h1, if_true]; omega
    · by_cases h2 : (k.isRichKey && v.isRich && r == Rng.pos) = true
      · simp only [h1, h2, if_true, if_false, Bool.false_eq_true]
        simp only [Bool.and_eq_true] at h2; rw [Ty.isRich_eq h2.1.2]; simp [Ty.w]
      · simp [h1, h2]

theorem vw_arr (al : Alias) : vw al.arr + 1 = al.ty.w := by cases al <;> simp [vw, Alias.arr, Alias.ty, Ty.w, Ty.isData, Ty.isRich]
theorem vw_hsh (al : Alias) : vw al.hsh + 1 = al.ty.w := by
  cases al <;> simp [vw, Alias.hsh, Alias.ty, Alias.key, Ty.w, Ty.isData, Ty.isRich, Ty.isStr, Ty.isRichKey]

theorem vw_plain (t : Ty) (h : match t with | .array _ _ | .hash _ _ _ => False | _ => True) : vw t = t.w := by
  cases t <;> simp only [] at h <;> (first | contradiction | rfl)

theorem isAlias_false {e : Ty} (h : e.isAlias = false) : e.isData = false ∧ e.isRich = false := by
  cases e <;> simp [Ty.isAlias] at h <;> simp [Ty.isData, Ty.isRich]

theorem vw_array_eq (e : Ty) (r : Rng) : vw (.array e r) =
    if e.isData && r == Rng.pos then 4 else if e.isRich && r == Rng.pos then 11 else 2 + e.w := rfl
theorem vw_hash_eq (k v : Ty) (r : Rng) : vw (.hash k v r) =
    if k.isStr && v.isData && r == Rng.pos then 4 else if k.isRichKey && v.isRich && r == Rng.pos then 11 else 8 + k.w + v.w := rfl

theorem vw_array_elem (e : Ty) (r : Rng) : vw e ≤ vw (.array e r) + 1 ∧ (e.isAlias = false → vw e + 2 ≤ vw (.array e r)) := by
  have hle := vw_le e
  rw [vw_array_eq]
  constructor
  · by_cases h1 : (e.isData && r == Rng.pos) = true
    · simp only [h1, if_true]
      simp only [Bool.and_eq_true] at h1; rw [Ty.isData_eq h1.1]; simp [vw_data]
    · by_cases h2 : (e.isRich && r == Rng.pos) = true
      · simp only [h1, h2, if_true, if_false, Bool.false_eq_true]
        simp only [Bool.and_eq_true] at h2; rw [Ty.isRich_eq h2.1]; simp [vw_rich]
      · simp only [h1, h2, if_false, Bool.false_eq_true]; omega
  · intro ha
    obtain ⟨a1, a2⟩ := isAlias_false ha
    simp only [a1, a2, Bool.false_and, Bool.false_eq_true, if_false]; omega

theorem vw_hash_val (k v : Ty) (r : Rng) :
    vw v ≤ vw (.hash k v r) + 1 ∧ (v.isAlias = false → vw v + 2 ≤ vw (.hash k v r)) := by
  have hle := vw_le v
  rw [vw_hash_eq]
  constructor
  · by_cases h1 : (k.isStr && v.isData && r == Rng.pos) = true
    · simp only [h1, if_true]
      simp only [Bool.and_eq_true] at h1; rw [Ty.isData_eq h1.1.2]; simp [vw_data]
    · by_cases h2 : (k.isRichKey && v.isRich && r == Rng.pos) = true
      · simp only [h1, h2, if_true, if_false, Bool.false_eq_true]
        simp only [Bool.and_eq_true] at h2; rw [Ty.isRich_eq h2.1.2]; simp [vw_rich]
      · simp only [h1, h2, if_false, Bool.false_eq_true]; omega
  · intro ha
    obtain ⟨a1, a2⟩ := isAlias_false ha
    simp only [a1, a2, Bool.false_and, Bool.and_false, Bool.false_eq_true, if_false]; omega

/-- Fragment of transitivity, stage 4: hereditarily no Unit; a Struct only with the Struct-from-Hash rule off (member names pairwise
    different); a Tuple's type list fits an int64 length, as a Go slice does (the alias' Array member `Array[al, 0, MaxInt64]` is compared
    with the declared types at positions below MaxInt64 only). -/
def Ty.TD (sfh : Bool) (t : Ty) : Prop :=
  match t with
  | .unit | .callable _ _ _ => False
  | .struct ms => sfh = false ∧ NamesNodup ms ∧ ∀ m, ∀ (_ : m ∈ ms), Ty.TD sfh m.2.2
  | .tuple ts _ => ((ts.length : Int) ≤ I64.max) ∧ ∀ t', ∀ (_ : t' ∈ ts), Ty.TD sfh t'
  | .array e _ => Ty.TD sfh e
  | .hash k v _ => Ty.TD sfh k ∧ Ty.TD sfh v
  | .variant ts => ∀ t', ∀ (_ : t' ∈ ts), Ty.TD sfh t'
  | .optional t' | .notUndef t' | .sensitive t' | .iterator t' | .typ t' | .iterable t' => Ty.TD sfh t'
  | _ => True
termination_by t.w
decreasing_by
  all_goals simp_wf
  all_goals (try simp only [Ty.w, Ty.wl, Ty.wm] at *)
  all_goals first
    | omega
    | (have := Ty.w_lt_wl ‹_ ∈ _›; omega)
    | (have := Ty.w_lt_wm ‹_ ∈ _›; omega)

structure DHyp (a b c : Ty) : Prop where
  fa : a.TD sfh
  fb : b.TD sfh
  fc : c.TD sfh
  wb : Ty.WF cfg b
  wc : Ty.WF cfg c

/-- transitivity for every left type of weight at most `n` (any middle and right type) -/
def TransA (n : Nat) : Prop :=
  ∀ a b c, a.w ≤ n → DHyp cfg sfh a b c → asg cfg sfh a b = true → asg cfg sfh b c = true → asg cfg sfh a c = true

/-- transitivity for the left type `a` and every middle / right type of joint rank at most `m` -/
def TransB (a : Ty) (m : Nat) : Prop :=
  ∀ b c, vw b + vw c ≤ m → DHyp cfg sfh a b c → asg cfg sfh a b = true → asg cfg sfh b c = true → asg cfg sfh a c = true

theorem td_leaf (t : Ty) (h : match t with
    | .undef | .dflt | .numeric | .str | .bin | .int _ | .float _ _ | .bool _ | .tspan _ | .tstamp _ | .strSz _ | .strVal _ | .enum _ _
    | .pattern _ | .regexp _ | .runtime _ _ _ | .object _ | .scalar | .scalarData | .any | .coll _ => True
    | _ => False) : t.TD sfh := by
  cases t <;> simp only [] at h <;> (first | contradiction | (unfold Ty.TD; trivial))

theorem trD_scalar (n : Nat) (ihA : TransA cfg sfh n) (b c : Ty) (hw : Ty.scalar.w ≤ n + 1)
    (H : DHyp cfg sfh .scalar b c) (hc : c.plainR = true)
    (h1 : asgRecv cfg sfh .scalar b = true) (h2 : asg cfg sfh b c = true) : asg cfg sfh .scalar c = true := by
  simp only [Ty.w] at hw
  apply recv_to_asg cfg sfh _ c hc
  have key : (asg cfg sfh .str b || asg cfg sfh .numeric b || asg cfg sfh (.bool none) b || asg cfg sfh (.regexp "") b ||
      asg cfg sfh (.tspan Rng.all) b || asg cfg sfh (.tstamp tstampAll) b) = true → asgRecv cfg sfh .scalar c = true := by
    intro h
    simp only [Bool.or_eq_true] at h
    have fin : (asg cfg sfh .str c || asg cfg sfh .numeric c || asg cfg sfh (.bool none) c || asg cfg sfh (.regexp "") c ||
        asg cfg sfh (.tspan Rng.all) c || asg cfg sfh (.tstamp tstampAll) c) = true → asgRecv cfg sfh .scalar c = true := by
      intro h'; unfold asgRecv; cases c <;> simp_all
    apply fin
    simp only [Bool.or_eq_true]
    rcases h with ((((h | h) | h) | h) | h) | h
    · left; left; left; left; left
      exact ihA .str b c (by simp [Ty.w]; omega) ⟨td_leaf sfh _ trivial, H.fb, H.fc, H.wb, H.wc⟩ h h2
    · left; left; left; left; right
      exact ihA .numeric b c (by simp [Ty.w]; omega) ⟨td_leaf sfh _ trivial, H.fb, H.fc, H.wb, H.wc⟩ h h2
    · left; left; left; right
      exact ihA (.bool none) b c (by simp [Ty.w]; omega) ⟨td_leaf sfh _ trivial, H.fb, H.fc, H.wb, H.wc⟩ h h2
    · left; left; right
      exact ihA (.regexp "") b c (by simp [Ty.w]; omega) ⟨td_leaf sfh _ trivial, H.fb, H.fc, H.wb, H.wc⟩ h h2
    · left; right
      exact ihA (.tspan Rng.all) b c (by simp [Ty.w]; omega) ⟨td_leaf sfh _ trivial, H.fb, H.fc, H.wb, H.wc⟩ h h2
    · right
      exact ihA (.tstamp tstampAll) b c (by simp [Ty.w]; omega) ⟨td_leaf sfh _ trivial, H.fb, H.fc, H.wb, H.wc⟩ h h2
  unfold asgRecv at h1
  cases b with
  | scalar =>
    -- Scalar ⊒ c as given
    rw [asg_plain_r cfg sfh _ c hc] at h2
    simp only [Bool.or_eq_true, Ty.isAny, Bool.false_eq_true, false_or] at h2
    rcases h2 with h2 | h2
    · have := sameNullary_eq h2; subst this; unfold asgRecv; rfl
    · exact h2
  | scalarData =>
    rw [asg_plain_r cfg sfh _ c hc] at h2
    simp only [Bool.or_eq_true, Ty.isAny, Bool.false_eq_true, false_or] at h2
    rcases h2 with h2 | h2
    · have := sameNullary_eq h2; subst this; unfold asgRecv; rfl
    · -- ScalarData's rule on c
      unfold asgRecv at h2
      have : (asg cfg sfh .str c || asg cfg sfh .numeric c || asg cfg sfh (.bool none) c || asg cfg sfh (.regexp "") c ||
          asg cfg sfh (.tspan Rng.all) c || asg cfg sfh (.tstamp tstampAll) c) = true ∨ c = .scalarData := by
        cases c with
        | scalarData => right; rfl
        | _ =>
          left
          simp only [Bool.or_eq_true] at h2 ⊢
          rcases h2 with ((h2 | h2) | h2) | h2
          · left; left; left; left; left; exact h2
          · left; left; left; left; right
            exact ihA .numeric (.int Rng.all) _ (by simp [Ty.w] at hw ⊢; omega) ⟨td_leaf sfh _ trivial, td_leaf sfh _ trivial, H.fc, wf_leaf cfg _ trivial, H.wc⟩
              (by rw [asg_plain_r cfg sfh _ _ rfl]; simp [asgRecv]) h2
          · left; left; left; right; exact h2
          · left; left; left; left; right
            exact ihA .numeric floatAll _ (by simp [Ty.w, floatAll] at hw ⊢; omega) ⟨td_leaf sfh _ trivial, by unfold floatAll; exact td_leaf sfh _ trivial, H.fc, by unfold floatAll; exact wf_leaf cfg _ trivial, H.wc⟩
              (by rw [asg_plain_r cfg sfh _ _ rfl]; simp [asgRecv, floatAll]) h2
      rcases this with h | h
      · unfold asgRecv; cases c <;> simp_all
      · subst h; unfold asgRecv; rfl
  | _ => exact key h1

theorem trD_scalarData (n : Nat) (ihA : TransA cfg sfh n) (b c : Ty) (hw : Ty.scalarData.w ≤ n + 1)
    (H : DHyp cfg sfh .scalarData b c) (hc : c.plainR = true)
    (h1 : asgRecv cfg sfh .scalarData b = true) (h2 : asg cfg sfh b c = true) : asg cfg sfh .scalarData c = true := by
  simp only [Ty.w] at hw
  apply recv_to_asg cfg sfh _ c hc
  have key : (asg cfg sfh .str b || asg cfg sfh (.int Rng.all) b || asg cfg sfh (.bool none) b || asg cfg sfh floatAll b) = true →
      asgRecv cfg sfh .scalarData c = true := by
    intro h
    simp only [Bool.or_eq_true] at h
    have fin : (asg cfg sfh .str c || asg cfg sfh (.int Rng.all) c || asg cfg sfh (.bool none) c || asg cfg sfh floatAll c) = true →
        asgRecv cfg sfh .scalarData c = true := by
      intro h'; unfold asgRecv; cases c <;> simp_all
    apply fin
    simp only [Bool.or_eq_true]
    rcases h with ((h | h) | h) | h
    · left; left; left
      exact ihA .str b c (by simp [Ty.w]; omega) ⟨td_leaf sfh _ trivial, H.fb, H.fc, H.wb, H.wc⟩ h h2
    · left; left; right
      exact ihA (.int Rng.all) b c (by simp [Ty.w]; omega) ⟨td_leaf sfh _ trivial, H.fb, H.fc, H.wb, H.wc⟩ h h2
    · left; right
      exact ihA (.bool none) b c (by simp [Ty.w]; omega) ⟨td_leaf sfh _ trivial, H.fb, H.fc, H.wb, H.wc⟩ h h2
    · right
      exact ihA floatAll b c (by simp [Ty.w, floatAll]; omega) ⟨by unfold floatAll; exact td_leaf sfh _ trivial, H.fb, H.fc, H.wb, H.wc⟩ h h2
  unfold asgRecv at h1
  cases b with
  | scalarData =>
    rw [asg_plain_r cfg sfh _ c hc] at h2
    simp only [Bool.or_eq_true, Ty.isAny, Bool.false_eq_true, false_or] at h2
    rcases h2 with h2 | h2
    · have := sameNullary_eq h2; subst this; unfold asgRecv; rfl
    · exact h2
  | _ => exact key h1

theorem posD_elem (x : Ty) (hx : x.isPos = true) (t : Ty) (ht : t ∈ posTypes x) :
    t.w < x.w ∧ (x.TD sfh → t.TD sfh) ∧ (Ty.WF cfg x → Ty.WF cfg t) := by
  cases x <;> simp [Ty.isPos] at hx
  · rename_i e r
    simp only [posTypes, List.mem_singleton] at ht; subst ht
    refine ⟨by simp [Ty.w], fun h => by unfold Ty.TD at h; exact h, fun h => by unfold Ty.WF at h; exact h⟩
  · rename_i ts g
    simp only [posTypes] at ht
    by_cases hts : ts.isEmpty = true
    · simp only [hts, if_true, List.mem_singleton] at ht; subst ht
      refine ⟨by simp only [Ty.w]; omega, fun _ => by unfold Ty.TD; trivial, fun _ => by unfold Ty.WF; trivial⟩
    · have ht' : t ∈ ts := by simpa [hts] using ht
      refine ⟨by have := Ty.w_lt_wl ht'; simp only [Ty.w]; omega, fun h => by unfold Ty.TD at h; exact h.2 t ht',
        fun h => by unfold Ty.WF at h; exact h t ht'⟩

/-- transitivity among the positional types, given transitivity on their element types -/
theorem tr_pos_open (a b c : Ty) (pa : a.isPos = true) (pb : b.isPos = true) (pc : c.isPos = true)
    (el : ∀ a' ∈ posTypes a, ∀ b' ∈ posTypes b, ∀ c' ∈ posTypes c, asg cfg sfh a' b' = true → asg cfg sfh b' c' = true →
      asg cfg sfh a' c' = true)
    (h1 : asgRecv cfg sfh a b = true) (h2 : asgRecv cfg sfh b c = true) : asgRecv cfg sfh a c = true := by
  rw [recv_pos cfg sfh a b pa pb, Bool.and_eq_true] at h1
  rw [recv_pos cfg sfh b c pb pc, Bool.and_eq_true] at h2
  rw [recv_pos cfg sfh a c pa pc, Bool.and_eq_true]
  refine ⟨Rng.sub_trans h1.1 h2.1, ?_⟩
  have hk : (posSize c).hi ≤ (posSize b).hi := by
    have := h2.1; simp [Rng.sub] at this; omega
  exact tupZip_trans cfg sfh _ _ _ _ _ hk (posTypes_ne a pa) (posTypes_ne b pb) (posTypes_ne c pc) el h1.2 h2.2

/-- transitivity among the positional types, elements by the induction hypothesis -/
theorem trD_pos (n : Nat) (ihA : TransA cfg sfh n) (a b c : Ty) (pa : a.isPos = true) (pb : b.isPos = true) (pc : c.isPos = true)
    (hw : a.w ≤ n + 1) (H : DHyp cfg sfh a b c)
    (h1 : asgRecv cfg sfh a b = true) (h2 : asgRecv cfg sfh b c = true) : asgRecv cfg sfh a c = true := by
  apply tr_pos_open cfg sfh a b c pa pb pc ?_ h1 h2
  intro a' ha' b' hb' c' hc'
  obtain ⟨wa', fa', _⟩ := posD_elem cfg sfh a pa a' ha'
  obtain ⟨wb', fb', wfb'⟩ := posD_elem cfg sfh b pb b' hb'
  obtain ⟨wc', fc', wfc'⟩ := posD_elem cfg sfh c pc c' hc'
  exact ihA a' b' c' (by omega) ⟨fa' H.fa, fb' H.fb, fc' H.fc, wfb' H.wb, wfc' H.wc⟩

theorem trD_coll (r : Rng) (b c : Ty) (fb : b.TD sfh) (fc : c.TD sfh)
    (h1 : asgRecv cfg sfh (.coll r) b = true) (h2 : asgRecv cfg sfh b c = true) : asgRecv cfg sfh (.coll r) c = true := by
  unfold asgRecv at h1
  cases b <;> simp only [] at h1 <;> (first | contradiction | skip)
  · unfold asgRecv at h2 ⊢; cases c <;> simp only [] at h2 ⊢ <;> (first | contradiction | skip)
    all_goals exact Rng.sub_trans h1 h2
  · unfold asgRecv at h2 ⊢; cases c <;> simp only [] at h2 ⊢ <;> (first | contradiction | skip)
    · simp only [Bool.and_eq_true] at h2; exact Rng.sub_trans h1 h2.1
    · simp only [Bool.and_eq_true] at h2; exact Rng.sub_trans h1 h2.1
  · unfold asgRecv at h2 ⊢; cases c <;> simp only [] at h2 ⊢ <;> (first | contradiction | skip)
    · rw [Bool.and_eq_true] at h2; exact Rng.sub_trans h1 h2.1
    · rw [Bool.and_eq_true] at h2; exact Rng.sub_trans h1 h2.1
  · unfold asgRecv at h2 ⊢; cases c <;> simp only [] at h2 ⊢ <;> (first | contradiction | skip)
    · simp only [Bool.and_eq_true] at h2; exact Rng.sub_trans h1 h2.1
    · simp only [Bool.and_eq_true] at h2; exact Rng.sub_trans h1 h2.1
  · -- the middle type is a Struct: it accepts Structs only (the rule is off), and its size includes theirs
    rename_i ms'
    unfold Ty.TD at fb
    have h2s := h2
    unfold asgRecv at h2; cases c <;> simp only [] at h2 <;> (first | contradiction | skip)
    · simp [fb.1] at h2
    · rename_i ms''
      unfold Ty.TD at fc
      have := struct_sub_size cfg sfh ms' ms'' fb.2.1 fc.2.1 h2s
      unfold asgRecv; exact Rng.sub_trans h1 this

theorem trD_array (n : Nat) (ihA : TransA cfg sfh n) (e : Ty) (r : Rng) (b c : Ty) (hw : (Ty.array e r).w ≤ n + 1)
    (H : DHyp cfg sfh (.array e r) b c)
    (h1 : asgRecv cfg sfh (.array e r) b = true) (h2 : asgRecv cfg sfh b c = true) : asgRecv cfg sfh (.array e r) c = true := by
  have pb : b.isPos = true := pos_closed cfg sfh _ b rfl h1
  exact trD_pos cfg sfh n ihA _ b c rfl pb (pos_closed cfg sfh b c pb h2) hw H h1 h2

theorem trD_tuple (n : Nat) (ihA : TransA cfg sfh n) (ts : List Ty) (g : Option Rng) (b c : Ty) (hw : (Ty.tuple ts g).w ≤ n + 1)
    (H : DHyp cfg sfh (.tuple ts g) b c)
    (h1 : asgRecv cfg sfh (.tuple ts g) b = true) (h2 : asgRecv cfg sfh b c = true) : asgRecv cfg sfh (.tuple ts g) c = true := by
  have pb : b.isPos = true := pos_closed cfg sfh _ b rfl h1
  exact trD_pos cfg sfh n ihA _ b c rfl pb (pos_closed cfg sfh b c pb h2) hw H h1 h2

/-- `t` is the value type of the Hash type `x`, or the value type of a member of the Struct `x` -/
def IsVal (x t : Ty) : Prop :=
  (∃ k r, x = .hash k t r) ∨ (∃ ms m, x = .struct ms ∧ m ∈ ms ∧ t = m.2.2)

/-- `Hash[k, v] ⊒ b ⊒ c`, given transitivity from the key type `k` (any middle / right type) and from the value type `v` to the value
    types of `b` and `c` -/
theorem tr_hash_open (k v : Ty) (r : Rng) (b c : Ty) (fb : b.TD sfh) (fc : c.TD sfh) (wb : Ty.WF cfg b) (wc : Ty.WF cfg c)
    (elK : ∀ k' c', k'.TD sfh → c'.TD sfh → Ty.WF cfg k' → Ty.WF cfg c' → asg cfg sfh k k' = true → asg cfg sfh k' c' = true →
      asg cfg sfh k c' = true)
    (elV : ∀ v' c', IsVal b v' → IsVal c c' → v'.TD sfh → c'.TD sfh → Ty.WF cfg v' → Ty.WF cfg c' → asg cfg sfh v v' = true →
      asg cfg sfh v' c' = true → asg cfg sfh v c' = true)
    (h1 : asgRecv cfg sfh (.hash k v r) b = true) (h2 : asgRecv cfg sfh b c = true) : asgRecv cfg sfh (.hash k v r) c = true := by
  unfold asgRecv at h1
  cases b <;> simp only [] at h1 <;> (first | contradiction | skip)
  · rename_i k' v' r'
    unfold Ty.TD at fb
    unfold Ty.WF at wb
    unfold asgRecv at h2 ⊢; cases c <;> simp only [] at h2 ⊢ <;> (first | contradiction | skip)
    · rename_i k'' v'' r''
      unfold Ty.TD at fc
      unfold Ty.WF at wc
      rw [Bool.and_eq_true] at h1 h2 ⊢
      refine ⟨Rng.sub_trans h1.1 h2.1, ?_⟩
      by_cases hz : r''.hi ≤ 0
      · simp [hz]
      · have hz' : ¬ r'.hi ≤ 0 := by
          have := h2.1; simp [Rng.sub] at this; omega
        have h12 := h1.2; have h22 := h2.2
        simp only [Bool.or_eq_true, decide_eq_true_eq, Bool.and_eq_true] at h12 h22 ⊢
        right
        have hA := h12.resolve_left hz'
        have hB := h22.resolve_left hz
        exact ⟨elK k' k'' fb.1 fc.1 wb.1 wc.1 hA.1 hB.1,
          elV v' v'' (Or.inl ⟨_, _, rfl⟩) (Or.inl ⟨_, _, rfl⟩) fb.2 fc.2 wb.2 wc.2 hA.2 hB.2⟩
    · -- Hash ⊒ Hash ⊒ Struct: the member loop of the middle Hash, through key and value types
      rename_i ms''
      unfold Ty.TD at fc
      unfold Ty.WF at wc
      rw [Bool.and_eq_true] at h1 h2 ⊢
      refine ⟨Rng.sub_trans h1.1 h2.1, ?_⟩
      rw [asgMembers_iff]
      intro m'' hm''
      have hz : ¬ (structSize ms'').hi ≤ 0 := struct_size_hi_pos hm''
      have hz' : ¬ r'.hi ≤ 0 := by
        have := h2.1; simp [Rng.sub] at this; omega
      have h12 := h1.2
      simp only [Bool.or_eq_true, decide_eq_true_eq, Bool.and_eq_true] at h12
      have hA := h12.resolve_left hz'
      have hB := (asgMembers_iff cfg sfh k' v' ms'').1 h2.2 m'' hm''
      exact ⟨elK k' (.strVal m''.1) fb.1 (td_leaf sfh _ trivial) wb.1 (wf_leaf cfg _ trivial) hA.1 hB.1,
        elV v' m''.2.2 (Or.inl ⟨_, _, rfl⟩) (Or.inr ⟨_, m'', rfl, hm'', rfl⟩) fb.2 (fc.2.2 m'' hm'') wb.2 (wc.2 m'' hm'') hA.2 hB.2⟩
  · -- Hash ⊒ Struct ⊒ c: c is a Struct
    rename_i ms'
    unfold Ty.TD at fb
    unfold Ty.WF at wb
    obtain ⟨ms'', rfl⟩ := struct_closed cfg sfh ms' c fb.1 h2
    unfold Ty.TD at fc
    unfold Ty.WF at wc
    rw [Bool.and_eq_true] at h1
    unfold asgRecv
    rw [Bool.and_eq_true]
    refine ⟨Rng.sub_trans h1.1 (struct_sub_size cfg sfh ms' ms'' fb.2.1 fc.2.1 h2), ?_⟩
    apply members_trans cfg sfh k v ms' ms'' fb.2.1 fc.2.1 ?_ h1.2 h2
    intro m' hm' m'' hm''
    exact elV m'.2.2 m''.2.2 (Or.inr ⟨_, m', rfl, hm', rfl⟩) (Or.inr ⟨_, m'', rfl, hm'', rfl⟩) (fb.2.2 m' hm') (fc.2.2 m'' hm'')
      (wb.2 m' hm') (wc.2 m'' hm'')

theorem trD_hash (n : Nat) (ihA : TransA cfg sfh n) (k v : Ty) (r : Rng) (b c : Ty) (hw : (Ty.hash k v r).w ≤ n + 1)
    (H : DHyp cfg sfh (.hash k v r) b c)
    (h1 : asgRecv cfg sfh (.hash k v r) b = true) (h2 : asgRecv cfg sfh b c = true) : asgRecv cfg sfh (.hash k v r) c = true := by
  have fa := H.fa; unfold Ty.TD at fa
  simp only [Ty.w] at hw
  apply tr_hash_open cfg sfh k v r b c H.fb H.fc H.wb H.wc ?_ ?_ h1 h2
  · intro k' c' f1 f2 w1 w2
    exact ihA k k' c' (by omega) ⟨fa.1, f1, f2, w1, w2⟩
  · intro v' c' _ _ f1 f2 w1 w2
    exact ihA v v' c' (by omega) ⟨fa.2, f1, f2, w1, w2⟩

/-- Struct ⊒ Struct ⊒ Struct (rule off): the member relation composes, value types by the induction hypothesis -/
theorem trD_struct (n : Nat) (ihA : TransA cfg sfh n) (ms : List Member) (b c : Ty) (hw : (Ty.struct ms).w ≤ n + 1)
    (H : DHyp cfg sfh (.struct ms) b c)
    (h1 : asgRecv cfg sfh (.struct ms) b = true) (h2 : asgRecv cfg sfh b c = true) : asgRecv cfg sfh (.struct ms) c = true := by
  have fa := H.fa; unfold Ty.TD at fa
  obtain ⟨ms', rfl⟩ := struct_closed cfg sfh ms b fa.1 h1
  have fb := H.fb; unfold Ty.TD at fb
  have wb := H.wb; unfold Ty.WF at wb
  obtain ⟨ms'', rfl⟩ := struct_closed cfg sfh ms' c fb.1 h2
  have fc := H.fc; unfold Ty.TD at fc
  have wc := H.wc; unfold Ty.WF at wc
  simp only [Ty.w] at hw
  apply struct_trans cfg sfh ms ms' ms'' fa.2.1 fb.2.1 fc.2.1 ?_ h1 h2
  intro m hm m' hm' m'' hm''
  have := Ty.w_lt_wm hm; have := Ty.w_lt_wm hm'; have := Ty.w_lt_wm hm''
  exact ihA m.2.2 m'.2.2 m''.2.2 (by omega) ⟨fa.2.2 m hm, fb.2.2 m' hm', fc.2.2 m'' hm'', wb.2 m' hm', wc.2 m'' hm''⟩

theorem trD_typ (n : Nat) (ihA : TransA cfg sfh n) (x : Ty) (b c : Ty) (hw : (Ty.typ x).w ≤ n + 1)
    (H : DHyp cfg sfh (.typ x) b c)
    (h1 : asgRecv cfg sfh (.typ x) b = true) (h2 : asgRecv cfg sfh b c = true) : asgRecv cfg sfh (.typ x) c = true := by
  have fa := H.fa; unfold Ty.TD at fa
  unfold asgRecv at h1
  cases b <;> simp only [] at h1 <;> (first | contradiction | skip)
  rename_i y
  have fb := H.fb; unfold Ty.TD at fb
  have wb := H.wb; unfold Ty.WF at wb
  unfold asgRecv at h2 ⊢; cases c <;> simp only [] at h2 ⊢ <;> (first | contradiction | skip)
  rename_i z
  have fc := H.fc; unfold Ty.TD at fc
  have wc := H.wc; unfold Ty.WF at wc
  simp only [Ty.w] at hw
  exact ihA x y z (by omega) ⟨fa, fb, fc, wb, wc⟩ h1 h2

theorem trD_sensitive (n : Nat) (ihA : TransA cfg sfh n) (x : Ty) (b c : Ty) (hw : (Ty.sensitive x).w ≤ n + 1)
    (H : DHyp cfg sfh (.sensitive x) b c)
    (h1 : asgRecv cfg sfh (.sensitive x) b = true) (h2 : asgRecv cfg sfh b c = true) : asgRecv cfg sfh (.sensitive x) c = true := by
  have fa := H.fa; unfold Ty.TD at fa
  unfold asgRecv at h1
  cases b <;> simp only [] at h1 <;> (first | contradiction | skip)
  rename_i y
  have fb := H.fb; unfold Ty.TD at fb
  have wb := H.wb; unfold Ty.WF at wb
  unfold asgRecv at h2 ⊢; cases c <;> simp only [] at h2 ⊢ <;> (first | contradiction | skip)
  rename_i z
  have fc := H.fc; unfold Ty.TD at fc
  have wc := H.wc; unfold Ty.WF at wc
  simp only [Ty.w] at hw
  exact ihA x y z (by omega) ⟨fa, fb, fc, wb, wc⟩ h1 h2

theorem trD_iterator (n : Nat) (ihA : TransA cfg sfh n) (x : Ty) (b c : Ty) (hw : (Ty.iterator x).w ≤ n + 1)
    (H : DHyp cfg sfh (.iterator x) b c)
    (h1 : asgRecv cfg sfh (.iterator x) b = true) (h2 : asgRecv cfg sfh b c = true) : asgRecv cfg sfh (.iterator x) c = true := by
  have fa := H.fa; unfold Ty.TD at fa
  unfold asgRecv at h1
  cases b <;> simp only [] at h1 <;> (first | contradiction | skip)
  rename_i y
  have fb := H.fb; unfold Ty.TD at fb
  have wb := H.wb; unfold Ty.WF at wb
  unfold asgRecv at h2 ⊢; cases c <;> simp only [] at h2 ⊢ <;> (first | contradiction | skip)
  rename_i z
  have fc := H.fc; unfold Ty.TD at fc
  have wc := H.wc; unfold Ty.WF at wc
  simp only [Ty.w] at hw
  exact ihA x y z (by omega) ⟨fa, fb, fc, wb, wc⟩ h1 h2

end Pcore.Lat
