import Pcore.Proofs.Files
/-!
C15, the global loader alone (`cfg.via = .g`): a lookup of a name the cache does not hold yet is decided by the first
origin of the name's key — direct evaluation of the model, no induction.
-/
namespace Pcore.Files

/-- what a lookup through the global loader answers when the cache holds nothing for the name yet -/
def plainOutcome (cfg : Cfg) (name : Name) : Outcome :=
  match idx cfg .g (keyOf name) with
  | [] => .notfound
  | p :: _ =>
    match bodyAt cfg.tree p with
    | some (.typ k nm _) =>
      if keyOf nm ≠ keyOf name then .failed (.reported "PCORE_WRONG_DEFINITION" (some p) 0) else .found ⟨k, nm⟩
    | some .bare => .found ⟨.alias, name⟩
    | some (.malformed ln) => .failed (.reported "PARSE_ERROR" (some p) ln)
    | some .nodef => .failed (.reported "PCORE_NO_DEFINITION" (some p) 0)
    | some .unreadable => .failed (.reported "PCORE_UNABLE_TO_READ_FILE" (some p) 0)
    | none => .failed (.reported "PCORE_UNABLE_TO_READ_FILE" (some p) 0)

def NotTypeset (cfg : Cfg) (name : Name) : Prop :=
  ∀ p ps nm ts, idx cfg .g (keyOf name) = p :: ps → bodyAt cfg.tree p ≠ some (.typ .typeset nm ts)

theorem find_g (n : Nat) (cfg : Cfg) (name : Name) : find (n+1) cfg .g name = findTail n cfg .g name := by
  simp only [find, Lid.moduleName]
  by_cases hq : qualified name = true
  · simp [hq]
  · simp [hq, isGlobalMod]

theorem global_plain (cfg : Cfg) (hv : cfg.via = .g) (name : Name) (s : St) (n : Nat)
    (hsys : sysLoad name = none) (hget : s.get .g (keyOf name) = none)
    (habs : idx cfg .g (keyOf name) = [] → qualified name = false)
    (hnt : NotTypeset cfg name) :
    (loadS (n+7) cfg s name).1 = plainOutcome cfg name ∧
    (loadS (n+7) cfg s name).2.reads = s.reads ++ (idx cfg .g (keyOf name)).head?.toList ∧
    (idx cfg .g (keyOf name) = [] → (loadS (n+7) cfg s name).2 = s.put .g (keyOf name) none) := by
  obtain ⟨mods, tree, via, gi, fl⟩ := cfg
  simp only at hv
  subst hv
  unfold loadS load
  simp only [loadEntry, fbLoadEntry, find_g, findTail, bind, pure, getSt, hsys, hget]
  unfold plainOutcome
  cases hi : idx ⟨mods, tree, .g, gi, fl⟩ .g (keyOf name) with
  | nil =>
    simp only [habs hi]
    simp [setEntry, hget]
  | cons p ps =>
    simp only [instantiate, bind, pure, getSt, hget, setEntry, instantiator, modifySt]
    cases hb : bodyAt tree p with
    | none => simp [raise]
    | some b =>
      cases b with
      | unreadable => simp [raise]
      | malformed ln => simp [raise]
      | nodef => simp [raise]
      | bare =>
        simp [addTypes, setEntry, get_put, bind, pure]
      | typ k nm ts =>
        have hkt : k ≠ .typeset := by
          intro hk; subst hk
          exact hnt p ps nm ts hi hb
        by_cases hk : keyOf nm = keyOf name
        · simp [addTypes, setEntry, get_put, bind, pure, hk, hkt]
        · simp [raise, hk]

end Pcore.Files
