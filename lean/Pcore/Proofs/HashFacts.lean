import Pcore.Model.HashFacts
/-! For ANY fact table satisfying `HashOK`, the pool machine driven by the facts is `stepHImpl`. -/
namespace Pcore.Coll
variable {α β κ : Type} [DecidableEq κ]

theorem HashOK_mergeLoop {f : HashFacts} (h : HashOK f = true) : f.mergeLoop = .replaceOrAppend := by
  simp only [HashOK, Bool.and_eq_true, decide_eq_true_eq] at h
  exact h.1.1.1.1.1.1.1.1.1.2

theorem HashOK_resets {f : HashFacts} (h : HashOK f = true) : f.putAllResetsIndex = true := by
  simp only [HashOK, Bool.and_eq_true, decide_eq_true_eq] at h
  exact h.2

theorem Hash.mergeT_eq {f : HashFacts} (hok : HashOK f = true) (key : α → κ) (h : Hash α β κ) (o : List (α × β)) :
    h.mergeT f key o = h.merge key o := by
  simp [Hash.mergeT, Hash.merge, Hash.mergeEntriesT, Hash.mergeEntries, Hash.mergeLoopT, HashOK_mergeLoop hok]

theorem Hash.putAllT_eq {f : HashFacts} (hok : HashOK f = true) (key : α → κ) (h : Hash α β κ) (o : List (α × β)) :
    h.putAllT f key o = h.putAll key o := by
  simp only [Hash.putAllT, Hash.putAll, Hash.mergeEntriesT, Hash.mergeEntries, Hash.mergeLoopT, HashOK_mergeLoop hok, HashOK_resets hok,
    if_true]
  rfl

theorem stepHImplT_eq {f : HashFacts} (hok : HashOK f = true) (key : α → κ) (pool : List (Hash α β κ)) (op : HOp α β) :
    stepHImplT f key pool op = stepHImpl key pool op := by
  cases op <;> simp only [stepHImplT, Hash.mergeT_eq hok, Hash.putAllT_eq hok] <;> rfl

theorem runHImplT_eq {f : HashFacts} (hok : HashOK f = true) (key : α → κ) (pool : List (Hash α β κ)) (ops : List (HOp α β)) :
    runHImplT f key pool ops = runHImpl key pool ops := by
  induction ops generalizing pool with
  | nil => rfl
  | cons op ops ih => simp only [runHImplT, runHImpl, stepHImplT_eq hok, ih]

end Pcore.Coll
