import Pcore.Proofs.FilesModule
import Pcore.Proofs.FilesError
/-!
C15, the dependency loader's routing and the flat topology (the global loader is the first member of the dependency
loader): an unqualified name is never routed by its first segment; it is offered to the global loader first, the modules
after it answer nil placeholders without reading anything (unless the module of that name has an `init_typeset`), and the
answer is the one the global loader's first origin yields.
-/
namespace Pcore.Files

/-- `dependencyLoader.find`: an unqualified name is never routed by its first segment -/
theorem dFind_unqualified (n : Nat) (cfg : Cfg) (name : Name) (hq : qualified name = false) :
    dFind (n+1) cfg name = dMembers n cfg name := by
  simp [dFind, hq]

/-- flat topology: a module loader that is asked for an unqualified name answers a nil placeholder without reading
    anything, unless it is the module of that name and has an `init_typeset` -/
theorem fb_module_miss (cfg : Cfg) (hflat : cfg.flat = true) (m : String) (hm : isGlobalMod m = false) (a x : String)
    (hparts : partsOf [a] = some [x]) (hsys : sysLoad [a] = none)
    (hinit : m = x → idx cfg (.m m) ["init_typeset"] = [])
    (s : St) (n : Nat) (hget : ∀ d, s.get (.m m) (keyOf [a]) ≠ some (some d)) :
    ∃ s', fbLoadEntry (n+3) cfg (.m m) [a] s = .ok (some none) s' ∧ s'.reads = s.reads ∧
      (∀ l k, l ≠ .m m → s'.get l k = s.get l k) ∧ (∀ d, s'.get (.m m) (keyOf [a]) ≠ some (some d)) := by
  have hq : qualified [a] = false := rfl
  have hg : (!isGlobalMod m) = true := by simp [hm]
  simp only [fbLoadEntry, hflat, if_true, bind, pure, hsys, getSt]
  cases hs : s.get (.m m) (keyOf [a]) with
  | some e =>
    cases e with
    | some d => exact absurd hs (hget d)
    | none => exact ⟨s, rfl, rfl, fun _ _ _ => rfl, hget⟩
  | none =>
    have hfind : find (n+2) cfg (.m m) [a] s = .ok none s := by
      simp only [find, hq, Lid.moduleName, hg, partsM, hparts, bind, pure, Bool.false_eq_true, if_false, if_true, List.head?]
      by_cases hmx : m = x
      · subst hmx; simp [hinit rfl]
      · have : ¬ (some m = some x) := by intro h; exact hmx (Option.some.inj h)
        simp [this]
    simp only [hfind, setEntry, hs]
    refine ⟨s.put (.m m) (keyOf [a]) none, rfl, rfl, ?_, ?_⟩
    · intro l k hl
      rw [get_put]
      have : (l, k) ≠ (Lid.m m, keyOf [a]) := by intro h; exact hl (Prod.mk.inj h).1
      rw [if_neg this]
    · intro d
      rw [get_put, if_pos rfl]
      intro h; cases h

/-- the loop over the modules after the global loader: nothing is read, the dependency loader's own cache decides -/
theorem dLoop_miss (cfg : Cfg) (hflat : cfg.flat = true) (a x : String)
    (hparts : partsOf [a] = some [x]) (hsys : sysLoad [a] = none) :
    ∀ (mods : List String), (∀ m ∈ mods, isGlobalMod m = false ∧ (m = x → idx cfg (.m m) ["init_typeset"] = [])) →
    ∀ (fuel : Nat) (s : St), fuel ≥ mods.length + 4 → (∀ m d, s.get (.m m) (keyOf [a]) ≠ some (some d)) →
    ∃ s', dLoop fuel cfg mods [a] s = .ok (s'.get .d (keyOf [a])) s' ∧ s'.reads = s.reads ∧
      s'.get .d (keyOf [a]) = s.get .d (keyOf [a]) := by
  intro mods
  induction mods with
  | nil =>
    intro _ fuel s hf _
    obtain ⟨k, rfl⟩ : ∃ k, fuel = k + 1 := ⟨fuel - 1, by omega⟩
    exact ⟨s, by simp [dLoop, bind, pure, getSt], rfl, rfl⟩
  | cons m rest ih =>
    intro hmods fuel s hf hnd
    obtain ⟨k, rfl⟩ : ∃ k, fuel = k + 4 := ⟨fuel - 4, by simp at hf; omega⟩
    have hm := hmods m (List.mem_cons_self ..)
    obtain ⟨s1, h1, hr1, hfr1, hnd1⟩ := fb_module_miss cfg hflat m hm.1 a x hparts hsys hm.2 s k (hnd m)
    have hnd' : ∀ m' d, s1.get (.m m') (keyOf [a]) ≠ some (some d) := by
      intro m' d
      by_cases hmm : m' = m
      · subst hmm; exact hnd1 d
      · rw [hfr1 (.m m') _ (by intro h; injection h with h; exact hmm h)]; exact hnd m' d
    obtain ⟨s2, h2, hr2, hd2⟩ := ih (fun m' hm' => hmods m' (List.mem_cons_of_mem _ hm')) (k+3) s1
      (by simp at hf ⊢; omega) hnd'
    refine ⟨s2, ?_, by rw [hr2, hr1], by rw [hd2, hfr1 .d _ (by intro h; cases h)]⟩
    simp only [dLoop, bind, h1, h2]

/-- the definition a non-defective first origin yields for the requested name -/
def defOf (name : Name) : Body → Option Def
  | .typ k nm _ => some ⟨k, nm⟩
  | .bare => some ⟨.alias, name⟩
  | _ => none

/-- flat topology, the dependency loader as the context's loader: what the global loader — the first member asked — does
    with an unqualified name it has not cached (the definition lands in the dependency loader) -/
theorem fb_global_flat (cfg : Cfg) (hv : cfg.via = .d) (a : String) (s : St) (n : Nat)
    (hsys : sysLoad [a] = none) (hd : s.get .d (keyOf [a]) = none) (hg : s.get .g (keyOf [a]) = none) :
    (idx cfg .g (keyOf [a]) = [] → fbLoadEntry (n+6) cfg .g [a] s = .ok (some none) (s.put .g (keyOf [a]) none)) ∧
    (∀ p ps b, idx cfg .g (keyOf [a]) = p :: ps → bodyAt cfg.tree p = some b →
      (Defective b [a] → fbLoadEntry (n+6) cfg .g [a] s = .fail (defectErr p b) ((s.put .g (keyOf [a]) none).addRead p)) ∧
      (∀ d, ¬ Defective b [a] → defOf [a] b = some d → d.kind ≠ .typeset →
        fbLoadEntry (n+6) cfg .g [a] s =
          .ok (some none) (((s.put .g (keyOf [a]) none).addRead p).put .d (keyOf [a]) (some d)))) := by
  obtain ⟨mods, tree, via, gi, fl⟩ := cfg
  simp only at hv
  subst hv
  have hq : qualified [a] = false := rfl
  have hne : (Lid.d, keyOf [a]) ≠ (Lid.g, keyOf [a]) := by intro h; cases h
  refine ⟨?_, ?_⟩
  · intro hi
    simp [fbLoadEntry, find_g, findTail, bind, pure, getSt, hsys, hg, hi, hq, setEntry]
  · intro p ps b hi hb
    refine ⟨?_, ?_⟩
    · intro hdef
      simp only [fbLoadEntry, find_g, findTail, bind, pure, getSt, hsys, hg, hi,
        instantiate_defective _ (n+1) .g [a] p ps s b hb hdef hg]
    · intro d hnd hdo hk
      simp only [fbLoadEntry, find_g, findTail, bind, pure, getSt, hsys, hg, hi, instantiate, setEntry, instantiator,
        modifySt]
      simp only at hb
      cases b with
      | unreadable => exact absurd trivial hnd
      | malformed ln => exact absurd trivial hnd
      | nodef => exact absurd trivial hnd
      | bare =>
        simp only [defOf] at hdo
        cases hdo
        simp [hb, addTypes, setEntry, get_put, hd, hne, hne.symm, bind, pure]
      | typ k nm ts =>
        simp only [defOf] at hdo
        cases hdo
        have hkey : keyOf nm = keyOf [a] := by
          by_cases h : keyOf nm = keyOf [a]
          · exact h
          · exact absurd h hnd
        have hk' : k ≠ .typeset := hk
        simp [hb, hkey, hk', addTypes, setEntry, get_put, hd, hne, hne.symm, bind, pure]


theorem flat_unqualified (cfg : Cfg) (hv : cfg.via = .d) (hflat : cfg.flat = true) (a x : String) (s : St) (n : Nat)
    (hparts : partsOf [a] = some [x]) (hsys : sysLoad [a] = none)
    (hd : s.get .d (keyOf [a]) = none) (hg : s.get .g (keyOf [a]) = none)
    (hmd : ∀ m d, s.get (.m m) (keyOf [a]) ≠ some (some d))
    (hmods : ∀ m ∈ cfg.mods, isGlobalMod m = false ∧ (m = x → idx cfg (.m m) ["init_typeset"] = []))
    (hnt : ∀ p ps nm ts, idx cfg .g (keyOf [a]) = p :: ps → bodyAt cfg.tree p ≠ some (.typ .typeset nm ts)) :
    (loadS (n + cfg.mods.length + 10) cfg s [a]).1 = plainOutcomeAt cfg .g [a] ∧
    (loadS (n + cfg.mods.length + 10) cfg s [a]).2.reads = s.reads ++ (idx cfg .g (keyOf [a])).head?.toList := by
  have hq : qualified [a] = false := rfl
  have hgl := fb_global_flat cfg hv a s (n + cfg.mods.length) hsys hd hg
  -- the modules after the global loader, from any state that holds no module definition for the name
  have hloop := fun s1 h => dLoop_miss cfg hflat a x hparts hsys cfg.mods hmods (n + cfg.mods.length + 6) s1 (by omega) h
  unfold loadS load
  rw [hv]
  simp only [loadEntry, dLoadEntry, bind, getSt, hd, dFind_unqualified _ _ _ hq, dMembers, hflat, if_true]
  unfold plainOutcomeAt
  cases hi : idx cfg .g (keyOf [a]) with
  | nil =>
    rw [hgl.1 hi]
    obtain ⟨s2, h2, hr2, hd2⟩ := hloop (s.put .g (keyOf [a]) none) (by
      intro m d; rw [get_put, if_neg (by intro h; cases h)]; exact hmd m d)
    have hd2' : s2.get .d (keyOf [a]) = none := by
      rw [hd2, get_put, if_neg (by intro h; cases h)]; exact hd
    simp only [h2, hd2', Option.getD, setEntry, pure]
    simp [hr2]
  | cons p ps =>
    cases hb : bodyAt cfg.tree p with
    | none =>
      -- a path of the index is a path of the tree
      exfalso
      have hmem : p ∈ idx cfg .g (keyOf [a]) := by rw [hi]; exact List.mem_cons_self ..
      unfold idx at hmem
      simp only [List.mem_map, List.mem_filter] at hmem
      obtain ⟨f, ⟨hf, _⟩, rfl⟩ := hmem
      unfold bodyAt at hb
      cases hfind : cfg.tree.find? (fun g => g.1 = f.1) with
      | some g => rw [hfind] at hb; cases hb
      | none =>
        have := List.find?_eq_none.mp hfind f hf
        simp at this
    | some b =>
      by_cases hdef : Defective b [a]
      · rw [((hgl.2 p ps b hi hb).1 hdef)]
        cases b with
        | bare => exact absurd hdef (by simp [Defective])
        | unreadable => simp [defectErr, hb]
        | malformed ln => simp [defectErr, hb]
        | nodef => simp [defectErr, hb]
        | typ k nm ts =>
          have hk : keyOf nm ≠ keyOf [a] := hdef
          simp [defectErr, hb, hk]
      · -- a definition: it lands in the dependency loader, the modules are asked in vain, the cache answers
        have hex : ∃ d, defOf [a] b = some d ∧ d.kind ≠ .typeset ∧
            (match some b with
              | some (Body.typ k nm _) =>
                if keyOf nm ≠ keyOf [a] then Outcome.failed (.reported "PCORE_WRONG_DEFINITION" (some p) 0)
                else Outcome.found ⟨k, nm⟩
              | some .bare => Outcome.found ⟨.alias, [a]⟩
              | some (.malformed ln) => Outcome.failed (.reported "PARSE_ERROR" (some p) ln)
              | some .nodef => Outcome.failed (.reported "PCORE_NO_DEFINITION" (some p) 0)
              | some .unreadable => Outcome.failed (.reported "PCORE_UNABLE_TO_READ_FILE" (some p) 0)
              | none => Outcome.failed (.reported "PCORE_UNABLE_TO_READ_FILE" (some p) 0)) = Outcome.found d := by
          cases b with
          | unreadable => exact absurd trivial hdef
          | malformed ln => exact absurd trivial hdef
          | nodef => exact absurd trivial hdef
          | bare =>
            refine ⟨⟨.alias, [a]⟩, rfl, ?_, rfl⟩
            intro h
            cases h
          | typ k nm ts =>
            have hkey : keyOf nm = keyOf [a] := by
              by_cases h : keyOf nm = keyOf [a]
              · exact h
              · exact absurd h hdef
            refine ⟨⟨k, nm⟩, rfl, ?_, by simp [hkey]⟩
            intro hk
            have hk' : k = .typeset := hk
            subst hk'
            exact hnt p ps nm ts hi hb
        obtain ⟨d, hdo, hk, hout⟩ := hex
        rw [((hgl.2 p ps b hi hb).2 d hdef hdo hk)]
        obtain ⟨s2, h2, hr2, hd2⟩ := hloop (((s.put .g (keyOf [a]) none).addRead p).put .d (keyOf [a]) (some d)) (by
          intro m d'
          rw [get_put, if_neg (by intro h; cases h), get_addRead, get_put, if_neg (by intro h; cases h)]
          exact hmd m d')
        have hd2' : s2.get .d (keyOf [a]) = some (some d) := by
          rw [hd2, get_put, if_pos rfl]
        simp only [h2, hd2', pure, if_true]
        refine ⟨?_, ?_⟩
        · rw [hb]; exact hout.symm
        · simp [hr2]
end Pcore.Files
