import Pcore.Model.FormatSpan
import Pcore.Proofs.FormatUnparse
import Pcore.Proofs.FormatWidth
/-! `Timespan.Format`: the Go format strings handed to fmt are directives fmt understands as long as the width is within fmt's limit;
    totality outside the two classes where the code faults; width of padded segments; the segments of the full format add up. -/
namespace Pcore.Format

/-! ### the format strings handed to fmt -/

def spanFmtRec (zero left : Bool) (w : Nat) : Fmt :=
  { alt := false, left := left, zeroPad := zero, letter := 'd', plus := none, prec := none, width := some w,
    ldelim := none, sep := none, sep2 := none, orig := [] }

theorem spanFmtRec_wf (zero left : Bool) (w : Nat) (h1 : 1 ≤ w) (h2 : w ≤ 1000000) : FmtWF (spanFmtRec zero left w) where
  plus := Or.inl rfl
  ldelim := by intro d hd; simp [spanFmtRec] at hd
  width := by intro w' hw; simp [spanFmtRec] at hw; subst hw; omega
  prec := by intro p hp; simp [spanFmtRec] at hp
  letter := by show isLetter 'd' = true; decide

theorem unParse_spanFmtRec (zero left : Bool) (w : Nat) :
    (unParse (spanFmtRec zero left w)).filter (fun c => !isDelim c) =
      ['%'] ++ (if zero then ['0'] else []) ++ (if left then ['-'] else []) ++ natStr 10 false w ++ ['d'] := by
  have hdig : ∀ a ∈ natStr 10 false w, isDelim a = false := fun a ha => not_delim_of_digit a (natStr10_digits w a ha)
  simp only [unParse, spanFmtRec, plusStr, delimStr, widthStr, precStr, Bool.false_eq_true, if_false, List.append_nil]
  cases zero <;> cases left <;> simp [List.filter_append, List.filter_cons, isDelim] <;>
    (intro a ha; have := hdig a ha; simpa [isDelim] using this)

/-- a width from 1 to fmt's limit: fmt parses the format string to the verb `d` with that width -/
theorem goParse_spanFmt (zero left : Bool) (w : Nat) (h1 : 1 ≤ w) (h2 : w ≤ 1000000) :
    ∃ g, goParse (['%'] ++ (if zero then ['0'] else []) ++ (if left then ['-'] else []) ++ natStr 10 false w ++ ['d']) = some g ∧
      g.verb = 'd' ∧ g.wid = some w := by
  obtain ⟨g, hg, hv, hw, _⟩ := goParse_unParse _ (spanFmtRec_wf zero left w h1 h2)
  rw [unParse_spanFmtRec] at hg
  exact ⟨g, hg, hv, hw⟩

theorem fmtD_of_parse (fm : Str) (n : Int) (g : GoSpec) (hg : goParse fm = some g) (hv : g.verb = 'd') :
    fmtD fm n = some (goInteger g 10 false n) := by
  simp [fmtD, hg, goFmtInt, hv]

theorem fmtD_plain (n : Int) : ∃ s, fmtD "%d".toList n = some s := by
  have : goParse "%d".toList = some ⟨false, false, false, false, false, none, none, 'd'⟩ := by decide +kernel
  exact ⟨_, fmtD_of_parse _ n _ this rfl⟩

/-- width 0: `%0d`, `%00d`, `%-0d` are directives too (the `0` is read as a flag) -/
theorem fmtD_width0 (n : Int) : (∃ s, fmtD "%0d".toList n = some s) ∧ (∃ s, fmtD "%00d".toList n = some s) ∧
    (∃ s, fmtD "%-0d".toList n = some s) := by
  have h1 : goParse "%0d".toList = some ⟨false, true, false, false, false, none, none, 'd'⟩ := by decide +kernel
  have h2 : goParse "%00d".toList = some ⟨false, true, false, false, false, none, none, 'd'⟩ := by decide +kernel
  have h3 : goParse "%-0d".toList = some ⟨false, true, false, true, false, none, none, 'd'⟩ := by decide +kernel
  exact ⟨⟨_, fmtD_of_parse _ n _ h1 rfl⟩, ⟨_, fmtD_of_parse _ n _ h2 rfl⟩, ⟨_, fmtD_of_parse _ n _ h3 rfl⟩⟩

theorem valueFmt_ok (pad : Option Char) (hp : pad = none ∨ pad = some '0' ∨ pad = some ' ') (w : Nat) (hw : w ≤ 1000000) (n : Int) :
    ∃ s, fmtD (valueFmt pad w) n = some s := by
  rcases hp with rfl | rfl | rfl
  · exact fmtD_plain n
  · by_cases h0 : w = 0
    · subst h0; simp only [valueFmt, natStr_zero]; exact (fmtD_width0 n).2.1
    · obtain ⟨g, hg, hv, _⟩ := goParse_spanFmt true false w (by omega) hw
      refine ⟨_, fmtD_of_parse _ n g ?_ hv⟩
      simpa [valueFmt] using hg
  · by_cases h0 : w = 0
    · subst h0; simp only [valueFmt, natStr_zero]; exact (fmtD_width0 n).1
    · obtain ⟨g, hg, hv, _⟩ := goParse_spanFmt false false w (by omega) hw
      refine ⟨_, fmtD_of_parse _ n g ?_ hv⟩
      simpa [valueFmt] using hg

theorem fragFmt_ok (pad : Option Char) (w : Nat) (hw : w ≤ 1000000) (n : Int) : ∃ s, fmtD (fragFmt pad w) n = some s := by
  cases pad with
  | none => exact fmtD_plain n
  | some c =>
    by_cases h0 : w = 0
    · subst h0; simp only [fragFmt, natStr_zero]; exact (fmtD_width0 n).2.2
    · obtain ⟨g, hg, hv, _⟩ := goParse_spanFmt false true w (by omega) hw
      refine ⟨_, fmtD_of_parse _ n g ?_ hv⟩
      simpa [fragFmt] using hg

/-! ### totality -/

/-- a value segment as the (repaired) parser builds it: one of the three pad characters, a width within fmt's limit -/
def VSeg.ok (v : VSeg) : Prop :=
  (v.pad = none ∨ v.pad = some '0' ∨ v.pad = some ' ') ∧ v.width.getD v.kind.defaultWidth ≤ 1000000

def SegsOK : List Seg → Prop
  | [] => True
  | .lit _ :: rest => SegsOK rest
  | .val v :: rest => v.ok ∧ SegsOK rest

theorem defaultWidth_le (k : SegKind) : k.defaultWidth ≤ 1000000 := by cases k <;> decide

theorem int64Pow10_now_pos (e : Nat) : 0 < int64Pow10 .now e := by
  simp only [int64Pow10, SpanCode.now, Bool.not_true, Bool.and_false, Bool.false_eq_true, if_false]
  exact Int.pow_pos (by decide)

/-- after 03fcfad no segment divides by zero -/
theorem segValue_ok (v : VSeg) (ns : Int) : ∃ n, segValue .now v ns = some n := by
  unfold segValue
  cases hk : v.kind <;> simp only
  all_goals first | exact ⟨_, rfl⟩ | skip
  split
  · split
    · exact ⟨_, rfl⟩
    · have := int64Pow10_now_pos (v.width.getD 9)
      split
      · rename_i hz; omega
      · exact ⟨_, rfl⟩
  · exact ⟨_, rfl⟩

theorem fragAppend_ok (v : VSeg) (h : v.ok) (n : Int) : ∃ s, fragAppend v n = some s := by
  unfold fragAppend
  simp only
  split
  · have : ¬ v.width.getD v.kind.defaultWidth > 1000000 := by have := h.2; omega
    simp only [this, if_false]
    exact ⟨_, rfl⟩
  · exact fragFmt_ok v.pad _ h.2 n

theorem segText_ok (s : Seg) (h : match s with | .lit _ => True | .val v => v.ok) (ns : Int) : ∃ t, segText .now s ns = some t := by
  cases s with
  | lit l => exact ⟨l, rfl⟩
  | val v =>
    simp only at h
    obtain ⟨n, hn⟩ := segValue_ok v ns
    simp only [segText, hn]
    have h1 := h.1
    have h2 := h.2
    cases hk : v.kind <;> rw [hk] at h2 <;> simp only
    all_goals first | exact fragAppend_ok v h n | exact valueFmt_ok v.pad h1 _ h2 n

theorem segsText_ok : ∀ (segs : List Seg), SegsOK segs → ∀ ns, ∃ t, segsText .now segs ns = some t
  | [], _, _ => ⟨[], rfl⟩
  | .lit l :: rest, h, ns => by
    obtain ⟨t, ht⟩ := segsText_ok rest h ns
    exact ⟨l ++ t, by simp [segsText, segText, ht]⟩
  | .val v :: rest, h, ns => by
    obtain ⟨t, ht⟩ := segsText_ok rest h.2 ns
    obtain ⟨a, ha⟩ := segText_ok (.val v) h.1 ns
    exact ⟨a ++ t, by simp [segsText, ha, ht]⟩

theorem spanFormat2_total (segs : List Seg) (h : SegsOK segs) (ns : Int) : ∃ s, spanFormat2 .now segs ns = .text s := by
  unfold spanFormat2
  simp only
  obtain ⟨t, ht⟩ := segsText_ok segs h (if (decide (ns < 0) && decide (ns ≠ -9223372036854775808)) = true then -ns else ns)
  rw [ht]
  exact ⟨_, rfl⟩

/-! ### what the repaired parser builds is `SegsOK` (fix 5257aa1: a width above 10^6 is a bad format specifier) -/

theorem segsOK_appendLiteral : ∀ (segs : List Seg) (c : Char), SegsOK segs → SegsOK (appendLiteral segs c)
  | [], c, _ => by simp [appendLiteral, SegsOK]
  | [.lit s], c, _ => by simp [appendLiteral, SegsOK]
  | [.val v], c, h => by simpa [appendLiteral, SegsOK] using h
  | .lit s :: y :: rest, c, h => by
    simp only [appendLiteral, SegsOK] at h ⊢
    exact segsOK_appendLiteral (y :: rest) c h
  | .val v :: y :: rest, c, h => by
    simp only [appendLiteral, SegsOK] at h ⊢
    exact ⟨h.1, segsOK_appendLiteral (y :: rest) c h.2⟩

theorem segsOK_snoc : ∀ (segs : List Seg) (v : VSeg), SegsOK segs → v.ok → SegsOK (segs ++ [.val v])
  | [], v, _, hv => by simp [SegsOK, hv]
  | .lit s :: rest, v, h, hv => by simp only [List.cons_append, SegsOK] at h ⊢; exact segsOK_snoc rest v h hv
  | .val x :: rest, v, h, hv => by simp only [List.cons_append, SegsOK] at h ⊢; exact ⟨h.1, segsOK_snoc rest v h.2 hv⟩

theorem segsOK_markTotal (n : Nat) : ∀ (segs : List Seg), SegsOK segs → SegsOK (markTotal n segs)
  | [], _ => trivial
  | .lit s :: rest, h => by simp only [markTotal, SegsOK] at h ⊢; exact segsOK_markTotal n rest h
  | .val v :: rest, h => by
    simp only [markTotal, SegsOK] at h ⊢
    refine ⟨?_, segsOK_markTotal n rest h.2⟩
    split
    · exact h.1
    · exact h.1

/-- the invariant of the parser's state -/
def PS.ok (ps : PS) : Prop :=
  SegsOK ps.segs ∧ (ps.pad = none ∨ ps.pad = some '0' ∨ ps.pad = some ' ') ∧ (∀ w, ps.width = some w → w ≤ 1000000)

theorem spanStep_ok (ps ps' : PS) (c : Char) (h : ps.ok) (hs : spanStep .now ps c = some ps') : ps'.ok := by
  unfold spanStep at hs
  obtain ⟨h1, h2, h3⟩ := h
  split at hs
  · split at hs
    · cases hs; exact ⟨h1, Or.inr (Or.inl rfl), by intro w hw; cases hw⟩
    · cases hs; exact ⟨segsOK_appendLiteral _ _ h1, h2, h3⟩
  · split at hs
    · cases hs; exact ⟨segsOK_appendLiteral _ _ h1, h2, h3⟩
    · split at hs
      · split at hs
        · cases hs
        · cases hs; exact ⟨h1, Or.inl rfl, h3⟩
      · split at hs
        · split at hs
          · cases hs
          · cases hs; exact ⟨h1, Or.inr (Or.inr rfl), h3⟩
        · split at hs
          · rename_i k hk
            cases hs
            refine ⟨segsOK_snoc _ _ h1 ⟨h2, ?_⟩, h2, h3⟩
            cases hw : ps.width with
            | none => exact defaultWidth_le k
            | some w => exact h3 w hw
          · split at hs
            · cases hs
            · split at hs
              · cases hs; exact ⟨h1, Or.inr (Or.inl rfl), h3⟩
              · simp only at hs
                split at hs
                · cases hs
                · rename_i hlim
                  cases hs
                  refine ⟨h1, h2, ?_⟩
                  intro w hw
                  simp only [Option.some.injEq] at hw
                  subst hw
                  simpa [SpanCode.now, maxFormatNumber] using hlim

theorem spanSteps_ok : ∀ (l : Str) (ps ps' : PS), ps.ok → spanSteps .now ps l = some ps' → ps'.ok
  | [], ps, ps', h, hs => by simp [spanSteps] at hs; subst hs; exact h
  | c :: cs, ps, ps', h, hs => by
    simp only [spanSteps] at hs
    cases hc : spanStep .now ps c with
    | none => simp [hc] at hs
    | some p1 =>
      simp only [hc, Option.bind] at hs
      exact spanSteps_ok cs p1 ps' (spanStep_ok ps p1 c h hc) hs

/-- every format the repaired parser accepts has segments the formatter handles without a fault -/
theorem spanParse_ok (fm : Str) (segs : List Seg) (h : spanParse fm = some segs) : SegsOK segs := by
  unfold spanParse spanParseC at h
  cases hs : spanSteps .now ⟨[], none, .literal, some '0', none⟩ fm with
  | none => simp [hs] at h
  | some ps =>
    have hok := spanSteps_ok fm _ ps (by simp [PS.ok, SegsOK]) hs
    simp only [hs] at h
    split at h
    · cases h
    · split at h
      · cases h; exact hok.1
      · cases h; exact segsOK_markTotal _ _ hok.1

/-! ### width of a padded segment -/

theorem valueFmt_width (c : Char) (hc : c = '0' ∨ c = ' ') (w : Nat) (h1 : 1 ≤ w) (h2 : w ≤ 1000000) (n : Int) (s : Str)
    (h : fmtD (valueFmt (some c) w) n = some s) : w ≤ s.length := by
  rcases hc with rfl | rfl
  · obtain ⟨g, hg, hv, hw⟩ := goParse_spanFmt true false w h1 h2
    have : fmtD (valueFmt (some '0') w) n = some (goInteger g 10 false n) := fmtD_of_parse _ n g (by simpa [valueFmt] using hg) hv
    rw [this] at h; cases h
    exact goInteger_width g 10 false n w hw
  · obtain ⟨g, hg, hv, hw⟩ := goParse_spanFmt false false w h1 h2
    have : fmtD (valueFmt (some ' ') w) n = some (goInteger g 10 false n) := fmtD_of_parse _ n g (by simpa [valueFmt] using hg) hv
    rw [this] at h; cases h
    exact goInteger_width g 10 false n w hw

/-! ### the segments of the full format add up -/

theorem span_sum (ns : Int) (h : 0 ≤ ns) :
    ns.tdiv nsPerDay * nsPerDay + (ns.tdiv nsPerHour).tmod 24 * nsPerHour + (ns.tdiv nsPerMin).tmod 60 * nsPerMin +
      (ns.tdiv nsPerSec).tmod 60 * nsPerSec + ns.tmod nsPerSec = ns := by
  have e1 : ∀ (a b : Int), 0 ≤ a → 0 ≤ b → a.tdiv b = a / b := fun a b ha hb => Int.tdiv_eq_ediv_of_nonneg ha
  have e2 : ∀ (a b : Int), 0 ≤ a → a.tmod b = a % b := fun a b ha => Int.tmod_eq_emod_of_nonneg ha
  unfold nsPerDay nsPerHour nsPerMin nsPerSec
  rw [e1 ns _ h (by decide), e1 ns 3600000000000 h (by decide), e1 ns 60000000000 h (by decide), e1 ns 1000000000 h (by decide),
    e2 _ 24 (Int.ediv_nonneg h (by decide)), e2 _ 60 (Int.ediv_nonneg h (by decide)), e2 _ 60 (Int.ediv_nonneg h (by decide)),
    e2 ns _ h]
  omega

end Pcore.Format
