import Pcore.Model.Tls
/-!
Helper lemmas for C14 (property theorems are in `Pcore/Props/C14.lean`).

`Inv` — well-formedness of a world; `Pre g c w` — goroutine `g` runs a body that was handed context `c` and `c` is its
current context; `Step x w w'` — what any execution from `w` to `w'` guarantees (everything except the equality of the
goroutine-local tables, which is carried beside it).  `exec_step` is the one induction (on the fuel) everything rests on.
-/
namespace Pcore.Tls

/-! ## association lists -/

theorem aget_aset_same {α : Type} (k : String) (v : α) (t : List (String × α)) : aget k (aset k v t) = some v := by
  induction t with
  | nil => simp [aset, aget]
  | cons h r ih =>
    obtain ⟨k', v'⟩ := h
    by_cases hk : k' = k
    · simp [aset, aget, hk]
    · simp [aset, aget, hk, ih]

theorem aget_aset_other {α : Type} {k k' : String} (v : α) (t : List (String × α)) (h : k' ≠ k) :
    aget k' (aset k v t) = aget k' t := by
  induction t with
  | nil => simp [aset, aget, Ne.symm h]
  | cons hd r ih =>
    obtain ⟨k2, v2⟩ := hd
    by_cases hk : k2 = k
    · subst hk; simp [aset, aget, Ne.symm h]
    · by_cases hk' : k2 = k'
      · subst hk'; simp [aset, aget, hk]
      · simp [aset, aget, hk, hk', ih]

/-- `Set(k, save)` after `Set(k, c)` gives back the table in which `k` was `save` -/
theorem aset_aset_restore {α : Type} {k : String} {s : α} (c : α) {t : List (String × α)} (h : aget k t = some s) :
    aset k s (aset k c t) = t := by
  induction t with
  | nil => simp [aget] at h
  | cons hd r ih =>
    obtain ⟨k', v'⟩ := hd
    by_cases hk : k' = k
    · subst hk
      simp [aget] at h
      simp [aset, h]
    · simp [aget, hk] at h
      simp [aset, hk, ih h]

/-! ## lists of pending goroutines -/

def pendGids (w : World) : List Gid := w.pending.map (·.gid)
def pendCtxs (w : World) : List CtxId := w.pending.map (·.ctx)

theorem mem_of_getElem? {α : Type} {l : List α} {i : Nat} {t : α} (h : l[i]? = some t) : t ∈ l :=
  List.mem_of_getElem? h

theorem mem_eraseIdx_of {α : Type} {l : List α} {i : Nat} {t : α} (h : t ∈ l.eraseIdx i) : t ∈ l :=
  (List.eraseIdx_sublist l i).subset h

/-- with distinct keys, the key of the erased element does not occur among the others -/
theorem key_not_mem_eraseIdx {α β : Type} (f : α → β) :
    ∀ (l : List α) (i : Nat) (t : α), (l.map f).Nodup → l[i]? = some t → f t ∉ (l.eraseIdx i).map f := by
  intro l
  induction l with
  | nil => intro i t _ h; simp at h
  | cons a r ih =>
    intro i t hnd h
    rw [List.map_cons, List.nodup_cons] at hnd
    cases i with
    | zero =>
      simp at h; subst h
      simpa using hnd.1
    | succ j =>
      simp at h
      rw [List.eraseIdx_cons_succ, List.map_cons, List.mem_cons]
      intro hc
      rcases hc with hc | hc
      · apply hnd.1
        rw [← hc]
        exact List.mem_map_of_mem (mem_of_getElem? h)
      · exact ih j t hnd.2 h hc

theorem nodup_map_eraseIdx {α β : Type} (f : α → β) (l : List α) (i : Nat) (h : (l.map f).Nodup) :
    ((l.eraseIdx i).map f).Nodup :=
  List.Nodup.sublist ((List.eraseIdx_sublist l i).map f) h

/-! ## invariant -/

structure Inv (w : World) : Prop where
  tlsFresh : ∀ g, w.nextGid ≤ g → w.tls g = none
  pendNone : ∀ t ∈ w.pending, w.tls t.gid = none
  pendLt : ∀ t ∈ w.pending, t.gid < w.nextGid
  pendNodup : (pendGids w).Nodup
  hasKey : ∀ g t, w.tls g = some t → ∃ c, aget ctxKey t = some c
  estabLt : ∀ g c, (g, c) ∈ w.estab → c < w.nextCtx
  pendCtxLt : ∀ t ∈ w.pending, t.ctx < w.nextCtx
  pendCtxNodup : (pendCtxs w).Nodup
  pendNotEstab : ∀ t ∈ w.pending, ∀ g, (g, t.ctx) ∉ w.estab
  estabUniq : ∀ g g' c, (g, c) ∈ w.estab → (g', c) ∈ w.estab → g = g'

/-- an observation is in order: the current context is the one handed to the body, and it was established for this
    very goroutine -/
def EvOK (w : World) (ge : Gid × Ev) : Prop :=
  match ge.2 with
  | .obs cur lex _ _ => cur = some lex ∧ (ge.1, lex) ∈ w.estab
  | _ => True

def LogOK (w : World) : Prop := ∀ ge ∈ w.log, EvOK w ge

structure Pre (g : Gid) (c : CtxId) (w : World) : Prop where
  inv : Inv w
  cur : tlGet g ctxKey w = some c
  glt : g < w.nextGid
  gnp : g ∉ pendGids w
  est : (g, c) ∈ w.estab

theorem Pre.clt {g c w} (h : Pre g c w) : c < w.nextCtx := h.inv.estabLt g c h.est

theorem Pre.cnp {g c w} (h : Pre g c w) : c ∉ pendCtxs w := by
  intro hc
  simp only [pendCtxs, List.mem_map] at hc
  obtain ⟨t, ht, rfl⟩ := hc
  exact h.inv.pendNotEstab t ht g h.est

structure Step (x : Option CtxId) (w w' : World) : Prop where
  inv : Inv w'
  gidMono : w.nextGid ≤ w'.nextGid
  ctxMono : w.nextCtx ≤ w'.nextCtx
  estMono : ∀ e ∈ w.estab, e ∈ w'.estab
  pendStay : ∀ t ∈ w'.pending, t ∈ w.pending ∨ (w.nextGid ≤ t.gid ∧ w.nextCtx ≤ t.ctx)
  logOK : LogOK w → LogOK w'
  /-- a context other than `x` is unchanged unless it belongs to a goroutine that was waiting and has run -/
  frame : ∀ i, i < w.nextCtx → some i ≠ x → (i ∉ pendCtxs w ∨ i ∈ pendCtxs w') → w'.ctxs i = w.ctxs i

theorem Step.refl {x w} (h : Inv w) : Step x w w :=
  ⟨h, Nat.le_refl _, Nat.le_refl _, fun _ h => h, fun _ h => Or.inl h, fun h => h, fun _ _ _ _ => rfl⟩

theorem EvOK.mono {w w' : World} {ge} (hm : ∀ e ∈ w.estab, e ∈ w'.estab) (h : EvOK w ge) : EvOK w' ge := by
  unfold EvOK at *
  split <;> simp_all

theorem Step.ctx_not_pend {x w w'} (s : Step x w w') {i : Nat} (hi : i < w.nextCtx) (h : i ∉ pendCtxs w) :
    i ∉ pendCtxs w' := by
  intro hc
  simp only [pendCtxs, List.mem_map] at hc h
  obtain ⟨t, ht, hti⟩ := hc
  rcases s.pendStay t ht with h1 | h1
  · exact h ⟨t, h1, hti⟩
  · omega

theorem Step.ctx_pend_back {x w w'} (s : Step x w w') {i : Nat} (hi : i < w.nextCtx) (h : i ∈ pendCtxs w') :
    i ∈ pendCtxs w := by
  simp only [pendCtxs, List.mem_map] at h ⊢
  obtain ⟨t, ht, hti⟩ := h
  rcases s.pendStay t ht with h1 | h1
  · exact ⟨t, h1, hti⟩
  · omega

theorem Step.gid_not_pend {x w w'} (s : Step x w w') {g : Nat} (hg : g < w.nextGid) (h : g ∉ pendGids w) :
    g ∉ pendGids w' := by
  intro hc
  simp only [pendGids, List.mem_map] at hc h
  obtain ⟨t, ht, hti⟩ := hc
  rcases s.pendStay t ht with h1 | h1
  · exact h ⟨t, h1, hti⟩
  · omega

/-- composition; the second step's exception must be covered by the first one's or be a fresh context -/
theorem Step.trans {x y w w1 w2} (s1 : Step x w w1) (s2 : Step y w1 w2)
    (hxy : ∀ i, i < w.nextCtx → some i ≠ x → some i ≠ y) : Step x w w2 where
  inv := s2.inv
  gidMono := Nat.le_trans s1.gidMono s2.gidMono
  ctxMono := Nat.le_trans s1.ctxMono s2.ctxMono
  estMono := fun e h => s2.estMono e (s1.estMono e h)
  pendStay := by
    intro t ht
    rcases s2.pendStay t ht with h | h
    · exact s1.pendStay t h
    · exact Or.inr ⟨Nat.le_trans s1.gidMono h.1, Nat.le_trans s1.ctxMono h.2⟩
  logOK := fun h => s2.logOK (s1.logOK h)
  frame := by
    intro i hi hx hp
    have hi1 : i < w1.nextCtx := Nat.lt_of_lt_of_le hi s1.ctxMono
    rcases hp with hp | hp
    · have h1 := s1.ctx_not_pend hi hp
      rw [s2.frame i hi1 (hxy i hi hx) (Or.inl h1), s1.frame i hi hx (Or.inl hp)]
    · have h1 := s2.ctx_pend_back hi1 hp
      rw [s2.frame i hi1 (hxy i hi hx) (Or.inr hp), s1.frame i hi hx (Or.inr h1)]

theorem Step.weaken {x w w'} (s : Step none w w') : Step x w w' :=
  { s with frame := fun i hi _ hp => s.frame i hi (by simp) hp }

/-- an exception that is fresh, or that belongs to a goroutine that has run, can be dropped -/
theorem Step.drop {j w w'} (s : Step (some j) w w')
    (h : j < w.nextCtx → j ∈ pendCtxs w ∧ j ∉ pendCtxs w') : Step none w w' :=
  { s with
    frame := by
      intro i hi _ hp
      by_cases hij : i = j
      · subst hij
        have := h hi
        rcases hp with hp | hp
        · exact absurd this.1 hp
        · exact absurd hp this.2
      · exact s.frame i hi (by simpa using hij) hp }

theorem Pre.step {x g c w w'} (h : Pre g c w) (s : Step x w w') (ht : w'.tls = w.tls) : Pre g c w' where
  inv := s.inv
  cur := by have := h.cur; simp only [tlGet, ht] at this ⊢; exact this
  glt := Nat.lt_of_lt_of_le h.glt s.gidMono
  gnp := s.gid_not_pend h.glt h.gnp
  est := s.estMono _ h.est

/-! ## primitive steps -/

/-- a change of fields no invariant speaks about (log, sched, oof, defs, nextLoader) and of contexts covered by `x` -/
theorem Step.of_same {x : Option CtxId} {w w' : World} (h : Inv w) (h1 : w'.tls = w.tls) (h2 : w'.nextGid = w.nextGid)
    (h3 : w'.pending = w.pending) (h4 : w'.estab = w.estab) (h5 : w'.nextCtx = w.nextCtx)
    (hl : LogOK w → LogOK w') (hc : ∀ i, some i ≠ x → w'.ctxs i = w.ctxs i) : Step x w w' where
  inv := by
    refine ⟨?_, ?_, ?_, ?_, ?_, ?_, ?_, ?_, ?_, ?_⟩
    · rw [h1, h2]; exact h.tlsFresh
    · rw [h1, h3]; exact h.pendNone
    · rw [h2, h3]; exact h.pendLt
    · simp only [pendGids, h3]; exact h.pendNodup
    · rw [h1]; exact h.hasKey
    · rw [h4, h5]; exact h.estabLt
    · rw [h3, h5]; exact h.pendCtxLt
    · simp only [pendCtxs, h3]; exact h.pendCtxNodup
    · rw [h3, h4]; exact h.pendNotEstab
    · rw [h4]; exact h.estabUniq
  gidMono := by rw [h2]; exact Nat.le_refl _
  ctxMono := by rw [h5]; exact Nat.le_refl _
  estMono := by rw [h4]; exact fun _ h => h
  pendStay := by rw [h3]; exact fun _ h => Or.inl h
  logOK := hl
  frame := fun i _ hx _ => hc i hx

theorem logOK_same {w w' : World} (hl : w'.log = w.log) (he : w'.estab = w.estab) : LogOK w → LogOK w' := by
  intro h ge hge
  rw [hl] at hge
  exact (h ge hge).mono (by rw [he]; exact fun _ h => h)

theorem emit_step {g : Gid} {e : Ev} {w : World} (h : Inv w) (he : EvOK w (g, e)) : Step none w (emit g e w) := by
  refine Step.of_same h rfl rfl rfl rfl rfl ?_ (fun _ _ => rfl)
  intro hl ge hge
  simp only [emit, List.mem_append, List.mem_singleton] at hge
  rcases hge with hge | hge
  · exact (hl ge hge).mono (fun _ h => h)
  · subst hge; exact he.mono (fun _ h => h)

theorem ctxUpd_step {c : CtxId} {f : Ctx → Ctx} {w : World} (h : Inv w) : Step (some c) w (ctxUpd c f w) := by
  refine Step.of_same h rfl rfl rfl rfl rfl (logOK_same rfl rfl) ?_
  intro i hi
  have : i ≠ c := fun hc => hi (by rw [hc])
  simp [ctxUpd, this]

theorem setVar_step {c : CtxId} {k : String} {x : Nat} {w : World} (h : Inv w) : Step (some c) w (setVar c k x w) :=
  ctxUpd_step h

theorem setTag_step {c : CtxId} {x : Nat} {w : World} (h : Inv w) : Step (some c) w (setTag c x w) :=
  ctxUpd_step h

theorem setEntry_step {l : LoaderId} {n : String} {b : Bool} {w : World} (h : Inv w) : Step none w (setEntry l n b w) := by
  unfold setEntry
  split
  · exact Step.refl h
  · exact Step.of_same h rfl rfl rfl rfl rfl (logOK_same rfl rfl) (fun _ _ => rfl)

theorem newLoader_step {w : World} (h : Inv w) : Step none w (newLoader w).2 :=
  Step.of_same h rfl rfl rfl rfl rfl (logOK_same rfl rfl) (fun _ _ => rfl)

/-- a change of the goroutine-local table of a running goroutine `g` only -/
theorem Step.of_tls {g : Nat} {w w' : World} (h : Inv w) (hg : g < w.nextGid) (hgp : g ∉ pendGids w)
    (h1 : ∀ g', g' ≠ g → w'.tls g' = w.tls g') (h1g : ∀ t, w'.tls g = some t → ∃ c, aget ctxKey t = some c)
    (h2 : w'.nextGid = w.nextGid) (h3 : w'.pending = w.pending) (h4 : w'.estab = w.estab) (h5 : w'.nextCtx = w.nextCtx)
    (h6 : w'.log = w.log) (h7 : w'.ctxs = w.ctxs) : Step none w w' where
  inv := by
    have hne : ∀ t ∈ w.pending, t.gid ≠ g := by
      intro t ht hc
      exact hgp (by simp only [pendGids, List.mem_map]; exact ⟨t, ht, hc⟩)
    refine ⟨?_, ?_, ?_, ?_, ?_, ?_, ?_, ?_, ?_, ?_⟩
    · intro g' hg'
      rw [h2] at hg'
      rw [h1 g' (by omega)]; exact h.tlsFresh g' hg'
    · rw [h3]; intro t ht
      rw [h1 _ (hne t ht)]; exact h.pendNone t ht
    · rw [h2, h3]; exact h.pendLt
    · simp only [pendGids, h3]; exact h.pendNodup
    · intro g' t ht
      by_cases hgg : g' = g
      · subst hgg; exact h1g t ht
      · rw [h1 g' hgg] at ht; exact h.hasKey g' t ht
    · rw [h4, h5]; exact h.estabLt
    · rw [h3, h5]; exact h.pendCtxLt
    · simp only [pendCtxs, h3]; exact h.pendCtxNodup
    · rw [h3, h4]; exact h.pendNotEstab
    · rw [h4]; exact h.estabUniq
  gidMono := by rw [h2]; exact Nat.le_refl _
  ctxMono := by rw [h5]; exact Nat.le_refl _
  estMono := by rw [h4]; exact fun _ h => h
  pendStay := by rw [h3]; exact fun _ h => Or.inl h
  logOK := logOK_same h6 h4
  frame := fun i _ _ _ => by rw [h7]

theorem tlSet_step {g : Nat} {v : CtxId} {w w1 : World} (h : Inv w) (hg : g < w.nextGid) (hgp : g ∉ pendGids w)
    (hs : tlSet g ctxKey v w = some w1) : Step none w w1 := by
  unfold tlSet at hs
  split at hs
  · cases hs
  · cases hs
    refine Step.of_tls h hg hgp ?_ ?_ rfl rfl rfl rfl rfl rfl
    · intro g' hg'; simp [hg']
    · intro t ht
      simp at ht
      exact ⟨v, by rw [← ht, aget_aset_same]⟩

/-- `Init(); Set(key, v)` -/
def tlFresh (g : Gid) (v : CtxId) (w : World) : World :=
  { w with tls := fun g' => if g' = g then some [(ctxKey, v)] else w.tls g' }

theorem tlSet_tlInit (g : Gid) (v : CtxId) (w : World) : tlSet g ctxKey v (tlInit g w) = some (tlFresh g v w) := by
  simp only [tlSet, tlInit, tlFresh, if_true, aset]
  congr 2
  funext g'
  by_cases h : g' = g <;> simp [h]

theorem tlFresh_step {g : Nat} {v : CtxId} {w : World} (h : Inv w) (hg : g < w.nextGid) (hgp : g ∉ pendGids w) :
    Step none w (tlFresh g v w) := by
  refine Step.of_tls h hg hgp ?_ ?_ rfl rfl rfl rfl rfl rfl
  · intro g' hg'; simp [tlFresh, hg']
  · intro t ht
    simp [tlFresh] at ht
    exact ⟨v, by rw [← ht]; simp [aget]⟩

theorem tlCleanup_step {g : Nat} {w : World} (h : Inv w) (hg : g < w.nextGid) (hgp : g ∉ pendGids w) :
    Step none w (tlCleanup g w) := by
  refine Step.of_tls h hg hgp ?_ ?_ rfl rfl rfl rfl rfl rfl
  · intro g' hg'; simp [tlCleanup, hg']
  · intro t ht
    simp [tlCleanup] at ht

/-- ghost: a context that nobody has been given yet becomes `g`'s -/
theorem note_step {g : Gid} {c : Nat} {w : World} (h : Inv w) (hc : c < w.nextCtx) (hnp : c ∉ pendCtxs w)
    (hne : ∀ g', (g', c) ∉ w.estab) : Step none w (note g c w) where
  inv := by
    refine ⟨h.tlsFresh, h.pendNone, h.pendLt, h.pendNodup, h.hasKey, ?_, h.pendCtxLt, h.pendCtxNodup, ?_, ?_⟩
    · intro g' c' hm
      simp only [note, List.mem_append, List.mem_singleton, Prod.mk.injEq] at hm
      rcases hm with hm | hm
      · exact h.estabLt g' c' hm
      · rw [hm.2]; exact hc
    · intro t ht g' hm
      simp only [note, List.mem_append, List.mem_singleton, Prod.mk.injEq] at hm
      rcases hm with hm | hm
      · exact h.pendNotEstab t ht g' hm
      · apply hnp
        simp only [pendCtxs, List.mem_map]
        exact ⟨t, ht, hm.2⟩
    · intro g1 g2 c' h1 h2
      simp only [note, List.mem_append, List.mem_singleton, Prod.mk.injEq] at h1 h2
      rcases h1 with h1 | h1 <;> rcases h2 with h2 | h2
      · exact h.estabUniq g1 g2 c' h1 h2
      · rw [h2.2] at h1; exact absurd h1 (hne g1)
      · rw [h1.2] at h2; exact absurd h2 (hne g2)
      · rw [h1.1, h2.1]
  gidMono := Nat.le_refl _
  ctxMono := Nat.le_refl _
  estMono := fun e he => by simp [note, he]
  pendStay := fun _ h => Or.inl h
  logOK := fun hl ge hge => (hl ge hge).mono (fun e he => by simp [note, he])
  frame := fun _ _ _ _ => rfl

theorem newCtx_step {x : Ctx} {w : World} (h : Inv w) : Step none w (newCtx x w).2 where
  inv := by
    refine ⟨h.tlsFresh, h.pendNone, h.pendLt, h.pendNodup, h.hasKey, ?_, ?_, h.pendCtxNodup, h.pendNotEstab, h.estabUniq⟩
    · intro g c hm; exact Nat.lt_succ_of_lt (h.estabLt g c hm)
    · intro t ht; exact Nat.lt_succ_of_lt (h.pendCtxLt t ht)
  gidMono := Nat.le_refl _
  ctxMono := Nat.le_succ _
  estMono := fun _ h => h
  pendStay := fun _ h => Or.inl h
  logOK := logOK_same rfl rfl
  frame := by
    intro i hi _ _
    have : i ≠ w.nextCtx := Nat.ne_of_lt hi
    simp [newCtx, this]

theorem forkCtx_step {c : CtxId} {w : World} (h : Inv w) : Step none w (forkCtx c w).2 :=
  (newLoader_step h).trans (newCtx_step (newLoader_step h).inv) (fun _ _ h => h)

@[simp] theorem forkCtx_fst (c : CtxId) (w : World) : (forkCtx c w).1 = w.nextCtx := rfl
@[simp] theorem forkCtx_nextCtx (c : CtxId) (w : World) : (forkCtx c w).2.nextCtx = w.nextCtx + 1 := rfl
@[simp] theorem forkCtx_tls (c : CtxId) (w : World) : (forkCtx c w).2.tls = w.tls := rfl
@[simp] theorem forkCtx_pending (c : CtxId) (w : World) : (forkCtx c w).2.pending = w.pending := rfl
@[simp] theorem forkCtx_estab (c : CtxId) (w : World) : (forkCtx c w).2.estab = w.estab := rfl
@[simp] theorem forkCtx_nextGid (c : CtxId) (w : World) : (forkCtx c w).2.nextGid = w.nextGid := rfl

theorem spawn_now (c : CtxId) (p : Prog) (w : World) :
    spawn .now c p w = { (forkCtx c w).2 with
      nextGid := w.nextGid + 1, pending := w.pending ++ [{ gid := w.nextGid, ctx := w.nextCtx, prog := p }] } := rfl

/-- `px.Fork`: the forked context is fresh, the new goroutine waits -/
theorem spawn_step {c : CtxId} {p : Prog} {w : World} (h : Inv w) : Step none w (spawn .now c p w) := by
  rw [spawn_now]
  exact {
    inv := by
      refine ⟨?_, ?_, ?_, ?_, h.hasKey, ?_, ?_, ?_, ?_, h.estabUniq⟩
      · intro g hg; exact h.tlsFresh g (Nat.le_of_succ_le hg)
      · intro t ht
        simp only [List.mem_append, List.mem_singleton] at ht
        rcases ht with ht | ht
        · exact h.pendNone t ht
        · subst ht; exact h.tlsFresh _ (Nat.le_refl _)
      · intro t ht
        simp only [List.mem_append, List.mem_singleton] at ht
        rcases ht with ht | ht
        · exact Nat.lt_succ_of_lt (h.pendLt t ht)
        · subst ht; exact Nat.lt_succ_self _
      · simp only [pendGids, List.map_append, List.map_cons, List.map_nil]
        rw [List.nodup_append]
        refine ⟨h.pendNodup, by simp, ?_⟩
        intro a ha b hb
        simp only [List.mem_singleton] at hb
        simp only [List.mem_map] at ha
        obtain ⟨t, ht, hta⟩ := ha
        have := h.pendLt t ht
        rw [hb, ← hta]; exact Nat.ne_of_lt this
      · intro g c' hm; exact Nat.lt_succ_of_lt (h.estabLt g c' hm)
      · intro t ht
        simp only [List.mem_append, List.mem_singleton] at ht
        rcases ht with ht | ht
        · exact Nat.lt_succ_of_lt (h.pendCtxLt t ht)
        · subst ht; exact Nat.lt_succ_self _
      · simp only [pendCtxs, List.map_append, List.map_cons, List.map_nil]
        rw [List.nodup_append]
        refine ⟨h.pendCtxNodup, by simp, ?_⟩
        intro a ha b hb
        simp only [List.mem_singleton] at hb
        simp only [List.mem_map] at ha
        obtain ⟨t, ht, hta⟩ := ha
        have := h.pendCtxLt t ht
        rw [hb, ← hta]; exact Nat.ne_of_lt this
      · intro t ht g hm
        simp only [List.mem_append, List.mem_singleton] at ht
        rcases ht with ht | ht
        · exact h.pendNotEstab t ht g hm
        · subst ht
          exact Nat.lt_irrefl _ (h.estabLt g _ hm)
    gidMono := Nat.le_succ _
    ctxMono := Nat.le_succ _
    estMono := fun _ h => h
    pendStay := by
      intro t ht
      simp only [List.mem_append, List.mem_singleton] at ht
      rcases ht with ht | ht
      · exact Or.inl ht
      · subst ht; exact Or.inr ⟨Nat.le_refl _, Nat.le_refl _⟩
    logOK := logOK_same rfl rfl
    frame := by
      intro i hi _ _
      have : i ≠ w.nextCtx := Nat.ne_of_lt hi
      simp [forkCtx, newCtx, newLoader, this] }

end Pcore.Tls
