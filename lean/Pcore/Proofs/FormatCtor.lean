import Pcore.Proofs.FormatBin
/-! Reading a radix rendering back with pcore's own Integer constructor `new(Integer, text, radix)`:
    `newInteger` (signature pattern + integerFromString) inverts every rendering of the shape
    sign ++ blanks ++ prefix ++ zeros ++ digits, for decimal/octal/binary digits and for prefixed hexadecimal. -/
namespace Pcore.Format

theorem parseDigit_digitChar (u : Bool) : ∀ d, d < 16 → parseDigit (digitChar u d) = some d := by
  cases u <;> decide

theorem parseDigits_zeros (b : Nat) (hb : 0 < b) (k : Nat) (s : Str) : parseDigits b (zeros k ++ s) 0 = parseDigits b s 0 := by
  induction k with
  | zero => simp [zeros]
  | succ n ih =>
    have h0 : parseDigit '0' = some 0 := by decide
    simp only [zeros, List.replicate_succ, List.cons_append, parseDigits, h0, if_pos hb] at ih ⊢
    simpa using ih

theorem parseDigits_map (b : Nat) (hb16 : b ≤ 16) (u : Bool) : ∀ (ds : List Nat) (acc : Nat), (∀ d ∈ ds, d < b) →
    parseDigits b (ds.map (digitChar u)) acc = some (ds.foldl (fun a d => a * b + d) acc)
  | [], acc, _ => rfl
  | d :: ds, acc, h => by
    have hd : d < b := h d (by simp)
    simp only [List.map_cons, parseDigits, parseDigit_digitChar u d (by omega), if_pos hd, List.foldl_cons]
    exact parseDigits_map b hb16 u ds _ (fun x hx => h x (by simp [hx]))

theorem parseDigits_natStr (b : Nat) (hb : 2 ≤ b) (hb16 : b ≤ 16) (u : Bool) (n : Nat) :
    parseDigits b (natStr b u n) 0 = some n := by
  unfold natStr
  rw [parseDigits_map b hb16 u _ 0 (toDigits_lt b hb n)]
  exact congrArg some (ofDigits_toDigits b hb n)

/-- strconv.ParseInt on sign ++ zeros ++ digits -/
theorem goParseInt_digits (b : Nat) (hb : 2 ≤ b) (hb16 : b ≤ 16) (u : Bool) (k n : Nat) (sign : Str) (neg : Bool)
    (hs : SignOK neg sign) (hr : if neg then n ≤ 2^63 else n < 2^63) :
    goParseInt (sign ++ (zeros k ++ natStr b u n)) b = some (if neg then -(n : Int) else (n : Int)) := by
  have hD : parseDigits b (zeros k ++ natStr b u n) 0 = some n := by
    rw [parseDigits_zeros b (by omega), parseDigits_natStr b hb hb16]
  have hne : (zeros k ++ natStr b u n).isEmpty = false := by
    have := natStr_ne_nil b u n
    cases h : zeros k ++ natStr b u n with
    | nil => exact absurd (List.append_eq_nil_iff.mp h).2 this
    | cons _ _ => rfl
  -- the first character of the digits is neither sign
  have hhead : ∀ r, zeros k ++ natStr b u n ≠ '-' :: r ∧ zeros k ++ natStr b u n ≠ '+' :: r := by
    intro r
    have hDs : DigitStr b (zeros k ++ natStr b u n) := (digitStr_zeros b (by omega) k).append (digitStr_natStr b hb hb16 u n)
    constructor
    · intro h; exact digitStr_not_mem b hb16 _ hDs '-' (by simp) (by rw [h]; simp)
    · intro h; exact digitStr_not_mem b hb16 _ hDs '+' (by simp) (by rw [h]; simp)
  obtain ⟨D, hDdef⟩ : ∃ D, D = zeros k ++ natStr b u n := ⟨_, rfl⟩
  rw [← hDdef] at hD hne hhead ⊢
  unfold goParseInt
  rcases hs with ⟨rfl, rfl⟩ | ⟨rfl, rfl | rfl⟩
  · simp only [List.cons_append, List.nil_append, List.head?_cons, dropSign, hne, hD]
    simp only [if_true] at hr
    simp [hr]
  · simp only [List.nil_append]
    have h1 : D.head? ≠ some '-' := by
      intro h
      cases hd : D with
      | nil => rw [hd] at h; simp at h
      | cons c cs => rw [hd] at h; simp at h; exact (hhead cs).1 (by rw [hd, h])
    have h2 : dropSign D = D := by
      unfold dropSign
      split
      · rename_i r; exact absurd rfl (hhead r).2
      · rename_i r; exact absurd rfl (hhead r).1
      · rfl
    simp only [h2, hne, hD]
    simp only [Bool.false_eq_true, if_false] at hr
    simp [h1, hr]
  · simp only [List.cons_append, List.nil_append, List.head?_cons, dropSign, hne, hD]
    simp only [Bool.false_eq_true, if_false] at hr
    simp [hr]

/-! ### the characters of digit strings -/

theorem isDigit_of_digitVal (c : Char) (d : Nat) (h : digitVal c = some d) (hd : d < 10) : isDigit c = true := by
  unfold digitVal at h
  by_cases h1 : '0' ≤ c ∧ c ≤ '9'
  · simp [isDigit, h1.1, h1.2]
  · rw [if_neg h1] at h
    by_cases h2 : 'a' ≤ c ∧ c ≤ 'f'
    · rw [if_pos h2] at h; cases h
      have : 'a'.toNat ≤ c.toNat := h2.1
      simp at this; omega
    · rw [if_neg h2] at h
      by_cases h3 : 'A' ≤ c ∧ c ≤ 'F'
      · rw [if_pos h3] at h; cases h
        have : 'A'.toNat ≤ c.toNat := h3.1
        simp at this; omega
      · rw [if_neg h3] at h; cases h

theorem isHexDigit_of_digitVal (c : Char) (d : Nat) (h : digitVal c = some d) : isHexDigit c = true := by
  unfold digitVal at h
  unfold isHexDigit isDigit
  by_cases h1 : '0' ≤ c ∧ c ≤ '9'
  · simp [h1.1, h1.2]
  · rw [if_neg h1] at h
    by_cases h2 : 'a' ≤ c ∧ c ≤ 'f'
    · simp [h2.1, h2.2]
    · rw [if_neg h2] at h
      by_cases h3 : 'A' ≤ c ∧ c ≤ 'F'
      · simp [h3.1, h3.2]
      · rw [if_neg h3] at h; cases h

theorem isBinDigit_of_digitVal (c : Char) (d : Nat) (h : digitVal c = some d) (hd : d < 2) : isBinDigit c = true := by
  have hdig := isDigit_of_digitVal c d h (by omega)
  unfold digitVal at h
  simp only [isDigit, Bool.and_eq_true, decide_eq_true_eq] at hdig
  rw [if_pos hdig] at h
  cases h
  have h0 : '0'.toNat ≤ c.toNat := hdig.1
  have hc : c = Char.ofNat c.toNat := (Char.ofNat_toNat c).symm
  simp at h0
  have : c.toNat = 48 ∨ c.toNat = 49 := by omega
  unfold isBinDigit
  rcases this with h' | h' <;> rw [h'] at hc <;> rw [hc] <;> decide

theorem digitStr_all_isDigit (b : Nat) (hb : b ≤ 10) (D : Str) (h : DigitStr b D) : D.all isDigit = true := by
  rw [List.all_eq_true]; intro c hc
  obtain ⟨d, hd, hv⟩ := h c hc
  exact isDigit_of_digitVal c d hv (by omega)

theorem digitStr_all_isHex (b : Nat) (D : Str) (h : DigitStr b D) : D.all isHexDigit = true := by
  rw [List.all_eq_true]; intro c hc
  obtain ⟨d, _, hv⟩ := h c hc
  exact isHexDigit_of_digitVal c d hv

theorem digitStr_all_isBin (D : Str) (h : DigitStr 2 D) : D.all isBinDigit = true := by
  rw [List.all_eq_true]; intro c hc
  obtain ⟨d, hd, hv⟩ := h c hc
  exact isBinDigit_of_digitVal c d hv hd

/-- the prefix a rendering may carry, for the radix `b` the constructor is given -/
def PrefixOK (b : Nat) (pfx : Str) : Prop :=
  (pfx = [] ∧ b ≤ 10) ∨ (∃ c, pfx = ['0', c] ∧ ((b = 16 ∧ (c = 'x' ∨ c = 'X')) ∨ (b = 2 ∧ (c = 'b' ∨ c = 'B'))))

theorem isReSpace_space : isReSpace ' ' = true := by decide

/-- **`new(Integer, text, radix)` inverts the shape** sign ++ blanks ++ prefix ++ zeros ++ digits -/
theorem newInteger_shape (b : Nat) (u : Bool) (a k n : Nat) (sign pfx : Str) (neg : Bool)
    (hb2 : 2 ≤ b) (hb16 : b ≤ 16) (hs : SignOK neg sign) (hpfx : PrefixOK b pfx)
    (hr : if neg then n ≤ 2^63 else n < 2^63) :
    newInteger (sign ++ spaces a ++ pfx ++ zeros k ++ natStr b u n) b = .int (if neg then -(n : Int) else (n : Int)) := by
  have hDs : DigitStr b (zeros k ++ natStr b u n) := (digitStr_zeros b (by omega) k).append (digitStr_natStr b hb2 hb16 u n)
  have hparse := goParseInt_digits b hb2 hb16 u k n sign neg hs hr
  obtain ⟨D, hDdef⟩ : ∃ D, D = zeros k ++ natStr b u n := ⟨_, rfl⟩
  have hDne : D ≠ [] := by
    rw [hDdef]; intro h; exact natStr_ne_nil b u n (List.append_eq_nil_iff.mp h).2
  have htxt : sign ++ spaces a ++ pfx ++ zeros k ++ natStr b u n = sign ++ (spaces a ++ (pfx ++ D)) := by
    rw [hDdef]; simp [List.append_assoc]
  rw [htxt]
  rw [← hDdef] at hDs hparse
  have hnot : ∀ x, (x = ' ' ∨ x = '-' ∨ x = '+' ∨ x = 'x' ∨ x = 'X') → x ∉ D := fun x hx => digitStr_not_mem b hb16 D hDs x hx
  -- the first character of prefix ++ digits is a digit character
  obtain ⟨c0, R, hR, hc0⟩ : ∃ c0 R, pfx ++ D = c0 :: R ∧ c0 ≠ ' ' ∧ c0 ≠ '-' ∧ c0 ≠ '+' ∧ isReSpace c0 = false := by
    rcases hpfx with ⟨rfl, _⟩ | ⟨c, rfl, _⟩
    · cases hd : D with
      | nil => exact absurd hd hDne
      | cons c cs =>
        refine ⟨c, cs, rfl, ?_, ?_, ?_, ?_⟩
        · intro h; exact hnot ' ' (by simp) (by rw [hd, h]; simp)
        · intro h; exact hnot '-' (by simp) (by rw [hd, h]; simp)
        · intro h; exact hnot '+' (by simp) (by rw [hd, h]; simp)
        · obtain ⟨dv, _, hv⟩ := hDs c (by rw [hd]; simp)
          have := isHexDigit_of_digitVal c dv hv
          cases hsp : isReSpace c with
          | false => rfl
          | true =>
            simp only [isReSpace, Bool.or_eq_true, decide_eq_true_eq] at hsp
            rcases hsp with (((rfl | rfl) | rfl) | rfl) | rfl <;> revert this <;> decide
    · exact ⟨'0', c :: D, rfl, by decide, by decide, by decide, by decide⟩
  -- sign handling
  have hdrop : dropSign (sign ++ (spaces a ++ (pfx ++ D))) = spaces a ++ (pfx ++ D) ∧
      signOf (sign ++ (spaces a ++ (pfx ++ D))) = sign := by
    rcases hs with ⟨_, rfl⟩ | ⟨_, rfl | rfl⟩
    · simp [dropSign, signOf]
    · simp only [List.nil_append]
      cases a with
      | zero =>
        simp only [spaces, List.replicate_zero, List.nil_append, hR]
        unfold dropSign signOf
        constructor
        · split
          · rename_i r h; exact absurd (List.cons.inj h).1 hc0.2.2.1
          · rename_i r h; exact absurd (List.cons.inj h).1 hc0.2.1
          · rfl
        · split
          · rename_i r h; exact absurd (List.cons.inj h).1 hc0.2.2.1
          · rename_i r h; exact absurd (List.cons.inj h).1 hc0.2.1
          · rfl
      | succ m => simp [spaces, List.replicate_succ, dropSign, signOf]
    · simp [dropSign, signOf]
  have hsp : (spaces a ++ (pfx ++ D)).dropWhile isReSpace = pfx ++ D := by
    rw [List.dropWhile_append_of_pos (by intro c hc; simp [spaces] at hc; rw [hc.2]; exact isReSpace_space), hR]
    exact List.dropWhile_cons_of_neg (by simp [hc0.2.2.2])
  -- the pattern and the prefix
  have hbody : matchIntegerBody (pfx ++ D) = true ∧ dropRadixPrefix b (pfx ++ D) = D := by
    rcases hpfx with ⟨rfl, hb10⟩ | ⟨c, rfl, hc⟩
    · simp only [List.nil_append]
      have hall := digitStr_all_isDigit b hb10 D hDs
      cases hd : D with
      | nil => exact absurd hd hDne
      | cons x xs =>
        rw [hd] at hall
        have hxs : xs.all isDigit = true := by simp at hall ⊢; exact hall.2
        cases xs with
        | nil =>
          constructor
          · unfold matchIntegerBody; split <;> simp_all
          · unfold dropRadixPrefix; split <;> simp_all
        | cons y ys =>
          have hy : isDigit y = true := by simp at hxs; exact hxs.1
          have hys : ys.all isDigit = true := by simp at hxs ⊢; exact hxs.2
          have hyx : y ≠ 'x' ∧ y ≠ 'X' ∧ y ≠ 'b' ∧ y ≠ 'B' := by
            refine ⟨?_, ?_, ?_, ?_⟩ <;> (rintro rfl; revert hy; decide)
          by_cases hx0 : x = '0'
          · subst hx0
            constructor
            · simp [matchIntegerBody, hyx.1, hyx.2.1, hyx.2.2.1, hyx.2.2.2, hy, hys]
            · simp [dropRadixPrefix, hyx.1, hyx.2.1, hyx.2.2.1, hyx.2.2.2]
          · constructor
            · unfold matchIntegerBody
              split
              · simp at *
              · rename_i c' r' heq; exact absurd (List.cons.inj heq).1 hx0
              · exact hall
            · unfold dropRadixPrefix
              split
              · rename_i c' r' heq; exact absurd (List.cons.inj heq).1 hx0
              · rfl
    · simp only [List.cons_append, List.nil_append]
      have hne : D.isEmpty = false := by cases D with | nil => exact absurd rfl hDne | cons _ _ => rfl
      rcases hc with ⟨hb', hc'⟩ | ⟨hb', hc'⟩
      · subst hb'
        have hall := digitStr_all_isHex 16 D hDs
        constructor
        · rcases hc' with rfl | rfl <;> simp [matchIntegerBody, hne, hall]
        · rcases hc' with rfl | rfl <;> simp [dropRadixPrefix, hne]
      · subst hb'
        have hall := digitStr_all_isBin D hDs
        constructor
        · rcases hc' with rfl | rfl <;> simp [matchIntegerBody, hne, hall]
        · rcases hc' with rfl | rfl <;> simp [dropRadixPrefix, hne]
  unfold newInteger matchIntegerPattern integerFromString
  rw [hdrop.1, hdrop.2, hsp, hbody.1, hbody.2, hparse]
  simp

/-! ### the renderings without a width -/

theorem signStr_shape' (neg plus space : Bool) :
    ∃ j sign, signStr neg plus space = sign ++ spaces j ∧ SignOK neg sign := by
  cases neg
  · cases plus
    · cases space
      · exact ⟨0, [], by simp [signStr, spaces], Or.inr ⟨rfl, Or.inl rfl⟩⟩
      · exact ⟨1, [], by simp [signStr, spaces], Or.inr ⟨rfl, Or.inl rfl⟩⟩
    · exact ⟨0, ['+'], by simp [signStr, spaces], Or.inr ⟨rfl, Or.inr rfl⟩⟩
  · exact ⟨0, ['-'], by simp [signStr, spaces], Or.inl ⟨rfl, rfl⟩⟩

/-- fmt's digits with the `#` prefix: prefix ++ zeros ++ digits; with `#` a hexadecimal rendering always has its prefix -/
theorem goSharp_shape (g : GoSpec) (base : Nat) (upper : Bool) (neg : Bool) (ds0 : Str)
    (hv : verbBase g.verb = some (base, upper)) :
    ∃ k pfx, (let ds := zeros (goPrec g neg - ds0.length) ++ ds0
      if g.sharp then
        if base = 8 then (if ds.head? = some '0' then ds else '0' :: ds)
        else if base = 16 then '0' :: (if upper then 'X' else 'x') :: ds
        else ds
      else ds) = pfx ++ zeros k ++ ds0 ∧
      ((pfx = [] ∧ (base = 16 → g.sharp = false)) ∨ (pfx = ['0', g.verb] ∧ base = 16 ∧ (g.verb = 'x' ∨ g.verb = 'X'))) := by
  simp only
  cases hs : g.sharp
  · exact ⟨goPrec g neg - ds0.length, [], by simp, Or.inl ⟨rfl, fun _ => rfl⟩⟩
  · simp only [if_true]
    by_cases h8 : base = 8
    · rw [if_pos h8]
      by_cases hh : (zeros (goPrec g neg - ds0.length) ++ ds0).head? = some '0'
      · rw [if_pos hh]; exact ⟨goPrec g neg - ds0.length, [], by simp, Or.inl ⟨rfl, by omega⟩⟩
      · rw [if_neg hh]
        refine ⟨goPrec g neg - ds0.length + 1, [], ?_, Or.inl ⟨rfl, by omega⟩⟩
        simp [zeros, List.replicate_succ]
    · rw [if_neg h8]
      by_cases h16 : base = 16
      · rw [if_pos h16]
        unfold verbBase at hv
        by_cases hd : g.verb = 'd'
        · rw [if_pos hd] at hv; cases hv; omega
        · rw [if_neg hd] at hv
          by_cases hx : g.verb = 'x'
          · rw [if_pos hx] at hv; cases hv
            exact ⟨goPrec g neg - ds0.length, ['0', 'x'], by simp, Or.inr ⟨by rw [hx], rfl, Or.inl hx⟩⟩
          · rw [if_neg hx] at hv
            by_cases hX : g.verb = 'X'
            · rw [if_pos hX] at hv; cases hv
              exact ⟨goPrec g neg - ds0.length, ['0', 'X'], by simp, Or.inr ⟨by rw [hX], rfl, Or.inr hX⟩⟩
            · rw [if_neg hX] at hv
              by_cases ho : g.verb = 'o'
              · rw [if_pos ho] at hv; cases hv; omega
              · rw [if_neg ho] at hv; cases hv
      · rw [if_neg h16]; exact ⟨goPrec g neg - ds0.length, [], by simp, Or.inl ⟨rfl, fun h => absurd h h16⟩⟩

theorem goAbs_shape0 (g : GoSpec) (base : Nat) (upper : Bool) (neg : Bool) (ds0 : Str)
    (hv : verbBase g.verb = some (base, upper)) (hw : g.wid = none) :
    ∃ a k sign pfx, goAbs g base upper neg ds0 = sign ++ spaces a ++ pfx ++ zeros k ++ ds0 ∧ SignOK neg sign ∧
      ((pfx = [] ∧ (base = 16 → g.sharp = false)) ∨ (pfx = ['0', g.verb] ∧ base = 16 ∧ (g.verb = 'x' ∨ g.verb = 'X'))) := by
  obtain ⟨j, sign, hsg, hsok⟩ := signStr_shape' neg g.plus g.space
  obtain ⟨k, pfx, hds, hp⟩ := goSharp_shape g base upper neg ds0 hv
  unfold goAbs
  simp only at hds ⊢
  rw [hds, hsg, hw]
  exact ⟨j, k, sign, pfx, by simp [goPad, List.append_assoc], hsok, hp⟩

theorem int_range (i : Int) (h1 : -(2^63 : Int) ≤ i) (h2 : i < 2^63) :
    if decide (i < 0) = true then i.natAbs ≤ 2^63 else i.natAbs < 2^63 := by
  by_cases h : i < 0
  · simp [h]; omega
  · simp [h]; omega

/-- **radix renderings read back through the Integer constructor** (Go path): `d`, `o`, and `x X` with `#`, any flags
    and precision, no width -/
theorem goInteger_ctor_back (g : GoSpec) (i : Int) (base : Nat) (upper : Bool)
    (hv : verbBase g.verb = some (base, upper)) (hw : g.wid = none) (hne : ¬ (i = 0 ∧ g.prec = some 0))
    (h1 : -(2^63 : Int) ≤ i) (h2 : i < 2^63) (hx : base = 16 → g.sharp = true) :
    newInteger (goInteger g base upper i) base = .int i := by
  obtain ⟨_, hb2, hb16⟩ := verbBase_radix g.verb base upper hv
  unfold goInteger
  rw [if_neg (by intro h; exact hne ⟨by omega, h.1⟩)]
  obtain ⟨a, k, sign, pfx, heq, hsok, hp⟩ := goAbs_shape0 g base upper (decide (i < 0)) (natStr base upper i.natAbs) hv hw
  rw [heq]
  have hpfx : PrefixOK base pfx := by
    rcases hp with ⟨rfl, hs⟩ | ⟨rfl, hb, hvx⟩
    · left; refine ⟨rfl, ?_⟩
      by_cases h16 : base = 16
      · have := hs h16; rw [hx h16] at this; cases this
      · unfold verbBase at hv
        repeat (split at hv <;> try (cases hv; omega))
        cases hv
    · right; exact ⟨g.verb, rfl, Or.inl ⟨hb, hvx⟩⟩
  rw [newInteger_shape base upper a k i.natAbs sign pfx (decide (i < 0)) hb2 hb16 hsok hpfx (int_range i h1 h2), int_of_natAbs]

theorem pbbSign_shape' (f : Fmt) (i : Int) (hp : f.letter ≠ 'p') (hplus : PlusOK f) :
    ∃ j sign, pbbSign f i = sign ++ spaces j ∧ SignOK (decide (i < 0)) sign := by
  rw [pbbSign_eq f i hp hplus]; exact signStr_shape' _ _ _

/-- … hand-written `b B`, any flags and precision, no width -/
theorem intPbB_ctor_back (f : Fmt) (i : Int) (hb : f.letter = 'b' ∨ f.letter = 'B') (hplus : PlusOK f)
    (hw : f.width = none) (h1 : -(2^63 : Int) ≤ i) (h2 : i < 2^63) : newInteger (intPbB f i) 2 = .int i := by
  have hp : f.letter ≠ 'p' := by rcases hb with h | h <;> rw [h] <;> decide
  obtain ⟨j, sign, hsg, hsok⟩ := pbbSign_shape' f i hp hplus
  have hds : pbbDigits f i = natStr 2 false i.natAbs := by
    unfold pbbDigits
    rcases hb with h | h <;> simp [h]
  have hpfx : PrefixOK 2 (pbbPrefix f i) := by
    unfold pbbPrefix
    by_cases ha : (f.alt && decide (i ≠ 0)) = true
    · rw [if_pos ha]
      rcases hb with h | h
      · right; exact ⟨'b', by simp [h], Or.inr ⟨rfl, Or.inl rfl⟩⟩
      · right; exact ⟨'B', by simp [h], Or.inr ⟨rfl, Or.inr rfl⟩⟩
    · rw [if_neg ha]; left; exact ⟨rfl, by omega⟩
  have heq : intPbB f i = sign ++ spaces j ++ pbbPrefix f i ++ zeros (pbbZeroPad f i) ++ natStr 2 false i.natAbs := by
    unfold intPbB
    simp only [hds, hsg, hw, if_neg hp, Option.getD_none, Nat.zero_sub, spaces, List.replicate_zero]
    cases f.left <;> simp [List.append_assoc]
  rw [heq, newInteger_shape 2 false j _ i.natAbs sign _ (decide (i < 0)) (by omega) (by omega) hsok hpfx (int_range i h1 h2),
    int_of_natAbs]

end Pcore.Format
