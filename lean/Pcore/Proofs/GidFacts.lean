import Pcore.Model.GidFacts
import Pcore.Proofs.Gid

/-!
# `threadlocal.getg` over the regenerated constants: the buffer must hold the prefix and 19 digits (property C14)

For EVERY table `f` whose digit-loop constants are the standard ones (`f.std`), with `R = f.room = min stackLen bufLen`:

* `getg64F_exact`        `f.roomy` (`10 + 19 ≤ R`) ⇒ for every id `0 < n < 2^63` and every stopping tail, the `int64` code over the
                         table's constants returns exactly `n`
* `getg64F_exact_below`  whatever `R`: every id `0 < n < 10^(R-10)`, `n < 2^63`, is returned exactly (ids with at most `R-10` digits)
* `getg64F_firstCut`     `¬ f.roomy` ⇒ the id `f.firstCut = 10^(R-10)` is below 2^63 and is NOT returned (it is cut to its first
                         `R-10` digits, or — `R ≤ 10` — the loop sees nothing and `getg` panics); with `getg64F_exact_below` it is the
                         smallest such id
* `getg64F_exact_iff`    hence: exact for all ids below 2^63 **iff** `f.roomy`
* `getg64F_injective`    `f.roomy` ⇒ distinct ids below 2^63 get distinct keys
* `getg64F_collide`      `¬ f.roomy`, `R > 10` ⇒ the ids `firstCut` and `firstCut + 1` get the SAME key (two live goroutines share one
                         goroutine-local table)
* `getg64F_now`, `stackBufF_now`   for the hand-written table of /repo HEAD the parametrised model is `Model/Gid.lean`'s
* driver: `firstInexact_none` (the `hi` guard passes on a standard roomy table), `exactAt_iff`.
-/

namespace Pcore.GidFacts
open Pcore.Gid

/-! ## a standard table -/

structure Std (f : Facts) : Prop where
  prefixLen : f.prefixLen = 10
  loopFrom : f.loopFrom = 10
  acc0 : f.acc0 = 0
  digitLo : f.digitLo = 0x30
  digitHi : f.digitHi = 0x39
  base : f.base = 10
  digitSub : f.digitSub = 0x30
  panicOn : f.panicOn = 0

theorem std_of {f : Facts} (h : f.std = true) : Std f := by
  simp only [Facts.std, Bool.and_eq_true, beq_iff_eq] at h
  obtain ⟨⟨⟨⟨⟨⟨⟨⟨h1, h2⟩, h3⟩, h4⟩, h5⟩, h6⟩, h7⟩, h8⟩, _⟩ := h
  exact ⟨h1, h2, h3, h4, h5, h6, h7, h8⟩

theorem notDigitF_std {f : Facts} (s : Std f) (d : UInt8) : notDigitF f d = notDigit d := by
  simp only [notDigitF, s.digitLo, s.digitHi, notDigit, UInt8.lt_iff_toNat_lt]
  rfl

theorem digitVal_std (d : UInt8) : (d.toNat + 256 - 0x30 % 256) % 256 = (d - 0x30).toNat := by
  rw [UInt8.toNat_sub]
  have : (0x30 : UInt8).toNat = 48 := rfl
  rw [this]
  omega

theorem scanF_std {f : Facts} (s : Std f) : ∀ (l : List UInt8) (n : Nat), scanF f n l = scan n l := by
  intro l
  induction l with
  | nil => intro n; rfl
  | cons d ds ih =>
    intro n
    simp only [scanF, scan, notDigitF_std s, s.base, s.digitSub, digitVal_std, ih]

theorem scan64F_std {f : Facts} (s : Std f) : ∀ (l : List UInt8) (n : Nat), scan64F f n l = scan64 n l := by
  intro l
  induction l with
  | nil => intro n; rfl
  | cons d ds ih =>
    intro n
    simp only [scan64F, scan64, notDigitF_std s, s.base, s.digitSub, digitVal_std, ih]

/-- on a standard table the `int64` code is the ℕ loop modulo 2^64 over the table's window -/
theorem getg64F_std {f : Facts} (s : Std f) (buf : List UInt8) :
    getg64F f buf =
      if scan 0 (windowF f buf) % 2 ^ 64 = 0 then none else some (toInt64 (scan 0 (windowF f buf) % 2 ^ 64)) := by
  unfold getg64F
  have := scan64_eq_scan_mod (windowF f buf) 0
  simp only [Nat.zero_mod] at this
  simp only [s.acc0, s.panicOn, Nat.zero_mod, scan64F_std s, this]

/-! ## the window of a dump -/

/-- the bytes the loop sees: the printed id and the tail, cut to `room - 10` bytes -/
theorem windowF_stackBufF {f : Facts} (s : Std f) (n : Nat) (rest : List UInt8) :
    windowF f (stackBufF f n rest) = (digits n ++ rest).take (f.room - 10) := by
  unfold windowF stackBufF stackHeader
  rw [s.loopFrom, List.take_take, Nat.min_self, List.append_assoc, List.drop_take, List.drop_left' goPrefix_length]

/-- an id that fits: the whole id, then a stopping tail -/
theorem scan_windowF_fits {f : Facts} (s : Std f) {n : Nat} (hn : (digits n).length ≤ f.room - 10) {rest : List UInt8}
    (hr : stops rest = true) : scan 0 (windowF f (stackBufF f n rest)) = n := by
  rw [windowF_stackBufF s, List.take_append, List.take_of_length_le hn, scan_digits, scan_stops (stops_take hr _)]

theorem pow63_lt : 2 ^ 63 < 10 ^ 19 := by decide

/-- ids below 2^63 have at most 19 digits -/
theorem digits_length_le_19 {n : Nat} (hn : n < 2 ^ 63) : (digits n).length ≤ 19 :=
  digits_length_le 18 n (Nat.lt_trans hn pow63_lt)

theorem getg64F_of_scan {f : Facts} (s : Std f) {buf : List UInt8} {n : Nat} (h0 : 0 < n) (hn : n < 2 ^ 63)
    (h : scan 0 (windowF f buf) = n) : getg64F f buf = some (n : Int) := by
  rw [getg64F_std s, h]
  have h1 : n % 2 ^ 64 = n := Nat.mod_eq_of_lt (by omega)
  rw [h1, if_neg (by omega)]
  simp only [toInt64, if_pos hn]

/-! ## exact when the buffer is large enough -/

/-- **the obligation's content**: a standard table whose buffer holds the prefix and 19 digits returns every id below 2^63 -/
theorem getg64F_exact {f : Facts} (hs : f.std = true) (hr : f.roomy = true) {n : Nat} (h0 : 0 < n) (hn : n < 2 ^ 63)
    {rest : List UInt8} (hst : stops rest = true) : getg64F f (stackBufF f n rest) = some (n : Int) := by
  have s := std_of hs
  have hroom : 10 + 19 ≤ f.room := by simpa [Facts.roomy, s.prefixLen] using hr
  exact getg64F_of_scan s h0 hn (scan_windowF_fits s (by have := digits_length_le_19 hn; omega) hst)

/-- whatever the buffer: ids with at most `room - 10` digits are returned -/
theorem getg64F_exact_below {f : Facts} (hs : f.std = true) {n : Nat} (h0 : 0 < n) (hn : n < 2 ^ 63) (hc : n < f.firstCut)
    {rest : List UInt8} (hst : stops rest = true) : getg64F f (stackBufF f n rest) = some (n : Int) := by
  have s := std_of hs
  apply getg64F_of_scan s h0 hn
  apply scan_windowF_fits s _ hst
  simp only [Facts.firstCut, s.prefixLen] at hc
  cases hk : f.room - 10 with
  | zero => rw [hk] at hc; simp at hc; omega
  | succ k => rw [hk] at hc; exact digits_length_le k n hc

theorem getg64F_injective {f : Facts} (hs : f.std = true) (hr : f.roomy = true) {n m : Nat} (h0 : 0 < n) (hn : n < 2 ^ 63)
    (h0' : 0 < m) (hm : m < 2 ^ 63) {rest rest' : List UInt8} (hst : stops rest = true) (hst' : stops rest' = true)
    (h : getg64F f (stackBufF f n rest) = getg64F f (stackBufF f m rest')) : n = m := by
  rw [getg64F_exact hs hr h0 hn hst, getg64F_exact hs hr h0' hm hst'] at h
  exact Int.ofNat.inj (Option.some.inj h)

/-! ## the smallest id that is cut when the buffer is too small -/

theorem digits_pow_succ (k : Nat) : digits (10 ^ (k + 1)) = digits (10 ^ k) ++ [digitByte 0] := by
  rw [digits_eq (10 ^ (k + 1))]
  have h1 : ¬ 10 ^ (k + 1) < 10 := by
    have : 0 < 10 ^ k := Nat.pow_pos (by decide)
    rw [Nat.pow_succ]; omega
  have h2 : 10 ^ (k + 1) / 10 = 10 ^ k := by rw [Nat.pow_succ]; omega
  have h3 : 10 ^ (k + 1) % 10 = 0 := by rw [Nat.pow_succ]; omega
  rw [if_neg h1, h2, h3]

theorem digits_pow_length (k : Nat) : (digits (10 ^ k)).length = k + 1 := by
  induction k with
  | zero => decide
  | succ k ih => rw [digits_pow_succ, List.length_append, ih]; rfl

/-- the loop over the first `k` digits of `10^k` sees `10^(k-1)` (nothing for `k = 0`) -/
theorem scan_take_pow (k : Nat) (rest : List UInt8) :
    scan 0 ((digits (10 ^ k) ++ rest).take k) = if k = 0 then 0 else 10 ^ (k - 1) := by
  cases k with
  | zero => rfl
  | succ k =>
    rw [digits_pow_succ, List.append_assoc, List.take_append, digits_pow_length]
    have : (digits (10 ^ k)).take (k + 1) = digits (10 ^ k) :=
      List.take_of_length_le (by rw [digits_pow_length]; exact Nat.le_refl _)
    have sd := scan_digits (10 ^ k) []
    rw [List.append_nil] at sd
    rw [this, Nat.sub_self, List.take_zero, List.append_nil, sd]
    simp [scan]

theorem pow_lt_pow63 {k : Nat} (h : k ≤ 18) : 10 ^ k < 2 ^ 63 :=
  Nat.lt_of_le_of_lt (Nat.pow_le_pow_right (by decide) h) (by decide)

/-- **a buffer that is too small cuts the id `10^(room-10)`** (which is below 2^63): the code returns its first `room - 10`
digits, or panics when the loop sees no digit at all -/
theorem getg64F_firstCut {f : Facts} (hs : f.std = true) (hr : f.roomy = false) (rest : List UInt8) :
    0 < f.firstCut ∧ f.firstCut < 2 ^ 63 ∧ getg64F f (stackBufF f f.firstCut rest) ≠ some (f.firstCut : Int) ∧
    getg64F f (stackBufF f f.firstCut rest) = if f.room ≤ 10 then none else some ((10 ^ (f.room - 11) : Nat) : Int) := by
  have s := std_of hs
  have hroom : f.room < 29 := by
    have : ¬ (f.prefixLen + 19 ≤ f.room) := by simpa [Facts.roomy] using hr
    rw [s.prefixLen] at this; omega
  have hc : f.firstCut = 10 ^ (f.room - 10) := by simp [Facts.firstCut, s.prefixLen]
  have hlt : f.firstCut < 2 ^ 63 := by rw [hc]; exact pow_lt_pow63 (by omega)
  have hpos : 0 < f.firstCut := by rw [hc]; exact Nat.pow_pos (by decide)
  have hscan : scan 0 (windowF f (stackBufF f f.firstCut rest)) = if f.room - 10 = 0 then 0 else 10 ^ (f.room - 10 - 1) := by
    rw [windowF_stackBufF s, hc, scan_take_pow]
  have hval : getg64F f (stackBufF f f.firstCut rest) = if f.room ≤ 10 then none else some ((10 ^ (f.room - 11) : Nat) : Int) := by
    rw [getg64F_std s, hscan]
    by_cases h10 : f.room ≤ 10
    · have : f.room - 10 = 0 := by omega
      simp [this, h10]
    · have hne : ¬ f.room - 10 = 0 := by omega
      have hk : f.room - 10 - 1 = f.room - 11 := by omega
      have hsm : 10 ^ (f.room - 11) < 2 ^ 63 := pow_lt_pow63 (by omega)
      have hp : 0 < 10 ^ (f.room - 11) := Nat.pow_pos (by decide)
      have hmod : 10 ^ (f.room - 11) % 2 ^ 64 = 10 ^ (f.room - 11) := Nat.mod_eq_of_lt (by omega)
      rw [if_neg hne, if_neg h10, hk, hmod, if_neg (by omega)]
      simp only [toInt64, if_pos hsm]
  refine ⟨hpos, hlt, ?_, hval⟩
  rw [hval]
  by_cases h10 : f.room ≤ 10
  · simp [h10]
  · rw [if_neg h10, hc]
    intro h
    have h := Int.ofNat.inj (Option.some.inj h)
    have : f.room - 10 = (f.room - 11) + 1 := by omega
    rw [this, Nat.pow_succ] at h
    have hp : 0 < 10 ^ (f.room - 11) := Nat.pow_pos (by decide)
    omega

/-- **sharpness**: on a standard table the parser is exact for all ids below 2^63 iff the buffer holds prefix + 19 digits -/
theorem getg64F_exact_iff {f : Facts} (hs : f.std = true) :
    (∀ (n : Nat) (rest : List UInt8), 0 < n → n < 2 ^ 63 → stops rest = true →
      getg64F f (stackBufF f n rest) = some (n : Int)) ↔ f.roomy = true := by
  constructor
  · intro h
    cases hr : f.roomy with
    | true => rfl
    | false =>
      obtain ⟨h0, hlt, hne, _⟩ := getg64F_firstCut hs hr []
      exact absurd (h f.firstCut [] h0 hlt stops_nil) hne
  · intro hr n rest h0 hn hst
    exact getg64F_exact hs hr h0 hn hst

/-- … and then two goroutines that are alive together share a key: `firstCut` and `firstCut + 1` (consecutive ids) -/
theorem getg64F_collide {f : Facts} (hs : f.std = true) (hr : f.roomy = false) (h10 : 10 < f.room) (rest rest' : List UInt8) :
    f.firstCut + 1 < 2 ^ 63 ∧
    getg64F f (stackBufF f f.firstCut rest) = getg64F f (stackBufF f (f.firstCut + 1) rest') := by
  have s := std_of hs
  have hroom : f.room < 29 := by
    have : ¬ (f.prefixLen + 19 ≤ f.room) := by simpa [Facts.roomy] using hr
    rw [s.prefixLen] at this; omega
  refine ⟨?_, ?_⟩
  · have : f.firstCut ≤ 10 ^ 18 := by
      simp only [Facts.firstCut, s.prefixLen]
      exact Nat.pow_le_pow_right (by decide) (by omega)
    have : (10 : Nat) ^ 18 + 1 < 2 ^ 63 := by decide
    omega
  have hc : f.firstCut = 10 ^ (f.room - 10) := by simp [Facts.firstCut, s.prefixLen]
  have hk : f.room - 10 = (f.room - 11) + 1 := by omega
  -- both dumps show the same `room - 10` leading digits: those of `firstCut / 10`
  have key : ∀ (n : Nat) (r : List UInt8), n / 10 = 10 ^ (f.room - 11) → ¬ n < 10 →
      windowF f (stackBufF f n r) = digits (10 ^ (f.room - 11)) := by
    intro n r hdiv hge
    rw [windowF_stackBufF s, digits_eq n, if_neg hge, hdiv, List.append_assoc, List.take_append, digits_pow_length, hk,
      Nat.sub_self, List.take_zero, List.append_nil]
    exact List.take_of_length_le (by rw [digits_pow_length]; exact Nat.le_refl _)
  have hp : 0 < 10 ^ (f.room - 11) := Nat.pow_pos (by decide)
  have e1 : f.firstCut / 10 = 10 ^ (f.room - 11) := by rw [hc, hk, Nat.pow_succ]; omega
  have e2 : (f.firstCut + 1) / 10 = 10 ^ (f.room - 11) := by rw [hc, hk, Nat.pow_succ]; omega
  have g1 : ¬ f.firstCut < 10 := by rw [hc, hk, Nat.pow_succ]; omega
  have g2 : ¬ f.firstCut + 1 < 10 := by omega
  rw [getg64F_std s, getg64F_std s, key _ rest e1 g1, key _ rest' e2 g2]

/-! ## the hand-written table of /repo HEAD: the parametrised model is `Model/Gid.lean`'s -/

theorem std_now : factsNow.std = true := by decide
theorem roomy_now : factsNow.roomy = true := by decide

theorem stackBufF_now (n : Nat) (rest : List UInt8) : stackBufF factsNow n rest = stackBuf n rest := rfl

theorem windowF_now (buf : List UInt8) : windowF factsNow buf = window buf := rfl

theorem getg64F_now (buf : List UInt8) : getg64F factsNow buf = getg64 buf := by
  rw [getg64F_std (std_of std_now), getg64_eq, windowF_now]

/-! ## the driver's guard -/

theorem exactAt_iff (f : Facts) (n : Nat) : exactAt f n = true ↔ getg64F f (stackBufF f n restRunning) = some (n : Int) := by
  simp [exactAt, keyOf]

theorem stops_restRunning : stops restRunning = true := by decide

/-- on a standard roomy table the guard of the `hi` / `gidlive` ops finds nothing in any range of ids below 2^63 -/
theorem firstInexact_none {f : Facts} (hs : f.std = true) (hr : f.roomy = true) (start count : Nat) (h0 : 0 < start)
    (hlt : start + count ≤ 2 ^ 63) : firstInexact f start count = none := by
  unfold firstInexact
  rw [List.findSome?_eq_none_iff]
  intro i hi
  have hi : i < count := List.mem_range.1 hi
  have : exactAt f (start + i) = true :=
    (exactAt_iff f _).2 (getg64F_exact hs hr (by omega) (by omega) stops_restRunning)
  simp [this]

/-- … and when it finds an id, that id's key really is not the id -/
theorem firstInexact_some {f : Facts} {start count n : Nat} (h : firstInexact f start count = some n) :
    start ≤ n ∧ n < start + count ∧ getg64F f (stackBufF f n restRunning) ≠ some (n : Int) := by
  unfold firstInexact at h
  obtain ⟨i, hi, he⟩ := List.exists_of_findSome?_eq_some h
  have hi : i < count := List.mem_range.1 hi
  by_cases hx : exactAt f (start + i) = true
  · simp [hx] at he
  · simp only [hx] at he
    have he : start + i = n := Option.some.inj he
    subst he
    exact ⟨by omega, by omega, fun hh => hx ((exactAt_iff f _).2 hh)⟩

/-! ## non-vacuity and the seeded change, evaluated by the kernel -/

/-- the table of the seeded change C14-s8 (`var buf [16]byte`, `runtime.Stack(buf[:], false)`) -/
def factsBuf16 : Facts := { factsNow with bufLen := 16, stackLen := 16 }

example : factsBuf16.std = true ∧ factsBuf16.roomy = false ∧ factsBuf16.firstCut = 1000000 := by decide
/-- ids of up to 6 digits are fine, the first 7-digit id is cut to 6 digits, ten consecutive ids share a key -/
example : keyOf factsBuf16 999999 = some 999999 ∧ keyOf factsBuf16 1000000 = some 100000 ∧
    keyOf factsBuf16 1000009 = some 100000 ∧ keyOf factsBuf16 1000010 = some 100001 := by decide
example : firstInexact factsBuf16 999990 64 = some 1000000 := by decide
/-- 16 goroutines started back to back from id 1 000 000 on (the starter has id 1 000 000): 2 distinct tables for 17
goroutines, only 2 forks still find their own context -/
example : liveSim factsBuf16 1000000 16 = (2, 2) := by decide
/-- /repo HEAD: all 16 find their own, 17 tables -/
example : liveSim factsNow 1000000 16 = (16, 17) := by decide
example : firstInexact factsNow 1000000 64 = none := by decide
example : keyOf factsNow (2 ^ 63 - 1) = some (2 ^ 63 - 1) := by decide
/-- the smallest roomy buffer (29 bytes) and the largest that is not -/
example : keyOf { factsNow with bufLen := 29, stackLen := 29 } (2 ^ 63 - 1) = some (2 ^ 63 - 1) := by decide
example : keyOf { factsNow with bufLen := 28, stackLen := 28 } (10 ^ 18) = some (10 ^ 17) := by decide
/-- a buffer no longer than the prefix: every `getg()` panics -/
example : keyOf { factsNow with bufLen := 10, stackLen := 10 } 1 = none := by decide
/-- a non-standard table is not covered by the theorems: a loop that starts one byte early still works here … -/
example : ({ factsNow with loopFrom := 9 } : Facts).std = false := by decide

end Pcore.GidFacts
