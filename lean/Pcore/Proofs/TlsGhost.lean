import Pcore.Proofs.TlsReach
import Pcore.Proofs.TlsRefine
/-!
# Loader-entry isolation under ARBITRARY interleavings (small-step model, property C14)

"Definitions made in a forked context are invisible to its parent and siblings": in the small-step semantics a goroutine
defines names in the defining loader (head of the chain) of the context its body was handed.  To say WHO may see such a
definition the execution is decorated with two ghost maps that the semantics never reads (`Ghost`, threaded by `ghStep` beside
`Cfg.step`, like `World.estab`):

* `own l` — the goroutine the loader `l` was allocated for: the stepping goroutine (`DoWithContext`'s fork, `DoWithParent`'s
  fork, the fresh loader of a `DoWithLoader` scope), or — for the loader `pxContext.Fork` makes inside `px.Fork`/`px.Go` — the
  goroutine that is being started;
* `par b` — the goroutine that started `b`.

`GInv` (invariant of every reachable decorated configuration, `ginv_step`):
every loader on the chain of a context of goroutine `b` (installed for `b`, or made for `b` which waits) is the shared
environment loader `0` or is owned by an ancestor-or-self of `b` (`Anc par (own l) b`); the defining loader of every body context
of `g` is owned by `g` and is not `0`; likewise for the chains saved by `DoWithLoader` frames.

Consequences (`Props/C14.lean`): a micro-step of `g` writes only loaders owned by `g` (`defs_owned`), hence the `Load` answers of a
context of `b` are unchanged whenever `g` is not an ancestor-or-self of `b` (`loads_isolated`) — in particular for every `b` older
than `g` (`b < g`: its parent, its older siblings, their ancestors).
-/
namespace Pcore.Tls

/-! ## ghost decoration -/

structure Ghost where
  own : LoaderId → Gid := fun _ => 0
  par : Gid → Gid := fun _ => 0

/-- `a` is `b` or started `b` or started the goroutine that started `b` … -/
inductive Anc (par : Gid → Gid) : Gid → Gid → Prop
  | refl (a : Gid) : Anc par a a
  | up {a b : Gid} : Anc par a (par b) → Anc par a b

theorem Anc.le {par : Gid → Gid} (hp : ∀ x, par x ≤ x) {a b : Gid} (h : Anc par a b) : a ≤ b := by
  induction h with
  | refl => exact Nat.le_refl _
  | up _ ih => exact Nat.le_trans ih (hp _)

/-- a new goroutine `n` (never mentioned as a parent so far) does not change who descends from whom among the others -/
theorem Anc.update {par : Gid → Gid} {n v : Gid} (hn : ∀ x, par x ≠ n) {a b : Gid} (h : Anc par a b) (hb : b ≠ n) :
    Anc (fun x => if x = n then v else par x) a b := by
  induction h with
  | refl => exact Anc.refl _
  | @up b _ ih =>
    refine Anc.up ?_
    simp only [hb, if_false]
    exact ih (hn b)

/-- the loader `l` may occur on a chain of goroutine `b` -/
def OkFor (gh : Ghost) (b : Gid) (l : LoaderId) : Prop := l = 0 ∨ Anc gh.par (gh.own l) b

/-- the decoration after goroutine number `i` took a micro-step -/
def ghStep (c : Cfg) (i : Nat) (gh : Ghost) : Ghost :=
  match c.gs[i]? with
  | none => gh
  | some g =>
    { own := fun l => if l = c.w.nextLoader then
          (match (stepG g c.w).spawned with | some n => n.gid | none => g.gid) else gh.own l
      par := fun b => if b = c.w.nextGid then g.gid else gh.par b }

/-- reachable configurations with their decoration -/
inductive ReachG (p : Prog) : Cfg → Ghost → Prop
  | init : ReachG p (Cfg.init p) {}
  | step {c : Cfg} {gh : Ghost} (i : Nat) : ReachG p c gh → ReachG p (c.step i) (ghStep c i gh)

theorem ReachG.reachable {p : Prog} {c : Cfg} {gh : Ghost} (h : ReachG p c gh) : Reachable p c := by
  induction h with
  | init => exact Reachable.init
  | step i _ ih => exact Reachable.step i ih

theorem reachable_ghost {p : Prog} {c : Cfg} (h : Reachable p c) : ∃ gh, ReachG p c gh := by
  induction h with
  | init => exact ⟨{}, ReachG.init⟩
  | step i _ ih => obtain ⟨gh, hg⟩ := ih; exact ⟨_, ReachG.step i hg⟩

/-! ## what a micro-step does to the loader chains -/

/-- the existing context whose chain this step replaces, with the new chain (`DoWithLoader` entry / its deferred function) -/
def chainWrite (g : GS) (w : World) : Option (CtxId × List LoaderId) :=
  if g.started then
    match g.k with
    | .restoreLoader c l :: _ => some (c, l)
    | .run (.doloader _) c :: _ => if g.panicking then none else some (c, w.nextLoader :: (w.ctxs c).loader)
    | _ => none
  else none

/-- the context this step forks (`pxContext.Fork`): the new context `w.nextCtx` gets the fresh loader `w.nextLoader` on top -/
def forkSrc (g : GS) (w : World) : Option CtxId :=
  if g.started && !g.panicking then
    match g.k with
    | .run (.doctx _ _) c :: _ => some c
    | .run (.fork _) c :: _ => some c
    | .run (.go _) _ :: _ => tlGet g.gid ctxKey w
    | .parent _ _ _ root :: _ => some root
    | _ => none
  else none

/-- `pcore.Do` / `pcore.Try`: a new root context on the environment loader -/
def makesRoot (g : GS) : Bool :=
  g.started && !g.panicking &&
    match g.k with
    | .run (.dodo _ _) _ :: _ => true
    | .run (.dotry _ _) _ :: _ => true
    | _ => false

def chainAfter (g : GS) (w : World) (i : CtxId) : List LoaderId :=
  match chainWrite g w with
  | some (c, l) => if i = c then l else (w.ctxs i).loader
  | none =>
    match forkSrc g w with
    | some cx => if i = w.nextCtx then w.nextLoader :: (w.ctxs cx).loader else (w.ctxs i).loader
    | none => if makesRoot g = true ∧ i = w.nextCtx then [0] else (w.ctxs i).loader

/-- a fresh loader is allocated -/
def allocs (g : GS) (w : World) : Bool :=
  (forkSrc g w).isSome || (g.started && !g.panicking && match g.k with | .run (.doloader _) _ :: _ => true | _ => false)

theorem tlSet_ctxs {g : Gid} {k : String} {v : CtxId} {w w1 : World} (h : tlSet g k v w = some w1) :
    w1.ctxs = w.ctxs ∧ w1.nextLoader = w.nextLoader ∧ w1.nextCtx = w.nextCtx := by
  unfold tlSet at h
  split at h
  · cases h
  · cases h; exact ⟨rfl, rfl, rfl⟩

theorem dwcEnter_ctxs {g cx w save w2} (h : dwcEnter g cx w = some (save, w2)) :
    w2.ctxs = w.ctxs ∧ w2.nextLoader = w.nextLoader ∧ w2.nextCtx = w.nextCtx := by
  unfold dwcEnter at h
  split at h
  · split at h
    · cases h
    · rename_i w1 hs
      cases h
      exact (tlSet_ctxs hs : w1.ctxs = w.ctxs ∧ w1.nextLoader = w.nextLoader ∧ w1.nextCtx = w.nextCtx)
  · split at h
    · cases h
    · rename_i w1 hs
      cases h
      exact (tlSet_ctxs hs : w1.ctxs = (tlInit g w).ctxs ∧ w1.nextLoader = (tlInit g w).nextLoader ∧ w1.nextCtx = (tlInit g w).nextCtx)

theorem dwcExit_ctxs {g save w w1} (h : dwcExit g save w = some w1) :
    w1.ctxs = w.ctxs ∧ w1.nextLoader = w.nextLoader ∧ w1.nextCtx = w.nextCtx := by
  unfold dwcExit at h
  split at h
  · exact tlSet_ctxs h
  · cases h; exact ⟨rfl, rfl, rfl⟩

theorem setEntry_ctxs' (l : LoaderId) (n : String) (b : Bool) (w : World) :
    (setEntry l n b w).ctxs = w.ctxs ∧ (setEntry l n b w).nextLoader = w.nextLoader ∧ (setEntry l n b w).nextCtx = w.nextCtx := by
  unfold setEntry; split <;> exact ⟨rfl, rfl, rfl⟩

theorem leafStep_chain (g : Gid) (c : CtxId) (lf : Leaf) (w : World) :
    (∀ i, ((leafStep g c lf w).2.ctxs i).loader = (w.ctxs i).loader) ∧
    (leafStep g c lf w).2.nextLoader = w.nextLoader ∧ (leafStep g c lf w).2.nextCtx = w.nextCtx := by
  have upd : ∀ (f : Ctx → Ctx), (∀ y, (f y).loader = y.loader) → ∀ i, ((ctxUpd c f w).ctxs i).loader = (w.ctxs i).loader := by
    intro f hf i
    by_cases hi : i = c
    · subst hi; simp [ctxUpd, hf]
    · simp [ctxUpd, hi]
  cases lf with
  | obs => simp only [leafStep]; split <;> exact ⟨fun _ => rfl, rfl, rfl⟩
  | set k x => exact ⟨upd (fun y => { y with vars := aset k x y.vars }) (fun _ => rfl), rfl, rfl⟩
  | get k => exact ⟨fun _ => rfl, rfl, rfl⟩
  | del k => exact ⟨upd (fun y => { y with vars := adel k y.vars }) (fun _ => rfl), rfl, rfl⟩
  | push n => exact ⟨upd (fun y => { y with stack := y.stack ++ [n] }) (fun _ => rfl), rfl, rfl⟩
  | pop =>
    simp only [leafStep]
    split
    · exact ⟨fun _ => rfl, rfl, rfl⟩
    · exact ⟨upd (fun y => { y with stack := y.stack.dropLast }) (fun _ => rfl), rfl, rfl⟩
  | deftype n =>
    simp only [leafStep]
    split
    · exact ⟨fun _ => rfl, rfl, rfl⟩
    · have := setEntry_ctxs' ‹_› n true w
      exact ⟨fun i => by rw [this.1], this.2.1, this.2.2⟩
  | load n =>
    simp only [leafStep]
    split
    · split
      · exact ⟨fun _ => rfl, rfl, rfl⟩
      · have := setEntry_ctxs' ‹_› n false w
        exact ⟨fun i => by show ((setEntry _ n false w).ctxs i).loader = _; rw [this.1], this.2.1, this.2.2⟩
    · exact ⟨fun _ => rfl, rfl, rfl⟩
  | panic => exact ⟨fun _ => rfl, rfl, rfl⟩

theorem forkCtx_loader (c : CtxId) (w : World) (i : CtxId) :
    ((forkCtx c w).2.ctxs i).loader = if i = w.nextCtx then w.nextLoader :: (w.ctxs c).loader else (w.ctxs i).loader := by
  by_cases hi : i = w.nextCtx <;> simp [forkCtx, newCtx, newLoader, hi]
theorem forkCtx_nextLoader (c : CtxId) (w : World) : (forkCtx c w).2.nextLoader = w.nextLoader + 1 := rfl
theorem setTag_loader (c : CtxId) (id : Nat) (w : World) (i : CtxId) : ((setTag c id w).ctxs i).loader = (w.ctxs i).loader := by
  by_cases hi : i = c
  · subst hi; simp [setTag, ctxUpd]
  · simp [setTag, ctxUpd, hi]
theorem setTag_nextLoader (c : CtxId) (id : Nat) (w : World) : (setTag c id w).nextLoader = w.nextLoader := rfl
theorem newCtx_loader (x : Ctx) (w : World) (i : CtxId) :
    ((newCtx x w).2.ctxs i).loader = if i = w.nextCtx then x.loader else (w.ctxs i).loader := by
  by_cases hi : i = w.nextCtx <;> simp [newCtx, hi]
theorem newCtx_nextLoader (x : Ctx) (w : World) : (newCtx x w).2.nextLoader = w.nextLoader := rfl

/-- what one micro-step does to loader chains, the loader counter and the goroutine's frames -/
structure ChSpec (g : GS) (w : World) (r : StepR) : Prop where
  chains : ∀ i, (r.w.ctxs i).loader = chainAfter g w i
  nl : r.w.nextLoader = w.nextLoader + (if allocs g w = true then 1 else 0)
  /-- a body frame afterwards works on a context of a frame that was there, or on the context just forked (not a spawn) -/
  runs : ∀ p cx, Frame.run p cx ∈ r.g.k → (∃ p', Frame.run p' cx ∈ g.k) ∨
    (cx = w.nextCtx ∧ (forkSrc g w).isSome = true ∧ r.spawned = none)
  /-- a saved chain afterwards was saved before, or is the chain `DoWithLoader` has just replaced -/
  rest : ∀ cx l, Frame.restoreLoader cx l ∈ r.g.k → Frame.restoreLoader cx l ∈ g.k ∨
    (∃ p k, g.k = .run (.doloader p) cx :: k ∧ g.started = true ∧ g.panicking = false ∧ l = (w.ctxs cx).loader)
  /-- the context made for a goroutine that is being started -/
  spawn : ∀ n, r.spawned = some n → (forkSrc g w).isSome = true ∧ n.k = [.run (match n.k with | .run p _ :: _ => p | _ => .skip) w.nextCtx, .endG]

theorem stepG_chspec (g : GS) (w : World) : ChSpec g w (stepG g w) := by
  obtain ⟨gid, ctx0, st, pn, k⟩ := g
  cases st with
  | false =>
    refine ⟨fun i => ?_, ?_, ?_, ?_, ?_⟩
    · simp [stepG, tlSet_tlInit, chainAfter, chainWrite, forkSrc, makesRoot, setTag, ctxUpd, note, tlFresh]
      by_cases h : i = ctx0 <;> simp [h]
    · simp [stepG, tlSet_tlInit, allocs, forkSrc, setTag, ctxUpd, note, tlFresh]
    · intro p cx h; simp [stepG, tlSet_tlInit] at h; exact Or.inl ⟨p, h⟩
    · intro cx l h; simp [stepG, tlSet_tlInit] at h; exact Or.inl h
    · intro n h; simp [stepG, tlSet_tlInit] at h
  | true =>
    cases pn with
    | true =>
      cases k with
      | nil =>
        refine ⟨fun i => ?_, ?_, ?_, ?_, ?_⟩ <;>
          simp [stepG, chainAfter, chainWrite, forkSrc, makesRoot, allocs]
      | cons f k =>
        cases f with
        | run p c =>
          refine ⟨fun i => ?_, ?_, ?_, ?_, ?_⟩
          · cases p <;> simp [stepG, chainAfter, chainWrite, forkSrc, makesRoot]
          · cases p <;> simp [stepG, allocs, forkSrc]
          · intro p' cx h; simp [stepG] at h; exact Or.inl ⟨p', List.mem_cons_of_mem _ h⟩
          · intro cx l h; simp [stepG] at h; exact Or.inl (List.mem_cons_of_mem _ h)
          · intro n h; simp [stepG] at h
        | parent id ctch p root =>
          refine ⟨fun i => ?_, ?_, ?_, ?_, ?_⟩
          · simp [stepG, chainAfter, chainWrite, forkSrc, makesRoot]
          · simp [stepG, allocs, forkSrc]
          · intro p' cx h; simp [stepG] at h; exact Or.inl ⟨p', List.mem_cons_of_mem _ h⟩
          · intro cx l h; simp [stepG] at h; exact Or.inl (List.mem_cons_of_mem _ h)
          · intro n h; simp [stepG] at h
        | restoreCtx save =>
          cases h : dwcExit gid save w with
          | none =>
            refine ⟨fun i => ?_, ?_, ?_, ?_, ?_⟩
            · simp [stepG, h, chainAfter, chainWrite, forkSrc, makesRoot]
            · simp [stepG, h, allocs, forkSrc]
            · intro p' cx hm; simp [stepG, h] at hm; exact Or.inl ⟨p', List.mem_cons_of_mem _ hm⟩
            · intro cx l hm; simp [stepG, h] at hm; exact Or.inl (List.mem_cons_of_mem _ hm)
            · intro n hm; simp [stepG, h] at hm
          | some w1 =>
            have hc := dwcExit_ctxs h
            refine ⟨fun i => ?_, ?_, ?_, ?_, ?_⟩
            · simp [stepG, h, hc.1, chainAfter, chainWrite, forkSrc, makesRoot]
            · simp [stepG, h, hc.2.1, allocs, forkSrc]
            · intro p' cx hm; simp [stepG, h] at hm; exact Or.inl ⟨p', List.mem_cons_of_mem _ hm⟩
            · intro cx l hm; simp [stepG, h] at hm; exact Or.inl (List.mem_cons_of_mem _ hm)
            · intro n hm; simp [stepG, h] at hm
        | restoreLoader c l' =>
          refine ⟨fun i => ?_, ?_, ?_, ?_, ?_⟩
          · simp [stepG, chainAfter, chainWrite, ctxUpd]
            by_cases hi : i = c <;> simp [hi]
          · simp [stepG, allocs, forkSrc, ctxUpd]
          · intro p' cx hm; simp [stepG] at hm; exact Or.inl ⟨p', List.mem_cons_of_mem _ hm⟩
          · intro cx l hm; simp [stepG] at hm; exact Or.inl (List.mem_cons_of_mem _ hm)
          · intro n hm; simp [stepG] at hm
        | catchK =>
          refine ⟨fun i => ?_, ?_, ?_, ?_, ?_⟩
          · simp [stepG, chainAfter, chainWrite, forkSrc, makesRoot, emit]
          · simp [stepG, allocs, forkSrc, emit]
          · intro p' cx hm; simp [stepG] at hm; exact Or.inl ⟨p', List.mem_cons_of_mem _ hm⟩
          · intro cx l hm; simp [stepG] at hm; exact Or.inl (List.mem_cons_of_mem _ hm)
          · intro n hm; simp [stepG] at hm
        | endG =>
          refine ⟨fun i => ?_, ?_, ?_, ?_, ?_⟩ <;>
            simp [stepG, chainAfter, chainWrite, forkSrc, makesRoot, allocs, emit, tlCleanup]
        | endRoot =>
          refine ⟨fun i => ?_, ?_, ?_, ?_, ?_⟩ <;>
            simp [stepG, chainAfter, chainWrite, forkSrc, makesRoot, allocs, emit]
    | false =>
      cases k with
      | nil =>
        refine ⟨fun i => ?_, ?_, ?_, ?_, ?_⟩ <;>
          simp [stepG, chainAfter, chainWrite, forkSrc, makesRoot, allocs]
      | cons f k =>
        cases f with
        | run p c =>
          cases p with
          | skip =>
            refine ⟨fun i => ?_, ?_, ?_, ?_, ?_⟩
            · simp [stepG, chainAfter, chainWrite, forkSrc, makesRoot]
            · simp [stepG, allocs, forkSrc]
            · intro p' cx hm; simp [stepG] at hm; exact Or.inl ⟨p', List.mem_cons_of_mem _ hm⟩
            · intro cx l hm; simp [stepG] at hm; exact Or.inl (List.mem_cons_of_mem _ hm)
            · intro n hm; simp [stepG] at hm
          | seq p q =>
            refine ⟨fun i => ?_, ?_, ?_, ?_, ?_⟩
            · simp [stepG, chainAfter, chainWrite, forkSrc, makesRoot]
            · simp [stepG, allocs, forkSrc]
            · intro p' cx hm
              simp [stepG] at hm
              rcases hm with ⟨_, h⟩ | ⟨_, h⟩ | h
              · exact Or.inl ⟨_, by rw [h]; exact List.mem_cons_self ..⟩
              · exact Or.inl ⟨_, by rw [h]; exact List.mem_cons_self ..⟩
              · exact Or.inl ⟨p', List.mem_cons_of_mem _ h⟩
            · intro cx l hm; simp [stepG] at hm; exact Or.inl (List.mem_cons_of_mem _ hm)
            · intro n hm; simp [stepG] at hm
          | recover p =>
            refine ⟨fun i => ?_, ?_, ?_, ?_, ?_⟩
            · simp [stepG, chainAfter, chainWrite, forkSrc, makesRoot]
            · simp [stepG, allocs, forkSrc]
            · intro p' cx hm
              simp [stepG] at hm
              rcases hm with ⟨_, h⟩ | h
              · exact Or.inl ⟨_, by rw [h]; exact List.mem_cons_self ..⟩
              · exact Or.inl ⟨p', List.mem_cons_of_mem _ h⟩
            · intro cx l hm; simp [stepG] at hm; exact Or.inl (List.mem_cons_of_mem _ hm)
            · intro n hm; simp [stepG] at hm
          | leaf lf =>
            have hl := leafStep_chain gid c lf w
            by_cases hp : (leafStep gid c lf w).1 = .panicked
            · refine ⟨fun i => ?_, ?_, ?_, ?_, ?_⟩
              · simp [stepG, hp, panicS, hl.1, chainAfter, chainWrite, forkSrc, makesRoot]
              · simp [stepG, hp, panicS, hl.2.1, allocs, forkSrc]
              · intro p' cx hm; simp [stepG, hp, panicS] at hm; exact Or.inl ⟨p', List.mem_cons_of_mem _ hm⟩
              · intro cx l hm; simp [stepG, hp, panicS] at hm; exact Or.inl (List.mem_cons_of_mem _ hm)
              · intro n hm; simp [stepG, hp, panicS] at hm
            · refine ⟨fun i => ?_, ?_, ?_, ?_, ?_⟩
              · simp [stepG, hp, hl.1, chainAfter, chainWrite, forkSrc, makesRoot]
              · simp [stepG, hp, hl.2.1, allocs, forkSrc]
              · intro p' cx hm; simp [stepG, hp] at hm; exact Or.inl ⟨p', List.mem_cons_of_mem _ hm⟩
              · intro cx l hm; simp [stepG, hp] at hm; exact Or.inl (List.mem_cons_of_mem _ hm)
              · intro n hm; simp [stepG, hp] at hm
          | doctx id p =>
            obtain ⟨save, w2, h⟩ := dwcEnter_some gid (forkCtx c w).1 (setTag (forkCtx c w).1 id (forkCtx c w).2)
            have hc := dwcEnter_ctxs h
            simp only [forkCtx_fst] at h
            refine ⟨fun i => ?_, ?_, ?_, ?_, ?_⟩
            · simp [stepG, h, hc.1, chainAfter, chainWrite, forkSrc, setTag_loader, forkCtx_loader]
            · simp [stepG, h, hc.2.1, allocs, forkSrc, setTag_nextLoader, forkCtx_nextLoader]
            · intro p' cx hm
              simp [stepG, h] at hm
              rcases hm with ⟨_, hcx⟩ | hm
              · exact Or.inr ⟨hcx, by simp [forkSrc], by simp [stepG, h]⟩
              · exact Or.inl ⟨p', List.mem_cons_of_mem _ hm⟩
            · intro cx l hm; simp [stepG, h] at hm; exact Or.inl (List.mem_cons_of_mem _ hm)
            · intro n hm; simp [stepG, h] at hm
          | dodo id p =>
            obtain ⟨save, w2, h⟩ := dwcEnter_some gid (newCtx { loader := [0] } w).1 (newCtx { loader := [0] } w).2
            have hc := dwcEnter_ctxs h
            simp only [newCtx_fst] at h
            refine ⟨fun i => ?_, ?_, ?_, ?_, ?_⟩
            · simp [stepG, doEnter, newCtx_fst, h, hc.1, chainAfter, chainWrite, forkSrc, makesRoot, newCtx_loader]
            · simp [stepG, doEnter, newCtx_fst, h, hc.2.1, allocs, forkSrc, newCtx_nextLoader]
            · intro p' cx hm; simp [stepG, doEnter, newCtx_fst, h] at hm; exact Or.inl ⟨p', List.mem_cons_of_mem _ hm⟩
            · intro cx l hm; simp [stepG, doEnter, newCtx_fst, h] at hm; exact Or.inl (List.mem_cons_of_mem _ hm)
            · intro n hm; simp [stepG, doEnter, newCtx_fst, h] at hm
          | dotry id p =>
            obtain ⟨save, w2, h⟩ := dwcEnter_some gid (newCtx { loader := [0] } w).1 (newCtx { loader := [0] } w).2
            have hc := dwcEnter_ctxs h
            simp only [newCtx_fst] at h
            refine ⟨fun i => ?_, ?_, ?_, ?_, ?_⟩
            · simp [stepG, doEnter, newCtx_fst, h, hc.1, chainAfter, chainWrite, forkSrc, makesRoot, newCtx_loader]
            · simp [stepG, doEnter, newCtx_fst, h, hc.2.1, allocs, forkSrc, newCtx_nextLoader]
            · intro p' cx hm; simp [stepG, doEnter, newCtx_fst, h] at hm; exact Or.inl ⟨p', List.mem_cons_of_mem _ hm⟩
            · intro cx l hm; simp [stepG, doEnter, newCtx_fst, h] at hm; exact Or.inl (List.mem_cons_of_mem _ hm)
            · intro n hm; simp [stepG, doEnter, newCtx_fst, h] at hm
          | doloader p =>
            refine ⟨fun i => ?_, ?_, ?_, ?_, ?_⟩
            · simp [stepG, chainAfter, chainWrite, ctxUpd, newLoader]
              by_cases hi : i = c <;> simp [hi]
            · simp [stepG, allocs, forkSrc, ctxUpd, newLoader]
            · intro p' cx hm
              simp [stepG] at hm
              rcases hm with ⟨_, hcx⟩ | hm
              · exact Or.inl ⟨_, by rw [hcx]; exact List.mem_cons_self ..⟩
              · exact Or.inl ⟨p', List.mem_cons_of_mem _ hm⟩
            · intro cx l hm
              simp [stepG] at hm
              rcases hm with ⟨hcx, hl⟩ | hm
              · subst hcx
                exact Or.inr ⟨p, k, rfl, rfl, rfl, hl⟩
              · exact Or.inl (List.mem_cons_of_mem _ hm)
            · intro n hm; simp [stepG] at hm
          | fork p =>
            refine ⟨fun i => ?_, ?_, ?_, ?_, ?_⟩
            · simp [stepG, spawnS, chainAfter, chainWrite, forkSrc, forkCtx_loader]
            · simp [stepG, spawnS, allocs, forkSrc, forkCtx_nextLoader]
            · intro p' cx hm; simp [stepG, spawnS] at hm; exact Or.inl ⟨p', List.mem_cons_of_mem _ hm⟩
            · intro cx l hm; simp [stepG, spawnS] at hm; exact Or.inl (List.mem_cons_of_mem _ hm)
            · intro n hm
              simp [stepG, spawnS] at hm
              subst hm
              exact ⟨by simp [forkSrc], by simp⟩
          | go p =>
            cases h : tlGet gid ctxKey w with
            | none =>
              refine ⟨fun i => ?_, ?_, ?_, ?_, ?_⟩
              · simp [stepG, h, panicS, chainAfter, chainWrite, forkSrc, makesRoot]
              · simp [stepG, h, panicS, allocs, forkSrc]
              · intro p' cx hm; simp [stepG, h, panicS] at hm; exact Or.inl ⟨p', List.mem_cons_of_mem _ hm⟩
              · intro cx l hm; simp [stepG, h, panicS] at hm; exact Or.inl (List.mem_cons_of_mem _ hm)
              · intro n hm; simp [stepG, h, panicS] at hm
            | some cur =>
              refine ⟨fun i => ?_, ?_, ?_, ?_, ?_⟩
              · simp [stepG, h, spawnS, chainAfter, chainWrite, forkSrc, forkCtx_loader]
              · simp [stepG, h, spawnS, allocs, forkSrc, forkCtx_nextLoader]
              · intro p' cx hm; simp [stepG, h, spawnS] at hm; exact Or.inl ⟨p', List.mem_cons_of_mem _ hm⟩
              · intro cx l hm; simp [stepG, h, spawnS] at hm; exact Or.inl (List.mem_cons_of_mem _ hm)
              · intro n hm
                simp [stepG, h, spawnS] at hm
                subst hm
                exact ⟨by simp [forkSrc, h], by simp⟩
        | parent id ctch p root =>
          obtain ⟨save, w2, h⟩ := dwcEnter_some gid (forkCtx root w).1 (forkCtx root w).2
          have hc := dwcEnter_ctxs h
          simp only [forkCtx_fst] at h
          refine ⟨fun i => ?_, ?_, ?_, ?_, ?_⟩
          · simp [stepG, h, hc.1, chainAfter, chainWrite, forkSrc, setTag_loader, forkCtx_loader]
          · simp [stepG, h, hc.2.1, allocs, forkSrc, setTag_nextLoader, forkCtx_nextLoader]
          · intro p' cx hm
            cases ctch <;>
            · simp [stepG, h] at hm
              rcases hm with ⟨_, hcx⟩ | hm
              · exact Or.inr ⟨hcx, by simp [forkSrc], by simp [stepG, h]⟩
              · exact Or.inl ⟨p', List.mem_cons_of_mem _ hm⟩
          · intro cx l hm
            cases ctch <;>
            · simp [stepG, h] at hm
              exact Or.inl (List.mem_cons_of_mem _ hm)
          · intro n hm; simp [stepG, h] at hm
        | restoreCtx save =>
          cases h : dwcExit gid save w with
          | none =>
            refine ⟨fun i => ?_, ?_, ?_, ?_, ?_⟩
            · simp [stepG, h, panicS, chainAfter, chainWrite, forkSrc, makesRoot]
            · simp [stepG, h, panicS, allocs, forkSrc]
            · intro p' cx hm; simp [stepG, h, panicS] at hm; exact Or.inl ⟨p', List.mem_cons_of_mem _ hm⟩
            · intro cx l hm; simp [stepG, h, panicS] at hm; exact Or.inl (List.mem_cons_of_mem _ hm)
            · intro n hm; simp [stepG, h, panicS] at hm
          | some w1 =>
            have hc := dwcExit_ctxs h
            refine ⟨fun i => ?_, ?_, ?_, ?_, ?_⟩
            · simp [stepG, h, hc.1, chainAfter, chainWrite, forkSrc, makesRoot]
            · simp [stepG, h, hc.2.1, allocs, forkSrc]
            · intro p' cx hm; simp [stepG, h] at hm; exact Or.inl ⟨p', List.mem_cons_of_mem _ hm⟩
            · intro cx l hm; simp [stepG, h] at hm; exact Or.inl (List.mem_cons_of_mem _ hm)
            · intro n hm; simp [stepG, h] at hm
        | restoreLoader c l' =>
          refine ⟨fun i => ?_, ?_, ?_, ?_, ?_⟩
          · simp [stepG, chainAfter, chainWrite, ctxUpd]
            by_cases hi : i = c <;> simp [hi]
          · simp [stepG, allocs, forkSrc, ctxUpd]
          · intro p' cx hm; simp [stepG] at hm; exact Or.inl ⟨p', List.mem_cons_of_mem _ hm⟩
          · intro cx l hm; simp [stepG] at hm; exact Or.inl (List.mem_cons_of_mem _ hm)
          · intro n hm; simp [stepG] at hm
        | catchK =>
          refine ⟨fun i => ?_, ?_, ?_, ?_, ?_⟩
          · simp [stepG, chainAfter, chainWrite, forkSrc, makesRoot]
          · simp [stepG, allocs, forkSrc]
          · intro p' cx hm; simp [stepG] at hm; exact Or.inl ⟨p', List.mem_cons_of_mem _ hm⟩
          · intro cx l hm; simp [stepG] at hm; exact Or.inl (List.mem_cons_of_mem _ hm)
          · intro n hm; simp [stepG] at hm
        | endG =>
          refine ⟨fun i => ?_, ?_, ?_, ?_, ?_⟩ <;>
            simp [stepG, chainAfter, chainWrite, forkSrc, makesRoot, allocs, emit, tlCleanup]
        | endRoot =>
          refine ⟨fun i => ?_, ?_, ?_, ?_, ?_⟩ <;>
            simp [stepG, chainAfter, chainWrite, forkSrc, makesRoot, allocs, emit]

theorem forkCtx_nextCtx' (c : CtxId) (w : World) : (forkCtx c w).2.nextCtx = w.nextCtx + 1 := rfl
theorem newCtx_nextCtx (x : Ctx) (w : World) : (newCtx x w).2.nextCtx = w.nextCtx + 1 := rfl
theorem setTag_nextCtx (c : CtxId) (id : Nat) (w : World) : (setTag c id w).nextCtx = w.nextCtx := rfl

/-- the context counter: a fork or a new root allocates exactly one context -/
theorem stepG_nc (g : GS) (w : World) :
    (stepG g w).w.nextCtx = w.nextCtx + (if ((forkSrc g w).isSome || makesRoot g) = true then 1 else 0) := by
  obtain ⟨gid, ctx0, st, pn, k⟩ := g
  cases st with
  | false => simp [stepG, tlSet_tlInit, forkSrc, makesRoot, setTag, ctxUpd, note, tlFresh]
  | true =>
    cases pn with
    | true =>
      cases k with
      | nil => simp [stepG, forkSrc, makesRoot]
      | cons f k =>
        cases f with
        | run p c => simp [stepG, forkSrc, makesRoot]
        | parent id ctch p root => simp [stepG, forkSrc, makesRoot]
        | restoreCtx save =>
          cases h : dwcExit gid save w with
          | none => simp [stepG, h, forkSrc, makesRoot]
          | some w1 => simp [stepG, h, (dwcExit_ctxs h).2.2, forkSrc, makesRoot]
        | restoreLoader c l' => simp [stepG, forkSrc, makesRoot, ctxUpd]
        | catchK => simp [stepG, forkSrc, makesRoot, emit]
        | endG => simp [stepG, forkSrc, makesRoot, emit, tlCleanup]
        | endRoot => simp [stepG, forkSrc, makesRoot, emit]
    | false =>
      cases k with
      | nil => simp [stepG, forkSrc, makesRoot]
      | cons f k =>
        cases f with
        | run p c =>
          cases p with
          | skip => simp [stepG, forkSrc, makesRoot]
          | seq p q => simp [stepG, forkSrc, makesRoot]
          | recover p => simp [stepG, forkSrc, makesRoot]
          | leaf lf =>
            have hl := leafStep_chain gid c lf w
            by_cases hp : (leafStep gid c lf w).1 = .panicked <;> simp [stepG, hp, panicS, hl.2.2, forkSrc, makesRoot]
          | doctx id p =>
            obtain ⟨save, w2, h⟩ := dwcEnter_some gid (forkCtx c w).1 (setTag (forkCtx c w).1 id (forkCtx c w).2)
            have hc := dwcEnter_ctxs h
            simp only [forkCtx_fst] at h
            simp [stepG, h, hc.2.2, forkSrc, makesRoot, setTag_nextCtx, forkCtx_nextCtx']
          | dodo id p =>
            obtain ⟨save, w2, h⟩ := dwcEnter_some gid (newCtx { loader := [0] } w).1 (newCtx { loader := [0] } w).2
            have hc := dwcEnter_ctxs h
            simp only [newCtx_fst] at h
            simp [stepG, doEnter, newCtx_fst, h, hc.2.2, forkSrc, makesRoot, newCtx_nextCtx]
          | dotry id p =>
            obtain ⟨save, w2, h⟩ := dwcEnter_some gid (newCtx { loader := [0] } w).1 (newCtx { loader := [0] } w).2
            have hc := dwcEnter_ctxs h
            simp only [newCtx_fst] at h
            simp [stepG, doEnter, newCtx_fst, h, hc.2.2, forkSrc, makesRoot, newCtx_nextCtx]
          | doloader p => simp [stepG, forkSrc, makesRoot, ctxUpd, newLoader]
          | fork p => simp [stepG, spawnS, forkSrc, makesRoot, forkCtx_nextCtx']
          | go p =>
            cases h : tlGet gid ctxKey w with
            | none => simp [stepG, h, panicS, forkSrc, makesRoot]
            | some cur => simp [stepG, h, spawnS, forkSrc, makesRoot, forkCtx_nextCtx']
        | parent id ctch p root =>
          obtain ⟨save, w2, h⟩ := dwcEnter_some gid (forkCtx root w).1 (forkCtx root w).2
          have hc := dwcEnter_ctxs h
          simp only [forkCtx_fst] at h
          simp [stepG, h, hc.2.2, forkSrc, makesRoot, setTag_nextCtx, forkCtx_nextCtx']
        | restoreCtx save =>
          cases h : dwcExit gid save w with
          | none => simp [stepG, h, panicS, forkSrc, makesRoot]
          | some w1 => simp [stepG, h, (dwcExit_ctxs h).2.2, forkSrc, makesRoot]
        | restoreLoader c l' => simp [stepG, forkSrc, makesRoot, ctxUpd]
        | catchK => simp [stepG, forkSrc, makesRoot]
        | endG => simp [stepG, forkSrc, makesRoot, emit, tlCleanup]
        | endRoot => simp [stepG, forkSrc, makesRoot, emit]

/-! ## reading the step descriptors -/

theorem stackOK_run {gid : Gid} {est : List (Gid × CtxId)} : ∀ {k : List Frame} {cur : Option CtxId},
    StackOK gid est cur k → ∀ p cx, Frame.run p cx ∈ k → (gid, cx) ∈ est := by
  intro k
  induction k with
  | nil => intro cur _ p cx h; simp at h
  | cons f k ih =>
    intro cur h p cx hm
    cases f with
    | run q c =>
      rcases List.mem_cons.1 hm with e | hm
      · cases e; exact h.2.1
      · exact ih h.2.2 p cx hm
    | parent id ctch q root =>
      rcases List.mem_cons.1 hm with e | hm
      · cases e
      · exact ih h.2.2 p cx hm
    | restoreCtx save =>
      rcases List.mem_cons.1 hm with e | hm
      · cases e
      · exact ih h.2 p cx hm
    | restoreLoader c l =>
      rcases List.mem_cons.1 hm with e | hm
      · cases e
      · exact ih h.2 p cx hm
    | catchK =>
      rcases List.mem_cons.1 hm with e | hm
      · cases e
      · exact ih h p cx hm
    | endG =>
      rcases List.mem_cons.1 hm with e | hm
      · cases e
      · rw [h] at hm; simp at hm
    | endRoot =>
      rcases List.mem_cons.1 hm with e | hm
      · cases e
      · rw [h.1] at hm; simp at hm

theorem stackOK_rest {gid : Gid} {est : List (Gid × CtxId)} : ∀ {k : List Frame} {cur : Option CtxId},
    StackOK gid est cur k → ∀ cx l, Frame.restoreLoader cx l ∈ k → (gid, cx) ∈ est := by
  intro k
  induction k with
  | nil => intro cur _ cx l h; simp at h
  | cons f k ih =>
    intro cur h cx l hm
    cases f with
    | run q c =>
      rcases List.mem_cons.1 hm with e | hm
      · cases e
      · exact ih h.2.2 cx l hm
    | parent id ctch q root =>
      rcases List.mem_cons.1 hm with e | hm
      · cases e
      · exact ih h.2.2 cx l hm
    | restoreCtx save =>
      rcases List.mem_cons.1 hm with e | hm
      · cases e
      · exact ih h.2 cx l hm
    | restoreLoader c l' =>
      rcases List.mem_cons.1 hm with e | hm
      · cases e; exact h.1
      · exact ih h.2 cx l hm
    | catchK =>
      rcases List.mem_cons.1 hm with e | hm
      · cases e
      · exact ih h cx l hm
    | endG =>
      rcases List.mem_cons.1 hm with e | hm
      · cases e
      · rw [h] at hm; simp at hm
    | endRoot =>
      rcases List.mem_cons.1 hm with e | hm
      · cases e
      · rw [h.1] at hm; simp at hm

/-- `chainWrite`: the deferred function of a `DoWithLoader` on top of the continuation, or a `DoWithLoader` about to start -/
theorem chainWrite_cases {g : GS} {w : World} {cx : CtxId} {lst : List LoaderId} (h : chainWrite g w = some (cx, lst)) :
    g.started = true ∧ forkSrc g w = none ∧ ((∃ k, g.k = .restoreLoader cx lst :: k ∧ allocs g w = false) ∨
      (∃ p k, g.k = .run (.doloader p) cx :: k ∧ g.panicking = false ∧ lst = w.nextLoader :: (w.ctxs cx).loader ∧
        allocs g w = true)) := by
  obtain ⟨gid, ctx0, st, pn, k⟩ := g
  cases st with
  | false => simp [chainWrite] at h
  | true =>
    cases k with
    | nil => simp [chainWrite] at h
    | cons f k =>
      cases f with
      | run p c =>
        cases p <;> simp [chainWrite] at h
        obtain ⟨hp, hc, hl⟩ := h
        subst hc
        cases pn with
        | true => simp at hp
        | false => exact ⟨rfl, by simp [forkSrc], Or.inr ⟨_, k, rfl, rfl, hl.symm, by simp [allocs, forkSrc]⟩⟩
      | restoreLoader c l =>
        simp [chainWrite] at h
        obtain ⟨hc, hl⟩ := h
        subst hc; subst hl
        refine ⟨rfl, ?_, Or.inl ⟨k, rfl, ?_⟩⟩
        · cases pn <;> simp [forkSrc]
        · cases pn <;> simp [allocs, forkSrc]
      | parent id ctch p root => simp [chainWrite] at h
      | restoreCtx save => simp [chainWrite] at h
      | catchK => simp [chainWrite] at h
      | endG => simp [chainWrite] at h
      | endRoot => simp [chainWrite] at h

theorem forkSrc_cases {g : GS} {w : World} {cx : CtxId} (hok : GOK w g) (h : forkSrc g w = some cx) :
    g.started = true ∧ g.panicking = false ∧ chainWrite g w = none ∧ allocs g w = true ∧ (g.gid, cx) ∈ w.estab := by
  have ha : allocs g w = true := by simp [allocs, h]
  obtain ⟨gid, ctx0, st, pn, k⟩ := g
  cases st with
  | false => simp [forkSrc] at h
  | true =>
    have hst := hok.st rfl
    cases pn with
    | true => simp [forkSrc] at h
    | false =>
      cases k with
      | nil => simp [forkSrc] at h
      | cons f k =>
        cases f with
        | run p c =>
          have hs : (gid, c) ∈ w.estab := hst.2.1
          have hcur : tlGet gid ctxKey w = some c := hst.1
          cases p <;> simp [forkSrc] at h
          · subst h; exact ⟨rfl, rfl, by simp [chainWrite], ha, hs⟩
          · subst h; exact ⟨rfl, rfl, by simp [chainWrite], ha, hs⟩
          · rw [hcur] at h; cases h; exact ⟨rfl, rfl, by simp [chainWrite], ha, hs⟩
        | parent id ctch p root =>
          simp [forkSrc] at h
          subst h
          exact ⟨rfl, rfl, by simp [chainWrite], ha, hst.2.1⟩
        | restoreCtx save => simp [forkSrc] at h
        | restoreLoader c l => simp [forkSrc] at h
        | catchK => simp [forkSrc] at h
        | endG => simp [forkSrc] at h
        | endRoot => simp [forkSrc] at h

theorem makesRoot_cases {g : GS} {w : World} (h : makesRoot g = true) :
    forkSrc g w = none ∧ chainWrite g w = none ∧ allocs g w = false := by
  obtain ⟨gid, ctx0, st, pn, k⟩ := g
  cases st <;> cases pn <;> try (simp [makesRoot] at h)
  cases k with
  | nil => simp [makesRoot] at h
  | cons f k =>
    cases f with
    | run p c => cases p <;> simp [makesRoot] at h <;> simp [forkSrc, chainWrite, allocs]
    | parent id ctch p root => simp [makesRoot] at h
    | restoreCtx save => simp [makesRoot] at h
    | restoreLoader c l => simp [makesRoot] at h
    | catchK => simp [makesRoot] at h
    | endG => simp [makesRoot] at h
    | endRoot => simp [makesRoot] at h

/-- a step of `g` leaves the chain of every context that is neither installed for `g` nor just created -/
theorem chainAfter_other {g : GS} {w : World} (hok : GOK w g) {i : CtxId} (hne : (g.gid, i) ∉ w.estab) (hn : i ≠ w.nextCtx) :
    chainAfter g w i = (w.ctxs i).loader := by
  unfold chainAfter
  cases hcw : chainWrite g w with
  | some cl =>
    obtain ⟨cx, lst⟩ := cl
    obtain ⟨hst, _, hk⟩ := chainWrite_cases hcw
    have hs := hok.st hst
    have hest : (g.gid, cx) ∈ w.estab := by
      rcases hk with ⟨k, hk, _⟩ | ⟨p, k, hk, _⟩
      · rw [hk] at hs; exact hs.1
      · rw [hk] at hs; exact hs.2.1
    have : i ≠ cx := fun e => hne (e ▸ hest)
    simp [this]
  | none =>
    simp only
    cases forkSrc g w with
    | some cx => simp [hn]
    | none => simp [hn]

/-- the context just forked gets the fresh loader on top of the chain of the context it was forked from -/
theorem chainAfter_fork {g : GS} {w : World} (hok : GOK w g) {cx : CtxId} (h : forkSrc g w = some cx) :
    chainAfter g w w.nextCtx = w.nextLoader :: (w.ctxs cx).loader := by
  obtain ⟨_, _, hcw, _, _⟩ := forkSrc_cases hok h
  simp [chainAfter, hcw, h]

theorem chainAfter_root {g : GS} {w : World} (h : makesRoot g = true) : chainAfter g w w.nextCtx = [0] := by
  obtain ⟨h1, h2, _⟩ := makesRoot_cases (w := w) h
  simp [chainAfter, h1, h2, h]

/-- a context installed for `g`: unchanged, or a fresh loader pushed by `DoWithLoader`, or a saved chain put back -/
theorem chainAfter_own {g : GS} {w : World} {i : CtxId} (hlt : i < w.nextCtx) :
    chainAfter g w i = (w.ctxs i).loader ∨
    (chainAfter g w i = w.nextLoader :: (w.ctxs i).loader ∧ allocs g w = true ∧ forkSrc g w = none ∧
      ∃ p k, g.k = .run (.doloader p) i :: k) ∨
    (∃ k, g.k = .restoreLoader i (chainAfter g w i) :: k ∧ g.started = true) := by
  have hn : i ≠ w.nextCtx := Nat.ne_of_lt hlt
  unfold chainAfter
  cases hcw : chainWrite g w with
  | some cl =>
    obtain ⟨cx, lst⟩ := cl
    obtain ⟨hst, hfs, hk⟩ := chainWrite_cases hcw
    by_cases hi : i = cx
    · subst hi
      simp only [if_true]
      rcases hk with ⟨k, hk, _⟩ | ⟨p, k, hk, _, hl, ha⟩
      · exact Or.inr (Or.inr ⟨k, hk, hst⟩)
      · exact Or.inr (Or.inl ⟨hl, ha, hfs, p, k, hk⟩)
    · simp [hi]
  | none =>
    simp only
    cases forkSrc g w with
    | some cx => simp [hn]
    | none => simp [hn]

/-- what the step of `g` makes of the chain of ANY context `i` -/
theorem chainAfter_split {g : GS} {w : World} (hinv : Inv w) (hok : GOK w g) (i : CtxId) :
    chainAfter g w i = (w.ctxs i).loader ∨
    ((g.gid, i) ∈ w.estab ∧ chainAfter g w i = w.nextLoader :: (w.ctxs i).loader ∧ allocs g w = true ∧ forkSrc g w = none ∧
      ∃ p k, g.k = .run (.doloader p) i :: k) ∨
    ((g.gid, i) ∈ w.estab ∧ ∃ k, g.k = .restoreLoader i (chainAfter g w i) :: k ∧ g.started = true) ∨
    (i = w.nextCtx ∧ ∃ cx, forkSrc g w = some cx ∧ (g.gid, cx) ∈ w.estab ∧ allocs g w = true ∧
      chainAfter g w i = w.nextLoader :: (w.ctxs cx).loader) ∨
    (i = w.nextCtx ∧ makesRoot g = true ∧ forkSrc g w = none ∧ chainAfter g w i = [0]) := by
  by_cases hest : (g.gid, i) ∈ w.estab
  · rcases chainAfter_own (g := g) (w := w) (hinv.estabLt _ _ hest) with h | h | h
    · exact Or.inl h
    · exact Or.inr (Or.inl ⟨hest, h⟩)
    · exact Or.inr (Or.inr (Or.inl ⟨hest, h⟩))
  · by_cases hn : i = w.nextCtx
    · subst hn
      cases hf : forkSrc g w with
      | some cx =>
        obtain ⟨_, _, _, ha, he⟩ := forkSrc_cases hok hf
        exact Or.inr (Or.inr (Or.inr (Or.inl ⟨rfl, cx, rfl, he, ha, chainAfter_fork hok hf⟩)))
      | none =>
        cases hm : makesRoot g with
        | true => exact Or.inr (Or.inr (Or.inr (Or.inr ⟨rfl, rfl, rfl, chainAfter_root hm⟩)))
        | false =>
          left
          unfold chainAfter
          cases hcw : chainWrite g w with
          | some cl =>
            obtain ⟨cx, lst⟩ := cl
            obtain ⟨hst, _, hk⟩ := chainWrite_cases hcw
            have hs := hok.st hst
            have he : (g.gid, cx) ∈ w.estab := by
              rcases hk with ⟨k, hk, _⟩ | ⟨p, k, hk, _⟩
              · rw [hk] at hs; exact hs.1
              · rw [hk] at hs; exact hs.2.1
            have : w.nextCtx ≠ cx := Nat.ne_of_gt (hinv.estabLt _ _ he)
            simp [this]
          | none => simp [hf, hm]
    · exact Or.inl (chainAfter_other hok hest hn)

/-! ## the invariant -/

structure GInv (c : Cfg) (gh : Ghost) : Prop where
  ldPos : 1 ≤ c.w.nextLoader
  fresh : ∀ i, c.w.nextCtx ≤ i → (c.w.ctxs i).loader = []
  chainLt : ∀ i l, l ∈ (c.w.ctxs i).loader → l < c.w.nextLoader
  restLt : ∀ g ∈ c.gs, ∀ cx l, Frame.restoreLoader cx l ∈ g.k → ∀ x ∈ l, x < c.w.nextLoader
  parLt : ∀ x, gh.par x < c.w.nextGid
  parLe : ∀ x, gh.par x ≤ x
  estGid : ∀ b i, (b, i) ∈ c.w.estab → b < c.w.nextGid
  /-- loaders on the chain of a context installed for `b` belong to `b` or its ancestors (or are the environment loader) -/
  estChain : ∀ b i, (b, i) ∈ c.w.estab → ∀ l ∈ (c.w.ctxs i).loader, OkFor gh b l
  /-- … likewise for the context made for a goroutine that has not started -/
  unstChain : ∀ n ∈ c.gs, n.started = false → ∀ l ∈ (c.w.ctxs n.ctx0).loader, OkFor gh n.gid l
  unstHead : ∀ n ∈ c.gs, n.started = false → ∀ h, headOf c.w n.ctx0 = some h → gh.own h = n.gid ∧ 1 ≤ h
  /-- the defining loader of a body's context belongs to the goroutine that runs the body -/
  runHead : ∀ g ∈ c.gs, g.started = true → ∀ p cx, Frame.run p cx ∈ g.k → ∀ h, headOf c.w cx = some h → gh.own h = g.gid ∧ 1 ≤ h
  /-- the chains `DoWithLoader` will put back -/
  restore : ∀ g ∈ c.gs, ∀ cx l, Frame.restoreLoader cx l ∈ g.k →
    (∀ x ∈ l, OkFor gh g.gid x) ∧ (∀ h, l.head? = some h → gh.own h = g.gid ∧ 1 ≤ h)

theorem mem_step_cases {c : Cfg} {i : Nat} {g : GS} (hi : c.gs[i]? = some g) {g' : GS}
    (h : g' ∈ c.gs.set i (stepG g c.w).g ++ (stepG g c.w).spawned.toList) :
    g' = (stepG g c.w).g ∨ (∃ j, j ≠ i ∧ c.gs[j]? = some g') ∨ (stepG g c.w).spawned = some g' := by
  rcases List.mem_append.1 h with h | h
  · rcases mem_set_cases h with h | h
    · exact Or.inl h
    · exact Or.inr (Or.inl h)
  · right; right
    cases hs : (stepG g c.w).spawned with
    | none => rw [hs] at h; simp at h
    | some n => rw [hs] at h; simp at h; rw [h]

theorem head_mem {α : Type} {l : List α} {h : α} (e : l.head? = some h) : h ∈ l := by
  cases l with
  | nil => simp at e
  | cons a r => simp at e; simp [e]

/-- **every micro-step of every goroutine preserves the decorated invariant** -/
theorem ginv_step {c : Cfg} {gh : Ghost} (hc : CInv c) (hg : GInv c gh) (i : Nat) : GInv (c.step i) (ghStep c i gh) := by
  cases hi : c.gs[i]? with
  | none =>
    have e1 : c.step i = c := by simp [Cfg.step, hi]
    have e2 : ghStep c i gh = gh := by simp [ghStep, hi]
    rw [e1, e2]; exact hg
  | some g =>
    have hgm : g ∈ c.gs := mem_of_getElem? hi
    have gok := hc.gok g hgm
    have sp := stepG_spec hc.winv hc.nopend gok
    have ch := stepG_chspec g c.w
    have nc := stepG_nc g c.w
    have e1 : c.step i = { w := (stepG g c.w).w, gs := c.gs.set i (stepG g c.w).g ++ (stepG g c.w).spawned.toList } := by
      simp [Cfg.step, hi]
    have e2 : ghStep c i gh =
        { own := fun l => if l = c.w.nextLoader then
            (match (stepG g c.w).spawned with | some n => n.gid | none => g.gid) else gh.own l
          par := fun b => if b = c.w.nextGid then g.gid else gh.par b } := by
      simp [ghStep, hi]
    rw [e1, e2]
    generalize hr : stepG g c.w = r at sp ch nc
    -- facts about the new decoration
    have hown : ∀ l, l < c.w.nextLoader →
        (if l = c.w.nextLoader then (match r.spawned with | some n => n.gid | none => g.gid) else gh.own l) = gh.own l := by
      intro l hl; simp [Nat.ne_of_lt hl]
    have hanc : ∀ a b, b < c.w.nextGid → Anc gh.par a b → Anc (fun b => if b = c.w.nextGid then g.gid else gh.par b) a b :=
      fun a b hb h => Anc.update (fun x => Nat.ne_of_lt (hg.parLt x)) h (Nat.ne_of_lt hb)
    have hokm : ∀ b l, b < c.w.nextGid → l < c.w.nextLoader → OkFor gh b l →
        OkFor { own := fun l => if l = c.w.nextLoader then (match r.spawned with | some n => n.gid | none => g.gid) else gh.own l
                par := fun b => if b = c.w.nextGid then g.gid else gh.par b } b l := by
      intro b l hb hl h
      rcases h with h | h
      · exact Or.inl h
      · right; simp only [hown l hl]; exact hanc _ _ hb h
    have hnl : c.w.nextLoader ≤ r.w.nextLoader := sp.ldMono
    have hglt : g.gid < c.w.nextGid := gok.glt
    -- a step that does not spawn allocates for the stepping goroutine
    have hnosp : forkSrc g c.w = none → r.spawned = none := by
      intro hf
      cases hs : r.spawned with
      | none => rfl
      | some n => have := (ch.spawn n hs).1; rw [hf] at this; simp at this
    have hspn : ∀ n, r.spawned = some n → n.gid = c.w.nextGid ∧ n.started = false ∧ n.ctx0 = c.w.nextCtx ∧
        (∀ b, (b, c.w.nextCtx) ∉ r.w.estab) := by
      intro n hs
      obtain ⟨h1, h2, h3, h4, _⟩ := sp.spawned n hs
      exact ⟨h1, h3, h4, fun b => h4 ▸ (h2.unst h3).2.2.1 b⟩
    -- who a context of the new world is installed for
    have hest : ∀ b i', (b, i') ∈ r.w.estab → (b, i') ∈ c.w.estab ∨
        (b = g.gid ∧ (c.w.nextCtx ≤ i' ∨ (g.started = false ∧ i' = g.ctx0))) := by
      intro b i' h
      rcases sp.loc.est _ h with h | ⟨h1, h2⟩
      · exact Or.inl h
      · refine Or.inr ⟨h1, ?_⟩
        rcases h2 with h2 | h2
        · exact Or.inl h2
        · cases hs : g.started with
          | true => simp [hs] at h2
          | false => simp [hs] at h2; exact Or.inr ⟨rfl, h2⟩
    have hestg : ∀ b i', (b, i') ∈ r.w.estab → (g.gid, i') ∈ c.w.estab → b = g.gid := by
      intro b i' h h'
      rcases hest b i' h with h1 | h1
      · exact hc.winv.estabUniq _ _ _ h1 h'
      · exact h1.1
    have hchain : ∀ i', (r.w.ctxs i').loader = chainAfter g c.w i' := ch.chains
    -- the goroutines afterwards
    have hmem : ∀ g', g' ∈ c.gs.set i r.g ++ r.spawned.toList →
        g' = r.g ∨ (∃ j, j ≠ i ∧ c.gs[j]? = some g') ∨ r.spawned = some g' := by
      intro g' h; rw [← hr] at h ⊢; exact mem_step_cases hi h
    have hother : ∀ g' j, j ≠ i → c.gs[j]? = some g' → g'.gid ≠ g.gid :=
      fun g' j hj h => key_ne_of_nodup (fun x : GS => x.gid) c.gs j i g' g hc.gidNodup h hi hj
    -- contexts of other goroutines keep their chain
    have hkeep : ∀ b i', b ≠ g.gid → (b, i') ∈ c.w.estab → (r.w.ctxs i').loader = (c.w.ctxs i').loader := by
      intro b i' hb h
      rw [hchain]
      apply chainAfter_other gok
      · intro h'; exact hb (hc.winv.estabUniq _ _ _ h h')
      · exact Nat.ne_of_lt (hc.winv.estabLt _ _ h)
    have hkeepU : ∀ n, n ∈ c.gs → n.started = false → (r.w.ctxs n.ctx0).loader = (c.w.ctxs n.ctx0).loader := by
      intro n hn hs
      obtain ⟨_, h2, h3, _, _⟩ := (hc.gok n hn).unst hs
      rw [hchain]
      exact chainAfter_other gok (h3 g.gid) (Nat.ne_of_lt h2)
    refine ⟨Nat.le_trans hg.ldPos hnl, ?_, ?_, ?_, ?_, ?_, ?_, ?_, ?_, ?_, ?_, ?_⟩
    · -- fresh
      intro i' hi'
      show (r.w.ctxs i').loader = []
      rw [hchain]
      have hi'' : r.w.nextCtx ≤ i' := hi'
      have hge : c.w.nextCtx ≤ i' := Nat.le_trans sp.ctxMono hi'
      rcases chainAfter_split hc.winv gok i' with h | ⟨he, _⟩ | ⟨he, _⟩ | ⟨hn, cx, hf, _⟩ | ⟨hn, hm, _⟩
      · rw [h]; exact hg.fresh i' hge
      · exact absurd (hc.winv.estabLt _ _ he) (Nat.not_lt.mpr hge)
      · exact absurd (hc.winv.estabLt _ _ he) (Nat.not_lt.mpr hge)
      · have nc1 : r.w.nextCtx = c.w.nextCtx + 1 := by rw [hf] at nc; simpa using nc
        have hn' : (i' : Nat) = c.w.nextCtx := hn
        omega
      · have nc1 : r.w.nextCtx = c.w.nextCtx + 1 := by rw [hm] at nc; simpa using nc
        have hn' : (i' : Nat) = c.w.nextCtx := hn
        omega
    · -- chainLt
      intro i' (l : Nat) hl
      show l < r.w.nextLoader
      rw [hchain] at hl
      rcases chainAfter_split hc.winv gok i' with h | ⟨_, h, ha, _⟩ | ⟨_, k, hk, _⟩ | ⟨_, cx, _, _, ha, h⟩ | ⟨_, _, _, h⟩
      · rw [h] at hl; exact Nat.lt_of_lt_of_le (hg.chainLt i' l hl) hnl
      · rw [h] at hl
        have nl1 : r.w.nextLoader = c.w.nextLoader + 1 := by have := ch.nl; rw [ha] at this; simpa using this
        rcases List.mem_cons.1 hl with hl | hl
        · have hl' : (l : Nat) = c.w.nextLoader := hl
          omega
        · have h2 : (l : Nat) < c.w.nextLoader := hg.chainLt i' l hl
          omega
      · exact Nat.lt_of_lt_of_le (hg.restLt g hgm i' _ (by rw [hk]; exact List.mem_cons_self ..) l hl) hnl
      · rw [h] at hl
        have nl1 : r.w.nextLoader = c.w.nextLoader + 1 := by have := ch.nl; rw [ha] at this; simpa using this
        rcases List.mem_cons.1 hl with hl | hl
        · have hl' : (l : Nat) = c.w.nextLoader := hl
          omega
        · have h2 : (l : Nat) < c.w.nextLoader := hg.chainLt cx l hl
          omega
      · rw [h] at hl
        have h0 : (l : Nat) = 0 := by simpa using hl
        have h1 := hg.ldPos
        omega
    · -- restLt
      intro g' hg' cx l hf x hx
      show x < r.w.nextLoader
      rcases hmem g' hg' with h | ⟨j, hj, h⟩ | h
      · subst h
        rcases ch.rest cx l hf with h | ⟨p, k, hk, _, _, hl⟩
        · exact Nat.lt_of_lt_of_le (hg.restLt g hgm cx l h x hx) hnl
        · rw [hl] at hx; exact Nat.lt_of_lt_of_le (hg.chainLt cx x hx) hnl
      · exact Nat.lt_of_lt_of_le (hg.restLt g' (mem_of_getElem? h) cx l hf x hx) hnl
      · have := (ch.spawn g' h).2; rw [this] at hf; simp at hf
    · -- parLt
      intro x
      show (if x = c.w.nextGid then g.gid else gh.par x) < r.w.nextGid
      have hge : c.w.nextGid ≤ r.w.nextGid := by rw [sp.nextGid]; exact Nat.le_add_right _ _
      by_cases hx : x = c.w.nextGid
      · simp only [hx, if_true]; exact Nat.lt_of_lt_of_le hglt hge
      · simp only [hx, if_false]; exact Nat.lt_of_lt_of_le (hg.parLt x) hge
    · -- parLe
      intro x
      show (if x = c.w.nextGid then g.gid else gh.par x) ≤ x
      by_cases hx : x = c.w.nextGid
      · simp only [hx, if_true]; exact Nat.le_of_lt hglt
      · simp only [hx, if_false]; exact hg.parLe x
    · -- estGid
      intro b i' h
      show b < r.w.nextGid
      have hge : c.w.nextGid ≤ r.w.nextGid := by rw [sp.nextGid]; exact Nat.le_add_right _ _
      rcases hest b i' h with h | ⟨h, _⟩
      · exact Nat.lt_of_lt_of_le (hg.estGid b i' h) hge
      · rw [h]; exact Nat.lt_of_lt_of_le hglt hge
    · -- estChain
      intro b i' hbi l hl
      rw [hchain] at hl
      rcases chainAfter_split hc.winv gok i' with h | ⟨he, h, ha, hf, _⟩ | ⟨he, k, hk, _⟩ | ⟨hn, cx, hf, hecx, ha, h⟩ | ⟨_, _, _, h⟩
      · rw [h] at hl
        have hll := hg.chainLt i' l hl
        rcases hest b i' hbi with h1 | ⟨h1, h2⟩
        · exact hokm b l (hg.estGid b i' h1) hll (hg.estChain b i' h1 l hl)
        · rcases h2 with h2 | ⟨h2, h3⟩
          · rw [hg.fresh i' h2] at hl; simp at hl
          · subst h1; subst h3
            exact hokm g.gid l hglt hll (hg.unstChain g hgm h2 l hl)
      · have hb := hestg b i' hbi he
        subst hb
        rw [h] at hl
        rcases List.mem_cons.1 hl with hl | hl
        · right
          simp only [hl, if_true, hnosp hf]
          exact Anc.refl _
        · exact hokm g.gid l hglt (hg.chainLt i' l hl) (hg.estChain g.gid i' he l hl)
      · have hb := hestg b i' hbi he
        subst hb
        have hfr : Frame.restoreLoader i' (chainAfter g c.w i') ∈ g.k := by rw [hk]; exact List.mem_cons_self ..
        exact hokm g.gid l hglt (hg.restLt g hgm _ _ hfr l hl) ((hg.restore g hgm _ _ hfr).1 l hl)
      · subst hn
        have hb : b = g.gid := by
          rcases hest b _ hbi with h1 | ⟨h1, _⟩
          · exact absurd (hc.winv.estabLt _ _ h1) (Nat.lt_irrefl _)
          · exact h1
        subst hb
        have hns : r.spawned = none := by
          cases hs : r.spawned with
          | none => rfl
          | some n => exact absurd hbi ((hspn n hs).2.2.2 g.gid)
        rw [h] at hl
        rcases List.mem_cons.1 hl with hl | hl
        · right
          simp only [hl, if_true, hns]
          exact Anc.refl _
        · exact hokm g.gid l hglt (hg.chainLt cx l hl) (hg.estChain g.gid cx hecx l hl)
      · rw [h] at hl; simp at hl; exact Or.inl hl
    · -- unstChain
      intro n hn hns l hl
      rcases hmem n hn with h | ⟨j, hj, h⟩ | h
      · subst h; rw [sp.started] at hns; cases hns
      · have hnm := mem_of_getElem? h
        rw [hkeepU n hnm hns] at hl
        exact hokm n.gid l (hc.gok n hnm).glt (hg.chainLt _ l hl) (hg.unstChain n hnm hns l hl)
      · obtain ⟨h1, _, h3, _⟩ := hspn n h
        obtain ⟨hfs, _⟩ := ch.spawn n h
        cases hf : forkSrc g c.w with
        | none => rw [hf] at hfs; simp at hfs
        | some cx =>
          obtain ⟨_, _, _, _, hecx⟩ := forkSrc_cases gok hf
          rw [h3, hchain, chainAfter_fork gok hf] at hl
          rcases List.mem_cons.1 hl with hl | hl
          · right
            simp only [hl, if_true, h]
            exact Anc.refl _
          · have hll := hg.chainLt cx l hl
            rcases hg.estChain g.gid cx hecx l hl with h0 | ha
            · exact Or.inl h0
            · right
              simp only [hown l hll]
              refine Anc.up ?_
              simp only [h1, if_true]
              exact hanc _ _ hglt ha
    · -- unstHead
      intro n hn hns h hh
      rcases hmem n hn with h' | ⟨j, hj, h'⟩ | h'
      · subst h'; rw [sp.started] at hns; cases hns
      · have hnm := mem_of_getElem? h'
        have e : headOf r.w n.ctx0 = headOf c.w n.ctx0 := by simp only [headOf, hkeepU n hnm hns]
        rw [e] at hh
        have hlt : h < c.w.nextLoader := hg.chainLt _ h (head_mem hh)
        simp only [hown h hlt]
        exact hg.unstHead n hnm hns h hh
      · obtain ⟨h1, _, h3, _⟩ := hspn n h'
        obtain ⟨hfs, _⟩ := ch.spawn n h'
        cases hf : forkSrc g c.w with
        | none => rw [hf] at hfs; simp at hfs
        | some cx =>
          have : headOf r.w n.ctx0 = some c.w.nextLoader := by
            simp only [headOf, h3, hchain, chainAfter_fork gok hf]; rfl
          rw [this] at hh
          cases hh
          simp only [if_true, h']
          exact ⟨trivial, hg.ldPos⟩
    · -- runHead
      intro g' hg' hst p cx hf h hh
      have hh' : (chainAfter g c.w cx).head? = some h := by rw [← hchain]; exact hh
      rcases hmem g' hg' with e | ⟨j, hj, e⟩ | e
      · subst e
        rw [sp.gid]
        rcases ch.runs p cx hf with ⟨p', hp'⟩ | ⟨hcx, hfs, hns⟩
        · cases hgs : g.started with
          | false =>
            obtain ⟨_, h2, h3, _, q, hk⟩ := gok.unst hgs
            rw [hk] at hp'
            simp at hp'
            obtain ⟨_, hcx⟩ := hp'
            subst hcx
            rw [chainAfter_other gok (h3 g.gid) (Nat.ne_of_lt h2)] at hh'
            have hlt : h < c.w.nextLoader := hg.chainLt _ h (head_mem hh')
            simp only [hown h hlt]
            exact hg.unstHead g hgm hgs h hh'
          | true =>
            have he : (g.gid, cx) ∈ c.w.estab := stackOK_run (gok.st hgs) p' cx hp'
            rcases chainAfter_split hc.winv gok cx with h1 | ⟨_, h1, _, hfn, _⟩ | ⟨_, k, hk, _⟩ | ⟨hn, _⟩ | ⟨hn, _⟩
            · rw [h1] at hh'
              have hlt : h < c.w.nextLoader := hg.chainLt _ h (head_mem hh')
              simp only [hown h hlt]
              exact hg.runHead g hgm hgs p' cx hp' h hh'
            · rw [h1] at hh'
              simp at hh'
              subst hh'
              simp only [if_true, hnosp hfn]
              exact ⟨trivial, hg.ldPos⟩
            · have hfr : Frame.restoreLoader cx (chainAfter g c.w cx) ∈ g.k := by rw [hk]; exact List.mem_cons_self ..
              have hlt : h < c.w.nextLoader := hg.restLt g hgm _ _ hfr h (head_mem hh')
              simp only [hown h hlt]
              exact (hg.restore g hgm _ _ hfr).2 h hh'
            · exact absurd (hc.winv.estabLt _ _ he) (by rw [hn]; exact Nat.lt_irrefl _)
            · exact absurd (hc.winv.estabLt _ _ he) (by rw [hn]; exact Nat.lt_irrefl _)
        · cases hf' : forkSrc g c.w with
          | none => rw [hf'] at hfs; simp at hfs
          | some src =>
            rw [hcx, chainAfter_fork gok hf'] at hh'
            simp at hh'
            subst hh'
            simp only [if_true, hns]
            exact ⟨trivial, hg.ldPos⟩
      · have hgm' := mem_of_getElem? e
        have he : (g'.gid, cx) ∈ c.w.estab := stackOK_run ((hc.gok g' hgm').st hst) p cx hf
        have hk := hkeep g'.gid cx (hother g' j hj e) he
        have e' : headOf r.w cx = headOf c.w cx := by simp only [headOf, hk]
        rw [e'] at hh
        have hlt : h < c.w.nextLoader := hg.chainLt _ h (head_mem hh)
        simp only [hown h hlt]
        exact hg.runHead g' hgm' hst p cx hf h hh
      · rw [(hspn g' e).2.1] at hst; cases hst
    · -- restore
      intro g' hg' cx l hf
      rcases hmem g' hg' with e | ⟨j, hj, e⟩ | e
      · subst e
        rw [sp.gid]
        rcases ch.rest cx l hf with hold | ⟨p, k, hk, hgs, _, hl⟩
        · obtain ⟨r1, r2⟩ := hg.restore g hgm cx l hold
          refine ⟨fun x hx => hokm g.gid x hglt (hg.restLt g hgm cx l hold x hx) (r1 x hx), ?_⟩
          intro h hh
          have hlt : h < c.w.nextLoader := hg.restLt g hgm cx l hold h (head_mem hh)
          simp only [hown h hlt]
          exact r2 h hh
        · have hfr : Frame.run (.doloader p) cx ∈ g.k := by rw [hk]; exact List.mem_cons_self ..
          have he : (g.gid, cx) ∈ c.w.estab := stackOK_run (gok.st hgs) _ cx hfr
          subst hl
          refine ⟨fun x hx => hokm g.gid x hglt (hg.chainLt cx x hx) (hg.estChain g.gid cx he x hx), ?_⟩
          intro h hh
          have hlt : h < c.w.nextLoader := hg.chainLt cx h (head_mem hh)
          simp only [hown h hlt]
          exact hg.runHead g hgm hgs _ cx hfr h hh
      · have hgm' := mem_of_getElem? e
        obtain ⟨r1, r2⟩ := hg.restore g' hgm' cx l hf
        refine ⟨fun x hx => hokm g'.gid x (hc.gok g' hgm').glt (hg.restLt g' hgm' cx l hf x hx) (r1 x hx), ?_⟩
        intro h hh
        have hlt : h < c.w.nextLoader := hg.restLt g' hgm' cx l hf h (head_mem hh)
        simp only [hown h hlt]
        exact r2 h hh
      · have := (ch.spawn g' e).2; rw [this] at hf; simp at hf

/-! ## consequences -/

/-- the contexts of goroutine `b`: installed for `b`, or made for `b` which has not started yet -/
def CtxOf (c : Cfg) (b : Gid) (j : CtxId) : Prop :=
  (b, j) ∈ c.w.estab ∨ ∃ n ∈ c.gs, n.started = false ∧ n.gid = b ∧ n.ctx0 = j

/-- **a micro-step of `g` writes only loaders that belong to `g`** — never the shared environment loader, never a loader of
another goroutine -/
theorem defs_owned {c : Cfg} {gh : Ghost} (hc : CInv c) (hg : GInv c gh) {i : Nat} {g : GS} (hi : c.gs[i]? = some g)
    {l : LoaderId} (hl : l < c.w.nextLoader) (hne : gh.own l ≠ g.gid ∨ l = 0) : (c.step i).w.defs l = c.w.defs l := by
  have e : (c.step i).w = (stepG g c.w).w := by simp [Cfg.step, hi]
  rw [e]
  have hgm := mem_of_getElem? hi
  apply stepG_defs g c.w l hl
  intro q cx k hk heq
  have hh : headOf c.w cx = some l := heq.symm
  have hfr : Frame.run q cx ∈ g.k := by rw [hk]; exact List.mem_cons_self ..
  have : gh.own l = g.gid ∧ 1 ≤ l := by
    cases hs : g.started with
    | true => exact hg.runHead g hgm hs q cx hfr l hh
    | false =>
      obtain ⟨_, _, _, _, p, hk'⟩ := (hc.gok g hgm).unst hs
      rw [hk'] at hfr
      simp at hfr
      rw [hfr.2] at hh
      exact hg.unstHead g hgm hs l hh
  rcases hne with h | h
  · exact h this.1
  · have h1 : 1 ≤ l := this.2
    rw [h] at h1
    exact absurd h1 (by decide)

theorem loadEntry_congr (d d' : LoaderId → List (String × Bool)) (chain : List LoaderId) (n : String)
    (h : ∀ l ∈ chain, d' l = d l) : loadEntry d' chain n = loadEntry d chain n := by
  induction chain with
  | nil => rfl
  | cons l r ih =>
    simp only [loadEntry]
    rw [ih (fun l' hl' => h l' (List.mem_cons_of_mem _ hl')), h l (List.mem_cons_self ..)]

/-- **isolation of definitions under arbitrary interleavings**: whatever goroutine `g` does in one micro-step, a context of a
goroutine `b` that does not descend from `g` keeps its state and every `Load` through it answers as before -/
theorem loads_isolated {c : Cfg} {gh : Ghost} (hc : CInv c) (hg : GInv c gh) {i : Nat} {g : GS} (hi : c.gs[i]? = some g)
    {b : Gid} {j : CtxId} (hj : CtxOf c b j) (hna : ¬ Anc gh.par g.gid b) (n : String) :
    (c.step i).w.ctxs j = c.w.ctxs j ∧
    loadEntry (c.step i).w.defs (c.w.ctxs j).loader n = loadEntry c.w.defs (c.w.ctxs j).loader n := by
  have hgm := mem_of_getElem? hi
  have hbg : b ≠ g.gid := fun h => hna (h ▸ Anc.refl _)
  constructor
  · have e : (c.step i).w = (stepG g c.w).w := by simp [Cfg.step, hi]
    rw [e]
    have sp := stepG_spec hc.winv hc.nopend (hc.gok g hgm)
    rcases hj with hj | ⟨m, hm, hms, hmg, hmc⟩
    · apply sp.frame j (hc.winv.estabLt _ _ hj)
      · intro h; exact hbg (hc.winv.estabUniq _ _ _ hj h)
      · intro ⟨hs, hj0⟩
        exact ((hc.gok g hgm).unst hs).2.2.1 b (hj0 ▸ hj)
    · obtain ⟨_, h2, h3, _, _⟩ := (hc.gok m hm).unst hms
      subst hmc
      apply sp.frame m.ctx0 h2 (h3 g.gid)
      intro ⟨hs, hj0⟩
      exact hbg (hmg ▸ hc.ctx0Uniq m hm g hgm hms hs hj0)
  · apply loadEntry_congr
    intro l hl
    have hok : OkFor gh b l := by
      rcases hj with hj | ⟨m, hm, hms, hmg, hmc⟩
      · exact hg.estChain b j hj l hl
      · subst hmg; subst hmc; exact hg.unstChain m hm hms l hl
    apply defs_owned hc hg hi (hg.chainLt j l hl)
    rcases hok with h0 | ha
    · exact Or.inr h0
    · left
      intro h
      exact hna (h ▸ ha)

/-- … in particular for every goroutine older than `g`: its parent, its older siblings, their ancestors -/
theorem not_anc_of_lt {c : Cfg} {gh : Ghost} (hg : GInv c gh) {a b : Gid} (h : b < a) : ¬ Anc gh.par a b :=
  fun ha => absurd (Anc.le hg.parLe ha) (Nat.not_le.mpr h)

/-! ## reachable configurations -/

theorem init_step0 (p : Prog) : (Cfg.init p).step 0 =
    { w := note 0 0 (tlFresh 0 0 (newCtx { loader := [0] } {}).2)
      gs := [{ gid := 0, ctx0 := 0, started := true, k := [.parent 1000 false p 0, .restoreCtx none, .endRoot] }] } := by
  have h : dwcEnter 0 (newCtx { loader := [0] } ({} : World)).1 (newCtx { loader := [0] } ({} : World)).2 =
      some (none, note 0 0 (tlFresh 0 0 (newCtx { loader := [0] } {}).2)) := by
    unfold dwcEnter
    have : tlGet 0 ctxKey (newCtx { loader := [0] } ({} : World)).2 = none := rfl
    rw [this]
    simp only [tlSet_tlInit]
    rfl
  simp [Cfg.step, Cfg.init, stepG, doEnter, h]
  rfl

theorem ginv_init1 (p : Prog) : GInv ((Cfg.init p).step 0) (ghStep (Cfg.init p) 0 {}) := by
  rw [init_step0]
  have e2 : ghStep (Cfg.init p) 0 {} =
      { own := fun _ => 0, par := fun _ => 0 } := by
    simp [ghStep, Cfg.init, stepG, doEnter_spawned]
    funext b; by_cases hb : b = 1 <;> simp [hb]
  rw [e2]
  have hch : ∀ i, ((note 0 0 (tlFresh 0 0 (newCtx { loader := [0] } ({} : World)).2)).ctxs i).loader = if i = 0 then [0] else [] := by
    intro i
    by_cases hi : i = 0 <;> simp [note, tlFresh, newCtx, hi]
  refine ⟨Nat.le_refl 1, ?_, ?_, ?_, ?_, ?_, ?_, ?_, ?_, ?_, ?_, ?_⟩
  · intro i hi
    have : i ≠ 0 := by have : 1 ≤ i := hi; omega
    simp only [hch, this, if_false]
  · intro i l hl
    simp only [hch] at hl
    by_cases hi : i = 0
    · simp [hi] at hl; subst hl; exact Nat.zero_lt_one
    · simp [hi] at hl
  · intro g hg cx l hf; simp at hg; subst hg; simp at hf
  · intro x; exact Nat.zero_lt_one
  · intro x; exact Nat.zero_le _
  · intro b i h
    have : (b, i) = (0, 0) := by simpa [note, tlFresh, newCtx] using h
    cases this; exact Nat.zero_lt_one
  · intro b i h l hl
    simp only [hch] at hl
    by_cases hi : i = 0
    · simp [hi] at hl; exact Or.inl hl
    · simp [hi] at hl
  · intro n hn hs; simp at hn; subst hn; simp at hs
  · intro n hn hs; simp at hn; subst hn; simp at hs
  · intro g hg _ q cx hf; simp at hg; subst hg; simp at hf
  · intro g hg cx l hf; simp at hg; subst hg; simp at hf

/-- the decorated invariant holds in every reachable configuration but the initial one -/
theorem reachG_inv {p : Prog} {c : Cfg} {gh : Ghost} (h : ReachG p c gh) :
    (c = Cfg.init p ∧ gh = {}) ∨ (CInv c ∧ GInv c gh) := by
  induction h with
  | init => exact Or.inl ⟨rfl, rfl⟩
  | @step c gh i hr ih =>
    rcases ih with ⟨hc, hgh⟩ | ⟨hc, hg⟩
    · subst hc; subst hgh
      cases i with
      | zero => exact Or.inr ⟨cinv_init1 p, ginv_init1 p⟩
      | succ i =>
        left
        refine ⟨init_step_succ p i, ?_⟩
        simp [ghStep, Cfg.init]
    · exact Or.inr ⟨cinv_step hc i, ginv_step hc hg i⟩

/-- the decoration along a schedule of micro-steps -/
def ghSteps : List Nat → Cfg → Ghost → Ghost
  | [], _, gh => gh
  | i :: is, c, gh => ghSteps is (c.step i) (ghStep c i gh)

theorem reachG_steps {p : Prog} : ∀ (is : List Nat) {c : Cfg} {gh : Ghost}, ReachG p c gh →
    ReachG p (Cfg.steps is c) (ghSteps is c gh) := by
  intro is
  induction is with
  | nil => intro c gh h; exact h
  | cons i is ih => intro c gh h; exact ih (ReachG.step i h)

/-! ## any number of micro-steps of younger goroutines -/

/-- every micro-step of the schedule is taken by a goroutine younger than `b` -/
def YoungerOnly (b : Gid) : List Nat → Cfg → Prop
  | [], _ => True
  | i :: is, c => (∀ g, c.gs[i]? = some g → b < g.gid) ∧ YoungerOnly b is (c.step i)

theorem ctxOf_step {c : Cfg} (hc : CInv c) {i : Nat} {b : Gid} {j : CtxId} (hj : CtxOf c b j)
    (hy : ∀ g, c.gs[i]? = some g → b < g.gid) : CtxOf (c.step i) b j := by
  cases hi : c.gs[i]? with
  | none => have : c.step i = c := by simp [Cfg.step, hi]
            rw [this]; exact hj
  | some g =>
    have hgm := mem_of_getElem? hi
    have sp := stepG_spec hc.winv hc.nopend (hc.gok g hgm)
    have e : c.step i = { w := (stepG g c.w).w, gs := c.gs.set i (stepG g c.w).g ++ (stepG g c.w).spawned.toList } := by
      simp [Cfg.step, hi]
    rcases hj with hj | ⟨m, hm, hms, hmg, hmc⟩
    · left; rw [e]; exact sp.estMono _ hj
    · right
      obtain ⟨k, hk⟩ := List.mem_iff_getElem?.1 hm
      have hki : k ≠ i := by
        intro h; subst h
        rw [hi] at hk
        have := Option.some.inj hk
        have hlt := hy g hi
        rw [this, hmg] at hlt
        exact Nat.lt_irrefl _ hlt
      refine ⟨m, ?_, hms, hmg, hmc⟩
      rw [e]
      exact List.mem_append_left _ (mem_set_of_ne hk hki)

/-- **whatever goroutines younger than `b` do — any number of micro-steps, in any order, interleaved in any way — the contexts of
`b` keep their state and every `Load` through them answers as before** -/
theorem younger_invisible {p : Prog} : ∀ (is : List Nat) {c : Cfg} {gh : Ghost}, ReachG p c gh → c ≠ Cfg.init p →
    ∀ {b : Gid} {j : CtxId}, CtxOf c b j → YoungerOnly b is c → ∀ n : String,
    (Cfg.steps is c).w.ctxs j = c.w.ctxs j ∧
    loadEntry (Cfg.steps is c).w.defs (c.w.ctxs j).loader n = loadEntry c.w.defs (c.w.ctxs j).loader n := by
  intro is
  induction is with
  | nil => intro c gh _ _ b j _ _ n; exact ⟨rfl, rfl⟩
  | cons i is ih =>
    intro c gh h hn b j hj hy n
    rcases reachG_inv h with ⟨h0, _⟩ | ⟨hc, hg⟩
    · exact absurd h0 hn
    · have hstep : (c.step i).w.ctxs j = c.w.ctxs j ∧
          loadEntry (c.step i).w.defs (c.w.ctxs j).loader n = loadEntry c.w.defs (c.w.ctxs j).loader n := by
        cases hi : c.gs[i]? with
        | none => have : c.step i = c := by simp [Cfg.step, hi]
                  rw [this]; exact ⟨rfl, rfl⟩
        | some g => exact loads_isolated hc hg hi hj (not_anc_of_lt hg (hy.1 g hi)) n
      have hn' : c.step i ≠ Cfg.init p := by
        intro he
        have hc' := cinv_step hc i
        rw [he] at hc'
        have := (hc'.gok _ (List.mem_singleton.2 rfl)).st rfl
        simp [Cfg.init, StackOK, tlGet] at this
      obtain ⟨r1, r2⟩ := ih (ReachG.step i h) hn' (ctxOf_step hc hj hy.1) hy.2 n
      show (Cfg.steps is (c.step i)).w.ctxs j = _ ∧ loadEntry (Cfg.steps is (c.step i)).w.defs _ n = _
      rw [hstep.1] at r1 r2
      exact ⟨r1, r2.trans hstep.2⟩

end Pcore.Tls
